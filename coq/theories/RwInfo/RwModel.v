(* C12: executable model of x86::InstInternal::query_rw_info (asmjit/x86/x86instapi.cpp) over the generated RW tables
   (asmjit/x86/x86instdb.cpp).  The tables are a parameter (record [tables]); coq/gen/C12_X86RwTables.v instantiates it with
   the tables dumped from /repo's working tree on every run.  No proofs in this file (it must extract when a proof breaks). *)
From Coq Require Import NArith ZArith List Bool.
Import ListNotations.
Local Open Scope N_scope.

(* ------------------------------------------------------------------ tables of namespace InstDB *)
Record inst_row := { ir_a : N; ir_b : N; ir_addl : N; ir_avx512 : N; ir_cflags : N (* CommonInfo::_flags *) }.
Record addl_row := { ad_iflags : N; ad_rwflags : N; ad_feat : list N }.
Record rw_row := { rr_cat : N; rr_rm : N; rr_ops : list N }.
Record rw_op_row := { or_r : N; or_w : N; or_phys : N; or_clc : N; or_flags : N }.
Record rm_row := { rm_cat : N; rm_ops : N; rm_fixed : N; rm_flags : N; rm_feat : N }.
Record tables := {
  t_inst : list inst_row; t_addl : list addl_row; t_iflags : list N; t_rwflags : list (N * N);
  t_rwa : list rw_row; t_rwb : list rw_row; t_op : list rw_op_row; t_rm : list rm_row;
  t_ternlog : list N (* Inst::kIdVpternlogd/q *);
  t_group_mask : list N (* rw_reg_group_byte_mask_table of x86instapi.cpp, indexed by RegGroup *);
  t_vex_flags : N (* InstFlags::kVex | InstFlags::kEvex *) }.

Definition d_inst := {| ir_a := 0; ir_b := 0; ir_addl := 0; ir_avx512 := 0; ir_cflags := 0 |}.
Definition d_addl := {| ad_iflags := 0; ad_rwflags := 0; ad_feat := [] |}.
Definition d_rw := {| rr_cat := 0; rr_rm := 0; rr_ops := [] |}.
Definition d_op := {| or_r := 0; or_w := 0; or_phys := 255; or_clc := 0; or_flags := 0 |}.
Definition d_rm := {| rm_cat := 0; rm_ops := 0; rm_fixed := 0; rm_flags := 0; rm_feat := 0 |}.
Definition nthN {A} (l : list A) (i : N) (d : A) : A := nth (N.to_nat i) l d.

(* ------------------------------------------------------------------ operands *)
(* OReg regtype id | OMem size base(0 = absolute 64-bit, 1 = label, >= 2 = register) index(0 = none, else register kind + 100 * id;
   kind 1 = native GP, 11/12/13 = xmm/ymm/zmm) *)
Inductive operand := ONone | OReg (rt id : N) | OMem (size base index : N) | OImm (v : Z) | OLabel.

(* RegTraits of asmjit/core/operand.h for the x86 register types (checked against the build by the harness "T" line) *)
Definition reg_group (rt : N) : N :=
  match rt with
  | 7 | 8 | 9 | 10 | 11 | 12 | 13 | 15 => 1 | 16 => 2 | 17 => 4 | 25 => 10 | 26 => 11 | 27 => 12 | 28 => 3 | 29 => 13 | 30 => 14 | 31 => 15
  | _ => 0 end.
Definition reg_size (rt : N) : N :=
  match rt with
  | 2 | 3 => 1 | 4 => 2 | 5 => 4 | 6 => 8 | 7 => 1 | 8 => 2 | 9 => 4 | 10 => 8 | 11 => 16 | 12 => 32 | 13 => 64
  | 25 => 2 | 28 => 8 | 29 => 10 | 30 => 16 | 31 => 8 | _ => 0 end.
Definition rt_gp16 := 4. Definition rt_vec128 := 11. Definition rt_mask := 16. Definition rt_segment := 25.
Definition rt_control := 26. Definition rt_debug := 27. Definition rt_mm := 28.
Definition grp_gp := 0. Definition grp_vec := 1.

Definition is_reg o := match o with OReg _ _ => true | _ => false end.
Definition is_mem o := match o with OMem _ _ _ => true | _ => false end.
Definition is_imm o := match o with OImm _ => true | _ => false end.
Definition is_reg_or_mem o := is_reg o || is_mem o.
Definition is_reg_type t o := match o with OReg rt _ => rt =? t | _ => false end.
Definition is_reg_group g o := match o with OReg rt _ => reg_group rt =? g | _ => false end.
Definition is_gp := is_reg_group grp_gp.
Definition is_vec := is_reg_group grp_vec.
(* Operand_::x86_rm_size() = signature size field *)
Definition op_size o := match o with OReg rt _ => reg_size rt | OMem s _ _ => s | _ => 0 end.
Definition mem_has_base o := match o with OMem _ b _ => 2 <=? b | _ => false end.
Definition mem_has_index o := match o with OMem _ _ x => negb (x =? 0) | _ => false end.
Definition mem_off64 o := match o with OMem _ b _ => b =? 0 | _ => false end.

(* ------------------------------------------------------------------ constants (core/inst.h, x86instdb_p.h) *)
Definition fR := 1. Definition fW := 2. Definition fX := 3. Definition fRegM := 4. Definition fConsecutive := 8.
Definition fZExt := 16. Definition fRegPhys := 256. Definition fMemPhys := 512.
Definition fMemBaseRead := 4096. Definition fMemBaseRW := 12288. Definition fMemIndexRead := 16384. Definition fMemIndexRW := 49152.
Definition fMibRead := 20480.
Definition kMovOp := 1.
Definition optER := 262144. Definition optZMask := 8388608.
Definition kImplicitZ := 256.
Definition kIdBad := 255.
Definition rmFlagPextrw := 2. Definition rmFlagMovssMovsd := 4. Definition rmFlagFeatureIfRMI := 8.
Definition gpAx := 0. Definition gpDx := 2.
Definition cpuflags_oszapc := 1 + 2 + 4 + 8 + 256 + 512.

Definition ones64 := 18446744073709551615.
Definition test (a b : N) := negb (N.land a b =? 0).
Definition not64 x := N.lxor (N.land x ones64) ones64.
Definition lsb_mask (n : N) := if n =? 0 then 0 else N.shiftr ones64 (64 - N.min n 64).
(* Support::fill_trailing_bits: all bits below (and including) the most significant set bit *)
Definition fill_trailing (v : N) := if v =? 0 then 0 else N.ones (N.size v).
Definition clear (a b : N) := N.ldiff a b.
Definition u8 x := N.land x 255.

(* rw_reg_group_byte_mask_table is dumped from the build: field t_group_mask (was a hand-copied table until round 4) *)
Definition group_byte_mask (T : tables) (g : N) : N := nthN (t_group_mask T) g 0.

(* ------------------------------------------------------------------ results *)
Record op_rw := { o_flags : N; o_phys : N; o_rmsize : N; o_clc : N; o_r : N; o_w : N; o_e : N }.
Record rw_info := { i_flags : N; i_rmfeat : N; i_rf : N; i_wf : N; i_extra : op_rw; i_ops : list op_rw }.
Definition op_zero := {| o_flags := 0; o_phys := 0; o_rmsize := 0; o_clc := 0; o_r := 0; o_w := 0; o_e := 0 |}.

(* OpRWInfo::reset(flags, size, phys) *)
Definition op_reset (flags size phys : N) : op_rw :=
  let m := lsb_mask (N.min size 64) in
  {| o_flags := flags; o_phys := u8 phys; o_rmsize := if test flags fRegM then u8 size else 0; o_clc := 0;
     o_r := if test flags fR then m else 0; o_w := if test flags fW then m else 0; o_e := 0 |}.
Definition add_flags (o : op_rw) (f : N) := {| o_flags := N.lor (o_flags o) f; o_phys := o_phys o; o_rmsize := o_rmsize o; o_clc := o_clc o; o_r := o_r o; o_w := o_w o; o_e := o_e o |}.
Definition clr_flags (o : op_rw) (f : N) := {| o_flags := clear (o_flags o) f; o_phys := o_phys o; o_rmsize := o_rmsize o; o_clc := o_clc o; o_r := o_r o; o_w := o_w o; o_e := o_e o |}.
Definition set_rmsize (o : op_rw) (s : N) := {| o_flags := o_flags o; o_phys := o_phys o; o_rmsize := u8 s; o_clc := o_clc o; o_r := o_r o; o_w := o_w o; o_e := o_e o |}.
Definition set_r (o : op_rw) (m : N) := {| o_flags := o_flags o; o_phys := o_phys o; o_rmsize := o_rmsize o; o_clc := o_clc o; o_r := m; o_w := o_w o; o_e := o_e o |}.
Definition set_w (o : op_rw) (m : N) := {| o_flags := o_flags o; o_phys := o_phys o; o_rmsize := o_rmsize o; o_clc := o_clc o; o_r := o_r o; o_w := m; o_e := o_e o |}.
Definition set_e (o : op_rw) (m : N) := {| o_flags := o_flags o; o_phys := o_phys o; o_rmsize := o_rmsize o; o_clc := o_clc o; o_r := o_r o; o_w := o_w o; o_e := m |}.

(* rw_zero_extend_gp / rw_zero_extend_avx_vec / rw_zero_extend_non_vec *)
(* with fixes/C12-gp-partial-write-masks.patch: in 32-bit mode a 32-bit register that receives a narrower result reports the zeroed rest *)
Definition zext_gp (o : op_rw) (regsize native : N) : op_rw :=
  if regsize + 4 =? native then set_e (add_flags o fZExt) (N.land (not64 (o_w o)) 255)
  else if (regsize =? 4) && (native =? 4) then
    (let m := N.land (not64 (o_w o)) 15 in if m =? 0 then o else set_e (add_flags o fZExt) m)
  else o.
Definition zext_avx_vec (o : op_rw) : op_rw :=
  let m := not64 (fill_trailing (o_w o)) in if m =? 0 then o else set_e (add_flags o fZExt) m.
(* gm = rw_reg_group_byte_mask_table[reg group] *)
Definition zext_non_vec (o : op_rw) (gm : N) : op_rw :=
  let m := N.land (not64 (fill_trailing (o_w o))) gm in if m =? 0 then o else set_e (add_flags o fZExt) m.

Definition native_gp_size (arch64 : bool) : N := if arch64 then 8 else 4.

(* ------------------------------------------------------------------ the query *)
Record query := { q_arch64 : bool; q_id : N; q_options : N; q_extra_mask : bool; q_ops : list operand }.

Definition opn (ops : list operand) (k : nat) := nth k ops ONone.
Definition upd {A} (l : list A) (k : nat) (f : A -> A) : list A :=
  (fix go (l : list A) (k : nat) := match l, k with [] , _ => [] | x :: r, O => f x :: r | x :: r, S k' => x :: go r k' end) l k.

(* rw_handle_avx512 *)
Definition handle_avx512 (q : query) (avx512 : N) (out : rw_info) : rw_info :=
  if q_extra_mask q && negb (Nat.eqb (length (i_ops out)) 0) then
    let ex := set_r (add_flags (i_extra out) fR) 255 in
    let ops := if negb (test (q_options q) optZMask) && negb (test avx512 kImplicitZ)
               then upd (i_ops out) 0 (fun o => set_r (add_flags o fR) (N.lor (o_r o) (o_w o))) else i_ops out in
    {| i_flags := i_flags out; i_rmfeat := i_rmfeat out; i_rf := i_rf out; i_wf := i_wf out; i_extra := ex; i_ops := ops |}
  else out.

(* one operand of the generic path; returns the operand info (before the Reg/Mem post-pass) *)
(* with fixes/C12-legacy-sse-keeps-upper-bits.patch: a legacy (not VEX/EVEX/XOP) instruction does not clear bits above the destination *)
Definition legacy_vec_clip (vexlike : bool) (rt : N) (o : op_rw) : op_rw :=
  if (reg_group rt =? grp_vec) && negb vexlike then
    let m := N.land (o_e o) (lsb_mask (N.min (reg_size rt) 64)) in
    if m =? 0 then set_e (clr_flags o fZExt) 0 else set_e o m
  else o.

Definition generic_op_v (T : tables) (vexlike : bool) (native : N) (row : rw_row) (i : nat) (src : operand) : op_rw :=
  let d := nthN (t_op T) (nth i (rr_ops row) 0) d_op in
  (* [i] is the index of the record's entry: the operand's position, or its entry in the explicit form (see select_row) *)
  if negb (is_reg_or_mem src) then op_zero else
  let fl := clear (or_flags d) fZExt in
  let r := if test fl fR && (or_r d =? 0) then lsb_mask (op_size src) else or_r d in
  let w := if test fl fW && (or_w d =? 0) then lsb_mask (op_size src) else or_w d in
  let o := {| o_flags := fl; o_phys := or_phys d; o_rmsize := 0; o_clc := or_clc d; o_r := r; o_w := w; o_e := 0 |} in
  match src with
  | OReg rt _ =>
      if test fl fW then
        if reg_group rt =? grp_gp then zext_gp o (reg_size rt) native
        else if test (or_flags d) fZExt then legacy_vec_clip vexlike rt (zext_non_vec o (group_byte_mask T (reg_group rt))) else o
      else o
  | _ =>
      let o := if mem_has_base src && negb (test (o_flags o) fMemBaseRW) then add_flags o fMemBaseRead else o in
      if mem_has_index src && negb (test (o_flags o) fMemIndexRW) then add_flags o fMemIndexRead else o
  end.

(* the VEX/EVEX/XOP view (the one the byte-level theorems about vector registers speak of) *)
Definition generic_op (T : tables) := generic_op_v T true.

Fixpoint mapi {A B} (f : nat -> A -> B) (i : nat) (l : list A) : list B :=
  match l with [] => [] | x :: r => f i x :: mapi f (S i) r end.

Definition same_reg_type (ops : list operand) : bool :=
  match ops with
  | OReg rt0 _ :: r => forallb (fun o => match o with OReg rt _ => rt =? rt0 | _ => false end) r
  | _ => false end.

Definition rm_size_of (rm : rm_row) (src : operand) (maxsz : N) : option N :=
  match rm_cat rm with
  | 1 => Some (rm_fixed rm) | 2 => Some (op_size src) | 3 => Some (maxsz / 2) | 4 => Some (maxsz / 4) | 5 => Some (maxsz / 8) | _ => None end.

Definition set_info (out : rw_info) (iflags rmfeat : N) (ops : list op_rw) : rw_info :=
  {| i_flags := iflags; i_rmfeat := rmfeat; i_rf := i_rf out; i_wf := i_wf out; i_extra := i_extra out; i_ops := ops |}.

(* rw_info_of (with fixes/C12-implicit-operand-shapes.patch): the record for [nops] operands and the map operand -> entry.  When the
   operands given are exactly a generic record's entries without its fixed (implicit) registers / memory, each operand is described by
   its own entry (div(ecx), cmpxchg(ebx, ecx), cmpxchg8b(mem), blendvps(xmm1, xmm2)); record B is tried before record A. *)
Definition entry_count (row : rw_row) : nat :=
  fold_left (fun acc p => if snd p =? 0 then acc else S (fst p)) (combine (seq 0 6) (rr_ops row)) 0%nat.
Definition fixed_entry (T : tables) (row : rw_row) (i : nat) : bool :=
  test (or_flags (nthN (t_op T) (nth i (rr_ops row) 0) d_op)) (fRegPhys + fMemPhys).
Definition implicit_map (T : tables) (row : rw_row) (nops : nat) : option (list nat) :=
  if 1 <? rr_cat row then None else
  let n := entry_count row in
  let m := filter (fun i => negb (fixed_entry T row i)) (seq 0 n) in
  if negb (Nat.eqb (length m) n) && Nat.eqb (length m) nops then Some m else None.
Definition select_row (T : tables) (ii : inst_row) (nops : nat) : rw_row * list nat :=
  let rb := nthN (t_rwb T) (ir_b ii) d_rw in
  let ra := nthN (t_rwa T) (ir_a ii) d_rw in
  let sel := if Nat.eqb nops 2 then ra else rb in
  if (rr_cat sel <=? 1) && negb (Nat.eqb (entry_count sel) nops) then
    match implicit_map T rb nops with
    | Some m => (rb, m)
    | None => match implicit_map T ra nops with Some m => (ra, m) | None => (sel, seq 0 6) end
    end
  else (sel, seq 0 6).

Definition generic (T : tables) (q : query) (vexlike : bool) (row : rw_row) (omap : list nat) (rm : rm_row) (avx512 : N) (out0 : rw_info) : rw_info :=
  let ops := q_ops q in
  let native := native_gp_size (q_arch64 q) in
  let outs := mapi (fun i src => generic_op_v T vexlike native row (nth i omap i) src) 0 ops in
  let regmask := fold_left (fun acc p => if is_reg (snd p) && N.testbit (rm_ops rm) (N.of_nat (nth (fst p) omap (fst p)))
                                         then N.lor acc (N.shiftl 1 (N.of_nat (fst p))) else acc) (combine (seq 0 (length ops)) ops) 0 in
  let maxsz := fold_left (fun acc o => if is_reg o then N.max acc (op_size o) else acc) ops 0 in
  let nops := length ops in
  let iflags := if test (i_flags out0) kMovOp then
                  if (Nat.leb 2 nops) && forallb is_reg ops && same_reg_type ops then i_flags out0 else clear (i_flags out0) kMovOp
                else i_flags out0 in
  let fl := rm_flags rm in
  (* special cases *)
  let '(outs, rmfeat, regmask) :=
    if test fl (rmFlagMovssMovsd + rmFlagPextrw + rmFlagFeatureIfRMI) then
      if test fl rmFlagMovssMovsd then
        (if Nat.eqb nops 2 && is_reg (opn ops 0) && is_reg (opn ops 1) then upd outs 0 (fun o => set_e o 0) else outs, i_rmfeat out0, regmask)
      else if test fl rmFlagPextrw then
        if Nat.eqb nops 3 && is_reg_type rt_mm (opn ops 1) then (outs, 0, 0) else (outs, i_rmfeat out0, regmask)
      else
        if negb (Nat.eqb nops 3) || negb (is_imm (opn ops 2)) then (outs, 0, regmask) else (outs, i_rmfeat out0, regmask)
    else (outs, i_rmfeat out0, regmask) in
  (* with fixes/C12-regmem-single-candidate.patch: several flagged register operands -> only the one the all-register form encodes in
     ModRM.rm (GP side of a move between register files; last source of a three-operand form) *)
  let rmmask :=
    if negb (N.land regmask (regmask - 1) =? 0) then
      match ops with
      | [OReg ta _; OReg tb _] =>
          if negb (reg_group ta =? reg_group tb) then
            (if reg_group ta =? grp_gp then 1 else if reg_group tb =? grp_gp then 2 else regmask)
          else regmask
      | [_; _; _] => if regmask =? 6 then 4 else regmask
      | _ => regmask
      end
    else regmask in
  let outs :=
    if negb (rmmask =? 0) && negb (test (q_options q) optER) then
      mapi (fun i o => if N.testbit rmmask (N.of_nat i) then
                         let o := add_flags o fRegM in
                         match rm_size_of rm (opn ops i) maxsz with Some s => set_rmsize o s | None => o end
                       else o) 0 outs
    else outs in
  let outs :=
    if (rr_cat row =? 1) && existsb (N.eqb (q_id q)) (t_ternlog T) then
      match nops, opn ops 3 with
      | 4%nat, OImm v => let p := Z.to_N (Z.land v 255) in
                         if N.shiftr p 4 =? N.land p 15 then upd outs 0 (fun o => set_r (clr_flags o fR) 0) else outs
      | _, _ => outs end
    else outs in
  handle_avx512 q avx512 (set_info out0 iflags rmfeat outs).

Definition with_ops (out : rw_info) (ops : list op_rw) : rw_info := set_info out (i_flags out) (i_rmfeat out) ops.
Definition with_iflags (out : rw_info) (f : N) : rw_info := set_info out f (i_rmfeat out) (i_ops out).
Definition with_wf (out : rw_info) (wf : N) : rw_info :=
  {| i_flags := i_flags out; i_rmfeat := i_rmfeat out; i_rf := i_rf out; i_wf := wf; i_extra := i_extra out; i_ops := i_ops out |}.
Definition add_mib_if_mem (src : operand) (o : op_rw) := if is_mem src then add_flags o fMibRead else o.

(* kCategoryMov *)
Definition cat_mov (q : query) (out : rw_info) : option rw_info :=
  let native := native_gp_size (q_arch64 q) in
  let out := with_iflags out (clear (i_flags out) kMovOp) in
  match q_ops q with
  | [a; b] =>
    let sa := op_size a in let sb := op_size b in
    let is_seg := is_reg_type rt_segment in
    let is_crdr o := is_reg_type rt_control o || is_reg_type rt_debug o in
    if is_reg a && is_reg b && is_gp a && is_gp b then
      Some (with_iflags (with_ops out [zext_gp (op_reset (fW + fRegM) sa kIdBad) sa native; op_reset (fR + fRegM) sb kIdBad]) (N.lor (i_flags out) kMovOp))
    else if is_reg a && is_reg b && is_gp a && is_seg b then
      Some (with_ops out [set_rmsize (op_reset (fW + fRegM) (if sa =? 2 then 2 else native) kIdBad) 2; op_reset fR 2 kIdBad])
    else if is_reg a && is_reg b && is_seg a && is_gp b then
      Some (with_ops out [op_reset fW 2 kIdBad; set_rmsize (op_reset (fR + fRegM) 2 kIdBad) 2])
    else if is_reg a && is_reg b && ((is_gp a && is_crdr b) || (is_crdr a && is_gp b)) then
      Some (with_wf (with_ops out [op_reset fW native kIdBad; op_reset fR native kIdBad]) cpuflags_oszapc)
    else if is_reg a && is_mem b && is_gp a then
      let o0 := if negb (mem_off64 b) then op_reset fW sa kIdBad else op_reset (fW + fRegPhys) sa gpAx in
      Some (with_ops out [zext_gp o0 sa native; op_reset (fR + fMibRead) sa kIdBad])
    else if is_reg a && is_mem b && is_seg a then
      Some (with_ops out [op_reset fW 2 kIdBad; op_reset fR 2 kIdBad])
    else if is_mem a && is_reg b && is_gp b then
      Some (with_ops out [op_reset (fW + fMibRead) sb kIdBad; if negb (mem_off64 a) then op_reset fR sb kIdBad else op_reset (fR + fRegPhys) sb gpAx])
    else if is_mem a && is_reg b && is_seg b then
      Some (with_ops out [op_reset (fW + fMibRead) 2 kIdBad; op_reset fR 2 kIdBad])
    else if is_gp a && is_imm b then
      Some (with_ops out [zext_gp (op_reset (fW + fRegM) sa kIdBad) sa native; op_zero])
    else if is_mem a && is_imm b then
      Some (with_ops out [op_reset (fW + fMibRead) sa kIdBad; op_zero])
    else None
  | _ => None
  end.

(* kCategoryMovabs *)
Definition cat_movabs (q : query) (out : rw_info) : option rw_info :=
  let native := native_gp_size (q_arch64 q) in
  match q_ops q with
  | [a; b] =>
    let sa := op_size a in let sb := op_size b in
    if is_gp a && is_mem b then Some (with_ops out [zext_gp (op_reset (fW + fRegPhys) sa gpAx) sa native; op_reset (fR + fMibRead) sa kIdBad])
    else if is_mem a && is_gp b then Some (with_ops out [op_reset (fW + fMibRead) sb kIdBad; op_reset (fR + fRegPhys) sb gpAx])
    else if is_gp a && is_imm b then Some (with_ops out [zext_gp (op_reset fW sa kIdBad) sa native; op_zero])
    else None
  | _ => None
  end.

(* kCategoryImul *)
Definition cat_imul (q : query) (out : rw_info) : option rw_info :=
  let native := native_gp_size (q_arch64 q) in
  match q_ops q with
  | [a] => Some (with_ops out [add_mib_if_mem a (op_reset (fR + fRegM) (op_size a) kIdBad)])   (* fixes/C12-imul-implicit-shape.patch *)
  | [a; b] =>
    let sa := op_size a in
    if is_reg a && is_imm b then Some (with_ops out [zext_gp (op_reset fX sa kIdBad) sa native; op_zero])
    else if is_reg_type rt_gp16 a && (op_size b =? 1) then
      Some (with_ops out [set_r (op_reset (fX + fRegPhys) 2 gpAx) (lsb_mask 1); add_mib_if_mem b (op_reset (fR + fRegM) 1 kIdBad)])
    else Some (with_ops out [zext_gp (op_reset fX sa kIdBad) sa native; add_mib_if_mem b (op_reset (fR + fRegM) sa kIdBad)])
  | [a; b; c] =>
    let sa := op_size a in let sb := op_size b in let sc := op_size c in
    if is_imm c then Some (with_ops out [zext_gp (op_reset fW sa kIdBad) sa native; add_mib_if_mem b (op_reset (fR + fRegM) sb kIdBad); op_zero])
    else Some (with_ops out [zext_gp (op_reset (fW + fRegPhys) sa gpDx) sa native; zext_gp (op_reset (fX + fRegPhys) sb gpAx) sb native;
                             add_mib_if_mem c (op_reset (fR + fRegM) sc kIdBad)])
  | _ => None
  end.

(* kCategoryMovh64 *)
Definition cat_movh64 (q : query) (out : rw_info) : option rw_info :=
  match q_ops q with
  | [a; b] =>
    if is_vec a && is_mem b then Some (with_ops out [set_w (op_reset fW 8 kIdBad) (N.shiftl (lsb_mask 8) 8); op_reset (fR + fMibRead) 8 kIdBad])
    else if is_mem a && is_vec b then Some (with_ops out [op_reset (fW + fMibRead) 8 kIdBad; set_r (op_reset fR 8 kIdBad) (N.shiftl (lsb_mask 8) 8)])
    else None
  | _ => None
  end.

(* kCategoryPunpcklxx (with fixes/C12-punpckl-read-mask.patch: both 128-bit operands read their low 8 bytes; the pinned code
   reported read mask 0x0F0F for operand 0 and set a *write* mask 0x0F0F on operand 1).  The checks of operand 1 come after
   operand 0's data were stored (irrelevant for the returned value when the result is an error). *)
Definition cat_punpcklxx (q : query) (out : rw_info) : option rw_info :=
  match q_ops q with
  | [a; b] =>
    let v128 := [set_w (set_r (op_reset fX 16 kIdBad) 255) 65535; set_r (op_reset fR 16 kIdBad) 255] in
    let mm := [set_w (set_r (op_reset fX 8 kIdBad) 15) 255; set_r (op_reset fR 4 kIdBad) 15] in
    if is_reg_type rt_vec128 a && is_reg_type rt_vec128 b then Some (with_ops out v128)
    else if is_reg_type rt_vec128 a && is_mem b then Some (with_ops out (upd v128 1 (fun o => add_flags o fMibRead)))
    else if is_reg_type rt_mm a && is_reg_type rt_mm b then Some (with_ops out mm)
    else if is_reg_type rt_mm a && is_mem b then Some (with_ops out (upd mm 1 (fun o => add_flags o fMibRead)))
    else None
  | _ => None
  end.

(* kCategoryVmaskmov *)
Definition cat_vmaskmov (q : query) (out : rw_info) : option rw_info :=
  match q_ops q with
  | [a; b; c] =>
    if is_vec a && is_vec b && is_mem c then
      Some (with_ops out [zext_avx_vec (op_reset fW (op_size a) kIdBad); op_reset fR (op_size b) kIdBad; op_reset (fR + fMibRead) (op_size b) kIdBad])
    else if is_mem a && is_vec b && is_vec c then
      Some (with_ops out [op_reset (fX + fMibRead) (op_size b) kIdBad; op_reset fR (op_size b) kIdBad; op_reset fR (op_size c) kIdBad])
    else None
  | _ => None
  end.

(* kCategoryVmovddup *)
Definition cat_vmovddup (q : query) (avx512 : N) (out : rw_info) : option rw_info :=
  match q_ops q with
  | [a; b] =>
    let s0 := op_size a in let s1 := if s0 =? 16 then 8 else s0 in
    if is_vec a && is_vec b then
      let o1 := op_reset (fR + fRegM) s1 kIdBad in
      Some (handle_avx512 q avx512 (with_ops out [zext_avx_vec (op_reset fW s0 kIdBad); set_r o1 (N.land (o_r o1) 71777214294589695)]))
    else if is_vec a && is_mem b then
      Some (handle_avx512 q avx512 (with_ops out [zext_avx_vec (op_reset fW s0 kIdBad); op_reset (fR + fMibRead) s1 kIdBad]))
    else None
  | _ => None
  end.

(* kCategoryVmovmskpd / kCategoryVmovmskps *)
Definition cat_vmovmsk (q : query) (out : rw_info) : option rw_info :=
  let native := native_gp_size (q_arch64 q) in
  match q_ops q with
  | [a; b] =>
    if is_gp a && is_vec b then Some (with_ops out [set_e (op_reset fW 1 kIdBad) (N.shiftl (N.ones (native - 1)) 1); op_reset fR (op_size b) kIdBad])
    else None
  | _ => None
  end.

(* kCategoryVmov1_2 / 1_4 / 1_8 (destination narrower); with fixes/C12-vmov-narrow-mem-mask.patch the reg <- mem branch also goes
   through rw_handle_avx512 (the pinned code returned without it) *)
Definition cat_vmov_narrow (q : query) (shift : N) (rm : rm_row) (avx512 : N) (out : rw_info) : option rw_info :=
  let native := native_gp_size (q_arch64 q) in
  let tail := match q_ops q with [_; _; _] => [op_zero] | _ => [] end in
  match q_ops q with
  | a :: b :: r =>
    if Nat.ltb 1 (length r) then None else
    if is_reg a && is_reg b then
      let s1 := op_size b in let s0 := N.shiftr s1 shift in
      let o0 := op_reset fW s0 kIdBad in let o1 := op_reset fR s1 kIdBad in
      let o0 := if test (rm_ops rm) 1 then set_rmsize (add_flags o0 fRegM) s0 else o0 in
      let o1 := if test (rm_ops rm) 2 then set_rmsize (add_flags o1 fRegM) s1 else o1 in
      let o0 := if is_gp a then zext_gp o0 (op_size a) native else o0 in
      let o0 := if is_vec a then zext_avx_vec o0 else o0 in
      Some (handle_avx512 q avx512 (with_ops out (o0 :: o1 :: tail)))
    else if is_reg a && is_mem b then
      let s1 := if op_size b =? 0 then 16 else op_size b in let s0 := N.shiftr s1 shift in
      let o0 := op_reset fW s0 kIdBad in
      Some (handle_avx512 q avx512 (with_ops out ((if is_vec a then zext_avx_vec o0 else o0) :: op_reset (fR + fMibRead) s1 kIdBad :: tail)))
    else if is_mem a && is_reg b then
      let s1 := op_size b in let s0 := N.shiftr s1 shift in
      Some (handle_avx512 q avx512 (with_ops out (op_reset (fW + fMibRead) s0 kIdBad :: op_reset fR s1 kIdBad :: tail)))
    else None
  | _ => None
  end.

(* kCategoryVmov2_1 / 4_1 / 8_1 (destination wider) *)
Definition cat_vmov_widen (q : query) (shift : N) (rm : rm_row) (avx512 : N) (out : rw_info) : option rw_info :=
  let tail := match q_ops q with [_; _; _] => [op_zero] | _ => [] end in
  match q_ops q with
  | a :: b :: r =>
    if Nat.ltb 1 (length r) then None else
    let s0 := op_size a in let s1 := N.shiftr s0 shift in
    let o0 := op_reset fW s0 kIdBad in let o1 := op_reset fR s1 kIdBad in
    let o0 := if is_vec a then zext_avx_vec o0 else o0 in
    if is_reg a && is_reg b then
      let o0 := if test (rm_ops rm) 1 then set_rmsize (add_flags o0 fRegM) s0 else o0 in
      let o1 := if test (rm_ops rm) 2 then set_rmsize (add_flags o1 fRegM) s1 else o1 in
      Some (handle_avx512 q avx512 (with_ops out (o0 :: o1 :: tail)))
    else if is_reg a && is_mem b then
      Some (handle_avx512 q avx512 (with_ops out (o0 :: add_flags o1 fMibRead :: tail)))
    else None
  | _ => None
  end.

(* x86::InstInternal::query_rw_info; None = kInvalidInstruction *)
Definition query_rw_info (T : tables) (q : query) : option rw_info :=
  if negb (q_id q <? N.of_nat (length (t_inst T))) then None else
  if Nat.ltb 6 (length (q_ops q)) then None else
  let ii := nthN (t_inst T) (q_id q) d_inst in
  let ad := nthN (t_addl T) (ir_addl ii) d_addl in
  let rwf := nthN (t_rwflags T) (ad_rwflags ad) (0, 0) in
  let '(row, omap) := select_row T ii (length (q_ops q)) in
  let rm := nthN (t_rm T) (rr_rm row) d_rm in
  let out := {| i_flags := nthN (t_iflags T) (ad_iflags ad) 0; i_rmfeat := rm_feat rm; i_rf := fst rwf; i_wf := snd rwf;
                i_extra := op_zero; i_ops := [] |} in
  let av := ir_avx512 ii in
  match rr_cat row with
  | 0 | 1 => Some (generic T q (test (ir_cflags ii) (t_vex_flags T)) row omap rm av out)
  | 2 => cat_mov q out
  | 3 => cat_movabs q out
  | 4 => cat_imul q out
  | 5 => cat_movh64 q out
  | 6 => cat_punpcklxx q out
  | 7 => cat_vmaskmov q out
  | 8 => cat_vmovddup q av out
  | 9 | 10 => cat_vmovmsk q out
  | 11 => cat_vmov_narrow q 1 rm av out
  | 12 => cat_vmov_narrow q 2 rm av out
  | 13 => cat_vmov_narrow q 3 rm av out
  | 14 => cat_vmov_widen q 1 rm av out
  | 15 => cat_vmov_widen q 2 rm av out
  | 16 => cat_vmov_widen q 3 rm av out
  | _ => None
  end.

(* C12 <-> C05: the register allocator's validator (C05, Verif.RegAlloc.RwRuleProofs) ASSUMES a reading of the RW byte masks:
   byte i of a written register becomes the result byte if i is in the write mask, 0 if it is only in the extend mask, and keeps its
   old value otherwise (hw_byte, on registers as integers).  C12 PROVES, for general-purpose destinations, that the masks its model of
   query_rw_info reports have exactly this meaning with respect to the architectural partial-write semantics (RegWrite.gp_write, on
   registers as byte lists).  This file connects the two representations, so that the two theorems compose. *)
From Coq Require Import ZArith NArith List Bool Arith Lia.
From Verif Require Import RwInfo.RwModel RwInfo.RegWrite RwInfo.RegWriteProofs RegAlloc.RwRuleModel RegAlloc.RwRuleProofs.
Import ListNotations.

(* little-endian value of a byte list *)
Fixpoint z_of_bytes (l : list N) : Z :=
  match l with [] => 0%Z | b :: r => (Z.of_N b + 256 * z_of_bytes r)%Z end.

Definition bytes_ok (l : list N) : Prop := Forall (fun b => (b < 256)%N) l.

Lemma z_of_bytes_nonneg l : (0 <= z_of_bytes l)%Z.
Proof. induction l as [|b r IH]; cbn [z_of_bytes]; lia. Qed.

Lemma byte_z_of_bytes l : bytes_ok l -> forall i, byte i (z_of_bytes l) = Z.of_N (byte_at l i).
Proof.
  unfold byte, byte_at. induction l as [|b r IH]; intros Hok i.
  - simpl. destruct i; simpl; rewrite Zdiv_0_l; reflexivity.
  - inversion Hok as [|? ? Hb Hr]; subst. cbn [z_of_bytes].
    assert (Bb : (0 <= Z.of_N b < 256)%Z) by lia.
    destruct i as [|i].
    + change (Z.of_nat 0) with 0%Z. rewrite Z.pow_0_r, Z.div_1_r. cbn [nth].
      rewrite Z.mul_comm, Z_mod_plus_full. apply Z.mod_small; exact Bb.
    + cbn [nth]. rewrite <- (IH Hr i).
      replace (256 ^ Z.of_nat (S i))%Z with (256 * 256 ^ Z.of_nat i)%Z by (rewrite Nat2Z.inj_succ, Z.pow_succ_r by lia; reflexivity).
      rewrite <- Z.div_div by (try lia; apply Z.pow_pos_nonneg; lia).
      replace ((Z.of_N b + 256 * z_of_bytes r) / 256)%Z with (z_of_bytes r).
      * reflexivity.
      * rewrite Z.add_comm, Z.mul_comm, Z.div_add_l by lia. rewrite (Z.div_small (Z.of_N b)) by exact Bb. lia.
Qed.

(* The bridge: for every low-aligned GP destination (AL-style, 16/32/64-bit), both modes, every old register content and value, C05's
   assumed reading of the masks reported by C12's model equals the architectural result byte. *)
Theorem hw_byte_is_gp_write mode64 d old val i :
  d <> D8hi -> bytes_ok old -> bytes_ok val -> (i < 8)%nat ->
  let o := reported_gp mode64 d (dest_size d) in
  hw_byte (o_w o) (o_e o) (z_of_bytes old) (z_of_bytes val) i = Z.of_N (byte_at (gp_write mode64 d (dest_size d) old val) i).
Proof.
  intros Hd Ho Hv Hi o. pose proof (gp_bytes_exact_full mode64 d old val i Hi) as E.
  unfold gp_byte_spec in E. fold o in E. rewrite E.
  assert (Off : dest_offset d = 0%nat) by (destruct d; try reflexivity; contradiction Hd; reflexivity).
  rewrite Off. simpl Nat.leb. rewrite Nat.sub_0_r. cbn [andb].
  unfold hw_byte, mbit. rewrite !(byte_z_of_bytes _ Ho), !(byte_z_of_bytes _ Hv).
  destruct (N.testbit (o_w o) (N.of_nat i)); [reflexivity|].
  destruct (N.testbit (o_e o) (N.of_nat i)); reflexivity.
Qed.

(* the same for a 1..4-byte value zero-extended into a 32-bit destination (pextrw/movmskps/kmovw r32), 64- and 32-bit mode *)
Theorem hw_byte_is_gp_write_zx mode64 vw old val i :
  (1 <= vw <= 4)%nat -> bytes_ok old -> bytes_ok val -> (i < 8)%nat ->
  let o := reported_gp mode64 D32 vw in
  hw_byte (o_w o) (o_e o) (z_of_bytes old) (z_of_bytes val) i = Z.of_N (byte_at (gp_write mode64 D32 vw old val) i).
Proof.
  intros Hv Ho Hval Hi o.
  assert (E : gp_byte_spec mode64 D32 vw old val i) by (destruct mode64; [apply gp_bytes_exact_zx64 | apply gp_bytes_exact_zx32]; assumption).
  unfold gp_byte_spec in E. fold o in E. rewrite E. simpl dest_offset. simpl Nat.leb. rewrite Nat.sub_0_r. cbn [andb].
  unfold hw_byte, mbit. rewrite !(byte_z_of_bytes _ Ho), !(byte_z_of_bytes _ Hval).
  destruct (N.testbit (o_w o) (N.of_nat i)); [reflexivity|].
  destruct (N.testbit (o_e o) (N.of_nat i)); reflexivity.
Qed.

(* Composition: C05's classification theorem (classify_write_sound), instantiated with the masks C12's model reports for a GP destination,
   is a statement about the ARCHITECTURAL result: two old register contents that agree on the use widths the validator emits give the same
   result on the def width it emits. *)
Theorem classify_sound_architectural mode64 d a64 id r us dw old old' val :
  d <> D8hi -> bytes_ok old -> bytes_ok old' -> bytes_ok val ->
  r_wmask r = o_w (reported_gp mode64 d (dest_size d)) -> r_emask r = o_e (reported_gp mode64 d (dest_size d)) ->
  classify a64 id r = (us, [dw]) ->
  (is_partial r = true -> old_agree us (z_of_bytes old) (z_of_bytes old')) ->
  forall i, (i < dw)%nat -> (i < 8)%nat ->
  byte_at (gp_write mode64 d (dest_size d) old val) i = byte_at (gp_write mode64 d (dest_size d) old' val) i.
Proof.
  intros Hd Ho Ho' Hv Hw He Hc Ha i Hi Hi8.
  pose proof (classify_write_sound a64 id r us dw (z_of_bytes old) (z_of_bytes old') (z_of_bytes val) Hc Ha i Hi) as S.
  rewrite Hw, He in S.
  rewrite (hw_byte_is_gp_write mode64 d old val i Hd Ho Hv Hi8) in S.
  rewrite (hw_byte_is_gp_write mode64 d old' val i Hd Ho' Hv Hi8) in S.
  apply N2Z.inj. exact S.
Qed.

(* C12: executable model of a64::InstInternal::query_rw_info (asmjit/arm/a64instapi.cpp) over the instruction table of
   asmjit/arm/a64instdb.cpp (rw_info_index, flags) and the file-static inst_rw_info_table; plus the checker of
   "a register list of the ISA database is reported as a run of consecutive registers".  No proofs in this file. *)
From Coq Require Import NArith ZArith List Bool.
From Verif Require Import RwInfo.RwModel.
Import ListNotations.
Local Open Scope N_scope.

Record a64_inst_row := { ai_rw : N; ai_flags : N }.
Record a64_tables := { at_inst : list a64_inst_row; at_rwx : list (list N); at_elem_size : list N;
                       at_consecutive : N (* InstDB::kInstFlagConsecutive *); at_real_id_mask : N (* InstIdParts::kRealId *);
                       at_tbl_ids : list N (* Inst::kIdTbl_v, kIdTbx_v *) }.

(* AReg (Some (element type, element index)) = vector register with an element index, v1.s[2];
   AMem has_base has_index has_offset pre_or_post *)
Inductive a64_operand := ANone | AReg (elem : option (N * N)) | AMem (has_base has_index has_offset prepost : bool) | AImm.

Definition a_is_reg_or_mem o := match o with AReg _ | AMem _ _ _ _ => true | _ => false end.
Definition fMemBaseWrite := 8192.

Definition a64_base_op (fl0 : N) : op_rw :=
  let fl := clear fl0 fZExt in
  {| o_flags := fl; o_phys := kIdBad; o_rmsize := 0; o_clc := 0;
     o_r := if test fl fR then ones64 else 0; o_w := if test fl fW then ones64 else 0; o_e := 0 |}.

Definition a64_mem_flags (o : op_rw) (b x off pp : bool) : op_rw :=
  let o := if b then (let o := add_flags o fMemBaseRead in if (x || off) && pp then add_flags o fMemBaseWrite else o) else o in
  if x then add_flags o fMemIndexRead else o.

Definition set_clc (o : op_rw) (c : N) : op_rw :=
  {| o_flags := o_flags o; o_phys := o_phys o; o_rmsize := o_rmsize o; o_clc := c; o_r := o_r o; o_w := o_w o; o_e := o_e o |}.

Definition a64_query_rw_info (T : a64_tables) (id : N) (ops : list a64_operand) : option rw_info :=
  let real := N.land id (at_real_id_mask T) in
  if negb (real <? N.of_nat (length (at_inst T))) then None else
  if Nat.ltb 6 (length ops) then None else
  let row := nthN (at_inst T) real {| ai_rw := 0; ai_flags := 0 |} in
  let rwx := nthN (at_rwx T) (ai_rw row) [] in
  let n := length ops in
  let outs :=
    if test (ai_flags row) (at_consecutive T) && Nat.ltb 2 n then
      mapi (fun i src =>
        if negb (a_is_reg_or_mem src) then op_zero else
        let o := a64_base_op (if Nat.ltb i (n - 1) then nth 0 rwx 0 else nth 1 rwx 0) in
        match src with
        | AMem b x off pp => a64_mem_flags o b x off pp
        | _ => if Nat.eqb i 0 then set_clc o (u8 (N.of_nat (n - 1))) else add_flags o fConsecutive
        end) 0 ops
    else
      mapi (fun i src =>
        if negb (a_is_reg_or_mem src) then op_zero else
        let o := a64_base_op (nth i rwx 0) in
        match src with
        | AMem b x off pp => a64_mem_flags o b x off pp
        | AReg (Some (et, idx)) =>
            let es := nthN (at_elem_size T) et 0 in
            let access := N.land (N.shiftl (lsb_mask es) (idx * es)) ones64 in
            set_w (set_r o (N.land (o_r o) access)) (N.land (o_w o) access)
        | _ => o
        end) 0 ops in
  (* with fixes/C12-a64-tbl-tbx-register-list.patch: tbl/tbx vd, {vn, ...}, vm - operands 1 .. n-2 are a run led by operand 1 *)
  let is_areg o := match o with AReg _ => true | _ => false end in
  let outs :=
    if negb (test (ai_flags row) (at_consecutive T) && Nat.ltb 2 n) && existsb (N.eqb real) (at_tbl_ids T) && Nat.ltb 3 n &&
       forallb is_areg (firstn (n - 2) (skipn 1 ops)) then
      mapi (fun i o => if Nat.eqb i 1 then set_clc o (u8 (N.of_nat (n - 2)))
                       else if Nat.ltb 1 i && Nat.ltb i (n - 1) then add_flags o fConsecutive else o) 0 outs
    else outs in
  Some {| i_flags := 0; i_rmfeat := 0; i_rf := 0; i_wf := 0; i_extra := op_zero; i_ops := outs |}.

(* ------------------------------------------------------------------ register lists of the database *)
(* ac_runs: (start operand, length >= 2) of every register list / register pair of the form;
   ac_access: per operand (read, written) as far as the database's operand naming tells (d = written, s/n/m = read, x = both) *)
Record a64_case := mk_a64_case { ac_id : N; ac_ops : list a64_operand; ac_runs : list (nat * nat); ac_access : list (bool * bool) }.

Definition flag_at (outs : list op_rw) (j : nat) (f : N) : bool := test (o_flags (nth j outs op_zero)) f.
(* the run [s, s+n) is reported: some lead L <= s announces at least s+n-L registers and every operand after it up to the end
   of the run is flagged kConsecutive *)
Definition run_ok (outs : list op_rw) (run : nat * nat) : bool :=
  let '(s, n) := run in
  existsb (fun L => (N.of_nat (s + n - L) <=? o_clc (nth L outs op_zero)) &&
                    forallb (fun j => flag_at outs j fConsecutive) (seq (L + 1) (s + n - L - 1))) (seq 0 (s + 1)).

Definition access_ok (a : bool * bool) (o : op_rw) : bool :=
  implb (fst a) (test (o_flags o) fR) && implb (snd a) (test (o_flags o) fW).

Fixpoint all2b {A B} (f : A -> B -> bool) (la : list A) (lb : list B) : bool :=
  match la, lb with [], [] => true | a :: ra, b :: rb => f a b && all2b f ra rb | _, _ => false end.

Definition a64_case_ok (T : a64_tables) (c : a64_case) : bool :=
  match a64_query_rw_info T (ac_id c) (ac_ops c) with
  | Some out => forallb (run_ok (i_ops out)) (ac_runs c) && all2b access_ok (ac_access c) (i_ops out)
  | None => false
  end.

(* Prop-level reading of run_ok *)
Definition run_reported (outs : list op_rw) (run : nat * nat) : Prop :=
  exists L, (L <= fst run)%nat /\ N.of_nat (fst run + snd run - L) <= o_clc (nth L outs op_zero) /\
            forall j, (L < j < fst run + snd run)%nat -> N.land (o_flags (nth j outs op_zero)) fConsecutive <> 0.

(* Prop-level reading of access_ok over a tuple *)
Definition access_reported (acc : list (bool * bool)) (outs : list op_rw) : Prop :=
  Forall2 (fun a o => (fst a = true -> N.land (o_flags o) fR <> 0) /\ (snd a = true -> N.land (o_flags o) fW <> 0)) acc outs.

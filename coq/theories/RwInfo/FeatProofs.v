(* C12: universally quantified facts about the model of query_features. *)
From Coq Require Import NArith ZArith List Bool Lia.
From Verif Require Import RwInfo.RwModel RwInfo.FeatModel.
Import ListNotations.
Local Open Scope N_scope.

Lemma remove_not_in l fs x : In x (remove l fs) -> has fs x = false.
Proof. unfold remove. intros H. apply filter_In in H as [_ H]. apply negb_true_iff in H. exact H. Qed.

Lemma has_self x : has [x] x = true.
Proof. unfold has. simpl. rewrite N.eqb_refl. reflexivity. Qed.

(* with a 512-bit register (or zmm index) among the operands query_features never reports AVX512_VL, for every instruction and tuple *)
Lemma query_features_no_vl_with_zmm T C q rep :
  query_features T C q = Some rep ->
  has_rt (fst (reg_analysis (q_arch64 q) (q_ops q))) rt_vec512 = true ->
  take_nonzero (ad_feat (nthN (t_addl T) (ir_addl (nthN (t_inst T) (q_id q) d_inst)) d_addl)) <> [] ->
  ~ In (f_AVX512_VL C) rep.
Proof.
  unfold query_features. intros H Z NE.
  destruct (negb (q_id q <? N.of_nat (length (t_inst T)))); [discriminate|].
  destruct (take_nonzero (ad_feat (nthN (t_addl T) (ir_addl (nthN (t_inst T) (q_id q) d_inst)) d_addl))) as [|f0 fr] eqn:E; [contradiction NE; reflexivity|].
  destruct (reg_analysis (q_arch64 q) (q_ops q)) as [mask high] eqn:RA. simpl fst in Z. rewrite Z in H.
  injection H as <-. intros I. apply remove_not_in in I. rewrite has_self in I. discriminate.
Qed.

(* rw_info_of / select_row: when the number of operands equals the number of entries of the record selected by operand count (the explicit
   form), the record and the identity map are used - the implicit-shape matching cannot change the answer for explicit forms. *)
Lemma select_row_explicit T ii nops :
  let sel := if Nat.eqb nops 2 then nthN (t_rwa T) (ir_a ii) d_rw else nthN (t_rwb T) (ir_b ii) d_rw in
  entry_count sel = nops -> select_row T ii nops = (sel, seq 0 6).
Proof.
  intros sel H. unfold select_row. fold sel. rewrite H, Nat.eqb_refl. rewrite andb_false_r. reflexivity.
Qed.

(* ... and special categories never go through the implicit-shape matching *)
Lemma select_row_special T ii nops :
  let sel := if Nat.eqb nops 2 then nthN (t_rwa T) (ir_a ii) d_rw else nthN (t_rwb T) (ir_b ii) d_rw in
  (1 < rr_cat sel)%N -> select_row T ii nops = (sel, seq 0 6).
Proof.
  intros sel H. unfold select_row. fold sel. replace (rr_cat sel <=? 1)%N with false; [reflexivity|].
  symmetry. apply N.leb_gt. exact H.
Qed.

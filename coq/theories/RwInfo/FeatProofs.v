(* C12: universally quantified facts about the model of query_features. *)
From Coq Require Import NArith ZArith List Bool Lia.
From Verif Require Import RwInfo.RwModel RwInfo.FeatModel.
Import ListNotations.
Local Open Scope N_scope.

Lemma remove_not_in l fs x : In x (remove l fs) -> has fs x = false.
Proof. unfold remove. intros H. apply filter_In in H as [_ H]. apply negb_true_iff in H. exact H. Qed.

Lemma has_self x : has [x] x = true.
Proof. unfold has. simpl. rewrite N.eqb_refl. reflexivity. Qed.

(* with a 512-bit register (or zmm index) among the operands query_features never reports AVX512_VL, for every instruction and tuple *)
Lemma query_features_no_vl_with_zmm T C q rep :
  query_features T C q = Some rep ->
  has_rt (fst (reg_analysis (q_arch64 q) (q_ops q))) rt_vec512 = true ->
  take_nonzero (ad_feat (nthN (t_addl T) (ir_addl (nthN (t_inst T) (q_id q) d_inst)) d_addl)) <> [] ->
  ~ In (f_AVX512_VL C) rep.
Proof.
  unfold query_features. intros H Z NE.
  destruct (negb (q_id q <? N.of_nat (length (t_inst T)))); [discriminate|].
  destruct (take_nonzero (ad_feat (nthN (t_addl T) (ir_addl (nthN (t_inst T) (q_id q) d_inst)) d_addl))) as [|f0 fr] eqn:E; [contradiction NE; reflexivity|].
  destruct (reg_analysis (q_arch64 q) (q_ops q)) as [mask high] eqn:RA. simpl fst in Z. rewrite Z in H.
  injection H as <-. intros I. apply remove_not_in in I. rewrite has_self in I. discriminate.
Qed.

(* rw_info_of / select_row: when the number of operands equals the number of entries of the record selected by operand count (the explicit
   form), the record and the identity map are used - the implicit-shape matching cannot change the answer for explicit forms. *)
Lemma select_row_explicit T ii nops :
  let sel := if Nat.eqb nops 2 then nthN (t_rwa T) (ir_a ii) d_rw else nthN (t_rwb T) (ir_b ii) d_rw in
  entry_count sel = nops -> select_row T ii nops = (sel, seq 0 6).
Proof.
  intros sel H. unfold select_row. fold sel. rewrite H, Nat.eqb_refl. rewrite andb_false_r. reflexivity.
Qed.

(* ... and special categories never go through the implicit-shape matching *)
Lemma select_row_special T ii nops :
  let sel := if Nat.eqb nops 2 then nthN (t_rwa T) (ir_a ii) d_rw else nthN (t_rwb T) (ir_b ii) d_rw in
  (1 < rr_cat sel)%N -> select_row T ii nops = (sel, seq 0 6).
Proof.
  intros sel H. unfold select_row. fold sel. replace (rr_cat sel <=? 1)%N with false; [reflexivity|].
  symmetry. apply N.leb_gt. exact H.
Qed.

(* ---------------------------------------------------------------- one encoding family *)
Lemma has_spec l x : has l x = true <-> In x l.
Proof.
  unfold has. rewrite existsb_exists. split.
  - intros [y [I E]]. apply N.eqb_eq in E. subst y. exact I.
  - intros I. exists x. split; [exact I | apply N.eqb_refl].
Qed.

Lemma has_remove l fs x : has (remove l fs) x = has l x && negb (has fs x).
Proof.
  apply Bool.eq_iff_eq_true. rewrite andb_true_iff, !has_spec. unfold remove. rewrite filter_In. reflexivity.
Qed.

Lemma has_any_remove_mono l fs gs : has_any (remove l fs) gs = true -> has_any l gs = true.
Proof.
  unfold has_any. intros H. apply existsb_exists in H as [x [I Hx]]. apply existsb_exists. exists x. split; [exact I|].
  rewrite has_remove in Hx. apply andb_true_iff in Hx. apply Hx.
Qed.

Lemma has_any_remove_sub l fs gs : (forall x, In x gs -> has fs x = true) -> has_any (remove l fs) gs = false.
Proof.
  intros H. unfold has_any. apply not_true_is_false. intros E. apply existsb_exists in E as [x [I Hx]].
  rewrite has_remove, (H x I) in Hx. rewrite andb_false_r in Hx. discriminate.
Qed.

Lemma step_exclusive C q ii mask high X :
  has_any (feat_step_avx512 C q ii mask high X) (avx_class C) && has_any (feat_step_avx512 C q ii mask high X) (avx512_class C) = false.
Proof.
  unfold feat_step_avx512. destruct (has_any X (avx_class C) && has_any X (avx512_class C)) eqn:E; [|exact E].
  destruct (feat_use_evex C q ii mask high).
  - rewrite has_any_remove_sub; [reflexivity|]. intros x I. unfold has. apply existsb_exists. exists x. split; [exact I | apply N.eqb_refl].
  - rewrite (has_any_remove_sub X _ (avx512_class C)); [apply andb_false_r|].
    intros x I. unfold has. apply existsb_exists. exists x. split; [|apply N.eqb_refl].
    unfold avx512_class in I. simpl in I. simpl. tauto.
Qed.

(* for every table, instruction and operand tuple: the reported set never names an AVX-class extension (AVX, AVX2, FMA, F16C, AVX_VNNI, AVX_IFMA,
   AVX_NE_CONVERT) together with an AVX-512 one - query_features always commits to one encoding family *)
Theorem query_features_one_family T C q rep :
  query_features T C q = Some rep -> has_any rep (avx_class C) && has_any rep (avx512_class C) = false.
Proof.
  unfold query_features. intros H.
  destruct (negb (q_id q <? N.of_nat (length (t_inst T)))); [discriminate|].
  destruct (take_nonzero _) as [|f0 fr]; [injection H as <-; reflexivity|].
  destruct (reg_analysis (q_arch64 q) (q_ops q)) as [mask high].
  injection H as <-.
  match goal with |- context [feat_step_avx512 C q ?ii mask high ?X] => pose proof (step_exclusive C q ii mask high X) as S; set (Y := feat_step_avx512 C q ii mask high X) in * end.
  destruct (has_rt mask rt_vec512); [|exact S].
  apply andb_false_iff in S. apply andb_false_iff. destruct S as [S | S]; [left | right];
    apply not_true_is_false; intros E; apply has_any_remove_mono in E; rewrite E in S; discriminate.
Qed.

(* C12: executable model of x86::InstInternal::query_features (asmjit/x86/x86instapi.cpp): the instruction's feature list from
   additional_info_table refined by the operands (MMX vs SSE, PCLMULQDQ vs VPCLMULQDQ, AVX vs AVX2, AVX-class vs AVX-512, AVX512_VL with
   512-bit registers).  Feature and instruction identifiers come from the build (record [feat_consts], generated).  No proofs here. *)
From Coq Require Import NArith ZArith List Bool.
From Verif Require Import RwInfo.RwModel.
Import ListNotations.
Local Open Scope N_scope.

Record feat_consts := {
  f_MMX : N; f_MMX2 : N; f_SSE : N; f_SSE2 : N; f_SSE4_1 : N; f_VPCLMULQDQ : N; f_AVX : N; f_PCLMULQDQ : N; f_AVX512_F : N;
  f_AVX512_VL : N; f_AVX2 : N; f_AVX_IFMA : N; f_AVX_NE_CONVERT : N; f_AVX_VNNI : N; f_F16C : N; f_FMA : N; f_AVX512_BF16 : N;
  f_AVX512_BW : N; f_AVX512_DQ : N; f_AVX512_IFMA : N; f_AVX512_VNNI : N;
  i_pextrw : N; i_vbroadcast_ss_sd : list N; i_vpbroadcast : list N; i_vcvtpd : list N; i_gather : list N; i_shift : list N;
  i_vpermpd : N; i_vpermq : N;
  o_evex : N; o_avx512mask : N; o_vex : N; o_vex3 : N; c_prefer_evex : N }.

Definition has (l : list N) (f : N) : bool := existsb (N.eqb f) l.
Definition has_any (l fs : list N) : bool := existsb (has l) fs.
Definition remove (l fs : list N) : list N := filter (fun x => negb (has fs x)) l.
Definition inl (x : N) (l : list N) : bool := existsb (N.eqb x) l.

Fixpoint take_nonzero (l : list N) : list N := match l with [] => [] | x :: r => if x =? 0 then [] else x :: take_nonzero r end.

Definition rt_vec256 := 12. Definition rt_vec512 := 13. Definition rt_gp32 := 5. Definition rt_gp64 := 6.
Definition bit (n : N) := N.shiftl 1 n.
Definition high_id (id : N) : bool := (16 <=? id) && (id <? 32).

(* InstInternal_reg_analysis: (mask of register types, any vector register / index with id 16..31) *)
Definition index_regtype (arch64 : bool) (kind : N) : N :=
  match kind with 11 => rt_vec128 | 12 => rt_vec256 | 13 => rt_vec512 | _ => if arch64 then rt_gp64 else rt_gp32 end.
Definition reg_analysis (arch64 : bool) (ops : list operand) : N * bool :=
  fold_left (fun acc o =>
    match o with
    | OReg rt id => (N.lor (fst acc) (bit rt), snd acc || ((reg_group rt =? grp_vec) && high_id id))
    | OMem _ b x =>
        let m := if 2 <=? b then N.lor (fst acc) (bit (if arch64 then rt_gp64 else rt_gp32)) else fst acc in
        if x =? 0 then (m, snd acc) else (N.lor m (bit (index_regtype arch64 (x mod 100))), snd acc || high_id (x / 100))
    | _ => acc end) ops (0, false).

Definition has_rt (mask rt : N) : bool := N.testbit mask rt.

Definition avx_class (C : feat_consts) : list N := [f_AVX C; f_AVX_IFMA C; f_AVX_NE_CONVERT C; f_AVX_VNNI C; f_AVX2 C; f_F16C C; f_FMA C].
Definition avx512_class (C : feat_consts) : list N := [f_AVX512_BF16 C; f_AVX512_BW C; f_AVX512_DQ C; f_AVX512_F C; f_AVX512_IFMA C; f_AVX512_VNNI C].

(* "AVX vs AVX512 overlap" of query_features: which encoding the operands force *)
Definition feat_use_evex (C : feat_consts) (q : query) (ii : inst_row) (mask : N) (high : bool) : bool :=
  let ops := q_ops q in let nops := length ops in let id := q_id q in let opt := q_options q in
  let use_evex := test opt (N.lor (o_evex C) (o_avx512mask C)) || q_extra_mask q ||
                  negb (N.land mask (N.lor (bit rt_vec512) (bit rt_mask)) =? 0) || high in
  let use_evex := use_evex ||
    (if inl id (i_vpbroadcast C) then Nat.leb 2 nops && is_gp (opn ops 1)
     else if inl id (i_vcvtpd C) then Nat.leb 2 nops && is_reg_type rt_vec256 (opn ops 0)
     else if inl id (i_gather C) then Nat.eqb nops 2
     else if inl id (i_shift C) then Nat.leb 2 nops && is_mem (opn ops 1)
     else if id =? i_vpermpd C then Nat.leb 3 nops && negb (is_imm (opn ops 2))
     else if id =? i_vpermq C then Nat.leb 3 nops && (is_mem (opn ops 1) || negb (is_imm (opn ops 2)))
     else false) in
  use_evex || (test (ir_cflags ii) (c_prefer_evex C) && negb (test opt (N.lor (o_vex C) (o_vex3 C)))).

Definition feat_step_avx512 (C : feat_consts) (q : query) (ii : inst_row) (mask : N) (high : bool) (out : list N) : list N :=
  if has_any out (avx_class C) && has_any out (avx512_class C) then
    if feat_use_evex C q ii mask high then remove out (avx_class C)
    else remove out [f_AVX512_BF16 C; f_AVX512_BW C; f_AVX512_DQ C; f_AVX512_F C; f_AVX512_IFMA C; f_AVX512_VL C; f_AVX512_VNNI C]
  else out.

Definition query_features (T : tables) (C : feat_consts) (q : query) : option (list N) :=
  if negb (q_id q <? N.of_nat (length (t_inst T))) then None else
  let ii := nthN (t_inst T) (q_id q) d_inst in
  let ad := nthN (t_addl T) (ir_addl ii) d_addl in
  let out := take_nonzero (ad_feat ad) in
  match out with [] => Some [] | _ =>
  let ops := q_ops q in
  let nops := length ops in
  let id := q_id q in
  let opt := q_options q in
  let '(mask, high) := reg_analysis (q_arch64 q) ops in
  (* MMX vs SSE *)
  let out :=
    if (has out (f_MMX C) || has out (f_MMX2 C)) && (has out (f_SSE C) || has out (f_SSE2 C)) then
      let out := if negb (has_rt mask rt_vec128) then remove out [f_SSE C; f_SSE2 C; f_SSE4_1 C] else remove out [f_MMX C; f_MMX2 C] in
      if id =? i_pextrw C then
        (if Nat.leb 1 nops && is_mem (opn ops 0) then remove out [f_SSE2 C] else remove out [f_SSE4_1 C])
      else out
    else out in
  (* PCLMULQDQ vs VPCLMULQDQ (with fixes/C12-vpclmulqdq-high-registers.patch: a register id 16..31 also selects the EVEX form) *)
  let out :=
    if has out (f_VPCLMULQDQ C) then
      if has_rt mask rt_vec512 || test opt (o_evex C) || high then remove out [f_AVX C; f_PCLMULQDQ C]
      else if has_rt mask rt_vec256 then remove out [f_AVX512_F C; f_AVX512_VL C]
      else remove out [f_AVX512_F C; f_AVX512_VL C; f_VPCLMULQDQ C]
    else out in
  (* AVX vs AVX2 *)
  let out :=
    if has out (f_AVX C) && has out (f_AVX2 C) then
      let is_avx2 :=
        if inl id (i_vbroadcast_ss_sd C) then negb (Nat.ltb 1 nops && is_mem (opn ops 1))
        else negb (N.land mask (N.lor (bit rt_vec256) (bit rt_vec512)) =? 0) in
      remove out [if is_avx2 then f_AVX C else f_AVX2 C]
    else out in
  (* AVX-class vs AVX-512 *)
  let out := feat_step_avx512 C q ii mask high out in
  Some (if has_rt mask rt_vec512 then remove out [f_AVX512_VL C] else out)
  end.

(* ------------------------------------------------------------------ "reported features cover the database" *)
(* alts: for every database form the tuple matches, the feature ids of its extensions (AVX512_VL dropped when a 512-bit register or
   index is used).  The reported set must include one alternative completely. *)
Definition feat_alt_ok (rep alt : list N) : bool := forallb (has rep) alt.
Definition feat_case_ok (T : tables) (C : feat_consts) (q : query) (alts : list (list N)) : bool :=
  match query_features T C q with Some rep => existsb (feat_alt_ok rep) alts | None => false end.

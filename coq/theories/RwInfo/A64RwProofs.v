(* C12: soundness of the register-run checker of A64RwModel.v. *)
From Coq Require Import NArith ZArith List Bool Lia.
From Verif Require Import RwInfo.RwModel RwInfo.A64RwModel.
Import ListNotations.
Local Open Scope N_scope.

Lemma run_ok_sound outs run : run_ok outs run = true -> run_reported outs run.
Proof.
  destruct run as [s n]. unfold run_ok, run_reported. simpl fst; simpl snd. intros H.
  apply existsb_exists in H as [L [IL H]]. apply in_seq in IL.
  apply andb_true_iff in H as [H1 H2]. apply N.leb_le in H1.
  exists L. split; [lia|]. split; [exact H1|].
  intros j Hj. pose proof (proj1 (forallb_forall _ _) H2 j) as F.
  assert (In j (seq (L + 1) (s + n - L - 1))) as I by (apply in_seq; lia).
  specialize (F I). unfold flag_at, test in F. apply negb_true_iff, N.eqb_neq in F. exact F.
Qed.

Lemma a64_case_ok_sound T c : a64_case_ok T c = true ->
  exists out, a64_query_rw_info T (ac_id c) (ac_ops c) = Some out /\ Forall (run_reported (i_ops out)) (ac_runs c).
Proof.
  unfold a64_case_ok. destruct (a64_query_rw_info T (ac_id c) (ac_ops c)) as [out|]; [|discriminate].
  intros H. apply andb_true_iff in H as [H _]. exists out. split; [reflexivity|].
  apply Forall_forall. intros r I. apply run_ok_sound. exact (proj1 (forallb_forall _ _) H r I).
Qed.

Lemma a64_cases_ok_list T l : forallb (a64_case_ok T) l = true ->
  forall c, In c l -> exists out, a64_query_rw_info T (ac_id c) (ac_ops c) = Some out /\ Forall (run_reported (i_ops out)) (ac_runs c).
Proof. intros H c I. apply a64_case_ok_sound. exact (proj1 (forallb_forall _ _) H c I). Qed.

Lemma a64_cases_bad_list T l : forallb (fun c => negb (a64_case_ok T c)) l = true -> forall c, In c l -> a64_case_ok T c = false.
Proof. intros H c I. apply negb_true_iff. exact (proj1 (forallb_forall _ _) H c I). Qed.

Lemma all2b_Forall2 {A B} (f : A -> B -> bool) (P : A -> B -> Prop) :
  (forall a b, f a b = true -> P a b) -> forall la lb, all2b f la lb = true -> Forall2 P la lb.
Proof.
  intros H la. induction la as [|a ra IH]; intros [|b rb] E; simpl in E; try discriminate.
  - constructor.
  - apply andb_true_iff in E as [E1 E2]. constructor; auto.
Qed.

Lemma access_ok_sound a o : access_ok a o = true ->
  (fst a = true -> N.land (o_flags o) fR <> 0) /\ (snd a = true -> N.land (o_flags o) fW <> 0).
Proof.
  unfold access_ok. intros H. apply andb_true_iff in H as [H1 H2]. split; intros E.
  - rewrite E in H1. simpl in H1. unfold test in H1. apply negb_true_iff, N.eqb_neq in H1. exact H1.
  - rewrite E in H2. simpl in H2. unfold test in H2. apply negb_true_iff, N.eqb_neq in H2. exact H2.
Qed.

Lemma a64_access_ok_list T l : forallb (a64_case_ok T) l = true ->
  forall c, In c l -> exists out, a64_query_rw_info T (ac_id c) (ac_ops c) = Some out /\ access_reported (ac_access c) (i_ops out).
Proof.
  intros H c I. pose proof (proj1 (forallb_forall _ _) H c I) as G. unfold a64_case_ok in G.
  destruct (a64_query_rw_info T (ac_id c) (ac_ops c)) as [out|]; [|discriminate].
  apply andb_true_iff in G as [_ G]. exists out. split; [reflexivity|].
  unfold access_reported. eapply all2b_Forall2; [|exact G]. intros a o; apply access_ok_sound.
Qed.

(* ---------------------------------------------------------------- what must not change: no run without the flag *)
Lemma mapi_Forall {A B} (P : B -> Prop) (f : nat -> A -> B) : (forall i x, P (f i x)) -> forall l k, Forall P (mapi f k l).
Proof. intros H l. induction l as [|x r IH]; intros k; simpl; constructor; auto. Qed.

Definition no_run (o : op_rw) : Prop := o_clc o = 0 /\ test (o_flags o) fConsecutive = false.

Lemma test_lor_false a b f : test a f = false -> test b f = false -> test (N.lor a b) f = false.
Proof.
  unfold test. intros Ha Hb. apply negb_false_iff, N.eqb_eq in Ha. apply negb_false_iff, N.eqb_eq in Hb.
  apply negb_false_iff, N.eqb_eq. rewrite N.land_lor_distr_l, Ha, Hb. reflexivity.
Qed.

Lemma rw_flag_no_consecutive e : e <= 3 -> test (clear e fZExt) fConsecutive = false.
Proof.
  intros H. assert (C : e = 0 \/ e = 1 \/ e = 2 \/ e = 3) by lia. destruct C as [-> | [-> | [-> | ->]]]; reflexivity.
Qed.

Lemma base_no_run e : e <= 3 -> no_run (a64_base_op e).
Proof. intros H. split; [reflexivity | apply rw_flag_no_consecutive; exact H]. Qed.

Lemma mem_flags_no_run o b x off pp : no_run o -> no_run (a64_mem_flags o b x off pp).
Proof.
  intros [C F]. unfold a64_mem_flags.
  destruct b; [destruct ((x || off) && pp)|]; destruct x; cbn [add_flags o_clc o_flags]; split; try exact C;
    repeat apply test_lor_false; try exact F; reflexivity.
Qed.

(* an instruction without the consecutive flag (or with at most two operands) that is not tbl/tbx never reports a register run *)
Lemma a64_no_run_reported T id ops out :
  a64_query_rw_info T id ops = Some out ->
  let real := N.land id (at_real_id_mask T) in
  let row := nthN (at_inst T) real {| ai_rw := 0; ai_flags := 0 |} in
  (test (ai_flags row) (at_consecutive T) && Nat.ltb 2 (length ops)) = false ->
  existsb (N.eqb real) (at_tbl_ids T) = false ->
  (forall e, In e (nthN (at_rwx T) (ai_rw row) []) -> e <= 3) ->
  Forall no_run (i_ops out).
Proof.
  intros H real row Hc Ht Hr. unfold a64_query_rw_info in H. fold real in H. fold row in H.
  destruct (negb (real <? N.of_nat (length (at_inst T)))); [discriminate|].
  destruct (Nat.ltb 6 (length ops)); [discriminate|].
  rewrite Hc in H. cbn [negb andb] in H. rewrite Ht in H. cbn [andb] in H.
  injection H as <-. cbn [i_ops].
  apply mapi_Forall. intros i src.
  assert (E : nth i (nthN (at_rwx T) (ai_rw row) []) 0 <= 3).
  { destruct (nth_in_or_default i (nthN (at_rwx T) (ai_rw row) []) 0) as [I | ->]; [apply Hr; exact I | lia]. }
  destruct src as [|[[et idx]|]|b x off pp|]; cbn [a_is_reg_or_mem negb]; try (split; reflexivity).
  - destruct (base_no_run _ E) as [C F]. split; [exact C | exact F].
  - apply base_no_run; exact E.
  - apply mem_flags_no_run, base_no_run; exact E.
Qed.

(* ---------------------------------------------------------------- the consecutive path, unbounded *)
Lemma nth_mapi {A B} (f : nat -> A -> B) (da : A) (db : B) : forall l k i, (i < length l)%nat ->
  nth i (mapi f k l) db = f (k + i)%nat (nth i l da).
Proof.
  induction l as [|x r IH]; intros k i Hi; simpl in Hi; [lia|].
  destruct i as [|i]; simpl.
  - rewrite Nat.add_0_r. reflexivity.
  - rewrite IH by lia. f_equal. lia.
Qed.

Lemma test_add_self o f : N.land f f <> 0 -> test (o_flags (add_flags o f)) f = true.
Proof.
  intros H. unfold test. cbn [add_flags o_flags]. apply negb_true_iff, N.eqb_neq. intros C. apply H.
  rewrite N.land_lor_distr_l in C. apply N.lor_eq_0_iff in C. apply C.
Qed.

(* the consecutive path (ld1-4, st1-4, casp family), for ALL tables and operand lists: with more than two operands of a flagged instruction, a register
   at position 0 leads a run of (operand count - 1) registers and every later register operand is flagged kConsecutive *)
Lemma a64_flagged_run_reported T id ops out :
  a64_query_rw_info T id ops = Some out ->
  let real := N.land id (at_real_id_mask T) in
  let row := nthN (at_inst T) real {| ai_rw := 0; ai_flags := 0 |} in
  test (ai_flags row) (at_consecutive T) = true -> (2 < length ops)%nat ->
  (forall e, nth 0 ops ANone = AReg e -> o_clc (nth 0 (i_ops out) op_zero) = u8 (N.of_nat (length ops - 1))) /\
  (forall i e, (0 < i < length ops)%nat -> nth i ops ANone = AReg e -> test (o_flags (nth i (i_ops out) op_zero)) fConsecutive = true).
Proof.
  intros H real row Hf Hn. unfold a64_query_rw_info in H. fold real in H. fold row in H.
  destruct (negb (real <? N.of_nat (length (at_inst T)))); [discriminate|].
  destruct (Nat.ltb 6 (length ops)); [discriminate|].
  rewrite Hf in H. assert (L : Nat.ltb 2 (length ops) = true) by (apply Nat.ltb_lt; exact Hn). rewrite L in H.
  cbn [andb negb] in H. injection H as <-. cbn [i_ops]. split.
  - intros e E. rewrite (nth_mapi _ ANone op_zero) by lia. rewrite E. cbn [a_is_reg_or_mem negb Nat.add Nat.eqb]. reflexivity.
  - intros i e Hi E. rewrite (nth_mapi _ ANone op_zero) by lia. rewrite E. cbn [a_is_reg_or_mem negb Nat.add].
    destruct i as [|i]; [lia|]. cbn [Nat.eqb]. apply test_add_self. discriminate.
Qed.

(* C12: soundness of the register-run checker of A64RwModel.v. *)
From Coq Require Import NArith ZArith List Bool Lia.
From Verif Require Import RwInfo.RwModel RwInfo.A64RwModel.
Import ListNotations.
Local Open Scope N_scope.

Lemma run_ok_sound outs run : run_ok outs run = true -> run_reported outs run.
Proof.
  destruct run as [s n]. unfold run_ok, run_reported. simpl fst; simpl snd. intros H.
  apply existsb_exists in H as [L [IL H]]. apply in_seq in IL.
  apply andb_true_iff in H as [H1 H2]. apply N.leb_le in H1.
  exists L. split; [lia|]. split; [exact H1|].
  intros j Hj. pose proof (proj1 (forallb_forall _ _) H2 j) as F.
  assert (In j (seq (L + 1) (s + n - L - 1))) as I by (apply in_seq; lia).
  specialize (F I). unfold flag_at, test in F. apply negb_true_iff, N.eqb_neq in F. exact F.
Qed.

Lemma a64_case_ok_sound T c : a64_case_ok T c = true ->
  exists out, a64_query_rw_info T (ac_id c) (ac_ops c) = Some out /\ Forall (run_reported (i_ops out)) (ac_runs c).
Proof.
  unfold a64_case_ok. destruct (a64_query_rw_info T (ac_id c) (ac_ops c)) as [out|]; [|discriminate].
  intros H. apply andb_true_iff in H as [H _]. exists out. split; [reflexivity|].
  apply Forall_forall. intros r I. apply run_ok_sound. exact (proj1 (forallb_forall _ _) H r I).
Qed.

Lemma a64_cases_ok_list T l : forallb (a64_case_ok T) l = true ->
  forall c, In c l -> exists out, a64_query_rw_info T (ac_id c) (ac_ops c) = Some out /\ Forall (run_reported (i_ops out)) (ac_runs c).
Proof. intros H c I. apply a64_case_ok_sound. exact (proj1 (forallb_forall _ _) H c I). Qed.

Lemma a64_cases_bad_list T l : forallb (fun c => negb (a64_case_ok T c)) l = true -> forall c, In c l -> a64_case_ok T c = false.
Proof. intros H c I. apply negb_true_iff. exact (proj1 (forallb_forall _ _) H c I). Qed.

Lemma all2b_Forall2 {A B} (f : A -> B -> bool) (P : A -> B -> Prop) :
  (forall a b, f a b = true -> P a b) -> forall la lb, all2b f la lb = true -> Forall2 P la lb.
Proof.
  intros H la. induction la as [|a ra IH]; intros [|b rb] E; simpl in E; try discriminate.
  - constructor.
  - apply andb_true_iff in E as [E1 E2]. constructor; auto.
Qed.

Lemma access_ok_sound a o : access_ok a o = true ->
  (fst a = true -> N.land (o_flags o) fR <> 0) /\ (snd a = true -> N.land (o_flags o) fW <> 0).
Proof.
  unfold access_ok. intros H. apply andb_true_iff in H as [H1 H2]. split; intros E.
  - rewrite E in H1. simpl in H1. unfold test in H1. apply negb_true_iff, N.eqb_neq in H1. exact H1.
  - rewrite E in H2. simpl in H2. unfold test in H2. apply negb_true_iff, N.eqb_neq in H2. exact H2.
Qed.

Lemma a64_access_ok_list T l : forallb (a64_case_ok T) l = true ->
  forall c, In c l -> exists out, a64_query_rw_info T (ac_id c) (ac_ops c) = Some out /\ access_reported (ac_access c) (i_ops out).
Proof.
  intros H c I. pose proof (proj1 (forallb_forall _ _) H c I) as G. unfold a64_case_ok in G.
  destruct (a64_query_rw_info T (ac_id c) (ac_ops c)) as [out|]; [|discriminate].
  apply andb_true_iff in G as [_ G]. exists out. split; [reflexivity|].
  unfold access_reported. eapply all2b_Forall2; [|exact G]. intros a o; apply access_ok_sound.
Qed.

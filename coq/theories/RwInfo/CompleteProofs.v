(* C12, round 6: completeness directions and whole-function frame conditions of the models (all tables, all operand tuples). *)
From Coq Require Import NArith ZArith List Bool Lia.
From Verif Require Import RwInfo.RwModel RwInfo.FeatModel RwInfo.RegWrite RwInfo.RegWriteProofs RwInfo.FeatProofs RwInfo.FrameProofs.
Import ListNotations.
Local Open Scope N_scope.

(* ------------------------------------------------------------------ query_features never invents an extension *)
Lemma remove_incl l fs x : In x (remove l fs) -> In x l.
Proof. unfold remove. intros H. apply filter_In in H. apply H. Qed.

Lemma step_avx512_incl C q ii mask high X x : In x (feat_step_avx512 C q ii mask high X) -> In x X.
Proof.
  unfold feat_step_avx512. destruct (has_any X (avx_class C) && has_any X (avx512_class C)); [|auto].
  destruct (feat_use_evex C q ii mask high); apply remove_incl.
Qed.

Lemma take_nonzero_incl l x : In x (take_nonzero l) -> In x l /\ x <> 0.
Proof.
  induction l as [|y r IH]; simpl; [tauto|].
  destruct (y =? 0) eqn:E; simpl; [tauto|]. apply N.eqb_neq in E.
  intros [H|H]; [subst; auto | destruct (IH H); auto].
Qed.

(* every extension query_features reports is one of the (non-zero) entries of the instruction's own record: the operand-dependent
   refinement only ever REMOVES alternatives *)
Lemma query_features_subset_of_record T C q rep x :
  query_features T C q = Some rep -> In x rep ->
  In x (ad_feat (nthN (t_addl T) (ir_addl (nthN (t_inst T) (q_id q) d_inst)) d_addl)) /\ x <> 0.
Proof.
  unfold query_features. destruct (negb (q_id q <? N.of_nat (length (t_inst T)))); [discriminate|].
  set (ii := nthN (t_inst T) (q_id q) d_inst). set (ad := nthN (t_addl T) (ir_addl ii) d_addl).
  destruct (take_nonzero (ad_feat ad)) as [|f0 fr] eqn:TN; [intros E; inversion E; subst; simpl; tauto|].
  rewrite <- TN. clear TN f0 fr.
  destruct (reg_analysis (q_arch64 q) (q_ops q)) as [mask high].
  intros E I. inversion E as [E']. clear E. subst rep.
  apply take_nonzero_incl.
  assert (R : forall l fs, In x (remove l fs) -> In x l) by (intros; eapply remove_incl; eauto).
  assert (S1 : In x (feat_step_avx512 C q ii mask high
     (let out := take_nonzero (ad_feat ad) in
      let out := if (has out (f_MMX C) || has out (f_MMX2 C)) && (has out (f_SSE C) || has out (f_SSE2 C)) then
          let out := if negb (has_rt mask rt_vec128) then remove out [f_SSE C; f_SSE2 C; f_SSE4_1 C] else remove out [f_MMX C; f_MMX2 C] in
          if q_id q =? i_pextrw C then
            (if Nat.leb 1 (length (q_ops q)) && is_mem (opn (q_ops q) 0) then remove out [f_SSE2 C] else remove out [f_SSE4_1 C])
          else out
        else out in
      let out := if has out (f_VPCLMULQDQ C) then
          if has_rt mask rt_vec512 || test (q_options q) (o_evex C) || high then remove out [f_AVX C; f_PCLMULQDQ C]
          else if has_rt mask rt_vec256 then remove out [f_AVX512_F C; f_AVX512_VL C]
          else remove out [f_AVX512_F C; f_AVX512_VL C; f_VPCLMULQDQ C]
        else out in
      if has out (f_AVX C) && has out (f_AVX2 C) then
        remove out [if (if inl (q_id q) (i_vbroadcast_ss_sd C) then negb (Nat.ltb 1 (length (q_ops q)) && is_mem (opn (q_ops q) 1))
                        else negb (N.land mask (N.lor (bit rt_vec256) (bit rt_vec512)) =? 0)) then f_AVX C else f_AVX2 C]
      else out))).
  { destruct (has_rt mask rt_vec512); [apply R in I|]; exact I. }
  apply step_avx512_incl in S1. cbv zeta in S1.
  repeat match type of S1 with
         | In x (if ?c then _ else _) => destruct c
         | In x (remove _ _) => apply R in S1
         end; exact S1.
Qed.

(* ------------------------------------------------------------------ vpternlog: the read of the destination is dropped EXACTLY when unused *)
Definition ternlog_row_conv (imm : N) : bool :=
  (N.shiftr imm 4 =? N.land imm 15) ||
  existsb (fun b => existsb (fun c => negb (Bool.eqb (ternlog imm false b c) (ternlog imm true b c))) [false; true]) [false; true].
Lemma ternlog_table_conv : forallb ternlog_row_conv (map N.of_nat (seq 0 256)) = true.
Proof. vm_compute. reflexivity. Qed.

(* completeness direction of ternlog_dest_unused: when the two nibbles of the predicate differ there are source bits for which the
   result depends on the destination bit, so the read must be reported *)
Lemma ternlog_dest_used imm : imm < 256 -> N.shiftr imm 4 <> N.land imm 15 ->
  exists b c, ternlog imm false b c <> ternlog imm true b c.
Proof.
  intros Hi Hne.
  pose proof (proj1 (forallb_forall _ _) ternlog_table_conv imm) as R.
  assert (In imm (map N.of_nat (seq 0 256))) as I.
  { apply in_map_iff. exists (N.to_nat imm). split; [apply N2Nat.id | apply in_seq; lia]. }
  specialize (R I). unfold ternlog_row_conv in R. apply N.eqb_neq in Hne. rewrite Hne in R. cbn [orb] in R.
  apply existsb_exists in R as [b [_ R]]. apply existsb_exists in R as [c [_ R]].
  exists b, c. apply negb_true_iff in R. intros E. rewrite E in R. rewrite eqb_reflx in R. discriminate.
Qed.

Lemma ternlog_unused_iff imm : imm < 256 ->
  (N.shiftr imm 4 = N.land imm 15 <-> forall a b c, ternlog imm a b c = ternlog imm (negb a) b c).
Proof.
  intros Hi. split.
  - intros E a b c. apply ternlog_dest_unused; assumption.
  - intros H. destruct (N.eq_dec (N.shiftr imm 4) (N.land imm 15)) as [E|NE]; [exact E|].
    destruct (ternlog_dest_used imm Hi NE) as [b [c D]]. exfalso. apply D. apply (H false b c).
Qed.

(* ------------------------------------------------------------------ implicit call shapes: which entries describe the given operands *)
(* when the operands are matched against a record with fixed (implicit) registers, the map has one entry per operand, strictly
   increasing positions inside the record, and none of the chosen entries is a fixed one; at least one fixed entry is skipped *)
Lemma filter_len_le {A} (f : A -> bool) l : (length (filter f l) <= length l)%nat.
Proof. induction l as [|x r IH]; simpl; [lia|]. destruct (f x); simpl; lia. Qed.

Lemma implicit_map_spec T row nops m :
  implicit_map T row nops = Some m ->
  length m = nops /\ (forall i, In i m -> (i < entry_count row)%nat /\ fixed_entry T row i = false) /\
  (length m < entry_count row)%nat /\ NoDup m.
Proof.
  unfold implicit_map. destruct (1 <? rr_cat row); [discriminate|].
  set (n := entry_count row). set (f := filter (fun i => negb (fixed_entry T row i)) (seq 0 n)).
  destruct (negb (Nat.eqb (length f) n) && Nat.eqb (length f) nops) eqn:E; [|discriminate].
  intros H. inversion H. subst m. clear H.
  apply andb_true_iff in E as [E1 E2]. apply negb_true_iff, Nat.eqb_neq in E1. apply Nat.eqb_eq in E2.
  split; [exact E2|]. split.
  - intros i I. apply filter_In in I as [I1 I2]. apply in_seq in I1. apply negb_true_iff in I2. split; [lia | exact I2].
  - split.
    + pose proof (filter_len_le (fun i => negb (fixed_entry T row i)) (seq 0 n)) as L. rewrite seq_length in L. fold f in L. lia.
    + apply NoDup_filter, seq_NoDup.
Qed.

(* ------------------------------------------------------------------ the post-passes of the generic path: what they must NOT change *)
Lemma map_upd_keep {A B} (p : A -> B) f l k : (forall o, p (f o) = p o) -> map p (upd l k f) = map p l.
Proof.
  intros H. unfold upd. revert k. induction l as [|x r IH]; intros k; [reflexivity|].
  destruct k; simpl; [rewrite H; reflexivity | f_equal; apply IH].
Qed.

Lemma map_mapi_keep {A B} (p : A -> B) f k l : (forall i o, p (f i o) = p o) -> map p (mapi f k l) = map p l.
Proof. intros H. revert k. induction l as [|x r IH]; intros k; simpl; [reflexivity | rewrite H, IH; reflexivity]. Qed.

Lemma length_upd {A} (f : A -> A) l k : length (upd l k f) = length l.
Proof. unfold upd. revert k. induction l as [|x r IH]; intros k; [reflexivity|]. destruct k; simpl; [reflexivity | f_equal; apply IH]. Qed.

Lemma length_mapi {A B} (f : nat -> A -> B) k l : length (mapi f k l) = length l.
Proof. revert k. induction l as [|x r IH]; intros k; simpl; [reflexivity | f_equal; apply IH]. Qed.

Lemma nth_mapi0 {A B} (f : nat -> A -> B) (da : A) (db : B) : forall l k i, (i < length l)%nat ->
  nth i (mapi f k l) db = f (k + i)%nat (nth i l da).
Proof.
  induction l as [|x r IH]; intros k i Hi; simpl in Hi; [lia|].
  destruct i as [|i]; simpl.
  - rewrite Nat.add_0_r. reflexivity.
  - rewrite IH by lia. f_equal. lia.
Qed.

Section GenericFrame.
  Context {B : Type} (p : op_rw -> B).
  Hypothesis p_addR : forall o, p (add_flags o fR) = p o.
  Hypothesis p_addRM : forall o, p (add_flags o fRegM) = p o.
  Hypothesis p_clr : forall o, p (clr_flags o fR) = p o.
  Hypothesis p_setr : forall o m, p (set_r o m) = p o.
  Hypothesis p_rms : forall o s, p (set_rmsize o s) = p o.

  Lemma handle_avx512_keep q av out : map p (i_ops (handle_avx512 q av out)) = map p (i_ops out).
  Proof.
    unfold handle_avx512. destruct (q_extra_mask q && negb (Nat.eqb (length (i_ops out)) 0)); [|reflexivity].
    cbn [i_ops]. destruct (negb (test (q_options q) optZMask) && negb (test av kImplicitZ)); [|reflexivity].
    apply map_upd_keep. intros o. rewrite p_setr, p_addR. reflexivity.
  Qed.

  (* core: everything after the movss/movsd special case keeps the projection; that case clears the extend mask of operand 0 *)
  Lemma generic_keep_core T q vexlike row omap rm av out0 :
    let outs0 := mapi (fun i src => generic_op_v T vexlike (native_gp_size (q_arch64 q)) row (nth i omap i) src) 0 (q_ops q) in
    map p (i_ops (generic T q vexlike row omap rm av out0)) = map p outs0 \/
    (test (rm_flags rm) rmFlagMovssMovsd = true /\
     map p (i_ops (generic T q vexlike row omap rm av out0)) = map p (upd outs0 0 (fun o => set_e o 0))).
  Proof.
    intros outs0. unfold generic. cbv zeta. fold outs0.
    match goal with |- context [match ?X with pair _ _ => _ end] => set (X3 := X) end.
    assert (H3 : fst (fst X3) = outs0 \/ (test (rm_flags rm) rmFlagMovssMovsd = true /\ fst (fst X3) = upd outs0 0 (fun o => set_e o 0))).
    { subst X3. destruct (test (rm_flags rm) rmFlagMovssMovsd) eqn:Hm;
        repeat match goal with |- context [if ?c then _ else _] => destruct c end; cbn [fst]; auto. }
    destruct X3 as [[outs1 rmf] rgm]. cbn [fst] in H3.
    match goal with |- map p ?L = _ \/ _ => assert (HE : map p L = map p outs1) end.
    { rewrite handle_avx512_keep. cbn [i_ops set_info].
      set (rmmask := if negb (N.land rgm (rgm - 1) =? 0) then _ else rgm). clearbody rmmask.
      set (maxsz := fold_left _ (q_ops q) 0). clearbody maxsz.
      assert (H4 : map p (if negb (rmmask =? 0) && negb (test (q_options q) optER) then
                     mapi (fun i o => if N.testbit rmmask (N.of_nat i) then
                           match rm_size_of rm (opn (q_ops q) i) maxsz with
                           | Some s => set_rmsize (add_flags o fRegM) s | None => add_flags o fRegM end else o) 0 outs1 else outs1) = map p outs1).
      { destruct (negb (rmmask =? 0) && negb (test (q_options q) optER)); [|reflexivity].
        apply map_mapi_keep. intros i o. destruct (N.testbit rmmask (N.of_nat i)); [|reflexivity].
        destruct (rm_size_of _ _ _); [rewrite p_rms|]; apply p_addRM. }
      destruct ((rr_cat row =? 1) && existsb (N.eqb (q_id q)) (t_ternlog T)); [|exact H4].
      destruct (length (q_ops q)) as [|[|[|[|[|n]]]]]; try exact H4.
      destruct (opn (q_ops q) 3); try exact H4.
      destruct (N.shiftr _ 4 =? _); [|exact H4].
      rewrite map_upd_keep; [exact H4|]. intros o. rewrite p_setr, p_clr. reflexivity. }
    rewrite HE. destruct H3 as [-> | [Hm ->]]; [left; reflexivity | right; split; [exact Hm | reflexivity]].
  Qed.

  (* [p_sete0]: the projection survives clearing the extend mask, or the record is not the movss/movsd one *)
  Lemma generic_keep T q vexlike row omap rm av out0
      (p_sete0 : (forall o, p (set_e o 0) = p o) \/ test (rm_flags rm) rmFlagMovssMovsd = false) :
    map p (i_ops (generic T q vexlike row omap rm av out0)) =
    map p (mapi (fun i src => generic_op_v T vexlike (native_gp_size (q_arch64 q)) row (nth i omap i) src) 0 (q_ops q)).
  Proof.
    destruct (generic_keep_core T q vexlike row omap rm av out0) as [E | [Hm E]]; [exact E|].
    destruct p_sete0 as [P0 | Hm']; [|congruence].
    rewrite E. apply map_upd_keep. exact P0.
  Qed.
End GenericFrame.

(* instances: no post-pass of the generic path (movss/movsd, pextrw, rm_feature, reg/mem marking, vpternlog idiom, {k} masking) changes
   a write mask, a fixed-register id or a consecutive-lead count; one record per operand comes out *)
Definition generic_base (T : tables) (q : query) (vexlike : bool) (row : rw_row) (omap : list nat) : list op_rw :=
  mapi (fun i src => generic_op_v T vexlike (native_gp_size (q_arch64 q)) row (nth i omap i) src) 0 (q_ops q).

Lemma generic_keeps_write_masks T q vexlike row omap rm av out0 :
  map o_w (i_ops (generic T q vexlike row omap rm av out0)) = map o_w (generic_base T q vexlike row omap).
Proof. apply (generic_keep o_w); try reflexivity. left; reflexivity. Qed.

Lemma generic_keeps_phys_ids T q vexlike row omap rm av out0 :
  map o_phys (i_ops (generic T q vexlike row omap rm av out0)) = map o_phys (generic_base T q vexlike row omap).
Proof. apply (generic_keep o_phys); try reflexivity. left; reflexivity. Qed.

Lemma generic_keeps_lead_counts T q vexlike row omap rm av out0 :
  map o_clc (i_ops (generic T q vexlike row omap rm av out0)) = map o_clc (generic_base T q vexlike row omap).
Proof. apply (generic_keep o_clc); try reflexivity. left; reflexivity. Qed.

(* flags: the post-passes only ever add or drop kRead and add kRegMem; every other flag of every operand (kWrite, kZExt, kConsecutive,
   fixed-register and memory-address flags ...) comes out as the per-operand function produced it *)
Lemma ldiff_lor_sub a f g : N.ldiff f g = 0 -> N.ldiff (N.lor a f) g = N.ldiff a g.
Proof.
  intros H. apply N.bits_inj. intros k. rewrite !N.ldiff_spec, N.lor_spec.
  assert (K : N.testbit (N.ldiff f g) k = false) by (rewrite H; apply N.bits_0). rewrite N.ldiff_spec in K.
  destruct (N.testbit a k), (N.testbit f k), (N.testbit g k); simpl in *; congruence.
Qed.
Lemma ldiff_ldiff_sub a f g : N.ldiff f g = 0 -> N.ldiff (N.ldiff a f) g = N.ldiff a g.
Proof.
  intros H. apply N.bits_inj. intros k. rewrite !N.ldiff_spec.
  assert (K : N.testbit (N.ldiff f g) k = false) by (rewrite H; apply N.bits_0). rewrite N.ldiff_spec in K.
  destruct (N.testbit a k), (N.testbit f k), (N.testbit g k); simpl in *; congruence.
Qed.

Definition other_flags (o : op_rw) : N := clear (o_flags o) (fR + fRegM).

Lemma generic_keeps_other_flags T q vexlike row omap rm av out0 :
  map other_flags (i_ops (generic T q vexlike row omap rm av out0)) = map other_flags (generic_base T q vexlike row omap).
Proof.
  apply (generic_keep other_flags); try reflexivity.
  - intros o. unfold other_flags, add_flags, clear. cbn [o_flags]. apply ldiff_lor_sub. reflexivity.
  - intros o. unfold other_flags, add_flags, clear. cbn [o_flags]. apply ldiff_lor_sub. reflexivity.
  - intros o. unfold other_flags, clr_flags, clear. cbn [o_flags]. apply ldiff_ldiff_sub. reflexivity.
  - left. reflexivity.
Qed.

Lemma test_other_flags o f : N.land f (fR + fRegM) = 0 -> test (other_flags o) f = test (o_flags o) f.
Proof.
  intros H. unfold test, other_flags, clear. f_equal. f_equal. apply N.bits_inj. intros k.
  rewrite !N.land_spec, N.ldiff_spec.
  assert (K : N.testbit (N.land f (fR + fRegM)) k = false) by (rewrite H; apply N.bits_0). rewrite N.land_spec in K.
  destruct (N.testbit (o_flags o) k), (N.testbit f k), (N.testbit (fR + fRegM) k); simpl in *; congruence.
Qed.

(* so an operand comes out as written exactly when the per-operand function (i.e. the table) says so *)
Lemma generic_write_flag_of_operand T q vexlike row omap rm av out0 i : (i < length (q_ops q))%nat ->
  test (o_flags (nth i (i_ops (generic T q vexlike row omap rm av out0)) op_zero)) fW =
  test (o_flags (generic_op_v T vexlike (native_gp_size (q_arch64 q)) row (nth i omap i) (nth i (q_ops q) ONone))) fW.
Proof.
  intros Hi. rewrite <- !(test_other_flags _ fW) by reflexivity.
  change (other_flags (nth i (i_ops (generic T q vexlike row omap rm av out0)) op_zero))
    with ((fun o => other_flags o) (nth i (i_ops (generic T q vexlike row omap rm av out0)) op_zero)).
  rewrite <- (map_nth other_flags). rewrite generic_keeps_other_flags. rewrite (map_nth other_flags).
  unfold generic_base. rewrite (nth_mapi0 _ ONone op_zero) by exact Hi. reflexivity.
Qed.

(* the extend masks too, unless the instruction is movss/movsd (whose register form clears the extension of operand 0) *)
Lemma generic_keeps_extend_masks T q vexlike row omap rm av out0 : test (rm_flags rm) rmFlagMovssMovsd = false ->
  map o_e (i_ops (generic T q vexlike row omap rm av out0)) = map o_e (generic_base T q vexlike row omap).
Proof. intros H. apply (generic_keep o_e); try reflexivity. right; exact H. Qed.

Lemma generic_one_record_per_operand T q vexlike row omap rm av out0 :
  length (i_ops (generic T q vexlike row omap rm av out0)) = length (q_ops q).
Proof.
  pose proof (generic_keeps_write_masks T q vexlike row omap rm av out0) as H.
  apply (f_equal (@length N)) in H. rewrite !map_length in H. rewrite H. apply length_mapi.
Qed.


Lemma generic_write_mask_of_operand T q vexlike row omap rm av out0 i : (i < length (q_ops q))%nat ->
  o_w (nth i (i_ops (generic T q vexlike row omap rm av out0)) op_zero) =
  o_w (generic_op_v T vexlike (native_gp_size (q_arch64 q)) row (nth i omap i) (nth i (q_ops q) ONone)).
Proof.
  intros Hi. change (o_w (nth i (i_ops (generic T q vexlike row omap rm av out0)) op_zero))
    with ((fun o => o_w o) (nth i (i_ops (generic T q vexlike row omap rm av out0)) op_zero)).
  rewrite <- (map_nth o_w). rewrite generic_keeps_write_masks. rewrite (map_nth o_w).
  unfold generic_base. rewrite (nth_mapi0 _ ONone op_zero) by exact Hi. reflexivity.
Qed.

(* the VEX/legacy distinction is irrelevant for general-purpose registers *)
Lemma generic_op_v_gp T v native row i rt id : reg_group rt = grp_gp ->
  generic_op_v T v native row i (OReg rt id) = generic_op T native row i (OReg rt id).
Proof.
  intros G. unfold generic_op, generic_op_v. cbn [is_reg_or_mem is_reg is_mem orb negb].
  destruct (test _ fW); [|reflexivity]. rewrite G. rewrite N.eqb_refl. reflexivity.
Qed.

(* whole generic path: the write mask that comes out for a written general-purpose register operand (no explicit mask in the table) is
   the architectural one of the byte-level theorems, whatever the other operands, options, reg/mem record and {k} are *)
Lemma generic_whole_path_gp_write_mask T q vexlike row omap rm av out0 i (d : gp_dest) id :
  (i < length (q_ops q))%nat -> nth i (q_ops q) ONone = OReg (gp_regtype d) id ->
  let dsc := nthN (t_op T) (nth (nth i omap i) (rr_ops row) 0) d_op in
  test (clear (or_flags dsc) fZExt) fW = true -> or_w dsc = 0 ->
  o_w (nth i (i_ops (generic T q vexlike row omap rm av out0)) op_zero) = o_w (reported_gp (q_arch64 q) d (dest_size d)).
Proof.
  intros Hi Hop dsc HW Hw. rewrite generic_write_mask_of_operand by exact Hi. rewrite Hop.
  rewrite generic_op_v_gp by (destruct d; reflexivity).
  apply (generic_op_gp_masks T (q_arch64 q) row (nth i omap i) d id HW Hw).
Qed.

Lemma generic_extend_mask_of_operand T q vexlike row omap rm av out0 i : (i < length (q_ops q))%nat ->
  test (rm_flags rm) rmFlagMovssMovsd = false ->
  o_e (nth i (i_ops (generic T q vexlike row omap rm av out0)) op_zero) =
  o_e (generic_op_v T vexlike (native_gp_size (q_arch64 q)) row (nth i omap i) (nth i (q_ops q) ONone)).
Proof.
  intros Hi Hm. change (o_e (nth i (i_ops (generic T q vexlike row omap rm av out0)) op_zero))
    with ((fun o => o_e o) (nth i (i_ops (generic T q vexlike row omap rm av out0)) op_zero)).
  rewrite <- (map_nth o_e). rewrite generic_keeps_extend_masks by exact Hm. rewrite (map_nth o_e).
  unfold generic_base. rewrite (nth_mapi0 _ ONone op_zero) by exact Hi. reflexivity.
Qed.

Lemma generic_whole_path_gp_extend_mask T q vexlike row omap rm av out0 i (d : gp_dest) id :
  (i < length (q_ops q))%nat -> nth i (q_ops q) ONone = OReg (gp_regtype d) id ->
  test (rm_flags rm) rmFlagMovssMovsd = false ->
  let dsc := nthN (t_op T) (nth (nth i omap i) (rr_ops row) 0) d_op in
  test (clear (or_flags dsc) fZExt) fW = true -> or_w dsc = 0 ->
  o_e (nth i (i_ops (generic T q vexlike row omap rm av out0)) op_zero) = o_e (reported_gp (q_arch64 q) d (dest_size d)).
Proof.
  intros Hi Hop Hm dsc HW Hw. rewrite generic_extend_mask_of_operand by assumption. rewrite Hop.
  rewrite generic_op_v_gp by (destruct d; reflexivity).
  apply (generic_op_gp_masks T (q_arch64 q) row (nth i omap i) d id HW Hw).
Qed.

(* ------------------------------------------------------------------ vector destinations, any register-group mask table *)
Lemma zext_non_vec_w o gm : o_w (zext_non_vec o gm) = o_w o.
Proof. unfold zext_non_vec. cbv zeta. destruct (_ =? 0); reflexivity. Qed.

Lemma zext_non_vec_e o gm : o_e o = 0 -> o_e (zext_non_vec o gm) = N.land (not64 (fill_trailing (o_w o))) gm.
Proof.
  intros H. unfold zext_non_vec. cbv zeta. destruct (_ =? 0) eqn:E; [|reflexivity].
  apply N.eqb_eq in E. rewrite E. exact H.
Qed.

Lemma legacy_vec_clip_vex rt o : legacy_vec_clip true rt o = o.
Proof. unfold legacy_vec_clip. cbn [negb]. rewrite andb_false_r. reflexivity. Qed.

(* generic_op_vec_masks without its hypothesis on the table: whatever rw_reg_group_byte_mask_table holds for the vector group, the write
   mask is the architectural one and the extension is the architectural one restricted to that entry - so for EVERY table an extended byte
   is a byte the VEX/EVEX write really zeroes (the converse needs the entry to be all ones, which the dumped table satisfies) *)
Lemma generic_op_vec_masks_any_table T native row i rt id :
  In rt [11; 12; 13] ->
  let dsc := nthN (t_op T) (nth i (rr_ops row) 0) d_op in
  test (clear (or_flags dsc) fZExt) fW = true -> or_w dsc = 0 -> test (or_flags dsc) fZExt = true ->
  let o := generic_op T native row i (OReg rt id) in
  o_w o = o_w (reported_vec (N.to_nat (reg_size rt))) /\
  o_e o = N.land (o_e (reported_vec (N.to_nat (reg_size rt)))) (group_byte_mask T grp_vec).
Proof.
  intros Hrt dsc HW Hw HZ o. subst o. unfold generic_op, generic_op_v. fold dsc.
  change (is_reg_or_mem (OReg rt id)) with true. cbn [negb].
  rewrite HW, Hw, HZ. cbn [andb]. rewrite N.eqb_refl.
  destruct Hrt as [<- | [<- | [<- | []]]]; cbn [reg_group reg_size N.eqb Pos.eqb grp_gp]; unfold grp_vec;
    set (gm := group_byte_mask T 1); clearbody gm;
    rewrite legacy_vec_clip_vex, zext_non_vec_w, zext_non_vec_e by reflexivity; cbn [o_w];
    (split; [vm_compute; reflexivity | f_equal; vm_compute; reflexivity]).
Qed.

Lemma generic_op_vec_extension_sound T native row i rt id b :
  In rt [11; 12; 13] ->
  let dsc := nthN (t_op T) (nth i (rr_ops row) 0) d_op in
  test (clear (or_flags dsc) fZExt) fW = true -> or_w dsc = 0 -> test (or_flags dsc) fZExt = true ->
  N.testbit (o_e (generic_op T native row i (OReg rt id))) b = true ->
  N.testbit (o_e (reported_vec (N.to_nat (reg_size rt)))) b = true.
Proof.
  intros Hrt dsc HW Hw HZ H.
  destruct (generic_op_vec_masks_any_table T native row i rt id Hrt HW Hw HZ) as [_ E].
  rewrite E, N.land_spec in H. apply andb_true_iff in H. apply H.
Qed.

(* ------------------------------------------------------------------ extend masks through the whole path: kept or cleared, never grown *)
Lemma nth_upd0 {A} (f : A -> A) l i d : nth i (upd l 0 f) d = if Nat.eqb i 0 then match l with [] => d | x :: _ => f x end else nth i l d.
Proof. unfold upd. destruct l as [|x r]; destruct i; reflexivity. Qed.

Lemma generic_extend_mask_kept_or_cleared T q vexlike row omap rm av out0 i : (i < length (q_ops q))%nat ->
  let e := o_e (nth i (i_ops (generic T q vexlike row omap rm av out0)) op_zero) in
  e = o_e (generic_op_v T vexlike (native_gp_size (q_arch64 q)) row (nth i omap i) (nth i (q_ops q) ONone)) \/ e = 0.
Proof.
  intros Hi e. subst e.
  change (o_e (nth i (i_ops (generic T q vexlike row omap rm av out0)) op_zero))
    with ((fun o => o_e o) (nth i (i_ops (generic T q vexlike row omap rm av out0)) op_zero)).
  rewrite <- (map_nth o_e).
  destruct (generic_keep_core o_e (fun _ => eq_refl) (fun _ => eq_refl) (fun _ => eq_refl) (fun _ _ => eq_refl) (fun _ _ => eq_refl)
              T q vexlike row omap rm av out0) as [E | [_ E]]; rewrite E; clear E; rewrite (map_nth o_e).
  - left. rewrite (nth_mapi0 _ ONone op_zero) by exact Hi. reflexivity.
  - rewrite nth_upd0. destruct (Nat.eqb i 0).
    + right. destruct (mapi _ 0 (q_ops q)); reflexivity.
    + left. rewrite (nth_mapi0 _ ONone op_zero) by exact Hi. reflexivity.
Qed.

(* whole path, legacy SSE (also movss/movsd): what query_rw_info returns for a vector register operand of an instruction that is not
   VEX/EVEX/XOP encoded never extends beyond the register *)
Lemma generic_whole_path_legacy_vec T q row omap rm av out0 i rt id :
  (i < length (q_ops q))%nat -> nth i (q_ops q) ONone = OReg rt id -> reg_group rt = grp_vec ->
  N.land (o_e (nth i (i_ops (generic T q false row omap rm av out0)) op_zero)) (not64 (lsb_mask (N.min (reg_size rt) 64))) = 0.
Proof.
  intros Hi Hop G.
  destruct (generic_extend_mask_kept_or_cleared T q false row omap rm av out0 i Hi) as [E | E]; rewrite E.
  - rewrite Hop. apply legacy_vec_no_extension_beyond_register. exact G.
  - reflexivity.
Qed.

(* whole path, VEX/EVEX/XOP: every byte returned as extended for a vector destination is one the write really zeroes, for every table *)
Lemma generic_whole_path_vex_vec_sound T q row omap rm av out0 i rt id b :
  (i < length (q_ops q))%nat -> nth i (q_ops q) ONone = OReg rt id -> In rt [11; 12; 13] ->
  let dsc := nthN (t_op T) (nth (nth i omap i) (rr_ops row) 0) d_op in
  test (clear (or_flags dsc) fZExt) fW = true -> or_w dsc = 0 -> test (or_flags dsc) fZExt = true ->
  N.testbit (o_e (nth i (i_ops (generic T q true row omap rm av out0)) op_zero)) b = true ->
  N.testbit (o_e (reported_vec (N.to_nat (reg_size rt)))) b = true.
Proof.
  intros Hi Hop Hrt dsc HW Hw HZ H.
  destruct (generic_extend_mask_kept_or_cleared T q true row omap rm av out0 i Hi) as [E | E]; rewrite E in H.
  - rewrite Hop in H. apply (generic_op_vec_extension_sound T (native_gp_size (q_arch64 q)) row (nth i omap i) rt id b Hrt HW Hw HZ H).
  - rewrite N.bits_0 in H. discriminate.
Qed.

(* ------------------------------------------------------------------ top level: one record per operand, for every category *)
Lemma handle_avx512_length q av out : length (i_ops (handle_avx512 q av out)) = length (i_ops out).
Proof.
  unfold handle_avx512. destruct (q_extra_mask q && negb (Nat.eqb (length (i_ops out)) 0)); [|reflexivity].
  cbn [i_ops]. destruct (negb (test (q_options q) optZMask) && negb (test av kImplicitZ)); [apply length_upd | reflexivity].
Qed.

Ltac cat_len H :=
  repeat match type of H with
         | context [if ?c then _ else _] => destruct c
         end;
  try discriminate; inversion H; subst; clear H;
  rewrite ?handle_avx512_length; cbn [i_ops with_ops with_iflags with_wf set_info length]; rewrite ?length_upd; reflexivity.

Lemma cat_mov_length q out r : cat_mov q out = Some r -> length (i_ops r) = length (q_ops q).
Proof. unfold cat_mov. cbv zeta. destruct (q_ops q) as [|a [|b [|c l]]]; try discriminate. intros H. cat_len H. Qed.
Lemma cat_movabs_length q out r : cat_movabs q out = Some r -> length (i_ops r) = length (q_ops q).
Proof. unfold cat_movabs. cbv zeta. destruct (q_ops q) as [|a [|b [|c l]]]; try discriminate. intros H. cat_len H. Qed.
Lemma cat_imul_length q out r : cat_imul q out = Some r -> length (i_ops r) = length (q_ops q).
Proof. unfold cat_imul. cbv zeta. destruct (q_ops q) as [|a [|b [|c [|d l]]]]; try discriminate; intros H; cat_len H. Qed.
Lemma cat_movh64_length q out r : cat_movh64 q out = Some r -> length (i_ops r) = length (q_ops q).
Proof. unfold cat_movh64. destruct (q_ops q) as [|a [|b [|c l]]]; try discriminate. intros H. cat_len H. Qed.
Lemma cat_punpcklxx_length q out r : cat_punpcklxx q out = Some r -> length (i_ops r) = length (q_ops q).
Proof. unfold cat_punpcklxx. cbv zeta. destruct (q_ops q) as [|a [|b [|c l]]]; try discriminate. intros H. cat_len H. Qed.
Lemma cat_vmaskmov_length q out r : cat_vmaskmov q out = Some r -> length (i_ops r) = length (q_ops q).
Proof. unfold cat_vmaskmov. destruct (q_ops q) as [|a [|b [|c [|d l]]]]; try discriminate. intros H. cat_len H. Qed.
Lemma cat_vmovddup_length q av out r : cat_vmovddup q av out = Some r -> length (i_ops r) = length (q_ops q).
Proof. unfold cat_vmovddup. cbv zeta. destruct (q_ops q) as [|a [|b [|c l]]]; try discriminate. intros H. cat_len H. Qed.
Lemma cat_vmovmsk_length q out r : cat_vmovmsk q out = Some r -> length (i_ops r) = length (q_ops q).
Proof. unfold cat_vmovmsk. cbv zeta. destruct (q_ops q) as [|a [|b [|c l]]]; try discriminate. intros H. cat_len H. Qed.
Lemma cat_vmov_narrow_length q s rm av out r : cat_vmov_narrow q s rm av out = Some r -> length (i_ops r) = length (q_ops q).
Proof.
  unfold cat_vmov_narrow. cbv zeta. destruct (q_ops q) as [|a [|b [|c [|d l]]]]; try discriminate; cbn [length Nat.ltb Nat.leb]; intros H; cat_len H.
Qed.
Lemma cat_vmov_widen_length q s rm av out r : cat_vmov_widen q s rm av out = Some r -> length (i_ops r) = length (q_ops q).
Proof.
  unfold cat_vmov_widen. cbv zeta. destruct (q_ops q) as [|a [|b [|c [|d l]]]]; try discriminate; cbn [length Nat.ltb Nat.leb]; intros H; cat_len H.
Qed.

Ltac split_pos p n :=
  match n with
  | O => idtac
  | S ?m => destruct p as [p|p|]; [split_pos p m | split_pos p m | idtac]
  end.

(* whenever query_rw_info succeeds - generic path or any of the 16 special categories, any table, any operand tuple - it returns exactly
   one operand record per operand given: no operand is forgotten and none is invented *)
Lemma query_rw_info_one_record_per_operand T q out : query_rw_info T q = Some out -> length (i_ops out) = length (q_ops q).
Proof.
  unfold query_rw_info.
  destruct (negb (q_id q <? N.of_nat (length (t_inst T)))); [discriminate|].
  destruct (Nat.ltb 6 (length (q_ops q))); [discriminate|]. cbv zeta.
  destruct (select_row T (nthN (t_inst T) (q_id q) d_inst) (length (q_ops q))) as [row omap].
  intros H.
  assert (G : forall r, Some (generic T q (test (ir_cflags (nthN (t_inst T) (q_id q) d_inst)) (t_vex_flags T)) row omap
                               (nthN (t_rm T) (rr_rm row) d_rm) (ir_avx512 (nthN (t_inst T) (q_id q) d_inst)) r) = Some out ->
                   length (i_ops out) = length (q_ops q)).
  { intros r E. inversion E. apply generic_one_record_per_operand. }
  destruct (rr_cat row) as [|p]; [exact (G _ H)|].
  split_pos p 6%nat; try discriminate; try (destruct p; discriminate); try exact (G _ H);
    first [ apply cat_mov_length in H | apply cat_movabs_length in H | apply cat_imul_length in H | apply cat_movh64_length in H
          | apply cat_punpcklxx_length in H | apply cat_vmaskmov_length in H | apply cat_vmovddup_length in H | apply cat_vmovmsk_length in H
          | apply cat_vmov_narrow_length in H | apply cat_vmov_widen_length in H ]; exact H.
Qed.

(* ------------------------------------------------------------------ AArch64: one record per operand *)
From Verif Require Import RwInfo.A64RwModel.
Lemma a64_one_record_per_operand T id ops out : a64_query_rw_info T id ops = Some out -> length (i_ops out) = length ops.
Proof.
  unfold a64_query_rw_info. cbv zeta.
  destruct (negb (_ <? _)); [discriminate|]. destruct (Nat.ltb 6 (length ops)); [discriminate|].
  intros H. inversion H. clear H. cbn [i_ops].
  repeat match goal with |- context [if ?c then _ else _] => destruct c end; rewrite ?length_mapi; reflexivity.
Qed.

(* ------------------------------------------------------------------ top level: a memory operand is never reported as zero-extended *)
Lemma handle_avx512_keep_e q av out : map o_e (i_ops (handle_avx512 q av out)) = map o_e (i_ops out).
Proof. apply (handle_avx512_keep o_e); reflexivity. Qed.

Lemma o_e_nth l i : o_e (nth i l op_zero) = nth i (map o_e l) 0.
Proof. change 0 with (o_e op_zero). symmetry. apply map_nth. Qed.

Ltac mem_e_case H Hn i :=
  destruct i as [|[|[|[|i]]]]; cbn [nth] in Hn; try discriminate; subst;
  cbn [is_reg is_mem is_gp is_vec is_reg_group is_reg_type is_imm andb orb negb] in H;
  repeat match type of H with
         | context [if ?c then _ else _] => destruct c
         end;
  try discriminate; inversion H; subst; clear H;
  rewrite o_e_nth, ?handle_avx512_keep_e; cbn [i_ops with_ops with_iflags with_wf set_info map nth upd]; reflexivity.

Lemma cat_mov_mem_e q out r i sz b x : cat_mov q out = Some r -> nth i (q_ops q) ONone = OMem sz b x -> o_e (nth i (i_ops r) op_zero) = 0.
Proof. unfold cat_mov. cbv zeta. destruct (q_ops q) as [|a0 [|b0 [|c0 l]]]; try discriminate. intros H Hn. mem_e_case H Hn i. Qed.
Lemma cat_movabs_mem_e q out r i sz b x : cat_movabs q out = Some r -> nth i (q_ops q) ONone = OMem sz b x -> o_e (nth i (i_ops r) op_zero) = 0.
Proof. unfold cat_movabs. cbv zeta. destruct (q_ops q) as [|a0 [|b0 [|c0 l]]]; try discriminate. intros H Hn. mem_e_case H Hn i. Qed.
Lemma cat_movh64_mem_e q out r i sz b x : cat_movh64 q out = Some r -> nth i (q_ops q) ONone = OMem sz b x -> o_e (nth i (i_ops r) op_zero) = 0.
Proof. unfold cat_movh64. destruct (q_ops q) as [|a0 [|b0 [|c0 l]]]; try discriminate. intros H Hn. mem_e_case H Hn i. Qed.
Lemma cat_punpcklxx_mem_e q out r i sz b x : cat_punpcklxx q out = Some r -> nth i (q_ops q) ONone = OMem sz b x -> o_e (nth i (i_ops r) op_zero) = 0.
Proof. unfold cat_punpcklxx. cbv zeta. destruct (q_ops q) as [|a0 [|b0 [|c0 l]]]; try discriminate. intros H Hn. mem_e_case H Hn i. Qed.
Lemma cat_vmaskmov_mem_e q out r i sz b x : cat_vmaskmov q out = Some r -> nth i (q_ops q) ONone = OMem sz b x -> o_e (nth i (i_ops r) op_zero) = 0.
Proof. unfold cat_vmaskmov. destruct (q_ops q) as [|a0 [|b0 [|c0 [|d0 l]]]]; try discriminate. intros H Hn. mem_e_case H Hn i. Qed.
Lemma cat_vmovddup_mem_e q av out r i sz b x : cat_vmovddup q av out = Some r -> nth i (q_ops q) ONone = OMem sz b x -> o_e (nth i (i_ops r) op_zero) = 0.
Proof. unfold cat_vmovddup. cbv zeta. destruct (q_ops q) as [|a0 [|b0 [|c0 l]]]; try discriminate. intros H Hn. mem_e_case H Hn i. Qed.
Lemma cat_vmovmsk_mem_e q out r i sz b x : cat_vmovmsk q out = Some r -> nth i (q_ops q) ONone = OMem sz b x -> o_e (nth i (i_ops r) op_zero) = 0.
Proof. unfold cat_vmovmsk. cbv zeta. destruct (q_ops q) as [|a0 [|b0 [|c0 l]]]; try discriminate. intros H Hn. mem_e_case H Hn i. Qed.
Lemma cat_vmov_narrow_mem_e q s rm av out r i sz b x :
  cat_vmov_narrow q s rm av out = Some r -> nth i (q_ops q) ONone = OMem sz b x -> o_e (nth i (i_ops r) op_zero) = 0.
Proof.
  unfold cat_vmov_narrow. cbv zeta. destruct (q_ops q) as [|a0 [|b0 [|c0 [|d0 l]]]]; try discriminate; cbn [length Nat.ltb Nat.leb]; intros H Hn; mem_e_case H Hn i.
Qed.
Lemma cat_vmov_widen_mem_e q s rm av out r i sz b x :
  cat_vmov_widen q s rm av out = Some r -> nth i (q_ops q) ONone = OMem sz b x -> o_e (nth i (i_ops r) op_zero) = 0.
Proof.
  unfold cat_vmov_widen. cbv zeta. destruct (q_ops q) as [|a0 [|b0 [|c0 [|d0 l]]]]; try discriminate; cbn [length Nat.ltb Nat.leb]; intros H Hn; mem_e_case H Hn i.
Qed.

Lemma generic_op_v_mem_no_extend T v native row i sz b x : o_e (generic_op_v T v native row i (OMem sz b x)) = 0.
Proof.
  unfold generic_op_v. cbn [is_reg_or_mem is_reg is_mem orb negb].
  destruct (mem_has_base (OMem sz b x) && negb _); destruct (mem_has_index (OMem sz b x) && negb _); reflexivity.
Qed.

Lemma generic_mem_e T q v row omap rm av out0 i sz b x :
  nth i (q_ops q) ONone = OMem sz b x -> o_e (nth i (i_ops (generic T q v row omap rm av out0)) op_zero) = 0.
Proof.
  intros Hn. assert (Hi : (i < length (q_ops q))%nat).
  { destruct (Nat.lt_ge_cases i (length (q_ops q))) as [L|G]; [exact L|]. rewrite nth_overflow in Hn by exact G. discriminate. }
  destruct (generic_extend_mask_kept_or_cleared T q v row omap rm av out0 i Hi) as [E|E]; rewrite E; [|reflexivity].
  rewrite Hn. apply generic_op_v_mem_no_extend.
Qed.

(* the category (InstDB::RWInfo::category) query_rw_info dispatches on *)
Definition selected_category (T : tables) (q : query) : N :=
  rr_cat (fst (select_row T (nthN (t_inst T) (q_id q) d_inst) (length (q_ops q)))).

(* for every table and operand tuple, generic path and every special category except kCategoryImul (whose code zero-extends its first
   operands without looking at their kind; the validator only lets registers through there): what query_rw_info returns for a memory
   operand never carries an extend mask *)
Lemma query_rw_info_memory_never_extended T q out i sz b x :
  query_rw_info T q = Some out -> selected_category T q <> 4 -> nth i (q_ops q) ONone = OMem sz b x ->
  o_e (nth i (i_ops out) op_zero) = 0.
Proof.
  unfold query_rw_info, selected_category.
  destruct (negb (q_id q <? N.of_nat (length (t_inst T)))); [discriminate|].
  destruct (Nat.ltb 6 (length (q_ops q))); [discriminate|]. cbv zeta.
  destruct (select_row T (nthN (t_inst T) (q_id q) d_inst) (length (q_ops q))) as [row omap]. cbn [fst].
  intros H C4 Hn.
  assert (G : forall r, Some (generic T q (test (ir_cflags (nthN (t_inst T) (q_id q) d_inst)) (t_vex_flags T)) row omap
                               (nthN (t_rm T) (rr_rm row) d_rm) (ir_avx512 (nthN (t_inst T) (q_id q) d_inst)) r) = Some out ->
                   o_e (nth i (i_ops out) op_zero) = 0).
  { intros r E. inversion E. apply (generic_mem_e _ _ _ _ _ _ _ _ _ sz b x Hn). }
  destruct (rr_cat row) as [|p]; [exact (G _ H)|].
  split_pos p 6%nat; try discriminate; try (destruct p; discriminate); try exact (G _ H); try (exfalso; apply C4; reflexivity);
    first [ apply (cat_mov_mem_e _ _ _ i sz b x) in H | apply (cat_movabs_mem_e _ _ _ i sz b x) in H | apply (cat_movh64_mem_e _ _ _ i sz b x) in H
          | apply (cat_punpcklxx_mem_e _ _ _ i sz b x) in H | apply (cat_vmaskmov_mem_e _ _ _ i sz b x) in H
          | apply (cat_vmovddup_mem_e _ _ _ _ i sz b x) in H | apply (cat_vmovmsk_mem_e _ _ _ i sz b x) in H
          | apply (cat_vmov_narrow_mem_e _ _ _ _ _ _ i sz b x) in H | apply (cat_vmov_widen_mem_e _ _ _ _ _ _ i sz b x) in H ];
    solve [exact H | exact Hn].
Qed.

(* ------------------------------------------------------------------ top level = generic path when the selected record is a generic one *)
Definition generic_call (T : tables) (q : query) : rw_info :=
  let ii := nthN (t_inst T) (q_id q) d_inst in
  let ad := nthN (t_addl T) (ir_addl ii) d_addl in
  let rwf := nthN (t_rwflags T) (ad_rwflags ad) (0, 0) in
  let ro := select_row T ii (length (q_ops q)) in
  let rm := nthN (t_rm T) (rr_rm (fst ro)) d_rm in
  generic T q (test (ir_cflags ii) (t_vex_flags T)) (fst ro) (snd ro) rm (ir_avx512 ii)
    {| i_flags := nthN (t_iflags T) (ad_iflags ad) 0; i_rmfeat := rm_feat rm; i_rf := fst rwf; i_wf := snd rwf; i_extra := op_zero; i_ops := [] |}.

Lemma query_rw_info_generic T q out :
  query_rw_info T q = Some out -> selected_category T q <= 1 -> out = generic_call T q.
Proof.
  unfold query_rw_info, selected_category, generic_call.
  destruct (negb (q_id q <? N.of_nat (length (t_inst T)))); [discriminate|].
  destruct (Nat.ltb 6 (length (q_ops q))); [discriminate|]. cbv zeta.
  destruct (select_row T (nthN (t_inst T) (q_id q) d_inst) (length (q_ops q))) as [row omap]. cbn [fst snd].
  intros H C. destruct (rr_cat row) as [|p]; [inversion H; reflexivity|].
  destruct p as [p|p|]; [| |inversion H; reflexivity]; exfalso; lia.
Qed.

(* the write/extend masks query_rw_info RETURNS for a written general-purpose register operand described by a generic record without an
   explicit write mask are the architectural ones (C12_gp_bytes_exact), at any operand position *)
Lemma query_rw_info_gp_masks T q out i (d : gp_dest) id :
  query_rw_info T q = Some out -> selected_category T q <= 1 ->
  (i < length (q_ops q))%nat -> nth i (q_ops q) ONone = OReg (gp_regtype d) id ->
  let ro := select_row T (nthN (t_inst T) (q_id q) d_inst) (length (q_ops q)) in
  let dsc := nthN (t_op T) (nth (nth i (snd ro) i) (rr_ops (fst ro)) 0) d_op in
  test (clear (or_flags dsc) fZExt) fW = true -> or_w dsc = 0 ->
  o_w (nth i (i_ops out) op_zero) = o_w (reported_gp (q_arch64 q) d (dest_size d)) /\
  (test (rm_flags (nthN (t_rm T) (rr_rm (fst ro)) d_rm)) rmFlagMovssMovsd = false ->
   o_e (nth i (i_ops out) op_zero) = o_e (reported_gp (q_arch64 q) d (dest_size d))).
Proof.
  intros H C Hi Hop ro dsc HW Hw. rewrite (query_rw_info_generic T q out H C). unfold generic_call. cbv zeta. fold ro. split.
  - apply (generic_whole_path_gp_write_mask T q _ (fst ro) (snd ro) _ _ _ i d id Hi Hop HW Hw).
  - intros Hm. apply (generic_whole_path_gp_extend_mask T q _ (fst ro) (snd ro) _ _ _ i d id Hi Hop Hm HW Hw).
Qed.

(* ------------------------------------------------------------------ AArch64 by-element operands: the masks are the element's bytes *)
Definition a64_elem_access (es idx : N) : N := N.land (N.shiftl (lsb_mask es) (idx * es)) ones64.

Definition elem_row (es idx : N) : bool :=
  forallb (fun b => Bool.eqb (N.testbit (a64_elem_access es idx) b) ((idx * es <=? b) && (b <? idx * es + es))) (map N.of_nat (seq 0 64)).
Lemma elem_table : forallb (fun es => forallb (elem_row es) (map N.of_nat (seq 0 64))) [1; 2; 4; 8] = true.
Proof. vm_compute. reflexivity. Qed.

(* for element sizes 1, 2, 4, 8 bytes and every index: byte b (< 64) is in the mask exactly when it belongs to element idx *)
Lemma a64_elem_access_spec es idx b : In es [1; 2; 4; 8] -> idx < 64 -> b < 64 ->
  N.testbit (a64_elem_access es idx) b = (idx * es <=? b) && (b <? idx * es + es).
Proof.
  intros He Hi Hb.
  pose proof (proj1 (forallb_forall _ _) elem_table es He) as R1.
  assert (M : forall x, x < 64 -> In x (map N.of_nat (seq 0 64))).
  { intros x Hx. apply in_map_iff. exists (N.to_nat x). split; [apply N2Nat.id | apply in_seq; lia]. }
  pose proof (proj1 (forallb_forall _ _) R1 idx (M idx Hi)) as R2. unfold elem_row in R2.
  pose proof (proj1 (forallb_forall _ _) R2 b (M b Hb)) as R3. apply eqb_prop in R3. exact R3.
Qed.

(* the model (all tables): in the non-list path a by-element register operand gets the table's read/write masks restricted to the element *)
Lemma a64_by_element_masks T id ops out i et idx :
  a64_query_rw_info T id ops = Some out -> (i < length ops)%nat -> nth i ops ANone = AReg (Some (et, idx)) ->
  let row := nthN (at_inst T) (N.land id (at_real_id_mask T)) {| ai_rw := 0; ai_flags := 0 |} in
  (test (ai_flags row) (at_consecutive T) && Nat.ltb 2 (length ops)) = false ->
  let base := a64_base_op (nth i (nthN (at_rwx T) (ai_rw row) []) 0) in
  let acc := a64_elem_access (nthN (at_elem_size T) et 0) idx in
  o_r (nth i (i_ops out) op_zero) = N.land (o_r base) acc /\ o_w (nth i (i_ops out) op_zero) = N.land (o_w base) acc.
Proof.
  unfold a64_query_rw_info. cbv zeta.
  destruct (negb (_ <? _)); [discriminate|]. destruct (Nat.ltb 6 (length ops)); [discriminate|].
  intros H Hi Hop Hc. inversion H. clear H. subst out. cbn [i_ops]. rewrite Hc. cbn [negb andb].
  match goal with |- context [if ?c then mapi ?f 0 ?l else ?l] =>
    assert (K : forall (g : op_rw -> N), (forall o, g (set_clc o (u8 (N.of_nat (length ops - 2)))) = g o) -> (forall o, g (add_flags o fConsecutive) = g o) ->
                g (nth i (if c then mapi f 0 l else l) op_zero) = g (nth i l op_zero));
    [ intros g G1 G2; destruct c; [|reflexivity];
      rewrite (nth_mapi0 f op_zero op_zero) by (rewrite length_mapi; exact Hi); cbn [Nat.add]; cbv beta;
      destruct (Nat.eqb i 1); [apply G1|]; destruct (Nat.ltb 1 i && Nat.ltb i (length ops - 1)); [apply G2 | reflexivity] |]
  end.
  rewrite (K o_r), (K o_w) by reflexivity.
  rewrite (nth_mapi0 _ ANone op_zero) by exact Hi. cbn [Nat.add]. rewrite Hop. cbn [a_is_reg_or_mem negb].
  unfold a64_elem_access. split; reflexivity.
Qed.

(* ------------------------------------------------------------------ source operands (positions >= 1) through the whole generic path *)
Lemma handle_avx512_nth q av out i d : i <> 0%nat -> nth i (i_ops (handle_avx512 q av out)) d = nth i (i_ops out) d.
Proof.
  intros Hi. unfold handle_avx512. destruct (q_extra_mask q && negb (Nat.eqb (length (i_ops out)) 0)); [|reflexivity].
  cbn [i_ops]. destruct (negb (test (q_options q) optZMask) && negb (test av kImplicitZ)); [|reflexivity].
  rewrite nth_upd0. destruct i; [contradiction | reflexivity].
Qed.

Lemma nth_upd0_other {A} (f : A -> A) l i d : i <> 0%nat -> nth i (upd l 0 f) d = nth i l d.
Proof. intros Hi. rewrite nth_upd0. destruct i; [contradiction | reflexivity]. Qed.

(* every operand after the first comes out of the whole generic path exactly as the per-operand function (i.e. the table entry) made it,
   except that the reg/mem pass may add kRegMem and the memory size; that pass is skipped with {er} *)
Lemma generic_source_operands T q vexlike row omap rm av out0 i : (1 <= i < length (q_ops q))%nat ->
  let o := nth i (i_ops (generic T q vexlike row omap rm av out0)) op_zero in
  let o0 := generic_op_v T vexlike (native_gp_size (q_arch64 q)) row (nth i omap i) (nth i (q_ops q) ONone) in
  o = o0 \/ (test (q_options q) optER = false /\ (o = add_flags o0 fRegM \/ exists s, o = set_rmsize (add_flags o0 fRegM) s)).
Proof.
  intros [Hi1 Hi] o o0. subst o. assert (Hn : i <> 0%nat) by lia.
  unfold generic. cbv zeta.
  set (outs0 := mapi _ 0 (q_ops q)).
  assert (B : nth i outs0 op_zero = o0).
  { subst outs0 o0. rewrite (nth_mapi0 _ ONone op_zero) by exact Hi. reflexivity. }
  match goal with |- context [match ?X with pair _ _ => _ end] => set (X3 := X) end.
  assert (H3 : nth i (fst (fst X3)) op_zero = nth i outs0 op_zero /\ length (fst (fst X3)) = length outs0).
  { subst X3. repeat match goal with |- context [if ?c then _ else _] => destruct c end; cbn [fst];
      rewrite ?nth_upd0_other by exact Hn; rewrite ?length_upd; split; reflexivity. }
  destruct X3 as [[outs1 rmf] rgm]. cbn [fst] in H3. destruct H3 as [H3 L3].
  rewrite handle_avx512_nth by exact Hn. cbn [i_ops set_info].
  set (rmmask := if negb (N.land rgm (rgm - 1) =? 0) then _ else rgm). clearbody rmmask.
  set (maxsz := fold_left _ (q_ops q) 0). clearbody maxsz.
  set (R := if negb (rmmask =? 0) && negb (test (q_options q) optER) then _ else outs1).
  assert (HR : nth i R op_zero = o0 \/ (test (q_options q) optER = false /\
               (nth i R op_zero = add_flags o0 fRegM \/ exists s, nth i R op_zero = set_rmsize (add_flags o0 fRegM) s))).
  { subst R. destruct (negb (rmmask =? 0) && negb (test (q_options q) optER)) eqn:C; [|left; rewrite H3; exact B].
    apply andb_true_iff in C as [_ C]. apply negb_true_iff in C.
    rewrite (nth_mapi0 _ op_zero op_zero) by (rewrite L3; subst outs0; rewrite length_mapi; exact Hi). cbn [Nat.add]. rewrite H3, B.
    destruct (N.testbit rmmask (N.of_nat i)); [|left; reflexivity]. right. split; [exact C|].
    destruct (rm_size_of _ _ _) as [s|]; [right; exists s; reflexivity | left; reflexivity]. }
  destruct ((rr_cat row =? 1) && existsb (N.eqb (q_id q)) (t_ternlog T)); [|exact HR].
  destruct (length (q_ops q)) as [|[|[|[|[|n]]]]]; try exact HR.
  destruct (opn (q_ops q) 3); try exact HR.
  destruct (N.shiftr _ 4 =? _); [|exact HR].
  rewrite nth_upd0_other by exact Hn. exact HR.
Qed.

(* ------------------------------------------------------------------ kRegMem is only ever added to register operands *)
Lemma testbit_lor_shiftl1 acc m j : N.testbit (N.lor acc (N.shiftl 1 m)) j = N.testbit acc j || (j =? m).
Proof.
  rewrite N.lor_spec. f_equal. rewrite N.shiftl_1_l. rewrite N.pow2_bits_eqb. apply N.eqb_sym.
Qed.

Lemma regmask_bits (C : nat -> bool) : forall l k acc j,
  N.testbit (fold_left (fun acc p => if is_reg (snd p) && C (fst p) then N.lor acc (N.shiftl 1 (N.of_nat (fst p))) else acc)
                       (combine (seq k (length l)) l) acc) j = true ->
  N.testbit acc j = true \/ exists i, (i < length l)%nat /\ j = N.of_nat (k + i) /\ is_reg (nth i l ONone) = true.
Proof.
  induction l as [|x r IH]; intros k acc j H; cbn [length seq combine fold_left] in H; [left; exact H|].
  apply IH in H. cbn [fst snd] in H. destruct H as [H | [i [Hi [Hj Hr]]]].
  - destruct (is_reg x && C k) eqn:E; [|left; exact H].
    rewrite testbit_lor_shiftl1 in H. apply orb_true_iff in H as [H|H]; [left; exact H|].
    right. exists 0%nat. apply N.eqb_eq in H. apply andb_true_iff in E as [E _].
    split; [cbn; lia|]. split; [rewrite Nat.add_0_r; exact H | exact E].
  - right. exists (S i). split; [cbn; lia|]. split; [rewrite Hj; f_equal; lia | exact Hr].
Qed.

Lemma generic_regmem_only_on_registers T q vexlike row omap rm av out0 i : (1 <= i < length (q_ops q))%nat ->
  let o := nth i (i_ops (generic T q vexlike row omap rm av out0)) op_zero in
  let o0 := generic_op_v T vexlike (native_gp_size (q_arch64 q)) row (nth i omap i) (nth i (q_ops q) ONone) in
  o <> o0 -> is_reg (nth i (q_ops q) ONone) = true /\ test (q_options q) optER = false.
Proof.
  intros [Hi1 Hi] o o0 Hne. subst o. assert (Hn : i <> 0%nat) by lia.
  revert Hne. unfold generic. cbv zeta.
  set (outs0 := mapi _ 0 (q_ops q)).
  assert (B : nth i outs0 op_zero = o0).
  { subst outs0 o0. rewrite (nth_mapi0 _ ONone op_zero) by exact Hi. reflexivity. }
  set (regmask0 := fold_left _ (combine (seq 0 (length (q_ops q))) (q_ops q)) 0).
  assert (RB : forall j, N.testbit regmask0 j = true -> exists k, (k < length (q_ops q))%nat /\ j = N.of_nat k /\ is_reg (nth k (q_ops q) ONone) = true).
  { intros j Hj. subst regmask0.
    apply (regmask_bits (fun k => N.testbit (rm_ops rm) (N.of_nat (nth k omap k))) (q_ops q) 0 0 j) in Hj.
    destruct Hj as [Hj | [k [Hk [Ej Hr]]]]; [rewrite N.bits_0 in Hj; discriminate|]. exists k. auto. }
  clearbody regmask0.
  match goal with |- context [match ?X with pair _ _ => _ end] => set (X3 := X) end.
  assert (H3 : nth i (fst (fst X3)) op_zero = nth i outs0 op_zero /\ length (fst (fst X3)) = length outs0 /\ (snd X3 = regmask0 \/ snd X3 = 0)).
  { subst X3. repeat match goal with |- context [if ?c then _ else _] => destruct c end; cbn [fst snd];
      rewrite ?nth_upd0_other by exact Hn; rewrite ?length_upd; repeat split; auto. }
  destruct X3 as [[outs1 rmf] rgm]. cbn [fst snd] in H3. destruct H3 as [H3 [L3 G3]].
  rewrite handle_avx512_nth by exact Hn. cbn [i_ops set_info].
  assert (RG : forall j, N.testbit rgm j = true -> exists k, (k < length (q_ops q))%nat /\ j = N.of_nat k /\ is_reg (nth k (q_ops q) ONone) = true).
  { intros j Hj. destruct G3 as [-> | ->]; [apply RB; exact Hj | rewrite N.bits_0 in Hj; discriminate]. }
  set (rmmask := if negb (N.land rgm (rgm - 1) =? 0) then _ else rgm).
  assert (RM : N.testbit rmmask (N.of_nat i) = true -> is_reg (nth i (q_ops q) ONone) = true).
  { assert (RGi : N.testbit rgm (N.of_nat i) = true -> is_reg (nth i (q_ops q) ONone) = true).
    { intros Hj. destruct (RG _ Hj) as [k [_ [E Hr]]]. apply Nat2N.inj in E. subst k. exact Hr. }
    assert (R4 : N.testbit (if rgm =? 6 then 4 else rgm) (N.of_nat i) = true -> is_reg (nth i (q_ops q) ONone) = true).
    { destruct (rgm =? 6) eqn:E6; [|exact RGi]. apply N.eqb_eq in E6. intros H4.
      change 4 with (2 ^ 2) in H4. rewrite N.pow2_bits_eqb in H4. apply N.eqb_eq in H4.
      apply RGi. rewrite E6, <- H4. reflexivity. }
    subst rmmask. destruct (negb (N.land rgm (rgm - 1) =? 0)); [|exact RGi].
    destruct (q_ops q) as [|a [|b [|c [|d l]]]]; try exact RGi;
      destruct a; try exact RGi; try exact R4; destruct b; try exact RGi; try exact R4.
    destruct (negb (reg_group rt =? reg_group rt0)); [|exact RGi].
    destruct i as [|[|i]]; [lia | intros _; reflexivity | cbn in Hi; lia]. }
  clearbody rmmask.
  set (maxsz := fold_left _ (q_ops q) 0). clearbody maxsz.
  set (R := if negb (rmmask =? 0) && negb (test (q_options q) optER) then _ else outs1).
  assert (HR : nth i R op_zero <> o0 -> is_reg (nth i (q_ops q) ONone) = true /\ test (q_options q) optER = false).
  { subst R. destruct (negb (rmmask =? 0) && negb (test (q_options q) optER)) eqn:C; [|rewrite H3, B; intros X; contradiction].
    apply andb_true_iff in C as [_ C]. apply negb_true_iff in C.
    rewrite (nth_mapi0 _ op_zero op_zero) by (rewrite L3; subst outs0; rewrite length_mapi; exact Hi). cbn [Nat.add]. rewrite H3, B.
    destruct (N.testbit rmmask (N.of_nat i)); [|intros X; contradiction]. intros _. split; [apply RM; reflexivity | exact C]. }
  destruct ((rr_cat row =? 1) && existsb (N.eqb (q_id q)) (t_ternlog T)); [|exact HR].
  destruct (length (q_ops q)) as [|[|[|[|[|n]]]]]; try exact HR.
  destruct (opn (q_ops q) 3); try exact HR.
  destruct (N.shiftr _ 4 =? _); [|exact HR].
  rewrite nth_upd0_other by exact Hn. exact HR.
Qed.

(* ------------------------------------------------------------------ {k} merge-masking through the whole generic path *)
Lemma land_lor_absorb a b : N.land a (N.lor b a) = a.
Proof.
  apply N.bits_inj. intros k. rewrite N.land_spec, N.lor_spec. destruct (N.testbit a k), (N.testbit b k); reflexivity.
Qed.

(* what the generic path RETURNS under a {k} mask without {z} on an instruction that is not implicitly zeroing: operand 0 is read, its read
   mask covers its write mask (the lanes the mask leaves alone keep the old value), and the {k} register itself is read *)
Lemma generic_merge_masking_reads_destination T q vexlike row omap rm av out0 :
  q_extra_mask q = true -> test (q_options q) optZMask = false -> test av kImplicitZ = false -> (0 < length (q_ops q))%nat ->
  let out := generic T q vexlike row omap rm av out0 in
  let o := nth 0 (i_ops out) op_zero in
  test (o_flags o) fR = true /\ N.land (o_w o) (o_r o) = o_w o /\ test (o_flags (i_extra out)) fR = true.
Proof.
  intros K Z I Hl out o. subst o out.
  pose proof (generic_one_record_per_operand T q vexlike row omap rm av out0) as HL.
  pose proof (generic_keeps_write_masks T q vexlike row omap rm av out0) as HW.
  pose proof (generic_write_mask_of_operand T q vexlike row omap rm av out0 0 Hl) as HW0.
  unfold generic in *. cbv zeta in *.
  match goal with |- context [match ?X with pair _ _ => _ end] => destruct X as [[outs1 rmf] rgm] end.
  rewrite handle_avx512_length in HL. rewrite (handle_avx512_keep o_w) in HW by reflexivity. cbn [i_ops set_info] in HL, HW.
  match type of HL with length ?L = _ => set (LL := L) in * end.
  destruct LL as [|x r] eqn:EL; [cbn in HL; lia|].
  match goal with |- context [handle_avx512 q av ?O] => destruct (handle_avx512_merge q av O x r K eq_refl Z I) as [o' [E [R [Er Ex]]]] end.
  rewrite E in *. cbn [nth] in *. split; [exact R|]. split; [|exact Ex].
  rewrite Er. unfold generic_base in HW. destruct (q_ops q) as [|s0 sr]; [cbn in Hl; lia|].
  cbn [mapi map] in HW. inversion HW as [[H0 H1]]. cbn [nth] in HW0. rewrite HW0. rewrite H0. apply land_lor_absorb.
Qed.

(* ------------------------------------------------------------------ a tabled read of operand 0 is dropped ONLY by the vpternlog idiom *)
Definition rd (o : op_rw) : bool := test (o_flags o) fR.

Lemma rd_add_regm o : rd (add_flags o fRegM) = rd o.
Proof.
  unfold rd, add_flags, test. cbn [o_flags]. f_equal. f_equal. rewrite N.land_lor_distr_l. change (N.land fRegM fR) with 0. apply N.lor_0_r.
Qed.

Lemma rd_add_r o : rd (add_flags o fR) = true.
Proof. unfold rd, add_flags, test. cbn [o_flags]. apply negb_true_iff, N.eqb_neq. apply land_lor_bit. discriminate. Qed.

Lemma handle_avx512_rd0 q av out : rd (nth 0 (i_ops (handle_avx512 q av out)) op_zero) = false -> rd (nth 0 (i_ops out) op_zero) = false.
Proof.
  unfold handle_avx512. destruct (q_extra_mask q && negb (Nat.eqb (length (i_ops out)) 0)); [|auto].
  cbn [i_ops]. destruct (negb (test (q_options q) optZMask) && negb (test av kImplicitZ)); [|auto].
  rewrite nth_upd0. cbn [Nat.eqb]. destruct (i_ops out) as [|x r]; [auto|].
  intros H. change (rd (set_r (add_flags x fR) (N.lor (o_r x) (o_w x)))) with (rd (add_flags x fR)) in H. rewrite rd_add_r in H. discriminate.
Qed.

Lemma generic_read_dropped_only_by_ternlog T q vexlike row omap rm av out0 : (0 < length (q_ops q))%nat ->
  rd (generic_op_v T vexlike (native_gp_size (q_arch64 q)) row (nth 0 omap 0%nat) (nth 0 (q_ops q) ONone)) = true ->
  rd (nth 0 (i_ops (generic T q vexlike row omap rm av out0)) op_zero) = false ->
  rr_cat row = 1 /\ existsb (N.eqb (q_id q)) (t_ternlog T) = true /\ length (q_ops q) = 4%nat /\
  exists v, opn (q_ops q) 3 = OImm v /\ N.shiftr (Z.to_N (Z.land v 255)) 4 = N.land (Z.to_N (Z.land v 255)) 15.
Proof.
  intros Hl HB. unfold generic. cbv zeta.
  set (outs0 := mapi _ 0 (q_ops q)).
  assert (B : rd (nth 0 outs0 op_zero) = true).
  { subst outs0. rewrite (nth_mapi0 _ ONone op_zero) by exact Hl. exact HB. }
  match goal with |- context [match ?X with pair _ _ => _ end] => set (X3 := X) end.
  assert (H3 : rd (nth 0 (fst (fst X3)) op_zero) = true).
  { subst X3. repeat match goal with |- context [if ?c then _ else _] => destruct c end; cbn [fst]; try exact B.
    rewrite nth_upd0. cbn [Nat.eqb]. destruct outs0 as [|x r]; [exact B | exact B]. }
  destruct X3 as [[outs1 rmf] rgm]. cbn [fst] in H3.
  intros HF. apply handle_avx512_rd0 in HF. cbn [i_ops set_info] in HF. revert HF.
  set (rmmask := if negb (N.land rgm (rgm - 1) =? 0) then _ else rgm). clearbody rmmask.
  set (maxsz := fold_left _ (q_ops q) 0). clearbody maxsz.
  set (R := if negb (rmmask =? 0) && negb (test (q_options q) optER) then _ else outs1).
  assert (HR : rd (nth 0 R op_zero) = true).
  { subst R. destruct (negb (rmmask =? 0) && negb (test (q_options q) optER)); [|exact H3].
    destruct outs1 as [|x r]; [exact H3|]. cbn [mapi nth]. cbn [nth] in H3.
    destruct (N.testbit rmmask (N.of_nat 0)); [|exact H3].
    destruct (rm_size_of _ _ _); [change (rd (set_rmsize (add_flags x fRegM) n)) with (rd (add_flags x fRegM))|]; rewrite rd_add_regm; exact H3. }
  destruct (rr_cat row =? 1) eqn:C1; cbn [andb]; [|intros HF; rewrite HR in HF; discriminate].
  destruct (existsb (N.eqb (q_id q)) (t_ternlog T)) eqn:C2; [|intros HF; rewrite HR in HF; discriminate].
  destruct (length (q_ops q)) as [|[|[|[|[|n]]]]] eqn:C3; try (intros HF; rewrite HR in HF; discriminate).
  destruct (opn (q_ops q) 3) as [| | |v|] eqn:C4; try (intros HF; rewrite HR in HF; discriminate).
  destruct (N.shiftr _ 4 =? _) eqn:C5; [|intros HF; rewrite HR in HF; discriminate].
  intros _. apply N.eqb_eq in C1. apply N.eqb_eq in C5. repeat split; try assumption. exists v. split; [reflexivity | exact C5].
Qed.

Lemma land255_lt v : Z.to_N (Z.land v 255) < 256.
Proof.
  apply N2Z.inj_lt. rewrite Z2N.id by (apply Z.land_nonneg; right; lia).
  change (Z.of_N 256) with (2 ^ 8)%Z. change 255%Z with (Z.ones 8). rewrite Z.land_ones by lia. apply Z.mod_pos_bound. lia.
Qed.

(* ------------------------------------------------------------------ kRegMem on operand 0 *)
Definition rmf (o : op_rw) : bool := test (o_flags o) fRegM.

Lemma rmf_add_r o : rmf (add_flags o fR) = rmf o.
Proof.
  unfold rmf, add_flags, test. cbn [o_flags]. f_equal. f_equal. rewrite N.land_lor_distr_l. change (N.land fR fRegM) with 0. apply N.lor_0_r.
Qed.
Lemma land_ldiff_disjoint a f g : N.land f g = 0 -> N.land (N.ldiff a f) g = N.land a g.
Proof.
  intros H. apply N.bits_inj. intros k. rewrite !N.land_spec, N.ldiff_spec.
  assert (K : N.testbit (N.land f g) k = false) by (rewrite H; apply N.bits_0). rewrite N.land_spec in K.
  destruct (N.testbit a k), (N.testbit f k), (N.testbit g k); simpl in *; congruence.
Qed.
Lemma rmf_clr_r o : rmf (clr_flags o fR) = rmf o.
Proof. unfold rmf, clr_flags, test, clear. cbn [o_flags]. rewrite land_ldiff_disjoint by reflexivity. reflexivity. Qed.

Lemma handle_avx512_rmf0 q av out : rmf (nth 0 (i_ops (handle_avx512 q av out)) op_zero) = rmf (nth 0 (i_ops out) op_zero).
Proof.
  unfold handle_avx512. destruct (q_extra_mask q && negb (Nat.eqb (length (i_ops out)) 0)); [|reflexivity].
  cbn [i_ops]. destruct (negb (test (q_options q) optZMask) && negb (test av kImplicitZ)); [|reflexivity].
  rewrite nth_upd0. cbn [Nat.eqb]. destruct (i_ops out) as [|x r]; [reflexivity|]. cbn [nth].
  change (rmf (set_r (add_flags x fR) (N.lor (o_r x) (o_w x)))) with (rmf (add_flags x fR)). apply rmf_add_r.
Qed.

Lemma generic_regmem_operand0 T q vexlike row omap rm av out0 : (0 < length (q_ops q))%nat ->
  rmf (generic_op_v T vexlike (native_gp_size (q_arch64 q)) row (nth 0 omap 0%nat) (nth 0 (q_ops q) ONone)) = false ->
  rmf (nth 0 (i_ops (generic T q vexlike row omap rm av out0)) op_zero) = true ->
  is_reg (nth 0 (q_ops q) ONone) = true /\ test (q_options q) optER = false.
Proof.
  intros Hl HB. unfold generic. cbv zeta.
  set (outs0 := mapi _ 0 (q_ops q)).
  assert (B : rmf (nth 0 outs0 op_zero) = false).
  { subst outs0. rewrite (nth_mapi0 _ ONone op_zero) by exact Hl. exact HB. }
  set (regmask0 := fold_left _ (combine (seq 0 (length (q_ops q))) (q_ops q)) 0).
  assert (RB : N.testbit regmask0 0 = true -> is_reg (nth 0 (q_ops q) ONone) = true).
  { intros Hj. subst regmask0.
    apply (regmask_bits (fun k => N.testbit (rm_ops rm) (N.of_nat (nth k omap k))) (q_ops q) 0 0 0) in Hj.
    destruct Hj as [Hj | [k [Hk [Ej Hr]]]]; [rewrite N.bits_0 in Hj; discriminate|].
    assert (k = 0%nat) by lia. subst k. exact Hr. }
  clearbody regmask0.
  match goal with |- context [match ?X with pair _ _ => _ end] => set (X3 := X) end.
  assert (H3 : rmf (nth 0 (fst (fst X3)) op_zero) = false /\ (snd X3 = regmask0 \/ snd X3 = 0)).
  { subst X3. repeat match goal with |- context [if ?c then _ else _] => destruct c end; cbn [fst snd]; split; auto;
      rewrite nth_upd0; cbn [Nat.eqb]; destruct outs0 as [|x r]; exact B. }
  destruct X3 as [[outs1 rmfeat] rgm]. cbn [fst snd] in H3. destruct H3 as [H3 G3].
  rewrite handle_avx512_rmf0. cbn [i_ops set_info].
  assert (RG : N.testbit rgm 0 = true -> is_reg (nth 0 (q_ops q) ONone) = true).
  { intros Hj. destruct G3 as [-> | ->]; [apply RB; exact Hj | rewrite N.bits_0 in Hj; discriminate]. }
  set (rmmask := if negb (N.land rgm (rgm - 1) =? 0) then _ else rgm).
  assert (RM : N.testbit rmmask 0 = true -> is_reg (nth 0 (q_ops q) ONone) = true).
  { assert (R4 : N.testbit (if rgm =? 6 then 4 else rgm) 0 = true -> is_reg (nth 0 (q_ops q) ONone) = true).
    { destruct (rgm =? 6); [intros X; cbn in X; discriminate | exact RG]. }
    subst rmmask. destruct (negb (N.land rgm (rgm - 1) =? 0)); [|exact RG].
    destruct (q_ops q) as [|a [|b [|c [|d l]]]]; try exact RG;
      destruct a; try exact RG; try exact R4; destruct b; try exact RG; try exact R4.
    intros _. reflexivity. }
  clearbody rmmask.
  set (maxsz := fold_left _ (q_ops q) 0). clearbody maxsz.
  set (R := if negb (rmmask =? 0) && negb (test (q_options q) optER) then _ else outs1).
  assert (HR : rmf (nth 0 R op_zero) = true -> is_reg (nth 0 (q_ops q) ONone) = true /\ test (q_options q) optER = false).
  { subst R. destruct (negb (rmmask =? 0) && negb (test (q_options q) optER)) eqn:C; [|rewrite H3; discriminate].
    apply andb_true_iff in C as [_ C]. apply negb_true_iff in C.
    destruct outs1 as [|x r]; [cbn; discriminate|]. cbn [mapi nth]. cbn [nth] in H3.
    destruct (N.testbit rmmask (N.of_nat 0)) eqn:TB; [|rewrite H3; discriminate].
    intros _. split; [apply RM; exact TB | exact C]. }
  destruct ((rr_cat row =? 1) && existsb (N.eqb (q_id q)) (t_ternlog T)); [|exact HR].
  destruct (length (q_ops q)) as [|[|[|[|[|n]]]]]; try exact HR.
  destruct (opn (q_ops q) 3); try exact HR.
  destruct (N.shiftr _ 4 =? _); [|exact HR].
  rewrite nth_upd0. cbn [Nat.eqb]. destruct R as [|x r]; [exact HR|]. cbn [nth] in *.
  change (rmf (set_r (clr_flags x fR) 0)) with (rmf (clr_flags x fR)). rewrite rmf_clr_r. exact HR.
Qed.

(* C12: "what must NOT change" - universally quantified frame facts about the model of query_rw_info (all tables, records, operands). *)
From Coq Require Import NArith ZArith List Bool Lia.
From Verif Require Import RwInfo.RwModel.
Import ListNotations.
Local Open Scope N_scope.

(* immediates, labels and empty operands are never described as read or written: the record is all zero *)
Lemma generic_op_non_regmem T native row i src :
  is_reg_or_mem src = false -> generic_op T native row i src = op_zero.
Proof. intros H. unfold generic_op, generic_op_v. rewrite H. reflexivity. Qed.

Lemma test_clear_self a f : test (clear a f) f = false.
Proof.
  unfold test, clear. apply negb_false_iff, N.eqb_eq. apply N.bits_inj. intros k.
  rewrite N.land_spec, N.ldiff_spec, N.bits_0. destruct (N.testbit a k), (N.testbit f k); reflexivity.
Qed.

(* an operand whose table record has no write flag gets no extend mask and no ZExt flag, whatever register or memory operand it is:
   zero extension is only ever reported for written operands *)
Lemma generic_op_unwritten_no_extend T native row i src :
  let dsc := nthN (t_op T) (nth i (rr_ops row) 0) d_op in
  test (clear (or_flags dsc) fZExt) fW = false ->
  o_e (generic_op T native row i src) = 0 /\ test (o_flags (generic_op T native row i src)) fZExt = false.
Proof.
  intros dsc H. unfold generic_op, generic_op_v. fold dsc.
  destruct (is_reg_or_mem src) eqn:RM; cbn [negb]; [|split; reflexivity].
  destruct src as [|rt id|sz b x|v|]; try discriminate.
  - rewrite H. cbn [o_e o_flags]. split; [reflexivity | apply test_clear_self].
  - cbn [o_e o_flags].
    assert (Z : forall f g, test f fZExt = false -> test g fZExt = false -> test (N.lor f g) fZExt = false).
    { intros f g Hf Hg. unfold test in *. apply negb_false_iff, N.eqb_eq. apply negb_false_iff, N.eqb_eq in Hf. apply negb_false_iff, N.eqb_eq in Hg.
      rewrite N.land_lor_distr_l, Hf, Hg. reflexivity. }
    destruct (mem_has_base (OMem sz b x) && negb _); destruct (mem_has_index (OMem sz b x) && negb _);
      cbn [add_flags o_e o_flags]; split; try reflexivity;
      repeat apply Z; try apply test_clear_self; reflexivity.
Qed.

(* a memory operand never gets an extend mask or the ZExt flag, even when it is written *)
Lemma generic_op_mem_no_extend T native row i sz b x :
  o_e (generic_op T native row i (OMem sz b x)) = 0.
Proof.
  unfold generic_op, generic_op_v. cbn [is_reg_or_mem is_reg is_mem orb negb].
  destruct (mem_has_base (OMem sz b x) && negb _); destruct (mem_has_index (OMem sz b x) && negb _); reflexivity.
Qed.

(* rw_zero_extend_gp only ever touches the extend mask and the ZExt flag *)
Lemma zext_gp_frame o regsize native :
  let o' := zext_gp o regsize native in
  o_w o' = o_w o /\ o_r o' = o_r o /\ o_phys o' = o_phys o /\ o_rmsize o' = o_rmsize o /\ o_clc o' = o_clc o /\
  (o_flags o' = o_flags o \/ o_flags o' = N.lor (o_flags o) fZExt).
Proof.
  unfold zext_gp. destruct (regsize + 4 =? native); [cbn; repeat split; right; reflexivity|].
  destruct ((regsize =? 4) && (native =? 4)); [|cbn; repeat split; left; reflexivity].
  destruct (N.land (not64 (o_w o)) 15 =? 0); cbn; repeat split; [left | right]; reflexivity.
Qed.

(* rw_handle_avx512 without a {k} mask changes nothing; with one it only touches the extra register and operand 0's read side *)
Lemma handle_avx512_no_mask q av out : q_extra_mask q = false -> handle_avx512 q av out = out.
Proof. intros H. unfold handle_avx512. rewrite H. reflexivity. Qed.

Lemma handle_avx512_frame q av out :
  let out' := handle_avx512 q av out in
  i_flags out' = i_flags out /\ i_rmfeat out' = i_rmfeat out /\ i_rf out' = i_rf out /\ i_wf out' = i_wf out /\
  length (i_ops out') = length (i_ops out) /\ tl (i_ops out') = tl (i_ops out) /\
  match i_ops out', i_ops out with
  | o' :: _, o :: _ => o_w o' = o_w o /\ o_e o' = o_e o /\ o_phys o' = o_phys o /\ o_rmsize o' = o_rmsize o /\ o_clc o' = o_clc o
  | [], [] => True
  | _, _ => False
  end.
Proof.
  unfold handle_avx512. destruct (q_extra_mask q && negb (Nat.eqb (length (i_ops out)) 0)).
  - destruct (negb (test (q_options q) optZMask) && negb (test av kImplicitZ)); cbn [i_flags i_rmfeat i_rf i_wf i_ops].
    + destruct (i_ops out) as [|o r]; cbn; repeat split; reflexivity.
    + destruct (i_ops out) as [|o r]; cbn; repeat split; reflexivity.
  - destruct (i_ops out) as [|o r]; cbn; repeat split; reflexivity.
Qed.

(* ---------------------------------------------------------------- kCategoryMov, register <- register *)
From Verif Require Import RwInfo.RegWrite RwInfo.RegWriteProofs.

(* mov between general-purpose registers of every size combination the model accepts: the destination's masks are exactly those of the
   byte-level theorem (reported_gp), the source is read-only with no extend mask, and the move is flagged kMovOp *)
Lemma cat_mov_gp_gp mode64 (d d' : gp_dest) id1 id2 opt k out :
  let q := {| q_arch64 := mode64; q_id := 0; q_options := opt; q_extra_mask := k;
              q_ops := [OReg (gp_regtype d) id1; OReg (gp_regtype d') id2] |} in
  exists o0 o1, option_map i_ops (cat_mov q out) = Some [o0; o1] /\
    o_w o0 = o_w (reported_gp mode64 d (dest_size d)) /\ o_e o0 = o_e (reported_gp mode64 d (dest_size d)) /\
    test (o_flags o0) fR = false /\ test (o_flags o1) fW = false /\ o_e o1 = 0 /\ o_w o1 = 0 /\
    option_map (fun r => test (i_flags r) kMovOp) (cat_mov q out) = Some true.
Proof.
  intros q. subst q. destruct d, d', mode64; cbv [cat_mov q_ops q_arch64]; cbn -[N.lor clear];
    do 2 eexists; (split; [reflexivity|]); repeat split; try reflexivity;
    unfold test; f_equal; apply negb_true_iff, N.eqb_neq; intros C;
    apply (f_equal (fun x => N.testbit x 0)) in C; rewrite N.land_spec, N.lor_spec in C; cbn in C; rewrite orb_true_r in C; discriminate.
Qed.

(* ---------------------------------------------------------------- legacy SSE keeps the bits above the destination register *)
Lemma land_land_not64 e m : N.land (N.land e m) (not64 m) = 0.
Proof.
  unfold not64. apply N.bits_inj. intros k. rewrite N.bits_0, !N.land_spec, N.lxor_spec, N.land_spec.
  destruct (N.testbit e k), (N.testbit m k), (N.testbit ones64 k); reflexivity.
Qed.

(* for ALL tables and records: the generic path of a legacy (not VEX/EVEX/XOP) instruction never reports a zero-extended byte above the size
   of a vector destination register (with fixes/C12-legacy-sse-keeps-upper-bits.patch; before it bytes 16..63 were reported) *)
Lemma legacy_vec_no_extension_beyond_register T native row i rt id :
  reg_group rt = grp_vec ->
  N.land (o_e (generic_op_v T false native row i (OReg rt id))) (not64 (lsb_mask (N.min (reg_size rt) 64))) = 0.
Proof.
  intros G. unfold generic_op_v. cbn [is_reg_or_mem is_reg is_mem orb negb].
  set (d := nthN (t_op T) (nth i (rr_ops row) 0) d_op).
  destruct (test (clear (or_flags d) fZExt) fW); [|reflexivity].
  rewrite G. cbn [N.eqb grp_vec grp_gp Pos.eqb]. 
  destruct (test (or_flags d) fZExt); [|reflexivity].
  unfold legacy_vec_clip. rewrite G. cbn [N.eqb grp_vec Pos.eqb negb andb].
  match goal with |- context [if ?c then _ else _] => destruct c end; cbn [set_e clr_flags o_e]; [reflexivity | apply land_land_not64].
Qed.

(* C12: the byte masks computed by the model of query_rw_info agree with the mini-semantics of RegWrite.v. *)
From Coq Require Import NArith ZArith List Bool Lia.
From Verif Require Import RwInfo.RwModel RwInfo.RegWrite.
Import ListNotations.
Local Open Scope N_scope.

Lemma tabulate_nth n f b : (b < n)%nat -> byte_at (tabulate n f) b = f b.
Proof.
  intros H. unfold byte_at, tabulate.
  rewrite (nth_indep _ 0 (f 0%nat)) by (rewrite map_length, seq_length; exact H).
  rewrite map_nth. rewrite seq_nth by exact H. reflexivity.
Qed.

(* ---------------------------------------------------------------- general-purpose registers *)
Definition gp_regtype (d : gp_dest) : N := match d with D8lo => 2 | D8hi => 3 | D16 => 4 | D32 => 5 | D64 => 6 end.

(* What the generic path (and every special category: they all call OpRWInfo::reset + rw_zero_extend_gp) reports for a written GP
   register operand whose write mask covers [vw] bytes. *)
Definition reported_gp (mode64 : bool) (d : gp_dest) (vw : nat) : op_rw :=
  zext_gp (set_w (op_reset fW (reg_size (gp_regtype d)) kIdBad) (lsb_mask (N.of_nat vw)))
          (reg_size (gp_regtype d)) (native_gp_size mode64).

Definition gp_byte_spec (mode64 : bool) (d : gp_dest) (vw : nat) (old val : list N) (b : nat) : Prop :=
  let o := reported_gp mode64 d vw in
  let off := dest_offset d in
  byte_at (gp_write mode64 d vw old val) b =
    if Nat.leb off b && N.testbit (o_w o) (N.of_nat (b - off)) then byte_at val (b - off)
    else if Nat.leb off b && N.testbit (o_e o) (N.of_nat (b - off)) then 0
    else byte_at old b.

Lemma gp_bytes_exact_full mode64 d old val b :
  (b < 8)%nat -> gp_byte_spec mode64 d (dest_size d) old val b.
Proof.
  intros Hb. unfold gp_byte_spec.
  do 8 (destruct b as [|b]; [destruct mode64, d; reflexivity|]). lia.
Qed.

Lemma gp_bytes_exact_zx64 vw old val b :
  (1 <= vw <= 4)%nat -> (b < 8)%nat -> gp_byte_spec true D32 vw old val b.
Proof.
  intros Hv Hb. unfold gp_byte_spec.
  assert (V : vw = 1%nat \/ vw = 2%nat \/ vw = 3%nat \/ vw = 4%nat) by lia.
  destruct V as [-> | [-> | [-> | ->]]]; (do 8 (destruct b as [|b]; [reflexivity|])); lia.
Qed.

(* 32-bit mode (with fixes/C12-gp-partial-write-masks.patch; refuted before it): a 1..4-byte value zero-extended into a 32-bit register *)
Lemma gp_bytes_exact_zx32 vw old val b :
  (1 <= vw <= 4)%nat -> (b < 8)%nat -> gp_byte_spec false D32 vw old val b.
Proof.
  intros Hv Hb. unfold gp_byte_spec.
  assert (V : vw = 1%nat \/ vw = 2%nat \/ vw = 3%nat \/ vw = 4%nat) by lia.
  destruct V as [-> | [-> | [-> | ->]]]; (do 8 (destruct b as [|b]; [reflexivity|])); lia.
Qed.

(* ---------------------------------------------------------------- vector registers *)
Definition reported_vec (n : nat) : op_rw := zext_non_vec (op_reset fW (N.of_nat n) kIdBad) ones64.   (* ones64 = the vector group's entry *)
Definition reported_avx_vec (n : nat) : op_rw := zext_avx_vec (op_reset fW (N.of_nat n) kIdBad).

Definition vec_mask_row (n : nat) : bool :=
  forallb (fun b => Bool.eqb (N.testbit (o_w (reported_vec n)) (N.of_nat b)) (Nat.ltb b n) &&
                    Bool.eqb (N.testbit (o_e (reported_vec n)) (N.of_nat b)) (negb (Nat.ltb b n)) &&
                    Bool.eqb (N.testbit (o_w (reported_avx_vec n)) (N.of_nat b)) (Nat.ltb b n) &&
                    Bool.eqb (N.testbit (o_e (reported_avx_vec n)) (N.of_nat b)) (negb (Nat.ltb b n))) (seq 0 64).
Lemma vec_mask_table : forallb vec_mask_row (seq 1 64) = true.
Proof. vm_compute. reflexivity. Qed.

Lemma vec_masks n b : (1 <= n <= 64)%nat -> (b < 64)%nat ->
  N.testbit (o_w (reported_vec n)) (N.of_nat b) = Nat.ltb b n /\ N.testbit (o_e (reported_vec n)) (N.of_nat b) = negb (Nat.ltb b n) /\
  N.testbit (o_w (reported_avx_vec n)) (N.of_nat b) = Nat.ltb b n /\ N.testbit (o_e (reported_avx_vec n)) (N.of_nat b) = negb (Nat.ltb b n).
Proof.
  intros Hn Hb.
  pose proof (proj1 (forallb_forall _ _) vec_mask_table n) as R.
  assert (In n (seq 1 64)) as I by (apply in_seq; lia). specialize (R I). unfold vec_mask_row in R.
  pose proof (proj1 (forallb_forall _ _) R b) as Rb.
  assert (In b (seq 0 64)) as Ib by (apply in_seq; lia). specialize (Rb Ib).
  repeat (apply andb_true_iff in Rb; destruct Rb as [Rb ?]).
  repeat split; apply eqb_prop; assumption.
Qed.

Lemma vec_bytes_exact_vex n b old val : (1 <= n <= 64)%nat -> (b < 64)%nat ->
  byte_at (vec_write Vex n old val) b =
    if N.testbit (o_w (reported_vec n)) (N.of_nat b) then byte_at val b
    else if N.testbit (o_e (reported_vec n)) (N.of_nat b) then 0 else byte_at old b.
Proof.
  intros Hn Hb. destruct (vec_masks n b Hn Hb) as [W [E _]]. rewrite W, E.
  unfold vec_write. rewrite tabulate_nth by exact Hb. destruct (Nat.ltb b n); reflexivity.
Qed.

Lemma vec_bytes_exact_avx n b old val : (1 <= n <= 64)%nat -> (b < 64)%nat ->
  byte_at (vec_write Vex n old val) b =
    if N.testbit (o_w (reported_avx_vec n)) (N.of_nat b) then byte_at val b
    else if N.testbit (o_e (reported_avx_vec n)) (N.of_nat b) then 0 else byte_at old b.
Proof.
  intros Hn Hb. destruct (vec_masks n b Hn Hb) as [_ [_ [W E]]]. rewrite W, E.
  unfold vec_write. rewrite tabulate_nth by exact Hb. destruct (Nat.ltb b n); reflexivity.
Qed.

(* legacy SSE: nothing outside the reported write mask changes (the reported extension over-approximates) *)
Lemma vec_bytes_cover_legacy n b old val : (1 <= n <= 64)%nat -> (b < 64)%nat ->
  byte_at (vec_write Legacy n old val) b <> byte_at old b -> N.testbit (o_w (reported_vec n)) (N.of_nat b) = true.
Proof.
  intros Hn Hb. destruct (vec_masks n b Hn Hb) as [W _]. rewrite W.
  unfold vec_write. rewrite tabulate_nth by exact Hb. destruct (Nat.ltb b n); [reflexivity | intros C; contradiction C; reflexivity].
Qed.

(* ---------------------------------------------------------------- write masking *)
Lemma mask_zeroing_indep k : forall old1 old2 new, length old1 = length old2 ->
  mask_write k true old1 new = mask_write k true old2 new.
Proof.
  induction k as [|ki kr IH]; intros [|o1 r1] [|o2 r2] [|n nr] L; simpl in *; try reflexivity; try discriminate.
  f_equal. apply IH. injection L; auto.
Qed.

Lemma mask_all_ones_indep k : forall old1 old2 new z, length old1 = length old2 -> forallb (fun x => x) k = true ->
  mask_write k z old1 new = mask_write k z old2 new.
Proof.
  induction k as [|ki kr IH]; intros [|o1 r1] [|o2 r2] [|n nr] z L A; simpl in *; try reflexivity; try discriminate.
  apply andb_true_iff in A as [A1 A2]. subst ki. f_equal. apply IH; [injection L; auto | exact A2].
Qed.

Lemma mask_merging_depends : exists k old1 old2 new, length old1 = length old2 /\ mask_write k false old1 new <> mask_write k false old2 new.
Proof. exists [false], [1], [2], [3]. split; [reflexivity | discriminate]. Qed.

Lemma land_lor_bit a f : N.land f f <> 0 -> N.land (N.lor a f) f <> 0.
Proof.
  intros H C. apply H. rewrite N.land_lor_distr_l in C. apply N.lor_eq_0_iff in C. apply C.
Qed.

(* rw_handle_avx512: whenever the model does NOT mark the destination as read under a {k} mask, the instruction zeroes
   (explicit {z} or an implicitly zeroing instruction); and whenever it merges, destination and {k} are marked read with the read
   mask covering the write mask. *)
Lemma handle_avx512_merge q av out o r :
  q_extra_mask q = true -> i_ops out = o :: r -> test (q_options q) optZMask = false -> test av kImplicitZ = false ->
  exists o', i_ops (handle_avx512 q av out) = o' :: r /\ test (o_flags o') fR = true /\ o_r o' = N.lor (o_r o) (o_w o) /\
             test (o_flags (i_extra (handle_avx512 q av out))) fR = true.
Proof.
  intros K O Z I. unfold handle_avx512. rewrite K, O, Z, I. simpl.
  eexists. split; [reflexivity|]. split; [|split; [reflexivity|]].
  - unfold test. apply negb_true_iff, N.eqb_neq. apply land_lor_bit. discriminate.
  - unfold test. apply negb_true_iff, N.eqb_neq. apply land_lor_bit. discriminate.
Qed.

Lemma handle_avx512_zeroing_keeps q av out :
  test (q_options q) optZMask = true \/ test av kImplicitZ = true -> i_ops (handle_avx512 q av out) = i_ops out.
Proof.
  intros H. unfold handle_avx512. destruct (q_extra_mask q && negb (Nat.eqb (length (i_ops out)) 0)); [|reflexivity].
  destruct H as [H | H]; rewrite H; simpl; [reflexivity | rewrite andb_false_r; reflexivity].
Qed.

(* ---------------------------------------------------------------- vpternlog idiom *)
Definition ternlog_row (imm : N) : bool :=
  implb (N.shiftr imm 4 =? N.land imm 15)
        (forallb (fun a => forallb (fun b => forallb (fun c => Bool.eqb (ternlog imm a b c) (ternlog imm (negb a) b c)) [false; true]) [false; true]) [false; true]).
Lemma ternlog_table : forallb ternlog_row (map N.of_nat (seq 0 256)) = true.
Proof. vm_compute. reflexivity. Qed.

Lemma ternlog_dest_unused imm a b c : imm < 256 -> N.shiftr imm 4 = N.land imm 15 -> ternlog imm a b c = ternlog imm (negb a) b c.
Proof.
  intros Hi He.
  pose proof (proj1 (forallb_forall _ _) ternlog_table imm) as R.
  assert (In imm (map N.of_nat (seq 0 256))) as I.
  { apply in_map_iff. exists (N.to_nat imm). split; [apply N2Nat.id | apply in_seq; lia]. }
  specialize (R I). unfold ternlog_row in R. rewrite He, N.eqb_refl in R. cbn [implb] in R.
  assert (B : forall x : bool, In x [false; true]) by (intros [|]; simpl; auto).
  pose proof (proj1 (forallb_forall _ _) R a (B a)) as Ra.
  pose proof (proj1 (forallb_forall _ _) Ra b (B b)) as Rb.
  pose proof (proj1 (forallb_forall _ _) Rb c (B c)) as Rc.
  apply eqb_prop; exact Rc.
Qed.

(* ---------------------------------------------------------------- link to the model's generic path *)
(* the generic path of query_rw_info, on a written GP register operand whose table row has no explicit write mask, reports exactly the
   masks the byte-level theorems are about (reported_gp with the value width = the register size) *)
Lemma generic_op_gp_masks T mode64 row i (d : gp_dest) id :
  let rt := gp_regtype d in
  let dsc := nthN (t_op T) (nth i (rr_ops row) 0) d_op in
  test (clear (or_flags dsc) fZExt) fW = true -> or_w dsc = 0 ->
  let o := generic_op T (native_gp_size mode64) row i (OReg rt id) in
  o_w o = o_w (reported_gp mode64 d (dest_size d)) /\ o_e o = o_e (reported_gp mode64 d (dest_size d)).
Proof.
  intros rt dsc HW Hw o. subst o. unfold generic_op, generic_op_v. fold dsc.
  change (is_reg_or_mem (OReg rt id)) with true. cbn [negb].
  rewrite HW, Hw. cbn [andb]. rewrite N.eqb_refl.
  destruct d, mode64; subst rt; cbn; split; reflexivity.
Qed.

Lemma generic_op_vec_masks T native row i rt id :
  In rt [11; 12; 13] -> group_byte_mask T grp_vec = ones64 ->
  let dsc := nthN (t_op T) (nth i (rr_ops row) 0) d_op in
  test (clear (or_flags dsc) fZExt) fW = true -> or_w dsc = 0 -> test (or_flags dsc) fZExt = true ->
  let o := generic_op T native row i (OReg rt id) in
  o_w o = o_w (reported_vec (N.to_nat (reg_size rt))) /\ o_e o = o_e (reported_vec (N.to_nat (reg_size rt))).
Proof.
  intros Hrt Hg dsc HW Hw HZ o. subst o. unfold generic_op, generic_op_v. fold dsc. unfold grp_vec in Hg.
  change (is_reg_or_mem (OReg rt id)) with true. cbn [negb].
  rewrite HW, Hw, HZ. cbn [andb]. rewrite N.eqb_refl.
  destruct Hrt as [<- | [<- | [<- | []]]]; cbn [reg_group reg_size N.eqb Pos.eqb grp_gp]; rewrite Hg; cbn; split; reflexivity.
Qed.

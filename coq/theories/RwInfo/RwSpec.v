(* C12: what the ISA database says about one operand tuple ("case"), the boolean checkers evaluated by reflection over the
   generated case lists, and the Prop-level reading of "the reported RW information covers the database".
   No proofs here; see RwProofs.v. *)
From Coq Require Import NArith ZArith List Bool.
From Verif Require Import RwInfo.RwModel RwInfo.FeatModel.
Import ListNotations.
Local Open Scope N_scope.

(* database view of one operand of a tuple (computed by tools/c12_gen.py from db/isa_x86.json):
   e_read/e_write   access per the R:/W:/X:/w:/x: decorator
   e_rbytes         bytes of the operand the database marks as read (from its [hi:lo] bit range; 0 = no byte-level statement)
   e_changed        bytes that change when the operand is written: the written range, plus the bytes zeroed by the
                    zero-extension rule of the register class (GP: 32-bit writes clear bits 63:32 in 64-bit mode and a `W:`
                    range narrower than the register zeroes the rest of it; VEX/EVEX/XOP vector writes zero up to byte 63;
                    mask registers up to byte 7; legacy SSE/MMX `W:` up to the register size)
   e_gpexact        exactness (register operands of the allocatable groups - general-purpose, vector, mask, MMX - with a known written
                    range or not written at all, and memory operands of 1..64 bytes): the reported written/extended bytes must stay
                    INSIDE e_changed, and an operand the database does not write must not be reported as written
   e_phys           Some (flag, id): fixed register (flag = kRegPhysId) or fixed base register (flag = kMemPhysId)
   e_clc / e_consec lead of a run of e_clc consecutive registers / a follower of the run
   e_memsizes       memory operand sizes (bytes) the database allows at this position when the other operands stay as they are *)
Record exp_op := mk_exp { e_read : bool; e_rbytes : N; e_write : bool; e_changed : N; e_gpexact : bool; e_phys : option (N * N);
                          e_clc : N; e_consec : bool; e_memsizes : list N;
                          e_memforms : list (N * list N) (* (size, feature ids of the extensions) of every database form with a memory operand here *) }.
(* c_form: index of the database form; c_rf/c_wf: CPU flags read / written (W, X, U, 0, 1) per the database; c_extra_read: a {k}
   mask is present; c_merge: merge-masking (no {z}, not an implicitly zeroing instruction, register destination);
   c_rmcheck: register-only tuple (the reading under which the register allocator uses kRegMem). *)
(* c_feat: for every database form the tuple matches, the feature ids of its extensions (AVX512_VL dropped when a 512-bit register or
   index is used; only EVEX forms match when a register id is 16..31); c_featcheck: false only for a tuple recorded as a finding. *)
Record case := mk_case { c_form : N; c_q : query; c_exp : list exp_op; c_rf : N; c_wf : N; c_extra_read : bool; c_merge : bool;
                         c_rmcheck : bool; c_feat : list (list N); c_featcheck : bool }.

Definition subset (a b : N) : bool := N.ldiff a b =? 0.

Definition op_covers (e : exp_op) (o : op_rw) : bool :=
  implb (e_read e) (test (o_flags o) fR && subset (e_rbytes e) (o_r o)) &&
  implb (e_write e) (test (o_flags o) fW && subset (e_changed e) (N.lor (o_w o) (o_e o))) &&
  implb (e_gpexact e) (if e_write e then subset (N.lor (o_w o) (o_e o)) (e_changed e) else negb (test (o_flags o) fW)) &&
  match e_phys e with None => true | Some (fl, id) => test (o_flags o) fl && (o_phys o =? id) end &&
  ((e_clc e =? 0) || (o_clc o =? e_clc e)) &&
  implb (e_consec e) (test (o_flags o) fConsecutive).

Fixpoint all2 {A B} (f : A -> B -> bool) (la : list A) (lb : list B) : bool :=
  match la, lb with [], [] => true | a :: ra, b :: rb => f a b && all2 f ra rb | _, _ => false end.

Definition merge_ok (ops : list op_rw) : bool :=
  match ops with o :: _ => test (o_flags o) fR && subset (o_w o) (o_r o) | [] => false end.

Definition out_covers (c : case) (out : rw_info) : bool :=
  all2 op_covers (c_exp c) (i_ops out) && subset (c_rf c) (i_rf out) && subset (c_wf c) (i_wf out) &&
  implb (c_extra_read c) (test (o_flags (i_extra out)) fR) && implb (c_merge c) (merge_ok (i_ops out)).

Definition case_covered (T : tables) (c : case) : bool :=
  match query_rw_info T (c_q c) with Some out => out_covers c out | None => false end.

Definition op_rm_ok (e : exp_op) (o : op_rw) : bool :=
  implb (test (o_flags o) fRegM) (existsb (N.eqb (o_rmsize o)) (e_memsizes e)).
Definition case_rm_ok (T : tables) (c : case) : bool :=
  match query_rw_info T (c_q c) with Some out => implb (c_rmcheck c) (all2 op_rm_ok (c_exp c) (i_ops out)) | None => false end.

(* ------------------------------------------------------------------ Prop-level reading *)
Definition byte_in (m b : N) : Prop := N.testbit m b = true.
Definition has_flag (fl f : N) : Prop := N.land fl f <> 0.

Definition op_covers_P (e : exp_op) (o : op_rw) : Prop :=
  (e_read e = true -> has_flag (o_flags o) fR /\ forall b, byte_in (e_rbytes e) b -> byte_in (o_r o) b) /\
  (e_write e = true -> has_flag (o_flags o) fW /\ forall b, byte_in (e_changed e) b -> byte_in (o_w o) b \/ byte_in (o_e o) b) /\
  (e_gpexact e = true -> if e_write e then (forall b, byte_in (o_w o) b \/ byte_in (o_e o) b -> byte_in (e_changed e) b)
                         else ~ has_flag (o_flags o) fW) /\
  (forall fl id, e_phys e = Some (fl, id) -> has_flag (o_flags o) fl /\ o_phys o = id) /\
  (e_clc e <> 0 -> o_clc o = e_clc e) /\
  (e_consec e = true -> has_flag (o_flags o) fConsecutive).

Definition covers (c : case) (out : rw_info) : Prop :=
  Forall2 op_covers_P (c_exp c) (i_ops out) /\
  (forall b, byte_in (c_rf c) b -> byte_in (i_rf out) b) /\
  (forall b, byte_in (c_wf c) b -> byte_in (i_wf out) b) /\
  (c_extra_read c = true -> has_flag (o_flags (i_extra out)) fR) /\
  (c_merge c = true -> exists o r, i_ops out = o :: r /\ has_flag (o_flags o) fR /\ forall b, byte_in (o_w o) b -> byte_in (o_r o) b).

Definition rm_claims_true (c : case) (out : rw_info) : Prop :=
  Forall2 (fun e o => has_flag (o_flags o) fRegM -> In (o_rmsize o) (e_memsizes e)) (c_exp c) (i_ops out).

(* ------------------------------------------------------------------ required CPU features *)
Definition case_feat_ok (T : tables) (C : feat_consts) (c : case) : bool := feat_case_ok T C (c_q c) (c_feat c).
Definition case_feat_good (T : tables) (C : feat_consts) (c : case) : bool :=
  if c_featcheck c then case_feat_ok T C c else negb (case_feat_ok T C c).
(* the reported feature set contains all extensions of at least one database form the tuple matches: the instruction executes on
   any CPU with the reported features provided the encoder emits that form (which form is emitted is C01's subject) *)
Definition features_cover (c : case) (rep : list N) : Prop :=
  exists alt, In alt (c_feat c) /\ forall f, In f alt -> In f rep.

(* ------------------------------------------------------------------ features of the memory form (rm_feature) *)
(* A reg/mem claim with size s: some database form with an s-byte memory operand at that position (other operands unchanged) needs no
   extension beyond the features reported for the register tuple plus the reported rm_feature. *)
Definition op_rmfeat_ok (avail : list N) (e : exp_op) (o : op_rw) : bool :=
  implb (test (o_flags o) fRegM)
        (existsb (fun sf => (fst sf =? o_rmsize o) && forallb (has avail) (snd sf)) (e_memforms e)).
(* architectural implication between extensions used here: a CPU with AVX2 has AVX (Intel SDM vol. 1, 14.7.1 detection of AVX2) *)
Definition with_implied (C : feat_consts) (avail : list N) : list N :=
  if has avail (f_AVX2 C) then f_AVX C :: avail else avail.
Definition case_rmfeat_ok (T : tables) (C : feat_consts) (c : case) : bool :=
  match query_rw_info T (c_q c), query_features T C (c_q c) with
  | Some out, Some feats => implb (c_rmcheck c) (all2 (op_rmfeat_ok (with_implied C (i_rmfeat out :: feats))) (c_exp c) (i_ops out))
  | _, _ => false
  end.
Definition rm_feature_claims_true (C : feat_consts) (c : case) (out : rw_info) (feats : list N) : Prop :=
  Forall2 (fun e o => has_flag (o_flags o) fRegM ->
                      exists sf, In sf (e_memforms e) /\ fst sf = o_rmsize o /\
                                 forall x, In x (snd sf) -> In x (with_implied C (i_rmfeat out :: feats)))
          (c_exp c) (i_ops out).

(* ------------------------------------------------------------------ all four checks of an "ok" case in one pass (each query evaluated once) *)
Definition case_fused (T : tables) (C : feat_consts) (c : case) : bool :=
  match query_rw_info T (c_q c), query_features T C (c_q c) with
  | Some out, Some feats =>
      out_covers c out &&
      implb (c_rmcheck c) (all2 op_rm_ok (c_exp c) (i_ops out)) &&
      (if c_featcheck c then existsb (feat_alt_ok feats) (c_feat c) else negb (existsb (feat_alt_ok feats) (c_feat c))) &&
      implb (c_rmcheck c) (all2 (op_rmfeat_ok (with_implied C (i_rmfeat out :: feats))) (c_exp c) (i_ops out))
  | _, _ => false
  end.

(* C12: mini-semantics of partial register writes, at byte granularity (written by hand from the Intel SDM vol. 1, 3.4.1.1
   "General-Purpose Registers in 64-Bit Mode", vol. 2 2.3.10 / 2.7.6 "VEX/EVEX: upper bits of the destination are zeroed",
   vol. 1 15.6.1 "opmask: merging and zeroing").  Registers are lists of bytes, least significant first. *)
From Coq Require Import NArith List Bool.
Import ListNotations.
Local Open Scope N_scope.

Definition byte_at (l : list N) (i : nat) : N := nth i l 0.
Definition tabulate (n : nat) (f : nat -> N) : list N := map f (seq 0 n).

(* ---------------------------------------------------------------- general-purpose registers (8 bytes) *)
Inductive gp_dest := D8lo | D8hi | D16 | D32 | D64.
Definition dest_size (d : gp_dest) : nat := match d with D8lo | D8hi => 1 | D16 => 2 | D32 => 4 | D64 => 8 end.
(* byte of the 64-bit register where byte 0 of the operand lives (AH/CH/DH/BH are bits 15:8) *)
Definition dest_offset (d : gp_dest) : nat := match d with D8hi => 1 | _ => 0 end.

(* The destination [d] of the 64-bit register [old] receives the [vw]-byte value [val] zero-extended to the operand size
   (vw = operand size for ordinary instructions; vw < size for pextrw/movmskps/kmovw r32,...).
   8- and 16-bit writes merge; a 32-bit write clears bits 63:32 in 64-bit mode (in 32-bit mode bits 63:32 do not exist: they are
   modelled as unchanged). *)
Definition gp_write (mode64 : bool) (d : gp_dest) (vw : nat) (old val : list N) : list N :=
  tabulate 8 (fun b =>
    let off := dest_offset d in
    if (Nat.leb off b) && (Nat.ltb (b - off) (dest_size d)) then
      (if Nat.ltb (b - off) vw then byte_at val (b - off) else 0)
    else match d with
         | D32 => if mode64 then 0 else byte_at old b
         | _ => byte_at old b
         end).

(* ---------------------------------------------------------------- vector registers (64 bytes = MAXVL/8) *)
Inductive vec_enc := Legacy | Vex.   (* Vex stands for VEX, EVEX and XOP encodings *)
(* an [n]-byte result is written to the low bytes; VEX-class encodings zero the rest up to MAXVL, legacy SSE keeps it *)
Definition vec_write (enc : vec_enc) (n : nat) (old val : list N) : list N :=
  tabulate 64 (fun b => if Nat.ltb b n then byte_at val b else match enc with Vex => 0 | Legacy => byte_at old b end).

(* ---------------------------------------------------------------- AVX-512 write masking, per element *)
Fixpoint mask_write (k : list bool) (z : bool) (old new : list N) : list N :=
  match k, old, new with
  | ki :: kr, o :: orest, n :: nrest => (if ki then n else if z then 0 else o) :: mask_write kr z orest nrest
  | _, _, _ => []
  end.

(* ---------------------------------------------------------------- vpternlog: bit of the result for source bits a (dest), b, c *)
Definition ternlog (imm : N) (a b c : bool) : bool :=
  N.testbit imm ((if a then 4 else 0) + (if b then 2 else 0) + (if c then 1 else 0)).

(* C03 — the FLAT byte-buffer model of the label / fixup machinery: sections are plain byte lists, a fixup is patched exactly like
   CodeHolder::bind_label / resolve_cross_section_fixups do it: read the value word at the fixup's NUMERIC offset, OR the encoded
   displacement in (write_offset), write the word back at that offset.  No reference table, no ghost log.
   FlatProofs.v proves that this model and the structured model of LabelsModel.v are in lock step (same errors, counters, labels,
   relocations, and the byte image of every section), so every theorem about the structured model is a theorem about these bytes.
   No proofs in this file. *)
From Coq Require Import ZArith List Bool.
From Verif Require Import Codec.OffsetModel Labels.LabelsModel.
Import ListNotations.
Local Open Scope Z_scope.

Definition vnat (k : refkind) : nat := Z.to_nat (vsize (fmt_of_kind k)).

(* byte image of a structured section (gaps are zero bytes) *)
Fixpoint flat (rs : list refrec) (its : list item) : list Z :=
  match its with
  | [] => []
  | IRaw bs :: t => bs ++ flat rs t
  | IGap n :: t => repeat 0 (Z.to_nat n) ++ flat rs t
  | IRef id :: t =>
    match nth_error rs id with
    | Some r => le_split (vnat (r_kind r)) (r_word r) ++ flat rs t
    | None => flat rs t
    end
  end.

Definition read_word (bs : list Z) (off : Z) (n : nat) : Z := le_join (firstn n (skipn (Z.to_nat off) bs)).
Definition write_word (bs : list Z) (off : Z) (n : nat) (w : Z) : list Z :=
  firstn (Z.to_nat off) bs ++ le_split n w ++ skipn (Z.to_nat off + n) bs.

Record fstate := {
  f_secs : list (list Z); f_cur : nat;
  f_labels : list (option (nat * Z));
  f_pending : list fixup;            (* fx_id is carried along but never used by the flat operations *)
  f_pending_rel : list (nat * nat);
  f_unresolved : Z;
  f_relocs : list reloc
}.

Definition finit : fstate :=
  {| f_secs := [ [] ]; f_cur := O; f_labels := []; f_pending := []; f_pending_rel := []; f_unresolved := 0; f_relocs := [] |}.

Definition f_cur_sec (f : fstate) : list Z := nth (f_cur f) (f_secs f) [].
Definition f_append (f : fstate) (bs : list Z) : list (list Z) := upd (f_secs f) (f_cur f) (f_cur_sec f ++ bs).

Definition fset_secs (f : fstate) (v : list (list Z)) : fstate :=
  {| f_secs := v; f_cur := f_cur f; f_labels := f_labels f; f_pending := f_pending f; f_pending_rel := f_pending_rel f;
     f_unresolved := f_unresolved f; f_relocs := f_relocs f |}.

Record fwalk := { fw_kept : list fixup; fw_secs : list (list Z); fw_n : Z; fw_err : bool }.
Definition fwalk_keep (fx : fixup) (e : bool) (w : fwalk) : fwalk :=
  {| fw_kept := fx :: fw_kept w; fw_secs := fw_secs w; fw_n := fw_n w; fw_err := e || fw_err w |}.
Definition fwalk_done (w : fwalk) : fwalk :=
  {| fw_kept := fw_kept w; fw_secs := fw_secs w; fw_n := fw_n w + 1; fw_err := fw_err w |}.

Fixpoint f_resolve_list (sel : fixup -> sel_res) (fail_is_err : bool) (fxs : list fixup) (secs : list (list Z)) : fwalk :=
  match fxs with
  | [] => {| fw_kept := []; fw_secs := secs; fw_n := 0; fw_err := false |}
  | fx :: t =>
    match sel fx with
    | SSkip => fwalk_keep fx false (f_resolve_list sel fail_is_err t secs)
    | SErr => fwalk_keep fx true (f_resolve_list sel fail_is_err t secs)
    | STry lay lo =>
      let bs := nth (fx_sec fx) secs [] in
      let n := vnat (fx_kind fx) in
      match write_offset (fmt_of_kind (fx_kind fx)) (read_word bs (fx_off fx) n)
                         (disp (lay_so lay) (lay_to lay) lo (fx_off fx) (fx_rel fx)) with
      | Some w => fwalk_done (f_resolve_list sel fail_is_err t (upd secs (fx_sec fx) (write_word bs (fx_off fx) n w)))
      | None => fwalk_keep fx fail_is_err (f_resolve_list sel fail_is_err t secs)
      end
    end
  end.

(* the pre-check of bind_label on the flat buffers: every fixup that would be patched must be encodable, else the bind is refused *)
Definition f_bind_precheck (l sec : nat) (off : Z) (fxs : list fixup) (secs : list (list Z)) : bool :=
  forallb (fun fx =>
    match bind_sel l sec off fx with
    | STry lay lo =>
      match write_offset (fmt_of_kind (fx_kind fx)) (read_word (nth (fx_sec fx) secs []) (fx_off fx) (vnat (fx_kind fx)))
                         (disp (lay_so lay) (lay_to lay) lo (fx_off fx) (fx_rel fx)) with
      | Some _ => true | None => false end
    | _ => true
    end) fxs.

Definition fstep (f : fstate) (o : op) : fstate * err :=
  let len := zlen (f_cur_sec f) in
  let with_rel (secs : list (list Z)) (pr : list (nat * nat)) (u : Z) (rl : list reloc) : fstate :=
    {| f_secs := secs; f_cur := f_cur f; f_labels := f_labels f; f_pending := f_pending f; f_pending_rel := pr;
       f_unresolved := u; f_relocs := rl |} in
  let delta (checked : bool) (l b : nat) (size : Z) : fstate * err :=
    match nth_error (f_labels f) l, nth_error (f_labels f) b with
    | Some ll, Some lb =>
      if negb (size_ok size) then (f, EInvalidSize) else
      let immediate :=
        match ll, lb with
        | Some (ls, lo), Some (bs, bo) => if Nat.eqb ls bs then Some (lo - bo) else None
        | _, _ => None
        end in
      match immediate with
      | Some d =>
        if negb checked || (size =? 8) || ((- 2 ^ (8 * size - 1) <=? d) && (d <? 2 ^ (8 * size - 1)))
        then (fset_secs f (f_append f (le_split (Z.to_nat size) (wrap (8 * size) d))), EOk)
        else (f, EInvalidDisp)
      | None =>
        let re := {| rl_type := Expr l b; rl_sec := f_cur f; rl_off := len; rl_lead := 0; rl_size := size;
                     rl_trail := 0; rl_payload := 0; rl_target := None; rl_label := l; rl_addend := 0 |} in
        (with_rel (f_append f (zeros size)) (f_pending_rel f) (f_unresolved f) (f_relocs f ++ [re]), EOk)
      end
    | _, _ => (f, EInvalidLabel)
    end in
  match o with
  | ONewLabel =>
    ({| f_secs := f_secs f; f_cur := f_cur f; f_labels := f_labels f ++ [None]; f_pending := f_pending f;
        f_pending_rel := f_pending_rel f; f_unresolved := f_unresolved f; f_relocs := f_relocs f |}, EOk)
  | ONewSection => (fset_secs f (f_secs f ++ [ [] ]), EOk)
  | OSection k =>
    if Nat.ltb k (length (f_secs f))
    then ({| f_secs := f_secs f; f_cur := k; f_labels := f_labels f; f_pending := f_pending f; f_pending_rel := f_pending_rel f;
             f_unresolved := f_unresolved f; f_relocs := f_relocs f |}, EOk)
    else (f, EInvalidSection)
  | ORaw bs => (fset_secs f (f_append f bs), EOk)
  | OGap n => if 0 <=? n then (fset_secs f (f_append f (repeat 0 (Z.to_nat n))), EOk) else (f, EBadInput)
  | ORef k rel l pre w0 post =>
    match nth_error (f_labels f) l with
    | None => (f, EInvalidLabel)
    | Some lb =>
      if negb (hole_ok k w0) then (f, EBadInput) else
      let fm := fmt_of_kind k in
      let site := len + zlen pre in
      let emit (w : Z) : list (list Z) := f_append f (pre ++ le_split (vnat k) w ++ post) in
      let queue : fstate :=
        {| f_secs := emit w0; f_cur := f_cur f; f_labels := f_labels f;
           f_pending := {| fx_id := O; fx_sec := f_cur f; fx_off := site; fx_rel := rel; fx_kind := k; fx_label := l |} :: f_pending f;
           f_pending_rel := f_pending_rel f; f_unresolved := f_unresolved f + 1; f_relocs := f_relocs f |} in
      match lb with
      | Some (ls, lo) =>
        if Nat.eqb ls (f_cur f) then
          match write_offset fm w0 (disp 0 0 lo site rel) with
          | Some w => (fset_secs f (emit w), EOk)
          | None => (f, EInvalidDisp)
          end
        else (queue, EOk)
      | None => (queue, EOk)
      end
    end
  | OBind l =>
    match nth_error (f_labels f) l with
    | None => (f, EInvalidLabel)
    | Some (Some _) => (f, EAlreadyBound)
    | Some None =>
      if negb (f_bind_precheck l (f_cur f) len (f_pending f) (f_secs f)) then (f, EInvalidDisp) else
      let '(prk, rl, nrel) := bind_rel l (f_cur f) len (f_pending_rel f) (f_relocs f) in
      let w := f_resolve_list (bind_sel l (f_cur f) len) true (f_pending f) (f_secs f) in
      ({| f_secs := fw_secs w; f_cur := f_cur f; f_labels := upd (f_labels f) l (Some (f_cur f, len)); f_pending := fw_kept w;
          f_pending_rel := prk; f_unresolved := f_unresolved f - nrel - fw_n w; f_relocs := rl |},
       if fw_err w then EInvalidDisp else EOk)
    end
  | OAbsRef l size addend pre post =>
    match nth_error (f_labels f) l with
    | None => (f, EInvalidLabel)
    | Some lb =>
      if negb (size_ok size) then (f, EInvalidSize) else
      let rid := length (f_relocs f) in
      let re := {| rl_type := RelToAbs; rl_sec := f_cur f; rl_off := len; rl_lead := zlen pre; rl_size := size;
                   rl_trail := zlen post;
                   rl_payload := wrap 64 (addend + match lb with Some (_, lo) => lo | None => 0 end);
                   rl_target := match lb with Some (ls, _) => Some ls | None => None end;
                   rl_label := l; rl_addend := addend |} in
      let secs := f_append f (pre ++ zeros size ++ post) in
      match lb with
      | Some _ => (with_rel secs (f_pending_rel f) (f_unresolved f) (f_relocs f ++ [re]), EOk)
      | None => (with_rel secs ((l, rid) :: f_pending_rel f) (f_unresolved f + 1) (f_relocs f ++ [re]), EOk)
      end
    end
  | ODelta l b size => delta false l b size
  | ODeltaChecked l b size => delta true l b size
  | OResolve offs =>
    let w := f_resolve_list (resolve_sel (f_labels f) offs) false (f_pending f) (f_secs f) in
    ({| f_secs := fw_secs w; f_cur := f_cur f; f_labels := f_labels f; f_pending := fw_kept w; f_pending_rel := f_pending_rel f;
        f_unresolved := f_unresolved f - fw_n w; f_relocs := f_relocs f |}, if fw_err w then EInvalidDisp else EOk)
  end.

Fixpoint frun (f : fstate) (ops : list op) : fstate :=
  match ops with
  | [] => f
  | o :: t => frun (fst (fstep f o)) t
  end.

(* C03 — proofs about the label / fixup model (LabelsModel.v). *)
From Coq Require Import ZArith List Bool Lia.
From Verif Require Import Base.ZBits Codec.OffsetModel Codec.OffsetProofs Labels.LabelsModel.
Import ListNotations.
Local Open Scope Z_scope.

Arguments zlen : simpl never.
Arguments bind_rel : simpl never.
(* ------------------------------------------------------------------ lists *)
Lemma upd_length {A} (l : list A) i v : length (upd l i v) = length l.
Proof. revert i; induction l; intros [|i]; simpl; auto. Qed.

Lemma nth_error_upd_eq {A} (l : list A) i v x : nth_error l i = Some x -> nth_error (upd l i v) i = Some v.
Proof. revert i; induction l; intros [|i]; simpl; intros H; try discriminate; auto. Qed.

Lemma nth_error_upd_neq {A} (l : list A) i j v : i <> j -> nth_error (upd l i v) j = nth_error l j.
Proof. revert i j; induction l; intros [|i] [|j]; simpl; intros H; auto; congruence. Qed.

Lemma zlen_cons {A} (x : A) l : zlen (x :: l) = zlen l + 1.
Proof. unfold zlen. simpl length. lia. Qed.

Lemma zlen_nonneg {A} (l : list A) : 0 <= zlen l.
Proof. unfold zlen. lia. Qed.

Lemma zlen_zero {A} (l : list A) : zlen l = 0 -> l = [].
Proof. destruct l; [reflexivity|]. rewrite zlen_cons. pose proof (zlen_nonneg l). lia. Qed.

(* ------------------------------------------------------------------ invariant *)
Definition fx_ok (rs : list refrec) (fx : fixup) : Prop :=
  exists r, nth_error rs (fx_id fx) = Some r /\ r_sec r = fx_sec fx /\ r_site r = fx_off fx /\ r_rel r = fx_rel fx /\
            r_kind r = fx_kind fx /\ r_label r = fx_label fx /\ r_word r = r_w0 r.

Definition enc_ok (r : refrec) (lo : Z) : Prop :=
  exists m, encode_offset (fmt_of_kind (r_kind r))
              (disp (lay_so (r_lay r)) (lay_to (r_lay r)) lo (r_site r) (r_rel r)) = Some m /\
            r_word r = Z.lor (r_w0 r) m.

Definition lay_wf (lay : option (Z * Z)) (ls sec : nat) : Prop :=
  (lay = None -> ls = sec) /\ (forall so to, lay = Some (so, to) -> ls = sec -> so = to).

Definition resolved_ok (lbls : list (option (nat * Z))) (r : refrec) : Prop :=
  exists ls lo, nth_error lbls (r_label r) = Some (Some (ls, lo)) /\ enc_ok r lo /\ lay_wf (r_lay r) ls (r_sec r).

Definition ids (p : list fixup) : list nat := map fx_id p.

Record inv_core (lbls : list (option (nat * Z))) (rs : list refrec) (p : list fixup) (pr : list (nat * nat)) (u : Z) : Prop := {
  inv_count : u = zlen p + zlen pr;
  inv_nodup : NoDup (ids p);
  inv_fx : forall fx, In fx p -> fx_ok rs fx;
  inv_refs : forall id r, nth_error rs id = Some r -> In id (ids p) \/ resolved_ok lbls r;
  inv_hole : forall id r, nth_error rs id = Some r -> hole_ok (r_kind r) (r_w0 r) = true
}.

Definition inv (s : state) : Prop := inv_core (labels s) (refs s) (pending s) (pending_rel s) (unresolved s).

Definition label_mono (a b : list (option (nat * Z))) : Prop :=
  forall l v, nth_error a l = Some (Some v) -> nth_error b l = Some (Some v).

Lemma resolved_ok_mono a b r : label_mono a b -> resolved_ok a r -> resolved_ok b r.
Proof. intros M (ls & lo & H & E & W). exists ls, lo. split; [apply M; exact H|auto]. Qed.

Lemma label_mono_app a x : label_mono a (a ++ x).
Proof.
  intros l v H. rewrite nth_error_app1; [exact H|]. apply nth_error_Some. congruence.
Qed.

Lemma label_mono_upd a l v : nth_error a l = Some None -> label_mono a (upd a l v).
Proof.
  intros H l' v' H'. destruct (Nat.eq_dec l l') as [->|N]; [congruence|]. rewrite nth_error_upd_neq; auto.
Qed.

(* ------------------------------------------------------------------ the fixup walk *)
Definition sel_sound (lbls : list (option (nat * Z))) (sel : fixup -> sel_res) : Prop :=
  forall fx lay lo, sel fx = STry lay lo ->
    exists ls, nth_error lbls (fx_label fx) = Some (Some (ls, lo)) /\ lay_wf lay ls (fx_sec fx).

Definition same_ghost (r' r : refrec) : Prop :=
  r_sec r' = r_sec r /\ r_site r' = r_site r /\ r_rel r' = r_rel r /\ r_kind r' = r_kind r /\ r_label r' = r_label r /\ r_w0 r' = r_w0 r.

Lemma same_ghost_refl r : same_ghost r r.
Proof. repeat split. Qed.

Record walk_post (lbls : list (option (nat * Z))) (sel : fixup -> sel_res) (fxs : list fixup) (rs : list refrec) (w : walk) : Prop := {
  wp_count : zlen fxs = zlen (w_kept w) + w_n w;
  wp_sub : forall fx, In fx (w_kept w) -> In fx fxs;
  wp_nodup : NoDup (ids (w_kept w));
  wp_fx : forall fx, In fx (w_kept w) -> fx_ok (w_refs w) fx;
  wp_same : forall id, ~ In id (ids fxs) -> nth_error (w_refs w) id = nth_error rs id;
  wp_res : forall id r', nth_error (w_refs w) id = Some r' -> In id (ids fxs) ->
             In id (ids (w_kept w)) \/ resolved_ok lbls r';
  wp_ghost : forall id r', nth_error (w_refs w) id = Some r' -> exists r, nth_error rs id = Some r /\ same_ghost r' r;
  wp_lay : forall id r', nth_error (w_refs w) id = Some r' ->
             nth_error rs id = Some r' \/ (exists fx lo, In fx fxs /\ fx_id fx = id /\ sel fx = STry (r_lay r') lo)
}.

Lemma fx_ok_same rs rs' fx : nth_error rs' (fx_id fx) = nth_error rs (fx_id fx) -> fx_ok rs fx -> fx_ok rs' fx.
Proof. intros E (r & H & R). exists r. rewrite E. auto. Qed.

Lemma walk_inv lbls sel fie : sel_sound lbls sel ->
  forall fxs rs, NoDup (ids fxs) -> (forall fx, In fx fxs -> fx_ok rs fx) ->
  walk_post lbls sel fxs rs (resolve_list sel fie fxs rs).
Proof.
  intros Hsel. induction fxs as [|fx t IH]; intros rs Hnd Hok.
  - simpl. constructor; simpl; try tauto; try constructor;
      try (intros id r' H; first [left; exact H | exists r'; split; [exact H|apply same_ghost_refl]]).
  - assert (Hnd' : NoDup (ids t)) by (inversion Hnd; assumption).
    assert (Hnin : ~ In (fx_id fx) (ids t)) by (inversion Hnd; assumption).
    assert (Hok' : forall fx0, In fx0 t -> fx_ok rs fx0) by (intros; apply Hok; right; assumption).
    (* the "keep" outcome, shared by four branches *)
    assert (Keep : forall e, walk_post lbls sel (fx :: t) rs (walk_keep fx e (resolve_list sel fie t rs))).
    { intros e. specialize (IH rs Hnd' Hok'). destruct IH as [C S N F Sm R G L].
      constructor; unfold walk_keep; cbn [w_kept w_refs w_n w_err].
      - rewrite !zlen_cons. lia.
      - intros fx0 [->|H]; [left; reflexivity|right; apply S; exact H].
      - constructor; [|exact N]. intros H. apply Hnin. unfold ids in *. apply in_map_iff in H.
        destruct H as (fx0 & E & H). apply in_map_iff. exists fx0. split; [exact E|apply S; exact H].
      - intros fx0 [<-|H]; [|apply F; exact H].
        apply fx_ok_same with rs; [apply Sm; exact Hnin|apply Hok; left; reflexivity].
      - intros id H. apply Sm. intros H'. apply H. right. exact H'.
      - intros id r' Hr [<-|H]; [left; left; reflexivity|].
        destruct (R id r' Hr H) as [H'|H']; [left; right; exact H'|right; exact H'].
      - exact G.
      - intros id r' Hr. destruct (L id r' Hr) as [H|(fx0 & lo0 & H & E & E')]; [left; exact H|].
        right. exists fx0, lo0. split; [right; exact H|split; [exact E|exact E']]. }
    simpl. destruct (sel fx) as [| |lay lo] eqn:Es; try apply Keep.
    destruct (nth_error rs (fx_id fx)) as [r|] eqn:Er; [|apply Keep].
    destruct (write_offset _ _ _) as [w|] eqn:Ew; [|apply Keep].
    (* patched *)
    set (rs1 := upd rs (fx_id fx) (patched r w lay)).
    assert (Hok1 : forall fx0, In fx0 t -> fx_ok rs1 fx0).
    { intros fx0 H. apply fx_ok_same with rs; [|apply Hok'; exact H].
      unfold rs1. apply nth_error_upd_neq. intros E. apply Hnin. rewrite E. apply in_map. exact H. }
    specialize (IH rs1 Hnd' Hok1). destruct IH as [C S N F Sm R G L].
    destruct (Hok fx (or_introl eq_refl)) as (r0 & Er0 & Hsec & Hsite & Hrel & Hkind & Hlab & Hword).
    rewrite Er in Er0. injection Er0 as <-.
    constructor; unfold walk_done; cbn [w_kept w_refs w_n w_err].
    + rewrite zlen_cons. lia.
    + intros fx0 H. right. apply S. exact H.
    + exact N.
    + exact F.
    + intros id H. simpl in H. rewrite Sm by tauto. unfold rs1. apply nth_error_upd_neq. tauto.
    + intros id r' Hr Hin. destruct (in_dec Nat.eq_dec id (ids t)) as [Ht|Ht].
      { exact (R id r' Hr Ht). }
      destruct Hin as [<-|Hin]; [|contradiction].
      right. rewrite Sm in Hr by exact Ht. unfold rs1 in Hr. rewrite (nth_error_upd_eq _ _ _ _ Er) in Hr.
      injection Hr as <-. destruct (Hsel fx lay lo Es) as (ls & Hl & Hw).
      exists ls, lo. unfold patched; simpl. rewrite Hlab. split; [exact Hl|]. split.
      * apply write_offset_or in Ew. destruct Ew as (m & He & ->). exists m. simpl.
        rewrite Hkind, Hsite, Hrel, Hword. auto.
      * rewrite Hsec. exact Hw.
    + intros id r' Hr. destruct (G id r' Hr) as (r1 & H1 & SG). unfold rs1 in H1.
      destruct (Nat.eq_dec (fx_id fx) id) as [E|E].
      * subst id. rewrite (nth_error_upd_eq _ _ _ _ Er) in H1. injection H1 as <-.
        exists r. split; [exact Er|]. unfold same_ghost, patched in *; simpl in *. exact SG.
      * rewrite nth_error_upd_neq in H1 by exact E. exists r1. auto.
    + intros id r' Hr. destruct (L id r' Hr) as [H|(fx0 & lo0 & H & E0 & E')].
      * destruct (Nat.eq_dec (fx_id fx) id) as [E|E].
        -- right. exists fx, lo. split; [left; reflexivity|]. split; [exact E|]. subst id.
           unfold rs1 in H. rewrite (nth_error_upd_eq _ _ _ _ Er) in H. injection H as <-. simpl. exact Es.
        -- left. unfold rs1 in H. rewrite nth_error_upd_neq in H by exact E. exact H.
      * right. exists fx0, lo0. split; [right; exact H|auto].
Qed.

(* relocation-linked fixups *)
Lemma bind_rel_count l sec off prs rl :
  let '(k, _, n) := bind_rel l sec off prs rl in zlen prs = zlen k + n.
Proof. unfold bind_rel. lia. Qed.

(* ------------------------------------------------------------------ selectors are sound *)
Lemma bind_sel_sound lbls l sec off :
  nth_error lbls l = Some (Some (sec, off)) -> sel_sound lbls (bind_sel l sec off).
Proof.
  intros H fx lay lo. unfold bind_sel.
  destruct (Nat.eqb (fx_label fx) l) eqn:El; [|discriminate].
  destruct (Nat.eqb (fx_sec fx) sec) eqn:Es; [|discriminate].
  intros E. injection E as <- <-. apply Nat.eqb_eq in El. apply Nat.eqb_eq in Es.
  exists sec. rewrite El. split; [exact H|]. split; [auto|discriminate].
Qed.

Lemma resolve_sel_sound lbls offs : sel_sound lbls (resolve_sel lbls offs).
Proof.
  intros fx lay lo. unfold resolve_sel.
  destruct (nth_error lbls (fx_label fx)) as [[[ls lo']|]|] eqn:El; try discriminate.
  destruct (_ || _); [discriminate|]. intros E. injection E as <- <-.
  exists ls. split; [reflexivity|]. split; [discriminate|].
  intros so to E Hs. injection E as <- <-. rewrite Hs. reflexivity.
Qed.

(* ------------------------------------------------------------------ every operation preserves the invariant *)
Lemma inv_labels_mono a b rs p pr u : label_mono a b -> inv_core a rs p pr u -> inv_core b rs p pr u.
Proof.
  intros M [C N F R H]. constructor; auto.
  intros id r Hr. destruct (R id r Hr) as [X|X]; [left; exact X|right; eapply resolved_ok_mono; eauto].
Qed.

Lemma inv_after_walk lbls' lbls sel rs p pr u w :
  label_mono lbls lbls' -> inv_core lbls rs p pr u -> walk_post lbls' sel p rs w ->
  forall pr' nrel, zlen pr = zlen pr' + nrel ->
  inv_core lbls' (w_refs w) (w_kept w) pr' (u - nrel - w_n w).
Proof.
  intros M [C N F R H] [WC WS WN WF WSm WR WG WL] pr' nrel Hpr. constructor.
  - lia.
  - exact WN.
  - exact WF.
  - intros id r' Hr. destruct (in_dec Nat.eq_dec id (ids p)) as [Hin|Hin].
    + exact (WR id r' Hr Hin).
    + right. rewrite WSm in Hr by exact Hin. destruct (R id r' Hr) as [X|X]; [contradiction|].
      eapply resolved_ok_mono; eauto.
  - intros id r' Hr. destruct (WG id r' Hr) as (r & H1 & (_ & _ & _ & Hk & _ & Hw)). rewrite Hk, Hw. eapply H; eauto.
Qed.

Lemma nth_error_snoc_inv {A} (l : list A) x id y :
  nth_error (l ++ [x]) id = Some y -> nth_error l id = Some y \/ (id = length l /\ y = x).
Proof.
  intros H. destruct (Nat.lt_ge_cases id (length l)) as [L|L].
  - rewrite nth_error_app1 in H by exact L. left; exact H.
  - rewrite nth_error_app2 in H by exact L. destruct (id - length l)%nat eqn:E.
    + simpl in H. injection H as <-. right. split; [lia|reflexivity].
    + simpl in H. destruct n; discriminate.
Qed.

Lemma ids_lt rs p : (forall fx, In fx p -> fx_ok rs fx) -> forall id, In id (ids p) -> (id < length rs)%nat.
Proof.
  intros F id H. unfold ids in H. apply in_map_iff in H. destruct H as (fx & <- & H).
  destruct (F fx H) as (r & E & _). apply nth_error_Some. congruence.
Qed.

Theorem step_inv s o : inv s -> inv (fst (step s o)).
Proof.
  unfold inv. intros I. destruct o; simpl.
  - (* ONewLabel *) eapply inv_labels_mono; [apply label_mono_app|exact I].
  - exact I.
  - destruct (Nat.ltb k (length (secs s))); exact I.
  - exact I.
  - destruct (0 <=? n); exact I.
  - (* ORef *)
    destruct (nth_error (labels s) l) as [lb|] eqn:El; [|exact I].
    destruct (hole_ok k w0) eqn:Eh; simpl; [|exact I].
    destruct I as [C N F R H].
    assert (Fresh : ~ In (length (refs s)) (ids (pending s))).
    { intros X. apply (ids_lt _ _ F) in X. lia. }
    assert (Queue : forall u, u = unresolved s + 1 ->
      inv_core (labels s)
        (refs s ++ [{| r_sec := cur s; r_site := s_len (cur_sec s) + zlen pre; r_rel := rel; r_kind := k; r_label := l;
                       r_w0 := w0; r_word := w0; r_lay := None |}])
        ({| fx_id := length (refs s); fx_sec := cur s; fx_off := s_len (cur_sec s) + zlen pre; fx_rel := rel;
            fx_kind := k; fx_label := l |} :: pending s) (pending_rel s) u).
    { intros u ->. constructor.
      - rewrite zlen_cons. lia.
      - simpl. constructor; assumption.
      - intros fx [<-|X].
        + eexists. simpl. rewrite nth_error_app2, Nat.sub_diag by lia. simpl. repeat split; reflexivity.
        + destruct (F fx X) as (r & E & Rest). exists r. split; [|exact Rest].
          rewrite nth_error_app1; [exact E|]. apply nth_error_Some. congruence.
      - intros id r Hr. apply nth_error_snoc_inv in Hr. destruct Hr as [Hr|(-> & ->)].
        + destruct (R id r Hr) as [X|X]; [left; right; exact X|right; exact X].
        + left. left. reflexivity.
      - intros id r Hr. apply nth_error_snoc_inv in Hr. destruct Hr as [Hr|(-> & ->)]; [eapply H; eauto|exact Eh]. }
    destruct lb as [[ls lo]|]; [|apply Queue; reflexivity].
    destruct (Nat.eqb ls (cur s)) eqn:Els; [|apply Queue; reflexivity].
    destruct (write_offset _ _ _) as [w|] eqn:Ew; simpl; [|constructor; assumption].
    apply Nat.eqb_eq in Els. constructor; auto.
    + intros fx X. destruct (F fx X) as (r & E & Rest). exists r. split; [|exact Rest].
      rewrite nth_error_app1; [exact E|]. apply nth_error_Some. congruence.
    + intros id r Hr. apply nth_error_snoc_inv in Hr. destruct Hr as [Hr|(-> & ->)]; [exact (R id r Hr)|].
      right. exists ls, lo. simpl. split; [exact El|]. split.
      * apply write_offset_or in Ew. destruct Ew as (m & He & ->). exists m. simpl. auto.
      * split; [auto|discriminate].
    + intros id r Hr. apply nth_error_snoc_inv in Hr. destruct Hr as [Hr|(-> & ->)]; [eapply H; eauto|exact Eh].
  - (* OBind *)
    destruct (nth_error (labels s) l) as [[v|]|] eqn:El; try exact I.
    destruct (bind_precheck l (cur s) (s_len (cur_sec s)) (pending s) (refs s)); cbn [negb]; cbv iota; [|exact I].
    unfold bind_rel. simpl.
    set (lbls' := upd (labels s) l (Some (cur s, s_len (cur_sec s)))).
    assert (M : label_mono (labels s) lbls') by (apply label_mono_upd; exact El).
    eapply inv_after_walk; [exact M|exact I| |lia].
    apply walk_inv; [|apply (inv_nodup _ _ _ _ _ I)|apply (inv_fx _ _ _ _ _ I)].
    apply bind_sel_sound. unfold lbls'. eapply nth_error_upd_eq; eauto.
  - (* OAbsRef *)
    destruct (nth_error (labels s) l) as [lb|] eqn:El; [|exact I].
    destruct (size_ok size); simpl; [|exact I].
    destruct I as [C N F R H].
    destruct lb; simpl; constructor; auto. rewrite zlen_cons. lia.
  - (* ODelta *)
    destruct (nth_error (labels s) l) as [ll|]; [|exact I].
    destruct (nth_error (labels s) b) as [lb|]; [|exact I].
    destruct (size_ok size); simpl; [|exact I].
    destruct (match ll with Some (ls, lo) => _ | None => None end); simpl; exact I.
  - (* OResolve *)
    replace (unresolved s - w_n _) with (unresolved s - 0 - w_n (resolve_list (resolve_sel (labels s) offs) false (pending s) (refs s))) by lia.
    eapply inv_after_walk with (lbls := labels s) (pr := pending_rel s);
      [intros ? ? X; exact X|exact I| |lia].
    apply walk_inv; [apply resolve_sel_sound|apply (inv_nodup _ _ _ _ _ I)|apply (inv_fx _ _ _ _ _ I)].
  - (* ODeltaChecked *)
    destruct (nth_error (labels s) l) as [ll|]; [|exact I].
    destruct (nth_error (labels s) b) as [lb|]; [|exact I].
    destruct (size_ok size); simpl; [|exact I].
    destruct (match ll with Some (ls, lo) => _ | None => None end); simpl; [|exact I].
    destruct (_ || _); exact I.
Qed.

Lemma inv_init : inv init.
Proof.
  constructor; simpl.
  - reflexivity.
  - constructor.
  - intros fx [].
  - intros [|id] r H; discriminate.
  - intros [|id] r H; discriminate.
Qed.

Lemma run_inv ops : forall s, inv s -> inv (run s ops).
Proof. induction ops as [|o t IH]; intros s I; simpl; [exact I|apply IH, step_inv, I]. Qed.

(* ------------------------------------------------------------------ count_exact *)
Theorem count_exact ops :
  let s := run init ops in unresolved s = zlen (pending s) + zlen (pending_rel s).
Proof. exact (inv_count _ _ _ _ _ (run_inv ops init inv_init)). Qed.

Theorem count_zero_iff ops :
  let s := run init ops in unresolved s = 0 <-> (pending s = [] /\ pending_rel s = []).
Proof.
  intros s. pose proof (count_exact ops) as H. fold s in H. rewrite H.
  split.
  - intros Z0. pose proof (zlen_nonneg (pending s)) as A. pose proof (zlen_nonneg (pending_rel s)) as B.
    split; apply zlen_zero; lia.
  - intros (-> & ->). reflexivity.
Qed.

(* ------------------------------------------------------------------ resolved references, invariant form *)
Theorem resolved_inv ops id r :
  let s := run init ops in
  nth_error (refs s) id = Some r -> ~ In id (ids (pending s)) -> resolved_ok (labels s) r.
Proof.
  intros s Hr Hn. destruct (inv_refs _ _ _ _ _ (run_inv ops init inv_init) id r Hr) as [X|X]; [contradiction|exact X].
Qed.

(* C03 — resolution is permanent: a reference that is resolved (not pending) in some reachable state stays resolved through ANY further
   operations, and its ghost log (site, format, addend, label, emitted word) never changes.  Sequence-level lift of step_pending_sub
   (ResolveComplete.v) and step_refs_ext (X86EndToEnd.v). *)
From Coq Require Import ZArith List Bool Lia.
From Verif Require Import Base.ZBits Codec.OffsetModel Labels.LabelsModel Labels.LabelsProofs Labels.LabelsExact Labels.ResolveComplete Labels.X86EndToEnd.
Import ListNotations.
Local Open Scope Z_scope.

Theorem resolved_stays_resolved ops2 : forall s id r,
  nth_error (refs s) id = Some r -> ~ In id (ids (pending s)) ->
  exists r', nth_error (refs (run s ops2)) id = Some r' /\ same_ghost r' r /\ ~ In id (ids (pending (run s ops2))).
Proof.
  induction ops2 as [|o t IH]; intros s id r Hr Hp; cbn [run].
  - exists r. split; [exact Hr|]. split; [apply same_ghost_refl|exact Hp].
  - destruct (step_refs_ext s o id r Hr) as (r1 & Hr1 & G1).
    assert (Hp1 : ~ In id (ids (pending (fst (step s o))))).
    { intros H. destruct (step_pending_sub s o id H) as [H'|H']; [exact (Hp H')|].
      assert (id < length (refs s))%nat by (apply nth_error_Some; congruence). lia. }
    destruct (IH (fst (step s o)) id r1 Hr1 Hp1) as (r' & Hr' & G' & Hp').
    exists r'. split; [exact Hr'|]. split; [eapply same_ghost_trans; eauto|exact Hp'].
Qed.

(* for whole programs: resolved after ops1 => resolved after ops1 ++ ops2 *)
Corollary resolved_stays_resolved_run ops1 ops2 id r :
  nth_error (refs (run init ops1)) id = Some r -> ~ In id (ids (pending (run init ops1))) ->
  exists r', nth_error (refs (run init (ops1 ++ ops2))) id = Some r' /\ same_ghost r' r /\ ~ In id (ids (pending (run init (ops1 ++ ops2)))).
Proof. intros Hr Hp. rewrite run_app. apply resolved_stays_resolved; assumption. Qed.

Example resolved_stays_resolved_witness :
  let ops1 := [ONewLabel; ORaw [144]; ORef K_Rel8 (-1) O [235] 0 []; OGap 10; OBind O] in
  let ops2 := [ONewLabel; ONewSection; OSection 1%nat; ORef K_Rel32 (-4) 1%nat [233] 0 []; OGap 300; OResolve [0; 64]] in
  exists r, nth_error (refs (run init ops1)) O = Some r /\ ~ In O (ids (pending (run init ops1))) /\
            In 1%nat (ids (pending (run init (ops1 ++ ops2)))) /\ ~ In O (ids (pending (run init (ops1 ++ ops2)))).
Proof.
  cbv zeta. eexists. split; [vm_compute; reflexivity|]. split; [vm_compute; intros []|]. split; [vm_compute; left; reflexivity|].
  vm_compute. intros [H|[]]. discriminate H.
Qed.

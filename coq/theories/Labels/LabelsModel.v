(* C03 — executable model of AsmJit's label / fixup machinery:
     CodeHolder::new_fixup, bind_label (+ ResolveFixupIterator), resolve_cross_section_fixups  (core/codeholder.cpp)
     BaseAssembler::embed_label / embed_label_delta                                            (core/assembler.cpp)
     the label paths of x86 EmitJmpCall / EmitModSib / EmitRel and a64 EmitOp_Rel              (x86assembler.cpp, a64assembler.cpp)
   No proofs in this file.

   Buffers are *structured*: a section is a list of items; a reference owns one word (its value word of
   1/4 bytes) that lives in the reference table `refs` (index = reference id).  `write_offset` is the C17 model
   (Verif.Codec.OffsetModel).  Positions are Z; displacements are computed like the C++ (uint64 arithmetic cast to
   int64 = `to_i64`).  A reference to a label that is already bound in ANOTHER section is queued on the holder's
   pending list (the behaviour after fixes/C03-xsection-bound-label.patch; the pinned tree corrupts the label
   entry instead, DESIGN 7.14).

   Fields of `refrec` other than `r_word`/`r_lay` never change after creation and are never read by an
   operation: they are the ghost log of the reference (site, format, addend, label, the word emitted with a
   zero hole).  `r_lay` is ghost too (section offsets used when a cross-section patch was applied). *)
From Coq Require Import ZArith List Bool.
From Verif Require Import Codec.OffsetModel.
Import ListNotations.
Local Open Scope Z_scope.

(* ---- displacement formats built by the two backends (x86 EmitRel; a64 reset_to_imm_value callers) ---- *)
Inductive refkind := K_Rel8 | K_Rel32 | K_Imm26 | K_Imm19 | K_Imm14 | K_Adr | K_Adrp.

Definition fmt_of_kind (k : refkind) : fmt :=
  match k with
  | K_Rel8  => {| ty := SignedOffset; vsize := 1; bits := 8;  shift := 0; discard := 0 |}
  | K_Rel32 => {| ty := SignedOffset; vsize := 4; bits := 32; shift := 0; discard := 0 |}
  | K_Imm26 => {| ty := SignedOffset; vsize := 4; bits := 26; shift := 0; discard := 2 |}
  | K_Imm19 => {| ty := SignedOffset; vsize := 4; bits := 19; shift := 5; discard := 2 |}
  | K_Imm14 => {| ty := SignedOffset; vsize := 4; bits := 14; shift := 5; discard := 2 |}
  | K_Adr   => {| ty := A64_ADR;      vsize := 4; bits := 21; shift := 5; discard := 0 |}
  | K_Adrp  => {| ty := A64_ADRP;     vsize := 4; bits := 21; shift := 5; discard := 12 |}
  end.

Definition kind_mask (k : refkind) : Z :=
  match k with
  | K_Adr | K_Adrp => a64_adr_mask
  | _ => field_mask (fmt_of_kind k)
  end.

(* architectural meaning of the patched word (manuals): the displacement it denotes *)
Definition decode_kind (k : refkind) (w : Z) : Z :=
  match k with
  | K_Adr | K_Adrp => decode_a64_adr w * 2 ^ discard (fmt_of_kind k)
  | _ => decode_signed (fmt_of_kind k) w
  end.

Definition hole_ok (k : refkind) (w0 : Z) : bool :=
  (0 <=? w0) && (w0 <? 2 ^ (8 * vsize (fmt_of_kind k))) && (Z.land w0 (kind_mask k) =? 0).

(* ---- state ---- *)
Inductive item := IRaw (bs : list Z) | IGap (n : Z) | IRef (id : nat).
Record section := { s_items : list item; s_len : Z }.

Record refrec := {
  r_sec : nat; r_site : Z; r_rel : Z; r_kind : refkind; r_label : nat; r_w0 : Z;   (* ghost log, immutable *)
  r_word : Z;                                                                      (* current value word *)
  r_lay : option (Z * Z)                                                           (* ghost: (source, target) section offsets of a cross-section patch *)
}.

Record fixup := { fx_id : nat; fx_sec : nat; fx_off : Z; fx_rel : Z; fx_kind : refkind; fx_label : nat }.

Inductive rtype := RelToAbs | Expr (l b : nat).
Record reloc := {
  rl_type : rtype; rl_sec : nat; rl_off : Z; rl_lead : Z; rl_size : Z; rl_trail : Z;
  rl_payload : Z; rl_target : option nat;
  rl_label : nat; rl_addend : Z     (* ghost: the label and addend the entry was created for (never read by an operation) *)
}.

Record state := {
  secs : list section; cur : nat;
  labels : list (option (nat * Z));
  refs : list refrec;
  pending : list fixup;              (* fixups that patch a word: label chains and CodeHolder::_fixups together *)
  pending_rel : list (nat * nat);    (* (label, reloc id): fixups linked to a relocation (embed_label, x86-32 [label]) *)
  unresolved : Z;                    (* CodeHolder::_unresolved_fixup_count *)
  relocs : list reloc
}.

Definition init : state :=
  {| secs := [ {| s_items := []; s_len := 0 |} ]; cur := O; labels := []; refs := []; pending := [];
     pending_rel := []; unresolved := 0; relocs := [] |}.

Inductive err := EOk | EInvalidLabel | EAlreadyBound | EInvalidDisp | EInvalidSection | EInvalidSize | EBadInput.

Inductive op :=
| ONewLabel
| ONewSection
| OSection (k : nat)
| ORaw (bs : list Z)
| OGap (n : Z)
| ORef (k : refkind) (rel : Z) (l : nat) (pre : list Z) (w0 : Z) (post : list Z)
| OBind (l : nat)
| OAbsRef (l : nat) (size : Z) (addend : Z) (pre post : list Z)
| ODelta (l b : nat) (size : Z)
| OResolve (offs : list Z)
| ODeltaChecked (l b : nat) (size : Z).   (* embed_label_delta after fixes/C03-label-delta-range.patch: the immediate path checks the range *)

(* ---- helpers ---- *)
Fixpoint upd {A} (l : list A) (i : nat) (v : A) : list A :=
  match l, i with
  | [], _ => []
  | _ :: t, O => v :: t
  | h :: t, S j => h :: upd t j v
  end.

Definition zlen {A} (l : list A) : Z := Z.of_nat (length l).
Definition empty_sec : section := {| s_items := []; s_len := 0 |}.
Definition cur_sec (s : state) : section := nth (cur s) (secs s) empty_sec.
Definition sec_append (sc : section) (its : list item) (n : Z) : section :=
  {| s_items := s_items sc ++ its; s_len := s_len sc + n |}.

Definition set_secs (s : state) (v : list section) : state :=
  {| secs := v; cur := cur s; labels := labels s; refs := refs s; pending := pending s;
     pending_rel := pending_rel s; unresolved := unresolved s; relocs := relocs s |}.
Definition set_cur (s : state) (v : nat) : state :=
  {| secs := secs s; cur := v; labels := labels s; refs := refs s; pending := pending s;
     pending_rel := pending_rel s; unresolved := unresolved s; relocs := relocs s |}.
Definition set_labels (s : state) (v : list (option (nat * Z))) : state :=
  {| secs := secs s; cur := cur s; labels := v; refs := refs s; pending := pending s;
     pending_rel := pending_rel s; unresolved := unresolved s; relocs := relocs s |}.
Definition set_fix (s : state) (rs : list refrec) (p : list fixup) (u : Z) : state :=
  {| secs := secs s; cur := cur s; labels := labels s; refs := rs; pending := p;
     pending_rel := pending_rel s; unresolved := u; relocs := relocs s |}.
Definition set_rel (s : state) (pr : list (nat * nat)) (u : Z) (rl : list reloc) : state :=
  {| secs := secs s; cur := cur s; labels := labels s; refs := refs s; pending := pending s;
     pending_rel := pr; unresolved := u; relocs := rl |}.

Definition append_cur (s : state) (its : list item) (n : Z) : state :=
  set_secs s (upd (secs s) (cur s) (sec_append (cur_sec s) its n)).

Definition patched (r : refrec) (w : Z) (lay : option (Z * Z)) : refrec :=
  {| r_sec := r_sec r; r_site := r_site r; r_rel := r_rel r; r_kind := r_kind r; r_label := r_label r;
     r_w0 := r_w0 r; r_word := w; r_lay := lay |}.

(* displacement exactly as the C++ computes it: uint64 arithmetic, then int64 *)
Definition disp (so to lo site rel : Z) : Z := to_i64 ((to + lo) - (so + site) + rel).

(* ---- the fixup walk shared by bind_label and resolve_cross_section_fixups (ResolveFixupIterator) ---- *)
Inductive sel_res := SSkip | SErr | STry (lay : option (Z * Z)) (lo : Z).

Definition lay_so (lay : option (Z * Z)) : Z := match lay with Some (so, _) => so | None => 0 end.
Definition lay_to (lay : option (Z * Z)) : Z := match lay with Some (_, to) => to | None => 0 end.

Record walk := { w_kept : list fixup; w_refs : list refrec; w_n : Z; w_err : bool }.

Definition walk_keep (fx : fixup) (e : bool) (w : walk) : walk :=
  {| w_kept := fx :: w_kept w; w_refs := w_refs w; w_n := w_n w; w_err := e || w_err w |}.
Definition walk_done (w : walk) : walk :=
  {| w_kept := w_kept w; w_refs := w_refs w; w_n := w_n w + 1; w_err := w_err w |}.

Fixpoint resolve_list (sel : fixup -> sel_res) (fail_is_err : bool) (fxs : list fixup) (rs : list refrec) : walk :=
  match fxs with
  | [] => {| w_kept := []; w_refs := rs; w_n := 0; w_err := false |}
  | fx :: t =>
    match sel fx with
    | SSkip => walk_keep fx false (resolve_list sel fail_is_err t rs)
    | SErr => walk_keep fx true (resolve_list sel fail_is_err t rs)
    | STry lay lo =>
      match nth_error rs (fx_id fx) with
      | None => walk_keep fx false (resolve_list sel fail_is_err t rs)
      | Some r =>
        match write_offset (fmt_of_kind (fx_kind fx)) (r_word r)
                           (disp (lay_so lay) (lay_to lay) lo (fx_off fx) (fx_rel fx)) with
        | Some w => walk_done (resolve_list sel fail_is_err t (upd rs (fx_id fx) (patched r w lay)))
        | None => walk_keep fx fail_is_err (resolve_list sel fail_is_err t rs)
        end
      end
    end
  end.

(* relocation-linked fixups of a label that gets bound: payload += offset, target section recorded *)
Definition bump_reloc (re : reloc) (sec : nat) (off : Z) : reloc :=
  {| rl_type := rl_type re; rl_sec := rl_sec re; rl_off := rl_off re; rl_lead := rl_lead re; rl_size := rl_size re;
     rl_trail := rl_trail re; rl_payload := wrap 64 (rl_payload re + off); rl_target := Some sec;
     rl_label := rl_label re; rl_addend := rl_addend re |}.

Fixpoint mapi_from {A B} (f : nat -> A -> B) (i : nat) (l : list A) : list B :=
  match l with [] => [] | x :: t => f i x :: mapi_from f (S i) t end.

(* every fixup of label l on the list is linked to a relocation: adjust those entries, unlink the fixups *)
Definition rel_hit (l : nat) (prs : list (nat * nat)) (rid : nat) : bool :=
  existsb (fun p => Nat.eqb (fst p) l && Nat.eqb (snd p) rid) prs.

Definition bind_rel (l sec : nat) (off : Z) (prs : list (nat * nat)) (rl : list reloc) : list (nat * nat) * list reloc * Z :=
  let kept := filter (fun p => negb (Nat.eqb (fst p) l)) prs in
  (kept, mapi_from (fun rid re => if rel_hit l prs rid then bump_reloc re sec off else re) O rl, zlen prs - zlen kept).

Definition zeros (n : Z) : list Z := repeat 0 (Z.to_nat n).
Definition size_ok (n : Z) : bool := (n =? 1) || (n =? 2) || (n =? 4) || (n =? 8).

Definition bind_sel (l sec : nat) (off : Z) (fx : fixup) : sel_res :=
  if Nat.eqb (fx_label fx) l then (if Nat.eqb (fx_sec fx) sec then STry None off else SSkip) else SSkip.

Definition resolve_sel (lbls : list (option (nat * Z))) (offs : list Z) (fx : fixup) : sel_res :=
  match nth_error lbls (fx_label fx) with
  | Some (Some (ls, lo)) =>
    let so := nth (fx_sec fx) offs 0 in let to := nth ls offs 0 in
    if (2 ^ 64 <=? to + lo) || (2 ^ 64 <=? so + fx_off fx) then SErr else STry (Some (so, to)) lo
  | _ => SSkip
  end.

(* CodeHolder::bind_label first checks the displacement of every fixup it would patch (same section, not linked to a relocation):
   if one cannot be encoded the bind is refused with kInvalidDisplacement and NOTHING changes (fix 6b578fc) *)
Definition bind_precheck (l sec : nat) (off : Z) (fxs : list fixup) (rs : list refrec) : bool :=
  forallb (fun fx =>
    match bind_sel l sec off fx with
    | STry lay lo =>
      match nth_error rs (fx_id fx) with
      | Some r => match write_offset (fmt_of_kind (fx_kind fx)) (r_word r) (disp (lay_so lay) (lay_to lay) lo (fx_off fx) (fx_rel fx)) with
                  | Some _ => true | None => false end
      | None => true
      end
    | _ => true
    end) fxs.

(* ---- one operation ---- *)
Definition step (s : state) (o : op) : state * err :=
  match o with
  | ONewLabel => (set_labels s (labels s ++ [None]), EOk)
  | ONewSection => (set_secs s (secs s ++ [empty_sec]), EOk)
  | OSection k => if Nat.ltb k (length (secs s)) then (set_cur s k, EOk) else (s, EInvalidSection)
  | ORaw bs => (append_cur s [IRaw bs] (zlen bs), EOk)
  | OGap n => if 0 <=? n then (append_cur s [IGap n] n, EOk) else (s, EBadInput)
  | ORef k rel l pre w0 post =>
    match nth_error (labels s) l with
    | None => (s, EInvalidLabel)
    | Some lb =>
      if negb (hole_ok k w0) then (s, EBadInput) else
      let f := fmt_of_kind k in
      let site := s_len (cur_sec s) + zlen pre in
      let id := length (refs s) in
      let r0 := {| r_sec := cur s; r_site := site; r_rel := rel; r_kind := k; r_label := l; r_w0 := w0;
                   r_word := w0; r_lay := None |} in
      let emit (r : refrec) : state :=
        let s1 := append_cur s [IRaw pre; IRef id; IRaw post] (zlen pre + vsize f + zlen post) in
        set_fix s1 (refs s ++ [r]) (pending s) (unresolved s) in
      let queue : state :=
        let s1 := emit r0 in
        set_fix s1 (refs s1)
                ({| fx_id := id; fx_sec := cur s; fx_off := site; fx_rel := rel; fx_kind := k; fx_label := l |} :: pending s)
                (unresolved s + 1) in
      match lb with
      | Some (ls, lo) =>
        if Nat.eqb ls (cur s) then
          match write_offset f w0 (disp 0 0 lo site rel) with
          | Some w => (emit (patched r0 w None), EOk)
          | None => (s, EInvalidDisp)
          end
        else (queue, EOk)
      | None => (queue, EOk)
      end
    end
  | OBind l =>
    match nth_error (labels s) l with
    | None => (s, EInvalidLabel)
    | Some (Some _) => (s, EAlreadyBound)
    | Some None =>
      let off := s_len (cur_sec s) in
      if negb (bind_precheck l (cur s) off (pending s) (refs s)) then (s, EInvalidDisp) else
      let '(prk, rl, nrel) := bind_rel l (cur s) off (pending_rel s) (relocs s) in
      let w := resolve_list (bind_sel l (cur s) off) true (pending s) (refs s) in
      let s1 := set_labels s (upd (labels s) l (Some (cur s, off))) in
      let s2 := set_rel s1 prk (unresolved s) rl in
      (set_fix s2 (w_refs w) (w_kept w) (unresolved s - nrel - w_n w), if w_err w then EInvalidDisp else EOk)
    end
  | OAbsRef l size addend pre post =>
    match nth_error (labels s) l with
    | None => (s, EInvalidLabel)
    | Some lb =>
      if negb (size_ok size) then (s, EInvalidSize) else
      let rid := length (relocs s) in
      let re := {| rl_type := RelToAbs; rl_sec := cur s; rl_off := s_len (cur_sec s); rl_lead := zlen pre; rl_size := size;
                   rl_trail := zlen post;
                   rl_payload := wrap 64 (addend + match lb with Some (_, lo) => lo | None => 0 end);
                   rl_target := match lb with Some (ls, _) => Some ls | None => None end;
                   rl_label := l; rl_addend := addend |} in
      let s1 := append_cur s [IRaw (pre ++ zeros size ++ post)] (zlen pre + size + zlen post) in
      match lb with
      | Some _ => (set_rel s1 (pending_rel s) (unresolved s) (relocs s ++ [re]), EOk)
      | None => (set_rel s1 ((l, rid) :: pending_rel s) (unresolved s + 1) (relocs s ++ [re]), EOk)
      end
    end
  | ODelta l b size =>
    match nth_error (labels s) l, nth_error (labels s) b with
    | Some ll, Some lb =>
      if negb (size_ok size) then (s, EInvalidSize) else
      let immediate :=
        match ll, lb with
        | Some (ls, lo), Some (bs, bo) => if Nat.eqb ls bs then Some (lo - bo) else None
        | _, _ => None
        end in
      match immediate with
      | Some d =>
        (* BaseAssembler::embed_label_delta, both labels bound in one section: emit_value_le(delta, size) keeps the low
           8*size bits whatever the delta is (recorded finding: a delta that does not fit is silently truncated) *)
        (append_cur s [IRaw (le_split (Z.to_nat size) (wrap (8 * size) d))] size, EOk)
      | None =>
        let re := {| rl_type := Expr l b; rl_sec := cur s; rl_off := s_len (cur_sec s); rl_lead := 0; rl_size := size;
                     rl_trail := 0; rl_payload := 0; rl_target := None; rl_label := l; rl_addend := 0 |} in
        let s1 := append_cur s [IRaw (zeros size)] size in
        (set_rel s1 (pending_rel s) (unresolved s) (relocs s ++ [re]), EOk)
      end
    | _, _ => (s, EInvalidLabel)
    end
  | OResolve offs =>
    let w := resolve_list (resolve_sel (labels s) offs) false (pending s) (refs s) in
    (set_fix s (w_refs w) (w_kept w) (unresolved s - w_n w), if w_err w then EInvalidDisp else EOk)
  | ODeltaChecked l b size =>
    match nth_error (labels s) l, nth_error (labels s) b with
    | Some ll, Some lb =>
      if negb (size_ok size) then (s, EInvalidSize) else
      let immediate :=
        match ll, lb with
        | Some (ls, lo), Some (bs, bo) => if Nat.eqb ls bs then Some (lo - bo) else None
        | _, _ => None
        end in
      match immediate with
      | Some d =>
        (* is_encodable_offset_64(delta, 8 * size) unless size = 8: same signed range as the expression relocation *)
        if (size =? 8) || ((- 2 ^ (8 * size - 1) <=? d) && (d <? 2 ^ (8 * size - 1)))
        then (append_cur s [IRaw (le_split (Z.to_nat size) (wrap (8 * size) d))] size, EOk)
        else (s, EInvalidDisp)
      | None =>
        let re := {| rl_type := Expr l b; rl_sec := cur s; rl_off := s_len (cur_sec s); rl_lead := 0; rl_size := size;
                     rl_trail := 0; rl_payload := 0; rl_target := None; rl_label := l; rl_addend := 0 |} in
        let s1 := append_cur s [IRaw (zeros size)] size in
        (set_rel s1 (pending_rel s) (unresolved s) (relocs s ++ [re]), EOk)
      end
    | _, _ => (s, EInvalidLabel)
    end
  end.

Fixpoint run (s : state) (ops : list op) : state :=
  match ops with
  | [] => s
  | o :: t => run (fst (step s o)) t
  end.

(* ---- observable image of a section (for the correspondence run): bytes, gaps run-length coded as negative numbers ---- *)
Fixpoint sec_image (rs : list refrec) (its : list item) : list Z :=
  match its with
  | [] => []
  | IRaw bs :: t => bs ++ sec_image rs t
  | IGap n :: t => (- n - 1) :: sec_image rs t
  | IRef id :: t =>
    match nth_error rs id with
    | Some r => le_split (Z.to_nat (vsize (fmt_of_kind (r_kind r)))) (r_word r) ++ sec_image rs t
    | None => sec_image rs t
    end
  end.

(* ---- x86 EmitJmpCallRel: short/long form selection for a target bound in the current section ----
   ip = offset of the first opcode byte (after an optional REX), size8/size32 = lengths of the two forms *)
Inductive bform := FShort | FLong.
Definition x86_branch_form (has8 has32 force_short force_long : bool) (size8 size32 ip target : Z) : option bform :=
  let d8 := target - (ip + size8) in
  if (- 128 <=? d8) && (d8 <? 128) && has8 && negb force_long then Some FShort
  else if negb has32 || force_short then None
  else Some FLong.

(* an unbound / other-section target: the form is chosen without knowing the distance *)
Definition x86_branch_form_unbound (has8 has32 force_short : bool) : option bform :=
  if has8 && (negb has32 || force_short) then Some FShort
  else if negb has32 || force_short then None
  else Some FLong.

(* ---- x86-64 EmitModSib, [rip + label + disp] with the label bound in the current section: the field is computed inline in
   int32 arithmetic (`rel_offset -= 4 + imm_size; rel_offset += int32_t(label->offset() - writer.offset)`, emit32u_le) and is
   NOT range-checked.  `hole` = offset of the 4-byte field.  Faithful (wrapping) transliteration: ---- *)
Definition x64_rip_field (disp imm_size label_off hole : Z) : Z :=
  sext 32 (sext 32 (disp - (4 + imm_size)) + sext 32 (label_off - hole)).

(* C03 — the completeness direction of resolution.  never_truncates says an unencodable displacement is never patched; here: after
   resolve_cross_section_fixups (OResolve offs) EVERY reference whose label is bound, whose flattened positions do not overflow 64 bits and
   whose displacement IS encodable in its format is resolved (not pending).  Together: after a resolve a reference with a bound label
   and in-range positions is pending if and only if its displacement is not encodable.  Also: a reference to an unbound label is
   always pending (nothing is ever patched towards a label without a position). *)
From Coq Require Import ZArith List Bool Lia.
From Verif Require Import Base.ZBits Codec.OffsetModel Codec.OffsetProofs Labels.LabelsModel Labels.LabelsProofs Labels.LabelsExact
  Labels.FlatModel Labels.FlatLemmas Labels.FlatProofs.
Import ListNotations.
Local Open Scope Z_scope.

Lemma kept_sub sel fie : forall fxs rs fx, In fx (w_kept (resolve_list sel fie fxs rs)) -> In fx fxs.
Proof.
  induction fxs as [|fx0 t IH]; intros rs fx; cbn [resolve_list]; [intros []|].
  assert (K : forall e rs', In fx (w_kept (walk_keep fx0 e (resolve_list sel fie t rs'))) -> In fx (fx0 :: t)).
  { intros e rs' [<-|H]; [left; reflexivity|right; exact (IH rs' fx H)]. }
  destruct (sel fx0) as [| |lay lo]; try apply K.
  destruct (nth_error rs (fx_id fx0)) as [r|]; [|apply K].
  destruct (write_offset _ _ _) as [w|]; [|apply K].
  cbn [walk_done w_kept]. intros H. right. exact (IH _ fx H).
Qed.

Lemma walk_complete sel fie : forall fxs rs, NoDup (ids fxs) -> (forall fx, In fx fxs -> fx_ok rs fx) ->
  forall fx, In fx fxs -> forall lay lo, sel fx = STry lay lo ->
    (forall r, nth_error rs (fx_id fx) = Some r ->
       write_offset (fmt_of_kind (fx_kind fx)) (r_word r) (disp (lay_so lay) (lay_to lay) lo (fx_off fx) (fx_rel fx)) <> None) ->
    ~ In (fx_id fx) (ids (w_kept (resolve_list sel fie fxs rs))).
Proof.
  induction fxs as [|fx0 t IH]; intros rs Hnd Hok fx Hin lay lo Hs Hw; [destruct Hin|].
  assert (Hnd' : NoDup (ids t)) by (inversion Hnd; assumption).
  assert (Hnin : ~ In (fx_id fx0) (ids t)) by (inversion Hnd; assumption).
  assert (Sub : forall rs', ~ In (fx_id fx0) (ids (w_kept (resolve_list sel fie t rs')))).
  { intros rs' H. apply Hnin. unfold ids in *. apply in_map_iff in H. destruct H as (y & E & H). apply in_map_iff. exists y. split; [exact E|eapply kept_sub; exact H]. }
  destruct Hin as [<-|Hin].
  - (* the head is the fixup in question: it is patched *)
    cbn [resolve_list]. rewrite Hs. destruct (Hok fx0 (or_introl eq_refl)) as (r & Er & _). rewrite Er.
    destruct (write_offset _ _ _) as [w|] eqn:Ew; [|exfalso; exact (Hw r Er Ew)].
    cbn [walk_done w_kept]. apply Sub.
  - (* the fixup is in the tail *)
    assert (Hne : fx_id fx0 <> fx_id fx) by (intros E; apply Hnin; rewrite E; apply in_map; exact Hin).
    assert (Hok' : forall y, In y t -> fx_ok rs y) by (intros; apply Hok; right; assumption).
    assert (K : forall e, ~ In (fx_id fx) (ids (w_kept (walk_keep fx0 e (resolve_list sel fie t rs))))).
    { intros e [E|H]; [exact (Hne E)|]. exact (IH rs Hnd' Hok' fx Hin lay lo Hs Hw H). }
    cbn [resolve_list]. destruct (sel fx0) as [| |lay0 lo0]; try apply K.
    destruct (nth_error rs (fx_id fx0)) as [r0|] eqn:Er0; [|apply K].
    destruct (write_offset (fmt_of_kind (fx_kind fx0)) _ _) as [w0|]; [|apply K].
    cbn [walk_done w_kept]. apply (IH (upd rs (fx_id fx0) (patched r0 w0 lay0)) Hnd') with (lay := lay) (lo := lo); try assumption.
    + intros y Hy. apply fx_ok_same with rs; [|apply Hok'; exact Hy].
      apply nth_error_upd_neq. intros E. apply Hnin. rewrite E. apply in_map. exact Hy.
    + intros r Hr. rewrite nth_error_upd_neq in Hr by exact Hne. exact (Hw r Hr).
Qed.

Theorem resolve_complete ops offs id r ls lo m :
  let s0 := run init ops in let s := run init (ops ++ [OResolve offs]) in
  nth_error (refs s0) id = Some r -> nth_error (labels s0) (r_label r) = Some (Some (ls, lo)) ->
  nth ls offs 0 + lo < 2 ^ 64 -> nth (r_sec r) offs 0 + r_site r < 2 ^ 64 ->
  encode_offset (fmt_of_kind (r_kind r)) (final_disp offs ls lo r) = Some m ->
  ~ In id (ids (pending s)).
Proof.
  intros s0 s Hr Hl Ht Hso He. unfold s. rewrite run_app. fold s0. cbn [run step fst set_fix pending].
  assert (I : inv s0) by (apply run_inv, inv_init).
  destruct (in_dec Nat.eq_dec id (ids (pending s0))) as [Hp|Hp].
  - unfold ids in Hp. apply in_map_iff in Hp. destruct Hp as (fx & <- & Hin).
    destruct (inv_fx _ _ _ _ _ I fx Hin) as (r0 & Er0 & Hsec & Hsite & Hrel & Hkind & Hlab & Hword).
    rewrite Hr in Er0. injection Er0 as <-.
    apply (walk_complete _ false (pending s0) (refs s0) (inv_nodup _ _ _ _ _ I) (inv_fx _ _ _ _ _ I) fx Hin
             (Some (nth (fx_sec fx) offs 0, nth ls offs 0)) lo).
    + unfold resolve_sel. rewrite <- Hlab, Hl. cbv zeta.
      replace (2 ^ 64 <=? nth ls offs 0 + lo) with false by (symmetry; apply Z.leb_gt; exact Ht).
      replace (2 ^ 64 <=? nth (fx_sec fx) offs 0 + fx_off fx) with false by (symmetry; apply Z.leb_gt; rewrite <- Hsec, <- Hsite; exact Hso).
      reflexivity.
    + intros r' Hr'. rewrite Hr in Hr'. injection Hr' as <-. unfold write_offset.
      replace (disp (lay_so (Some (nth (fx_sec fx) offs 0, nth ls offs 0))) (lay_to (Some (nth (fx_sec fx) offs 0, nth ls offs 0))) lo (fx_off fx) (fx_rel fx))
        with (final_disp offs ls lo r) by (unfold disp, final_disp, lay_so, lay_to; rewrite Hsec, Hsite, Hrel; reflexivity).
      rewrite <- Hkind, He. discriminate.
  - intros H. apply Hp. unfold ids in *. apply in_map_iff in H. destruct H as (fx & E & H). apply in_map_iff. exists fx. split; [exact E|eapply kept_sub; exact H].
Qed.

(* a reference whose label has no position is pending, in every reachable state *)
Theorem unbound_is_pending ops id r :
  let s := run init ops in
  nth_error (refs s) id = Some r -> nth_error (labels s) (r_label r) = Some None -> In id (ids (pending s)).
Proof.
  intros s Hr Hl. destruct (inv_refs _ _ _ _ _ (run_inv ops init inv_init) id r Hr) as [H|(ls & lo & H & _)]; [exact H|].
  fold s in H. rewrite Hl in H. discriminate.
Qed.

(* satisfiability: the forward jump of resolved_exact_witness across two sections *)
Example resolve_complete_witness :
  let ops := [ONewLabel; ONewSection; ORef K_Rel32 (-4) O [233] 0 []; OSection 1%nat; OGap 7; OBind O] in
  let s0 := run init ops in let s := run init (ops ++ [OResolve [0; 16]]) in
  exists r m, nth_error (refs s0) O = Some r /\ nth_error (labels s0) (r_label r) = Some (Some (1%nat, 7)) /\ In O (ids (pending s0)) /\
    encode_offset (fmt_of_kind (r_kind r)) (final_disp [0; 16] 1 7 r) = Some m /\ pending s = [] /\ unresolved s = 0.
Proof. cbv zeta. eexists. eexists. split; [vm_compute; reflexivity|]. cbn [r_label r_kind]. repeat split; try (vm_compute; reflexivity). vm_compute. left. reflexivity. Qed.

(* bind_label: an ACCEPTED bind resolves every pending reference of the label that lies in the section the label is bound in (the
   pre-check guarantees every one of them is encodable; anything else refuses the bind, C03_bind_refused_no_change) *)
Theorem bind_complete ops l id r :
  let s0 := run init ops in
  snd (step s0 (OBind l)) = EOk ->
  let s := fst (step s0 (OBind l)) in
  nth_error (refs s0) id = Some r -> r_label r = l -> r_sec r = cur s0 ->
  ~ In id (ids (pending s)).
Proof.
  intros s0 Hok s Hr Hlab Hsec. unfold s. revert Hok. cbn [step].
  assert (I : inv s0) by (apply run_inv, inv_init).
  destruct (nth_error (labels s0) l) as [[v|]|]; try discriminate.
  destruct (bind_precheck l (cur s0) (s_len (cur_sec s0)) (pending s0) (refs s0)) eqn:Ep; cbn [negb]; cbv iota; [|discriminate].
  destruct (bind_rel l (cur s0) (s_len (cur_sec s0)) (pending_rel s0) (relocs s0)) as [[prk rl] nrel]. cbn [fst snd set_fix pending]. intros _.
  destruct (in_dec Nat.eq_dec id (ids (pending s0))) as [Hp|Hp].
  - unfold ids in Hp. apply in_map_iff in Hp. destruct Hp as (fx & <- & Hin).
    destruct (inv_fx _ _ _ _ _ I fx Hin) as (r0 & Er0 & Hs & Hsite & Hrel & Hkind & Hl & Hword).
    rewrite Hr in Er0. injection Er0 as <-.
    apply (walk_complete _ true (pending s0) (refs s0) (inv_nodup _ _ _ _ _ I) (inv_fx _ _ _ _ _ I) fx Hin None (s_len (cur_sec s0))).
    + unfold bind_sel. rewrite <- Hl, Hlab, Nat.eqb_refl, <- Hs, Hsec, Nat.eqb_refl. reflexivity.
    + intros r' Hr'. rewrite Hr in Hr'. injection Hr' as <-.
      unfold bind_precheck in Ep. rewrite forallb_forall in Ep. specialize (Ep fx Hin).
      unfold bind_sel in Ep. rewrite <- Hl, Hlab, Nat.eqb_refl, <- Hs, Hsec, Nat.eqb_refl, Hr in Ep.
      destruct (write_offset _ _ _); [discriminate|discriminate Ep].
  - intros H. apply Hp. unfold ids in *. apply in_map_iff in H. destruct H as (fx & E & H). apply in_map_iff. exists fx. split; [exact E|eapply kept_sub; exact H].
Qed.

(* nothing is ever half patched: while a reference is pending, the word in the byte image at its site is exactly the word the
   assembler emitted (zero displacement field), in every reachable state *)
Theorem pending_image_untouched ops id r :
  let s := run init ops in let f := frun finit ops in
  nth_error (refs s) id = Some r -> In id (ids (pending s)) ->
  read_word (nth (r_sec r) (f_secs f) []) (r_site r) (vnat (r_kind r)) = r_w0 r.
Proof.
  intros s f Hr Hp. pose proof (image_word ops id r Hr) as Hw. cbv zeta in Hw. fold f in Hw. rewrite Hw.
  unfold ids in Hp. apply in_map_iff in Hp. destruct Hp as (fx & E & Hin).
  destruct (inv_fx _ _ _ _ _ (run_inv ops init inv_init) fx Hin) as (r0 & Er0 & _ & _ & _ & _ & _ & Hword).
  fold s in Er0. rewrite E, Hr in Er0. injection Er0 as <-. exact Hword.
Qed.

Example pending_image_untouched_witness :
  let ops := [ONewLabel; ORaw [144]; ORef K_Rel8 (-1) O [235] 0 []; OGap 200; OBind O] in
  let s := run init ops in let f := frun finit ops in
  In O (ids (pending s)) /\ read_word (nth O (f_secs f) []) 2 1 = 0 /\ unresolved s = 1.
Proof. cbv zeta. split; [vm_compute; left; reflexivity|]. split; vm_compute; reflexivity. Qed.

(* ------------------------------------------------------------------ round 7: resolution is permanent (sequence level) *)
(* an operation never makes an existing reference pending again: the pending ids after a step are pending ids before it, or the id of
   the reference the step just created *)
Lemma step_pending_sub s o id :
  In id (ids (pending (fst (step s o)))) -> In id (ids (pending s)) \/ id = length (refs s).
Proof.
  assert (K : forall sel fie, In id (ids (w_kept (resolve_list sel fie (pending s) (refs s)))) -> In id (ids (pending s))).
  { intros sel fie H. unfold ids in *. apply in_map_iff in H. destruct H as (fx & E & H). apply in_map_iff. exists fx. split; [exact E|eapply kept_sub; exact H]. }
  destruct o; cbn [step]; try (intros H; left; exact H).
  - destruct (Nat.ltb k (length (secs s))); intros H; left; exact H.
  - destruct (0 <=? n); intros H; left; exact H.
  - destruct (nth_error (labels s) l) as [lb|]; [|intros H; left; exact H].
    destruct (hole_ok k w0); cbn [negb]; cbv iota; [|intros H; left; exact H].
    destruct lb as [[ls lo]|]; [destruct (Nat.eqb ls (cur s)); [destruct (write_offset _ _ _); intros H; left; exact H|]|];
      cbn [fst set_fix pending ids map fx_id]; intros [<-|H]; [right; reflexivity|left; exact H|right; reflexivity|left; exact H].
  - destruct (nth_error (labels s) l) as [[v|]|]; try (intros H; left; exact H).
    destruct (bind_precheck l (cur s) (s_len (cur_sec s)) (pending s) (refs s)); cbn [negb]; cbv iota; [|intros H; left; exact H].
    destruct (bind_rel l (cur s) (s_len (cur_sec s)) (pending_rel s) (relocs s)) as [[prk rl] nrel]. cbn [fst set_fix pending].
    intros H. left. exact (K _ _ H).
  - destruct (nth_error (labels s) l) as [lb|]; [|intros H; left; exact H].
    destruct (size_ok size); cbn [negb]; cbv iota; [|intros H; left; exact H]. destruct lb; intros H; left; exact H.
  - destruct (nth_error (labels s) l) as [ll|]; [|intros H; left; exact H].
    destruct (nth_error (labels s) b) as [lb|]; [|intros H; left; exact H].
    destruct (size_ok size); cbn [negb]; cbv iota; [|intros H; left; exact H].
    destruct (match ll with Some (ls, lo) => _ | None => None end); intros H; left; exact H.
  - cbn [fst set_fix pending]. intros H. left. exact (K _ _ H).
  - destruct (nth_error (labels s) l) as [ll|]; [|intros H; left; exact H].
    destruct (nth_error (labels s) b) as [lb|]; [|intros H; left; exact H].
    destruct (size_ok size); cbn [negb]; cbv iota; [|intros H; left; exact H].
    destruct (match ll with Some (ls, lo) => _ | None => None end); [destruct (_ || _)|]; intros H; left; exact H.
Qed.

(* C03 — absolute references (embed_label, x86-32 [label]): the RelToAbs relocation entry of a bound label carries
   payload = addend + label offset (mod 2^64) and the label's section; for an unbound label it is linked from a counted fixup. *)
From Coq Require Import ZArith List Bool Lia.
From Verif Require Import Base.ZBits Codec.OffsetModel Labels.LabelsModel Labels.LabelsProofs.
Import ListNotations.
Local Open Scope Z_scope.
Arguments zlen : simpl never.

Lemma nth_error_mapi_from {A B} (f : nat -> A -> B) l : forall i k,
  nth_error (mapi_from f i l) k = option_map (f (i + k)%nat) (nth_error l k).
Proof.
  induction l as [|x t IH]; intros i [|k]; simpl; auto.
  - rewrite Nat.add_0_r. reflexivity.
  - rewrite IH. f_equal. f_equal. lia.
Qed.

Definition abs_linked (lbls : list (option (nat * Z))) (rl : list reloc) (p : nat * nat) : Prop :=
  exists re, nth_error rl (snd p) = Some re /\ rl_type re = RelToAbs /\ rl_label re = fst p /\
             rl_payload re = wrap 64 (rl_addend re) /\ rl_target re = None /\ nth_error lbls (fst p) = Some None.

Definition abs_done (lbls : list (option (nat * Z))) (re : reloc) : Prop :=
  exists ls lo, nth_error lbls (rl_label re) = Some (Some (ls, lo)) /\
                rl_payload re = wrap 64 (rl_addend re + lo) /\ rl_target re = Some ls.

Record abs_inv (lbls : list (option (nat * Z))) (rl : list reloc) (pr : list (nat * nat)) : Prop := {
  ai_nodup : NoDup (map snd pr);
  ai_linked : forall p, In p pr -> abs_linked lbls rl p;
  ai_all : forall rid re, nth_error rl rid = Some re -> rl_type re = RelToAbs ->
             In (rl_label re, rid) pr \/ abs_done lbls re
}.

Definition absinv (s : state) : Prop := abs_inv (labels s) (relocs s) (pending_rel s).

Lemma abs_inv_mono a b rl pr :
  label_mono a b -> (forall l, nth_error a l = Some None -> In l (map fst pr) -> nth_error b l = Some None) ->
  abs_inv a rl pr -> abs_inv b rl pr.
Proof.
  intros M U [N L A]. constructor; auto.
  - intros p Hp. destruct (L p Hp) as (re & H1 & H2 & H3 & H4 & H5 & H6). exists re. repeat split; auto.
    apply U; [exact H6|]. apply in_map. exact Hp.
  - intros rid re H T. destruct (A rid re H T) as [X|(ls & lo & X & Y)]; [left; exact X|].
    right. exists ls, lo. split; [apply M; exact X|exact Y].
Qed.

Lemma rel_hit_true l prs rid : rel_hit l prs rid = true <-> In (l, rid) prs.
Proof.
  unfold rel_hit. rewrite existsb_exists. split.
  - intros ([a b] & Hin & H). simpl in H. apply andb_true_iff in H. destruct H as (H1 & H2).
    apply Nat.eqb_eq in H1. apply Nat.eqb_eq in H2. subst. exact Hin.
  - intros H. exists (l, rid). split; [exact H|]. simpl. rewrite !Nat.eqb_refl. reflexivity.
Qed.

Lemma nodup_snd_unique (pr : list (nat * nat)) a b rid : NoDup (map snd pr) -> In (a, rid) pr -> In (b, rid) pr -> a = b.
Proof.
  induction pr as [|[x y] t IH]; simpl; intros N H1 H2; [contradiction|].
  inversion N as [|? ? Hn N']; subst.
  destruct H1 as [E1|H1], H2 as [E2|H2].
  - congruence.
  - injection E1 as -> ->. exfalso. apply Hn. change rid with (snd (b, rid)). apply in_map. exact H2.
  - injection E2 as -> ->. exfalso. apply Hn. change rid with (snd (a, rid)). apply in_map. exact H1.
  - apply IH; assumption.
Qed.

Lemma nodup_map_filter {A B} (f : A -> B) (g : A -> bool) l : NoDup (map f l) -> NoDup (map f (filter g l)).
Proof.
  induction l as [|x t IH]; simpl; intros N; [constructor|]. inversion N as [|? ? Hn N']; subst.
  destruct (g x); simpl; [|apply IH; exact N'].
  constructor; [|apply IH; exact N']. intros H. apply Hn. apply in_map_iff in H. destruct H as (y & E & Hy).
  apply filter_In in Hy. apply in_map_iff. exists y. tauto.
Qed.

Lemma wrap_add_l a b : wrap 64 (wrap 64 a + b) = wrap 64 (a + b).
Proof. unfold wrap. apply Zplus_mod_idemp_l. Qed.

Theorem step_absinv s o : absinv s -> absinv (fst (step s o)).
Proof.
  unfold absinv. intros I. destruct o; simpl.
  - (* ONewLabel *) eapply abs_inv_mono; [apply label_mono_app| |exact I].
    intros l H _. rewrite nth_error_app1; [exact H|]. apply nth_error_Some. congruence.
  - exact I.
  - destruct (Nat.ltb k (length (secs s))); exact I.
  - exact I.
  - destruct (0 <=? n); exact I.
  - (* ORef *)
    destruct (nth_error (labels s) l) as [lb|]; [|exact I].
    destruct (hole_ok k w0); simpl; [|exact I].
    destruct lb as [[ls lo]|]; [|exact I].
    destruct (Nat.eqb ls (cur s)); [|exact I].
    destruct (write_offset _ _ _); exact I.
  - (* OBind *)
    destruct (nth_error (labels s) l) as [[v|]|] eqn:El; try exact I.
    destruct (bind_precheck l (cur s) (s_len (cur_sec s)) (pending s) (refs s)); cbn [negb]; cbv iota; [|exact I].
    unfold bind_rel. simpl. destruct I as [N L A].
    set (lbls' := upd (labels s) l (Some (cur s, s_len (cur_sec s)))).
    assert (M : label_mono (labels s) lbls') by (apply label_mono_upd; exact El).
    assert (Hl : nth_error lbls' l = Some (Some (cur s, s_len (cur_sec s)))) by (unfold lbls'; eapply nth_error_upd_eq; eauto).
    constructor.
    + apply nodup_map_filter. exact N.
    + intros [pl rid] Hp. apply filter_In in Hp. destruct Hp as (Hp & Hne). simpl in Hne.
      apply negb_true_iff in Hne. apply Nat.eqb_neq in Hne.
      destruct (L (pl, rid) Hp) as (re & H1 & H2 & H3 & H4 & H5 & H6). simpl in *.
      exists re. simpl. rewrite nth_error_mapi_from, H1. simpl.
      assert (Hh : rel_hit l (pending_rel s) rid = false).
      { destruct (rel_hit l (pending_rel s) rid) eqn:E; [|reflexivity]. apply rel_hit_true in E.
        exfalso. apply Hne. exact (nodup_snd_unique _ _ _ _ N Hp E). }
      rewrite Hh. repeat split; auto. unfold lbls'. rewrite nth_error_upd_neq by congruence. exact H6.
    + intros rid re' Hr T. rewrite nth_error_mapi_from in Hr. simpl in Hr.
      destruct (nth_error (relocs s) rid) as [re|] eqn:Er; [|discriminate]. simpl in Hr. injection Hr as <-.
      destruct (rel_hit l (pending_rel s) rid) eqn:Eh.
      * apply rel_hit_true in Eh. destruct (L _ Eh) as (re0 & H1 & H2 & H3 & H4 & H5 & H6). simpl in *.
        rewrite Er in H1. injection H1 as <-. right. exists (cur s), (s_len (cur_sec s)). simpl.
        rewrite H3. split; [exact Hl|]. split; [|reflexivity]. rewrite H4. apply wrap_add_l.
      * destruct (A rid re Er T) as [X|X].
        -- left. apply filter_In. split; [exact X|]. simpl. apply negb_true_iff. apply Nat.eqb_neq. intros E.
           rewrite E in X. apply rel_hit_true in X. congruence.
        -- right. destruct X as (ls & lo & X & Y). exists ls, lo. split; [apply M; exact X|exact Y].
  - (* OAbsRef *)
    destruct (nth_error (labels s) l) as [lb|] eqn:El; [|exact I].
    destruct (size_ok size); simpl; [|exact I].
    destruct I as [N L A].
    assert (Old : forall p, In p (pending_rel s) -> (snd p < length (relocs s))%nat).
    { intros p Hp. destruct (L p Hp) as (re & H1 & _). apply nth_error_Some. congruence. }
    assert (Keep : forall x p, In p (pending_rel s) -> abs_linked (labels s) (relocs s ++ [x]) p).
    { intros x p Hp. destruct (L p Hp) as (re & H1 & Rest). exists re. split; [|exact Rest].
      rewrite nth_error_app1; [exact H1|]. apply nth_error_Some. congruence. }
    destruct lb as [[ls lo]|]; simpl; constructor; simpl; auto.
    + intros rid re Hr T. apply nth_error_snoc_inv in Hr. destruct Hr as [Hr|(-> & ->)]; [exact (A rid re Hr T)|].
      right. exists ls, lo. simpl. auto.
    + constructor; [|exact N]. intros H. apply in_map_iff in H. destruct H as (p & E & Hp). apply Old in Hp. lia.
    + intros p [<-|Hp]; [|apply Keep; exact Hp].
      eexists. simpl. rewrite nth_error_app2, Nat.sub_diag by lia. simpl. split; [reflexivity|].
      repeat split; auto. rewrite Z.add_0_r. reflexivity.
    + intros rid re Hr T. apply nth_error_snoc_inv in Hr. destruct Hr as [Hr|(-> & ->)].
      * destruct (A rid re Hr T) as [X|X]; [left; right; exact X|right; exact X].
      * left. left. reflexivity.
  - (* ODelta *)
    destruct (nth_error (labels s) l) as [ll|]; [|exact I].
    destruct (nth_error (labels s) b) as [lb|]; [|exact I].
    destruct (size_ok size); simpl; [|exact I].
    destruct (match ll with Some (ls, lo) => _ | None => None end); simpl; [exact I|].
    destruct I as [N L A]. constructor; auto.
    + intros p Hp. destruct (L p Hp) as (re & H1 & Rest). exists re. split; [|exact Rest].
      rewrite nth_error_app1; [exact H1|]. apply nth_error_Some. congruence.
    + intros rid re Hr T. apply nth_error_snoc_inv in Hr. destruct Hr as [Hr|(-> & ->)]; [exact (A rid re Hr T)|].
      simpl in T. discriminate.
  - exact I.
  - (* ODeltaChecked *)
    destruct (nth_error (labels s) l) as [ll|]; [|exact I].
    destruct (nth_error (labels s) b) as [lb|]; [|exact I].
    destruct (size_ok size); simpl; [|exact I].
    destruct (match ll with Some (ls, lo) => _ | None => None end); simpl; [destruct (_ || _); exact I|].
    destruct I as [N L A]. constructor; auto.
    + intros p Hp. destruct (L p Hp) as (re & H1 & Rest). exists re. split; [|exact Rest].
      rewrite nth_error_app1; [exact H1|]. apply nth_error_Some. congruence.
    + intros rid re Hr T. apply nth_error_snoc_inv in Hr. destruct Hr as [Hr|(-> & ->)]; [exact (A rid re Hr T)|].
      simpl in T. discriminate.
Qed.

Lemma absinv_init : absinv init.
Proof.
  constructor; simpl.
  - constructor.
  - intros p [].
  - intros [|rid] re H; discriminate.
Qed.

Lemma run_absinv ops : forall s, absinv s -> absinv (run s ops).
Proof. induction ops as [|o t IH]; intros s I; simpl; [exact I|apply IH, step_absinv, I]. Qed.

(* every absolute reference, in every reachable state *)
Theorem abs_exact ops rid re :
  let s := run init ops in
  nth_error (relocs s) rid = Some re -> rl_type re = RelToAbs ->
  (In (rl_label re, rid) (pending_rel s) /\ nth_error (labels s) (rl_label re) = Some None /\ 0 < unresolved s) \/
  (exists ls lo, nth_error (labels s) (rl_label re) = Some (Some (ls, lo)) /\
                 rl_payload re = (rl_addend re + lo) mod 2 ^ 64 /\ rl_target re = Some ls).
Proof.
  intros s Hr T. pose proof (run_absinv ops init absinv_init) as I. fold s in I.
  destruct (ai_all _ _ _ I rid re Hr T) as [X|X]; [left|right; exact X].
  split; [exact X|]. destruct (ai_linked _ _ _ I _ X) as (re0 & _ & _ & _ & _ & _ & H6). simpl in H6. split; [exact H6|].
  pose proof (count_exact ops) as C. fold s in C. rewrite C.
  destruct (pending_rel s); [contradiction|]. rewrite zlen_cons.
  pose proof (zlen_nonneg (pending s)). pose proof (zlen_nonneg l). lia.
Qed.

(* C03 — the end-to-end statements: what a resolved reference decodes to (using the C17 codec theorems), that an
   unrepresentable displacement is never patched, label deltas, x86 short/long selection. *)
From Coq Require Import ZArith List Bool Lia.
From Verif Require Import Base.ZBits Codec.OffsetModel Codec.OffsetProofs Labels.LabelsModel Labels.LabelsProofs.
Import ListNotations.
Local Open Scope Z_scope.
Arguments zlen : simpl never.
Arguments bind_rel : simpl never.

(* ------------------------------------------------------------------ bits *)
Lemma sub_lor w0 m s b : 0 <= s -> 0 <= b -> (forall n, 0 <= n < b -> Z.testbit w0 (n + s) = false) ->
  ((Z.lor w0 m) / 2 ^ s) mod 2 ^ b = (m / 2 ^ s) mod 2 ^ b.
Proof.
  intros Hs Hb H. rewrite <- !Z.shiftr_div_pow2, <- !Z.land_ones by lia. apply Z.bits_inj'. intros n Hn.
  rewrite !Z.land_spec, !Z.shiftr_spec, Z.lor_spec by lia. destruct (Z_lt_le_dec n b).
  - rewrite H by lia. reflexivity.
  - rewrite Z.ones_spec_high by lia. rewrite !andb_false_r. reflexivity.
Qed.

Lemma mask_zero_bits w0 mask n : Z.land w0 mask = 0 -> 0 <= n -> Z.testbit mask n = true -> Z.testbit w0 n = false.
Proof.
  intros H Hn Hm. assert (X : Z.testbit (Z.land w0 mask) n = false) by (rewrite H; apply Z.bits_0).
  rewrite Z.land_spec, Hm, andb_true_r in X. exact X.
Qed.

Lemma land_lnot_id a mask : Z.land a mask = 0 -> Z.land a (Z.lnot mask) = a.
Proof.
  intros H. apply Z.bits_inj'. intros n Hn. rewrite Z.land_spec, Z.lnot_spec by lia.
  destruct (Z.testbit mask n) eqn:E.
  - rewrite (mask_zero_bits a mask n H Hn E). reflexivity.
  - apply andb_true_r.
Qed.

Lemma contig_mask_bits b s n : 0 <= s -> 0 <= n < b -> Z.testbit ((2 ^ b - 1) * 2 ^ s) (n + s) = true.
Proof.
  intros Hs Hn. rewrite Z.mul_pow2_bits by lia. replace (n + s - s) with n by lia.
  replace (2 ^ b - 1) with (Z.ones b) by (rewrite Z.ones_equiv; lia). apply Z.ones_spec_low. lia.
Qed.

Lemma adr_mask_eq : a64_adr_mask = Z.lor (Z.shiftl (Z.ones 2) 29) (Z.shiftl (Z.ones 19) 5).
Proof. vm_compute. reflexivity. Qed.

Lemma adr_mask_bits_lo n : 0 <= n < 19 -> Z.testbit a64_adr_mask (n + 5) = true.
Proof.
  intros H. rewrite adr_mask_eq, Z.lor_spec, !Z.shiftl_spec by lia.
  replace (n + 5 - 5) with n by lia. rewrite (Z.ones_spec_low 19) by lia. apply orb_true_r.
Qed.

Lemma adr_mask_bits_hi n : 0 <= n < 2 -> Z.testbit a64_adr_mask (n + 29) = true.
Proof.
  intros H. rewrite adr_mask_eq, Z.lor_spec, !Z.shiftl_spec by lia.
  replace (n + 29 - 29) with n by lia. rewrite (Z.ones_spec_low 2) by lia. reflexivity.
Qed.

Lemma to_i64_int64 x : int64 (to_i64 x).
Proof. unfold int64, to_i64. rewrite sext_is_sextz. apply (sextz_range 64 x). lia. Qed.

(* ------------------------------------------------------------------ every format the backends use decodes exactly *)
Definition signed_kind (k : refkind) : Prop := ty (fmt_of_kind k) = SignedOffset.

Lemma kind_cases k : (signed_kind k /\ wf_contig (fmt_of_kind k) /\ kind_mask k = field_mask (fmt_of_kind k)) \/
                     (is_adr_fmt (fmt_of_kind k) /\ kind_mask k = a64_adr_mask /\ (k = K_Adr \/ k = K_Adrp)).
Proof.
  destruct k; try (left; unfold signed_kind, wf_contig; simpl; repeat split; auto; lia);
    right; unfold is_adr_fmt; simpl; repeat split; auto; lia.
Qed.

Lemma hole_ok_spec k w0 : hole_ok k w0 = true -> 0 <= w0 /\ Z.land w0 (kind_mask k) = 0.
Proof.
  unfold hole_ok. rewrite !andb_true_iff. intros ((A & _) & C). apply Z.leb_le in A. apply Z.eqb_eq in C. auto.
Qed.

Theorem enc_decode k w0 m off :
  hole_ok k w0 = true -> int64 off -> encode_offset (fmt_of_kind k) off = Some m ->
  decode_kind k (Z.lor w0 m) = off /\ Z.land (Z.lor w0 m) (Z.lnot (kind_mask k)) = w0.
Proof.
  intros Hh Hoff He. apply hole_ok_spec in Hh. destruct Hh as (Hw0 & Hz).
  destruct (kind_cases k) as [(Hs & Hwf & Hm) | (Ha & Hm & Hk)].
  - pose proof (signed_roundtrip _ _ _ Hs Hwf Hoff He) as (Hdec & _ & _).
    pose proof (signed_spec _ off Hs Hwf Hoff) as Hsp. rewrite He in Hsp. destruct Hsp as (_ & Hmv).
    destruct Hwf as (_ & Hb & Hsh & _).
    set (f := fmt_of_kind k) in *.
    assert (Hout : Z.land m (Z.lnot (field_mask f)) = 0).
    { rewrite Hmv. unfold field_mask. apply contig_outside_clear; try lia. apply Z.mod_pos_bound. apply pow2_pos. lia. }
    split.
    + assert (Hd : decode_kind k (Z.lor w0 m) = decode_signed f (Z.lor w0 m)).
      { unfold f. destruct k; try reflexivity; unfold signed_kind in Hs; simpl in Hs; discriminate. }
      rewrite Hd, <- Hdec. unfold decode_signed, field_raw. f_equal. f_equal.
      apply sub_lor; try lia. intros n Hn. apply (mask_zero_bits w0 (kind_mask k)); [exact Hz|lia|].
      rewrite Hm. unfold field_mask. apply contig_mask_bits; lia.
    + rewrite Z.land_lor_distr_l, Hm, Hout, Z.lor_0_r. rewrite <- Hm. apply land_lnot_id. exact Hz.
  - pose proof (a64_adr_roundtrip _ _ _ Ha Hoff He) as (Hdec & _ & Hout).
    split.
    + assert (Hd : decode_kind k (Z.lor w0 m) = decode_a64_adr (Z.lor w0 m) * 2 ^ discard (fmt_of_kind k))
        by (destruct Hk as [-> | ->]; reflexivity).
      rewrite Hd, <- Hdec. f_equal. unfold decode_a64_adr. f_equal. f_equal; [f_equal|].
      * apply (sub_lor w0 m 5 19); try lia. intros n Hn. apply (mask_zero_bits w0 (kind_mask k)); [exact Hz|lia|].
        rewrite Hm. apply adr_mask_bits_lo. lia.
      * change 4 with (2 ^ 2). apply (sub_lor w0 m 29 2); try lia. intros n Hn.
        apply (mask_zero_bits w0 (kind_mask k)); [exact Hz|lia|]. rewrite Hm. apply adr_mask_bits_hi. lia.
    + rewrite Z.land_lor_distr_l, Hm, Hout, Z.lor_0_r. rewrite <- Hm. apply land_lnot_id. exact Hz.
Qed.

(* ------------------------------------------------------------------ runs without / with a final layout+resolve *)
Definition is_resolve (o : op) : bool := match o with OResolve _ => true | _ => false end.
Definition no_resolve (ops : list op) : Prop := forallb (fun o => negb (is_resolve o)) ops = true.

Definition lay_none (s : state) : Prop := forall id r, nth_error (refs s) id = Some r -> r_lay r = None.

Lemma run_app s a b : run s (a ++ b) = run (run s a) b.
Proof. revert s; induction a; intros s; simpl; auto. Qed.

Lemma step_lay_none s o : inv s -> lay_none s -> is_resolve o = false -> lay_none (fst (step s o)).
Proof.
  intros I Hl Ho. destruct o; try discriminate; simpl; try exact Hl.
  - destruct (Nat.ltb k (length (secs s))); exact Hl.
  - destruct (0 <=? n); exact Hl.
  - destruct (nth_error (labels s) l) as [lb|]; [|exact Hl].
    destruct (hole_ok k w0); simpl; [|exact Hl].
    assert (Q : forall r, r_lay r = None -> forall id r', nth_error (refs s ++ [r]) id = Some r' -> r_lay r' = None).
    { intros r Hr id r' H. apply nth_error_snoc_inv in H. destruct H as [H|(_ & ->)]; [eapply Hl; eauto|exact Hr]. }
    destruct lb as [[ls lo]|]; [|intros id r'; simpl; apply Q; reflexivity].
    destruct (Nat.eqb ls (cur s)); [|intros id r'; simpl; apply Q; reflexivity].
    destruct (write_offset _ _ _); simpl; [|exact Hl]. intros id r'; simpl; apply Q; reflexivity.
  - destruct (nth_error (labels s) l) as [[v|]|] eqn:El; try exact Hl.
    destruct (bind_precheck l (cur s) (s_len (cur_sec s)) (pending s) (refs s)); cbn [negb]; cbv iota; [|exact Hl].
    unfold bind_rel. simpl.
    set (lbls' := upd (labels s) l (Some (cur s, s_len (cur_sec s)))).
    assert (W : walk_post lbls' (bind_sel l (cur s) (s_len (cur_sec s))) (pending s) (refs s)
                  (resolve_list (bind_sel l (cur s) (s_len (cur_sec s))) true (pending s) (refs s))).
    { apply walk_inv; [|apply (inv_nodup _ _ _ _ _ I)|apply (inv_fx _ _ _ _ _ I)].
      apply bind_sel_sound. unfold lbls'. eapply nth_error_upd_eq; eauto. }
    intros id r' Hr. destruct (wp_lay _ _ _ _ _ W id r' Hr) as [H|(fx & lo & _ & _ & Hsel)]; [eapply Hl; eauto|].
    unfold bind_sel in Hsel. destruct (Nat.eqb (fx_label fx) l); [|discriminate].
    destruct (Nat.eqb (fx_sec fx) (cur s)); [|discriminate]. injection Hsel as <- _. reflexivity.
  - destruct (nth_error (labels s) l) as [lb|]; [|exact Hl].
    destruct (size_ok size); simpl; [|exact Hl]. destruct lb; exact Hl.
  - destruct (nth_error (labels s) l) as [ll|]; [|exact Hl].
    destruct (nth_error (labels s) b) as [lb|]; [|exact Hl].
    destruct (size_ok size); simpl; [|exact Hl].
    destruct (match ll with Some (ls, lo) => _ | None => None end); simpl; exact Hl.
  - destruct (nth_error (labels s) l) as [ll|]; [|exact Hl].
    destruct (nth_error (labels s) b) as [lb|]; [|exact Hl].
    destruct (size_ok size); simpl; [|exact Hl].
    destruct (match ll with Some (ls, lo) => _ | None => None end); simpl; [destruct (_ || _); exact Hl|exact Hl].
Qed.

Lemma run_lay_none ops : forall s, inv s -> lay_none s -> no_resolve ops -> lay_none (run s ops).
Proof.
  induction ops as [|o t IH]; intros s I Hl Hn; simpl; [exact Hl|].
  unfold no_resolve in Hn. simpl in Hn. apply andb_true_iff in Hn. destruct Hn as (Ho & Ht).
  apply negb_true_iff in Ho. apply IH; [apply step_inv; exact I|apply step_lay_none; assumption|exact Ht].
Qed.

(* the core fact: after `ops` (no resolve inside) followed by layout+resolve with section offsets `offs`, every reference
   that is not pending has a bound label and its word is the emitted word OR the encoding of exactly
   (offs[label section] + label offset) - (offs[section] + site) + addend *)
Definition final_disp (offs : list Z) (ls : nat) (lo : Z) (r : refrec) : Z :=
  to_i64 ((nth ls offs 0 + lo) - (nth (r_sec r) offs 0 + r_site r) + r_rel r).

Theorem resolved_final_enc ops offs id r :
  no_resolve ops ->
  let s := run init (ops ++ [OResolve offs]) in
  nth_error (refs s) id = Some r -> ~ In id (ids (pending s)) ->
  exists ls lo m, nth_error (labels s) (r_label r) = Some (Some (ls, lo)) /\
                  encode_offset (fmt_of_kind (r_kind r)) (final_disp offs ls lo r) = Some m /\
                  r_word r = Z.lor (r_w0 r) m /\ hole_ok (r_kind r) (r_w0 r) = true.
Proof.
  intros Hn s Hr Hp. subst s. rewrite run_app in *. simpl in *.
  set (s0 := run init ops) in *.
  assert (I0 : inv s0) by (apply run_inv, inv_init).
  assert (L0 : lay_none s0).
  { apply run_lay_none; [apply inv_init| |exact Hn]. intros [|i] r0 H; discriminate. }
  pose proof (step_inv s0 (OResolve offs) I0) as I1. simpl in I1.
  set (W := resolve_list (resolve_sel (labels s0) offs) false (pending s0) (refs s0)) in *.
  assert (WP : walk_post (labels s0) (resolve_sel (labels s0) offs) (pending s0) (refs s0) W).
  { apply walk_inv; [apply resolve_sel_sound|apply (inv_nodup _ _ _ _ _ I0)|apply (inv_fx _ _ _ _ _ I0)]. }
  destruct (inv_refs _ _ _ _ _ I1 id r Hr) as [X|(ls & lo & Hl & (m & He & Hw) & (Hw1 & Hw2))]; [contradiction|].
  pose proof (inv_hole _ _ _ _ _ I1 id r Hr) as Hh.
  exists ls, lo, m. split; [exact Hl|]. split; [|split; [exact Hw|exact Hh]].
  rewrite <- He. f_equal. unfold final_disp, disp.
  destruct (wp_lay _ _ _ _ _ WP id r Hr) as [H|(fx & lo' & Hin & Hid & Hsel)].
  - rewrite (L0 id r H) in *. specialize (Hw1 eq_refl). subst ls. simpl. f_equal. lia.
  - unfold resolve_sel in Hsel.
    destruct (nth_error (labels s0) (fx_label fx)) as [[[ls' lo'']|]|] eqn:El; try discriminate.
    destruct (_ || _); [discriminate|]. injection Hsel as Hlay Hlo.
    destruct (inv_fx _ _ _ _ _ I0 fx Hin) as (r0 & Hr0 & Hsec & _ & _ & _ & Hlab & _).
    destruct (wp_ghost _ _ _ _ _ WP id r Hr) as (r1 & Hr1 & (Gs & _ & _ & _ & Gl & _)).
    rewrite Hid in Hr0. rewrite Hr0 in Hr1. injection Hr1 as <-.
    assert (ls' = ls /\ lo'' = lo) as (-> & ->).
    { change (nth_error (labels s0) (r_label r) = Some (Some (ls, lo))) in Hl.
      rewrite Gl, Hlab, El in Hl. injection Hl as -> ->. auto. }
    rewrite <- Hlay. simpl. rewrite Gs, Hsec. reflexivity.
Qed.

Theorem resolved_exact ops offs id r :
  no_resolve ops ->
  let s := run init (ops ++ [OResolve offs]) in
  nth_error (refs s) id = Some r -> ~ In id (ids (pending s)) ->
  exists ls lo, nth_error (labels s) (r_label r) = Some (Some (ls, lo)) /\
                decode_kind (r_kind r) (r_word r) = final_disp offs ls lo r /\
                Z.land (r_word r) (Z.lnot (kind_mask (r_kind r))) = r_w0 r.
Proof.
  intros Hn s Hr Hp. destruct (resolved_final_enc ops offs id r Hn Hr Hp) as (ls & lo & m & Hl & He & Hw & Hh).
  exists ls, lo. split; [exact Hl|]. rewrite Hw. apply enc_decode; [exact Hh|apply to_i64_int64|exact He].
Qed.

(* a displacement the format cannot represent is never patched: the reference stays pending (and counted) *)
Theorem never_truncates_final ops offs id r ls lo :
  no_resolve ops ->
  let s := run init (ops ++ [OResolve offs]) in
  nth_error (refs s) id = Some r -> nth_error (labels s) (r_label r) = Some (Some (ls, lo)) ->
  encode_offset (fmt_of_kind (r_kind r)) (final_disp offs ls lo r) = None ->
  In id (ids (pending s)) /\ r_word r = r_w0 r /\ 0 < unresolved s.
Proof.
  intros Hn s Hr Hl He.
  assert (Hin : In id (ids (pending s))).
  { destruct (in_dec Nat.eq_dec id (ids (pending s))) as [H|H]; [exact H|exfalso].
    destruct (resolved_final_enc ops offs id r Hn Hr H) as (ls' & lo' & m & Hl' & He' & _).
    fold s in Hl'. rewrite Hl in Hl'. injection Hl' as <- <-. congruence. }
  split; [exact Hin|].
  assert (I : inv s) by (apply run_inv, inv_init).
  unfold ids in Hin. apply in_map_iff in Hin. destruct Hin as (fx & Hid & Hfx).
  destruct (inv_fx _ _ _ _ _ I fx Hfx) as (r0 & Hr0 & _ & _ & _ & _ & _ & Hword).
  rewrite Hid in Hr0. fold s in Hr. rewrite Hr in Hr0. injection Hr0 as <-. split; [exact Hword|].
  rewrite (inv_count _ _ _ _ _ I). destruct (pending s); [contradiction|].
  rewrite zlen_cons. pose proof (zlen_nonneg l). pose proof (zlen_nonneg (pending_rel s)). lia.
Qed.

(* same-section references, in EVERY reachable state (no layout needed) *)
Theorem never_truncates_same_section ops id r lo :
  let s := run init ops in
  nth_error (refs s) id = Some r -> nth_error (labels s) (r_label r) = Some (Some (r_sec r, lo)) ->
  encode_offset (fmt_of_kind (r_kind r)) (to_i64 (lo - r_site r + r_rel r)) = None ->
  In id (ids (pending s)).
Proof.
  intros s Hr Hl He.
  destruct (in_dec Nat.eq_dec id (ids (pending s))) as [H|H]; [exact H|exfalso].
  destruct (resolved_inv ops id r Hr H) as (ls' & lo' & Hl' & (m & He' & _) & (W1 & W2)).
  fold s in Hl'. rewrite Hl in Hl'. injection Hl' as <- <-.
  assert (E : disp (lay_so (r_lay r)) (lay_to (r_lay r)) lo (r_site r) (r_rel r) = to_i64 (lo - r_site r + r_rel r)).
  { unfold disp. destruct (r_lay r) as [[so to]|]; simpl.
    - rewrite (W2 so to eq_refl eq_refl). f_equal; lia.
    - f_equal; lia. }
  rewrite E in He'. congruence.
Qed.

Theorem resolved_same_section ops id r lo :
  let s := run init ops in
  nth_error (refs s) id = Some r -> ~ In id (ids (pending s)) ->
  nth_error (labels s) (r_label r) = Some (Some (r_sec r, lo)) ->
  decode_kind (r_kind r) (r_word r) = to_i64 (lo - r_site r + r_rel r) /\
  Z.land (r_word r) (Z.lnot (kind_mask (r_kind r))) = r_w0 r.
Proof.
  intros s Hr Hp Hl.
  destruct (resolved_inv ops id r Hr Hp) as (ls' & lo' & Hl' & (m & He' & Hw) & (W1 & W2)).
  fold s in Hl'. rewrite Hl in Hl'. injection Hl' as <- <-.
  assert (E : disp (lay_so (r_lay r)) (lay_to (r_lay r)) lo (r_site r) (r_rel r) = to_i64 (lo - r_site r + r_rel r)).
  { unfold disp. destruct (r_lay r) as [[so to]|]; simpl.
    - rewrite (W2 so to eq_refl eq_refl). f_equal; lia.
    - f_equal; lia. }
  rewrite E in He'. rewrite Hw.
  apply enc_decode; [|apply to_i64_int64|exact He'].
  exact (inv_hole _ _ _ _ _ (run_inv ops init inv_init) id r Hr).
Qed.

(* satisfiability of the hypotheses: a forward jump over a gap, bound later, then laid out *)
Example resolved_exact_witness :
  let ops := [ONewLabel; ORef K_Rel8 (-1) O [235] 0 []; OGap 100; OBind O] in
  let s := run init (ops ++ [OResolve [0]]) in
  no_resolve ops /\ pending s = [] /\ unresolved s = 0 /\
  exists r, nth_error (refs s) O = Some r /\ r_word r = 100 /\ decode_kind K_Rel8 (r_word r) = 100.
Proof. vm_compute. repeat split; try reflexivity. eexists. split; [reflexivity|]. split; reflexivity. Qed.

Example never_truncates_witness :
  let ops := [ONewLabel; ORef K_Rel8 (-1) O [235] 0 []; OGap 128; OBind O] in
  let s := run init (ops ++ [OResolve [0]]) in
  no_resolve ops /\ unresolved s = 1 /\ snd (step (run init [ONewLabel; ORef K_Rel8 (-1) O [235] 0 []; OGap 128]) (OBind O)) = EInvalidDisp /\
  exists r, nth_error (refs s) O = Some r /\ r_word r = 0.
Proof. vm_compute. repeat split; try reflexivity. eexists. split; reflexivity. Qed.

(* ------------------------------------------------------------------ reporting by bind: the error flag of the walk *)
Lemma walk_err_kept sel fie fxs rs : w_err (resolve_list sel fie fxs rs) = true -> w_kept (resolve_list sel fie fxs rs) <> [].
Proof.
  revert rs; induction fxs as [|fx t IH]; intros rs; simpl; [discriminate|].
  destruct (sel fx); try (unfold walk_keep; simpl; discriminate).
  destruct (nth_error rs (fx_id fx)); [|unfold walk_keep; simpl; discriminate].
  destruct (write_offset _ _ _); [|unfold walk_keep; simpl; discriminate].
  unfold walk_done; simpl. apply IH.
Qed.

Lemma precheck_false_nonempty l sec off fxs rs : bind_precheck l sec off fxs rs = false -> fxs <> [].
Proof. destruct fxs; [discriminate|discriminate]. Qed.

Theorem bind_error_means_pending s l :
  snd (step s (OBind l)) = EInvalidDisp -> pending (fst (step s (OBind l))) <> [].
Proof.
  simpl. destruct (nth_error (labels s) l) as [[v|]|]; simpl; try discriminate.
  destruct (bind_precheck l (cur s) (s_len (cur_sec s)) (pending s) (refs s)) eqn:Ep; cbn [negb]; cbv iota.
  - unfold bind_rel. simpl. destruct (w_err _) eqn:E; [|discriminate]. intros _. apply walk_err_kept in E. exact E.
  - simpl. intros _. eapply precheck_false_nonempty; eauto.
Qed.

(* after a successful pre-check the walk patches every same-section fixup of the label: it cannot report *)
Lemma walk_no_err l sec off : forall fxs rs,
  NoDup (ids fxs) -> (forall fx, In fx fxs -> fx_ok rs fx) -> bind_precheck l sec off fxs rs = true ->
  w_err (resolve_list (bind_sel l sec off) true fxs rs) = false.
Proof.
  induction fxs as [|fx t IH]; intros rs Hnd Hok Hp; [reflexivity|].
  assert (Hnd' : NoDup (ids t)) by (inversion Hnd; assumption).
  assert (Hnin : ~ In (fx_id fx) (ids t)) by (inversion Hnd; assumption).
  simpl in Hp. apply andb_true_iff in Hp. destruct Hp as (Hh & Ht).
  assert (Hok' : forall fx0, In fx0 t -> fx_ok rs fx0) by (intros; apply Hok; right; assumption).
  simpl. destruct (bind_sel l sec off fx) as [| |lay lo] eqn:Es.
  - unfold walk_keep; simpl. apply IH; assumption.
  - unfold bind_sel in Es. destruct (Nat.eqb (fx_label fx) l); [destruct (Nat.eqb (fx_sec fx) sec)|]; discriminate.
  - destruct (nth_error rs (fx_id fx)) as [r|] eqn:Er; [|unfold walk_keep; simpl; apply IH; assumption].
    destruct (write_offset _ _ _) as [w|] eqn:Ew; [|discriminate].
    unfold walk_done; simpl. apply IH; [exact Hnd'| |].
    + intros fx0 H. apply fx_ok_same with rs; [|apply Hok'; exact H].
      apply nth_error_upd_neq. intros E. apply Hnin. rewrite E. apply in_map. exact H.
    + (* the pre-check of the remaining fixups reads other references *)
      clear - Ht Hnin. revert Ht. unfold bind_precheck. induction t as [|fx0 t IH]; simpl; [auto|].
      intros H. apply andb_true_iff in H. destruct H as (A & B). apply andb_true_iff. split.
      * destruct (bind_sel l sec off fx0); auto.
        rewrite nth_error_upd_neq by (intros E; apply Hnin; left; symmetry; exact E). exact A.
      * apply IH; [|exact B]. intros X. apply Hnin. right. exact X.
Qed.

(* a refused bind is a no-op: the label stays unbound, every fixup stays pending, the counter is unchanged *)
Theorem bind_refused_no_change s l : inv s ->
  snd (step s (OBind l)) <> EOk -> fst (step s (OBind l)) = s.
Proof.
  intros I. simpl. destruct (nth_error (labels s) l) as [[v|]|]; simpl; try reflexivity.
  destruct (bind_precheck l (cur s) (s_len (cur_sec s)) (pending s) (refs s)) eqn:Ep; cbn [negb]; cbv iota; [|reflexivity].
  unfold bind_rel. simpl. rewrite (walk_no_err _ _ _ _ _ (inv_nodup _ _ _ _ _ I) (inv_fx _ _ _ _ _ I) Ep). congruence.
Qed.

(* and it is refused exactly when some same-section fixup of the label cannot be encoded *)
Theorem bind_refused_iff s l : nth_error (labels s) l = Some None ->
  (snd (step s (OBind l)) = EInvalidDisp /\ fst (step s (OBind l)) = s) \/
  bind_precheck l (cur s) (s_len (cur_sec s)) (pending s) (refs s) = true.
Proof.
  intros El. simpl. rewrite El. destruct (bind_precheck _ _ _ _ _); cbn [negb]; cbv iota; simpl; auto.
Qed.

(* an instruction that is refused leaves the state untouched *)
Theorem ref_error_no_change s k rel l pre w0 post :
  snd (step s (ORef k rel l pre w0 post)) <> EOk -> fst (step s (ORef k rel l pre w0 post)) = s.
Proof.
  simpl. destruct (nth_error (labels s) l) as [lb|]; [|reflexivity].
  destruct (hole_ok k w0); simpl; [|reflexivity].
  destruct lb as [[ls lo]|]; [|simpl; congruence].
  destruct (Nat.eqb ls (cur s)); [|simpl; congruence].
  destruct (write_offset _ _ _); simpl; [congruence|reflexivity].
Qed.

(* ------------------------------------------------------------------ label deltas *)
Theorem delta_immediate_exact s l b size ls lo bo :
  nth_error (labels s) l = Some (Some (ls, lo)) -> nth_error (labels s) b = Some (Some (ls, bo)) -> size_ok size = true ->
  step s (ODelta l b size) = (append_cur s [IRaw (le_split (Z.to_nat size) ((lo - bo) mod 2 ^ (8 * size)))] size, EOk).
Proof.
  intros Hl Hb Hs. simpl. rewrite Hl, Hb, Hs. simpl. rewrite Nat.eqb_refl. reflexivity.
Qed.

Theorem delta_expression_recorded s l b size ll lb :
  nth_error (labels s) l = Some ll -> nth_error (labels s) b = Some lb -> size_ok size = true ->
  (match ll, lb with Some (ls, _), Some (bs, _) => ls <> bs | _, _ => True end) ->
  let s' := fst (step s (ODelta l b size)) in
  snd (step s (ODelta l b size)) = EOk /\
  relocs s' = relocs s ++ [{| rl_type := Expr l b; rl_sec := cur s; rl_off := s_len (cur_sec s); rl_lead := 0; rl_size := size;
                              rl_trail := 0; rl_payload := 0; rl_target := None; rl_label := l; rl_addend := 0 |}] /\
  unresolved s' = unresolved s.
Proof.
  intros Hl Hb Hs Hd. simpl. rewrite Hl, Hb, Hs. simpl.
  destruct ll as [[ls lo]|], lb as [[bs bo]|]; simpl; auto.
  destruct (Nat.eqb ls bs) eqn:E; [apply Nat.eqb_eq in E; contradiction|]. simpl. auto.
Qed.

(* KNOWN FINDING of the pinned tree (faithful model): the immediate path emits a delta that does not fit without reporting *)
Theorem delta_truncated_refuted :
  exists ops l b lo bo,
    let s := run init ops in
    nth_error (labels s) l = Some (Some (O, lo)) /\ nth_error (labels s) b = Some (Some (O, bo)) /\
    ~ (- 2 ^ 7 <= lo - bo < 2 ^ 8) /\
    step s (ODelta l b 1) = (append_cur s [IRaw [(lo - bo) mod 2 ^ 8]] 1, EOk).
Proof.
  exists [ONewLabel; ONewLabel; OBind O; OGap 300; OBind 1%nat], 1%nat, O, 300, 0.
  vm_compute. repeat split; try reflexivity. intros (_ & H). discriminate H.
Qed.

(* ------------------------------------------------------------------ x86 short/long selection (EmitJmpCallRel) *)
Theorem form_short_fits h8 h32 fs fl s8 s32 ip tgt :
  x86_branch_form h8 h32 fs fl s8 s32 ip tgt = Some FShort ->
  - 128 <= tgt - (ip + s8) < 128 /\ h8 = true /\ fl = false.
Proof.
  unfold x86_branch_form.
  destruct ((-128 <=? tgt - (ip + s8)) && (tgt - (ip + s8) <? 128) && h8 && negb fl) eqn:E.
  - intros _. rewrite !andb_true_iff in E. destruct E as (((A & B) & C) & D).
    apply Z.leb_le in A. apply Z.ltb_lt in B. apply negb_true_iff in D. auto.
  - destruct (negb h32 || fs); discriminate.
Qed.

Theorem form_long_available h8 h32 fs fl s8 s32 ip tgt :
  x86_branch_form h8 h32 fs fl s8 s32 ip tgt = Some FLong -> h32 = true /\ fs = false.
Proof.
  unfold x86_branch_form. destruct (_ && negb fl); [discriminate|].
  destruct h32, fs; simpl; try discriminate; auto.
Qed.

Theorem form_none_justified h8 h32 fs fl s8 s32 ip tgt :
  x86_branch_form h8 h32 fs fl s8 s32 ip tgt = None ->
  (h32 = false \/ fs = true) /\ (~ (- 128 <= tgt - (ip + s8) < 128) \/ h8 = false \/ fl = true).
Proof.
  unfold x86_branch_form.
  destruct ((-128 <=? tgt - (ip + s8)) && (tgt - (ip + s8) <? 128) && h8 && negb fl) eqn:E; [discriminate|].
  destruct h32, fs; simpl; try discriminate; intros _; (split; [auto|]);
    rewrite !andb_false_iff in E; destruct E as [[[A|B]|C]|D];
      try (apply Z.leb_gt in A; left; lia); try (apply Z.ltb_ge in B; left; lia); try (right; left; exact C);
      try (apply negb_false_iff in D; right; right; exact D).
Qed.

(* ------------------------------------------------------------------ x86-64 [rip + label + disp], label bound in this section *)
Lemma sext32_id x : - 2 ^ 31 <= x < 2 ^ 31 -> sext 32 x = x.
Proof.
  intros H. rewrite sext_is_sextz. rewrite <- (sextz_of_mod 32 x) at 2 by lia.
  unfold sextz. rewrite Z.mod_mod by lia. reflexivity.
Qed.

Theorem x64_rip_field_exact disp imm lo hole :
  (- 2 ^ 31 <= disp - (4 + imm) < 2 ^ 31) -> (- 2 ^ 31 <= lo - hole < 2 ^ 31) ->
  (- 2 ^ 31 <= lo + disp - (hole + 4 + imm) < 2 ^ 31) ->
  x64_rip_field disp imm lo hole = lo + disp - (hole + 4 + imm).
Proof.
  intros H1 H2 H3. unfold x64_rip_field. rewrite (sext32_id _ H1), (sext32_id _ H2). rewrite sext32_id by lia. lia.
Qed.

(* KNOWN FINDING (faithful model): an addend close to -2^31 wraps silently instead of being reported *)
Theorem x64_rip_wrap_refuted :
  exists disp imm lo hole,
    (- 2 ^ 31 <= disp < 2 ^ 31) /\ (0 <= lo <= hole) /\
    ~ (- 2 ^ 31 <= lo + disp - (hole + 4 + imm) < 2 ^ 31) /\
    x64_rip_field disp imm lo hole <> lo + disp - (hole + 4 + imm).
Proof.
  exists (- 2 ^ 31), 0, 0, 19. vm_compute. repeat split; try discriminate. intros (H & _). apply H. reflexivity.
Qed.

(* ------------------------------------------------------------------ any interleaving of layouts (several Flatten/ResolveCross), stable offsets *)
Definition resolves_with (offs : list Z) (ops : list op) : Prop :=
  forall o, In o ops -> is_resolve o = true -> o = OResolve offs.

Definition lay_ok (offs : list Z) (s : state) : Prop :=
  forall id r so to, nth_error (refs s) id = Some r -> r_lay r = Some (so, to) ->
    exists ls lo, nth_error (labels s) (r_label r) = Some (Some (ls, lo)) /\ so = nth (r_sec r) offs 0 /\ to = nth ls offs 0.

Lemma step_label_mono s o : label_mono (labels s) (labels (fst (step s o))).
Proof.
  destruct o; simpl; try (intros ? ? X; exact X).
  - apply label_mono_app.
  - destruct (Nat.ltb k (length (secs s))); intros ? ? X; exact X.
  - destruct (0 <=? n); intros ? ? X; exact X.
  - destruct (nth_error (labels s) l) as [lb|]; [|intros ? ? X; exact X].
    destruct (hole_ok k w0); simpl; [|intros ? ? X; exact X].
    destruct lb as [[ls lo]|]; [|intros ? ? X; exact X].
    destruct (Nat.eqb ls (cur s)); [|intros ? ? X; exact X].
    destruct (write_offset _ _ _); intros ? ? X; exact X.
  - destruct (nth_error (labels s) l) as [[v|]|] eqn:El; try (intros ? ? X; exact X).
    destruct (bind_precheck l (cur s) (s_len (cur_sec s)) (pending s) (refs s)); cbn [negb]; cbv iota; [|intros ? ? X; exact X].
    unfold bind_rel. simpl. apply label_mono_upd. exact El.
  - destruct (nth_error (labels s) l) as [lb|]; [|intros ? ? X; exact X].
    destruct (size_ok size); simpl; [|intros ? ? X; exact X]. destruct lb; intros ? ? X; exact X.
  - destruct (nth_error (labels s) l) as [ll|]; [|intros ? ? X; exact X].
    destruct (nth_error (labels s) b) as [lb|]; [|intros ? ? X; exact X].
    destruct (size_ok size); simpl; [|intros ? ? X; exact X].
    destruct (match ll with Some (ls, lo) => _ | None => None end); simpl; intros ? ? X; exact X.
  - destruct (nth_error (labels s) l) as [ll|]; [|intros ? ? X; exact X].
    destruct (nth_error (labels s) b) as [lb|]; [|intros ? ? X; exact X].
    destruct (size_ok size); simpl; [|intros ? ? X; exact X].
    destruct (match ll with Some (ls, lo) => _ | None => None end); simpl; [destruct (_ || _)|]; intros ? ? X; exact X.
Qed.

(* what an operation can do to the ghost layout of a reference *)
Lemma step_lay_change s o : inv s ->
  forall id r', nth_error (refs (fst (step s o))) id = Some r' ->
    nth_error (refs s) id = Some r' \/ r_lay r' = None \/
    (exists offs ls lo, o = OResolve offs /\ nth_error (labels s) (r_label r') = Some (Some (ls, lo)) /\
                        r_lay r' = Some (nth (r_sec r') offs 0, nth ls offs 0)).
Proof.
  intros I. destruct o; simpl; try (intros id r' H; left; exact H).
  - destruct (Nat.ltb k (length (secs s))); intros id r' H; left; exact H.
  - destruct (0 <=? n); intros id r' H; left; exact H.
  - destruct (nth_error (labels s) l) as [lb|]; [|intros id r' H; left; exact H].
    destruct (hole_ok k w0); simpl; [|intros id r' H; left; exact H].
    assert (Q : forall r, r_lay r = None -> forall id r', nth_error (refs s ++ [r]) id = Some r' ->
                nth_error (refs s) id = Some r' \/ r_lay r' = None \/
                (exists offs ls lo, ORef k rel l pre w0 post = OResolve offs /\ nth_error (labels s) (r_label r') = Some (Some (ls, lo)) /\
                                    r_lay r' = Some (nth (r_sec r') offs 0, nth ls offs 0))).
    { intros r Hr id r' H. apply nth_error_snoc_inv in H. destruct H as [H|(_ & ->)]; [left; exact H|right; left; exact Hr]. }
    destruct lb as [[ls lo]|]; [|intros id r'; simpl; apply Q; reflexivity].
    destruct (Nat.eqb ls (cur s)); [|intros id r'; simpl; apply Q; reflexivity].
    destruct (write_offset _ _ _); simpl; [|intros id r' H; left; exact H]. intros id r'; simpl; apply Q; reflexivity.
  - destruct (nth_error (labels s) l) as [[v|]|] eqn:El; try (intros id r' H; left; exact H).
    destruct (bind_precheck l (cur s) (s_len (cur_sec s)) (pending s) (refs s)); cbn [negb]; cbv iota; [|intros id r' H; left; exact H].
    unfold bind_rel. simpl.
    set (lbls' := upd (labels s) l (Some (cur s, s_len (cur_sec s)))).
    assert (W : walk_post lbls' (bind_sel l (cur s) (s_len (cur_sec s))) (pending s) (refs s)
                  (resolve_list (bind_sel l (cur s) (s_len (cur_sec s))) true (pending s) (refs s))).
    { apply walk_inv; [|apply (inv_nodup _ _ _ _ _ I)|apply (inv_fx _ _ _ _ _ I)].
      apply bind_sel_sound. unfold lbls'. eapply nth_error_upd_eq; eauto. }
    intros id r' Hr. destruct (wp_lay _ _ _ _ _ W id r' Hr) as [H|(fx & lo & _ & _ & Hsel)]; [left; exact H|].
    right. left. unfold bind_sel in Hsel. destruct (Nat.eqb (fx_label fx) l); [|discriminate].
    destruct (Nat.eqb (fx_sec fx) (cur s)); [|discriminate]. injection Hsel as <- _. reflexivity.
  - destruct (nth_error (labels s) l) as [lb|]; [|intros id r' H; left; exact H].
    destruct (size_ok size); simpl; [|intros id r' H; left; exact H]. destruct lb; intros id r' H; left; exact H.
  - destruct (nth_error (labels s) l) as [ll|]; [|intros id r' H; left; exact H].
    destruct (nth_error (labels s) b) as [lb|]; [|intros id r' H; left; exact H].
    destruct (size_ok size); simpl; [|intros id r' H; left; exact H].
    destruct (match ll with Some (ls, lo) => _ | None => None end); simpl; intros id r' H; left; exact H.
  - set (W := resolve_list (resolve_sel (labels s) offs) false (pending s) (refs s)).
    assert (WP : walk_post (labels s) (resolve_sel (labels s) offs) (pending s) (refs s) W).
    { apply walk_inv; [apply resolve_sel_sound|apply (inv_nodup _ _ _ _ _ I)|apply (inv_fx _ _ _ _ _ I)]. }
    intros id r' Hr. destruct (wp_lay _ _ _ _ _ WP id r' Hr) as [H|(fx & lo' & Hin & Hid & Hsel)]; [left; exact H|].
    right. right. unfold resolve_sel in Hsel.
    destruct (nth_error (labels s) (fx_label fx)) as [[[ls' lo'']|]|] eqn:El; try discriminate.
    destruct (_ || _); [discriminate|]. injection Hsel as Hlay Hlo.
    destruct (inv_fx _ _ _ _ _ I fx Hin) as (r0 & Hr0 & Hsec & _ & _ & _ & Hlab & _).
    destruct (wp_ghost _ _ _ _ _ WP id r' Hr) as (r1 & Hr1 & (Gs & _ & _ & _ & Gl & _)).
    rewrite Hid in Hr0. rewrite Hr0 in Hr1. injection Hr1 as <-.
    exists offs, ls', lo''. split; [reflexivity|]. rewrite Gl, Hlab, Gs, Hsec. split; [exact El|]. symmetry. exact Hlay.
  - destruct (nth_error (labels s) l) as [ll|]; [|intros id r' H; left; exact H].
    destruct (nth_error (labels s) b) as [lb|]; [|intros id r' H; left; exact H].
    destruct (size_ok size); simpl; [|intros id r' H; left; exact H].
    destruct (match ll with Some (ls, lo) => _ | None => None end); simpl; [destruct (_ || _)|]; intros id r' H; left; exact H.
Qed.

Lemma step_lay_ok offs s o : inv s -> lay_ok offs s -> (is_resolve o = true -> o = OResolve offs) -> lay_ok offs (fst (step s o)).
Proof.
  intros I L Ho id r so to Hr Hlay.
  destruct (step_lay_change s o I id r Hr) as [H|[H|(offs' & ls & lo & -> & Hl & Hl')]].
  - destruct (L id r so to H Hlay) as (ls & lo & X & Y). exists ls, lo. split; [apply (step_label_mono s o); exact X|exact Y].
  - congruence.
  - specialize (Ho eq_refl). injection Ho as ->. rewrite Hlay in Hl'. injection Hl' as -> ->.
    exists ls, lo. split; [apply (step_label_mono s (OResolve offs)); exact Hl|auto].
Qed.

Lemma run_lay_ok offs ops : forall s, inv s -> lay_ok offs s -> resolves_with offs ops -> lay_ok offs (run s ops).
Proof.
  induction ops as [|o t IH]; intros s I L R; simpl; [exact L|].
  apply IH; [apply step_inv; exact I|apply step_lay_ok; [exact I|exact L|intros H; apply R; [left; reflexivity|exact H]]|].
  intros o' Hin. apply R. right. exact Hin.
Qed.

(* the full statement: ANY operation list, any number of layouts anywhere in it, as long as they report the same section offsets *)
Theorem resolved_exact_stable ops offs id r :
  resolves_with offs ops ->
  let s := run init ops in
  nth_error (refs s) id = Some r -> ~ In id (ids (pending s)) ->
  exists ls lo, nth_error (labels s) (r_label r) = Some (Some (ls, lo)) /\
                decode_kind (r_kind r) (r_word r) = final_disp offs ls lo r /\
                Z.land (r_word r) (Z.lnot (kind_mask (r_kind r))) = r_w0 r /\
                (ls <> r_sec r -> exists so to, r_lay r = Some (so, to)).
Proof.
  intros R s Hr Hp.
  assert (I : inv s) by (apply run_inv, inv_init).
  assert (L : lay_ok offs s).
  { apply run_lay_ok; [apply inv_init| |exact R]. intros [|i] r0 so to H; discriminate. }
  destruct (resolved_inv ops id r Hr Hp) as (ls & lo & Hl & (m & He & Hw) & (W1 & W2)).
  pose proof (inv_hole _ _ _ _ _ I id r Hr) as Hh.
  exists ls, lo. split; [exact Hl|].
  assert (E : disp (lay_so (r_lay r)) (lay_to (r_lay r)) lo (r_site r) (r_rel r) = final_disp offs ls lo r).
  { unfold disp, final_disp. destruct (r_lay r) as [[so to]|] eqn:El; simpl.
    - destruct (L id r so to Hr El) as (ls' & lo' & Hl' & -> & ->). fold s in Hl. rewrite Hl in Hl'. injection Hl' as <- <-. reflexivity.
    - rewrite (W1 eq_refl). f_equal; lia. }
  rewrite E in He. rewrite Hw.
  destruct (enc_decode _ _ _ _ Hh (to_i64_int64 _) He) as (D1 & D2).
  split; [exact D1|]. split; [exact D2|].
  intros Hne. destruct (r_lay r) as [[so to]|]; [eauto|]. exfalso. apply Hne. apply W1. reflexivity.
Qed.

(* order irrelevance: two programs whose reference logs (site, format, addend, label, emitted word) and final label tables agree -
   i.e. that differ only in WHEN labels were bound / layouts were requested and in the interleaving of the sections - leave the same word
   in every resolved reference *)
Definition ghost_of (r : refrec) := (r_sec r, r_site r, r_rel r, r_kind r, r_label r, r_w0 r).

Theorem order_irrelevant ops1 ops2 offs id r1 r2 :
  resolves_with offs ops1 -> resolves_with offs ops2 ->
  let s1 := run init ops1 in let s2 := run init ops2 in
  labels s1 = labels s2 ->
  nth_error (refs s1) id = Some r1 -> nth_error (refs s2) id = Some r2 -> ghost_of r1 = ghost_of r2 ->
  ~ In id (ids (pending s1)) -> ~ In id (ids (pending s2)) ->
  r_word r1 = r_word r2.
Proof.
  intros R1 R2 s1 s2 HL H1 H2 HG P1 P2.
  assert (F : forall ops r, resolves_with offs ops -> nth_error (refs (run init ops)) id = Some r -> ~ In id (ids (pending (run init ops))) ->
            exists ls lo m, nth_error (labels (run init ops)) (r_label r) = Some (Some (ls, lo)) /\
                            encode_offset (fmt_of_kind (r_kind r)) (final_disp offs ls lo r) = Some m /\ r_word r = Z.lor (r_w0 r) m).
  { intros ops r R Hr Hp.
    assert (I : inv (run init ops)) by (apply run_inv, inv_init).
    assert (L : lay_ok offs (run init ops)).
    { apply run_lay_ok; [apply inv_init| |exact R]. intros [|i] r0 so to H; discriminate. }
    destruct (resolved_inv ops id r Hr Hp) as (ls & lo & Hl & (m & He & Hw) & (W1 & W2)).
    exists ls, lo, m. split; [exact Hl|]. split; [|exact Hw]. rewrite <- He. f_equal.
    unfold disp, final_disp. destruct (r_lay r) as [[so to]|] eqn:El; simpl.
    - destruct (L id r so to Hr El) as (ls' & lo' & Hl' & -> & ->). rewrite Hl in Hl'. injection Hl' as <- <-. reflexivity.
    - rewrite (W1 eq_refl). f_equal; lia. }
  destruct (F ops1 r1 R1 H1 P1) as (ls1 & lo1 & m1 & L1 & E1 & W1).
  destruct (F ops2 r2 R2 H2 P2) as (ls2 & lo2 & m2 & L2 & E2 & W2).
  unfold ghost_of in HG. injection HG as Gs Gsite Grel Gk Gl Gw.
  fold s1 in L1. fold s2 in L2. rewrite HL, Gl, L2 in L1. injection L1 as <- <-.
  unfold final_disp in E1, E2. rewrite Gs, Gsite, Grel, Gk, E2 in E1. injection E1 as <-.
  rewrite W1, W2, Gw. reflexivity.
Qed.

(* ------------------------------------------------------------------ embed_label_delta with the range check (fixes/C03-label-delta-range.patch) *)
Theorem delta_checked_never_truncates s l b size ls lo bo :
  nth_error (labels s) l = Some (Some (ls, lo)) -> nth_error (labels s) b = Some (Some (ls, bo)) -> size_ok size = true ->
  (snd (step s (ODeltaChecked l b size)) = EOk /\
   fst (step s (ODeltaChecked l b size)) = append_cur s [IRaw (le_split (Z.to_nat size) ((lo - bo) mod 2 ^ (8 * size)))] size /\
   (size = 8 \/ - 2 ^ (8 * size - 1) <= lo - bo < 2 ^ (8 * size - 1))) \/
  (step s (ODeltaChecked l b size) = (s, EInvalidDisp) /\ size <> 8 /\ ~ (- 2 ^ (8 * size - 1) <= lo - bo < 2 ^ (8 * size - 1))).
Proof.
  intros Hl Hb Hs. unfold step. rewrite Hl, Hb, Hs. cbv beta iota. cbn [negb]. cbv beta iota. rewrite Nat.eqb_refl. cbv beta iota.
  destruct (size =? 8) eqn:E8; cbn [orb fst snd].
  - left. apply Z.eqb_eq in E8. split; [reflexivity|split; [reflexivity|left; exact E8]].
  - apply Z.eqb_neq in E8.
    destruct ((- 2 ^ (8 * size - 1) <=? lo - bo) && (lo - bo <? 2 ^ (8 * size - 1))) eqn:E.
    + left. apply andb_true_iff in E. destruct E as (A & B). apply Z.leb_le in A. apply Z.ltb_lt in B.
      split; [reflexivity|split; [reflexivity|right; lia]].
    + right. split; [reflexivity|]. split; [exact E8|]. intros (A & B). apply andb_false_iff in E.
      destruct E as [E|E]; [apply Z.leb_gt in E|apply Z.ltb_ge in E]; lia.
Qed.

(* C03 — the property in architectural terms for x86 (both modes), through C01's PROVEN decoder (X86Model.sdec, round trip sdec_senc) and
   the `designated` reading of Reloc/X86Meaning.v: after ANY label program, an instruction whose rel32 immediate / RIP-relative disp32 is
   the word of a resolved label reference designates - when executed at its flattened position - the address where the label was bound
   (plus the operand's own displacement for a memory operand).  The reference's addend `r_rel` is the distance from the end of the
   instruction back to the field, as EmitJmpCall / EmitModSib record it (-4 for a trailing rel32, -(4 + size of the trailing immediate)
   for a RIP-relative operand followed by an immediate; plus the operand's displacement). *)
From Coq Require Import ZArith List Bool Lia.
From Verif Require Import Base.ZBits Codec.OffsetModel Codec.OffsetProofs Labels.LabelsModel Labels.LabelsProofs Labels.LabelsExact
  Labels.FlatModel Labels.FlatLemmas Labels.FlatProofs Labels.A64RefMeaning Reloc.RelocModel Reloc.RelocProofs Reloc.X86Meaning.
From Verif Require Import X86.X86Model X86.X86Proofs.
Import ListNotations.
Local Open Scope Z_scope.

(* the 4-byte word of a resolved rel32 reference emitted with a zero hole: its signed reading is the final displacement *)
Lemma rel32_word ops offs id r :
  resolves_with offs ops ->
  nth_error (refs (run init ops)) id = Some r -> ~ In id (ids (pending (run init ops))) ->
  r_kind r = K_Rel32 -> r_w0 r = 0 ->
  exists ls lo, nth_error (labels (run init ops)) (r_label r) = Some (Some (ls, lo)) /\
                0 <= r_word r < 2 ^ 32 /\ sext32 (r_word r) = final_disp offs ls lo r.
Proof.
  intros R Hr Hp Hk Hw0.
  destruct (resolved_enc_stable ops offs id r R Hr Hp) as (ls & lo & m & Hl & He & Hw & Hh).
  exists ls, lo. split; [exact Hl|].
  rewrite Hk in He, Hh. rewrite Hw0 in Hw, Hh. rewrite Z.lor_0_l in Hw.
  assert (Hs : ty (fmt_of_kind K_Rel32) = SignedOffset) by reflexivity.
  assert (Hc : wf_contig (fmt_of_kind K_Rel32)) by (unfold wf_contig; simpl; repeat split; auto; lia).
  pose proof (signed_spec _ (final_disp offs ls lo r) Hs Hc (to_i64_int64 _)) as Hsp. rewrite He in Hsp. destruct Hsp as (_ & Hm).
  cbn [fmt_of_kind bits shift discard] in Hm. change (2 ^ 0) with 1 in Hm. rewrite Z.div_1_r, Z.mul_1_r in Hm.
  assert (Hrange : 0 <= r_word r < 2 ^ 32) by (rewrite Hw, Hm; apply Z.mod_pos_bound; lia).
  split; [exact Hrange|].
  destruct (enc_decode K_Rel32 0 m _ Hh (to_i64_int64 _) He) as (Hd & _). rewrite Z.lor_0_l in Hd. rewrite <- Hw in Hd.
  transitivity (decode_kind K_Rel32 (r_word r)); [symmetry; apply decode_rel32_word; exact Hrange|exact Hd].
Qed.

(* call / jmp / jcc rel32 to a label *)
Theorem x86_branch_reference_meaning ops offs id r (m : mode) sh s c xr xx xb xr' rest :
  resolves_with offs ops ->
  let st := run init ops in
  nth_error (refs st) id = Some r -> ~ In id (ids (pending st)) ->
  r_kind r = K_Rel32 -> r_w0 r = 0 -> r_rel r = -4 ->
  s_modrm s = MNone xr xx xb xr' -> s_imm s = r_word r -> wf m sh s = true -> adm m sh s c = true ->
  let len := Z.of_nat (length (senc m sh s c)) in
  let pc := nth (r_sec r) offs 0 + r_site r + 4 - len in      (* the instruction starts here: the field is its last four bytes *)
  exists ls lo, nth_error (labels st) (r_label r) = Some (Some (ls, lo)) /\
    site_target m CBranch sh pc (senc m sh s c ++ rest) = Some ((nth ls offs 0 + lo) mod 2 ^ abits m).
Proof.
  intros R st Hr Hp Hk Hw0 Hrel Hm Hi Hwf Hadm len pc.
  destruct (rel32_word ops offs id r R Hr Hp Hk Hw0) as (ls & lo & Hl & Hrange & Hsx).
  exists ls, lo. split; [exact Hl|].
  unfold site_target. rewrite (sdec_senc m sh s c rest Hwf Hadm). unfold designated. rewrite Hm, Hi, Hsx. f_equal.
  unfold final_disp. rewrite Hrel. fold len.
  destruct m; cbn [abits is64].
  - (* 32-bit: the sum wraps at 2^32; to_i64 x = x modulo 2^64, hence modulo 2^32 *)
    rewrite <- (Zplus_mod_idemp_r (to_i64 _)), to_i64_mod32, Zplus_mod_idemp_r. f_equal. unfold pc. lia.
  - rewrite add_to_i64_mod. f_equal. unfold pc. lia.
Qed.

(* x86-64 `[rip + label + d]` memory operand (lea / mov / add ... with or without a trailing immediate): `tail` = distance from the start
   of the disp32 field to the end of the instruction (4 + size of the trailing immediate); EmitModSib records the addend d - tail *)
Theorem x86_rip_reference_meaning ops offs id r sh s c reg rest tail :
  resolves_with offs ops ->
  let st := run init ops in
  nth_error (refs st) id = Some r -> ~ In id (ids (pending st)) ->
  r_kind r = K_Rel32 -> r_w0 r = 0 ->
  s_modrm s = MMem reg (mkM BRip None 0 (sext32 (r_word r))) -> wf M64 sh s = true -> adm M64 sh s c = true ->
  let len := Z.of_nat (length (senc M64 sh s c)) in
  let pc := nth (r_sec r) offs 0 + r_site r + tail - len in
  exists ls lo, nth_error (labels st) (r_label r) = Some (Some (ls, lo)) /\
    site_target M64 CMem sh pc (senc M64 sh s c ++ rest) = Some ((nth ls offs 0 + lo + (r_rel r + tail)) mod 2 ^ 64).
Proof.
  intros R st Hr Hp Hk Hw0 Hm Hwf Hadm len pc.
  destruct (rel32_word ops offs id r R Hr Hp Hk Hw0) as (ls & lo & Hl & Hrange & Hsx).
  exists ls, lo. split; [exact Hl|].
  unfold site_target. rewrite (sdec_senc M64 sh s c rest Hwf Hadm). unfold designated. rewrite Hm. cbn [m_base m_index m_disp].
  rewrite Hsx. f_equal. unfold final_disp. fold len. rewrite add_to_i64_mod. f_equal. unfold pc. lia.
Qed.

(* satisfiability: `nop; jmp L; <100 bytes>; L:` and `nop; lea rax, [rip + L]; <100 bytes>; L:` in one section laid out at 0 *)
Definition ex_pfx : prefixes := {| p_lock := false; p_f2 := false; p_f3 := false; p_66 := false; p_67 := false; p_seg := 0 |}.
Definition ex_jmp (imm : Z) : sinst :=
  {| s_pfx := ex_pfx; s_kind := KLeg; s_rex := false; s_W := false; s_vvvv := 0; s_V' := false; s_L := 0; s_pp := 0; s_map := 0;
     s_opc := 233; s_aaa := 0; s_z := false; s_b := false; s_modrm := MNone false false false false; s_imm := imm |}.
Definition ex_lea (disp : Z) : sinst :=
  {| s_pfx := ex_pfx; s_kind := KLeg; s_rex := true; s_W := true; s_vvvv := 0; s_V' := false; s_L := 0; s_pp := 0; s_map := 0;
     s_opc := 141; s_aaa := 0; s_z := false; s_b := false; s_modrm := MMem 0 (mkM BRip None 0 disp); s_imm := 0 |}.

Example x86_branch_reference_meaning_witness :
  let ops := [ONewLabel; ORaw [144]; ORef K_Rel32 (-4) O [233] 0 []; OGap 100; OBind O; OResolve [0]] in
  let st := run init ops in let sh := mkSh false false 4 1 in let c := mkC false 0 false in
  resolves_with [0] ops /\ pending st = [] /\
  exists r, nth_error (refs st) O = Some r /\ r_kind r = K_Rel32 /\ r_w0 r = 0 /\ r_rel r = -4 /\ r_sec r = O /\ r_site r = 2 /\
            wf M64 sh (ex_jmp (r_word r)) = true /\ adm M64 sh (ex_jmp (r_word r)) c = true /\
            senc M64 sh (ex_jmp (r_word r)) c = [233; 100; 0; 0; 0] /\
            nth_error (labels st) O = Some (Some (O, 106)) /\
            site_target M64 CBranch sh 1 (senc M64 sh (ex_jmp (r_word r)) c) = Some 106.
Proof.
  cbv zeta. split.
  - intros o Ho Hr. cbn [In] in Ho. repeat (destruct Ho as [<-|Ho]; [try discriminate Hr; try reflexivity|]). destruct Ho.
  - split; [vm_compute; reflexivity|]. eexists. split; [vm_compute; reflexivity|]. cbn [r_kind r_w0 r_rel r_sec r_site r_word].
    do 9 (split; [vm_compute; reflexivity|]). vm_compute. reflexivity.
Qed.

Example x86_rip_reference_meaning_witness :
  let ops := [ONewLabel; ORaw [144]; ORef K_Rel32 (-4) O [72; 141; 5] 0 []; OGap 100; OBind O; OResolve [0]] in
  let st := run init ops in let sh := mkSh true false 0 1 in let c := mkC false 0 false in
  resolves_with [0] ops /\ pending st = [] /\
  exists r, nth_error (refs st) O = Some r /\ r_kind r = K_Rel32 /\ r_w0 r = 0 /\ r_rel r = -4 /\ r_sec r = O /\ r_site r = 4 /\
            wf M64 sh (ex_lea (sext32 (r_word r))) = true /\ adm M64 sh (ex_lea (sext32 (r_word r))) c = true /\
            senc M64 sh (ex_lea (sext32 (r_word r))) c = [72; 141; 5; 100; 0; 0; 0] /\
            nth_error (labels st) O = Some (Some (O, 108)) /\
            site_target M64 CMem sh 1 (senc M64 sh (ex_lea (sext32 (r_word r))) c) = Some 108.
Proof.
  cbv zeta. split.
  - intros o Ho Hr. cbn [In] in Ho. repeat (destruct Ho as [<-|Ho]; [try discriminate Hr; try reflexivity|]). destruct Ho.
  - split; [vm_compute; reflexivity|]. eexists. split; [vm_compute; reflexivity|]. cbn [r_kind r_w0 r_rel r_sec r_site r_word].
    do 9 (split; [vm_compute; reflexivity|]). vm_compute. reflexivity.
Qed.

(* ------------------------------------------------------------------ short branches (jmp / jcc / jecxz / loop rel8) *)
Lemma decode_rel8_word w : 0 <= w < 2 ^ 8 -> decode_kind K_Rel8 w = sext8 w.
Proof.
  intros H. unfold decode_kind, decode_signed, field_raw. cbn [fmt_of_kind bits shift discard].
  change (2 ^ 0) with 1. rewrite Z.div_1_r, Z.mul_1_r, Z.mod_small by lia.
  unfold sext8, sext. rewrite Z.mod_small by lia. change (2 ^ (8 - 1)) with 128. change (2 ^ 8) with 256. reflexivity.
Qed.

Lemma rel8_word ops offs id r :
  resolves_with offs ops ->
  nth_error (refs (run init ops)) id = Some r -> ~ In id (ids (pending (run init ops))) ->
  r_kind r = K_Rel8 -> r_w0 r = 0 ->
  exists ls lo, nth_error (labels (run init ops)) (r_label r) = Some (Some (ls, lo)) /\
                0 <= r_word r < 2 ^ 8 /\ sext8 (r_word r) = final_disp offs ls lo r.
Proof.
  intros R Hr Hp Hk Hw0.
  destruct (resolved_enc_stable ops offs id r R Hr Hp) as (ls & lo & m & Hl & He & Hw & Hh).
  exists ls, lo. split; [exact Hl|].
  rewrite Hk in He, Hh. rewrite Hw0 in Hw, Hh. rewrite Z.lor_0_l in Hw.
  assert (Hs : ty (fmt_of_kind K_Rel8) = SignedOffset) by reflexivity.
  assert (Hc : wf_contig (fmt_of_kind K_Rel8)) by (unfold wf_contig; simpl; repeat split; auto; lia).
  pose proof (signed_spec _ (final_disp offs ls lo r) Hs Hc (to_i64_int64 _)) as Hsp. rewrite He in Hsp. destruct Hsp as (_ & Hm).
  cbn [fmt_of_kind bits shift discard] in Hm. change (2 ^ 0) with 1 in Hm. rewrite Z.div_1_r, Z.mul_1_r in Hm.
  assert (Hrange : 0 <= r_word r < 2 ^ 8) by (rewrite Hw, Hm; apply Z.mod_pos_bound; lia).
  split; [exact Hrange|].
  destruct (enc_decode K_Rel8 0 m _ Hh (to_i64_int64 _) He) as (Hd & _). rewrite Z.lor_0_l in Hd. rewrite <- Hw in Hd.
  transitivity (decode_kind K_Rel8 (r_word r)); [symmetry; apply decode_rel8_word; exact Hrange|exact Hd].
Qed.

Theorem x86_branch8_reference_meaning ops offs id r (m : mode) sh s c xr xx xb xr' rest :
  resolves_with offs ops ->
  let st := run init ops in
  nth_error (refs st) id = Some r -> ~ In id (ids (pending st)) ->
  r_kind r = K_Rel8 -> r_w0 r = 0 -> r_rel r = -1 ->
  s_modrm s = MNone xr xx xb xr' -> s_imm s = r_word r -> wf m sh s = true -> adm m sh s c = true ->
  let len := Z.of_nat (length (senc m sh s c)) in
  let pc := nth (r_sec r) offs 0 + r_site r + 1 - len in
  exists ls lo, nth_error (labels st) (r_label r) = Some (Some (ls, lo)) /\
    branch8_target m sh pc (senc m sh s c ++ rest) = Some ((nth ls offs 0 + lo) mod 2 ^ abits m).
Proof.
  intros R st Hr Hp Hk Hw0 Hrel Hm Hi Hwf Hadm len pc.
  destruct (rel8_word ops offs id r R Hr Hp Hk Hw0) as (ls & lo & Hl & Hrange & Hsx).
  exists ls, lo. split; [exact Hl|].
  unfold branch8_target. rewrite (sdec_senc m sh s c rest Hwf Hadm). rewrite Hm, Hi, Hsx. f_equal.
  unfold final_disp. rewrite Hrel. fold len.
  destruct m; cbn [abits is64].
  - rewrite <- (Zplus_mod_idemp_r (to_i64 _)), to_i64_mod32, Zplus_mod_idemp_r. f_equal. unfold pc. lia.
  - rewrite add_to_i64_mod. f_equal. unfold pc. lia.
Qed.

(* ------------------------------------------------------------------ the same statements about the BYTE IMAGE *)
(* the immediate of an instruction lying in a byte list is the word read at its last sh_imm bytes *)
Lemma le_bytes_is_le_split n : forall v, X86Model.le_bytes n v = le_split n v.
Proof. induction n as [|n IH]; intros v; cbn [X86Model.le_bytes le_split]; [reflexivity|]. rewrite IH. reflexivity. Qed.

Lemma image_imm (A B : list Z) m sh s c :
  wf m sh s = true ->
  FlatModel.read_word (A ++ senc m sh s c ++ B) (zlen A + zlen (senc m sh s c) - Z.of_nat (sh_imm sh)) (sh_imm sh) = s_imm s.
Proof.
  intros Hwf. unfold senc. set (n := sh_imm sh).
  set (P := enc_prefixes (s_pfx s) ++ enc_lead (rhead_of s) (c_vex3 c) ++ enc_modrm m (a16 m (s_pfx s)) (sh_n sh) (s_modrm s) c).
  replace (enc_prefixes (s_pfx s) ++ enc_lead (rhead_of s) (c_vex3 c) ++ enc_modrm m (a16 m (s_pfx s)) (sh_n sh) (s_modrm s) c ++ X86Model.le_bytes n (s_imm s))
    with (P ++ X86Model.le_bytes n (s_imm s)) by (unfold P; rewrite <- !app_assoc; reflexivity).
  rewrite FlatLemmas.zlen_app. unfold zlen at 3. rewrite X86Proofs.le_bytes_length.
  replace (zlen A + (zlen P + Z.of_nat n) - Z.of_nat n) with (zlen A + zlen P) by lia.
  rewrite FlatLemmas.read_word_app_r by (pose proof (Zle_0_nat (length P)); unfold zlen; lia).
  replace (zlen A + zlen P - zlen A) with (zlen P) by lia. rewrite <- app_assoc.
  rewrite FlatLemmas.read_word_app_r by lia. rewrite Z.sub_diag.
  rewrite FlatLemmas.read_word_at0 by apply X86Proofs.le_bytes_length.
  rewrite le_bytes_is_le_split. apply FlatLemmas.le_join_split_id.
  unfold wf in Hwf. repeat (apply andb_prop in Hwf; destruct Hwf as (Hwf & ?)).
  match goal with H : zin 0 (s_imm s) _ = true |- _ => unfold zin in H; apply andb_prop in H; destruct H as (Ia & Ib); apply Z.leb_le in Ia; apply Z.ltb_lt in Ib end.
  fold n in Ib. replace (2 ^ (8 * Z.of_nat n)) with (256 ^ Z.of_nat n) by (change 256 with (2 ^ 8); rewrite <- Z.pow_mul_r by lia; reflexivity). lia.
Qed.

(* call / jmp / jcc rel32 FOUND IN THE IMAGE: whatever well-formed immediate-only instruction with a 4-byte immediate lies in the section
   image so that it ends where the resolved reference's field ends, decoding the image bytes from its first byte (C01's decoder)
   designates the address where the label was bound.  No hypothesis relates the instruction to the reference except its position. *)
Theorem x86_branch_in_image ops offs id r (m : mode) sh s c xr xx xb xr' (A B : list Z) :
  resolves_with offs ops ->
  let st := run init ops in let f := frun finit ops in
  nth_error (refs st) id = Some r -> ~ In id (ids (pending st)) ->
  r_kind r = K_Rel32 -> r_w0 r = 0 -> r_rel r = -4 ->
  nth (r_sec r) (f_secs f) [] = A ++ senc m sh s c ++ B ->
  zlen A + zlen (senc m sh s c) = r_site r + 4 -> sh_imm sh = 4%nat ->
  s_modrm s = MNone xr xx xb xr' -> wf m sh s = true -> adm m sh s c = true ->
  exists ls lo, nth_error (labels st) (r_label r) = Some (Some (ls, lo)) /\
    site_target m CBranch sh (nth (r_sec r) offs 0 + zlen A) (senc m sh s c ++ B) = Some ((nth ls offs 0 + lo) mod 2 ^ abits m).
Proof.
  intros R st f Hr Hp Hk Hw0 Hrel Himg Hpos Hn Hm Hwf Hadm.
  assert (Hi : s_imm s = r_word r).
  { pose proof (image_word ops id r Hr) as Hw. cbv zeta in Hw. fold f in Hw. rewrite Himg, Hk in Hw.
    pose proof (image_imm A B m sh s c Hwf) as Hi. rewrite Hn in Hi.
    replace (zlen A + zlen (senc m sh s c) - Z.of_nat 4) with (r_site r) in Hi by lia.
    change (vnat K_Rel32) with 4%nat in Hw. congruence. }
  destruct (x86_branch_reference_meaning ops offs id r m sh s c xr xx xb xr' B R Hr Hp Hk Hw0 Hrel Hm Hi Hwf Hadm) as (ls & lo & Hl & Ht).
  exists ls, lo. split; [exact Hl|]. rewrite <- Ht. f_equal. unfold zlen in *. lia.
Qed.

Theorem x86_branch8_in_image ops offs id r (m : mode) sh s c xr xx xb xr' (A B : list Z) :
  resolves_with offs ops ->
  let st := run init ops in let f := frun finit ops in
  nth_error (refs st) id = Some r -> ~ In id (ids (pending st)) ->
  r_kind r = K_Rel8 -> r_w0 r = 0 -> r_rel r = -1 ->
  nth (r_sec r) (f_secs f) [] = A ++ senc m sh s c ++ B ->
  zlen A + zlen (senc m sh s c) = r_site r + 1 -> sh_imm sh = 1%nat ->
  s_modrm s = MNone xr xx xb xr' -> wf m sh s = true -> adm m sh s c = true ->
  exists ls lo, nth_error (labels st) (r_label r) = Some (Some (ls, lo)) /\
    branch8_target m sh (nth (r_sec r) offs 0 + zlen A) (senc m sh s c ++ B) = Some ((nth ls offs 0 + lo) mod 2 ^ abits m).
Proof.
  intros R st f Hr Hp Hk Hw0 Hrel Himg Hpos Hn Hm Hwf Hadm.
  assert (Hi : s_imm s = r_word r).
  { pose proof (image_word ops id r Hr) as Hw. cbv zeta in Hw. fold f in Hw. rewrite Himg, Hk in Hw.
    pose proof (image_imm A B m sh s c Hwf) as Hi. rewrite Hn in Hi.
    replace (zlen A + zlen (senc m sh s c) - Z.of_nat 1) with (r_site r) in Hi by lia.
    change (vnat K_Rel8) with 1%nat in Hw. congruence. }
  destruct (x86_branch8_reference_meaning ops offs id r m sh s c xr xx xb xr' B R Hr Hp Hk Hw0 Hrel Hm Hi Hwf Hadm) as (ls & lo & Hl & Ht).
  exists ls, lo. split; [exact Hl|]. rewrite <- Ht. f_equal. unfold zlen in *. lia.
Qed.

(* satisfiability of the image-level statement: the program of x86_branch_reference_meaning_witness; A = [nop], B = the 100 gap bytes *)
Example x86_branch_in_image_witness :
  let ops := [ONewLabel; ORaw [144]; ORef K_Rel32 (-4) O [233] 0 []; OGap 100; OBind O; OResolve [0]] in
  let f := frun finit ops in let sh := mkSh false false 4 1 in let c := mkC false 0 false in
  nth O (f_secs f) [] = [144] ++ senc M64 sh (ex_jmp 100) c ++ repeat 0 100 /\
  wf M64 sh (ex_jmp 100) = true /\ adm M64 sh (ex_jmp 100) c = true /\
  site_target M64 CBranch sh 1 (senc M64 sh (ex_jmp 100) c ++ repeat 0 100) = Some 106.
Proof. cbv zeta. repeat split; vm_compute; reflexivity. Qed.

(* ------------------------------------------------------------------ RIP-relative operands found in the image *)
Lemma wf_modrm_of m sh s : wf m sh s = true ->
  exists lim limx ext, wf_modrm m (a16 m (s_pfx s)) sh lim limx ext (s_modrm s) = true.
Proof.
  intros H. unfold wf in H. apply andb_prop in H. destruct H as (_ & H).
  destruct (s_kind s); repeat (apply andb_prop in H; destruct H as (? & H)); eauto.
Qed.

Lemma sext32_mod d : -2147483648 <= d < 2147483648 -> sext32 (d mod 4294967296) = d.
Proof.
  intros H. unfold sext32. destruct (Z_lt_le_dec d 0).
  - replace (d mod 4294967296) with (d + 4294967296) by (symmetry; rewrite <- (Z.mod_add d 1 4294967296) by lia; apply Z.mod_small; lia).
    destruct (Z.ltb_spec (d + 4294967296) 2147483648); lia.
  - rewrite Z.mod_small by lia. destruct (Z.ltb_spec d 2147483648); lia.
Qed.

Lemma image_rip_disp (A B : list Z) sh s c reg d :
  s_modrm s = MMem reg (mkM BRip None 0 d) -> wf M64 sh s = true ->
  FlatModel.read_word (A ++ senc M64 sh s c ++ B) (zlen A + zlen (senc M64 sh s c) - Z.of_nat (sh_imm sh) - 4) 4 = d mod 4294967296 /\
  -2147483648 <= d < 2147483648.
Proof.
  intros Hm Hwf. destruct (wf_modrm_of _ _ _ Hwf) as (lim & limx & ext & Hw). rewrite Hm in Hw. cbn [wf_modrm] in Hw.
  apply andb_prop in Hw. destruct Hw as (_ & Hw). unfold wf_mem in Hw. change (a16 M64 (s_pfx s)) with false in Hw. cbv iota in Hw.
  cbn [m_disp] in Hw. do 3 (apply andb_prop in Hw; destruct Hw as (Hw & _)).
  unfold zin in Hw. apply andb_prop in Hw. destruct Hw as (D1 & D2). apply Z.leb_le in D1. apply Z.ltb_lt in D2.
  split; [|lia].
  unfold senc. rewrite Hm. cbn [enc_modrm]. unfold enc_mem. change (a16 M64 (s_pfx s)) with false. cbv iota. cbn [m_base m_disp].
  set (n := sh_imm sh).
  set (P := enc_prefixes (s_pfx s) ++ enc_lead (rhead_of s) (c_vex3 c) ++ [modrm_byte 0 reg 5]).
  set (D := X86Model.le_bytes 4 (d mod 4294967296)). set (I := X86Model.le_bytes n (s_imm s)).
  replace (enc_prefixes (s_pfx s) ++ enc_lead (rhead_of s) (c_vex3 c) ++ (modrm_byte 0 reg 5 :: D) ++ I) with (P ++ D ++ I)
    by (unfold P; rewrite <- !app_assoc; reflexivity).
  assert (LD : length D = 4%nat) by apply X86Proofs.le_bytes_length. assert (LI : length I = n) by apply X86Proofs.le_bytes_length.
  rewrite !FlatLemmas.zlen_app. unfold zlen at 3 4. rewrite LD, LI.
  replace (zlen A + (zlen P + (Z.of_nat 4 + Z.of_nat n)) - Z.of_nat n - 4) with (zlen A + zlen P) by lia.
  rewrite FlatLemmas.read_word_app_r by (pose proof (Zle_0_nat (length P)); unfold zlen; lia).
  replace (zlen A + zlen P - zlen A) with (zlen P) by lia. rewrite <- !app_assoc.
  rewrite FlatLemmas.read_word_app_r by lia. rewrite Z.sub_diag.
  rewrite FlatLemmas.read_word_at0 by exact LD. unfold D.
  rewrite le_bytes_is_le_split. apply FlatLemmas.le_join_split_id. change (2 ^ (8 * Z.of_nat 4)) with 4294967296. apply Z.mod_pos_bound. lia.
Qed.

(* `op reg, [rip + label + d]` / `op [rip + label + d], imm` FOUND IN THE IMAGE: whatever well-formed instruction with a RIP-relative
   operand lies in the image so that its disp32 field is the resolved reference's field, decoding the image bytes from its first byte
   designates the address where the label was bound plus (recorded addend + 4 + size of the trailing immediate) = the operand's own
   displacement.  The displacement of the structural instruction is not assumed: it is read from the image. *)
Theorem x86_rip_in_image ops offs id r sh s c reg d (A B : list Z) :
  resolves_with offs ops ->
  let st := run init ops in let f := frun finit ops in
  nth_error (refs st) id = Some r -> ~ In id (ids (pending st)) ->
  r_kind r = K_Rel32 -> r_w0 r = 0 ->
  nth (r_sec r) (f_secs f) [] = A ++ senc M64 sh s c ++ B ->
  zlen A + zlen (senc M64 sh s c) - Z.of_nat (sh_imm sh) - 4 = r_site r ->
  s_modrm s = MMem reg (mkM BRip None 0 d) -> wf M64 sh s = true -> adm M64 sh s c = true ->
  exists ls lo, nth_error (labels st) (r_label r) = Some (Some (ls, lo)) /\
    site_target M64 CMem sh (nth (r_sec r) offs 0 + zlen A) (senc M64 sh s c ++ B) =
      Some ((nth ls offs 0 + lo + (r_rel r + 4 + Z.of_nat (sh_imm sh))) mod 2 ^ 64).
Proof.
  intros R st f Hr Hp Hk Hw0 Himg Hpos Hm Hwf Hadm.
  destruct (image_rip_disp A B sh s c reg d Hm Hwf) as (Hrd & Hd). rewrite Hpos in Hrd.
  pose proof (image_word ops id r Hr) as Hw. cbv zeta in Hw. fold f in Hw. rewrite Himg, Hk in Hw. change (vnat K_Rel32) with 4%nat in Hw.
  assert (Ed : d = sext32 (r_word r)) by (rewrite <- Hw, Hrd; symmetry; apply sext32_mod; exact Hd).
  rewrite Ed in Hm.
  destruct (x86_rip_reference_meaning ops offs id r sh s c reg B (4 + Z.of_nat (sh_imm sh)) R Hr Hp Hk Hw0 Hm Hwf Hadm) as (ls & lo & Hl & Ht).
  exists ls, lo. split; [exact Hl|]. replace (r_rel r + 4 + Z.of_nat (sh_imm sh)) with (r_rel r + (4 + Z.of_nat (sh_imm sh))) by lia.
  rewrite <- Ht. f_equal. unfold zlen in *. lia.
Qed.

Example x86_rip_in_image_witness :
  let ops := [ONewLabel; ORaw [144]; ORef K_Rel32 (-4) O [72; 141; 5] 0 []; OGap 100; OBind O; OResolve [0]] in
  let f := frun finit ops in let sh := mkSh true false 0 1 in let c := mkC false 0 false in
  nth O (f_secs f) [] = [144] ++ senc M64 sh (ex_lea 100) c ++ repeat 0 100 /\
  wf M64 sh (ex_lea 100) = true /\ adm M64 sh (ex_lea 100) c = true /\
  site_target M64 CMem sh 1 (senc M64 sh (ex_lea 100) c ++ repeat 0 100) = Some 108.
Proof. cbv zeta. repeat split; vm_compute; reflexivity. Qed.

(* C03 — end to end for AArch64, hypotheses about the OPERATION only: a label-bearing instruction i emitted (with a zero displacement
   field) anywhere in ANY label program, once its reference is resolved, is found in the final byte image as a word that the structural
   decoder reads as i with the displacement, designating the label's address + addend, and that word is the one C02's instruction-level
   database model emits for the displacement operand "label at pc + final displacement". *)
From Coq Require Import ZArith List Bool Lia.
From Verif Require Import Base.ZBits Codec.OffsetModel Codec.OffsetProofs Labels.LabelsModel Labels.LabelsProofs Labels.LabelsExact
  Labels.FlatModel Labels.FlatLemmas Labels.FlatProofs Labels.A64Dec Labels.A64RefMeaning Labels.X86EndToEnd
  A64.A64Tmpl A64.A64Sem Labels.A64DbTie Labels.A64RefDb.
From VerifGen Require Import IsaA64Db.
Import ListNotations.
Local Open Scope Z_scope.

Theorem a64_label_reference ops1 ops2 offs l i rel :
  a64_wf (set_imm i 0) ->
  let s1 := run init ops1 in let o := ORef (kind_of i) rel l [] (a64_enc (set_imm i 0)) [] in
  snd (step s1 o) = EOk ->
  let ops := ops1 ++ o :: ops2 in
  resolves_with offs ops ->
  let st := run init ops in let f := frun finit ops in let id := length (refs s1) in
  ~ In id (ids (pending st)) ->
  exists r ls lo, nth_error (refs st) id = Some r /\ r_sec r = cur s1 /\ nth_error (labels st) l = Some (Some (ls, lo)) /\
    let w := read_word (nth (r_sec r) (f_secs f) []) (r_site r) 4 in
    let pc := nth (r_sec r) offs 0 + r_site r in
    let target := nth ls offs 0 + lo + rel in
    a64_dec w = Some (set_imm i (final_disp offs ls lo r / 2 ^ discard (fmt_of_kind (kind_of i)))) /\
    a64_site_target pc w = Some (match i with
                                 | IAdr true _ _ => ((target - target mod 4096) mod 2 ^ 64)
                                 | _ => target mod 2 ^ 64
                                 end) /\
    (a64_db_ok i ->
     spec_rows rows (a64_mn i) (a64_ops (set_imm i (final_disp offs ls lo r / 2 ^ discard (fmt_of_kind (kind_of i))))) = Some (a64_rid i, w)).
Proof.
  intros Hwf s1 o Hok ops R st f id Hp. subst ops st f id.
  destruct (ref_in_image ops1 ops2 (kind_of i) rel l [] (a64_enc (set_imm i 0)) [] Hok) as (r & A & B & Hr & Gs & Grel & Gk & Gl & Gw & _ & _).
  fold o in Hr. set (ops := ops1 ++ o :: ops2) in *. set (id := length (refs s1)) in *.
  destruct (a64_reference_meaning ops offs id r i R Hr Hp Gk Gw Hwf) as (ls & lo & Hl & Hd & Ht).
  destruct (flat_refines ops) as (_ & E & _). cbv zeta in E. rewrite E, Gl in Hl.
  exists r, ls, lo. split; [exact Hr|]. split; [exact Gs|]. split; [exact Hl|]. cbv zeta. split; [exact Hd|]. split.
  - rewrite Ht, Grel. destruct i as [| | | |[|] rd v|]; try reflexivity.
    (* ADRP: use the page corollary *)
    assert (Hrd : 0 <= rd < 32) by (cbn [set_imm a64_wf] in Hwf; tauto).
    destruct (a64_adrp_reference_page ops offs id r rd R Hr Hp Gk Gw Hrd) as (ls' & lo' & Hl' & _ & Ht').
    rewrite E, Gl, Hl in Hl'. injection Hl' as <- <-. cbv zeta in Ht'. rewrite Ht in Ht'. rewrite Grel in Ht'. injection Ht' as Ht'. f_equal. exact Ht'.
  - intros Hdb. destruct (a64_reference_is_db_word ops offs id r i R Hr Hp Gk Gw Hwf Hdb) as (ls' & lo' & Hl' & Hs & _).
    rewrite E, Gl, Hl in Hl'. injection Hl' as <- <-. exact Hs.
Qed.

(* satisfiability: `cbz x5, L` in section 0, L in section 1 *)
Example a64_label_reference_witness :
  let ops1 := [ONewLabel; ONewSection; ORaw [31; 32; 3; 213]] in let i := ICb true false 5 0 in
  let o := ORef (kind_of i) 0 O [] (a64_enc (set_imm i 0)) [] in let ops2 := [OSection 1%nat; OGap 8; OBind O; OResolve [0; 4096]] in
  let s1 := run init ops1 in let ops := ops1 ++ o :: ops2 in let st := run init ops in let f := frun finit ops in
  a64_wf (set_imm i 0) /\ a64_db_ok i /\ snd (step s1 o) = EOk /\ resolves_with [0; 4096] ops /\ ~ In (length (refs s1)) (ids (pending st)) /\
  a64_site_target 4 (read_word (nth O (f_secs f) []) 4 4) = Some 4104.
Proof.
  cbv zeta. split; [vm_compute; repeat split; discriminate|]. split; [exact I|]. split; [vm_compute; reflexivity|]. split.
  - intros o Ho Hr. rewrite in_app_iff in Ho. cbn [In] in Ho.
    destruct Ho as [[<-|[<-|[<-|[]]]]|[<-|[<-|[<-|[<-|[<-|[]]]]]]]; try discriminate Hr; reflexivity.
  - split; [vm_compute; intros []|vm_compute; reflexivity].
Qed.

(* C03 — the sparse-buffer flat model (SparseModel.v) is the flat model (FlatModel.v): expanding the chunks of every buffer gives
   FlatModel's state after every operation, with the same error codes.  Together with FlatProofs.v (flat = structured) the extracted
   sparse model that the check runs is tied to the model the theorems are about. *)
From Coq Require Import ZArith List Bool Lia.
From Verif Require Import Codec.OffsetModel Labels.LabelsModel Labels.LabelsProofs Labels.FlatModel Labels.FlatLemmas Labels.SparseModel.
Import ListNotations.
Local Open Scope Z_scope.
Arguments zlen : simpl never.
Arguments bind_rel : simpl never.

Lemma expand_app a b : expand (a ++ b) = expand a ++ expand b.
Proof. induction a; simpl; [reflexivity|]. rewrite IHa, app_assoc. reflexivity. Qed.

Lemma cexp_len c : zlen (cexp c) = clen c.
Proof. destruct c; simpl; [reflexivity|]. rewrite zlen_repeat. lia. Qed.

Lemma sb_len_expand b : sb_len b = zlen (expand b).
Proof. induction b; simpl; [reflexivity|]. rewrite zlen_app, cexp_len, IHb. reflexivity. Qed.

Lemma read_word_app_l (X Y : list Z) off n : 0 <= off -> off + Z.of_nat n <= zlen X -> read_word (X ++ Y) off n = read_word X off n.
Proof.
  intros H0 H. unfold read_word. f_equal. rewrite skipn_app, firstn_app.
  assert (L : length (skipn (Z.to_nat off) X) = (length X - Z.to_nat off)%nat) by apply skipn_length.
  replace (n - length (skipn (Z.to_nat off) X))%nat with O by (unfold zlen in H; lia). simpl. apply app_nil_r.
Qed.

Lemma write_word_app_l (X Y : list Z) off n w : 0 <= off -> off + Z.of_nat n <= zlen X ->
  write_word (X ++ Y) off n w = write_word X off n w ++ Y.
Proof.
  intros H0 H. unfold write_word. unfold zlen in H.
  rewrite firstn_app, skipn_app.
  replace (Z.to_nat off - length X)%nat with O by lia. replace (Z.to_nat off + n - length X)%nat with O by lia.
  simpl. rewrite app_nil_r, <- !app_assoc. reflexivity.
Qed.

Lemma sb_read_in_spec b : forall off n w, sb_read_in b off n = Some w -> w = read_word (expand b) off n.
Proof.
  induction b as [|c t IH]; intros off n w; simpl; [discriminate|].
  destruct (Z.leb_spec (clen c) off) as [L|L].
  - intros H. rewrite (IH _ _ _ H). rewrite read_word_app_r by (rewrite cexp_len; exact L). rewrite cexp_len. reflexivity.
  - destruct c as [bs|z]; [|discriminate].
    destruct ((0 <=? off) && (off + Z.of_nat n <=? zlen bs)) eqn:E; [|discriminate].
    apply andb_true_iff in E. destruct E as (E1 & E2). apply Z.leb_le in E1, E2.
    intros H. injection H as <-. simpl. symmetry. apply read_word_app_l; assumption.
Qed.

Lemma sb_read_spec b off n : sb_read b off n = read_word (expand b) off n.
Proof. unfold sb_read. destruct (sb_read_in b off n) eqn:E; [eapply sb_read_in_spec; eauto|reflexivity]. Qed.

Lemma sb_write_in_spec b : forall off n w b', sb_write_in b off n w = Some b' -> expand b' = write_word (expand b) off n w.
Proof.
  induction b as [|c t IH]; intros off n w b'; simpl; [discriminate|].
  destruct (Z.leb_spec (clen c) off) as [L|L].
  - destruct (sb_write_in t (off - clen c) n w) as [t'|] eqn:E; [|discriminate]. intros H. injection H as <-. simpl.
    rewrite (IH _ _ _ _ E). rewrite write_word_app_r by (rewrite cexp_len; exact L). rewrite cexp_len. reflexivity.
  - destruct c as [bs|z]; [|discriminate].
    destruct ((0 <=? off) && (off + Z.of_nat n <=? zlen bs)) eqn:E; [|discriminate].
    apply andb_true_iff in E. destruct E as (E1 & E2). apply Z.leb_le in E1, E2.
    intros H. injection H as <-. simpl. symmetry. apply write_word_app_l; assumption.
Qed.

Lemma sb_write_spec b off n w : expand (sb_write b off n w) = write_word (expand b) off n w.
Proof.
  unfold sb_write. destruct (sb_write_in b off n w) eqn:E; [eapply sb_write_in_spec; eauto|]. simpl. apply app_nil_r.
Qed.

Lemma map_upd {A B} (g : A -> B) (l : list A) i x : map g (upd l i x) = upd (map g l) i (g x).
Proof. revert i; induction l; intros [|i]; simpl; auto. f_equal. apply IHl. Qed.

Lemma nth_expand l i : nth i (map expand l) [] = expand (nth i l []).
Proof. change (@nil Z) with (expand []) at 1. apply map_nth. Qed.

(* ------------------------------------------------------------------ the relation and the walks *)
Record ssim (f : fstate) (ss : sstate) : Prop := {
  ss_secs : f_secs f = map expand (s_bufs ss); ss_cur : f_cur f = s_cur ss; ss_labels : f_labels f = s_labels ss;
  ss_pending : f_pending f = s_pending ss; ss_rel : f_pending_rel f = s_pending_rel ss;
  ss_unres : f_unresolved f = s_unresolved ss; ss_relocs : f_relocs f = s_relocs ss
}.

Lemma swalk_sim sel fie : forall fxs bufs,
  let fw := f_resolve_list sel fie fxs (map expand bufs) in
  let sw := s_resolve_list sel fie fxs bufs in
  fw_secs fw = map expand (sw_bufs sw) /\ fw_kept fw = sw_kept sw /\ fw_n fw = sw_n sw /\ fw_err fw = sw_err sw.
Proof.
  induction fxs as [|fx t IH]; intros bufs; simpl; [auto|].
  destruct (sel fx) as [| |lay lo].
  - destruct (IH bufs) as (A & B & C & D). unfold fwalk_keep, swalk_keep; simpl. rewrite ?B, ?C, ?D. auto.
  - destruct (IH bufs) as (A & B & C & D). unfold fwalk_keep, swalk_keep; simpl. rewrite ?B, ?C, ?D. auto.
  - rewrite nth_expand, <- sb_read_spec.
    destruct (write_offset _ _ _) as [w|].
    + rewrite <- sb_write_spec, <- map_upd. destruct (IH (upd bufs (fx_sec fx) (sb_write (nth (fx_sec fx) bufs []) (fx_off fx) (vnat (fx_kind fx)) w))) as (A & B & C & D).
      unfold fwalk_done, swalk_done; simpl. rewrite ?B, ?C, ?D. auto.
    + destruct (IH bufs) as (A & B & C & D). unfold fwalk_keep, swalk_keep; simpl. rewrite ?B, ?C, ?D. auto.
Qed.

Lemma sprecheck_sim l sec off fxs bufs : f_bind_precheck l sec off fxs (map expand bufs) = s_bind_precheck l sec off fxs bufs.
Proof.
  unfold f_bind_precheck, s_bind_precheck. induction fxs as [|fx t IH]; simpl; [reflexivity|]. rewrite IH. f_equal.
  destruct (bind_sel l sec off fx); try reflexivity. rewrite nth_expand, <- sb_read_spec. reflexivity.
Qed.

Lemma s_append_sim f ss bs : ssim f ss -> f_append f bs = map expand (s_append ss bs).
Proof.
  intros [S1 S2 S3 S4 S5 S6 S7]. unfold f_append, s_append, f_cur_sec, s_cur_buf. rewrite map_upd, expand_app, S1, S2, nth_expand. simpl.
  rewrite app_nil_r. reflexivity.
Qed.

Lemma s_len_sim f ss : ssim f ss -> zlen (f_cur_sec f) = sb_len (s_cur_buf ss).
Proof. intros [S1 S2 S3 S4 S5 S6 S7]. unfold f_cur_sec, s_cur_buf. rewrite S1, S2, nth_expand, sb_len_expand. reflexivity. Qed.

Theorem sstep_sim f ss o : ssim f ss -> ssim (fst (fstep f o)) (fst (sstep ss o)) /\ snd (fstep f o) = snd (sstep ss o).
Proof.
  intros S. pose proof S as [S1 S2 S3 S4 S5 S6 S7]. pose proof (s_len_sim f ss S) as Hlen.
  assert (App : forall bs, f_append f bs = map expand (s_append ss bs)) by (intros; apply s_append_sim; exact S).
  destruct o; unfold fstep, sstep; cbv zeta; rewrite ?Hlen, ?S2, ?S3, ?S4, ?S5, ?S6, ?S7.
  - (* ONewLabel *) cbn [fst snd]. split; [|reflexivity]. constructor; simpl; auto.
  - (* ONewSection *) cbn [fst snd]. split; [|reflexivity]. constructor; simpl; auto. rewrite S1, map_app. reflexivity.
  - (* OSection *) assert (Hl : length (f_secs f) = length (s_bufs ss)) by (rewrite S1; apply map_length). rewrite Hl.
    destruct (Nat.ltb k (length (s_bufs ss))); cbn [fst snd]; split; auto. constructor; simpl; auto.
  - (* ORaw *) cbn [fst snd]. split; [|reflexivity]. constructor; simpl; auto.
  - (* OGap *) destruct (0 <=? n) eqn:En; cbn [fst snd]; split; auto. constructor; simpl; auto.
    unfold f_append, s_append_zeros, f_cur_sec, s_cur_buf. rewrite map_upd, expand_app, S1, S2, nth_expand. simpl. rewrite app_nil_r. reflexivity.
  - (* ORef *)
    destruct (nth_error (s_labels ss) l) as [lb|]; [|cbn [fst snd]; auto].
    destruct (hole_ok k w0); cbn [negb]; cbv iota; [|cbn [fst snd]; auto].
    destruct lb as [[ls lo]|].
    + destruct (Nat.eqb ls (s_cur ss)).
      * destruct (write_offset _ _ _); cbn [fst snd]; split; auto. constructor; simpl; auto.
      * cbn [fst snd]. split; [|reflexivity]. constructor; simpl; auto.
    + cbn [fst snd]. split; [|reflexivity]. constructor; simpl; auto.
  - (* OBind *)
    destruct (nth_error (s_labels ss) l) as [[v|]|]; cbn [fst snd]; auto.
    rewrite S1, sprecheck_sim.
    destruct (s_bind_precheck l (s_cur ss) (sb_len (s_cur_buf ss)) (s_pending ss) (s_bufs ss)); cbn [negb]; cbv iota; cbn [fst snd]; [|auto].
    unfold bind_rel. cbv beta iota zeta. cbn [fst snd].
    destruct (swalk_sim (bind_sel l (s_cur ss) (sb_len (s_cur_buf ss))) true (s_pending ss) (s_bufs ss)) as (A & B & C & D).
    split; [|rewrite D; reflexivity]. constructor; simpl; auto. rewrite C. reflexivity.
  - (* OAbsRef *)
    destruct (nth_error (s_labels ss) l) as [lb|]; [|cbn [fst snd]; auto].
    destruct (size_ok size); cbn [negb]; cbv iota; [|cbn [fst snd]; auto].
    destruct lb as [[ls lo]|]; cbn [fst snd]; (split; [|reflexivity]); constructor; simpl; auto.
  - (* ODelta *)
    destruct (nth_error (s_labels ss) l) as [ll|]; [|cbn [fst snd]; auto].
    destruct (nth_error (s_labels ss) b) as [lb|]; [|cbn [fst snd]; auto].
    destruct (size_ok size); cbn [negb]; cbv iota; [|cbn [fst snd]; auto].
    destruct (match ll with Some (ls, lo) => match lb with Some (bs, bo) => if Nat.eqb ls bs then Some (lo - bo) else None | None => None end | None => None end) as [d|].
    + cbn [negb orb fst snd]. split; [|reflexivity]. constructor; simpl; auto.
    + cbn [fst snd]. split; [|reflexivity]. constructor; simpl; auto.
  - (* OResolve *) cbn [fst snd]. rewrite S1.
    destruct (swalk_sim (resolve_sel (s_labels ss) offs) false (s_pending ss) (s_bufs ss)) as (A & B & C & D).
    split; [|rewrite D; reflexivity]. constructor; simpl; auto. rewrite C. reflexivity.
  - (* ODeltaChecked *)
    destruct (nth_error (s_labels ss) l) as [ll|]; [|cbn [fst snd]; auto].
    destruct (nth_error (s_labels ss) b) as [lb|]; [|cbn [fst snd]; auto].
    destruct (size_ok size); cbn [negb]; cbv iota; [|cbn [fst snd]; auto].
    destruct (match ll with Some (ls, lo) => match lb with Some (bs, bo) => if Nat.eqb ls bs then Some (lo - bo) else None | None => None end | None => None end) as [d|].
    + cbn [negb orb]. destruct ((size =? 8) || ((- 2 ^ (8 * size - 1) <=? d) && (d <? 2 ^ (8 * size - 1)))); cbn [fst snd]; split; auto.
      constructor; simpl; auto.
    + cbn [fst snd]. split; [|reflexivity]. constructor; simpl; auto.
Qed.

Lemma ssim_init : ssim finit sinit.
Proof. constructor; reflexivity. Qed.

Theorem srun_sim ops : forall f ss, ssim f ss -> ssim (frun f ops) (srun ss ops).
Proof. induction ops as [|o t IH]; intros f ss S; simpl; [exact S|]. apply IH. apply (sstep_sim f ss o S). Qed.

(* the sparse model's expanded buffers are the flat model's buffers, after any operations; every error code agrees *)
Theorem sparse_refines ops :
  f_secs (frun finit ops) = map expand (s_bufs (srun sinit ops)) /\
  f_labels (frun finit ops) = s_labels (srun sinit ops) /\ f_unresolved (frun finit ops) = s_unresolved (srun sinit ops) /\
  f_relocs (frun finit ops) = s_relocs (srun sinit ops) /\ f_pending (frun finit ops) = s_pending (srun sinit ops).
Proof. destruct (srun_sim ops finit sinit ssim_init) as [S1 S2 S3 S4 S5 S6 S7]. auto. Qed.

Theorem sparse_errors_agree ops o : snd (fstep (frun finit ops) o) = snd (sstep (srun sinit ops) o).
Proof. exact (proj2 (sstep_sim _ _ o (srun_sim ops finit sinit ssim_init))). Qed.

(* C03/C04 — a small STRUCTURAL AArch64 decoder for the label-bearing instruction classes (ARM ARM C4.1.3 / C6.2: B, BL, B.cond, CBZ/CBNZ,
   TBZ/TBNZ, ADR, ADRP, LDR/LDRSW/PRFM (literal), LDR (literal, SIMD&FP)), its encoder, the round trip, and the address an
   instruction designates.  Used to give the patched words of the label/relocation models an architectural meaning:
   `a64_patched_meaning` — a word = (instruction emitted with a zero displacement field) OR (encoded displacement) decodes to that
   instruction with the displacement, and designates pc + displacement (ADRP: Page(pc) + displacement). *)
From Coq Require Import ZArith List Bool Lia.
From Verif Require Import Base.ZBits Codec.OffsetModel Codec.OffsetProofs Labels.LabelsModel Labels.LabelsExact.
Import ListNotations.
Local Open Scope Z_scope.

Inductive a64i :=
| IB (link : bool) (imm : Z)                       (* B / BL: imm26, word offset *)
| IBcond (cond : Z) (imm : Z)                      (* B.cond: imm19 *)
| ICb (sf nz : bool) (rt : Z) (imm : Z)            (* CBZ / CBNZ: imm19 *)
| ITb (b5 nz : bool) (b40 rt : Z) (imm : Z)        (* TBZ / TBNZ: imm14 *)
| IAdr (page : bool) (rd : Z) (imm : Z)            (* ADR / ADRP: imm21 = immhi:immlo *)
| ILdrLit (opc : Z) (v : bool) (rt : Z) (imm : Z). (* LDR (literal) W/X/SW, PRFM (literal), LDR (literal) S/D/Q: imm19 *)

Definition bz (b : bool) : Z := if b then 1 else 0.
Definition fld (w s b : Z) : Z := (w / 2 ^ s) mod 2 ^ b.

Definition a64_enc (i : a64i) : Z :=
  match i with
  | IB link imm => bz link * 2 ^ 31 + 5 * 2 ^ 26 + imm mod 2 ^ 26
  | IBcond c imm => 84 * 2 ^ 24 + (imm mod 2 ^ 19) * 2 ^ 5 + c
  | ICb sf nz rt imm => bz sf * 2 ^ 31 + 26 * 2 ^ 25 + bz nz * 2 ^ 24 + (imm mod 2 ^ 19) * 2 ^ 5 + rt
  | ITb b5 nz b40 rt imm => bz b5 * 2 ^ 31 + 27 * 2 ^ 25 + bz nz * 2 ^ 24 + b40 * 2 ^ 19 + (imm mod 2 ^ 14) * 2 ^ 5 + rt
  | IAdr page rd imm => bz page * 2 ^ 31 + ((imm mod 2 ^ 21) mod 4) * 2 ^ 29 + 16 * 2 ^ 24 + ((imm mod 2 ^ 21) / 4) * 2 ^ 5 + rd
  | ILdrLit opc v rt imm => opc * 2 ^ 30 + 3 * 2 ^ 27 + bz v * 2 ^ 26 + (imm mod 2 ^ 19) * 2 ^ 5 + rt
  end.

Definition zb (z : Z) : bool := z =? 1.

Definition a64_dec (w : Z) : option a64i :=
  if fld w 26 5 =? 5 then Some (IB (zb (fld w 31 1)) (sext 26 (fld w 0 26)))
  else if (fld w 24 8 =? 84) && (fld w 4 1 =? 0) then Some (IBcond (fld w 0 4) (sext 19 (fld w 5 19)))
  else if fld w 25 6 =? 26 then Some (ICb (zb (fld w 31 1)) (zb (fld w 24 1)) (fld w 0 5) (sext 19 (fld w 5 19)))
  else if fld w 25 6 =? 27 then Some (ITb (zb (fld w 31 1)) (zb (fld w 24 1)) (fld w 19 5) (fld w 0 5) (sext 14 (fld w 5 14)))
  else if fld w 24 5 =? 16 then Some (IAdr (zb (fld w 31 1)) (fld w 0 5) (sext 21 (fld w 5 19 * 4 + fld w 29 2)))
  else if (fld w 27 3 =? 3) && (fld w 24 2 =? 0) then Some (ILdrLit (fld w 30 2) (zb (fld w 26 1)) (fld w 0 5) (sext 19 (fld w 5 19)))
  else None.

Definition a64_wf (i : a64i) : Prop :=
  match i with
  | IB _ imm => - 2 ^ 25 <= imm < 2 ^ 25
  | IBcond c imm => 0 <= c < 16 /\ - 2 ^ 18 <= imm < 2 ^ 18
  | ICb _ _ rt imm => 0 <= rt < 32 /\ - 2 ^ 18 <= imm < 2 ^ 18
  | ITb _ _ b40 rt imm => 0 <= b40 < 32 /\ 0 <= rt < 32 /\ - 2 ^ 13 <= imm < 2 ^ 13
  | IAdr _ rd imm => 0 <= rd < 32 /\ - 2 ^ 20 <= imm < 2 ^ 20
  | ILdrLit opc _ rt imm => 0 <= opc < 4 /\ 0 <= rt < 32 /\ - 2 ^ 18 <= imm < 2 ^ 18
  end.

(* the address the instruction designates when executed at pc (ARM ARM: offset = SignExtend(imm:'00'); ADR: imm; ADRP: Page(pc) + imm:Zeros(12)) *)
Definition a64_target (pc : Z) (i : a64i) : Z :=
  match i with
  | IB _ imm | IBcond _ imm | ICb _ _ _ imm | ITb _ _ _ _ imm | ILdrLit _ _ _ imm => (pc + 4 * imm) mod 2 ^ 64
  | IAdr false _ imm => (pc + imm) mod 2 ^ 64
  | IAdr true _ imm => ((pc - pc mod 4096) + 4096 * imm) mod 2 ^ 64
  end.

Definition a64_site_target (pc w : Z) : option Z :=
  match a64_dec w with Some i => Some (a64_target pc i) | None => None end.

(* ------------------------------------------------------------------ round trip *)
Lemma sext_mod n x : 0 < n -> - 2 ^ (n - 1) <= x < 2 ^ (n - 1) -> sext n (x mod 2 ^ n) = x.
Proof. intros Hn H. rewrite sext_is_sextz. apply sextz_of_mod; assumption. Qed.

Ltac lits := change (2 ^ 31) with 2147483648 in *; change (2 ^ 30) with 1073741824 in *; change (2 ^ 29) with 536870912 in *;
  change (2 ^ 27) with 134217728 in *; change (2 ^ 26) with 67108864 in *; change (2 ^ 25) with 33554432 in *;
  change (2 ^ 24) with 16777216 in *; change (2 ^ 21) with 2097152 in *; change (2 ^ 20) with 1048576 in *;
  change (2 ^ 19) with 524288 in *; change (2 ^ 18) with 262144 in *; change (2 ^ 14) with 16384 in *; change (2 ^ 13) with 8192 in *;
  change (2 ^ 8) with 256 in *; change (2 ^ 6) with 64 in *; change (2 ^ 5) with 32 in *; change (2 ^ 4) with 16 in *;
  change (2 ^ 3) with 8 in *; change (2 ^ 2) with 4 in *; change (2 ^ 1) with 2 in *; change (2 ^ 0) with 1 in *.

Ltac pw := repeat match goal with |- context [2 ^ ?e] => let v := eval vm_compute in (2 ^ e) in change (2 ^ e) with v end; lia.

Ltac fld_solve := unfold fld; lits; match goal with |- ?l = ?r => first [ apply Z.eqb_eq | idtac ] end;
  repeat match goal with |- context [?a mod ?m] => let q := fresh "q" in let r := fresh "r" in
    pose proof (Z.div_mod a m ltac:(lia)); pose proof (Z.mod_pos_bound a m ltac:(lia)); set (r := a mod m) in *; set (q := a / m) in * end.

Lemma fld_sum hi x lo s b : 0 <= s -> 0 <= b -> 0 <= x < 2 ^ b -> 0 <= lo < 2 ^ s -> fld (hi * 2 ^ (s + b) + x * 2 ^ s + lo) s b = x.
Proof.
  intros Hs Hb Hx Hlo. unfold fld.
  replace (hi * 2 ^ (s + b) + x * 2 ^ s + lo) with (lo + (hi * 2 ^ b + x) * 2 ^ s) by (rewrite Z.pow_add_r by lia; ring).
  rewrite Z.div_add by (pose proof (pow2_pos s Hs); lia). rewrite Z.div_small by lia. rewrite Z.add_0_l.
  rewrite Z.add_comm, Z.mod_add by (pose proof (pow2_pos b Hb); lia). apply Z.mod_small. exact Hx.
Qed.

Lemma bz_range b : 0 <= bz b < 2.
Proof. destruct b; simpl; lia. Qed.
Lemma zb_bz b : zb (bz b) = b.
Proof. destruct b; reflexivity. Qed.

Theorem a64_dec_enc i : a64_wf i -> a64_dec (a64_enc i) = Some i.
Proof.
  destruct i as [link imm|c imm|sf nz rt imm|b5 nz b40 rt imm|page rd imm|opc v rt imm]; cbn [a64_enc a64_wf]; intros Hwf.
  - (* B / BL *)
    pose proof (Z.mod_pos_bound imm (2 ^ 26) ltac:(lia)) as Hm. pose proof (bz_range link) as Hl.
    assert (F1 : fld (bz link * 2 ^ 31 + 5 * 2 ^ 26 + imm mod 2 ^ 26) 26 5 = 5).
    { replace (bz link * 2 ^ 31 + 5 * 2 ^ 26 + imm mod 2 ^ 26) with (bz link * 2 ^ (26 + 5) + 5 * 2 ^ 26 + imm mod 2 ^ 26) by pw.
      apply fld_sum; lia. }
    unfold a64_dec. rewrite F1. simpl (5 =? 5).
    assert (F2 : fld (bz link * 2 ^ 31 + 5 * 2 ^ 26 + imm mod 2 ^ 26) 31 1 = bz link).
    { replace (bz link * 2 ^ 31 + 5 * 2 ^ 26 + imm mod 2 ^ 26) with (0 * 2 ^ (31 + 1) + bz link * 2 ^ 31 + (5 * 2 ^ 26 + imm mod 2 ^ 26)) by pw.
      apply fld_sum; try lia; lits; lia. }
    assert (F3 : fld (bz link * 2 ^ 31 + 5 * 2 ^ 26 + imm mod 2 ^ 26) 0 26 = imm mod 2 ^ 26).
    { replace (bz link * 2 ^ 31 + 5 * 2 ^ 26 + imm mod 2 ^ 26) with ((bz link * 32 + 5) * 2 ^ (0 + 26) + (imm mod 2 ^ 26) * 2 ^ 0 + 0) by pw.
      apply fld_sum; lia. }
    rewrite F2, F3, zb_bz, sext_mod by (simpl; lia). reflexivity.
  - (* B.cond *)
    destruct Hwf as (Hc & Hi). pose proof (Z.mod_pos_bound imm (2 ^ 19) ltac:(lia)) as Hm.
    set (w := 84 * 2 ^ 24 + imm mod 2 ^ 19 * 2 ^ 5 + c).
    assert (G0 : fld w 26 5 = 21). { unfold w. replace (84 * 2 ^ 24 + imm mod 2 ^ 19 * 2 ^ 5 + c) with (0 * 2 ^ (26 + 5) + 21 * 2 ^ 26 + (imm mod 2 ^ 19 * 2 ^ 5 + c)) by pw. apply fld_sum; try lia; lits; lia. }
    assert (G1 : fld w 24 8 = 84). { unfold w. replace (84 * 2 ^ 24 + imm mod 2 ^ 19 * 2 ^ 5 + c) with (0 * 2 ^ (24 + 8) + 84 * 2 ^ 24 + (imm mod 2 ^ 19 * 2 ^ 5 + c)) by pw. apply fld_sum; try lia; lits; lia. }
    assert (G2 : fld w 4 1 = 0). { unfold w. replace (84 * 2 ^ 24 + imm mod 2 ^ 19 * 2 ^ 5 + c) with ((84 * 2 ^ 19 + imm mod 2 ^ 19) * 2 ^ (4 + 1) + 0 * 2 ^ 4 + c) by pw. apply fld_sum; lia. }
    assert (G3 : fld w 0 4 = c). { unfold w. replace (84 * 2 ^ 24 + imm mod 2 ^ 19 * 2 ^ 5 + c) with ((84 * 2 ^ 20 + imm mod 2 ^ 19 * 2) * 2 ^ (0 + 4) + c * 2 ^ 0 + 0) by pw. apply fld_sum; lia. }
    assert (G4 : fld w 5 19 = imm mod 2 ^ 19). { unfold w. replace (84 * 2 ^ 24 + imm mod 2 ^ 19 * 2 ^ 5 + c) with (84 * 2 ^ (5 + 19) + imm mod 2 ^ 19 * 2 ^ 5 + c) by pw. apply fld_sum; lia. }
    unfold a64_dec. rewrite G0, G1, G2, G3, G4. simpl. rewrite sext_mod by (simpl; lia). reflexivity.
  - (* CBZ / CBNZ *)
    destruct Hwf as (Hr & Hi). pose proof (Z.mod_pos_bound imm (2 ^ 19) ltac:(lia)) as Hm. pose proof (bz_range sf). pose proof (bz_range nz).
    set (w := bz sf * 2 ^ 31 + 26 * 2 ^ 25 + bz nz * 2 ^ 24 + imm mod 2 ^ 19 * 2 ^ 5 + rt).
    assert (G0 : fld w 26 5 = 13). { unfold w. replace (bz sf * 2 ^ 31 + 26 * 2 ^ 25 + bz nz * 2 ^ 24 + imm mod 2 ^ 19 * 2 ^ 5 + rt) with (bz sf * 2 ^ (26 + 5) + 13 * 2 ^ 26 + (bz nz * 2 ^ 24 + imm mod 2 ^ 19 * 2 ^ 5 + rt)) by pw. apply fld_sum; try lia; lits; lia. }
    assert (G1 : fld w 24 8 <> 84 \/ True) by auto.
    assert (G2 : fld w 25 6 = 26). { unfold w. replace (bz sf * 2 ^ 31 + 26 * 2 ^ 25 + bz nz * 2 ^ 24 + imm mod 2 ^ 19 * 2 ^ 5 + rt) with (bz sf * 2 ^ (25 + 6) + 26 * 2 ^ 25 + (bz nz * 2 ^ 24 + imm mod 2 ^ 19 * 2 ^ 5 + rt)) by pw. apply fld_sum; try lia; lits; lia. }
    assert (G3 : fld w 24 8 = bz sf * 128 + 52 + bz nz). { unfold w. replace (bz sf * 2 ^ 31 + 26 * 2 ^ 25 + bz nz * 2 ^ 24 + imm mod 2 ^ 19 * 2 ^ 5 + rt) with (0 * 2 ^ (24 + 8) + (bz sf * 128 + 52 + bz nz) * 2 ^ 24 + (imm mod 2 ^ 19 * 2 ^ 5 + rt)) by pw. apply fld_sum; try lia; lits; lia. }
    assert (G4 : fld w 31 1 = bz sf). { unfold w. replace (bz sf * 2 ^ 31 + 26 * 2 ^ 25 + bz nz * 2 ^ 24 + imm mod 2 ^ 19 * 2 ^ 5 + rt) with (0 * 2 ^ (31 + 1) + bz sf * 2 ^ 31 + (26 * 2 ^ 25 + bz nz * 2 ^ 24 + imm mod 2 ^ 19 * 2 ^ 5 + rt)) by pw. apply fld_sum; try lia; lits; lia. }
    assert (G5 : fld w 24 1 = bz nz). { unfold w. replace (bz sf * 2 ^ 31 + 26 * 2 ^ 25 + bz nz * 2 ^ 24 + imm mod 2 ^ 19 * 2 ^ 5 + rt) with ((bz sf * 64 + 26) * 2 ^ (24 + 1) + bz nz * 2 ^ 24 + (imm mod 2 ^ 19 * 2 ^ 5 + rt)) by pw. apply fld_sum; try lia; lits; lia. }
    assert (G6 : fld w 0 5 = rt). { unfold w. replace (bz sf * 2 ^ 31 + 26 * 2 ^ 25 + bz nz * 2 ^ 24 + imm mod 2 ^ 19 * 2 ^ 5 + rt) with ((bz sf * 2 ^ 26 + 26 * 2 ^ 20 + bz nz * 2 ^ 19 + imm mod 2 ^ 19) * 2 ^ (0 + 5) + rt * 2 ^ 0 + 0) by pw. apply fld_sum; lia. }
    assert (G7 : fld w 5 19 = imm mod 2 ^ 19). { unfold w. replace (bz sf * 2 ^ 31 + 26 * 2 ^ 25 + bz nz * 2 ^ 24 + imm mod 2 ^ 19 * 2 ^ 5 + rt) with ((bz sf * 128 + 52 + bz nz) * 2 ^ (5 + 19) + imm mod 2 ^ 19 * 2 ^ 5 + rt) by pw. apply fld_sum; lia. }
    unfold a64_dec. rewrite G0, G2, G3, G4, G5, G6, G7. simpl (13 =? 5).
    replace (bz sf * 128 + 52 + bz nz =? 84) with false by (symmetry; apply Z.eqb_neq; lia).
    simpl. rewrite !zb_bz, sext_mod by (simpl; lia). reflexivity.
  - (* TBZ / TBNZ *)
    destruct Hwf as (Hb & Hr & Hi). pose proof (Z.mod_pos_bound imm (2 ^ 14) ltac:(lia)) as Hm. pose proof (bz_range b5). pose proof (bz_range nz).
    set (w := bz b5 * 2 ^ 31 + 27 * 2 ^ 25 + bz nz * 2 ^ 24 + b40 * 2 ^ 19 + imm mod 2 ^ 14 * 2 ^ 5 + rt).
    assert (E : w = bz b5 * 2 ^ 31 + 27 * 2 ^ 25 + bz nz * 2 ^ 24 + b40 * 2 ^ 19 + imm mod 2 ^ 14 * 2 ^ 5 + rt) by reflexivity.
    assert (G0 : fld w 26 5 = 13). { rewrite E. replace (bz b5 * 2 ^ 31 + 27 * 2 ^ 25 + bz nz * 2 ^ 24 + b40 * 2 ^ 19 + imm mod 2 ^ 14 * 2 ^ 5 + rt) with (bz b5 * 2 ^ (26 + 5) + 13 * 2 ^ 26 + (2 ^ 25 + bz nz * 2 ^ 24 + b40 * 2 ^ 19 + imm mod 2 ^ 14 * 2 ^ 5 + rt)) by pw. apply fld_sum; try lia; lits; lia. }
    assert (G2 : fld w 25 6 = 27). { rewrite E. replace (bz b5 * 2 ^ 31 + 27 * 2 ^ 25 + bz nz * 2 ^ 24 + b40 * 2 ^ 19 + imm mod 2 ^ 14 * 2 ^ 5 + rt) with (bz b5 * 2 ^ (25 + 6) + 27 * 2 ^ 25 + (bz nz * 2 ^ 24 + b40 * 2 ^ 19 + imm mod 2 ^ 14 * 2 ^ 5 + rt)) by pw. apply fld_sum; try lia; lits; lia. }
    assert (G3 : fld w 24 8 = bz b5 * 128 + 54 + bz nz). { rewrite E. replace (bz b5 * 2 ^ 31 + 27 * 2 ^ 25 + bz nz * 2 ^ 24 + b40 * 2 ^ 19 + imm mod 2 ^ 14 * 2 ^ 5 + rt) with (0 * 2 ^ (24 + 8) + (bz b5 * 128 + 54 + bz nz) * 2 ^ 24 + (b40 * 2 ^ 19 + imm mod 2 ^ 14 * 2 ^ 5 + rt)) by pw. apply fld_sum; try lia; lits; lia. }
    assert (G4 : fld w 31 1 = bz b5). { rewrite E. replace (bz b5 * 2 ^ 31 + 27 * 2 ^ 25 + bz nz * 2 ^ 24 + b40 * 2 ^ 19 + imm mod 2 ^ 14 * 2 ^ 5 + rt) with (0 * 2 ^ (31 + 1) + bz b5 * 2 ^ 31 + (27 * 2 ^ 25 + bz nz * 2 ^ 24 + b40 * 2 ^ 19 + imm mod 2 ^ 14 * 2 ^ 5 + rt)) by pw. apply fld_sum; try lia; lits; lia. }
    assert (G5 : fld w 24 1 = bz nz). { rewrite E. replace (bz b5 * 2 ^ 31 + 27 * 2 ^ 25 + bz nz * 2 ^ 24 + b40 * 2 ^ 19 + imm mod 2 ^ 14 * 2 ^ 5 + rt) with ((bz b5 * 64 + 27) * 2 ^ (24 + 1) + bz nz * 2 ^ 24 + (b40 * 2 ^ 19 + imm mod 2 ^ 14 * 2 ^ 5 + rt)) by pw. apply fld_sum; try lia; lits; lia. }
    assert (G6 : fld w 19 5 = b40). { rewrite E. replace (bz b5 * 2 ^ 31 + 27 * 2 ^ 25 + bz nz * 2 ^ 24 + b40 * 2 ^ 19 + imm mod 2 ^ 14 * 2 ^ 5 + rt) with ((bz b5 * 128 + 54 + bz nz) * 2 ^ (19 + 5) + b40 * 2 ^ 19 + (imm mod 2 ^ 14 * 2 ^ 5 + rt)) by pw. apply fld_sum; try lia; lits; lia. }
    assert (G7 : fld w 0 5 = rt). { rewrite E. replace (bz b5 * 2 ^ 31 + 27 * 2 ^ 25 + bz nz * 2 ^ 24 + b40 * 2 ^ 19 + imm mod 2 ^ 14 * 2 ^ 5 + rt) with ((bz b5 * 2 ^ 26 + 27 * 2 ^ 20 + bz nz * 2 ^ 19 + b40 * 2 ^ 14 + imm mod 2 ^ 14) * 2 ^ (0 + 5) + rt * 2 ^ 0 + 0) by pw. apply fld_sum; lia. }
    assert (G8 : fld w 5 14 = imm mod 2 ^ 14). { rewrite E. replace (bz b5 * 2 ^ 31 + 27 * 2 ^ 25 + bz nz * 2 ^ 24 + b40 * 2 ^ 19 + imm mod 2 ^ 14 * 2 ^ 5 + rt) with ((bz b5 * 2 ^ 12 + 27 * 2 ^ 6 + bz nz * 2 ^ 5 + b40) * 2 ^ (5 + 14) + imm mod 2 ^ 14 * 2 ^ 5 + rt) by pw. apply fld_sum; lia. }
    unfold a64_dec. rewrite G0, G2, G3, G4, G5, G6, G7, G8. simpl (13 =? 5).
    replace (bz b5 * 128 + 54 + bz nz =? 84) with false by (symmetry; apply Z.eqb_neq; lia).
    simpl. rewrite !zb_bz, sext_mod by (simpl; lia). reflexivity.
  - (* ADR / ADRP *)
    destruct Hwf as (Hr & Hi). pose proof (Z.mod_pos_bound imm (2 ^ 21) ltac:(lia)) as Hm. pose proof (bz_range page).
    set (v := imm mod 2 ^ 21) in *.
    pose proof (Z.div_mod v 4 ltac:(lia)) as Hdv. pose proof (Z.mod_pos_bound v 4 ltac:(lia)) as Hlo.
    assert (Hhi : 0 <= v / 4 < 2 ^ 19) by (split; [apply Z.div_pos; lia|apply Z.div_lt_upper_bound; lits; lia]).
    set (lo := v mod 4) in *. set (hi := v / 4) in *.
    set (w := bz page * 2 ^ 31 + lo * 2 ^ 29 + 16 * 2 ^ 24 + hi * 2 ^ 5 + rd).
    assert (E : w = bz page * 2 ^ 31 + lo * 2 ^ 29 + 16 * 2 ^ 24 + hi * 2 ^ 5 + rd) by reflexivity.
    assert (G0 : fld w 26 5 = lo * 8 + 4). { rewrite E. replace (bz page * 2 ^ 31 + lo * 2 ^ 29 + 16 * 2 ^ 24 + hi * 2 ^ 5 + rd) with (bz page * 2 ^ (26 + 5) + (lo * 8 + 4) * 2 ^ 26 + (hi * 2 ^ 5 + rd)) by pw. apply fld_sum; try lia; lits; lia. }
    assert (G1 : fld w 24 8 = bz page * 128 + lo * 32 + 16). { rewrite E. replace (bz page * 2 ^ 31 + lo * 2 ^ 29 + 16 * 2 ^ 24 + hi * 2 ^ 5 + rd) with (0 * 2 ^ (24 + 8) + (bz page * 128 + lo * 32 + 16) * 2 ^ 24 + (hi * 2 ^ 5 + rd)) by pw. apply fld_sum; try lia; lits; lia. }
    assert (G2 : fld w 25 6 = lo * 16 + 8). { rewrite E. replace (bz page * 2 ^ 31 + lo * 2 ^ 29 + 16 * 2 ^ 24 + hi * 2 ^ 5 + rd) with (bz page * 2 ^ (25 + 6) + (lo * 16 + 8) * 2 ^ 25 + (hi * 2 ^ 5 + rd)) by pw. apply fld_sum; try lia; lits; lia. }
    assert (G3 : fld w 24 5 = 16). { rewrite E. replace (bz page * 2 ^ 31 + lo * 2 ^ 29 + 16 * 2 ^ 24 + hi * 2 ^ 5 + rd) with ((bz page * 4 + lo) * 2 ^ (24 + 5) + 16 * 2 ^ 24 + (hi * 2 ^ 5 + rd)) by pw. apply fld_sum; try lia; lits; lia. }
    assert (G4 : fld w 31 1 = bz page). { rewrite E. replace (bz page * 2 ^ 31 + lo * 2 ^ 29 + 16 * 2 ^ 24 + hi * 2 ^ 5 + rd) with (0 * 2 ^ (31 + 1) + bz page * 2 ^ 31 + (lo * 2 ^ 29 + 16 * 2 ^ 24 + hi * 2 ^ 5 + rd)) by pw. apply fld_sum; try lia; lits; lia. }
    assert (G5 : fld w 0 5 = rd). { rewrite E. replace (bz page * 2 ^ 31 + lo * 2 ^ 29 + 16 * 2 ^ 24 + hi * 2 ^ 5 + rd) with ((bz page * 2 ^ 26 + lo * 2 ^ 24 + 16 * 2 ^ 19 + hi) * 2 ^ (0 + 5) + rd * 2 ^ 0 + 0) by pw. apply fld_sum; lia. }
    assert (G6 : fld w 5 19 = hi). { rewrite E. replace (bz page * 2 ^ 31 + lo * 2 ^ 29 + 16 * 2 ^ 24 + hi * 2 ^ 5 + rd) with ((bz page * 128 + lo * 32 + 16) * 2 ^ (5 + 19) + hi * 2 ^ 5 + rd) by pw. apply fld_sum; lia. }
    assert (G7 : fld w 29 2 = lo). { rewrite E. replace (bz page * 2 ^ 31 + lo * 2 ^ 29 + 16 * 2 ^ 24 + hi * 2 ^ 5 + rd) with (bz page * 2 ^ (29 + 2) + lo * 2 ^ 29 + (16 * 2 ^ 24 + hi * 2 ^ 5 + rd)) by pw. apply fld_sum; try lia; lits; lia. }
    unfold a64_dec. rewrite G0, G1, G2, G3, G4, G5, G6, G7.
    replace (lo * 8 + 4 =? 5) with false by (symmetry; apply Z.eqb_neq; lia).
    replace (bz page * 128 + lo * 32 + 16 =? 84) with false by (symmetry; apply Z.eqb_neq; lia).
    replace (lo * 16 + 8 =? 26) with false by (symmetry; apply Z.eqb_neq; lia).
    replace (lo * 16 + 8 =? 27) with false by (symmetry; apply Z.eqb_neq; lia).
    simpl. rewrite zb_bz. replace (hi * 4 + lo) with v by lia. unfold v. rewrite sext_mod by (simpl; lia). reflexivity.
  - (* LDR literal *)
    destruct Hwf as (Ho & Hr & Hi). pose proof (Z.mod_pos_bound imm (2 ^ 19) ltac:(lia)) as Hm. pose proof (bz_range v).
    set (w := opc * 2 ^ 30 + 3 * 2 ^ 27 + bz v * 2 ^ 26 + imm mod 2 ^ 19 * 2 ^ 5 + rt).
    assert (E : w = opc * 2 ^ 30 + 3 * 2 ^ 27 + bz v * 2 ^ 26 + imm mod 2 ^ 19 * 2 ^ 5 + rt) by reflexivity.
    assert (G0 : fld w 26 5 = (opc mod 2) * 16 + 6 + bz v).
    { rewrite E. pose proof (Z.div_mod opc 2 ltac:(lia)). pose proof (Z.mod_pos_bound opc 2 ltac:(lia)).
      replace (opc * 2 ^ 30 + 3 * 2 ^ 27 + bz v * 2 ^ 26 + imm mod 2 ^ 19 * 2 ^ 5 + rt) with ((opc / 2) * 2 ^ (26 + 5) + ((opc mod 2) * 16 + 6 + bz v) * 2 ^ 26 + (imm mod 2 ^ 19 * 2 ^ 5 + rt)) by pw.
      apply fld_sum; try lia; lits; lia. }
    assert (G1 : fld w 24 8 = opc * 64 + 24 + bz v * 4). { rewrite E. replace (opc * 2 ^ 30 + 3 * 2 ^ 27 + bz v * 2 ^ 26 + imm mod 2 ^ 19 * 2 ^ 5 + rt) with (0 * 2 ^ (24 + 8) + (opc * 64 + 24 + bz v * 4) * 2 ^ 24 + (imm mod 2 ^ 19 * 2 ^ 5 + rt)) by pw. apply fld_sum; try lia; lits; lia. }
    assert (G2 : fld w 25 6 = (opc mod 2) * 32 + 12 + bz v * 2).
    { rewrite E. pose proof (Z.div_mod opc 2 ltac:(lia)). pose proof (Z.mod_pos_bound opc 2 ltac:(lia)).
      replace (opc * 2 ^ 30 + 3 * 2 ^ 27 + bz v * 2 ^ 26 + imm mod 2 ^ 19 * 2 ^ 5 + rt) with ((opc / 2) * 2 ^ (25 + 6) + ((opc mod 2) * 32 + 12 + bz v * 2) * 2 ^ 25 + (imm mod 2 ^ 19 * 2 ^ 5 + rt)) by pw.
      apply fld_sum; try lia; lits; lia. }
    assert (G3 : fld w 24 5 = 24 + bz v * 4).
    { rewrite E. replace (opc * 2 ^ 30 + 3 * 2 ^ 27 + bz v * 2 ^ 26 + imm mod 2 ^ 19 * 2 ^ 5 + rt) with ((opc * 2) * 2 ^ (24 + 5) + (24 + bz v * 4) * 2 ^ 24 + (imm mod 2 ^ 19 * 2 ^ 5 + rt)) by pw. apply fld_sum; try lia; lits; lia. }
    assert (G4 : fld w 27 3 = 3). { rewrite E. replace (opc * 2 ^ 30 + 3 * 2 ^ 27 + bz v * 2 ^ 26 + imm mod 2 ^ 19 * 2 ^ 5 + rt) with (opc * 2 ^ (27 + 3) + 3 * 2 ^ 27 + (bz v * 2 ^ 26 + imm mod 2 ^ 19 * 2 ^ 5 + rt)) by pw. apply fld_sum; try lia; lits; lia. }
    assert (G5 : fld w 24 2 = 0). { rewrite E. replace (opc * 2 ^ 30 + 3 * 2 ^ 27 + bz v * 2 ^ 26 + imm mod 2 ^ 19 * 2 ^ 5 + rt) with ((opc * 16 + 6 + bz v) * 2 ^ (24 + 2) + 0 * 2 ^ 24 + (imm mod 2 ^ 19 * 2 ^ 5 + rt)) by pw. apply fld_sum; try lia; lits; lia. }
    assert (G6 : fld w 30 2 = opc). { rewrite E. replace (opc * 2 ^ 30 + 3 * 2 ^ 27 + bz v * 2 ^ 26 + imm mod 2 ^ 19 * 2 ^ 5 + rt) with (0 * 2 ^ (30 + 2) + opc * 2 ^ 30 + (3 * 2 ^ 27 + bz v * 2 ^ 26 + imm mod 2 ^ 19 * 2 ^ 5 + rt)) by pw. apply fld_sum; try lia; lits; lia. }
    assert (G7 : fld w 26 1 = bz v). { rewrite E. replace (opc * 2 ^ 30 + 3 * 2 ^ 27 + bz v * 2 ^ 26 + imm mod 2 ^ 19 * 2 ^ 5 + rt) with ((opc * 8 + 3) * 2 ^ (26 + 1) + bz v * 2 ^ 26 + (imm mod 2 ^ 19 * 2 ^ 5 + rt)) by pw. apply fld_sum; try lia; lits; lia. }
    assert (G8 : fld w 0 5 = rt). { rewrite E. replace (opc * 2 ^ 30 + 3 * 2 ^ 27 + bz v * 2 ^ 26 + imm mod 2 ^ 19 * 2 ^ 5 + rt) with ((opc * 2 ^ 25 + 3 * 2 ^ 22 + bz v * 2 ^ 21 + imm mod 2 ^ 19) * 2 ^ (0 + 5) + rt * 2 ^ 0 + 0) by pw. apply fld_sum; lia. }
    assert (G9 : fld w 5 19 = imm mod 2 ^ 19). { rewrite E. replace (opc * 2 ^ 30 + 3 * 2 ^ 27 + bz v * 2 ^ 26 + imm mod 2 ^ 19 * 2 ^ 5 + rt) with ((opc * 64 + 24 + bz v * 4) * 2 ^ (5 + 19) + imm mod 2 ^ 19 * 2 ^ 5 + rt) by pw. apply fld_sum; lia. }
    unfold a64_dec. rewrite G0, G1, G2, G3, G4, G5, G6, G7, G8, G9.
    pose proof (Z.mod_pos_bound opc 2 ltac:(lia)).
    replace (opc mod 2 * 16 + 6 + bz v =? 5) with false by (symmetry; apply Z.eqb_neq; lia).
    replace (opc * 64 + 24 + bz v * 4 =? 84) with false by (symmetry; apply Z.eqb_neq; lia).
    replace (opc mod 2 * 32 + 12 + bz v * 2 =? 26) with false by (symmetry; apply Z.eqb_neq; lia).
    replace (opc mod 2 * 32 + 12 + bz v * 2 =? 27) with false by (symmetry; apply Z.eqb_neq; lia).
    replace (24 + bz v * 4 =? 16) with false by (symmetry; apply Z.eqb_neq; lia).
    simpl. rewrite zb_bz, sext_mod by (simpl; lia). reflexivity.
Qed.

(* ------------------------------------------------------------------ the meaning of a patched word *)
Definition kind_of (i : a64i) : refkind :=
  match i with
  | IB _ _ => K_Imm26
  | IBcond _ _ | ICb _ _ _ _ | ILdrLit _ _ _ _ => K_Imm19
  | ITb _ _ _ _ _ => K_Imm14
  | IAdr false _ _ => K_Adr
  | IAdr true _ _ => K_Adrp
  end.

Definition set_imm (i : a64i) (v : Z) : a64i :=
  match i with
  | IB l _ => IB l v | IBcond c _ => IBcond c v | ICb a b r _ => ICb a b r v | ITb a b c r _ => ITb a b c r v
  | IAdr p r _ => IAdr p r v | ILdrLit o v' r _ => ILdrLit o v' r v
  end.

(* the bits the displacement contributes to the instruction word *)
Definition imm_bits (i : a64i) (v : Z) : Z :=
  match i with
  | IB _ _ => v mod 2 ^ 26
  | IBcond _ _ | ICb _ _ _ _ | ILdrLit _ _ _ _ => (v mod 2 ^ 19) * 2 ^ 5
  | ITb _ _ _ _ _ => (v mod 2 ^ 14) * 2 ^ 5
  | IAdr _ _ _ => ((v mod 2 ^ 21) mod 4) * 2 ^ 29 + ((v mod 2 ^ 21) / 4) * 2 ^ 5
  end.

Lemma enc_set_imm i v : a64_enc (set_imm i v) = a64_enc (set_imm i 0) + imm_bits i v.
Proof.
  destruct i; cbn [set_imm a64_enc imm_bits]; rewrite ?Zmod_0_l, ?Zdiv_0_l; lia.
Qed.

Lemma lor_disjoint_add a b : Z.land a b = 0 -> Z.lor a b = a + b.
Proof. intros H. rewrite Z.add_nocarry_lxor by exact H. symmetry. apply Z.lxor_lor. exact H. Qed.

Lemma land_disjoint w0 m mask : 0 <= mask -> Z.land w0 mask = 0 -> Z.land m (Z.lnot mask) = 0 -> Z.land w0 m = 0.
Proof.
  intros Hm H1 H2. apply Z.bits_inj'. intros n Hn. rewrite Z.land_spec, Z.bits_0.
  assert (A : Z.testbit (Z.land w0 mask) n = false) by (rewrite H1; apply Z.bits_0).
  assert (B : Z.testbit (Z.land m (Z.lnot mask)) n = false) by (rewrite H2; apply Z.bits_0).
  rewrite Z.land_spec in A, B. rewrite Z.lnot_spec in B by lia.
  destruct (Z.testbit w0 n), (Z.testbit m n), (Z.testbit mask n); simpl in *; congruence.
Qed.

(* explicit form of the encoded ADR/ADRP field (from the C17 model) *)
Lemma adr_enc_form k off m : (k = K_Adr \/ k = K_Adrp) -> int64 off -> encode_offset (fmt_of_kind k) off = Some m ->
  let o := off / 2 ^ discard (fmt_of_kind k) in
  off mod 2 ^ discard (fmt_of_kind k) = 0 /\ - 2 ^ 20 <= o < 2 ^ 20 /\
  m = ((o mod 2 ^ 21) mod 4) * 2 ^ 29 + ((o mod 2 ^ 21) / 4) * 2 ^ 5.
Proof.
  intros Hk Hi He o.
  assert (Ha : is_adr_fmt (fmt_of_kind k)) by (destruct Hk as [-> | ->]; unfold is_adr_fmt; simpl; repeat split; auto; lia).
  pose proof (a64_adr_roundtrip _ _ _ Ha Hi He) as (Hdec & Hm & _).
  (* unfold the encoder *)
  unfold encode_offset in He. replace ((vsize (fmt_of_kind k) =? 1) || (vsize (fmt_of_kind k) =? 2) || (vsize (fmt_of_kind k) =? 4)) with true in He
    by (destruct Hk as [-> | ->]; reflexivity).
  destruct (encode_offset32 (fmt_of_kind k) off) as [m32|] eqn:E32; [|discriminate]. injection He as <-.
  unfold encode_offset32 in E32.
  set (dl := discard (fmt_of_kind k)) in *.
  assert (Hdl : 0 <= dl <= 12) by (unfold dl; destruct Hk as [-> | ->]; simpl; lia).
  replace ((bits (fmt_of_kind k) =? 0) || (vsize (fmt_of_kind k) * 8 <? bits (fmt_of_kind k))) with false in E32 by (destruct Hk as [-> | ->]; reflexivity).
  replace (has_sign_bit (ty (fmt_of_kind k))) with false in E32 by (destruct Hk as [-> | ->]; reflexivity).
  cbn [andb orb] in E32.
  replace (match ty (fmt_of_kind k) with UnsignedOffset => true | _ => false end) with false in E32 by (destruct Hk as [-> | ->]; reflexivity).
  destruct (negb (dl =? 0) && negb (off mod 2 ^ dl =? 0)) eqn:Ed; [discriminate|].
  apply discard_check_false in Ed; [|unfold dl; lia].
  destruct (negb ((- 2 ^ 31 <=? off / 2 ^ dl) && (off / 2 ^ dl <? 2 ^ 31))); [discriminate|].
  replace (bits (fmt_of_kind k)) with 21 in E32 by (destruct Hk as [-> | ->]; reflexivity).
  destruct ((- 2 ^ (21 - 1) <=? off / 2 ^ dl) && (off / 2 ^ dl <? 2 ^ (21 - 1))) eqn:Er; [|discriminate].
  apply andb_true_iff in Er. destruct Er as (R1 & R2). apply Z.leb_le in R1. apply Z.ltb_lt in R2. change (21 - 1) with 20 in R1, R2.
  replace (ty (fmt_of_kind k)) with (ty (fmt_of_kind k)) in E32 by reflexivity.
  assert (Em : m32 = (wrap 32 (off / 2 ^ dl) mod 4) * 2 ^ 29 + (wrap 32 (off / 2 ^ dl) / 4) mod 2 ^ 19 * 2 ^ 5).
  { destruct Hk as [-> | ->]; cbn [fmt_of_kind ty vsize bits shift] in E32; cbn [negb orb Z.eqb] in E32;
      simpl ((4 =? 4)) in E32; simpl (21 =? 21) in E32; simpl (5 =? 5) in E32; cbn [negb orb] in E32; injection E32 as <-; reflexivity. }
  split; [exact Ed|]. split; [fold o in R1, R2; lia|].
  fold o in Em, R1, R2. rewrite Em. unfold wrap.
  assert (H0 : 0 <= 2 ^ 29 * 3 + 2 ^ 5 * (2 ^ 19 - 1) < 2 ^ 32) by (vm_compute; split; [discriminate|reflexivity]).
  set (x := o mod 2 ^ 32). set (y := o mod 2 ^ 21).
  assert (Hx : x = y + 2 ^ 21 * ((o / 2 ^ 21) mod 2 ^ 11)).
  { unfold x, y. change (2 ^ 32) with (2 ^ 21 * 2 ^ 11). rewrite Z.rem_mul_r by lia. reflexivity. }
  pose proof (Z.mod_pos_bound o (2 ^ 21) ltac:(lia)) as Hy. fold y in Hy.
  pose proof (Z.mod_pos_bound (o / 2 ^ 21) (2 ^ 11) ltac:(lia)) as Hz. set (z := (o / 2 ^ 21) mod 2 ^ 11) in *.
  assert (E1 : x mod 4 = y mod 4).
  { rewrite Hx. replace (y + 2 ^ 21 * z) with (y + (2 ^ 19 * z) * 4) by (change (2 ^ 21) with (2 ^ 19 * 4); ring). apply Z.mod_add. lia. }
  assert (E2 : (x / 4) mod 2 ^ 19 = y / 4).
  { rewrite Hx. replace (y + 2 ^ 21 * z) with (y + (2 ^ 19 * z) * 4) by (change (2 ^ 21) with (2 ^ 19 * 4); ring).
    rewrite Z.div_add by lia. replace (y / 4 + 2 ^ 19 * z) with (y / 4 + z * 2 ^ 19) by ring. rewrite Z.mod_add by lia.
    apply Z.mod_small. split; [apply Z.div_pos; lia|apply Z.div_lt_upper_bound; [lia|]]. change (4 * 2 ^ 19) with (2 ^ 21). lia. }
  rewrite E1, E2. apply Z.mod_small.
  pose proof (Z.mod_pos_bound y 4 ltac:(lia)). assert (0 <= y / 4 < 2 ^ 19) by (split; [apply Z.div_pos; lia|apply Z.div_lt_upper_bound; [lia|change (4 * 2 ^ 19) with (2 ^ 21); lia]]).
  change (2 ^ (8 * vsize (fmt_of_kind k))) with (2 ^ (8 * vsize (fmt_of_kind k))).
  replace (vsize (fmt_of_kind k)) with 4 by (destruct Hk as [-> | ->]; reflexivity). change (2 ^ (8 * 4)) with (2 ^ 32).
  lits. nia.
Qed.

Lemma kind_signed_or_adr i : (signed_kind (kind_of i) /\ wf_contig (fmt_of_kind (kind_of i)) /\ kind_mask (kind_of i) = field_mask (fmt_of_kind (kind_of i))) \/
                             (exists p r v, i = IAdr p r v).
Proof.
  destruct i as [l v|c v|a b r v|a b c r v|p r v|o v' r v]; try (left; exact (match kind_cases _ with or_introl H => H | or_intror (conj _ (conj _ K)) => match K with or_introl E => ltac:(discriminate E) | or_intror E => ltac:(discriminate E) end end)).
  right. eauto.
Qed.

(* THE statement: the word found in the image at a label-bearing AArch64 instruction - the instruction emitted with a zero displacement
   field OR-ed with the encoded displacement `off` (what bind_label / resolve_cross_section_fixups / relocate_to_base write) - decodes,
   by the structural decoder, to that very instruction with displacement off, and designates pc + off (ADRP: Page(pc) + off) *)
Lemma a64_patched_word i off m :
  a64_wf (set_imm i 0) -> hole_ok (kind_of i) (a64_enc (set_imm i 0)) = true -> int64 off ->
  encode_offset (fmt_of_kind (kind_of i)) off = Some m ->
  let w := Z.lor (a64_enc (set_imm i 0)) m in
  let v := off / 2 ^ discard (fmt_of_kind (kind_of i)) in
  w = a64_enc (set_imm i v) /\ a64_wf (set_imm i v) /\ off = v * 2 ^ discard (fmt_of_kind (kind_of i)).
Proof.
  intros Hwf Hh Hi He w v.
  destruct (hole_ok_spec _ _ Hh) as (Hw0 & Hz).
  assert (Hform : off mod 2 ^ discard (fmt_of_kind (kind_of i)) = 0 /\ m = imm_bits i v /\ a64_wf (set_imm i v) /\ Z.land m (Z.lnot (kind_mask (kind_of i))) = 0 /\ 0 <= kind_mask (kind_of i)).
  { destruct (kind_signed_or_adr i) as [(Hs & Hc & Hm)|(p & r & x & ->)].
    - pose proof (signed_spec _ off Hs Hc Hi) as Hsp. rewrite He in Hsp. destruct Hsp as ((Hd & Hr) & Hmv).
      assert (Hout : Z.land m (Z.lnot (kind_mask (kind_of i))) = 0).
      { rewrite Hm, Hmv. unfold field_mask. destruct Hc as (_ & Hb & Hsh & _). apply contig_outside_clear; try lia. apply Z.mod_pos_bound. apply pow2_pos. lia. }
      assert (Hmask : 0 <= kind_mask (kind_of i)).
      { rewrite Hm. unfold field_mask. destruct Hc as (_ & Hb & Hsh & _). pose proof (pow2_pos (bits (fmt_of_kind (kind_of i))) ltac:(lia)). pose proof (pow2_pos (shift (fmt_of_kind (kind_of i))) Hsh). nia. }
      split; [exact Hd|]. fold v in Hr, Hmv.
      destruct i as [l x|c x|a b r x|a b c r x|p r x|o v' r x];
        try (exfalso; destruct p; unfold signed_kind in Hs; simpl in Hs; discriminate Hs);
        cbn [kind_of fmt_of_kind bits shift discard imm_bits set_imm a64_wf] in *;
        (split; [rewrite Hmv; try (change (2 ^ 0) with 1; rewrite Z.mul_1_r); reflexivity|]); (split; [|split; [exact Hout|exact Hmask]]);
        try (change (26 - 1) with 25 in Hr); try (change (19 - 1) with 18 in Hr); try (change (14 - 1) with 13 in Hr); intuition lia.
    - assert (Hk : kind_of (IAdr p r x) = K_Adr \/ kind_of (IAdr p r x) = K_Adrp) by (destruct p; simpl; auto).
      destruct (adr_enc_form _ off m Hk Hi He) as (Hd & Hr & Hmv). fold v in Hr, Hmv.
      assert (Ha : is_adr_fmt (fmt_of_kind (kind_of (IAdr p r x)))) by (destruct p; unfold is_adr_fmt; simpl; repeat split; auto; lia).
      pose proof (a64_adr_roundtrip _ _ _ Ha Hi He) as (_ & _ & Hout).
      split; [exact Hd|]. split; [exact Hmv|]. cbn [set_imm a64_wf] in *. split; [tauto|].
      replace (kind_mask (kind_of (IAdr p r x))) with a64_adr_mask by (destruct p; reflexivity).
      split; [exact Hout|]. vm_compute. discriminate. }
  destruct Hform as (Hd & Hmv & Hwfv & Hout & Hmask).
  split; [|split; [exact Hwfv|]].
  - unfold w. rewrite lor_disjoint_add by (eapply land_disjoint; eauto). rewrite (enc_set_imm i v), Hmv. reflexivity.
  - unfold v; symmetry; apply div_pow2_exact; [destruct i as [| | | |[|]|]; simpl; lia|exact Hd].
Qed.

Theorem a64_patched_meaning i off m pc :
  a64_wf (set_imm i 0) -> hole_ok (kind_of i) (a64_enc (set_imm i 0)) = true -> int64 off ->
  encode_offset (fmt_of_kind (kind_of i)) off = Some m ->
  let w := Z.lor (a64_enc (set_imm i 0)) m in
  let v := off / 2 ^ discard (fmt_of_kind (kind_of i)) in
  a64_dec w = Some (set_imm i v) /\
  a64_site_target pc w = Some (match i with IAdr true _ _ => ((pc - pc mod 4096) + off) mod 2 ^ 64 | _ => (pc + off) mod 2 ^ 64 end).
Proof.
  intros Hwf Hh Hi He w v.
  destruct (a64_patched_word i off m Hwf Hh Hi He) as (Ew & Hwfv & Hoff). fold w in Ew. fold v in Ew, Hwfv, Hoff.
  assert (Hdec : a64_dec w = Some (set_imm i v)) by (rewrite Ew; apply a64_dec_enc; exact Hwfv).
  split; [exact Hdec|]. unfold a64_site_target. rewrite Hdec. f_equal.
  destruct i as [l x|c x|a b r x|a b c r x|[|] r x|o v' r x]; cbn [set_imm a64_target kind_of fmt_of_kind discard] in *;
    f_equal; rewrite Hoff; lits; try lia.
Qed.

(* the hypotheses are satisfiable: `cbz x5, L` (word B4000005) patched with the displacement 1 MiB - 4 *)
Example a64_patched_meaning_witness :
  let i := ICb true false 5 0 in
  a64_wf (set_imm i 0) /\ hole_ok (kind_of i) (a64_enc (set_imm i 0)) = true /\
  exists m, encode_offset (fmt_of_kind (kind_of i)) 1048572 = Some m /\
            a64_site_target 4096 (Z.lor (a64_enc (set_imm i 0)) m) = Some (4096 + 1048572).
Proof.
  cbv zeta. split; [vm_compute; repeat split; discriminate|]. split; [vm_compute; reflexivity|].
  exists 8388576. split; vm_compute; reflexivity.
Qed.

(* C03 — the property in architectural terms for AArch64: after ANY label program (any interleaving of references, binds, data, section
   switches and layouts with the offsets `offs`), the 32-bit word found in the byte image at a resolved reference - emitted as the
   instruction i with a zero displacement field - decodes (structural decoder of A64Dec.v, tied to C02's database model in A64DbTie.v)
   to that instruction, and the address it designates when executed at its flattened position is the address where the label was
   bound plus the reference's addend (ADRP: Page(pc) + the page displacement AsmJit encodes).
   Composition of LabelsProofs.resolved_inv, FlatProofs.image_word and A64Dec.a64_patched_meaning. *)
From Coq Require Import ZArith List Bool Lia.
From Verif Require Import Base.ZBits Codec.OffsetModel Codec.OffsetProofs Labels.LabelsModel Labels.LabelsProofs Labels.LabelsExact
  Labels.FlatModel Labels.FlatLemmas Labels.FlatProofs Labels.A64Dec.
Import ListNotations.
Local Open Scope Z_scope.

(* the word of a resolved reference is the emitted word OR the encoding of the final displacement (any program with stable layouts) *)
Lemma resolved_enc_stable ops offs id r :
  resolves_with offs ops ->
  nth_error (refs (run init ops)) id = Some r -> ~ In id (ids (pending (run init ops))) ->
  exists ls lo m, nth_error (labels (run init ops)) (r_label r) = Some (Some (ls, lo)) /\
                  encode_offset (fmt_of_kind (r_kind r)) (final_disp offs ls lo r) = Some m /\ r_word r = Z.lor (r_w0 r) m /\
                  hole_ok (r_kind r) (r_w0 r) = true.
Proof.
  intros R Hr Hp.
  assert (I : inv (run init ops)) by (apply run_inv, inv_init).
  assert (L : lay_ok offs (run init ops)).
  { apply run_lay_ok; [apply inv_init| |exact R]. intros [|i] r0 so to H; discriminate. }
  destruct (resolved_inv ops id r Hr Hp) as (ls & lo & Hl & (m & He & Hw) & (W1 & W2)).
  exists ls, lo, m. split; [exact Hl|]. split; [|split; [exact Hw|exact (inv_hole _ _ _ _ _ I id r Hr)]]. rewrite <- He. f_equal.
  unfold disp, final_disp. destruct (r_lay r) as [[so to]|] eqn:El; simpl.
  - destruct (L id r so to Hr El) as (ls' & lo' & Hl' & -> & ->). rewrite Hl in Hl'. injection Hl' as <- <-. reflexivity.
  - rewrite (W1 eq_refl). f_equal; lia.
Qed.

Lemma add_to_i64_mod a x : (a + to_i64 x) mod 2 ^ 64 = (a + x) mod 2 ^ 64.
Proof.
  rewrite <- (Zplus_mod_idemp_r (to_i64 x)), <- (Zplus_mod_idemp_r x). f_equal. f_equal.
  unfold to_i64. rewrite sext_is_sextz. unfold sextz. destruct (x mod 2 ^ 64 <? 2 ^ (64 - 1)).
  - apply Z.mod_mod. lia.
  - rewrite Zminus_mod, Z.mod_same, Z.sub_0_r, Z.mod_mod, Z.mod_mod by lia. reflexivity.
Qed.

Theorem a64_reference_meaning ops offs id r i :
  resolves_with offs ops ->
  let s := run init ops in let f := frun finit ops in
  nth_error (refs s) id = Some r -> ~ In id (ids (pending s)) ->
  r_kind r = kind_of i -> r_w0 r = a64_enc (set_imm i 0) -> a64_wf (set_imm i 0) ->
  exists ls lo, nth_error (f_labels f) (r_label r) = Some (Some (ls, lo)) /\
    let w := read_word (nth (r_sec r) (f_secs f) []) (r_site r) 4 in
    let pc := nth (r_sec r) offs 0 + r_site r in
    let target := nth ls offs 0 + lo + r_rel r in
    a64_dec w = Some (set_imm i (final_disp offs ls lo r / 2 ^ discard (fmt_of_kind (kind_of i)))) /\
    a64_site_target pc w = Some (match i with
                                 | IAdr true _ _ => ((pc - pc mod 4096) + (target - pc)) mod 2 ^ 64
                                 | _ => target mod 2 ^ 64
                                 end).
Proof.
  intros R s f Hr Hp Hk Hw0 Hwf.
  destruct (resolved_enc_stable ops offs id r R Hr Hp) as (ls & lo & m & Hl & He & Hw & Hh). fold s in Hl.
  exists ls, lo. destruct (flat_refines ops) as (_ & E & _). fold s f in E. rewrite E. split; [exact Hl|]. cbv zeta.
  pose proof (image_word ops id r Hr) as Hiw. cbv zeta in Hiw. fold f in Hiw.
  replace 4%nat with (vnat (r_kind r)) by (rewrite Hk; destruct i as [| | | |[|]|]; reflexivity). rewrite Hiw, Hw, Hw0.
  rewrite Hk, Hw0 in Hh. rewrite Hk in He.
  destruct (a64_patched_meaning i _ m (nth (r_sec r) offs 0 + r_site r) Hwf Hh (to_i64_int64 _) He) as (Hd & Ht).
  split; [exact Hd|]. rewrite Ht. f_equal. unfold final_disp.
  destruct i as [| | | |[|]|]; rewrite add_to_i64_mod; f_equal; lia.
Qed.

(* satisfiability: a two-section program - `cbz x5, L` (word B4000005) at offset 4 of section 0, L bound at offset 8 of section 1,
   sections laid out at 0 and 4096: the image word decodes to cbz x5 with imm 1025 and designates 4104 = 4096 + 8 *)
Example a64_reference_meaning_witness :
  let ops := [ONewLabel; ONewSection; ORaw [31; 32; 3; 213]; ORef K_Imm19 0 O [] 3019898885 []; OSection 1%nat; OGap 8; OBind O; OResolve [0; 4096]] in
  let i := ICb true false 5 0 in
  let s := run init ops in let f := frun finit ops in
  resolves_with [0; 4096] ops /\ pending s = [] /\
  exists r, nth_error (refs s) O = Some r /\ r_kind r = kind_of i /\ r_w0 r = a64_enc (set_imm i 0) /\ a64_wf (set_imm i 0) /\
            r_sec r = O /\ r_site r = 4 /\
            a64_site_target 4 (read_word (nth O (f_secs f) []) 4 4) = Some 4104.
Proof.
  cbv zeta. split.
  - intros o Ho Hr. cbn [In] in Ho. repeat (destruct Ho as [<-|Ho]; [try discriminate Hr; try reflexivity|]). destruct Ho.
  - split; [vm_compute; reflexivity|]. eexists. split; [vm_compute; reflexivity|]. cbn [r_kind r_w0 r_sec r_site].
    split; [reflexivity|]. split; [vm_compute; reflexivity|]. split; [vm_compute; repeat split; discriminate|].
    split; [reflexivity|]. split; [reflexivity|]. vm_compute. reflexivity.
Qed.

(* ADRP: a resolved reference designates the 4 KiB page of the label (+ addend): resolution guarantees that the distance is a multiple
   of 4096 (anything else is refused, never truncated), so Page(pc) + (target - pc) = Page(target) *)
Theorem a64_adrp_reference_page ops offs id r rd :
  resolves_with offs ops ->
  let s := run init ops in let f := frun finit ops in
  nth_error (refs s) id = Some r -> ~ In id (ids (pending s)) ->
  r_kind r = K_Adrp -> r_w0 r = a64_enc (IAdr true rd 0) -> 0 <= rd < 32 ->
  exists ls lo, nth_error (f_labels f) (r_label r) = Some (Some (ls, lo)) /\
    let w := read_word (nth (r_sec r) (f_secs f) []) (r_site r) 4 in
    let pc := nth (r_sec r) offs 0 + r_site r in
    let target := nth ls offs 0 + lo + r_rel r in
    (target - pc) mod 4096 = 0 /\
    a64_site_target pc w = Some ((target - target mod 4096) mod 2 ^ 64).
Proof.
  intros R s f Hr Hp Hk Hw0 Hrd. subst s f.
  assert (Hwf : a64_wf (set_imm (IAdr true rd 0) 0)) by (cbn [set_imm a64_wf]; split; [exact Hrd|pw]).
  destruct (a64_reference_meaning ops offs id r (IAdr true rd 0) R Hr Hp Hk Hw0 Hwf) as (ls & lo & Hl & _ & Ht).
  destruct (resolved_enc_stable ops offs id r R Hr Hp) as (ls' & lo' & m & Hl' & He & Hw & Hh).
  destruct (flat_refines ops) as (_ & E & _). rewrite E in Hl. rewrite Hl in Hl'. injection Hl' as <- <-.
  rewrite Hk in He, Hh. rewrite Hw0 in Hh.
  destruct (a64_patched_word (IAdr true rd 0) _ m Hwf Hh (to_i64_int64 _) He) as (_ & _ & Hoff).
  cbn [kind_of fmt_of_kind discard] in Hoff.
  exists ls, lo. split; [rewrite E; exact Hl|]. cbv zeta in *.
  set (pc := nth (r_sec r) offs 0 + r_site r) in *. set (target := nth ls offs 0 + lo + r_rel r) in *.
  assert (Hd : final_disp offs ls lo r = to_i64 (target - pc)) by (unfold final_disp, target, pc; f_equal; lia).
  assert (Hm : (target - pc) mod 4096 = 0).
  { pose proof (add_to_i64_mod 0 (target - pc)) as Tm. rewrite !Z.add_0_l in Tm. rewrite <- Hd in Tm.
    unfold final_disp in Tm. fold pc in Tm. rewrite Hoff in Tm.
    set (q := to_i64 (nth ls offs 0 + lo - pc + r_rel r) / 2 ^ 12) in Tm.
    change (2 ^ 12) with 4096 in Tm. change (2 ^ 64) with 18446744073709551616 in Tm.
    clearbody q. clear - Tm. Z.div_mod_to_equations. lia. }
  split; [exact Hm|]. rewrite Ht. f_equal. f_equal.
  assert (Hpm : pc mod 4096 = target mod 4096).
  { replace target with (pc + (target - pc)) at 1 by lia. rewrite Zplus_mod, Hm, Z.add_0_r, Z.mod_mod by lia. reflexivity. }
  lia.
Qed.

Example a64_adrp_reference_page_witness :
  let ops := [ONewLabel; ORef K_Adrp 0 O [] 2415919107 []; OGap 4092; OBind O; OResolve [0]] in
  let s := run init ops in let f := frun finit ops in
  resolves_with [0] ops /\ pending s = [] /\ 2415919107 = a64_enc (IAdr true 3 0) /\
  nth_error (labels s) O = Some (Some (O, 4096)) /\
  a64_site_target 0 (read_word (nth O (f_secs f) []) 0 4) = Some 4096.
Proof.
  cbv zeta. split.
  - intros o Ho Hr. cbn [In] in Ho. repeat (destruct Ho as [<-|Ho]; [try discriminate Hr; try reflexivity|]). destruct Ho.
  - repeat split; vm_compute; reflexivity.
Qed.

(* C03 — end to end, with NO hypothesis about a structural instruction: a `jmp / call / jcc rel32` or `jmp / jcc rel8` to a label, emitted
   anywhere in ANY label program (the opcode bytes are the `pre` bytes of the ORef operation, as the x86 assembler emits them), once the
   reference is resolved, is - decoded from the final byte image by C01's proven decoder - a branch to the address where the label was
   bound.  Discharges the hypothesis "a well-formed instruction lies at the site" of X86RefMeaning.x86_branch_in_image for the concrete
   opcode forms: the image is shown to contain `pre ++ word` at the site (sections only ever grow by appending items), and `pre ++ word`
   is shown to be C01's `senc` of an explicit well-formed structural instruction. *)
From Coq Require Import ZArith List Bool Lia.
From Verif Require Import Base.ZBits Codec.OffsetModel Codec.OffsetProofs Labels.LabelsModel Labels.LabelsProofs Labels.LabelsExact
  Labels.FlatModel Labels.FlatLemmas Labels.FlatProofs Labels.A64RefMeaning Reloc.RelocModel Reloc.RelocProofs Reloc.X86Meaning Labels.X86RefMeaning.
From Verif Require Import X86.X86Model X86.X86Proofs.
Import ListNotations.
Local Open Scope Z_scope.

(* ------------------------------------------------------------------ sections only grow by appending items *)
Definition secs_ext (a b : list section) : Prop :=
  forall k sc, nth_error a k = Some sc -> exists sc' its, nth_error b k = Some sc' /\ s_items sc' = s_items sc ++ its.

Lemma secs_ext_refl a : secs_ext a a.
Proof. intros k sc H. exists sc, []. rewrite app_nil_r. auto. Qed.

Lemma secs_ext_trans a b c : secs_ext a b -> secs_ext b c -> secs_ext a c.
Proof.
  intros H1 H2 k sc H. destruct (H1 k sc H) as (sc1 & i1 & A1 & B1). destruct (H2 k sc1 A1) as (sc2 & i2 & A2 & B2).
  exists sc2, (i1 ++ i2). split; [exact A2|]. rewrite B2, B1, app_assoc. reflexivity.
Qed.

Lemma secs_ext_snoc a x : secs_ext a (a ++ [x]).
Proof.
  intros k sc H. exists sc, []. rewrite app_nil_r. split; [|reflexivity].
  rewrite nth_error_app1; [exact H|]. apply nth_error_Some. congruence.
Qed.

Lemma secs_ext_append (s : state) its n : secs_ext (secs s) (secs (append_cur s its n)).
Proof.
  intros k sc H. unfold append_cur. cbn [set_secs secs].
  destruct (Nat.eq_dec k (cur s)) as [->|N].
  - exists (sec_append (cur_sec s) its n), its. split.
    + eapply nth_error_upd_eq. exact H.
    + unfold cur_sec. rewrite (nth_error_nth _ _ _ H). reflexivity.
  - exists sc, []. rewrite app_nil_r. split; [|reflexivity]. rewrite nth_error_upd_neq by (intros X; apply N; symmetry; exact X). exact H.
Qed.

Lemma step_secs_ext s o : secs_ext (secs s) (secs (fst (step s o))).
Proof.
  destruct o; cbn [step].
  - apply secs_ext_refl.
  - cbn [fst set_secs secs]. apply secs_ext_snoc.
  - destruct (Nat.ltb k (length (secs s))); apply secs_ext_refl.
  - apply secs_ext_append.
  - destruct (0 <=? n); [apply secs_ext_append|apply secs_ext_refl].
  - destruct (nth_error (labels s) l) as [lb|]; [|apply secs_ext_refl].
    destruct (hole_ok k w0); cbn [negb]; cbv iota; [|apply secs_ext_refl].
    destruct lb as [[ls lo]|]; [destruct (Nat.eqb ls (cur s)); [destruct (write_offset _ _ _); [|apply secs_ext_refl]|]|];
      cbn [fst set_fix secs]; apply secs_ext_append.
  - destruct (nth_error (labels s) l) as [[v|]|]; try apply secs_ext_refl.
    destruct (bind_precheck l (cur s) (s_len (cur_sec s)) (pending s) (refs s)); cbn [negb]; cbv iota; [|apply secs_ext_refl].
    destruct (bind_rel l (cur s) (s_len (cur_sec s)) (pending_rel s) (relocs s)) as [[prk rl] nrel]. cbn [fst set_fix set_rel set_labels secs].
    apply secs_ext_refl.
  - destruct (nth_error (labels s) l) as [lb|]; [|apply secs_ext_refl].
    destruct (size_ok size); cbn [negb]; cbv iota; [|apply secs_ext_refl].
    destruct lb; cbn [fst set_rel secs]; apply secs_ext_append.
  - destruct (nth_error (labels s) l) as [ll|]; [|apply secs_ext_refl].
    destruct (nth_error (labels s) b) as [lb|]; [|apply secs_ext_refl].
    destruct (size_ok size); cbn [negb]; cbv iota; [|apply secs_ext_refl].
    destruct (match ll with Some (ls, lo) => _ | None => None end); cbn [fst set_rel secs]; apply secs_ext_append.
  - cbn [fst set_fix secs]. apply secs_ext_refl.
  - destruct (nth_error (labels s) l) as [ll|]; [|apply secs_ext_refl].
    destruct (nth_error (labels s) b) as [lb|]; [|apply secs_ext_refl].
    destruct (size_ok size); cbn [negb]; cbv iota; [|apply secs_ext_refl].
    destruct (match ll with Some (ls, lo) => _ | None => None end); [destruct (_ || _); [|apply secs_ext_refl]|]; cbn [fst set_rel secs]; apply secs_ext_append.
Qed.

Lemma run_secs_ext ops : forall s, secs_ext (secs s) (secs (run s ops)).
Proof.
  induction ops as [|o t IH]; intros s; [apply secs_ext_refl|]. cbn [run].
  eapply secs_ext_trans; [apply step_secs_ext|apply IH].
Qed.

(* ------------------------------------------------------------------ reference records only grow; the ghost log of a record never changes *)
Definition refs_ext (a b : list refrec) : Prop :=
  forall id r, nth_error a id = Some r -> exists r', nth_error b id = Some r' /\ same_ghost r' r.

Lemma refs_ext_refl a : refs_ext a a.
Proof. intros id r H. exists r. split; [exact H|apply same_ghost_refl]. Qed.

Lemma same_ghost_trans a b c : same_ghost a b -> same_ghost b c -> same_ghost a c.
Proof. unfold same_ghost. intuition congruence. Qed.

Lemma refs_ext_trans a b c : refs_ext a b -> refs_ext b c -> refs_ext a c.
Proof.
  intros H1 H2 id r H. destruct (H1 id r H) as (r1 & A1 & G1). destruct (H2 id r1 A1) as (r2 & A2 & G2).
  exists r2. split; [exact A2|eapply same_ghost_trans; eauto].
Qed.

Lemma refs_ext_snoc a x : refs_ext a (a ++ [x]).
Proof.
  intros id r H. exists r. split; [|apply same_ghost_refl]. rewrite nth_error_app1; [exact H|]. apply nth_error_Some. congruence.
Qed.

Lemma refs_ext_upd a id r w lay : nth_error a id = Some r -> refs_ext a (upd a id (patched r w lay)).
Proof.
  intros Hr j rj Hj. destruct (Nat.eq_dec id j) as [<-|N].
  - exists (patched r w lay). split; [eapply nth_error_upd_eq; exact Hr|]. rewrite Hr in Hj. injection Hj as <-. repeat split.
  - exists rj. split; [rewrite nth_error_upd_neq by exact N; exact Hj|apply same_ghost_refl].
Qed.

Lemma walk_refs_ext sel fie : forall fxs rs, refs_ext rs (w_refs (resolve_list sel fie fxs rs)).
Proof.
  induction fxs as [|fx t IH]; intros rs; cbn [resolve_list]; [apply refs_ext_refl|].
  destruct (sel fx) as [| |lay lo]; cbn [walk_keep w_refs]; try apply IH.
  destruct (nth_error rs (fx_id fx)) as [r|] eqn:Er; cbn [walk_keep w_refs]; [|apply IH].
  destruct (write_offset _ _ _) as [w|]; cbn [walk_keep walk_done w_refs]; [|apply IH].
  eapply refs_ext_trans; [apply (refs_ext_upd rs (fx_id fx) r w lay Er)|apply IH].
Qed.

Lemma step_refs_ext s o : refs_ext (refs s) (refs (fst (step s o))).
Proof.
  destruct o; cbn [step].
  - apply refs_ext_refl.
  - apply refs_ext_refl.
  - destruct (Nat.ltb k (length (secs s))); apply refs_ext_refl.
  - apply refs_ext_refl.
  - destruct (0 <=? n); apply refs_ext_refl.
  - destruct (nth_error (labels s) l) as [lb|]; [|apply refs_ext_refl].
    destruct (hole_ok k w0); cbn [negb]; cbv iota; [|apply refs_ext_refl].
    destruct lb as [[ls lo]|]; [destruct (Nat.eqb ls (cur s)); [destruct (write_offset _ _ _); [|apply refs_ext_refl]|]|];
      cbn [fst set_fix refs append_cur set_secs]; apply refs_ext_snoc.
  - destruct (nth_error (labels s) l) as [[v|]|]; try apply refs_ext_refl.
    destruct (bind_precheck l (cur s) (s_len (cur_sec s)) (pending s) (refs s)); cbn [negb]; cbv iota; [|apply refs_ext_refl].
    destruct (bind_rel l (cur s) (s_len (cur_sec s)) (pending_rel s) (relocs s)) as [[prk rl] nrel]. cbn [fst set_fix refs].
    apply walk_refs_ext.
  - destruct (nth_error (labels s) l) as [lb|]; [|apply refs_ext_refl].
    destruct (size_ok size); cbn [negb]; cbv iota; [|apply refs_ext_refl].
    destruct lb; cbn [fst set_rel refs append_cur set_secs]; apply refs_ext_refl.
  - destruct (nth_error (labels s) l) as [ll|]; [|apply refs_ext_refl].
    destruct (nth_error (labels s) b) as [lb|]; [|apply refs_ext_refl].
    destruct (size_ok size); cbn [negb]; cbv iota; [|apply refs_ext_refl].
    destruct (match ll with Some (ls, lo) => _ | None => None end); cbn [fst set_rel refs append_cur set_secs]; apply refs_ext_refl.
  - cbn [fst set_fix refs]. apply walk_refs_ext.
  - destruct (nth_error (labels s) l) as [ll|]; [|apply refs_ext_refl].
    destruct (nth_error (labels s) b) as [lb|]; [|apply refs_ext_refl].
    destruct (size_ok size); cbn [negb]; cbv iota; [|apply refs_ext_refl].
    destruct (match ll with Some (ls, lo) => _ | None => None end); [destruct (_ || _); [|apply refs_ext_refl]|]; cbn [fst set_rel refs append_cur set_secs]; apply refs_ext_refl.
Qed.

Lemma run_refs_ext ops : forall s, refs_ext (refs s) (refs (run s ops)).
Proof.
  induction ops as [|o t IH]; intros s; [apply refs_ext_refl|]. cbn [run].
  eapply refs_ext_trans; [apply step_refs_ext|apply IH].
Qed.

(* ------------------------------------------------------------------ what an accepted ORef leaves behind *)
Lemma ref_step_emits s k rel l pre w0 post :
  (cur s < length (secs s))%nat -> snd (step s (ORef k rel l pre w0 post)) = EOk ->
  let s1 := fst (step s (ORef k rel l pre w0 post)) in let id := length (refs s) in
  exists r sc its0, nth_error (refs s1) id = Some r /\ r_sec r = cur s /\ r_rel r = rel /\ r_kind r = k /\ r_label r = l /\ r_w0 r = w0 /\
                    cur s1 = cur s /\ nth_error (secs s1) (cur s) = Some sc /\ s_items sc = its0 ++ [IRaw pre; IRef id; IRaw post].
Proof.
  intros Hc. cbn [step].
  destruct (nth_error (secs s) (cur s)) as [sc0|] eqn:Esc; [|apply nth_error_None in Esc; lia].
  assert (Q : forall r, r_sec r = cur s -> r_rel r = rel -> r_kind r = k -> r_label r = l -> r_w0 r = w0 -> forall p u,
            let s1 := set_fix (set_fix (append_cur s [IRaw pre; IRef (length (refs s)); IRaw post] (zlen pre + vsize (fmt_of_kind k) + zlen post))
                                       (refs s ++ [r]) (pending s) (unresolved s)) (refs s ++ [r]) p u in
            exists r' sc its0, nth_error (refs s1) (length (refs s)) = Some r' /\ r_sec r' = cur s /\ r_rel r' = rel /\ r_kind r' = k /\ r_label r' = l /\ r_w0 r' = w0 /\
                    cur s1 = cur s /\ nth_error (secs s1) (cur s) = Some sc /\ s_items sc = its0 ++ [IRaw pre; IRef (length (refs s)); IRaw post]).
  { intros r G1 G2 G3 G4 G5 p u. cbn [set_fix refs secs cur append_cur set_secs].
    exists r, (sec_append (cur_sec s) [IRaw pre; IRef (length (refs s)); IRaw post] (zlen pre + vsize (fmt_of_kind k) + zlen post)), (s_items sc0).
    split; [rewrite nth_error_app2 by lia; rewrite Nat.sub_diag; reflexivity|]. repeat (split; [assumption|]). split; [reflexivity|].
    split; [eapply nth_error_upd_eq; exact Esc|]. unfold cur_sec. rewrite (nth_error_nth _ _ _ Esc). reflexivity. }
  destruct (nth_error (labels s) l) as [lb|]; [|discriminate].
  destruct (hole_ok k w0); cbn [negb]; cbv iota; [|discriminate].
  destruct lb as [[ls lo]|].
  - destruct (Nat.eqb ls (cur s)).
    + destruct (write_offset _ _ _) as [w|]; [|discriminate]. intros _. cbn [fst].
      match goal with |- context [patched ?r0 w None] => pose proof (Q (patched r0 w None) eq_refl eq_refl eq_refl eq_refl eq_refl (pending s) (unresolved s)) as Q' end.
      cbn [set_fix refs secs cur] in Q' |- *. exact Q'.
    + intros _. cbn [fst]. match goal with |- context [set_fix _ (refs s ++ [?r0]) (pending s) (unresolved s)] =>
        pose proof (Q r0 eq_refl eq_refl eq_refl eq_refl eq_refl) as Q' end. cbn [set_fix refs secs cur] in Q' |- *. apply (Q' [] 0).
  - intros _. cbn [fst]. match goal with |- context [set_fix _ (refs s ++ [?r0]) (pending s) (unresolved s)] =>
        pose proof (Q r0 eq_refl eq_refl eq_refl eq_refl eq_refl) as Q' end. cbn [set_fix refs secs cur] in Q' |- *. apply (Q' [] 0).
Qed.

(* ------------------------------------------------------------------ the emitted bytes of an accepted reference in the FINAL image *)
Lemma ref_in_image ops1 ops2 k rel l pre w0 post :
  let s1 := run init ops1 in let o := ORef k rel l pre w0 post in
  snd (step s1 o) = EOk ->
  let ops := ops1 ++ o :: ops2 in let st := run init ops in let f := frun finit ops in let id := length (refs s1) in
  exists r A B, nth_error (refs st) id = Some r /\ r_sec r = cur s1 /\ r_rel r = rel /\ r_kind r = k /\ r_label r = l /\ r_w0 r = w0 /\
     nth (r_sec r) (f_secs f) [] = A ++ pre ++ le_split (vnat k) (r_word r) ++ post ++ B /\ zlen A + zlen pre = r_site r.
Proof.
  intros s1 o Hok ops st f id.
  destruct sim_init as (W0 & S0).
  destruct (run_sim ops1 init finit inv_init W0 S0) as ((_ & Hc1) & _). fold s1 in Hc1.
  destruct (ref_step_emits s1 k rel l pre w0 post Hc1 Hok) as (r1 & sc1 & its0 & Hr1 & G1 & G2 & G3 & G4 & G5 & Hcur & Hsc1 & Hit1).
  fold o in Hr1, Hcur, Hsc1. fold id in Hr1, Hit1.
  assert (Est : st = run (fst (step s1 o)) ops2) by (unfold st, ops; rewrite run_app; reflexivity).
  destruct (run_refs_ext ops2 (fst (step s1 o)) id r1 Hr1) as (r & Hr & SG). rewrite <- Est in Hr.
  destruct (run_secs_ext ops2 (fst (step s1 o)) (cur s1) sc1 Hsc1) as (sc & its & Hsc & Hit). rewrite <- Est in Hsc.
  destruct SG as (E1 & E2 & E3 & E4 & E5 & E6).
  destruct (run_sim ops init finit inv_init W0 S0) as ((W & _) & S). fold st in W, S. fold f in S.
  destruct (wf_items _ _ W _ _ Hsc) as (Hok' & _).
  rewrite Hit, Hit1 in Hok'. rewrite <- app_assoc in Hok'. apply items_ok_app in Hok'. destruct Hok' as (Ha & Hb).
  cbn [app items_ok] in Hb. rewrite Hr in Hb. destruct Hb as (_ & Hsite & _).
  destruct (flat_len _ _ _ _ Ha) as (Hl0 & _).
  exists r, (flat (refs st) its0), (flat (refs st) its).
  split; [exact Hr|]. split; [congruence|]. split; [congruence|]. split; [congruence|]. split; [congruence|]. split; [congruence|]. split.
  - rewrite E1, G1. rewrite (sm_secs _ _ S), (nth_imgs _ _ _ _ Hsc), Hit, Hit1, !flat_app. cbn [flat]. rewrite Hr, E4, G3.
    rewrite app_nil_r, <- !app_assoc. reflexivity.
  - rewrite Hsite, Hl0. rewrite Z.add_0_l. reflexivity.
Qed.

(* ------------------------------------------------------------------ the opcode forms the x86 assembler emits for label branches *)
(* `pre` (prefix + opcode bytes) followed by an n-byte immediate IS C01's encoding of the explicit structural instruction mk w *)
Record branch_form (m : mode) (n : nat) (pre : list Z) (mk : Z -> sinst) : Prop := {
  bf_enc : forall w, senc m (mkSh false false n 1) (mk w) (mkC false 0 false) = pre ++ X86Model.le_bytes n w;
  bf_wf : forall w, 0 <= w < 256 ^ Z.of_nat n -> wf m (mkSh false false n 1) (mk w) = true;
  bf_adm : forall w, adm m (mkSh false false n 1) (mk w) (mkC false 0 false) = true;
  bf_modrm : forall w, s_modrm (mk w) = MNone false false false false;
  bf_imm : forall w, s_imm (mk w) = w
}.

Definition mk_leg (p67 : bool) (map opc : Z) (imm : Z) : sinst :=
  {| s_pfx := {| p_lock := false; p_f2 := false; p_f3 := false; p_66 := false; p_67 := p67; p_seg := 0 |};
     s_kind := KLeg; s_rex := false; s_W := false; s_vvvv := 0; s_V' := false; s_L := 0; s_pp := 0; s_map := map;
     s_opc := opc; s_aaa := 0; s_z := false; s_b := false; s_modrm := MNone false false false false; s_imm := imm |}.

Ltac form_tac :=
  constructor; intros w; try intros Hw;
  [ unfold senc; rewrite !app_assoc; f_equal; vm_compute; reflexivity
  | unfold wf; cbn [mk_leg s_pfx s_opc s_imm s_kind s_map s_vvvv s_V' s_L s_pp s_aaa s_z s_b s_rex s_W s_modrm sh_imm sh_n];
    replace (zin 0 w _) with true by (symmetry; unfold zin; apply andb_true_intro; split; [apply Z.leb_le|apply Z.ltb_lt]; lia);
    vm_compute; reflexivity
  | reflexivity | reflexivity | reflexivity ].

(* jmp rel32 (E9), call rel32 (E8), jcc rel32 (0F 80+cc) in both modes; jmp rel8 (EB), jcc rel8 (70+cc), loop / loopz / loopnz (E2, E1, E0),
   jecxz / jrcxz (E3) and jecxz in 64-bit mode / jcxz in 32-bit mode (67 E3) *)
Lemma form_jmp32 m : branch_form m 4 [233] (mk_leg false 0 233).
Proof. destruct m; form_tac. Qed.
Lemma form_call32 m : branch_form m 4 [232] (mk_leg false 0 232).
Proof. destruct m; form_tac. Qed.
Lemma form_jcc32 m cc : 0 <= cc < 16 -> branch_form m 4 [15; 128 + cc] (mk_leg false 1 (128 + cc)).
Proof.
  intros H. assert (C : cc = 0 \/ cc = 1 \/ cc = 2 \/ cc = 3 \/ cc = 4 \/ cc = 5 \/ cc = 6 \/ cc = 7 \/ cc = 8 \/ cc = 9 \/ cc = 10 \/ cc = 11 \/
                        cc = 12 \/ cc = 13 \/ cc = 14 \/ cc = 15) by lia.
  destruct m; repeat (destruct C as [->|C]; [form_tac|]); subst cc; form_tac.
Qed.
Lemma form_jmp8 m : branch_form m 1 [235] (mk_leg false 0 235).
Proof. destruct m; form_tac. Qed.
Lemma form_jcc8 m cc : 0 <= cc < 16 -> branch_form m 1 [112 + cc] (mk_leg false 0 (112 + cc)).
Proof.
  intros H. assert (C : cc = 0 \/ cc = 1 \/ cc = 2 \/ cc = 3 \/ cc = 4 \/ cc = 5 \/ cc = 6 \/ cc = 7 \/ cc = 8 \/ cc = 9 \/ cc = 10 \/ cc = 11 \/
                        cc = 12 \/ cc = 13 \/ cc = 14 \/ cc = 15) by lia.
  destruct m; repeat (destruct C as [->|C]; [form_tac|]); subst cc; form_tac.
Qed.
Lemma form_loop8 m k : 0 <= k < 4 -> branch_form m 1 [224 + k] (mk_leg false 0 (224 + k)).
Proof.
  intros H. assert (C : k = 0 \/ k = 1 \/ k = 2 \/ k = 3) by lia.
  destruct m; repeat (destruct C as [->|C]; [form_tac|]); subst k; form_tac.
Qed.
Lemma form_jecxz67 m : branch_form m 1 [103; 227] (mk_leg true 0 227).
Proof. destruct m; form_tac. Qed.

Lemma skipn_zlen_app {A} (a x : list A) : skipn (Z.to_nat (zlen a)) (a ++ x) = x.
Proof. rewrite zlen_nat, skipn_app, skipn_all, Nat.sub_diag. reflexivity. Qed.

(* ------------------------------------------------------------------ END TO END: rel32 branches *)
Theorem x86_label_branch32 ops1 ops2 offs l (m : mode) pre post mk :
  branch_form m 4 pre mk ->
  let s1 := run init ops1 in let o := ORef K_Rel32 (-4) l pre 0 post in
  snd (step s1 o) = EOk ->
  let ops := ops1 ++ o :: ops2 in
  resolves_with offs ops ->
  let st := run init ops in let f := frun finit ops in let id := length (refs s1) in
  ~ In id (ids (pending st)) ->
  exists r ls lo, nth_error (refs st) id = Some r /\ r_sec r = cur s1 /\ nth_error (labels st) l = Some (Some (ls, lo)) /\
    let start := r_site r - zlen pre in
    site_target m CBranch (mkSh false false 4 1) (nth (r_sec r) offs 0 + start) (skipn (Z.to_nat start) (nth (r_sec r) (f_secs f) []))
      = Some ((nth ls offs 0 + lo) mod 2 ^ abits m).
Proof.
  intros F s1 o Hok ops R st f id Hp. subst ops st f id.
  destruct (ref_in_image ops1 ops2 K_Rel32 (-4) l pre 0 post Hok) as (r & A & B & Hr & Gs & Grel & Gk & Gl & Gw & Himg & Hpos).
  fold o in Hr, Himg. set (ops := ops1 ++ o :: ops2) in *. set (f := frun finit ops) in *.
  destruct (rel32_word _ offs _ r R Hr Hp Gk Gw) as (ls & lo & Hl & Hrange & _).
  set (w := r_word r) in *. change (vnat K_Rel32) with 4%nat in Himg.
  assert (Himg' : nth (r_sec r) (f_secs f) [] = A ++ senc m (mkSh false false 4 1) (mk w) (mkC false 0 false) ++ (post ++ B)).
  { rewrite (bf_enc _ _ _ _ F), le_bytes_is_le_split, <- app_assoc. exact Himg. }
  assert (Hlen : zlen A + zlen (senc m (mkSh false false 4 1) (mk w) (mkC false 0 false)) = r_site r + 4).
  { rewrite (bf_enc _ _ _ _ F), zlen_app. unfold zlen at 3. rewrite X86Proofs.le_bytes_length. lia. }
  destruct (x86_branch_in_image _ offs _ r m (mkSh false false 4 1) (mk w) (mkC false 0 false) false false false false A (post ++ B)
              R Hr Hp Gk Gw Grel Himg' Hlen eq_refl (bf_modrm _ _ _ _ F w)
              (bf_wf _ _ _ _ F w ltac:(change (256 ^ Z.of_nat 4) with (2 ^ 32); exact Hrange)) (bf_adm _ _ _ _ F w)) as (ls' & lo' & Hl' & Ht).
  rewrite Gl in Hl, Hl'. rewrite Hl in Hl'. injection Hl' as <- <-.
  exists r, ls, lo. split; [exact Hr|]. split; [exact Gs|]. split; [exact Hl|]. cbv zeta.
  replace (r_site r - zlen pre) with (zlen A) by lia. rewrite Himg', skipn_zlen_app. exact Ht.
Qed.

(* ------------------------------------------------------------------ END TO END: rel8 branches *)
Theorem x86_label_branch8 ops1 ops2 offs l (m : mode) pre post mk :
  branch_form m 1 pre mk ->
  let s1 := run init ops1 in let o := ORef K_Rel8 (-1) l pre 0 post in
  snd (step s1 o) = EOk ->
  let ops := ops1 ++ o :: ops2 in
  resolves_with offs ops ->
  let st := run init ops in let f := frun finit ops in let id := length (refs s1) in
  ~ In id (ids (pending st)) ->
  exists r ls lo, nth_error (refs st) id = Some r /\ r_sec r = cur s1 /\ nth_error (labels st) l = Some (Some (ls, lo)) /\
    let start := r_site r - zlen pre in
    branch8_target m (mkSh false false 1 1) (nth (r_sec r) offs 0 + start) (skipn (Z.to_nat start) (nth (r_sec r) (f_secs f) []))
      = Some ((nth ls offs 0 + lo) mod 2 ^ abits m).
Proof.
  intros F s1 o Hok ops R st f id Hp. subst ops st f id.
  destruct (ref_in_image ops1 ops2 K_Rel8 (-1) l pre 0 post Hok) as (r & A & B & Hr & Gs & Grel & Gk & Gl & Gw & Himg & Hpos).
  fold o in Hr, Himg. set (ops := ops1 ++ o :: ops2) in *. set (f := frun finit ops) in *.
  destruct (rel8_word _ offs _ r R Hr Hp Gk Gw) as (ls & lo & Hl & Hrange & _).
  set (w := r_word r) in *. change (vnat K_Rel8) with 1%nat in Himg.
  assert (Himg' : nth (r_sec r) (f_secs f) [] = A ++ senc m (mkSh false false 1 1) (mk w) (mkC false 0 false) ++ (post ++ B)).
  { rewrite (bf_enc _ _ _ _ F), le_bytes_is_le_split, <- app_assoc. exact Himg. }
  assert (Hlen : zlen A + zlen (senc m (mkSh false false 1 1) (mk w) (mkC false 0 false)) = r_site r + 1).
  { rewrite (bf_enc _ _ _ _ F), zlen_app. unfold zlen at 3. rewrite X86Proofs.le_bytes_length. lia. }
  destruct (x86_branch8_in_image _ offs _ r m (mkSh false false 1 1) (mk w) (mkC false 0 false) false false false false A (post ++ B)
              R Hr Hp Gk Gw Grel Himg' Hlen eq_refl (bf_modrm _ _ _ _ F w)
              (bf_wf _ _ _ _ F w ltac:(change (256 ^ Z.of_nat 1) with (2 ^ 8); exact Hrange)) (bf_adm _ _ _ _ F w)) as (ls' & lo' & Hl' & Ht).
  rewrite Gl in Hl, Hl'. rewrite Hl in Hl'. injection Hl' as <- <-.
  exists r, ls, lo. split; [exact Hr|]. split; [exact Gs|]. split; [exact Hl|]. cbv zeta.
  replace (r_site r - zlen pre) with (zlen A) by lia. rewrite Himg', skipn_zlen_app. exact Ht.
Qed.

(* ------------------------------------------------------------------ satisfiability *)
Example x86_label_branch32_witness :
  let ops1 := [ONewLabel; ORaw [144]] in let o := ORef K_Rel32 (-4) O [233] 0 [] in let ops2 := [OGap 100; OBind O; OResolve [0]] in
  let s1 := run init ops1 in let ops := ops1 ++ o :: ops2 in let st := run init ops in let f := frun finit ops in
  branch_form M64 4 [233] (mk_leg false 0 233) /\ snd (step s1 o) = EOk /\ resolves_with [0] ops /\ ~ In (length (refs s1)) (ids (pending st)) /\
  site_target M64 CBranch (mkSh false false 4 1) (0 + 1) (skipn 1 (nth O (f_secs f) [])) = Some 106.
Proof.
  cbv zeta. split; [apply form_jmp32|]. split; [vm_compute; reflexivity|]. split.
  - intros o Ho Hr. rewrite in_app_iff in Ho. cbn [In] in Ho.
    destruct Ho as [[<-|[<-|[]]]|[<-|[<-|[<-|[<-|[]]]]]]; try discriminate Hr; reflexivity.
  - split; [vm_compute; intros []|vm_compute; reflexivity].
Qed.

Example x86_label_branch8_witness :
  let ops1 := [ONewLabel; ORaw [144]] in let o := ORef K_Rel8 (-1) O [116] 0 [] in let ops2 := [OGap 10; OBind O; OResolve [0]] in
  let s1 := run init ops1 in let ops := ops1 ++ o :: ops2 in let st := run init ops in let f := frun finit ops in
  branch_form M32 1 [112 + 4] (mk_leg false 0 (112 + 4)) /\ snd (step s1 o) = EOk /\ resolves_with [0] ops /\ ~ In (length (refs s1)) (ids (pending st)) /\
  branch8_target M32 (mkSh false false 1 1) (0 + 1) (skipn 1 (nth O (f_secs f) [])) = Some 13.
Proof.
  cbv zeta. split; [apply form_jcc8; lia|]. split; [vm_compute; reflexivity|]. split.
  - intros o Ho Hr. rewrite in_app_iff in Ho. cbn [In] in Ho.
    destruct Ho as [[<-|[<-|[]]]|[<-|[<-|[<-|[<-|[]]]]]]; try discriminate Hr; reflexivity.
  - split; [vm_compute; intros []|vm_compute; reflexivity].
Qed.

(* ------------------------------------------------------------------ RIP-relative operands without trailing immediate (lea / mov load / mov store, 64-bit operand size) *)
Record rip_form (pre : list Z) (mk : Z -> sinst) (reg : Z) : Prop := {
  rf_enc : forall d, senc M64 (mkSh true false 0 1) (mk d) (mkC false 0 false) = pre ++ X86Model.le_bytes 4 (d mod 4294967296);
  rf_wf : forall d, -2147483648 <= d < 2147483648 -> wf M64 (mkSh true false 0 1) (mk d) = true;
  rf_adm : forall d, adm M64 (mkSh true false 0 1) (mk d) (mkC false 0 false) = true;
  rf_modrm : forall d, s_modrm (mk d) = MMem reg (mkM BRip None 0 d)
}.

Definition mk_rip (opc reg d : Z) : sinst :=
  {| s_pfx := {| p_lock := false; p_f2 := false; p_f3 := false; p_66 := false; p_67 := false; p_seg := 0 |};
     s_kind := KLeg; s_rex := true; s_W := true; s_vvvv := 0; s_V' := false; s_L := 0; s_pp := 0; s_map := 0;
     s_opc := opc; s_aaa := 0; s_z := false; s_b := false; s_modrm := MMem reg (mkM BRip None 0 d); s_imm := 0 |}.

Lemma app_cons_tail {A} (P1 P2 : list A) mb L pre : P1 ++ P2 ++ [mb] = pre -> P1 ++ P2 ++ mb :: L = pre ++ L.
Proof. intros <-. rewrite <- !app_assoc. reflexivity. Qed.


Ltac rip_form_tac :=
  constructor; intros d; try intros Hd;
  [ unfold senc; cbn [mk_rip s_modrm enc_modrm s_pfx]; unfold enc_mem; cbn [a16 is64 negb andb p_67]; cbv iota;
    cbn [m_base m_disp sh_imm X86Model.le_bytes sh_n]; rewrite app_nil_r; apply app_cons_tail; vm_compute; reflexivity
  | unfold wf; cbn [mk_rip s_pfx s_opc s_imm s_kind s_map s_vvvv s_V' s_L s_pp s_aaa s_z s_b s_rex s_W s_modrm sh_imm sh_n];
    unfold wf_modrm, wf_mem; cbn [a16 is64 negb andb p_67 m_disp m_scale m_index m_base sh_modrm sh_vsib];
    replace (zin (-2147483648) d 2147483648) with true by (symmetry; unfold zin; apply andb_true_intro; split; [apply Z.leb_le|apply Z.ltb_lt]; lia);
    vm_compute; reflexivity
  | reflexivity | reflexivity ].

(* REX.W (+ REX.R for r8..r15), opcode 8D lea / 8B mov r64, m / 89 mov m, r64, ModRM mod = 00 rm = 101 *)
Lemma rip_forms opc reg : opc = 141 \/ opc = 139 \/ opc = 137 -> 0 <= reg < 16 ->
  rip_form [72 + 4 * (reg / 8); opc; 8 * (reg mod 8) + 5] (mk_rip opc reg) reg.
Proof.
  intros Ho Hr.
  assert (C : reg = 0 \/ reg = 1 \/ reg = 2 \/ reg = 3 \/ reg = 4 \/ reg = 5 \/ reg = 6 \/ reg = 7 \/ reg = 8 \/ reg = 9 \/ reg = 10 \/ reg = 11 \/
               reg = 12 \/ reg = 13 \/ reg = 14 \/ reg = 15) by lia.
  destruct Ho as [-> | [-> | ->]]; repeat (destruct C as [->|C]; [rip_form_tac|]); subst reg; rip_form_tac.
Qed.

Lemma sext32_back w : 0 <= w < 2 ^ 32 -> sext32 w mod 4294967296 = w /\ -2147483648 <= sext32 w < 2147483648.
Proof.
  intros H. change (2 ^ 32) with 4294967296 in H. unfold sext32. destruct (Z.ltb_spec w 2147483648).
  - split; [apply Z.mod_small; lia|lia].
  - split; [|lia]. replace (w - 4294967296) with (w + (-1) * 4294967296) by lia. rewrite Z.mod_add by lia. apply Z.mod_small. lia.
Qed.

Theorem x86_label_rip ops1 ops2 offs l rel pre mk reg :
  rip_form pre mk reg ->
  let s1 := run init ops1 in let o := ORef K_Rel32 rel l pre 0 [] in
  snd (step s1 o) = EOk ->
  let ops := ops1 ++ o :: ops2 in
  resolves_with offs ops ->
  let st := run init ops in let f := frun finit ops in let id := length (refs s1) in
  ~ In id (ids (pending st)) ->
  exists r ls lo, nth_error (refs st) id = Some r /\ r_sec r = cur s1 /\ nth_error (labels st) l = Some (Some (ls, lo)) /\
    let start := r_site r - zlen pre in
    site_target M64 CMem (mkSh true false 0 1) (nth (r_sec r) offs 0 + start) (skipn (Z.to_nat start) (nth (r_sec r) (f_secs f) []))
      = Some ((nth ls offs 0 + lo + (rel + 4)) mod 2 ^ 64).
Proof.
  intros F s1 o Hok ops R st f id Hp. subst ops st f id.
  destruct (ref_in_image ops1 ops2 K_Rel32 rel l pre 0 [] Hok) as (r & A & B & Hr & Gs & Grel & Gk & Gl & Gw & Himg & Hpos).
  fold o in Hr, Himg. set (ops := ops1 ++ o :: ops2) in *. set (f := frun finit ops) in *.
  destruct (rel32_word _ offs _ r R Hr Hp Gk Gw) as (ls & lo & Hl & Hrange & _).
  set (w := r_word r) in *. change (vnat K_Rel32) with 4%nat in Himg. cbn [app] in Himg.
  destruct (sext32_back w Hrange) as (Hback & Hsr).
  assert (Henc : senc M64 (mkSh true false 0 1) (mk (sext32 w)) (mkC false 0 false) = pre ++ le_split 4 w)
    by (rewrite (rf_enc _ _ _ F), Hback, le_bytes_is_le_split; reflexivity).
  destruct (x86_rip_reference_meaning _ offs _ r (mkSh true false 0 1) (mk (sext32 w)) (mkC false 0 false) reg B 4 R Hr Hp Gk Gw
              (rf_modrm _ _ _ F (sext32 w)) (rf_wf _ _ _ F _ Hsr) (rf_adm _ _ _ F _)) as (ls' & lo' & Hl' & Ht).
  rewrite Gl in Hl, Hl'. rewrite Hl in Hl'. injection Hl' as <- <-.
  exists r, ls, lo. split; [exact Hr|]. split; [exact Gs|]. split; [exact Hl|]. cbv zeta.
  replace (r_site r - zlen pre) with (zlen A) by lia.
  replace (nth (r_sec r) (f_secs f) []) with (A ++ (senc M64 (mkSh true false 0 1) (mk (sext32 w)) (mkC false 0 false) ++ B))
    by (rewrite Himg, Henc, <- app_assoc; reflexivity).
  rewrite skipn_zlen_app. rewrite <- Grel. rewrite <- Ht. f_equal.
  rewrite Henc, app_length, le_split_length. unfold zlen in *. lia.
Qed.

Example x86_label_rip_witness :
  let ops1 := [ONewLabel; ORaw [144]] in let o := ORef K_Rel32 (-4) O [72; 141; 5] 0 [] in let ops2 := [OGap 100; OBind O; OResolve [0]] in
  let s1 := run init ops1 in let ops := ops1 ++ o :: ops2 in let st := run init ops in let f := frun finit ops in
  rip_form [72 + 4 * (0 / 8); 141; 8 * (0 mod 8) + 5] (mk_rip 141 0) 0 /\ snd (step s1 o) = EOk /\ resolves_with [0] ops /\
  ~ In (length (refs s1)) (ids (pending st)) /\
  site_target M64 CMem (mkSh true false 0 1) (0 + 1) (skipn 1 (nth O (f_secs f) [])) = Some 108.
Proof.
  cbv zeta. split; [apply rip_forms; [auto|lia]|]. split; [vm_compute; reflexivity|]. split.
  - intros o Ho Hr. rewrite in_app_iff in Ho. cbn [In] in Ho.
    destruct Ho as [[<-|[<-|[]]]|[<-|[<-|[<-|[<-|[]]]]]]; try discriminate Hr; reflexivity.
  - split; [vm_compute; intros []|vm_compute; reflexivity].
Qed.

(* ------------------------------------------------------------------ RIP-relative operands followed by an immediate (mov [rip+L], imm / add [rip+L], imm8) *)
Record rip_form_imm (n : nat) (pre : list Z) (mk : Z -> Z -> sinst) (reg : Z) : Prop := {
  ri_enc : forall d imm, senc M64 (mkSh true false n 1) (mk d imm) (mkC false 0 false)
                         = pre ++ X86Model.le_bytes 4 (d mod 4294967296) ++ X86Model.le_bytes n imm;
  ri_wf : forall d imm, -2147483648 <= d < 2147483648 -> 0 <= imm < 256 ^ Z.of_nat n -> wf M64 (mkSh true false n 1) (mk d imm) = true;
  ri_adm : forall d imm, adm M64 (mkSh true false n 1) (mk d imm) (mkC false 0 false) = true;
  ri_modrm : forall d imm, s_modrm (mk d imm) = MMem reg (mkM BRip None 0 d)
}.

Definition mk_rip_imm (p66 rexw : bool) (opc reg d imm : Z) : sinst :=
  {| s_pfx := {| p_lock := false; p_f2 := false; p_f3 := false; p_66 := p66; p_67 := false; p_seg := 0 |};
     s_kind := KLeg; s_rex := rexw; s_W := rexw; s_vvvv := 0; s_V' := false; s_L := 0; s_pp := 0; s_map := 0;
     s_opc := opc; s_aaa := 0; s_z := false; s_b := false; s_modrm := MMem reg (mkM BRip None 0 d); s_imm := imm |}.

Lemma app_cons_tail2 {A} (P1 P2 : list A) mb L I pre : P1 ++ P2 ++ [mb] = pre -> P1 ++ P2 ++ (mb :: L) ++ I = pre ++ L ++ I.
Proof. intros <-. rewrite <- !app_assoc. reflexivity. Qed.

Ltac rip_imm_tac :=
  constructor; intros d imm; try intros Hd Hi;
  [ unfold senc; cbn [mk_rip_imm s_modrm enc_modrm s_pfx s_imm]; unfold enc_mem; cbn [a16 is64 negb andb p_67]; cbv iota;
    cbn [m_base m_disp sh_imm sh_n]; apply app_cons_tail2; vm_compute; reflexivity
  | unfold wf; cbn [mk_rip_imm s_pfx s_opc s_imm s_kind s_map s_vvvv s_V' s_L s_pp s_aaa s_z s_b s_rex s_W s_modrm sh_imm sh_n];
    unfold wf_modrm, wf_mem; cbn [a16 is64 negb andb p_67 m_disp m_scale m_index m_base sh_modrm sh_vsib];
    replace (zin (-2147483648) d 2147483648) with true by (symmetry; unfold zin; apply andb_true_intro; split; [apply Z.leb_le|apply Z.ltb_lt]; lia);
    replace (zin 0 imm _) with true by (symmetry; unfold zin; apply andb_true_intro; split; [apply Z.leb_le|apply Z.ltb_lt]; lia);
    vm_compute; reflexivity
  | reflexivity | reflexivity ].

(* mov byte [m], imm8 (C6 /0), mov word [m], imm16 (66 C7 /0), mov dword [m], imm32 (C7 /0), mov qword [m], imm32 (REX.W C7 /0),
   add dword [m], imm8 (83 /0) *)
Lemma rip_form_mov8 : rip_form_imm 1 [198; 5] (mk_rip_imm false false 198 0) 0.
Proof. rip_imm_tac. Qed.
Lemma rip_form_mov16 : rip_form_imm 2 [102; 199; 5] (mk_rip_imm true false 199 0) 0.
Proof. rip_imm_tac. Qed.
Lemma rip_form_mov32 : rip_form_imm 4 [199; 5] (mk_rip_imm false false 199 0) 0.
Proof. rip_imm_tac. Qed.
Lemma rip_form_mov64 : rip_form_imm 4 [72; 199; 5] (mk_rip_imm false true 199 0) 0.
Proof. rip_imm_tac. Qed.
Lemma rip_form_add8 : rip_form_imm 1 [131; 5] (mk_rip_imm false false 131 0) 0.
Proof. rip_imm_tac. Qed.

Theorem x86_label_rip_imm ops1 ops2 offs l rel n pre mk reg imm :
  rip_form_imm n pre mk reg -> 0 <= imm < 256 ^ Z.of_nat n ->
  let s1 := run init ops1 in let o := ORef K_Rel32 rel l pre 0 (X86Model.le_bytes n imm) in
  snd (step s1 o) = EOk ->
  let ops := ops1 ++ o :: ops2 in
  resolves_with offs ops ->
  let st := run init ops in let f := frun finit ops in let id := length (refs s1) in
  ~ In id (ids (pending st)) ->
  exists r ls lo, nth_error (refs st) id = Some r /\ r_sec r = cur s1 /\ nth_error (labels st) l = Some (Some (ls, lo)) /\
    let start := r_site r - zlen pre in
    site_target M64 CMem (mkSh true false n 1) (nth (r_sec r) offs 0 + start) (skipn (Z.to_nat start) (nth (r_sec r) (f_secs f) []))
      = Some ((nth ls offs 0 + lo + (rel + 4 + Z.of_nat n)) mod 2 ^ 64).
Proof.
  intros F Himm s1 o Hok ops R st f id Hp. subst ops st f id.
  destruct (ref_in_image ops1 ops2 K_Rel32 rel l pre 0 (X86Model.le_bytes n imm) Hok) as (r & A & B & Hr & Gs & Grel & Gk & Gl & Gw & Himg & Hpos).
  fold o in Hr, Himg. set (ops := ops1 ++ o :: ops2) in *. set (f := frun finit ops) in *.
  destruct (rel32_word _ offs _ r R Hr Hp Gk Gw) as (ls & lo & Hl & Hrange & _).
  set (w := r_word r) in *. change (vnat K_Rel32) with 4%nat in Himg.
  destruct (sext32_back w Hrange) as (Hback & Hsr).
  assert (Henc : senc M64 (mkSh true false n 1) (mk (sext32 w) imm) (mkC false 0 false) = pre ++ le_split 4 w ++ X86Model.le_bytes n imm)
    by (rewrite (ri_enc _ _ _ _ F), Hback, le_bytes_is_le_split; reflexivity).
  destruct (x86_rip_reference_meaning _ offs _ r (mkSh true false n 1) (mk (sext32 w) imm) (mkC false 0 false) reg B (4 + Z.of_nat n) R Hr Hp Gk Gw
              (ri_modrm _ _ _ _ F (sext32 w) imm) (ri_wf _ _ _ _ F _ _ Hsr Himm) (ri_adm _ _ _ _ F _ _)) as (ls' & lo' & Hl' & Ht).
  rewrite Gl in Hl, Hl'. rewrite Hl in Hl'. injection Hl' as <- <-.
  exists r, ls, lo. split; [exact Hr|]. split; [exact Gs|]. split; [exact Hl|]. cbv zeta.
  replace (r_site r - zlen pre) with (zlen A) by lia.
  replace (nth (r_sec r) (f_secs f) []) with (A ++ (senc M64 (mkSh true false n 1) (mk (sext32 w) imm) (mkC false 0 false) ++ B))
    by (rewrite Himg, Henc, <- !app_assoc; reflexivity).
  rewrite skipn_zlen_app. rewrite <- Grel.
  replace (r_rel r + 4 + Z.of_nat n) with (r_rel r + (4 + Z.of_nat n)) by lia. rewrite <- Ht. f_equal.
  rewrite Henc, !app_length, le_split_length, X86Proofs.le_bytes_length. unfold zlen in *. lia.
Qed.

Example x86_label_rip_imm_witness :
  let ops1 := [ONewLabel; ORaw [144]] in let o := ORef K_Rel32 (-8) O [199; 5] 0 (X86Model.le_bytes 4 305419896) in
  let ops2 := [OGap 100; OBind O; OResolve [0]] in
  let s1 := run init ops1 in let ops := ops1 ++ o :: ops2 in let st := run init ops in let f := frun finit ops in
  snd (step s1 o) = EOk /\ resolves_with [0] ops /\ ~ In (length (refs s1)) (ids (pending st)) /\
  nth_error (labels st) O = Some (Some (O, 111)) /\
  site_target M64 CMem (mkSh true false 4 1) (0 + 1) (skipn 1 (nth O (f_secs f) [])) = Some 111.
Proof.
  cbv zeta. split; [vm_compute; reflexivity|]. split.
  - intros o Ho Hr. rewrite in_app_iff in Ho. cbn [In] in Ho.
    destruct Ho as [[<-|[<-|[]]]|[<-|[<-|[<-|[<-|[]]]]]]; try discriminate Hr; reflexivity.
  - split; [vm_compute; intros []|]. split; vm_compute; reflexivity.
Qed.

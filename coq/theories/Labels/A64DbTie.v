(* C03/C04 — the structural AArch64 decoder of Labels/A64Dec.v (written from the ARM ARM) against C02's model of the assembler's words
   (the bit templates and operand syntaxes of the ISA-database rows, coq/gen/IsaA64Db.v):
     a64_db_row      for every well-formed label-bearing instruction i the database has a row (of the expected mnemonic) whose
                     operand syntaxes accept the operands `a64_ops i` and whose template packs them into exactly `a64_enc i`;
     a64_db_decode   C02's inverse operand map (`decode_row`) reads those operands back from the word, so the two decoders agree;
     a64_db_target   the displacement operand of `a64_ops i` (ORel / OLit: "label at pc + disp") is the displacement `a64_target` adds.
   The only database-specific numbers in this file are the two tables `a64_rid` (row ids) and `a64_mn` (mnemonic numbers); the rows
   themselves are fetched from `rows` by computation inside the proofs, so field numbers or template spellings may change freely. *)
From Coq Require Import ZArith List Bool Lia.
From Verif Require Import Base.ZBits Codec.OffsetModel Labels.LabelsModel Labels.LabelsExact Labels.A64Dec A64.A64Tmpl A64.A64TmplProofs A64.A64Sem A64.A64SemProofs A64.A64InvProofs.
From VerifGen Require Import IsaA64Db.
Import ListNotations.
Local Open Scope Z_scope.

(* AsmJit id of a 5-bit register field of these classes (31 reads as ZR = 63) *)
Definition gpid (r : Z) : Z := if r =? 31 then 63 else r.

(* mnemonic numbers of IsaA64Db: 10 adr, 11 adrp, 36 b, 37 b.<cond>, 59 bl, 88 cbnz, 89 cbz, 327 ldr, 332 ldrsw, 454 prfm, 821 tbnz, 823 tbz *)
Definition a64_mn (i : a64i) : Z :=
  match i with
  | IB link _ => if link then 59 else 36
  | IBcond _ _ => 37
  | ICb _ nz _ _ => if nz then 88 else 89
  | ITb _ nz _ _ _ => if nz then 821 else 823
  | IAdr page _ _ => if page then 11 else 10
  | ILdrLit opc v _ _ => if v then 327 else if opc =? 2 then 332 else if opc =? 3 then 454 else 327
  end.

(* row ids of IsaA64Db *)
Definition a64_rid (i : a64i) : Z :=
  match i with
  | IB link _ => if link then 1630 else 1050
  | IBcond _ _ => 1060
  | ICb sf nz _ _ => if nz then (if sf then 2190 else 2180) else (if sf then 2210 else 2200)
  | ITb b5 nz _ _ _ => if nz then (if b5 then 31780 else 31770) else (if b5 then 31890 else 31880)
  | IAdr page _ _ => if page then 510 else 470
  | ILdrLit opc v _ _ =>
      if v then (if opc =? 0 then 17030 else if opc =? 1 then 17040 else 17050)
      else (if opc =? 0 then 16960 else if opc =? 1 then 16970 else if opc =? 2 then 17500 else 20830)
  end.

(* the operands in C02's language (what a caller hands to a64::Assembler::emit) *)
Definition a64_disp (i : a64i) : Z :=
  match i with
  | IB _ imm | IBcond _ imm | ICb _ _ _ imm | ITb _ _ _ _ imm | ILdrLit _ _ _ imm => imm * 4
  | IAdr page _ imm => if page then imm * 4096 else imm * 1
  end.

Definition a64_ops (i : a64i) : list operand :=
  match i with
  | IB _ _ => [ORel (a64_disp i)]
  | IBcond c _ => [OImm 0 ((c + 2) mod 16); ORel (a64_disp i)]
  | ICb sf _ rt _ => [OGp sf (gpid rt); ORel (a64_disp i)]
  | ITb b5 _ b40 rt _ => [OGp b5 (gpid rt); OImm 0 (bz b5 * 32 + b40); ORel (a64_disp i)]
  | IAdr _ rd _ => [OGp true (gpid rd); ORel (a64_disp i)]
  | ILdrLit opc v rt _ =>
      if v then [OVec (opc + 2) 0 (-1) rt; OLit (a64_disp i)]
      else if opc =? 3 then [OImm 0 rt; OLit (a64_disp i)]
      else [OGp (negb (opc =? 0)) (gpid rt); OLit (a64_disp i)]
  end.

(* opc = 3 with V = 1 is unallocated in the architecture and has no database row *)
Definition a64_db_ok (i : a64i) : Prop := match i with ILdrLit opc true _ _ => opc <> 3 | _ => True end.

(* ------------------------------------------------------------------ binding lemmas (one per operand syntax used by these rows) *)
Lemma bind1_rel f w scale imm r : 1 <= w -> 1 <= scale -> - 2 ^ (w - 1) <= imm < 2 ^ (w - 1) ->
  bind1 (SRel f w scale) (ORel (imm * scale) :: r) = Some ([(f, imm mod 2 ^ w)], r).
Proof.
  intros Hw Hs Hi. cbv beta iota delta [bind1]. rewrite Z.mod_mul, Z.div_mul by lia. cbv beta iota delta [fits_s].
  replace (- 2 ^ (w - 1) <=? imm) with true by (symmetry; apply Z.leb_le; lia).
  replace (imm <? 2 ^ (w - 1)) with true by (symmetry; apply Z.ltb_lt; lia). reflexivity.
Qed.

Lemma bind1_lit f w imm r : - 2 ^ (w - 1) <= imm < 2 ^ (w - 1) ->
  bind1 (SMemLit f w) (OLit (imm * 4) :: r) = Some ([(f, imm mod 2 ^ w)], r).
Proof.
  intros Hi. cbv beta iota delta [bind1]. rewrite Z.mod_mul, Z.div_mul by lia. cbv beta iota delta [fits_s].
  replace (- 2 ^ (w - 1) <=? imm) with true by (symmetry; apply Z.leb_le; lia).
  replace (imm <? 2 ^ (w - 1)) with true by (symmetry; apply Z.ltb_lt; lia). reflexivity.
Qed.

Lemma gpid_mod rt : 0 <= rt < 32 -> gpid rt mod 32 = rt /\ gp_ok (gpid rt) 63 = true.
Proof.
  intros H. unfold gpid, gp_ok. destruct (rt =? 31) eqn:E.
  - apply Z.eqb_eq in E. subst. split; reflexivity.
  - apply Z.eqb_neq in E. split; [apply Z.mod_small; lia|].
    replace (0 <=? rt) with true by (symmetry; apply Z.leb_le; lia). replace (rt <=? 30) with true by (symmetry; apply Z.leb_le; lia). reflexivity.
Qed.

Lemma bind1_gp x f rt r : 0 <= rt < 32 -> bind1 (SGp x 63 f) (OGp x (gpid rt) :: r) = Some ([(f, rt)], r).
Proof.
  intros H. destruct (gpid_mod rt H) as (Hm & Hg). cbv beta iota delta [bind1]. rewrite Hg, Hm, Bool.eqb_reflx. reflexivity.
Qed.

Lemma bind1_cond f c r : 0 <= c < 16 -> bind1 (SCond f false) (OImm 0 ((c + 2) mod 16) :: r) = Some ([(f, c)], r).
Proof.
  intros H. cbv beta iota delta [bind1]. pose proof (Z.mod_pos_bound (c + 2) 16 ltac:(lia)) as Hb.
  replace (0 <=? (c + 2) mod 16) with true by (symmetry; apply Z.leb_le; lia).
  replace ((c + 2) mod 16 <=? 15) with true by (symmetry; apply Z.leb_le; lia). cbv beta iota delta [andb].
  replace (((c + 2) mod 16 - 2) mod 16) with c; [reflexivity|].
  rewrite Zminus_mod_idemp_l. replace (c + 2 - 2) with c by ring. symmetry. apply Z.mod_small. lia.
Qed.

Lemma bind1_immu f w v r : 0 <= v < 2 ^ w -> bind1 (SImmU f w 1) (OImm 0 v :: r) = Some ([(f, v)], r).
Proof.
  intros H. cbv beta iota delta [bind1]. rewrite Z.mod_1_r, Z.div_1_r. cbv beta iota delta [fits_u].
  replace (0 <=? v) with true by (symmetry; apply Z.leb_le; lia). replace (v <? 2 ^ w) with true by (symmetry; apply Z.ltb_lt; lia). reflexivity.
Qed.

Lemma bind1_vec rt f id r : 0 <= id < 32 -> bind1 (SVec rt 0 f 5) (OVec rt 0 (-1) id :: r) = Some ([(f, id)], r).
Proof.
  intros H. cbv beta iota delta [bind1]. rewrite !Z.eqb_refl. cbv beta iota delta [fits_u andb].
  replace (0 <=? id) with true by (symmetry; apply Z.leb_le; lia). replace (id <? 2 ^ 5) with true by (symmetry; apply Z.ltb_lt; lia). reflexivity.
Qed.

(* ------------------------------------------------------------------ fetching a row *)
Definition row_by_id (id : Z) : option row := find (fun r => r_id r =? id) rows.
Lemma row_by_id_in id r : row_by_id id = Some r -> In r rows /\ r_id r = id.
Proof. intros H. apply find_some in H. destruct H as (Hi & He). apply Z.eqb_eq in He. auto. Qed.

(* goal: exists r, row_by_id id = Some r /\ P r  — fetch the row by computation *)
Ltac fetch_row id :=
  let o := eval vm_compute in (row_by_id id) in
  match o with
  | Some ?r0 => exists r0; split; [vm_compute; reflexivity|]
  end.

(* the word of a row for a bound environment, with all template arithmetic made explicit *)
Ltac tenc_norm :=
  cbv beta iota zeta delta [tenc ival lookup twidth iwidth app];
  repeat match goal with |- context [?a =? ?b] => let v := eval vm_compute in (a =? b) in change (a =? b) with v; cbv beta iota end;
  repeat match goal with |- context [2 ^ ?e] => let v := eval vm_compute in (2 ^ e) in change (2 ^ e) with v end.

Lemma mod_mod_div1 x m : 0 < m -> ((x mod m) / 1) mod m = x mod m.
Proof. intros. rewrite Z.div_1_r. apply Z.mod_mod. lia. Qed.
Lemma small_div1 x m : 0 <= x < m -> (x / 1) mod m = x.
Proof. intros. rewrite Z.div_1_r. apply Z.mod_small. assumption. Qed.

Theorem a64_db_row i : a64_wf i -> a64_db_ok i ->
  exists r, row_by_id (a64_rid i) = Some r /\ r_mn r = a64_mn i /\ spec_row r (a64_ops i) = Some (a64_enc i).
Proof.
  destruct i as [link imm|c imm|sf nz rt imm|b5 nz b40 rt imm|page rd imm|opc v rt imm]; cbn [a64_wf a64_db_ok]; intros Hwf Hok.
  - (* B / BL *)
    destruct link; cbn [a64_rid a64_mn a64_ops a64_disp a64_enc bz].
    + fetch_row 1630. split; [reflexivity|]. cbv beta iota delta [spec_row r_ops r_tmpl bind].
      rewrite bind1_rel by pw. tenc_norm. rewrite mod_mod_div1 by lia. f_equal. lia.
    + fetch_row 1050. split; [reflexivity|]. cbv beta iota delta [spec_row r_ops r_tmpl bind].
      rewrite bind1_rel by pw. tenc_norm. rewrite mod_mod_div1 by lia. f_equal. lia.
  - (* B.cond *)
    destruct Hwf as (Hc & Hi). cbn [a64_rid a64_mn a64_ops a64_disp a64_enc].
    fetch_row 1060. split; [reflexivity|]. cbv beta iota delta [spec_row r_ops r_tmpl bind].
    rewrite bind1_cond by lia. rewrite bind1_rel by pw. tenc_norm.
    rewrite mod_mod_div1 by lia. rewrite (small_div1 c 16) by lia. f_equal. lia.
  - (* CBZ / CBNZ *)
    destruct Hwf as (Hr & Hi).
    destruct sf, nz; cbn [a64_rid a64_mn a64_ops a64_disp a64_enc bz];
      [fetch_row 2190|fetch_row 2210|fetch_row 2180|fetch_row 2200];
      (split; [reflexivity|]; cbv beta iota delta [spec_row r_ops r_tmpl bind];
       rewrite bind1_gp by lia; rewrite bind1_rel by pw; tenc_norm;
       rewrite mod_mod_div1 by lia; rewrite (small_div1 rt 32) by lia; f_equal; lia).
  - (* TBZ / TBNZ *)
    destruct Hwf as (Hb & Hr & Hi).
    destruct b5, nz; cbn [a64_rid a64_mn a64_ops a64_disp a64_enc bz];
      [fetch_row 31780|fetch_row 31890|fetch_row 31770|fetch_row 31880];
      (split; [reflexivity|]; cbv beta iota delta [spec_row r_ops r_tmpl bind];
       rewrite bind1_gp by lia; rewrite bind1_immu by pw; rewrite bind1_rel by pw; tenc_norm;
       rewrite mod_mod_div1 by lia; rewrite (small_div1 rt 32) by lia).
    + replace (((1 * 32 + b40) / 32) mod 2) with 1 by (replace (1 * 32 + b40) with (b40 + 1 * 32) by ring; rewrite Z.div_add by lia; rewrite Z.div_small by lia; reflexivity).
      replace (((1 * 32 + b40) / 1) mod 32) with b40 by (rewrite Z.div_1_r; replace (1 * 32 + b40) with (b40 + 1 * 32) by ring; rewrite Z.mod_add by lia; symmetry; apply Z.mod_small; lia).
      f_equal. lia.
    + replace (((1 * 32 + b40) / 32) mod 2) with 1 by (replace (1 * 32 + b40) with (b40 + 1 * 32) by ring; rewrite Z.div_add by lia; rewrite Z.div_small by lia; reflexivity).
      replace (((1 * 32 + b40) / 1) mod 32) with b40 by (rewrite Z.div_1_r; replace (1 * 32 + b40) with (b40 + 1 * 32) by ring; rewrite Z.mod_add by lia; symmetry; apply Z.mod_small; lia).
      f_equal. lia.
    + rewrite (small_div1 (0 * 32 + b40) 32) by lia. f_equal. lia.
    + rewrite (small_div1 (0 * 32 + b40) 32) by lia. f_equal. lia.
  - (* ADR / ADRP *)
    destruct Hwf as (Hr & Hi). pose proof (Z.mod_pos_bound imm 2097152 ltac:(lia)) as Hm.
    destruct page; cbn [a64_rid a64_mn a64_ops a64_disp a64_enc bz];
      [fetch_row 510|fetch_row 470];
      (split; [reflexivity|]; cbv beta iota delta [spec_row r_ops r_tmpl bind];
       rewrite bind1_gp by lia; rewrite bind1_rel by pw; tenc_norm;
       rewrite (small_div1 rd 32) by lia; rewrite Z.div_1_r;
       rewrite (Z.mod_small (imm mod 2097152 / 4) 524288) by (split; [apply Z.div_pos; lia | apply Z.div_lt_upper_bound; lia]);
       f_equal; lia).
  - (* literal loads *)
    destruct Hwf as (Ho & Hr & Hi).
    assert (Hopc : opc = 0 \/ opc = 1 \/ opc = 2 \/ opc = 3) by lia.
    destruct v; [destruct Hopc as [-> | [-> | [-> | ->]]]; [| | |exfalso; apply Hok; reflexivity] | destruct Hopc as [-> | [-> | [-> | ->]]]];
      cbn [a64_rid a64_mn a64_ops a64_disp a64_enc bz Z.eqb Pos.eqb negb Z.add Pos.add Pos.succ];
      [fetch_row 17030|fetch_row 17040|fetch_row 17050|fetch_row 16960|fetch_row 16970|fetch_row 17500|fetch_row 20830];
      (split; [reflexivity|]; cbv beta iota delta [spec_row r_ops r_tmpl bind];
       first [rewrite bind1_gp by lia | rewrite bind1_vec by lia | rewrite bind1_immu by pw];
       rewrite bind1_lit by pw; tenc_norm;
       rewrite mod_mod_div1 by lia; rewrite (small_div1 rt 32) by lia; f_equal; lia).
Qed.

(* ------------------------------------------------------------------ C02's decoder reads the same operands back *)
Lemma a64_db_canon i r : a64_db_ok i -> 0 <= (match i with ILdrLit opc _ _ _ => opc | _ => 0 end) < 4 ->
  row_by_id (a64_rid i) = Some r -> canon (r_ops r) (a64_ops i) = Some (a64_ops i).
Proof.
  intros Hok Ho.
  destruct i as [link imm|c imm|sf nz rt imm|b5 nz b40 rt imm|page rd imm|opc v rt imm]; cbn [a64_db_ok] in Hok.
  - destruct link; cbn [a64_rid]; intros H; vm_compute in H; inversion H; subst r; reflexivity.
  - cbn [a64_rid]; intros H; vm_compute in H; inversion H; subst r; reflexivity.
  - destruct sf, nz; cbn [a64_rid]; intros H; vm_compute in H; inversion H; subst r; reflexivity.
  - destruct b5, nz; cbn [a64_rid]; intros H; vm_compute in H; inversion H; subst r; reflexivity.
  - destruct page; cbn [a64_rid]; intros H; vm_compute in H; inversion H; subst r; reflexivity.
  - assert (Hopc : opc = 0 \/ opc = 1 \/ opc = 2 \/ opc = 3) by lia.
    destruct v; [destruct Hopc as [-> | [-> | [-> | ->]]]; [| | |exfalso; apply Hok; reflexivity] | destruct Hopc as [-> | [-> | [-> | ->]]]];
      cbn [a64_rid Z.eqb Pos.eqb]; intros H; vm_compute in H; inversion H; subst r; reflexivity.
Qed.

Theorem a64_db_agrees i : a64_wf i -> a64_db_ok i ->
  exists r, In r rows /\ r_id r = a64_rid i /\ r_mn r = a64_mn i /\
            spec_row r (a64_ops i) = Some (a64_enc i) /\
            tmatch (r_tmpl r) (a64_enc i) = true /\ decode_row r (a64_enc i) = a64_ops i.
Proof.
  intros Hwf Hok. destruct (a64_db_row i Hwf Hok) as (r & Hr & Hmn & Hs).
  destruct (row_by_id_in _ _ Hr) as (Hin & Hid).
  assert (Hrw : row_wf r = true) by (pose proof rows_wf as W; rewrite forallb_forall in W; exact (W r Hin)).
  assert (Hri : row_inv r = true) by (pose proof rows_all_inv as W; rewrite forallb_forall in W; exact (W r Hin)).
  exists r. repeat (split; [assumption|]).
  destruct (spec_row_fields_recovered r _ _ Hrw Hs) as (_ & Hm & _). split; [exact Hm|].
  pose proof (operands_recovered r _ _ Hrw Hri Hs) as Hc.
  rewrite (a64_db_canon i r Hok) in Hc; [inversion Hc; reflexivity| |exact Hr].
  destruct i; cbn [a64_wf] in Hwf; lia.
Qed.

(* the displacement operand is the displacement the architectural reading adds: ORel / OLit d designates pc + d (ADRP: Page(pc) + d) *)
Definition disp_of (o : operand) : option Z := match o with ORel d | OLit d => Some d | _ => None end.

Theorem a64_db_target i pc :
  disp_of (last (a64_ops i) (OImm 0 0)) = Some (a64_disp i) /\
  a64_target pc i = ((match i with IAdr true _ _ => pc - pc mod 4096 | _ => pc end) + a64_disp i) mod 2 ^ 64.
Proof.
  destruct i as [link imm|c imm|sf nz rt imm|b5 nz b40 rt imm|page rd imm|opc v rt imm]; cbn [a64_ops a64_disp a64_target last disp_of].
  1-4: split; [reflexivity|]; f_equal; ring.
  - destruct page; (split; [reflexivity|]); f_equal; ring.
  - split; [destruct v; [reflexivity|]; destruct (opc =? 3); reflexivity|]. f_equal; ring.
Qed.

(* ------------------------------------------------------------------ the patched word of a label reference, in C02's language *)
Lemma set_imm_ids i v : a64_rid (set_imm i v) = a64_rid i /\ a64_mn (set_imm i v) = a64_mn i /\ (a64_db_ok (set_imm i v) <-> a64_db_ok i).
Proof. destruct i; cbn [set_imm a64_rid a64_mn a64_db_ok]; repeat split; auto. Qed.

Lemma set_imm_disp i v : a64_disp (set_imm i v) = v * 2 ^ discard (fmt_of_kind (kind_of i)).
Proof. destruct i as [| | | |[|]|]; reflexivity. Qed.

(* The word found at a resolved label reference - the instruction emitted with a zero displacement field OR the encoded displacement
   `off` (Labels: resolved_exact / image_resolved_exact) - is exactly the word C02's database model assigns to the same instruction
   with the displacement operand `off` ("label at pc + off"), and C02's inverse operand map reads that operand back from it. *)
Theorem a64_db_patched i off m :
  a64_wf (set_imm i 0) -> a64_db_ok i -> hole_ok (kind_of i) (a64_enc (set_imm i 0)) = true -> int64 off ->
  encode_offset (fmt_of_kind (kind_of i)) off = Some m ->
  let w := Z.lor (a64_enc (set_imm i 0)) m in
  let i' := set_imm i (off / 2 ^ discard (fmt_of_kind (kind_of i))) in
  exists r, In r rows /\ r_id r = a64_rid i /\ r_mn r = a64_mn i /\
            spec_row r (a64_ops i') = Some w /\ decode_row r w = a64_ops i' /\
            disp_of (last (a64_ops i') (OImm 0 0)) = Some off.
Proof.
  intros Hwf Hok Hh Hi He w i'.
  destruct (a64_patched_word i off m Hwf Hh Hi He) as (Ew & Hwfv & Hoff). fold w in Ew. fold i' in Ew, Hwfv.
  destruct (set_imm_ids i (off / 2 ^ discard (fmt_of_kind (kind_of i)))) as (E1 & E2 & E3). fold i' in E1, E2, E3.
  destruct (a64_db_agrees i' Hwfv (proj2 E3 Hok)) as (r & Hin & Hid & Hmn & Hs & _ & Hd).
  exists r. rewrite Ew. split; [exact Hin|]. split; [congruence|]. split; [congruence|]. split; [exact Hs|]. split; [exact Hd|].
  destruct (a64_db_target i' 0) as (Hl & _). rewrite Hl. f_equal. unfold i'. rewrite set_imm_disp. symmetry. exact Hoff.
Qed.

(* the hypotheses are satisfiable, and for concrete operands the instruction-level function of C02's model (first accepting row of
   the mnemonic) gives the same row and word: `cbz x5, <pc + 1 MiB - 4>` *)
Example a64_db_patched_witness :
  let i := ICb true false 5 0 in
  a64_wf (set_imm i 0) /\ a64_db_ok i /\ hole_ok (kind_of i) (a64_enc (set_imm i 0)) = true /\
  encode_offset (fmt_of_kind (kind_of i)) 1048572 = Some 8388576 /\
  spec_rows rows (a64_mn i) [OGp true 5; ORel 1048572] = Some (a64_rid i, Z.lor (a64_enc (set_imm i 0)) 8388576).
Proof.
  cbv zeta. split; [vm_compute; repeat split; discriminate|]. split; [exact I|]. repeat split; vm_compute; reflexivity.
Qed.

(* ------------------------------------------------------------------ instruction level: C02's `spec_rows` (first accepting row of the mnemonic) *)
(* a necessary condition for a row's syntaxes to accept an operand list, decidable on the constructors alone (first two positions) *)
Definition shape1 (s : opsyn) (o : operand) : bool :=
  match s, o with
  | SGp x _ _, OGp x' _ => Bool.eqb x x'
  | SGp _ _ _, _ => false
  | SVec rt et _ _, OVec rt' et' _ _ => (rt' =? rt) && (et' =? et)
  | SVec _ _ _ _, _ => false
  | (SImmU _ _ _ | SCond _ _), OImm _ _ => true
  | (SImmU _ _ _ | SCond _ _), _ => false
  | (SMemOff _ _ _ _ _ _ | SMemIdx _ _ _ _ _), OMem _ _ _ _ _ _ => true
  | (SMemOff _ _ _ _ _ _ | SMemIdx _ _ _ _ _), _ => false
  | SMemLit _ _, OLit _ => true
  | SMemLit _ _, _ => false
  | SRel _ _ _, ORel _ => true
  | SRel _ _ _, _ => false
  | _, _ => true
  end.
Definition consumes_one (s : opsyn) : bool :=
  match s with SGp _ _ _ | SVec _ _ _ _ | SImmU _ _ _ | SCond _ _ => true | _ => false end.
Definition shape_ok (ss : list opsyn) (ops : list operand) : bool :=
  match ss, ops with
  | s1 :: sr, o1 :: r =>
      shape1 s1 o1 && (if consumes_one s1 then match sr, r with s2 :: _, o2 :: _ => shape1 s2 o2 | _, _ => true end else true)
  | _, _ => true
  end.

Lemma shape1_nec s o r e rest : bind1 s (o :: r) = Some (e, rest) -> shape1 s o = true.
Proof.
  destruct s; destruct o; cbv beta iota delta [shape1]; try reflexivity; cbv beta iota delta [bind1]; try discriminate.
  - destruct (Bool.eqb x x0); [reflexivity|]. cbn [andb]. discriminate.
  - destruct ((rt0 =? rt) && (et0 =? et)) eqn:E; [reflexivity|].
    destruct (rt0 =? rt); [|cbn [andb]; discriminate]. destruct (et0 =? et); [discriminate E|]. cbn [andb]. discriminate.
Qed.

Lemma consumes_one_rest s o r e rest : consumes_one s = true -> bind1 s (o :: r) = Some (e, rest) -> rest = r.
Proof.
  destruct s; cbv beta iota delta [consumes_one]; try discriminate; intros _; destruct o; cbv beta iota delta [bind1]; try discriminate;
    repeat match goal with |- (if ?c then _ else _) = _ -> _ => destruct c end; intros H; try discriminate H; inversion H; reflexivity.
Qed.

Lemma bind_shape ss ops e : bind ss ops = Some e -> shape_ok ss ops = true.
Proof.
  destruct ss as [|s1 sr]; [reflexivity|]. destruct ops as [|o1 r]; [reflexivity|]. cbn [bind shape_ok].
  destruct (bind1 s1 (o1 :: r)) as [[e1 rest]|] eqn:E1; [|discriminate].
  rewrite (shape1_nec _ _ _ _ _ E1). cbn [andb].
  destruct (consumes_one s1) eqn:C; [|reflexivity]. rewrite (consumes_one_rest _ _ _ _ _ C E1).
  destruct sr as [|s2 sr2]; [reflexivity|]. destruct r as [|o2 r2]; [reflexivity|]. cbn [bind].
  destruct (bind1 s2 (o2 :: r2)) as [[e2 rest2]|] eqn:E2; [|discriminate]. intros _. exact (shape1_nec _ _ _ _ _ E2).
Qed.

(* the first row of the mnemonic whose shape accepts the operands *)
Fixpoint first_shape (db : list row) (mn : Z) (ops : list operand) : option row :=
  match db with
  | [] => None
  | r :: rest => if (r_mn r =? mn) && shape_ok (r_ops r) ops then Some r else first_shape rest mn ops
  end.

Lemma spec_rows_first db mn ops r w : first_shape db mn ops = Some r -> spec_row r ops = Some w -> spec_rows db mn ops = Some (r_id r, w).
Proof.
  induction db as [|r0 rest IH]; cbn [first_shape spec_rows]; [discriminate|]. intros H Hs.
  destruct (r_mn r0 =? mn) eqn:Em; cbn [andb] in H.
  - destruct (shape_ok (r_ops r0) ops) eqn:Eh.
    + injection H as ->. rewrite Hs. reflexivity.
    + assert (spec_row r0 ops = None) as ->; [|exact (IH H Hs)].
      unfold spec_row. destruct (bind (r_ops r0) ops) as [e|] eqn:Eb; [|reflexivity].
      rewrite (bind_shape _ _ _ Eb) in Eh. discriminate.
  - exact (IH H Hs).
Qed.

Lemma a64_first_shape i : 0 <= (match i with ILdrLit opc _ _ _ => opc | _ => 0 end) < 4 -> a64_db_ok i ->
  first_shape rows (a64_mn i) (a64_ops i) = row_by_id (a64_rid i).
Proof.
  intros Ho Hok.
  destruct i as [link imm|c imm|sf nz rt imm|b5 nz b40 rt imm|page rd imm|opc v rt imm]; cbn [a64_db_ok] in Hok.
  - destruct link; vm_compute; reflexivity.
  - vm_compute; reflexivity.
  - destruct sf, nz; vm_compute; reflexivity.
  - destruct b5, nz; vm_compute; reflexivity.
  - destruct page; vm_compute; reflexivity.
  - assert (Hopc : opc = 0 \/ opc = 1 \/ opc = 2 \/ opc = 3) by lia.
    destruct v; [destruct Hopc as [-> | [-> | [-> | ->]]]; [| | |exfalso; apply Hok; reflexivity] | destruct Hopc as [-> | [-> | [-> | ->]]]];
      vm_compute; reflexivity.
Qed.

(* C02's instruction-level model: the FIRST row of the mnemonic that accepts the operands is that row, and the word is a64_enc i *)
Theorem a64_db_spec_rows i : a64_wf i -> a64_db_ok i -> spec_rows rows (a64_mn i) (a64_ops i) = Some (a64_rid i, a64_enc i).
Proof.
  intros Hwf Hok. destruct (a64_db_row i Hwf Hok) as (r & Hr & Hmn & Hs).
  destruct (row_by_id_in _ _ Hr) as (_ & Hid). rewrite <- Hid.
  apply spec_rows_first; [|exact Hs]. rewrite a64_first_shape; [exact Hr| |exact Hok].
  destruct i; cbn [a64_wf] in Hwf; lia.
Qed.

(* ... and the word at a resolved reference is what C02's instruction-level model emits for the displacement operand `off` *)
Theorem a64_db_patched_spec_rows i off m :
  a64_wf (set_imm i 0) -> a64_db_ok i -> hole_ok (kind_of i) (a64_enc (set_imm i 0)) = true -> int64 off ->
  encode_offset (fmt_of_kind (kind_of i)) off = Some m ->
  let i' := set_imm i (off / 2 ^ discard (fmt_of_kind (kind_of i))) in
  spec_rows rows (a64_mn i) (a64_ops i') = Some (a64_rid i, Z.lor (a64_enc (set_imm i 0)) m) /\
  disp_of (last (a64_ops i') (OImm 0 0)) = Some off.
Proof.
  intros Hwf Hok Hh Hi He i'.
  destruct (a64_patched_word i off m Hwf Hh Hi He) as (Ew & Hwfv & Hoff). fold i' in Ew, Hwfv.
  destruct (set_imm_ids i (off / 2 ^ discard (fmt_of_kind (kind_of i)))) as (E1 & E2 & E3). fold i' in E1, E2, E3.
  rewrite Ew, <- E1, <- E2. split; [apply a64_db_spec_rows; [exact Hwfv|exact (proj2 E3 Hok)]|].
  destruct (a64_db_target i' 0) as (Hl & _). rewrite Hl. f_equal. unfold i'. rewrite set_imm_disp. symmetry. exact Hoff.
Qed.

From Coq Require Import ZArith List Bool Lia.
From Verif Require Import Base.ZBits Codec.OffsetModel Codec.OffsetProofs Labels.LabelsModel Labels.LabelsProofs Labels.LabelsExact
  Labels.FlatModel Labels.FlatLemmas Labels.FlatProofs Labels.A64Dec Labels.A64RefMeaning A64.A64Tmpl A64.A64Sem Labels.A64DbTie.
From VerifGen Require Import IsaA64Db.
Import ListNotations.
Local Open Scope Z_scope.

(* patched later = assembled with the target known: the word in the image at a resolved reference is exactly the word C02's
   instruction-level model (tied to the real assembler by C02's check) emits for the same instruction with the displacement operand
   "label at pc + final displacement" *)
Theorem a64_reference_is_db_word ops offs id r i :
  resolves_with offs ops ->
  let s := run init ops in let f := frun finit ops in
  nth_error (refs s) id = Some r -> ~ In id (ids (pending s)) ->
  r_kind r = kind_of i -> r_w0 r = a64_enc (set_imm i 0) -> a64_wf (set_imm i 0) -> a64_db_ok i ->
  exists ls lo, nth_error (f_labels f) (r_label r) = Some (Some (ls, lo)) /\
    let d := final_disp offs ls lo r in
    let i' := set_imm i (d / 2 ^ discard (fmt_of_kind (kind_of i))) in
    spec_rows rows (a64_mn i) (a64_ops i') = Some (a64_rid i, read_word (nth (r_sec r) (f_secs f) []) (r_site r) 4) /\
    disp_of (last (a64_ops i') (OImm 0 0)) = Some d.
Proof.
  intros R s f Hr Hp Hk Hw0 Hwf Hok.
  destruct (resolved_enc_stable ops offs id r R Hr Hp) as (ls & lo & m & Hl & He & Hw & Hh). fold s in Hl.
  exists ls, lo. destruct (flat_refines ops) as (_ & E & _). fold s f in E. rewrite E. split; [exact Hl|]. cbv zeta.
  pose proof (image_word ops id r Hr) as Hiw. cbv zeta in Hiw. fold f in Hiw.
  replace 4%nat with (vnat (r_kind r)) by (rewrite Hk; destruct i as [| | | |[|]|]; reflexivity). rewrite Hiw, Hw, Hw0.
  rewrite Hk, Hw0 in Hh. rewrite Hk in He.
  exact (a64_db_patched_spec_rows i _ m Hwf Hok Hh (to_i64_int64 _) He).
Qed.

(* C03 — byte-level lemmas for the flat-buffer refinement: little-endian words, reading/writing a word at an offset of a
   concatenation, and the image of a structured section when one reference word changes. *)
From Coq Require Import ZArith List Bool Lia.
From Verif Require Import Base.ZBits Codec.OffsetModel Labels.LabelsModel Labels.LabelsProofs Labels.FlatModel.
Import ListNotations.
Local Open Scope Z_scope.
Arguments zlen : simpl never.

(* ------------------------------------------------------------------ little-endian words *)
Lemma le_split_length n w : length (le_split n w) = n.
Proof. revert w; induction n; intros w; simpl; auto. Qed.

Lemma le_join_split n w : le_join (le_split n w) = w mod 2 ^ (8 * Z.of_nat n).
Proof.
  revert w; induction n as [|n IH]; intros w.
  - simpl. rewrite Z.mod_1_r. reflexivity.
  - cbn [le_split le_join]. rewrite IH.
    replace (8 * Z.of_nat (S n)) with (8 + 8 * Z.of_nat n) by lia. rewrite Z.pow_add_r by lia.
    change (2 ^ 8) with 256. rewrite Z.rem_mul_r by (try lia; pose proof (pow2_pos (8 * Z.of_nat n) ltac:(lia)); lia).
    reflexivity.
Qed.

Lemma le_join_split_id n w : 0 <= w < 2 ^ (8 * Z.of_nat n) -> le_join (le_split n w) = w.
Proof. intros H. rewrite le_join_split. apply Z.mod_small. exact H. Qed.

Lemma zlen_app {A} (a b : list A) : zlen (a ++ b) = zlen a + zlen b.
Proof. unfold zlen. rewrite app_length. lia. Qed.

Lemma zlen_repeat {A} (x : A) n : zlen (repeat x n) = Z.of_nat n.
Proof. unfold zlen. rewrite repeat_length. reflexivity. Qed.

Lemma zlen_nat {A} (l : list A) : Z.to_nat (zlen l) = length l.
Proof. unfold zlen. apply Nat2Z.id. Qed.

(* ------------------------------------------------------------------ words inside a concatenation *)
Lemma write_word_app_r (X Y : list Z) off n w : zlen X <= off ->
  write_word (X ++ Y) off n w = X ++ write_word Y (off - zlen X) n w.
Proof.
  intros H. unfold write_word.
  assert (E : Z.to_nat off = (length X + Z.to_nat (off - zlen X))%nat) by (unfold zlen in *; lia).
  rewrite E. rewrite firstn_app, skipn_app.
  replace (length X + Z.to_nat (off - zlen X) - length X)%nat with (Z.to_nat (off - zlen X)) by lia.
  replace (length X + Z.to_nat (off - zlen X) + n - length X)%nat with (Z.to_nat (off - zlen X) + n)%nat by lia.
  rewrite firstn_all2 by lia. rewrite skipn_all2 by lia. simpl. rewrite <- app_assoc. reflexivity.
Qed.

Lemma write_word_at0 (A B : list Z) n w : length A = n -> write_word (A ++ B) 0 n w = le_split n w ++ B.
Proof.
  intros H. unfold write_word. simpl. rewrite skipn_app, H, Nat.sub_diag. rewrite skipn_all2 by lia. reflexivity.
Qed.

Lemma read_word_app_r (X Y : list Z) off n : zlen X <= off -> read_word (X ++ Y) off n = read_word Y (off - zlen X) n.
Proof.
  intros H. unfold read_word.
  assert (E : Z.to_nat off = (length X + Z.to_nat (off - zlen X))%nat) by (unfold zlen in *; lia).
  rewrite E, skipn_app. rewrite skipn_all2 by lia.
  replace (length X + Z.to_nat (off - zlen X) - length X)%nat with (Z.to_nat (off - zlen X)) by lia. reflexivity.
Qed.

Lemma read_word_at0 (A B : list Z) n : length A = n -> read_word (A ++ B) 0 n = le_join A.
Proof.
  intros H. unfold read_word. simpl. rewrite firstn_app, H, Nat.sub_diag. rewrite firstn_all2 by lia. simpl.
  rewrite app_nil_r. reflexivity.
Qed.

Lemma write_word_length bs off n w : 0 <= off -> off + Z.of_nat n <= zlen bs -> zlen (write_word bs off n w) = zlen bs.
Proof.
  intros H0 H. unfold write_word, zlen in *. rewrite !app_length, firstn_length, skipn_length, le_split_length. lia.
Qed.

(* ------------------------------------------------------------------ value sizes of the backend formats *)
Lemma vnat_spec k : Z.of_nat (vnat k) = vsize (fmt_of_kind k) /\ (1 <= vnat k)%nat.
Proof. destruct k; unfold vnat; simpl; split; reflexivity || lia. Qed.

(* ------------------------------------------------------------------ well-formed item lists: every reference word sits at its logged site *)
Fixpoint items_ok (rs : list refrec) (k : nat) (its : list item) (off : Z) : Prop :=
  match its with
  | [] => True
  | IRaw bs :: t => items_ok rs k t (off + zlen bs)
  | IGap n :: t => 0 <= n /\ items_ok rs k t (off + n)
  | IRef id :: t =>
    match nth_error rs id with
    | Some r => r_sec r = k /\ r_site r = off /\ items_ok rs k t (off + Z.of_nat (vnat (r_kind r)))
    | None => False
    end
  end.

Fixpoint isize (rs : list refrec) (its : list item) : Z :=
  match its with
  | [] => 0
  | IRaw bs :: t => zlen bs + isize rs t
  | IGap n :: t => n + isize rs t
  | IRef id :: t => match nth_error rs id with Some r => Z.of_nat (vnat (r_kind r)) | None => 0 end + isize rs t
  end.

Lemma flat_app rs a b : flat rs (a ++ b) = flat rs a ++ flat rs b.
Proof.
  induction a as [|[bs|n|id] t IH]; simpl; auto; try (rewrite IH, app_assoc; reflexivity).
  destruct (nth_error rs id); rewrite IH; [rewrite app_assoc|]; reflexivity.
Qed.

Lemma isize_app rs a b : isize rs (a ++ b) = isize rs a + isize rs b.
Proof. induction a as [|[bs|n|id] t IH]; simpl; try rewrite IH; lia. Qed.

Lemma items_ok_app rs k a b off : items_ok rs k (a ++ b) off <-> items_ok rs k a off /\ items_ok rs k b (off + isize rs a).
Proof.
  revert off; induction a as [|[bs|n|id] t IH]; intros off; simpl.
  - rewrite Z.add_0_r. tauto.
  - rewrite IH. rewrite Z.add_assoc. tauto.
  - rewrite IH. rewrite Z.add_assoc. tauto.
  - destruct (nth_error rs id) as [r|]; [|tauto]. rewrite IH. rewrite Z.add_assoc. tauto.
Qed.

Lemma flat_len rs k its off : items_ok rs k its off -> zlen (flat rs its) = isize rs its /\ 0 <= isize rs its.
Proof.
  revert off; induction its as [|[bs|n|id] t IH]; intros off; simpl.
  - intros _. split; [reflexivity|lia].
  - intros H. destruct (IH _ H) as (A & B). rewrite zlen_app, A. pose proof (zlen_nonneg bs). lia.
  - intros (Hn & H). destruct (IH _ H) as (A & B). rewrite zlen_app, zlen_repeat, A. lia.
  - destruct (nth_error rs id) as [r|]; [|tauto]. intros (_ & _ & H). destruct (IH _ H) as (A & B).
    rewrite zlen_app, A. unfold zlen at 1. rewrite le_split_length. lia.
Qed.

(* the reference table grows: existing items are unaffected *)
Lemma items_snoc rs k its off r : items_ok rs k its off ->
  items_ok (rs ++ [r]) k its off /\ flat (rs ++ [r]) its = flat rs its /\ isize (rs ++ [r]) its = isize rs its.
Proof.
  revert off; induction its as [|[bs|n|id] t IH]; intros off; simpl.
  - auto.
  - intros H. destruct (IH _ H) as (A & B & C). rewrite B, C. auto.
  - intros (Hn & H). destruct (IH _ H) as (A & B & C). rewrite B, C. auto.
  - destruct (nth_error rs id) as [r0|] eqn:E; [|tauto]. intros (H1 & H2 & H).
    assert (E' : nth_error (rs ++ [r]) id = Some r0).
    { rewrite nth_error_app1; [exact E|]. apply nth_error_Some. congruence. }
    rewrite E'. destruct (IH _ H) as (A & B & C). rewrite B, C. auto.
Qed.

(* sites of the references that occur in an item list are not below its start *)
Lemma items_site_lower rs k its off id r : items_ok rs k its off -> 0 <= off ->
  In (IRef id) its -> nth_error rs id = Some r -> off <= r_site r.
Proof.
  revert off; induction its as [|[bs|n|id'] t IH]; intros off; simpl.
  - tauto.
  - intros H H0 [X|X] Hr; [discriminate|]. pose proof (zlen_nonneg bs). specialize (IH _ H ltac:(lia) X Hr). lia.
  - intros (Hn & H) H0 [X|X] Hr; [discriminate|]. specialize (IH _ H ltac:(lia) X Hr). lia.
  - destruct (nth_error rs id') as [r0|] eqn:E; [|tauto]. intros (H1 & H2 & H) H0 [X|X] Hr.
    + injection X as ->. rewrite E in Hr. injection Hr as <-. lia.
    + specialize (IH _ H ltac:(lia) X Hr). lia.
Qed.

(* a reference record is replaced by one with the same ghost part *)
Definition same_place (r' r : refrec) : Prop := r_sec r' = r_sec r /\ r_site r' = r_site r /\ r_kind r' = r_kind r.

Lemma items_ok_upd rs k its off id r r' : nth_error rs id = Some r -> same_place r' r ->
  items_ok rs k its off -> items_ok (upd rs id r') k its off /\ isize (upd rs id r') its = isize rs its.
Proof.
  intros Hr (S1 & S2 & S3). revert off; induction its as [|[bs|n|id'] t IH]; intros off; simpl.
  - auto.
  - intros H. destruct (IH _ H) as (A & B). rewrite B. auto.
  - intros (Hn & H). destruct (IH _ H) as (A & B). rewrite B. auto.
  - destruct (Nat.eq_dec id id') as [<-|N].
    + rewrite Hr, (nth_error_upd_eq _ _ _ _ Hr). rewrite S1, S2, S3. intros (H1 & H2 & H).
      destruct (IH _ H) as (A & B). rewrite B. auto.
    + rewrite nth_error_upd_neq by exact N. destruct (nth_error rs id') as [r0|]; [|tauto].
      intros (H1 & H2 & H). destruct (IH _ H) as (A & B). rewrite B. auto.
Qed.

Lemma flat_upd_other rs its id r' : ~ In (IRef id) its -> flat (upd rs id r') its = flat rs its.
Proof.
  induction its as [|[bs|n|id'] t IH]; simpl; intros H; auto; try (rewrite IH by tauto; reflexivity).
  assert (N : id <> id') by (intros ->; apply H; left; reflexivity).
  rewrite nth_error_upd_neq by exact N. rewrite IH by tauto. reflexivity.
Qed.

(* THE key fact: changing the word of reference `id` in the table = writing that word at the reference's numeric site in the image *)
Lemma flat_upd_at rs k its off id r r' :
  0 <= off -> items_ok rs k its off -> In (IRef id) its -> nth_error rs id = Some r -> same_place r' r ->
  flat (upd rs id r') its = write_word (flat rs its) (r_site r - off) (vnat (r_kind r)) (r_word r') /\
  read_word (flat rs its) (r_site r - off) (vnat (r_kind r)) = r_word r mod 2 ^ (8 * Z.of_nat (vnat (r_kind r))).
Proof.
  intros H0 Hok Hin Hr Hs. revert off H0 Hok Hin; induction its as [|[bs|n|id'] t IH]; intros off H0; simpl.
  - tauto.
  - intros H [X|X]; [discriminate|]. pose proof (zlen_nonneg bs).
    pose proof (items_site_lower _ _ _ _ _ _ H ltac:(lia) X Hr) as Hl.
    destruct (IH (off + zlen bs) ltac:(lia) H X) as (A & B).
    rewrite write_word_app_r, read_word_app_r by lia.
    replace (r_site r - off - zlen bs) with (r_site r - (off + zlen bs)) by lia. rewrite A, B. auto.
  - intros (Hn & H) [X|X]; [discriminate|].
    pose proof (items_site_lower _ _ _ _ _ _ H ltac:(lia) X Hr) as Hl.
    destruct (IH (off + n) ltac:(lia) H X) as (A & B).
    rewrite write_word_app_r, read_word_app_r by (rewrite zlen_repeat; lia). rewrite zlen_repeat, Z2Nat.id by lia.
    replace (r_site r - off - n) with (r_site r - (off + n)) by lia. rewrite A, B. auto.
  - destruct (Nat.eq_dec id id') as [<-|N].
    + rewrite Hr, (nth_error_upd_eq _ _ _ _ Hr). intros (H1 & H2 & H) _.
      destruct Hs as (S1 & S2 & S3). rewrite S3, H2, Z.sub_diag.
      (* the tail cannot contain the same reference again: its sites are above *)
      assert (Hnot : ~ In (IRef id) t).
      { intros X. destruct (vnat_spec (r_kind r)) as (_ & Hv).
        pose proof (items_site_lower _ _ _ _ _ _ H ltac:(lia) X Hr). lia. }
      rewrite (flat_upd_other _ _ _ _ Hnot).
      rewrite write_word_at0, read_word_at0 by apply le_split_length. rewrite le_join_split. auto.
    + rewrite nth_error_upd_neq by exact N. destruct (nth_error rs id') as [r0|] eqn:E; [|tauto].
      intros (H1 & H2 & H) [X|X]; [injection X as ->; contradiction|].
      pose proof (items_site_lower _ _ _ _ _ _ H ltac:(lia) X Hr) as Hl.
      destruct (IH (off + Z.of_nat (vnat (r_kind r0))) ltac:(lia) H X) as (A & B).
      assert (Hz : zlen (le_split (vnat (r_kind r0)) (r_word r0)) = Z.of_nat (vnat (r_kind r0)))
        by (unfold zlen; rewrite le_split_length; reflexivity).
      rewrite write_word_app_r, read_word_app_r by lia. rewrite Hz.
      replace (r_site r - off - Z.of_nat (vnat (r_kind r0))) with (r_site r - (off + Z.of_nat (vnat (r_kind r0)))) by lia.
      rewrite A, B. auto.
Qed.

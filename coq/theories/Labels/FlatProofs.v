(* C03 — the structured-buffer model (LabelsModel.v) and the flat byte-buffer model (FlatModel.v) run in lock step:
   same error codes, counters, labels, relocation entries, pending fixups (up to the ghost id), and the byte image of every section
   of the structured state IS the flat state's buffer.  Consequence: the theorems of LabelsExact.v speak about real image bytes. *)
From Coq Require Import ZArith List Bool Lia.
From Verif Require Import Base.ZBits Codec.OffsetModel Codec.OffsetProofs Labels.LabelsModel Labels.LabelsProofs Labels.LabelsExact
  Labels.FlatModel Labels.FlatLemmas.
Import ListNotations.
Local Open Scope Z_scope.
Arguments zlen : simpl never.
Arguments bind_rel : simpl never.

(* ------------------------------------------------------------------ a patched word stays inside its value size *)
Lemma lor_bound a b n : 0 <= n -> 0 <= a < 2 ^ n -> 0 <= b < 2 ^ n -> 0 <= Z.lor a b < 2 ^ n.
Proof.
  intros Hn Ha Hb. split; [apply Z.lor_nonneg; lia|].
  destruct (Z.eq_dec a 0) as [->|Na]; [rewrite Z.lor_0_l; lia|].
  destruct (Z.eq_dec b 0) as [->|Nb]; [rewrite Z.lor_0_r; lia|].
  apply Z.log2_lt_pow2; [pose proof (Z.lor_nonneg a b); destruct (Z.eq_dec (Z.lor a b) 0) as [E|E]; [apply Z.lor_eq_0_iff in E; lia|lia]|].
  rewrite Z.log2_lor by lia. apply Z.max_lub_lt; apply Z.log2_lt_pow2; lia.
Qed.

Lemma encode_kind_bound k off m : int64 off -> encode_offset (fmt_of_kind k) off = Some m -> 0 <= m < 2 ^ (8 * Z.of_nat (vnat k)).
Proof.
  intros Hi He. destruct (vnat_spec k) as (Hv & _). rewrite Hv.
  destruct (kind_cases k) as [(Hs & Hwf & _) | (Ha & _ & Hk)].
  - pose proof (signed_roundtrip _ _ _ Hs Hwf Hi He) as (_ & (H0 & H1) & _).
    destruct Hwf as (_ & Hb & Hsh & Hfit & _). split; [exact H0|].
    eapply Z.lt_le_trans; [exact H1|]. apply pow2_le. lia.
  - pose proof (a64_adr_roundtrip _ _ _ Ha Hi He) as (_ & H & _).
    destruct Hk as [-> | ->]; simpl; exact H.
Qed.

Lemma write_offset_range k old off w : int64 off -> 0 <= old < 2 ^ (8 * Z.of_nat (vnat k)) ->
  write_offset (fmt_of_kind k) old off = Some w -> 0 <= w < 2 ^ (8 * Z.of_nat (vnat k)).
Proof.
  intros Hi Ho Hw. apply write_offset_or in Hw. destruct Hw as (m & He & ->).
  apply lor_bound; [lia|exact Ho|eapply encode_kind_bound; eauto].
Qed.

(* ------------------------------------------------------------------ images and structural well-formedness *)
Definition imgs (secs : list section) (rs : list refrec) : list (list Z) := map (fun sc => flat rs (s_items sc)) secs.
Definition word_ok (r : refrec) : Prop := 0 <= r_word r < 2 ^ (8 * Z.of_nat (vnat (r_kind r))).

Record wfr (secs : list section) (rs : list refrec) : Prop := {
  wf_items : forall k sc, nth_error secs k = Some sc -> items_ok rs k (s_items sc) 0 /\ s_len sc = isize rs (s_items sc);
  wf_word : forall id r, nth_error rs id = Some r -> word_ok r;
  wf_home : forall id r, nth_error rs id = Some r -> exists sc, nth_error secs (r_sec r) = Some sc /\ In (IRef id) (s_items sc)
}.

Definition wfs (s : state) : Prop := wfr (secs s) (refs s) /\ (cur s < length (secs s))%nat.

Definition fx_same (a b : fixup) : Prop :=
  fx_sec a = fx_sec b /\ fx_off a = fx_off b /\ fx_rel a = fx_rel b /\ fx_kind a = fx_kind b /\ fx_label a = fx_label b.

Record sim (s : state) (f : fstate) : Prop := {
  sm_secs : f_secs f = imgs (secs s) (refs s); sm_cur : f_cur f = cur s; sm_labels : f_labels f = labels s;
  sm_pending : Forall2 fx_same (pending s) (f_pending f); sm_rel : f_pending_rel f = pending_rel s;
  sm_unres : f_unresolved f = unresolved s; sm_relocs : f_relocs f = relocs s
}.

Lemma nth_imgs secs rs k sc : nth_error secs k = Some sc -> nth k (imgs secs rs) [] = flat rs (s_items sc).
Proof.
  intros H. unfold imgs. apply nth_error_nth. rewrite nth_error_map, H. reflexivity.
Qed.

(* image list after replacing the word of one reference: only the home section changes, by a word write at the site *)
Lemma imgs_upd secs rs id r r' sc :
  wfr secs rs -> nth_error rs id = Some r -> same_place r' r -> nth_error secs (r_sec r) = Some sc -> In (IRef id) (s_items sc) ->
  imgs secs (upd rs id r') = upd (imgs secs rs) (r_sec r) (write_word (flat rs (s_items sc)) (r_site r) (vnat (r_kind r)) (r_word r')).
Proof.
  intros W Hr Hs Hsc Hin.
  apply nth_ext with (d := []) (d' := []).
  - unfold imgs. rewrite upd_length, !map_length. reflexivity.
  - intros i Hi. unfold imgs in Hi. rewrite map_length in Hi.
    destruct (nth_error secs i) as [sci|] eqn:Ei; [|apply nth_error_None in Ei; lia].
    rewrite (nth_imgs secs (upd rs id r') i sci Ei).
    destruct (Nat.eq_dec (r_sec r) i) as [E|E].
    + subst i. rewrite Hsc in Ei. injection Ei as <-.
      assert (X : nth_error (upd (imgs secs rs) (r_sec r)
                              (write_word (flat rs (s_items sc)) (r_site r) (vnat (r_kind r)) (r_word r'))) (r_sec r) =
                  Some (write_word (flat rs (s_items sc)) (r_site r) (vnat (r_kind r)) (r_word r'))).
      { eapply nth_error_upd_eq. unfold imgs. rewrite nth_error_map, Hsc. reflexivity. }
      rewrite (nth_error_nth _ _ _ X).
      destruct (wf_items _ _ W _ _ Hsc) as (Hok & _).
      destruct (flat_upd_at rs (r_sec r) (s_items sc) 0 id r r' ltac:(lia) Hok Hin Hr Hs) as (A & _).
      rewrite Z.sub_0_r in A. exact A.
    + assert (X : nth_error (upd (imgs secs rs) (r_sec r)
                              (write_word (flat rs (s_items sc)) (r_site r) (vnat (r_kind r)) (r_word r'))) i =
                  Some (flat rs (s_items sci))).
      { rewrite nth_error_upd_neq by exact E. unfold imgs. rewrite nth_error_map, Ei. reflexivity. }
      rewrite (nth_error_nth _ _ _ X). apply flat_upd_other.
      intros Hin'. destruct (wf_items _ _ W _ _ Ei) as (Hok & _).
      (* the reference would be logged in section i *)
      assert (Q : forall its off, items_ok rs i its off -> In (IRef id) its -> r_sec r = i).
      { induction its as [|[bs|n|id'] t IH]; simpl; intros off; try tauto.
        - intros H [Y|Y]; [discriminate|eauto].
        - intros (_ & H) [Y|Y]; [discriminate|eauto].
        - destruct (nth_error rs id') as [r0|] eqn:E0; [|tauto]. intros (H1 & _ & H) [Y|Y]; [|eauto].
          injection Y as ->. rewrite Hr in E0. injection E0 as <-. exact H1. }
      apply E. eapply Q; eauto.
Qed.

Lemma wfr_upd secs rs id r r' :
  wfr secs rs -> nth_error rs id = Some r -> same_place r' r -> word_ok r' -> wfr secs (upd rs id r').
Proof.
  intros [WI WW WH] Hr Hs Hw. constructor.
  - intros k sc Hk. destruct (WI k sc Hk) as (A & B).
    destruct (items_ok_upd rs k (s_items sc) 0 id r r' Hr Hs A) as (A' & B'). split; [exact A'|]. rewrite B'. exact B.
  - intros id' r0 H. destruct (Nat.eq_dec id id') as [<-|N].
    + rewrite (nth_error_upd_eq _ _ _ _ Hr) in H. injection H as <-. exact Hw.
    + rewrite nth_error_upd_neq in H by exact N. eapply WW; eauto.
  - intros id' r0 H. destruct (Nat.eq_dec id id') as [<-|N].
    + rewrite (nth_error_upd_eq _ _ _ _ Hr) in H. injection H as <-. destruct Hs as (S1 & _). rewrite S1. eapply WH; eauto.
    + rewrite nth_error_upd_neq in H by exact N. eapply WH; eauto.
Qed.

(* ------------------------------------------------------------------ the two fixup walks agree *)
Definition sel_respects (sel : fixup -> sel_res) : Prop := forall a b, fx_same a b -> sel a = sel b.

Lemma walk_sim sel fie secs : sel_respects sel ->
  forall fxs ffxs rs, Forall2 fx_same fxs ffxs -> NoDup (ids fxs) -> (forall fx, In fx fxs -> fx_ok rs fx) -> wfr secs rs ->
  let w := resolve_list sel fie fxs rs in
  let fw := f_resolve_list sel fie ffxs (imgs secs rs) in
  fw_secs fw = imgs secs (w_refs w) /\ Forall2 fx_same (w_kept w) (fw_kept fw) /\ fw_n fw = w_n w /\ fw_err fw = w_err w /\
  wfr secs (w_refs w).
Proof.
  intros Hsel. induction fxs as [|fx t IH]; intros ffxs rs HF Hnd Hok W.
  - inversion HF; subst. simpl. split; [reflexivity|split; [constructor|split; [reflexivity|split; [reflexivity|exact W]]]].
  - inversion HF as [|? fb ? tb Hab HFt]; subst.
    assert (Hnd' : NoDup (ids t)) by (inversion Hnd; assumption).
    assert (Hnin : ~ In (fx_id fx) (ids t)) by (inversion Hnd; assumption).
    assert (Hok' : forall fx0, In fx0 t -> fx_ok rs fx0) by (intros; apply Hok; right; assumption).
    assert (Keep : forall e,
      let w := walk_keep fx e (resolve_list sel fie t rs) in
      let fw := fwalk_keep fb e (f_resolve_list sel fie tb (imgs secs rs)) in
      fw_secs fw = imgs secs (w_refs w) /\ Forall2 fx_same (w_kept w) (fw_kept fw) /\ fw_n fw = w_n w /\ fw_err fw = w_err w /\
      wfr secs (w_refs w)).
    { intros e. destruct (IH tb rs HFt Hnd' Hok' W) as (A & B & C & D & E).
      unfold walk_keep, fwalk_keep; cbn [w_kept w_refs w_n w_err fw_kept fw_secs fw_n fw_err].
      split; [exact A|split; [constructor; assumption|split; [exact C|split; [rewrite D; reflexivity|exact E]]]]. }
    cbn [resolve_list f_resolve_list]. rewrite <- (Hsel fx fb Hab).
    destruct (sel fx) as [| |lay lo] eqn:Es; try apply Keep.
    destruct (Hok fx (or_introl eq_refl)) as (r & Er & Hsec & Hsite & Hrel & Hkind & Hlab & Hword).
    rewrite Er.
    destruct Hab as (B1 & B2 & B3 & B4 & B5).
    destruct (wf_home _ _ W _ _ Er) as (sc & Hsc & Hin).
    destruct (wf_items _ _ W _ _ Hsc) as (Hitems & _).
    pose proof (wf_word _ _ W _ _ Er) as Hwr.
    (* the flat walk reads the same word *)
    assert (Hread : read_word (nth (fx_sec fb) (imgs secs rs) []) (fx_off fb) (vnat (fx_kind fb)) = r_word r).
    { rewrite <- B1, <- B2, <- B4, <- Hsec, <- Hsite, <- Hkind. rewrite (nth_imgs _ _ _ _ Hsc).
      destruct (flat_upd_at rs (r_sec r) (s_items sc) 0 (fx_id fx) r r ltac:(lia) Hitems Hin Er ltac:(repeat split)) as (_ & Rd).
      rewrite Z.sub_0_r in Rd. rewrite Rd. apply Z.mod_small. exact Hwr. }
    rewrite Hread. rewrite <- B2, <- B3, <- B4.
    destruct (write_offset (fmt_of_kind (fx_kind fx)) (r_word r) (disp (lay_so lay) (lay_to lay) lo (fx_off fx) (fx_rel fx))) as [w|] eqn:Ew;
      [|apply Keep].
    set (r' := patched r w lay).
    assert (Hsp : same_place r' r) by (repeat split).
    assert (Hw' : word_ok r').
    { unfold word_ok, r'. simpl. rewrite Hkind. eapply write_offset_range; [apply to_i64_int64| |exact Ew].
      rewrite <- Hkind. exact Hwr. }
    assert (W1 : wfr secs (upd rs (fx_id fx) r')) by (eapply wfr_upd; eauto).
    assert (Hok1 : forall fx0, In fx0 t -> fx_ok (upd rs (fx_id fx) r') fx0).
    { intros fx0 H. apply fx_ok_same with rs; [|apply Hok'; exact H].
      apply nth_error_upd_neq. intros E. apply Hnin. rewrite E. apply in_map. exact H. }
    assert (Himg : upd (imgs secs rs) (fx_sec fb) (write_word (nth (fx_sec fb) (imgs secs rs) []) (fx_off fx) (vnat (fx_kind fx)) w) =
                   imgs secs (upd rs (fx_id fx) r')).
    { rewrite (imgs_upd secs rs (fx_id fx) r r' sc W Er Hsp Hsc Hin). rewrite <- B1, <- Hsec, (nth_imgs _ _ _ _ Hsc).
      rewrite Hsite, Hkind. reflexivity. }
    rewrite Himg.
    destruct (IH tb _ HFt Hnd' Hok1 W1) as (A & B & C & D & E).
    unfold walk_done, fwalk_done; cbn [w_kept w_refs w_n w_err fw_kept fw_secs fw_n fw_err].
    split; [exact A|split; [exact B|split; [rewrite C; reflexivity|split; [exact D|exact E]]]].
Qed.

(* ------------------------------------------------------------------ appending items to the current section *)
Definition ext_ok (rs rs' : list refrec) : Prop :=
  forall k its off, items_ok rs k its off -> items_ok rs' k its off /\ flat rs' its = flat rs its /\ isize rs' its = isize rs its.

Lemma ext_ok_refl rs : ext_ok rs rs.
Proof. intros k its off H. auto. Qed.

Lemma ext_ok_snoc rs r : ext_ok rs (rs ++ [r]).
Proof. intros k its off H. apply items_snoc. exact H. Qed.

Lemma nth_error_nth_default {A} (l : list A) i d : (i < length l)%nat -> nth_error l i = Some (nth i l d).
Proof. revert i; induction l; intros [|i] H; simpl in *; try lia; auto. apply IHl. lia. Qed.

Lemma append_general secs rs rs' c its :
  wfr secs rs -> (c < length secs)%nat -> ext_ok rs rs' ->
  items_ok rs' c its (s_len (nth c secs empty_sec)) ->
  let secs' := upd secs c (sec_append (nth c secs empty_sec) its (isize rs' its)) in
  (forall k sc', nth_error secs' k = Some sc' -> items_ok rs' k (s_items sc') 0 /\ s_len sc' = isize rs' (s_items sc')) /\
  imgs secs' rs' = upd (imgs secs rs) c (nth c (imgs secs rs) [] ++ flat rs' its) /\
  (forall id r, nth_error rs id = Some r -> exists sc', nth_error secs' (r_sec r) = Some sc' /\ In (IRef id) (s_items sc')) /\
  length secs' = length secs.
Proof.
  intros W Hc Ext Hnew secs'.
  pose proof (nth_error_nth_default secs c empty_sec Hc) as Hsc. set (sc := nth c secs empty_sec) in *.
  destruct (wf_items _ _ W _ _ Hsc) as (Hok & Hlen).
  destruct (Ext _ _ _ Hok) as (Hok' & Hfl & Hsz).
  assert (Hnew_sc : nth_error secs' c = Some (sec_append sc its (isize rs' its))) by (eapply nth_error_upd_eq; eauto).
  split; [|split; [|split]].
  - intros k sc' Hk. destruct (Nat.eq_dec c k) as [<-|N].
    + rewrite Hnew_sc in Hk. injection Hk as <-. simpl. split.
      * apply items_ok_app. split; [exact Hok'|]. rewrite Z.add_0_l, Hsz, <- Hlen. exact Hnew.
      * rewrite isize_app, Hsz, Hlen. reflexivity.
    + unfold secs' in Hk. rewrite nth_error_upd_neq in Hk by exact N.
      destruct (wf_items _ _ W _ _ Hk) as (A & B). destruct (Ext _ _ _ A) as (A' & _ & C'). split; [exact A'|]. rewrite C'. exact B.
  - apply nth_ext with (d := []) (d' := []).
    + unfold imgs, secs'. rewrite !upd_length, !map_length, upd_length. reflexivity.
    + intros i Hi. unfold imgs in Hi. rewrite map_length in Hi. unfold secs' in Hi. rewrite upd_length in Hi.
      destruct (Nat.eq_dec c i) as [<-|N].
      * rewrite (nth_imgs _ _ _ _ Hnew_sc). simpl. rewrite flat_app, Hfl.
        assert (X : nth_error (upd (imgs secs rs) c (nth c (imgs secs rs) [] ++ flat rs' its)) c =
                    Some (nth c (imgs secs rs) [] ++ flat rs' its)).
        { eapply nth_error_upd_eq. unfold imgs. rewrite nth_error_map, Hsc. reflexivity. }
        rewrite (nth_error_nth _ _ _ X). rewrite (nth_imgs _ _ _ _ Hsc). reflexivity.
      * pose proof (nth_error_nth_default secs i empty_sec Hi) as Hi'.
        assert (Hi'' : nth_error secs' i = Some (nth i secs empty_sec)) by (unfold secs'; rewrite nth_error_upd_neq by exact N; exact Hi').
        rewrite (nth_imgs _ _ _ _ Hi'').
        assert (X : nth_error (upd (imgs secs rs) c (nth c (imgs secs rs) [] ++ flat rs' its)) i = Some (flat rs (s_items (nth i secs empty_sec)))).
        { rewrite nth_error_upd_neq by exact N. unfold imgs. rewrite nth_error_map, Hi'. reflexivity. }
        rewrite (nth_error_nth _ _ _ X).
        destruct (wf_items _ _ W _ _ Hi') as (A & _). destruct (Ext _ _ _ A) as (_ & B & _). exact B.
  - intros id r Hr. destruct (wf_home _ _ W _ _ Hr) as (sc0 & H0 & Hin).
    destruct (Nat.eq_dec c (r_sec r)) as [E|N].
    + rewrite <- E in *. rewrite Hsc in H0. injection H0 as <-. exists (sec_append sc its (isize rs' its)).
      split; [exact Hnew_sc|]. simpl. apply in_or_app. left. exact Hin.
    + exists sc0. split; [|exact Hin]. unfold secs'. rewrite nth_error_upd_neq by exact N. exact H0.
  - unfold secs'. apply upd_length.
Qed.

Lemma cur_len s f : wfs s -> sim s f -> zlen (f_cur_sec f) = s_len (cur_sec s) /\ f_cur_sec f = nth (cur s) (imgs (secs s) (refs s)) [].
Proof.
  intros (W & Hc) S. unfold f_cur_sec. rewrite (sm_secs _ _ S), (sm_cur _ _ S).
  pose proof (nth_error_nth_default (secs s) (cur s) empty_sec Hc) as Hsc.
  rewrite (nth_imgs _ _ _ _ Hsc). destruct (wf_items _ _ W _ _ Hsc) as (A & B).
  destruct (flat_len _ _ _ _ A) as (C & _). unfold cur_sec. rewrite B, C. auto.
Qed.

(* raw bytes / gaps / zero words: no reference is created *)
Lemma append_raw s f its bytes :
  wfs s -> sim s f -> (forall off, items_ok (refs s) (cur s) its off) -> flat (refs s) its = bytes ->
  let s' := append_cur s its (isize (refs s) its) in
  wfr (secs s') (refs s) /\ f_append f bytes = imgs (secs s') (refs s) /\ length (secs s') = length (secs s).
Proof.
  intros Wf S Hits Hfl s'. destruct Wf as (W & Hc).
  destruct (append_general (secs s) (refs s) (refs s) (cur s) its W Hc (ext_ok_refl _) (Hits _)) as (A & B & C & D).
  destruct (cur_len s f (conj W Hc) S) as (_ & Hcs).
  split; [|split].
  - constructor; [exact A|exact (wf_word _ _ W)|exact C].
  - unfold f_append. rewrite Hcs, (sm_secs _ _ S), (sm_cur _ _ S), <- Hfl. symmetry. exact B.
  - exact D.
Qed.

(* ------------------------------------------------------------------ one operation, both models *)
Lemma bind_sel_respects l sec off : sel_respects (bind_sel l sec off).
Proof. intros a b (H1 & _ & _ & _ & H5). unfold bind_sel. rewrite H1, H5. reflexivity. Qed.

Lemma resolve_sel_respects lbls offs : sel_respects (resolve_sel lbls offs).
Proof. intros a b (H1 & H2 & _ & _ & H5). unfold resolve_sel. rewrite H1, H2, H5. reflexivity. Qed.

Lemma wfr_secs_only secs secs' rs : secs' = secs -> wfr secs rs -> wfr secs' rs.
Proof. intros ->. auto. Qed.

Definition step_ok (s : state) (f : fstate) (o : op) : Prop :=
  wfs (fst (step s o)) /\ sim (fst (step s o)) (fst (fstep f o)) /\ snd (step s o) = snd (fstep f o).

Lemma step_ok_same s f o e : fst (step s o) = s -> snd (step s o) = e -> fstep f o = (f, e) -> wfs s -> sim s f -> step_ok s f o.
Proof. intros H1 H2 H3 W S. unfold step_ok. rewrite H1, H2, H3. auto. Qed.

(* raw appends (ORaw, OGap, deltas, absolute references): a common shape *)
Lemma step_raw s f its bytes (pr : list (nat * nat)) (u : Z) (rl : list reloc) :
  wfs s -> sim s f -> (forall off, items_ok (refs s) (cur s) its off) -> flat (refs s) its = bytes ->
  let s' := set_rel (append_cur s its (isize (refs s) its)) pr u rl in
  let f' := {| f_secs := f_append f bytes; f_cur := f_cur f; f_labels := f_labels f; f_pending := f_pending f; f_pending_rel := pr;
               f_unresolved := u; f_relocs := rl |} in
  wfs s' /\ sim s' f'.
Proof.
  intros Wf S Hits Hfl s' f'. destruct (append_raw s f its bytes Wf S Hits Hfl) as (A & B & C).
  destruct Wf as (W & Hc). split.
  - split; [exact A|]. simpl. simpl in C. rewrite C. exact Hc.
  - constructor; simpl; try reflexivity.
    + exact B.
    + exact (sm_cur _ _ S).
    + exact (sm_labels _ _ S).
    + exact (sm_pending _ _ S).
Qed.

Lemma zlen_zeros n : 0 <= n -> zlen (zeros n) = n.
Proof. intros H. unfold zeros. rewrite zlen_repeat. lia. Qed.

Lemma size_ok_pos n : size_ok n = true -> 0 < n.
Proof.
  unfold size_ok. rewrite !orb_true_iff, !Z.eqb_eq. lia.
Qed.

Lemma hole_ok_range k w0 : hole_ok k w0 = true -> 0 <= w0 < 2 ^ (8 * Z.of_nat (vnat k)).
Proof.
  unfold hole_ok. rewrite !andb_true_iff. intros ((A & B) & _). apply Z.leb_le in A. apply Z.ltb_lt in B.
  destruct (vnat_spec k) as (-> & _). lia.
Qed.

Lemma sim_pending_cons s f a b : Forall2 fx_same (pending s) (f_pending f) -> fx_same a b -> Forall2 fx_same (a :: pending s) (b :: f_pending f).
Proof. intros; constructor; assumption. Qed.

(* creation of a reference (word w, pending or already patched) *)
Lemma append_ref s f k rel l pre w0 w post lay :
  wfs s -> sim s f -> 0 <= w < 2 ^ (8 * Z.of_nat (vnat k)) ->
  let id := length (refs s) in
  let r := {| r_sec := cur s; r_site := s_len (cur_sec s) + zlen pre; r_rel := rel; r_kind := k; r_label := l; r_w0 := w0;
              r_word := w; r_lay := lay |} in
  let secs' := secs (append_cur s [IRaw pre; IRef id; IRaw post] (zlen pre + vsize (fmt_of_kind k) + zlen post)) in
  wfr secs' (refs s ++ [r]) /\ f_append f (pre ++ le_split (vnat k) w ++ post) = imgs secs' (refs s ++ [r]) /\
  length secs' = length (secs s).
Proof.
  intros (W & Hc) S Hw id r secs'.
  set (rs' := refs s ++ [r]).
  assert (Hid : nth_error rs' id = Some r) by (unfold rs', id; rewrite nth_error_app2, Nat.sub_diag by lia; reflexivity).
  set (its := [IRaw pre; IRef id; IRaw post]).
  assert (Hsz : isize rs' its = zlen pre + vsize (fmt_of_kind k) + zlen post).
  { unfold its. simpl. rewrite Hid. simpl. destruct (vnat_spec k) as (-> & _). lia. }
  assert (Hits : items_ok rs' (cur s) its (s_len (nth (cur s) (secs s) empty_sec))).
  { unfold its. simpl. rewrite Hid. simpl. auto. }
  destruct (append_general (secs s) (refs s) rs' (cur s) its W Hc (ext_ok_snoc _ _) Hits) as (A & B & C & D).
  rewrite Hsz in A, B, C, D.
  assert (Hfl : flat rs' its = pre ++ le_split (vnat k) w ++ post).
  { unfold its. simpl. rewrite Hid. simpl. rewrite app_nil_r. reflexivity. }
  destruct (cur_len s f (conj W Hc) S) as (_ & Hcs).
  split; [|split].
  - constructor.
    + exact A.
    + intros id' r0 H. apply nth_error_snoc_inv in H. destruct H as [H|(_ & ->)]; [eapply (wf_word _ _ W); eauto|exact Hw].
    + intros id' r0 H. apply nth_error_snoc_inv in H. destruct H as [H|(-> & ->)]; [apply (C _ _ H)|].
      simpl. eexists. split; [eapply nth_error_upd_eq; apply (nth_error_nth_default _ _ empty_sec Hc)|].
      simpl. apply in_or_app. right. right. left. reflexivity.
  - unfold f_append. rewrite Hcs, (sm_secs _ _ S), (sm_cur _ _ S), <- Hfl. symmetry. exact B.
  - exact D.
Qed.

Lemma sim_simple s f : wfs s -> sim s f -> forall s' f', secs s' = secs s -> refs s' = refs s -> cur s' = cur s ->
  f_secs f' = f_secs f -> f_cur f' = f_cur f -> f_labels f' = labels s' -> Forall2 fx_same (pending s') (f_pending f') ->
  f_pending_rel f' = pending_rel s' -> f_unresolved f' = unresolved s' -> f_relocs f' = relocs s' -> wfs s' /\ sim s' f'.
Proof.
  intros (W & Hc) S s' f' E1 E2 E3 F1 F2 F3 F4 F5 F6 F7. split.
  - split; [rewrite E1, E2; exact W|rewrite E1, E3; exact Hc].
  - constructor; auto. + rewrite F1, E1, E2. exact (sm_secs _ _ S). + rewrite F2, E3. exact (sm_cur _ _ S).
Qed.

Lemma sim_ref s f k rel l pre w0 post : inv s -> wfs s -> sim s f -> step_ok s f (ORef k rel l pre w0 post).
Proof.
  intros I Wf S. destruct (cur_len s f Wf S) as (Hlen & Hcs). pose proof S as [S1 S2 S3 S4 S5 S6 S7].
  unfold step_ok, step, fstep; cbv zeta. rewrite Hlen, S2, S3.
  destruct (nth_error (labels s) l) as [lb|] eqn:El; [|cbn [fst snd]; auto].
  destruct (hole_ok k w0) eqn:Eh; cbn [negb]; cbv iota; [|cbn [fst snd]; auto].
  pose proof (hole_ok_range _ _ Eh) as Hw0.
  assert (Queue : let id := length (refs s) in
    let r0 := {| r_sec := cur s; r_site := s_len (cur_sec s) + zlen pre; r_rel := rel; r_kind := k; r_label := l; r_w0 := w0; r_word := w0; r_lay := None |} in
    let fx := {| fx_id := id; fx_sec := cur s; fx_off := s_len (cur_sec s) + zlen pre; fx_rel := rel; fx_kind := k; fx_label := l |} in
    let s1 := set_fix (append_cur s [IRaw pre; IRef id; IRaw post] (zlen pre + vsize (fmt_of_kind k) + zlen post)) (refs s ++ [r0]) (pending s) (unresolved s) in
    let s' := set_fix s1 (refs s1) (fx :: pending s) (unresolved s + 1) in
    let f' := {| f_secs := f_append f (pre ++ le_split (vnat k) w0 ++ post); f_cur := cur s; f_labels := labels s;
                 f_pending := {| fx_id := O; fx_sec := cur s; fx_off := s_len (cur_sec s) + zlen pre; fx_rel := rel; fx_kind := k; fx_label := l |} :: f_pending f;
                 f_pending_rel := f_pending_rel f; f_unresolved := f_unresolved f + 1; f_relocs := f_relocs f |} in
    wfs s' /\ sim s' f').
  { intros id r0 fx s1 s' f'.
    destruct (append_ref s f k rel l pre w0 w0 post None Wf S Hw0) as (A & B & C). destruct Wf as (W & Hc).
    split; [split; [exact A|simpl; rewrite upd_length; exact Hc]|].
    constructor; simpl; auto; try exact B; try (constructor; [repeat split|exact S4]); try (rewrite S6; reflexivity). }
  destruct lb as [[ls lo]|]; [|cbn [fst snd]; split; [apply Queue|split; [apply Queue|reflexivity]]].
  destruct (Nat.eqb ls (cur s)) eqn:Els; [|cbn [fst snd]; split; [apply Queue|split; [apply Queue|reflexivity]]].
  destruct (write_offset (fmt_of_kind k) w0 (disp 0 0 lo (s_len (cur_sec s) + zlen pre) rel)) as [w|] eqn:Ew; cbn [fst snd]; [|auto].
  assert (Hw : 0 <= w < 2 ^ (8 * Z.of_nat (vnat k))) by (eapply write_offset_range; [apply to_i64_int64|exact Hw0|exact Ew]).
  destruct (append_ref s f k rel l pre w0 w post None Wf S Hw) as (A & B & C). destruct Wf as (W & Hc).
  split; [split; [exact A|simpl; rewrite upd_length; exact Hc]|]. split; [|reflexivity].
  constructor; simpl; auto; try exact B.
Qed.

Lemma precheck_sim l sec off secs : forall fxs ffxs rs, Forall2 fx_same fxs ffxs -> (forall fx, In fx fxs -> fx_ok rs fx) -> wfr secs rs ->
  f_bind_precheck l sec off ffxs (imgs secs rs) = bind_precheck l sec off fxs rs.
Proof.
  induction fxs as [|fx t IH]; intros ffxs rs HF Hok W; inversion HF as [|? fb ? tb Hab HFt]; subst; [reflexivity|].
  simpl. rewrite (IH tb rs HFt (fun fx0 H => Hok fx0 (or_intror H)) W). f_equal.
  rewrite <- (bind_sel_respects l sec off fx fb Hab).
  destruct (bind_sel l sec off fx) as [| |lay lo]; try reflexivity.
  destruct (Hok fx (or_introl eq_refl)) as (r & Er & Hsec & Hsite & Hrel & Hkind & Hlab & Hword). rewrite Er.
  destruct Hab as (B1 & B2 & B3 & B4 & B5).
  destruct (wf_home _ _ W _ _ Er) as (sc & Hsc & Hin). destruct (wf_items _ _ W _ _ Hsc) as (Hitems & _).
  pose proof (wf_word _ _ W _ _ Er) as Hwr.
  assert (Hread : read_word (nth (fx_sec fb) (imgs secs rs) []) (fx_off fb) (vnat (fx_kind fb)) = r_word r).
  { rewrite <- B1, <- B2, <- B4, <- Hsec, <- Hsite, <- Hkind. rewrite (nth_imgs _ _ _ _ Hsc).
    destruct (flat_upd_at rs (r_sec r) (s_items sc) 0 (fx_id fx) r r ltac:(lia) Hitems Hin Er ltac:(repeat split)) as (_ & Rd).
    rewrite Z.sub_0_r in Rd. rewrite Rd. apply Z.mod_small. exact Hwr. }
  rewrite Hread, <- B2, <- B3, <- B4. reflexivity.
Qed.

Lemma sim_bind s f l : inv s -> wfs s -> sim s f -> step_ok s f (OBind l).
Proof.
  intros I Wf S. destruct (cur_len s f Wf S) as (Hlen & Hcs). pose proof S as [S1 S2 S3 S4 S5 S6 S7]. pose proof Wf as (W & Hc).
  unfold step_ok, step, fstep; cbv zeta. rewrite Hlen, S2, S3, S5, S6, S7.
  destruct (nth_error (labels s) l) as [[v|]|] eqn:El; cbn [fst snd]; auto.
  rewrite S1, (precheck_sim l (cur s) (s_len (cur_sec s)) (secs s) (pending s) (f_pending f) (refs s) S4 (inv_fx _ _ _ _ _ I) W).
  destruct (bind_precheck l (cur s) (s_len (cur_sec s)) (pending s) (refs s)); cbn [negb]; cbv iota; cbn [fst snd]; [|auto].
  unfold bind_rel. cbv beta iota zeta. cbn [fst snd].
  destruct (walk_sim (bind_sel l (cur s) (s_len (cur_sec s))) true (secs s) (bind_sel_respects _ _ _) (pending s) (f_pending f) (refs s) S4
              (inv_nodup _ _ _ _ _ I) (inv_fx _ _ _ _ _ I) W) as (A & B & C & D & E).
  split; [split; [exact E|exact Hc]|]. split.
  - constructor; simpl; auto. rewrite C. reflexivity.
  - rewrite D. reflexivity.
Qed.

Lemma sim_resolve s f offs : inv s -> wfs s -> sim s f -> step_ok s f (OResolve offs).
Proof.
  intros I Wf S. pose proof S as [S1 S2 S3 S4 S5 S6 S7]. pose proof Wf as (W & Hc).
  unfold step_ok, step, fstep; cbv zeta. rewrite S3, S6. cbn [fst snd]. rewrite S1.
  destruct (walk_sim (resolve_sel (labels s) offs) false (secs s) (resolve_sel_respects _ _) (pending s) (f_pending f) (refs s) S4
              (inv_nodup _ _ _ _ _ I) (inv_fx _ _ _ _ _ I) W) as (A & B & C & D & E).
  split; [split; [exact E|exact Hc]|]. split.
  - constructor; simpl; auto. rewrite C. reflexivity.
  - rewrite D. reflexivity.
Qed.

Lemma sim_raw_op s f its bytes n pr u rl (fc : nat) (flb : list (option (nat * Z))) (fl : list (nat * nat)) (fu : Z) (frl : list reloc) :
  wfs s -> sim s f -> (forall off, items_ok (refs s) (cur s) its off) -> flat (refs s) its = bytes -> isize (refs s) its = n ->
  fc = cur s -> flb = labels s -> fl = pr -> fu = u -> frl = rl ->
  let s' := set_rel (append_cur s its n) pr u rl in
  let f' := {| f_secs := f_append f bytes; f_cur := fc; f_labels := flb; f_pending := f_pending f; f_pending_rel := fl;
               f_unresolved := fu; f_relocs := frl |} in
  wfs s' /\ sim s' f' /\ EOk = EOk.
Proof.
  intros Wf S H1 H2 <- -> -> -> -> ->. rewrite <- (sm_cur _ _ S), <- (sm_labels _ _ S).
  destruct (step_raw s f its bytes pr u rl Wf S H1 H2) as (A & B). auto.
Qed.

Lemma sim_absref s f l size addend pre post : wfs s -> sim s f -> step_ok s f (OAbsRef l size addend pre post).
Proof.
  intros Wf S. destruct (cur_len s f Wf S) as (Hlen & Hcs). pose proof S as [S1 S2 S3 S4 S5 S6 S7].
  unfold step_ok, step, fstep; cbv zeta. rewrite Hlen, S2, S3, S5, S6, S7.
  destruct (nth_error (labels s) l) as [lb|] eqn:El; [|cbn [fst snd]; auto].
  destruct (size_ok size) eqn:Es; cbn [negb]; cbv iota; [|cbn [fst snd]; auto].
  pose proof (size_ok_pos _ Es) as Hpos.
  assert (Hits : forall off, items_ok (refs s) (cur s) [IRaw (pre ++ zeros size ++ post)] off) by (intros; simpl; auto).
  assert (Hsz : isize (refs s) [IRaw (pre ++ zeros size ++ post)] = zlen pre + size + zlen post).
  { simpl. rewrite !zlen_app, zlen_zeros by lia. lia. }
  assert (Hfl : flat (refs s) [IRaw (pre ++ zeros size ++ post)] = pre ++ zeros size ++ post) by (simpl; apply app_nil_r).
  destruct lb as [[ls lo]|]; cbn [fst snd]; eapply sim_raw_op; eauto.
Qed.

Lemma sim_delta s f l b size (checked : bool) :
  wfs s -> sim s f -> step_ok s f (if checked then ODeltaChecked l b size else ODelta l b size).
Proof.
  intros Wf S. destruct (cur_len s f Wf S) as (Hlen & Hcs). pose proof S as [S1 S2 S3 S4 S5 S6 S7].
  unfold step_ok. destruct checked; unfold step, fstep; cbv zeta; rewrite Hlen, S2, S3, S5, S6, S7;
  (destruct (nth_error (labels s) l) as [ll|] eqn:El; [|cbn [fst snd]; auto]);
  (destruct (nth_error (labels s) b) as [lb|] eqn:Eb; [|cbn [fst snd]; auto]);
  (destruct (size_ok size) eqn:Es; cbn [negb]; cbv iota; [|cbn [fst snd]; auto]);
  pose proof (size_ok_pos _ Es) as Hpos;
  (destruct (match ll with Some (ls, lo) => match lb with Some (bs, bo) => if Nat.eqb ls bs then Some (lo - bo) else None | None => None end | None => None end) as [d|] eqn:Ed).
  - cbn [negb orb]. destruct ((size =? 8) || ((- 2 ^ (8 * size - 1) <=? d) && (d <? 2 ^ (8 * size - 1)))); cbn [fst snd]; [|auto].
    change (append_cur s [IRaw (le_split (Z.to_nat size) (wrap (8 * size) d))] size)
      with (set_rel (append_cur s [IRaw (le_split (Z.to_nat size) (wrap (8 * size) d))] size) (pending_rel s) (unresolved s) (relocs s)).
    unfold fset_secs.
    eapply sim_raw_op; eauto; try (intros; simpl; auto); try (simpl; apply app_nil_r).
    simpl; unfold zlen; rewrite le_split_length; lia.
  - cbn [fst snd]. eapply sim_raw_op; eauto; try (intros; simpl; auto); try (simpl; apply app_nil_r).
    simpl; rewrite zlen_zeros by lia; lia.
  - cbn [negb orb fst snd].
    change (append_cur s [IRaw (le_split (Z.to_nat size) (wrap (8 * size) d))] size)
      with (set_rel (append_cur s [IRaw (le_split (Z.to_nat size) (wrap (8 * size) d))] size) (pending_rel s) (unresolved s) (relocs s)).
    unfold fset_secs.
    eapply sim_raw_op; eauto; try (intros; simpl; auto); try (simpl; apply app_nil_r).
    simpl; unfold zlen; rewrite le_split_length; lia.
  - cbn [fst snd]. eapply sim_raw_op; eauto; try (intros; simpl; auto); try (simpl; apply app_nil_r).
    simpl; rewrite zlen_zeros by lia; lia.
Qed.

Theorem step_sim s f o : inv s -> wfs s -> sim s f -> step_ok s f o.
Proof.
  intros I Wf S. destruct o.
  - (* ONewLabel *) pose proof S as [S1 S2 S3 S4 S5 S6 S7]. unfold step_ok, step, fstep; cbv zeta. cbn [fst snd].
    split; [exact Wf|]. split; [|reflexivity]. constructor; simpl; auto. rewrite S3. reflexivity.
  - (* ONewSection *) pose proof S as [S1 S2 S3 S4 S5 S6 S7]. destruct Wf as (W & Hc).
    unfold step_ok, step, fstep; cbv zeta. cbn [fst snd]. split; [|split; [|reflexivity]].
    + split; simpl; [|rewrite app_length; simpl; lia]. constructor.
      * intros k sc Hk. destruct (Nat.lt_ge_cases k (length (secs s))) as [L|L].
        -- rewrite nth_error_app1 in Hk by exact L. apply (wf_items _ _ W _ _ Hk).
        -- rewrite nth_error_app2 in Hk by exact L. destruct (k - length (secs s))%nat as [|j]; simpl in Hk; [|destruct j; discriminate].
           injection Hk as <-. simpl. auto.
      * exact (wf_word _ _ W).
      * intros id r Hr. destruct (wf_home _ _ W _ _ Hr) as (sc & A & B). exists sc. split; [|exact B].
        rewrite nth_error_app1; [exact A|]. apply nth_error_Some. congruence.
    + constructor; simpl; auto. unfold imgs. rewrite S1, map_app. reflexivity.
  - (* OSection *) pose proof S as [S1 S2 S3 S4 S5 S6 S7]. pose proof Wf as (W & Hc).
    unfold step_ok, step, fstep; cbv zeta.
    assert (Hl : length (f_secs f) = length (secs s)) by (rewrite S1; unfold imgs; apply map_length). rewrite Hl.
    destruct (Nat.ltb k (length (secs s))) eqn:E; cbn [fst snd]; [|auto].
    split; [split; [exact W|simpl; apply Nat.ltb_lt; exact E]|]. split; [|reflexivity]. constructor; simpl; auto.
  - (* ORaw *) pose proof S as [S1 S2 S3 S4 S5 S6 S7]. unfold step_ok, step, fstep; cbv zeta. cbn [fst snd].
    change (append_cur s [IRaw bs] (zlen bs)) with (set_rel (append_cur s [IRaw bs] (zlen bs)) (pending_rel s) (unresolved s) (relocs s)).
    unfold fset_secs. eapply sim_raw_op; eauto; try (intros; simpl; auto); try (simpl; apply app_nil_r). simpl; lia.
  - (* OGap *) pose proof S as [S1 S2 S3 S4 S5 S6 S7]. unfold step_ok, step, fstep; cbv zeta.
    destruct (0 <=? n) eqn:En; cbn [fst snd]; [|auto]. apply Z.leb_le in En.
    change (append_cur s [IGap n] n) with (set_rel (append_cur s [IGap n] n) (pending_rel s) (unresolved s) (relocs s)).
    unfold fset_secs. eapply sim_raw_op; eauto; try (intros; simpl; auto); try (simpl; apply app_nil_r). simpl; lia.
  - apply sim_ref; assumption.
  - apply sim_bind; assumption.
  - apply sim_absref; assumption.
  - apply (sim_delta s f l b size false); assumption.
  - apply sim_resolve; assumption.
  - apply (sim_delta s f l b size true); assumption.
Qed.

Lemma sim_init : wfs init /\ sim init finit.
Proof.
  split.
  - split; [|simpl; lia]. constructor; simpl.
    + intros [|[|k]] sc H; simpl in H; try discriminate. injection H as <-. simpl. auto.
    + intros [|id] r H; discriminate.
    + intros [|id] r H; discriminate.
  - constructor; simpl; auto.
Qed.

(* the two models stay in lock step along any operation list *)
Theorem run_sim ops : forall s f, inv s -> wfs s -> sim s f ->
  wfs (run s ops) /\ sim (run s ops) (frun f ops).
Proof.
  induction ops as [|o t IH]; intros s f I W S; simpl; [auto|].
  destruct (step_sim s f o I W S) as (W' & S' & _). apply IH; [apply step_inv; exact I|exact W'|exact S'].
Qed.

Lemma Forall2_len {A B} (R : A -> B -> Prop) l l' : Forall2 R l l' -> length l' = length l.
Proof. induction 1; simpl; congruence. Qed.

Theorem flat_refines ops :
  let s := run init ops in let f := frun finit ops in
  f_secs f = imgs (secs s) (refs s) /\ f_labels f = labels s /\ f_unresolved f = unresolved s /\ f_relocs f = relocs s /\
  length (f_pending f) = length (pending s) /\ f_pending_rel f = pending_rel s.
Proof.
  intros s f. destruct sim_init as (W0 & S0). destruct (run_sim ops init finit inv_init W0 S0) as (_ & [S1 S2 S3 S4 S5 S6 S7]).
  repeat split; auto. eapply Forall2_len; eauto.
Qed.

Theorem step_errors_agree ops o :
  snd (step (run init ops) o) = snd (fstep (frun finit ops) o).
Proof.
  destruct sim_init as (W0 & S0). destruct (run_sim ops init finit inv_init W0 S0) as (W & S).
  exact (proj2 (proj2 (step_sim _ _ o (run_inv ops init inv_init) W S))).
Qed.

(* ------------------------------------------------------------------ the byte-image theorems *)
(* every logged reference: the little-endian word read from the FLAT buffer at its numeric site is the reference's word *)
Theorem image_word ops id r :
  let s := run init ops in let f := frun finit ops in
  nth_error (refs s) id = Some r ->
  read_word (nth (r_sec r) (f_secs f) []) (r_site r) (vnat (r_kind r)) = r_word r.
Proof.
  intros s f Hr. destruct sim_init as (W0 & S0). destruct (run_sim ops init finit inv_init W0 S0) as ((W & _) & S).
  fold s in W, S. fold f in S. rewrite (sm_secs _ _ S).
  destruct (wf_home _ _ W _ _ Hr) as (sc & Hsc & Hin). destruct (wf_items _ _ W _ _ Hsc) as (Hok & _).
  rewrite (nth_imgs _ _ _ _ Hsc).
  destruct (flat_upd_at (refs s) (r_sec r) (s_items sc) 0 id r r ltac:(lia) Hok Hin Hr ltac:(repeat split)) as (_ & Rd).
  rewrite Z.sub_0_r in Rd. rewrite Rd. apply Z.mod_small. exact (wf_word _ _ W _ _ Hr).
Qed.

(* C03_resolved_exact as a statement about bytes of the flat image *)
Theorem image_resolved_exact ops offs id r :
  resolves_with offs ops ->
  let s := run init ops in let f := frun finit ops in
  nth_error (refs s) id = Some r -> ~ In id (ids (pending s)) ->
  exists ls lo, nth_error (f_labels f) (r_label r) = Some (Some (ls, lo)) /\
    let w := read_word (nth (r_sec r) (f_secs f) []) (r_site r) (vnat (r_kind r)) in
    decode_kind (r_kind r) w = final_disp offs ls lo r /\ Z.land w (Z.lnot (kind_mask (r_kind r))) = r_w0 r.
Proof.
  intros R s f Hr Hp. destruct (resolved_exact_stable ops offs id r R Hr Hp) as (ls & lo & Hl & Hd & Ho & _).
  exists ls, lo. destruct (flat_refines ops) as (_ & E & _). fold s f in E. rewrite E. split; [exact Hl|].
  cbv zeta. pose proof (image_word ops id r Hr) as Hw. cbv zeta in Hw. unfold f. rewrite Hw. auto.
Qed.

(* bytes that belong to no reference word are the emitted bytes: the image with the current words and the image with the words as
   emitted (holes zero) are the same list except inside reference words; stated through the generic update law:
   patching reference `id` is a word write at its numeric site and changes nothing else *)
Theorem image_patch_is_word_write secs rs id r r' sc :
  wfr secs rs -> nth_error rs id = Some r -> same_place r' r -> nth_error secs (r_sec r) = Some sc -> In (IRef id) (s_items sc) ->
  imgs secs (upd rs id r') = upd (imgs secs rs) (r_sec r) (write_word (flat rs (s_items sc)) (r_site r) (vnat (r_kind r)) (r_word r')).
Proof. exact (imgs_upd secs rs id r r' sc). Qed.

(* ------------------------------------------------------------------ bytes outside every reference word never change *)
Lemma flat_outside rs rs2 k : (forall id r, nth_error rs id = Some r -> exists r2, nth_error rs2 id = Some r2 /\ same_place r2 r) ->
  forall its off p, items_ok rs k its off -> 0 <= off -> 0 <= p ->
  (forall id r, In (IRef id) its -> nth_error rs id = Some r -> ~ (r_site r <= off + p < r_site r + Z.of_nat (vnat (r_kind r)))) ->
  nth (Z.to_nat p) (flat rs2 its) 0 = nth (Z.to_nat p) (flat rs its) 0.
Proof.
  intros Hsame. induction its as [|[bs|n|id] t IH]; intros off p Hok H0 Hp Hout; simpl in *.
  - reflexivity.
  - pose proof (zlen_nonneg bs). destruct (Z_lt_le_dec p (zlen bs)) as [L|L].
    + rewrite !app_nth1 by (unfold zlen in L; lia). reflexivity.
    + rewrite !app_nth2 by (unfold zlen in L; lia).
      replace (Z.to_nat p - length bs)%nat with (Z.to_nat (p - zlen bs)) by (unfold zlen; lia).
      apply (IH (off + zlen bs)); try lia; [exact Hok|]. intros id r Hin Hr. replace (off + zlen bs + (p - zlen bs)) with (off + p) by lia.
      apply (Hout id r); auto.
  - destruct Hok as (Hn & Hok). destruct (Z_lt_le_dec p n) as [L|L].
    + rewrite !app_nth1 by (rewrite repeat_length; lia). reflexivity.
    + rewrite !app_nth2 by (rewrite repeat_length; lia). rewrite repeat_length.
      replace (Z.to_nat p - Z.to_nat n)%nat with (Z.to_nat (p - n)) by lia.
      apply (IH (off + n)); try lia; [exact Hok|]. intros id r Hin Hr. replace (off + n + (p - n)) with (off + p) by lia. apply (Hout id r); auto.
  - destruct (nth_error rs id) as [r|] eqn:Er; [|tauto]. destruct Hok as (H1 & H2 & Hok).
    destruct (Hsame id r Er) as (r2 & Er2 & (_ & _ & Hk)). rewrite Er2, Hk.
    set (n := vnat (r_kind r)) in *.
    destruct (Z_lt_le_dec p (Z.of_nat n)) as [L|L].
    + exfalso. apply (Hout id r (or_introl eq_refl) Er). lia.
    + rewrite !app_nth2 by (rewrite le_split_length; lia). rewrite !le_split_length.
      replace (Z.to_nat p - n)%nat with (Z.to_nat (p - Z.of_nat n)) by lia.
      apply (IH (off + Z.of_nat n)); try lia; [exact Hok|]. intros id' r' Hin Hr'.
      replace (off + Z.of_nat n + (p - Z.of_nat n)) with (off + p) by lia. apply (Hout id' r'); auto.
Qed.

(* binding a label / resolving cross-section fixups changes the flat image only inside the value words of logged references *)
Theorem patch_outside_untouched ops o k p :
  (match o with OBind _ | OResolve _ => True | _ => False end) ->
  let s := run init ops in let f := frun finit ops in let f' := fst (fstep f o) in
  0 <= p ->
  (forall id r, nth_error (refs s) id = Some r -> r_sec r = k -> ~ (r_site r <= p < r_site r + Z.of_nat (vnat (r_kind r)))) ->
  nth (Z.to_nat p) (nth k (f_secs f') []) 0 = nth (Z.to_nat p) (nth k (f_secs f) []) 0.
Proof.
  intros Ho s f f' Hp Hout.
  destruct sim_init as (W0 & S0). destruct (run_sim ops init finit inv_init W0 S0) as (Wf & S). fold s f in Wf, S.
  pose proof (run_inv ops init inv_init) as I. fold s in I.
  destruct (step_sim s f o I Wf S) as (Wf' & S' & _). fold f' in S'.
  rewrite (sm_secs _ _ S'), (sm_secs _ _ S).
  assert (Hsecs : secs (fst (step s o)) = secs s).
  { destruct o; try contradiction; simpl.
    - destruct (nth_error (labels s) l) as [[v|]|]; try reflexivity.
      destruct (bind_precheck _ _ _ _ _); reflexivity.
    - reflexivity. }
  rewrite Hsecs.
  destruct (nth_error (secs s) k) as [sc|] eqn:Esc.
  - rewrite !(nth_imgs _ _ _ _ Esc). destruct Wf as (W & _). destruct (wf_items _ _ W _ _ Esc) as (Hok & _).
    apply (flat_outside (refs s) (refs (fst (step s o))) k) with (off := 0); try lia; [|exact Hok|].
    + (* ghost fields are immutable *)
      intros id r Hr. destruct o; try contradiction; simpl.
      * destruct (nth_error (labels s) l) as [[v|]|] eqn:El; try (exists r; split; [exact Hr|repeat split]).
        destruct (bind_precheck l (cur s) (s_len (cur_sec s)) (pending s) (refs s)); cbn [negb]; cbv iota; [|exists r; split; [exact Hr|repeat split]].
        unfold bind_rel. simpl.
        set (Wk := resolve_list (bind_sel l (cur s) (s_len (cur_sec s))) true (pending s) (refs s)).
        assert (WP : walk_post (upd (labels s) l (Some (cur s, s_len (cur_sec s)))) (bind_sel l (cur s) (s_len (cur_sec s))) (pending s) (refs s) Wk).
        { apply walk_inv; [|apply (inv_nodup _ _ _ _ _ I)|apply (inv_fx _ _ _ _ _ I)].
          apply bind_sel_sound. eapply nth_error_upd_eq; eauto. }
        destruct (nth_error (w_refs Wk) id) as [r2|] eqn:E2.
        -- destruct (wp_ghost _ _ _ _ _ WP id r2 E2) as (r1 & H1 & (G1 & G2 & _ & G4 & _)). rewrite Hr in H1. injection H1 as <-.
           exists r2. split; [reflexivity|]. repeat split; assumption.
        -- exfalso. apply nth_error_None in E2.
           assert (Hlen : length (w_refs Wk) = length (refs s)).
           { clear - I. unfold Wk. generalize (refs s). induction (pending s) as [|fx t IH]; intros rs; simpl; [reflexivity|].
             destruct (bind_sel _ _ _ fx); try apply IH. destruct (nth_error rs (fx_id fx)); [|apply IH].
             destruct (write_offset _ _ _); [|apply IH]. unfold walk_done; simpl. rewrite IH, upd_length. reflexivity. }
           assert (id < length (refs s))%nat by (apply nth_error_Some; congruence). lia.
      * set (Wk := resolve_list (resolve_sel (labels s) offs) false (pending s) (refs s)).
        assert (WP : walk_post (labels s) (resolve_sel (labels s) offs) (pending s) (refs s) Wk).
        { apply walk_inv; [apply resolve_sel_sound|apply (inv_nodup _ _ _ _ _ I)|apply (inv_fx _ _ _ _ _ I)]. }
        destruct (nth_error (w_refs Wk) id) as [r2|] eqn:E2.
        -- destruct (wp_ghost _ _ _ _ _ WP id r2 E2) as (r1 & H1 & (G1 & G2 & _ & G4 & _)). rewrite Hr in H1. injection H1 as <-.
           exists r2. split; [reflexivity|]. repeat split; assumption.
        -- exfalso. apply nth_error_None in E2.
           assert (Hlen : length (w_refs Wk) = length (refs s)).
           { clear - I. unfold Wk. generalize (refs s). induction (pending s) as [|fx t IH]; intros rs; simpl; [reflexivity|].
             destruct (resolve_sel _ _ fx); try apply IH. destruct (nth_error rs (fx_id fx)); [|apply IH].
             destruct (write_offset _ _ _); [|apply IH]. unfold walk_done; simpl. rewrite IH, upd_length. reflexivity. }
           assert (id < length (refs s))%nat by (apply nth_error_Some; congruence). lia.
    + intros id r Hin Hr. rewrite Z.add_0_l. apply (Hout id r); [exact Hr|].
      (* a reference that occurs in the items of section k is logged in section k *)
      clear - Hok Hin Hr. revert Hok Hin. generalize 0. induction (s_items sc) as [|[bs|n|id'] t IH]; simpl; intros off; try tauto.
      * intros H [Y|Y]; [discriminate|eauto].
      * intros (_ & H) [Y|Y]; [discriminate|eauto].
      * destruct (nth_error (refs s) id') as [r0|] eqn:E0; [|tauto]. intros (H1 & _ & H) [Y|Y]; [|eauto].
        injection Y as ->. rewrite Hr in E0. injection E0 as <-. exact H1.
  - assert (E1 : nth k (imgs (secs s) (refs (fst (step s o)))) [] = []).
    { apply nth_overflow. unfold imgs. rewrite map_length. apply nth_error_None. exact Esc. }
    assert (E2 : nth k (imgs (secs s) (refs s)) [] = []).
    { apply nth_overflow. unfold imgs. rewrite map_length. apply nth_error_None. exact Esc. }
    rewrite E1, E2. reflexivity.
Qed.

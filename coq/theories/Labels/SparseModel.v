(* C03 — the flat byte-buffer model with SPARSE buffers: a buffer is a list of chunks (explicit bytes / a run of n zero bytes), so the
   large gaps the generated programs use to reach +-1 MiB / +-128 MiB distances cost nothing.  Same operations as FlatModel.fstep (the text
   below is FlatModel's with the buffer operations replaced); SparseProofs.v proves that expanding the chunks gives FlatModel's state after
   every operation.  A word is read / written inside the chunk that contains it; if it does not lie inside one explicit chunk (never
   the case for the programs of the check: every reference word is emitted together with its instruction) the buffer is expanded first.
   No proofs in this file. *)
From Coq Require Import ZArith List Bool.
From Verif Require Import Codec.OffsetModel Labels.LabelsModel Labels.FlatModel.
Import ListNotations.
Local Open Scope Z_scope.

Inductive chunk := CB (bs : list Z) | CZ (n : Z).
Definition sbuf := list chunk.

Definition cexp (c : chunk) : list Z := match c with CB bs => bs | CZ n => repeat 0 (Z.to_nat n) end.
Definition clen (c : chunk) : Z := match c with CB bs => zlen bs | CZ n => Z.max 0 n end.
Fixpoint expand (b : sbuf) : list Z := match b with [] => [] | c :: t => cexp c ++ expand t end.
Fixpoint sb_len (b : sbuf) : Z := match b with [] => 0 | c :: t => clen c + sb_len t end.

Fixpoint sb_read_in (b : sbuf) (off : Z) (n : nat) : option Z :=
  match b with
  | [] => None
  | c :: t =>
    if clen c <=? off then sb_read_in t (off - clen c) n
    else match c with
         | CB bs => if (0 <=? off) && (off + Z.of_nat n <=? zlen bs) then Some (read_word bs off n) else None
         | CZ _ => None
         end
  end.
Definition sb_read (b : sbuf) (off : Z) (n : nat) : Z :=
  match sb_read_in b off n with Some w => w | None => read_word (expand b) off n end.

Fixpoint sb_write_in (b : sbuf) (off : Z) (n : nat) (w : Z) : option sbuf :=
  match b with
  | [] => None
  | c :: t =>
    if clen c <=? off then match sb_write_in t (off - clen c) n w with Some t' => Some (c :: t') | None => None end
    else match c with
         | CB bs => if (0 <=? off) && (off + Z.of_nat n <=? zlen bs) then Some (CB (write_word bs off n w) :: t) else None
         | CZ _ => None
         end
  end.
Definition sb_write (b : sbuf) (off : Z) (n : nat) (w : Z) : sbuf :=
  match sb_write_in b off n w with Some b' => b' | None => [CB (write_word (expand b) off n w)] end.

Record sstate := {
  s_bufs : list sbuf; s_cur : nat;
  s_labels : list (option (nat * Z));
  s_pending : list fixup;            (* fx_id is carried along but never used by the flat operations *)
  s_pending_rel : list (nat * nat);
  s_unresolved : Z;
  s_relocs : list reloc
}.

Definition sinit : sstate :=
  {| s_bufs := [ [] ]; s_cur := O; s_labels := []; s_pending := []; s_pending_rel := []; s_unresolved := 0; s_relocs := [] |}.

Definition s_cur_buf (f : sstate) : sbuf := nth (s_cur f) (s_bufs f) [].
Definition s_append (f : sstate) (bs : list Z) : list sbuf := upd (s_bufs f) (s_cur f) (s_cur_buf f ++ [CB bs]).
Definition s_append_zeros (f : sstate) (n : Z) : list sbuf := upd (s_bufs f) (s_cur f) (s_cur_buf f ++ [CZ n]).

Definition sset_bufs (f : sstate) (v : list sbuf) : sstate :=
  {| s_bufs := v; s_cur := s_cur f; s_labels := s_labels f; s_pending := s_pending f; s_pending_rel := s_pending_rel f;
     s_unresolved := s_unresolved f; s_relocs := s_relocs f |}.

Record swalk := { sw_kept : list fixup; sw_bufs : list sbuf; sw_n : Z; sw_err : bool }.
Definition swalk_keep (fx : fixup) (e : bool) (w : swalk) : swalk :=
  {| sw_kept := fx :: sw_kept w; sw_bufs := sw_bufs w; sw_n := sw_n w; sw_err := e || sw_err w |}.
Definition swalk_done (w : swalk) : swalk :=
  {| sw_kept := sw_kept w; sw_bufs := sw_bufs w; sw_n := sw_n w + 1; sw_err := sw_err w |}.

Fixpoint s_resolve_list (sel : fixup -> sel_res) (fail_is_err : bool) (fxs : list fixup) (secs : list sbuf) : swalk :=
  match fxs with
  | [] => {| sw_kept := []; sw_bufs := secs; sw_n := 0; sw_err := false |}
  | fx :: t =>
    match sel fx with
    | SSkip => swalk_keep fx false (s_resolve_list sel fail_is_err t secs)
    | SErr => swalk_keep fx true (s_resolve_list sel fail_is_err t secs)
    | STry lay lo =>
      let bs := nth (fx_sec fx) secs [] in
      let n := vnat (fx_kind fx) in
      match write_offset (fmt_of_kind (fx_kind fx)) (sb_read bs (fx_off fx) n)
                         (disp (lay_so lay) (lay_to lay) lo (fx_off fx) (fx_rel fx)) with
      | Some w => swalk_done (s_resolve_list sel fail_is_err t (upd secs (fx_sec fx) (sb_write bs (fx_off fx) n w)))
      | None => swalk_keep fx fail_is_err (s_resolve_list sel fail_is_err t secs)
      end
    end
  end.

(* the pre-check of bind_label on the flat buffers: every fixup that would be patched must be encodable, else the bind is refused *)
Definition s_bind_precheck (l sec : nat) (off : Z) (fxs : list fixup) (secs : list sbuf) : bool :=
  forallb (fun fx =>
    match bind_sel l sec off fx with
    | STry lay lo =>
      match write_offset (fmt_of_kind (fx_kind fx)) (sb_read (nth (fx_sec fx) secs []) (fx_off fx) (vnat (fx_kind fx)))
                         (disp (lay_so lay) (lay_to lay) lo (fx_off fx) (fx_rel fx)) with
      | Some _ => true | None => false end
    | _ => true
    end) fxs.

Definition sstep (f : sstate) (o : op) : sstate * err :=
  let len := sb_len (s_cur_buf f) in
  let with_rel (secs : list sbuf) (pr : list (nat * nat)) (u : Z) (rl : list reloc) : sstate :=
    {| s_bufs := secs; s_cur := s_cur f; s_labels := s_labels f; s_pending := s_pending f; s_pending_rel := pr;
       s_unresolved := u; s_relocs := rl |} in
  let delta (checked : bool) (l b : nat) (size : Z) : sstate * err :=
    match nth_error (s_labels f) l, nth_error (s_labels f) b with
    | Some ll, Some lb =>
      if negb (size_ok size) then (f, EInvalidSize) else
      let immediate :=
        match ll, lb with
        | Some (ls, lo), Some (bs, bo) => if Nat.eqb ls bs then Some (lo - bo) else None
        | _, _ => None
        end in
      match immediate with
      | Some d =>
        if negb checked || (size =? 8) || ((- 2 ^ (8 * size - 1) <=? d) && (d <? 2 ^ (8 * size - 1)))
        then (sset_bufs f (s_append f (le_split (Z.to_nat size) (wrap (8 * size) d))), EOk)
        else (f, EInvalidDisp)
      | None =>
        let re := {| rl_type := Expr l b; rl_sec := s_cur f; rl_off := len; rl_lead := 0; rl_size := size;
                     rl_trail := 0; rl_payload := 0; rl_target := None; rl_label := l; rl_addend := 0 |} in
        (with_rel (s_append f (zeros size)) (s_pending_rel f) (s_unresolved f) (s_relocs f ++ [re]), EOk)
      end
    | _, _ => (f, EInvalidLabel)
    end in
  match o with
  | ONewLabel =>
    ({| s_bufs := s_bufs f; s_cur := s_cur f; s_labels := s_labels f ++ [None]; s_pending := s_pending f;
        s_pending_rel := s_pending_rel f; s_unresolved := s_unresolved f; s_relocs := s_relocs f |}, EOk)
  | ONewSection => (sset_bufs f (s_bufs f ++ [ [] ]), EOk)
  | OSection k =>
    if Nat.ltb k (length (s_bufs f))
    then ({| s_bufs := s_bufs f; s_cur := k; s_labels := s_labels f; s_pending := s_pending f; s_pending_rel := s_pending_rel f;
             s_unresolved := s_unresolved f; s_relocs := s_relocs f |}, EOk)
    else (f, EInvalidSection)
  | ORaw bs => (sset_bufs f (s_append f bs), EOk)
  | OGap n => if 0 <=? n then (sset_bufs f (s_append_zeros f n), EOk) else (f, EBadInput)
  | ORef k rel l pre w0 post =>
    match nth_error (s_labels f) l with
    | None => (f, EInvalidLabel)
    | Some lb =>
      if negb (hole_ok k w0) then (f, EBadInput) else
      let fm := fmt_of_kind k in
      let site := len + zlen pre in
      let emit (w : Z) : list sbuf := s_append f (pre ++ le_split (vnat k) w ++ post) in
      let queue : sstate :=
        {| s_bufs := emit w0; s_cur := s_cur f; s_labels := s_labels f;
           s_pending := {| fx_id := O; fx_sec := s_cur f; fx_off := site; fx_rel := rel; fx_kind := k; fx_label := l |} :: s_pending f;
           s_pending_rel := s_pending_rel f; s_unresolved := s_unresolved f + 1; s_relocs := s_relocs f |} in
      match lb with
      | Some (ls, lo) =>
        if Nat.eqb ls (s_cur f) then
          match write_offset fm w0 (disp 0 0 lo site rel) with
          | Some w => (sset_bufs f (emit w), EOk)
          | None => (f, EInvalidDisp)
          end
        else (queue, EOk)
      | None => (queue, EOk)
      end
    end
  | OBind l =>
    match nth_error (s_labels f) l with
    | None => (f, EInvalidLabel)
    | Some (Some _) => (f, EAlreadyBound)
    | Some None =>
      if negb (s_bind_precheck l (s_cur f) len (s_pending f) (s_bufs f)) then (f, EInvalidDisp) else
      let '(prk, rl, nrel) := bind_rel l (s_cur f) len (s_pending_rel f) (s_relocs f) in
      let w := s_resolve_list (bind_sel l (s_cur f) len) true (s_pending f) (s_bufs f) in
      ({| s_bufs := sw_bufs w; s_cur := s_cur f; s_labels := upd (s_labels f) l (Some (s_cur f, len)); s_pending := sw_kept w;
          s_pending_rel := prk; s_unresolved := s_unresolved f - nrel - sw_n w; s_relocs := rl |},
       if sw_err w then EInvalidDisp else EOk)
    end
  | OAbsRef l size addend pre post =>
    match nth_error (s_labels f) l with
    | None => (f, EInvalidLabel)
    | Some lb =>
      if negb (size_ok size) then (f, EInvalidSize) else
      let rid := length (s_relocs f) in
      let re := {| rl_type := RelToAbs; rl_sec := s_cur f; rl_off := len; rl_lead := zlen pre; rl_size := size;
                   rl_trail := zlen post;
                   rl_payload := wrap 64 (addend + match lb with Some (_, lo) => lo | None => 0 end);
                   rl_target := match lb with Some (ls, _) => Some ls | None => None end;
                   rl_label := l; rl_addend := addend |} in
      let secs := s_append f (pre ++ zeros size ++ post) in
      match lb with
      | Some _ => (with_rel secs (s_pending_rel f) (s_unresolved f) (s_relocs f ++ [re]), EOk)
      | None => (with_rel secs ((l, rid) :: s_pending_rel f) (s_unresolved f + 1) (s_relocs f ++ [re]), EOk)
      end
    end
  | ODelta l b size => delta false l b size
  | ODeltaChecked l b size => delta true l b size
  | OResolve offs =>
    let w := s_resolve_list (resolve_sel (s_labels f) offs) false (s_pending f) (s_bufs f) in
    ({| s_bufs := sw_bufs w; s_cur := s_cur f; s_labels := s_labels f; s_pending := sw_kept w; s_pending_rel := s_pending_rel f;
        s_unresolved := s_unresolved f - sw_n w; s_relocs := s_relocs f |}, if sw_err w then EInvalidDisp else EOk)
  end.

Fixpoint srun (f : sstate) (ops : list op) : sstate :=
  match ops with
  | [] => f
  | o :: t => srun (fst (sstep f o)) t
  end.

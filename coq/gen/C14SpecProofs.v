(* C14 — round 6: instruction-level specifications (row hypotheses discharged by reflection over the generated instruction rows),
   completeness directions and arithmetic characterisations on top of C14MemPathProofs.v. *)
From Coq Require Import ZArith NArith List Bool Lia.
From Verif Require Import EmitState.EmitStateModel EmitState.EmitStateProofs EmitState.LookupModel EmitState.LookupProofs EmitState.EncPathModel.
From VerifGen Require Import C14Tables C14TableProofs C14MemPathModel C14MemPathProofs.
Import ListNotations.
Local Open Scope Z_scope.

Lemma a64_norm_id_range : forall id, 0 <= id -> 0 <= a64_norm_id id <= a64c_inst_id_count - 1.
Proof.
  intros id H0. unfold a64_norm_id. destruct (a64c_inst_id_count <=? id) eqn:E; [vm_compute; split; discriminate |]. apply Z.leb_gt in E. lia.
Qed.

(* a data register the instruction takes is a W or an X register, and the X bit is 0 or 1 *)
Lemma gp_type_ok_cases : forall allowed rt, 0 <= allowed <= 3 -> a64_gp_type_ok allowed rt = true ->
  (rt = a64c_reg_type_gp32 \/ rt = a64c_reg_type_gp64) /\ 0 <= a64_gp_x allowed rt <= 1.
Proof.
  intros allowed rt Ha T. unfold a64_gp_type_ok in T.
  assert (A : allowed = 0 \/ allowed = 1 \/ allowed = 2 \/ allowed = 3) by lia.
  assert (R : 5 <= rt <= 6).
  { destruct (Z_lt_dec rt 0) as [N | N]; [rewrite Z.testbit_neg_r in T by exact N; discriminate T |].
    destruct (Z_le_dec 7 rt) as [G | G].
    - exfalso.
      destruct A as [A | [A | [A | A]]]; subst allowed;
        [ replace (Z.shiftl 0 a64c_reg_type_gp32) with 0 in T by reflexivity; rewrite Z.testbit_0_l in T; discriminate T
        | replace (Z.shiftl 1 a64c_reg_type_gp32) with 32 in T by reflexivity
        | replace (Z.shiftl 2 a64c_reg_type_gp32) with 64 in T by reflexivity
        | replace (Z.shiftl 3 a64c_reg_type_gp32) with 96 in T by reflexivity ];
        (rewrite Z.bits_above_log2 in T; [discriminate T | lia | vm_compute (Z.log2 _); lia]).
    - assert (C : rt = 0 \/ rt = 1 \/ rt = 2 \/ rt = 3 \/ rt = 4 \/ rt = 5 \/ rt = 6) by lia.
      destruct A as [A | [A | [A | A]]]; subst allowed;
        destruct C as [C | [C | [C | [C | [C | [C | C]]]]]]; subst rt; try (vm_compute in T; discriminate T); lia. }
  assert (C : rt = 5 \/ rt = 6) by lia.
  split; [exact C |].
  destruct A as [A | [A | [A | A]]]; subst allowed; destruct C as [C | C]; subst rt; vm_compute; split; discriminate.
Qed.

(* ---------------------------------------------------------------- ldp / stp: every instruction of the encoding *)
Lemma ldp_rows_wf_all :
  forallb (fun id => match a64_ldp_row_at id with
                     | PRow r => (0 <=? lp_shift r) && (lp_shift r <=? 4) && (0 <=? lp_allowed r) && (lp_allowed r <=? 3)
                     | _ => true
                     end) (upto (a64c_inst_id_count - 1)) = true.
Proof. vm_compute. reflexivity. Qed.

Lemma ldp_row_wf : forall inst_id r, 0 <= inst_id -> a64_ldp_row inst_id = PRow r -> 0 <= lp_shift r <= 4 /\ 0 <= lp_allowed r <= 3.
Proof.
  intros id r H0 R. unfold a64_ldp_row in R.
  pose proof ldp_rows_wf_all as A. rewrite forallb_forall in A. specialize (A _ (in_upto _ _ (a64_norm_id_range id H0))). rewrite R in A.
  repeat (apply andb_true_iff in A; destruct A as [A ?]).
  repeat match goal with H : (_ <=? _) = true |- _ => apply Z.leb_le in H end. lia.
Qed.

(* ldp / stp / ldnp / stnp / ldpsw / stgp `[Xn, #off]` (write-back forms where the instruction has them): EVERY instruction of
   the encoding, EVERY 32-bit offset - accepted iff off is a multiple of the access size inside the scaled simm7 range *)
Theorem a64_ldp_offset_inst_spec : forall inst_id m r,
  0 <= inst_id -> a64_ldp_row inst_id = PRow r ->
  a64_gp_type_ok (lp_allowed r) (p_rtype0 m) = true -> p_rtype0 m = p_rtype1 m ->
  a64_check_gp_id (p_rid0 m) a64c_zr = true -> a64_check_gp_id (p_rid1 m) a64c_zr = true ->
  p_btype m = a64c_reg_type_gp64 -> p_bid m <= 31 -> p_itype m = 0 -> (p_mode m = 0 \/ lp_prepost r <> 0) ->
  - 2 ^ 31 <= p_off m < 2 ^ 31 ->
  let s := lp_shift r + a64_gp_x (lp_allowed r) (p_rtype0 m) in
  let fits := - 64 * 2 ^ s <= p_off m < 64 * 2 ^ s /\ (p_off m) mod 2 ^ s = 0 in
  (a64_ldp inst_id m = MOk 4 0 <-> fits) /\ (~ fits -> a64_ldp inst_id m = MErr kInvalidDisplacement).
Proof.
  intros id m r H0 R T EQ G0 G1 Hb Hbid Hi Hm Ho s fits.
  destruct (ldp_row_wf id r H0 R) as [W1 W2].
  destruct (gp_type_ok_cases _ _ W2 T) as [_ X].
  assert (Hs : 0 <= s <= 5) by (unfold s; lia).
  destruct (a64_ldp_offset_spec r m T EQ G0 G1 Hb Hbid Hi Hm Ho Hs) as [P N].
  unfold a64_ldp. rewrite R. split; [split |].
  - intros E.
    assert (D : fits \/ ~ fits).
    { unfold fits. destruct (Z_le_dec (- 64 * 2 ^ s) (p_off m)), (Z_lt_dec (p_off m) (64 * 2 ^ s)), (Z.eq_dec ((p_off m) mod 2 ^ s) 0); tauto. }
    destruct D as [F | F]; [exact F | rewrite (N F) in E; discriminate E].
  - exact P.
  - exact N.
Qed.

(* ---------------------------------------------------------------- ldr / str, register-index form: sound AND complete *)
(* `[Xn, Rm {, ext/lsl #s}]` of every BaseLdSt instruction: accepted exactly when the extend operation is one the encoding has,
   the index register has the width that operation takes, there is no write-back, the scale is absent or the access size, and
   the index id names a register *)
Theorem a64_ldst_index_inst_spec : forall inst_id m r opt,
  0 <= inst_id -> a64_ldst_row inst_id = RRow r ->
  a64_gp_type_ok (l_allowed r) (a_rtype m) = true -> a64_check_gp_id (a_rid m) a64c_zr = true ->
  a_btype m = a64c_reg_type_gp64 -> a_bid m <= 31 -> a_itype m <> 0 -> a_off m = 0 ->
  lookup a64_shift_op_to_ld_st_opt_map (a_shiftop m) = Some opt ->
  (a64_ldst inst_id m = MOk 4 0 <->
   opt <> 255 /\ a_itype m = (if Z.testbit opt 0 then a64c_reg_type_gp64 else a64c_reg_type_gp32) /\ a_mode m = 0 /\
   (a_shift m = 0 \/ a_shift m = a64_imm_shift r m) /\ (a_iid m <= 30 \/ a_iid m = a64c_id_zr)).
Proof.
  intros id m r opt H0 R T G Hb Hbid Hi Hoff L.
  assert (BASE : a64_check_mem_base m = true).
  { unfold a64_check_mem_base. rewrite Hb, Z.eqb_refl. apply Z.leb_le in Hbid. rewrite Hbid. reflexivity. }
  assert (INZ : (a_itype m =? 0) = false) by (apply Z.eqb_neq; exact Hi).
  unfold a64_ldst. rewrite R. unfold a64_ldst_encode_row. rewrite T, G. cbn [negb].
  fold (a64_imm_shift r m).
  unfold a64_check_mem_base_index_rel. rewrite Hb, Hoff, INZ.
  change (Z.testbit (Z.lor (Z.lor 1 (Z.shiftl 1 a64c_reg_type_label_tag)) (Z.shiftl 1 a64c_reg_type_gp64)) a64c_reg_type_gp64) with true.
  change (a64c_reg_type_label_tag <? a64c_reg_type_gp64) with true. cbn [negb]. cbv iota. rewrite Z.eqb_refl.
  rewrite L. cbn [bind_l]. unfold a64_emit_mem_base_index. rewrite BASE. cbn [negb].
  split.
  - intros E.
    match type of E with context [Z.testbit ?mk (a_itype m)] => destruct (Z.testbit mk (a_itype m)) eqn:MK end; cbn [negb] in E; [| discriminate E].
    destruct (opt =? 255) eqn:O; [discriminate E |]. apply Z.eqb_neq in O.
    destruct (a_itype m =? (if Z.testbit opt 0 then a64c_reg_type_gp64 else a64c_reg_type_gp32)) eqn:IT; cbn [negb orb] in E; [| discriminate E]. apply Z.eqb_eq in IT.
    destruct (a_mode m =? 0) eqn:MD; cbn [negb] in E; [| discriminate E]. apply Z.eqb_eq in MD.
    destruct (a_shift m =? 0) eqn:S0; cbn [negb andb] in E.
    + apply Z.eqb_eq in S0. destruct ((30 <? a_iid m) && negb (a_iid m =? a64c_id_zr)) eqn:I; [discriminate E |].
      repeat split; auto.
      apply andb_false_iff in I. destruct I as [I | I]; [left; apply Z.ltb_ge in I; exact I | right; apply negb_false_iff, Z.eqb_eq in I; exact I].
    + destruct (a_shift m =? a64_imm_shift r m) eqn:S1; cbn [negb] in E; [| discriminate E]. apply Z.eqb_eq in S1.
      destruct ((30 <? a_iid m) && negb (a_iid m =? a64c_id_zr)) eqn:I; [discriminate E |].
      repeat split; auto.
      apply andb_false_iff in I. destruct I as [I | I]; [left; apply Z.ltb_ge in I; exact I | right; apply negb_false_iff, Z.eqb_eq in I; exact I].
  - intros [O [IT [MD [SH ID]]]].
    assert (MASK : Z.testbit (Z.lor (Z.lor 1 (Z.shiftl 1 a64c_reg_type_gp32)) (Z.shiftl 1 a64c_reg_type_gp64)) (a_itype m) = true).
    { rewrite IT. destruct (Z.testbit opt 0); reflexivity. }
    rewrite MASK. cbn [negb]. apply Z.eqb_neq in O. rewrite O. rewrite <- IT, Z.eqb_refl, MD. cbn [negb orb Z.eqb].
    assert (S : negb (a_shift m =? 0) && negb (a_shift m =? a64_imm_shift r m) = false).
    { destruct SH as [SH | SH]; rewrite SH, Z.eqb_refl; cbn; [reflexivity | apply andb_false_r]. }
    rewrite S.
    assert (I : (30 <? a_iid m) && negb (a_iid m =? a64c_id_zr) = false).
    { destruct ID as [ID | ID]; [apply Z.ltb_ge in ID; rewrite ID; reflexivity | rewrite ID, Z.eqb_refl; apply andb_false_r]. }
    rewrite I. reflexivity.
Qed.

(* ---------------------------------------------------------------- SIMD / FP ldr / str `[Xn, #off]`: every 32-bit offset *)
Theorem a64_simd_imm_offset_spec : forall inst_id v r,
  0 <= inst_id -> a64_simd_row inst_id = SRow r ->
  let m := av_mem v in
  let s := diff32 (a_rtype m) a64c_reg_type_vec8 in
  s <= 4 -> av_ei v = false -> av_et v = 0 -> a_rid m <= 31 ->
  a_btype m = a64c_reg_type_gp64 -> a_bid m <= 31 -> a_itype m = 0 -> a_mode m = 0 -> - 2 ^ 31 <= a_off m < 2 ^ 31 ->
  let fits := (0 <= a_off m < 4096 * 2 ^ s /\ (a_off m) mod 2 ^ s = 0) \/ (-256 <= a_off m <= 255) in
  (a64_simd_ldst inst_id v = MOk 4 0 <-> fits) /\ (~ fits -> a64_simd_ldst inst_id v = MErr kInvalidDisplacement).
Proof.
  intros id v r H0 R m s S4 EI ET RID Hb Hbid Hi Hm Ho fits.
  assert (S0 : 0 <= s) by (unfold s, diff32; apply Z.mod_pos_bound; lia).
  assert (Hs : 0 <= s <= 4) by lia.
  assert (BASE : a64_emit_mem_base m = MOk 4 0).
  { unfold a64_emit_mem_base, a64_check_mem_base. rewrite Hb, Z.eqb_refl. apply Z.leb_le in Hbid. rewrite Hbid. reflexivity. }
  assert (REL : a64_check_mem_base_index_rel m = true).
  { unfold a64_check_mem_base_index_rel. rewrite Hb, Hi. reflexivity. }
  assert (I32 : is_int_n 32 (a_off m) = true).
  { unfold is_int_n. apply andb_true_iff. split; [apply Z.leb_le | apply Z.ltb_lt]; cbn; lia. }
  assert (E : a64_simd_ldst id v =
              if (Z.shiftr ((a_off m) mod 2 ^ 32) s <? 4096) && ((Z.shiftl (Z.shiftr ((a_off m) mod 2 ^ 32) s) s) mod 2 ^ 32 =? (a_off m) mod 2 ^ 32)
              then MOk 4 0 else if is_int_n 9 (a_off m) then MOk 4 0 else MErr kInvalidDisplacement).
  { unfold a64_simd_ldst. rewrite R. unfold a64_simd_encode_row. fold m. fold s.
    assert (X4 : (4 <? s) = false) by (apply Z.ltb_ge; lia). rewrite X4, EI, ET. cbn [orb negb Z.eqb].
    assert (X31 : (31 <? a_rid m) = false) by (apply Z.ltb_ge; lia). rewrite X31, REL, I32. cbn [negb].
    rewrite Hb. change (a64c_reg_type_label_tag <? a64c_reg_type_gp64) with true. cbv iota.
    rewrite Hi, Hm. cbn [Z.eqb negb]. rewrite BASE.
    destruct (_ && _); [reflexivity |]. destruct (is_int_n 9 (a_off m)); reflexivity. }
  pose proof (uimm12_scaled_iff (a_off m) s Hs Ho) as U.
  assert (N : is_int_n 9 (a_off m) = true <-> -256 <= a_off m <= 255).
  { unfold is_int_n. rewrite andb_true_iff, Z.leb_le, Z.ltb_lt. cbn. lia. }
  assert (P1 : fits -> a64_simd_ldst id v = MOk 4 0).
  { rewrite E. intros [F | F]; [apply U in F; rewrite F; reflexivity | apply N in F; rewrite F; destruct (_ && _); reflexivity]. }
  assert (P2 : ~ fits -> a64_simd_ldst id v = MErr kInvalidDisplacement).
  { rewrite E. intros NF. destruct (_ && _) eqn:A; [exfalso; apply NF; left; apply U; reflexivity |].
    destruct (is_int_n 9 (a_off m)) eqn:B; [exfalso; apply NF; right; apply N; reflexivity | reflexivity]. }
  split; [split; [| exact P1] | exact P2].
  intros EQ.
  assert (D : fits \/ ~ fits).
  { unfold fits. destruct (Z_le_dec 0 (a_off m)), (Z_lt_dec (a_off m) (4096 * 2 ^ s)), (Z.eq_dec ((a_off m) mod 2 ^ s) 0),
                          (Z_le_dec (-256) (a_off m)), (Z_le_dec (a_off m) 255); tauto. }
  destruct D as [F | F]; [exact F | rewrite (P2 F) in EQ; discriminate EQ].
Qed.

(* non-vacuity of the instruction-level specifications: they apply to ldr (X, W), ldrb, ldp (X) and ldr q *)
Example inst_specs_apply :
  (exists r, a64_ldst_row a64c_id_ldr = RRow r /\ a64_gp_type_ok (l_allowed r) 6 = true /\ a64_gp_type_ok (l_allowed r) 5 = true) /\
  (exists r, a64_ldp_row a64c_id_ldp = PRow r /\ a64_gp_type_ok (lp_allowed r) 6 = true /\ lp_prepost r <> 0) /\
  (exists r, a64_simd_row a64c_id_ldr_v = SRow r) /\
  a64_ldst a64c_id_ldr (mkA64Mem 6 1 6 2 6 3 8 0 0 0) = MErr kInvalidAddress /\         (* ldr x1, [x2, x3, uxtw]: X index with a W extend *)
  a64_ldst a64c_id_ldr (mkA64Mem 6 1 6 2 5 3 8 3 0 0) = MOk 4 0.                        (* ldr x1, [x2, w3, uxtw #3] *)
Proof.
  repeat split.
  - destruct (a64_ldst_row a64c_id_ldr) as [r | |] eqn:E; [| vm_compute in E; discriminate E | vm_compute in E; discriminate E].
    exists r. split; [reflexivity |]. vm_compute in E. inversion E. split; reflexivity.
  - destruct (a64_ldp_row a64c_id_ldp) as [r | |] eqn:E; [| vm_compute in E; discriminate E | vm_compute in E; discriminate E].
    exists r. split; [reflexivity |]. vm_compute in E. inversion E. split; [reflexivity | vm_compute; discriminate].
  - destruct (a64_simd_row a64c_id_ldr_v) as [r | |] eqn:E; [| vm_compute in E; discriminate E | vm_compute in E; discriminate E].
    exists r. reflexivity.
Qed.

(* ---------------------------------------------------------------- x86: length bound of an accepted ModRM memory form *)
Ltac name_let H :=
  match type of H with
  | (let x := ?v in @?f x) = ?r => let y := fresh "v" in pose (y := v); change (f y = r) in H; cbv beta in H
  end.

Theorem modrm_accepted_length : forall x64 absloc cur npp rexop m n d,
  0 <= npp <= 1 -> x86_modrm_mem_encode x64 absloc cur npp rexop m = MOk n d -> 2 <= n <= 12 /\ 0 <= d <= 1.
Proof.
  intros x64 absloc cur npp rexop m n d Hp H. cbv beta delta [x86_modrm_mem_encode bind_l] in H.
  destruct (lookup x86_mem_info_table _) as [rmi |]; [| discriminate H]. cbv beta iota in H.
  destruct (lookup x86_segment_prefix_table _) as [segp |]; [| discriminate H]. cbv beta iota in H.
  do 4 name_let H.
  destruct (128 <? v2); [discriminate H |].
  do 2 name_let H.
  assert (B : 1 <= v4 <= 5).
  { subst v4 v3 v0 v. repeat match goal with |- context [if ?c then 0 else 1] => destruct c end; lia. }
  clearbody v4. clear v3 v2 v1 v0 v.
  repeat match type of H with
  | (match ?o with Some _ => _ | None => _ end) = _ => destruct o; [| discriminate H]
  | (if ?c then _ else _) = _ => destruct c
  | (let _ := _ in _) = _ => cbv zeta in H
  end; try discriminate H; inversion H; subst; lia.
Qed.


(* ---------------------------------------------------------------- supported domains: where the verdict models are TOTAL
   (`MUnsupported` = "this form is outside the model" is only reachable through the literal / label forms, which the generator
   does not produce; `MStuck` is excluded by the never-stuck theorems).  Together: on these domains the model always answers
   accepted-with-N-bytes or refused-with-error. *)
Definition answers (r : mres) : Prop := match r with MOk _ _ | MErr _ => True | MStuck | MUnsupported => False end.

Theorem a64_ldst_total : forall inst_id m r,
  0 <= inst_id -> 0 <= a_shiftop m <= a64c_mem_shift_op_max -> a64_ldst_row inst_id = RRow r ->
  (a64c_reg_type_label_tag < a_btype m \/ l_literal r = 0 \/ a64_check_mem_base_index_rel m = false) -> answers (a64_ldst inst_id m).
Proof.
  intros id m r H0 Hs R D.
  pose proof (a64_ldst_never_stuck id m H0 Hs) as NS. unfold a64_ldst in *. rewrite R in *.
  destruct (a64_ldst_encode_row r m) as [n d | e | |] eqn:E; try exact I; [contradiction |].
  exfalso. unfold a64_ldst_encode_row in E.
  destruct (negb (a64_gp_type_ok (l_allowed r) (a_rtype m))); [discriminate E |].
  destruct (negb (a64_check_gp_id (a_rid m) a64c_zr)); [discriminate E |].
  destruct (a64_check_mem_base_index_rel m) eqn:REL; cbn [negb] in E; [| discriminate E].
  destruct (a64c_reg_type_label_tag <? a_btype m) eqn:B.
  - unfold bind_l, a64_ldur_encode in E. unfold a64_emit_mem_base_index, a64_emit_mem_base in E. cbv zeta in E.
    repeat match type of E with
    | (match ?o with Some _ => _ | None => _ end) = _ => destruct o
    | (if ?c then _ else _) = _ => destruct c
    end; discriminate E.
  - apply Z.ltb_ge in B. destruct D as [D | [D | D]]; [lia | rewrite D in E; discriminate E | discriminate D].
Qed.

Theorem a64_ldp_total : forall inst_id m r, 0 <= inst_id -> a64_ldp_row inst_id = PRow r -> answers (a64_ldp inst_id m).
Proof.
  intros id m r H0 R. unfold a64_ldp. rewrite R. unfold a64_ldp_encode_row.
  repeat match goal with |- answers (if ?c then _ else _) => destruct c end; exact I.
Qed.

Theorem shift_encode_total : forall x64 long inst_id f,
  0 <= inst_id -> (exists npp mm opc, x86_shift_row_at (x86_norm_id inst_id) (Z.land (s_size f) 15) = ShRow npp mm opc) ->
  answers (x86_shift_imm_encode x64 long inst_id f).
Proof.
  intros x64 long id f H0 [npp [mm [opc R]]]. unfold x86_shift_imm_encode. rewrite R.
  destruct (x86c_byte_invalid_rex <? _); exact I.
Qed.

Theorem pushpop_total : forall x64 is_pop inst_id id, 0 <= id -> answers (x86_pushpop_sreg x64 is_pop inst_id id).
Proof.
  intros x64 is_pop inst_id id H0.
  pose proof (pushpop_never_stuck x64 is_pop inst_id id H0) as NS.
  destruct (x86_pushpop_sreg x64 is_pop inst_id id) as [n d | e | |] eqn:E; try exact I; [contradiction |].
  exfalso. unfold x86_pushpop_sreg in E. destruct (validate_pushpop_sreg x64 inst_id id =? 0); [| discriminate E].
  unfold x86_pushpop_sreg_encode, bind_l in E.
  repeat match type of E with
  | (match ?o with Some _ => _ | None => _ end) = _ => destruct o
  | (if ?c then _ else _) = _ => destruct c
  end; discriminate E.
Qed.

Theorem vrrr_total : forall x64 etype kid f, 0 <= vr_size f <= x86c_size_max -> answers (x86_vrrr x64 x86c_vaddps_id etype kid f).
Proof.
  intros x64 etype kid f Hz.
  pose proof (vrrr_never_stuck x64 x86c_vaddps_id etype kid f Hz) as NS.
  destruct (x86_vrrr x64 x86c_vaddps_id etype kid f) as [n d | e | |] eqn:E; try exact I; [contradiction |].
  exfalso. unfold x86_vrrr in E. rewrite Z.eqb_refl in E. cbn [negb] in E.
  destruct (validate_vrrr x64 x86c_vaddps_id etype kid f =? 0); [| discriminate E].
  unfold x86_vrrr_encode in E.
  change (negb (x86c_vaddps_encoding_is_rvm_lx =? 1) || negb (x86c_vaddps_has_vex =? 1) || negb (x86c_vaddps_prefer_evex =? 0)) with false in E.
  unfold bind_l in E. cbv zeta in E.
  repeat match type of E with
  | (match ?o with Some _ => _ | None => _ end) = _ => destruct o
  | (if ?c then _ else _) = _ => destruct c
  end; discriminate E.
Qed.

Example totality_applies :
  answers (a64_ldst a64c_id_ldr (mkA64Mem 6 1 6 2 0 0 0 0 0 8)) /\ answers (a64_ldp a64c_id_ldp (mkA64Pair 6 1 6 2 6 3 0 0 4)) /\
  answers (x86_vrrr true x86c_vaddps_id 0 0 (mkVrrr 11 1 11 2 11 40 16)) /\ ~ answers (a64_ldst a64c_id_ldr (mkA64Mem 6 1 0 0 0 0 0 0 0 8)).
Proof. vm_compute. repeat split; try exact I. intros F. exact F. Qed.

(* ---------------------------------------------------------------- x86: length bounds of the mov / arith r,[mem] family *)
Lemma if01 : forall (c : bool), 0 <= (if c then 0 else 1) <= 1.
Proof. destruct c; lia. Qed.
Lemma if10 : forall (c : bool), 0 <= (if c then 1 else 0) <= 1.
Proof. destruct c; lia. Qed.

Theorem mov_encode_accepted_length : forall x64 absloc cur f n d,
  x86_mov_rm_encode x64 absloc cur f = MOk n d -> 2 <= n <= 12 /\ 0 <= d <= 1.
Proof.
  intros x64 absloc cur f n d H. unfold x86_mov_rm_encode in H.
  destruct (mv_rtype f =? kRegTypeSegment); [discriminate H |].
  match type of H with (if ?c then _ else _) = _ => destruct c end.
  - unfold bind_l in H. destruct (lookup x86_segment_prefix_table _) as [segp |]; [| discriminate H].
    destruct (128 <? _); [discriminate H |]. inversion H.
    pose proof (if01 (segp =? 0)). pose proof (if01 (Z.land (arith_by_size_mask (Z.land (mv_rsize f) 15)) x86c_opcode_pp_66 =? 0)).
    match goal with |- context [if ?c then 0 else 1] => idtac end.
    split; [| lia].
    repeat match goal with |- context [if ?c then _ else _] => destruct c end; lia.
  - eapply modrm_accepted_length; [| exact H]. apply if01.
Qed.

Lemma arith_rows_npp_small :
  forallb (fun id => forallb (fun k => match x86_legacy_row_at x86c_encoding_x86_arith id k with ShRow npp _ _ => (0 <=? npp) && (npp <=? 1) | _ => true end) (upto 15))
          (upto (x86c_inst_id_count - 1)) = true.
Proof. vm_compute. reflexivity. Qed.

Theorem mov_accepted_length : forall x64 absloc cur inst_id f n d,
  0 <= inst_id -> x86_mov_rm x64 absloc cur inst_id f = MOk n d -> 2 <= n <= 12 /\ 0 <= d <= 1.
Proof.
  intros x64 absloc cur inst_id f n d H0 H. unfold x86_mov_rm in H.
  destruct (inst_id =? x86c_id_mov); destruct (validate_mov_rm x64 inst_id f =? 0); try discriminate H.
  - eapply mov_encode_accepted_length. exact H.
  - unfold x86_arith_rm_encode in H.
    assert (R : 0 <= x86_norm_id inst_id <= x86c_inst_id_count - 1).
    { unfold x86_norm_id. destruct (x86c_inst_id_count <=? inst_id) eqn:E; [vm_compute; split; discriminate |]. apply Z.leb_gt in E. lia. }
    pose proof arith_rows_npp_small as A. rewrite forallb_forall in A. specialize (A _ (in_upto _ _ R)).
    rewrite forallb_forall in A. specialize (A _ (in_upto _ _ (land15_range (mv_rsize f)))).
    destruct (x86_legacy_row_at x86c_encoding_x86_arith (x86_norm_id inst_id) (Z.land (mv_rsize f) 15)) as [npp mm opc | |]; try discriminate H.
    destruct (negb (mm =? 0)); [discriminate H |].
    apply andb_true_iff in A. destruct A as [A1 A2]. apply Z.leb_le in A1. apply Z.leb_le in A2.
    eapply modrm_accepted_length; [| exact H]. lia.
Qed.

(* ---------------------------------------------------------------- x86: length bounds of the gather families *)
Theorem vgather_accepted_length : forall x64 inst_id v n d, x86_vgather x64 inst_id v = MOk n d -> 6 <= n <= 12 /\ d = 0.
Proof.
  intros x64 inst_id v n d H. unfold x86_vgather in H. destruct (validate_vgather x64 inst_id v =? 0); [| discriminate H].
  cbv beta delta [x86_vgather_encode bind_l] in H. cbv zeta in H.
  repeat match type of H with (match ?o with Some _ => _ | None => _ end) = _ => destruct o; [| discriminate H]; cbv beta iota in H end.
  match goal with H : context [if ?z =? 0 then 0 else 1] |- _ => pose proof (if01 (z =? 0)) end.
  repeat match type of H with
  | (if ?c then _ else _) = _ => destruct c
  end; try discriminate H; inversion H; subst;
  repeat match goal with |- context [if ?c then 0 else 1] => pose proof (if01 c); generalize dependent (if c then 0 else 1); intros end; lia.
Qed.

Lemma if43 : forall (c : bool), 3 <= (if c then 4 else 3) <= 4.
Proof. destruct c; lia. Qed.

Theorem vgather2_accepted_length : forall x64 inst_id etype kid v n d, x86_vgather2 x64 inst_id etype kid v = MOk n d -> 5 <= n <= 13 /\ d = 0.
Proof.
  intros x64 inst_id etype kid v n d H. unfold x86_vgather2 in H. destruct (negb (inst_id =? x86c_vgatherdps_id)); [discriminate H |].
  destruct (validate_vgather2 x64 inst_id etype kid v =? 0); [| discriminate H].
  cbv beta delta [x86_vgather2_encode bind_l] in H. cbv zeta in H.
  repeat match type of H with
  | (match ?o with Some _ => _ | None => _ end) = _ => destruct o; [| discriminate H]; cbv beta iota in H
  | (if ?c then _ else _) = _ => destruct c
  end; try discriminate H; inversion H; subst;
  repeat match goal with
  | |- context [if ?c then 0 else 1] => pose proof (if01 c); generalize dependent (if c then 0 else 1); intros
  | |- context [if ?c then 4 else 3] => pose proof (if43 c); generalize dependent (if c then 4 else 3); intros
  end; lia.
Qed.


(* C14 — proofs about the memory-operand path model (coq/gen/C14MemPathModel.v) over the generated tables. *)
From Coq Require Import ZArith NArith List Bool Lia.
From Verif Require Import EmitState.EmitStateModel EmitState.EmitStateProofs EmitState.LookupModel EmitState.LookupProofs.
From VerifGen Require Import C14Tables C14TableProofs C14MemPathModel.
Import ListNotations.
Local Open Scope Z_scope.

Lemma land7_range : forall a, 0 <= Z.land a 7 <= 7.
Proof.
  intros a. change 7 with (Z.ones 3). rewrite Z.land_ones by lia.
  pose proof (Z.mod_pos_bound a (2 ^ 3) ltac:(lia)). change (2 ^ 3) with 8 in *. change (Z.ones 3) with 7. lia.
Qed.

Lemma lookup_in_len : forall t i, 0 <= i < lenZ t -> exists v, lookup t i = Some v.
Proof. intros t i H. unfold lookup. apply nthZ_some_iff. exact H. Qed.

Lemma mod16_bi_lookup : forall rb rx, exists v, lookup x86_mod16_base_index_table (mod16_index rb rx) = Some v.
Proof.
  intros rb rx. apply lookup_in_len. replace (lenZ x86_mod16_base_index_table) with 64 by (vm_compute; reflexivity).
  unfold mod16_index. rewrite Z.shiftl_mul_pow2 by lia. change (2 ^ 3) with 8.
  pose proof (land7_range rb). pose proof (land7_range rx). lia.
Qed.

Lemma mod16_b_lookup : forall r, exists v, lookup x86_mod16_base_table (Z.land r 7) = Some v.
Proof.
  intros r. apply lookup_in_len. replace (lenZ x86_mod16_base_table) with 8 by (vm_compute; reflexivity).
  pose proof (land7_range r). lia.
Qed.

(* the encoder path never reads a table out of bounds, for EVERY value of the operand fields the signature can carry
   (5-bit base/index types, 3-bit segment; ids, shift, offset arbitrary) — in both modes, validated or not *)
Theorem mem_encode_never_stuck : forall x64 absloc cur m,
  0 <= m_btype m <= x86c_mem_base_type_max -> 0 <= m_itype m <= x86c_mem_index_type_max -> 0 <= m_seg m <= x86c_mem_segment_max ->
  x86_add_mem_encode x64 absloc cur m <> MStuck.
Proof.
  intros x64 absloc cur m Hb Hi Hs. unfold x86_add_mem_encode.
  destruct (mem_info_lookup (m_btype m) (m_itype m) Hb Hi) as [rmi E1]. rewrite E1. cbn [bind_l].
  destruct (segment_lookup (m_seg m) Hs) as [sp E2]. rewrite E2. cbn [bind_l].
  set (rex1 := Z.lor _ (if x64 then 0 else 128)).
  destruct (128 <? rex1); [discriminate |].
  set (after := fun md : Z => _).
  assert (A : forall md, after md <> MStuck).
  { intros md. unfold after. destruct (md =? 255); [discriminate |].
    destruct (_ && _); [discriminate |]. destruct (is_int8 _); discriminate. }
  repeat match goal with
  | |- (if ?c then _ else _) <> MStuck => destruct c
  | |- MOk _ _ <> MStuck => discriminate
  | |- MErr _ <> MStuck => discriminate
  | |- MUnsupported <> MStuck => discriminate
  end.
  all: first
    [ destruct (mod16_bi_lookup (Z.land (m_bid m) 7) (Z.land (m_iid m) 7)) as [v E]; rewrite E; cbn [bind_l]; apply A
    | destruct (negb (Z.land rmi 2 =? 0));
        [ destruct (mod16_b_lookup (m_iid m)) as [v E]; rewrite E; cbn [bind_l]; apply A
        | destruct (mod16_b_lookup (m_bid m)) as [v E]; rewrite E; cbn [bind_l]; apply A ] ].
Qed.

Theorem mem_path_never_stuck : forall x64 absloc cur add_id m,
  0 <= m_btype m <= x86c_mem_base_type_max -> 0 <= m_itype m <= x86c_mem_index_type_max -> 0 <= m_seg m <= x86c_mem_segment_max ->
  x86_add_mem x64 absloc cur add_id m <> MStuck.
Proof.
  intros x64 absloc cur add_id m Hb Hi Hs. unfold x86_add_mem.
  destruct (validate_add_mem x64 add_id m =? 0); [apply mem_encode_never_stuck; assumption | discriminate].
Qed.

(* a refusal carries a real error code, so the verdict is a well-formed input of the emit transaction and the general
   theorems (no effect, state cleared, reported once, fresh-equivalent) apply to these instructions *)
Theorem mem_cmd_wf : forall a hb s add_id m c, mem_cmd a hb s add_id m = Some c -> wf_cmd c.
Proof.
  intros a hb s add_id m c H. unfold mem_cmd in H.
  destruct (x86_add_mem _ _ _ add_id m) as [n dr | e | |] eqn:R; inversion H; subst; cbn; [exact I |].
  unfold x86_add_mem in R.
  destruct (validate_add_mem _ add_id m =? 0) eqn:V.
  - unfold x86_add_mem_encode, bind_l in R.
    repeat match type of R with
    | (match ?o with Some _ => _ | None => _ end) = _ => destruct o; [| discriminate R]
    | (if ?c then _ else _) = _ => destruct c
    | (let _ := _ in _) = _ => cbv zeta in R
    end; try discriminate R; inversion R; subst; vm_compute; discriminate.
  - inversion R; subst. apply Z.eqb_neq. exact V.
Qed.

(* an accepted form appends bytes and creates at most one relocation entry (the RIP-relative form of a base-less
   64-bit address when the code has no base address yet); never a fixup, an address-table entry or a section *)
Lemma mem_relocs_01 : forall x64 absloc cur add_id m n dr, x86_add_mem x64 absloc cur add_id m = MOk n dr -> 0 <= dr <= 1.
Proof.
  intros x64 absloc cur add_id m n dr H. unfold x86_add_mem in H.
  destruct (validate_add_mem x64 add_id m =? 0); [| discriminate H].
  unfold x86_add_mem_encode, bind_l in H.
  repeat match type of H with
  | (match ?o with Some _ => _ | None => _ end) = _ => destruct o; [| discriminate H]
  | (if ?c then _ else _) = _ => destruct c
  | (let _ := _ in _) = _ => cbv zeta in H
  end; try discriminate H; inversion H; lia.
Qed.

Theorem mem_cmd_bytes_only : forall a hb s add_id m c, mem_cmd a hb s add_id m = Some c ->
  exists r, c = CInst r /\ match r with EncOk _ fx _ dr da ds => fx = None /\ 0 <= dr <= 1 /\ da = 0 /\ ds = 0 | EncErr _ => True end.
Proof.
  intros a hb s add_id m c H. unfold mem_cmd in H.
  destruct (x86_add_mem _ _ _ add_id m) eqn:R; inversion H; subst; eexists; (split; [reflexivity |]); cbn; auto.
  split; [reflexivity |]. split; [eapply mem_relocs_01; eassumption | auto].
Qed.

Example mem_path_examples :
  x86_add_mem_encode true false 0 (mkMem 0 6 0 0 0 0 0 0 4 0) = MOk 2 0 /\        (* add eax, [rax]            *)
  x86_add_mem_encode true false 0 (mkMem 9 6 12 6 13 2 5 0 4 8) = MOk 6 0 /\      (* add r9d, fs:[r12+r13*4+8] *)
  x86_add_mem_encode false false 0 (mkMem 1 4 3 4 6 0 0 0 4 0) = MOk 3 0 /\        (* add ecx, [bx+si]          *)
  x86_add_mem_encode false false 0 (mkMem 1 4 0 0 0 0 0 0 4 0) = MErr kInvalidAddress /\   (* [ax]            *)
  x86_add_mem_encode false false 0 (mkMem 1 5 9 0 0 0 0 0 4 0) = MErr kInvalidRexPrefix /\ (* [r9d] in 32-bit *)
  x86_add_mem_encode true false 0 (mkMem 1 6 0 6 4 0 0 0 4 0) = MErr kInvalidAddressIndex /\
  x86_add_mem_encode true false 16 (mkMem 0 0 0 0 0 0 0 0 4 4096) = MOk 6 1 /\          (* add eax, [0x1000]: RIP-relative + relocation *)
  x86_add_mem_encode true true 16 (mkMem 0 0 0 0 0 0 0 0 4 4294967295) = MOk 8 0 /\     (* add eax, [0xFFFFFFFF]: 67h + SIB absolute *)
  x86_add_mem_encode true true 16 (mkMem 0 0 0 0 0 0 0 0 4 1099511627776) = MErr kInvalidAddress64Bit.   (* 2^40 with a known base: neither RIP-relative nor 32-bit absolute reaches it *)
Proof. vm_compute. repeat split; reflexivity. Qed.

(* ---------------------------------------------------------------- VEX + VSIB path *)
Lemma ll_size_lookup : forall sz, 0 <= sz <= x86c_size_max -> exists v, lookup x86_ll_by_size_div_16_table (sz / 16) = Some v.
Proof.
  intros sz H. apply lookup_in_len. replace (lenZ x86_ll_by_size_div_16_table) with 16 by (vm_compute; reflexivity).
  unfold x86c_size_max in H. split; [apply Z.div_pos; lia | apply Z.div_lt_upper_bound; lia].
Qed.

(* with an index type the validator lets through, the VEX/VSIB path reads mem_info_table, segment_prefix_table,
   ll_by_reg_type_table and ll_by_size_div_16_table in range — for every base type, segment, size field, id, offset *)
Theorem vsib_encode_never_stuck : forall x64 v,
  0 <= m_btype (v_mem v) <= x86c_mem_base_type_max -> 0 <= m_itype (v_mem v) <= x86c_mem_index_type_max ->
  0 <= m_seg (v_mem v) <= x86c_mem_segment_max -> 0 <= v_dsize v <= x86c_size_max ->
  index_type_allowed (m_itype (v_mem v)) ->
  x86_vgather_encode x64 v <> MStuck.
Proof.
  intros x64 v Hb Hi Hs Hz Ha. unfold x86_vgather_encode.
  destruct (mem_info_lookup _ _ Hb Hi) as [rmi E1]. rewrite E1. cbn [bind_l].
  destruct (segment_lookup _ Hs) as [sp E2]. rewrite E2. cbn [bind_l].
  destruct (ll_lookup_validated _ Hi Ha) as [lv E3]. rewrite E3. cbn [bind_l].
  destruct (ll_size_lookup _ Hz) as [ls E4]. rewrite E4. cbn [bind_l].
  repeat match goal with
  | |- (if ?c then _ else _) <> MStuck => destruct c
  | |- MOk _ _ <> MStuck => discriminate
  | |- MErr _ <> MStuck => discriminate
  | |- MUnsupported <> MStuck => discriminate
  end.
Qed.

(* ... and without that hypothesis the ll_by_reg_type_table read can leave the table: index type 16 (kMask) *)
Theorem vsib_unvalidated_refuted : exists x64 v,
  0 <= m_itype (v_mem v) <= x86c_mem_index_type_max /\ x86_vgather_encode x64 v = MStuck.
Proof. exists true, (mkVsib 11 0 1 16 (mkMem 0 6 0 16 1 0 0 0 0 0)). split; [vm_compute; split; discriminate | reflexivity]. Qed.

Theorem vsib_cmd_wf : forall a inst_id v c, vsib_cmd a inst_id v = Some c -> wf_cmd c.
Proof.
  intros a inst_id v c H. unfold vsib_cmd in H.
  destruct (x86_vgather _ inst_id v) as [n dr | e | |] eqn:R; inversion H; subst; cbn; [exact I |].
  unfold x86_vgather in R.
  destruct (validate_vgather _ inst_id v =? 0) eqn:V.
  - unfold x86_vgather_encode, bind_l in R.
    repeat match type of R with
    | (match ?o with Some _ => _ | None => _ end) = _ => destruct o; [| discriminate R]
    | (if ?c then _ else _) = _ => destruct c
    | (let _ := _ in _) = _ => cbv zeta in R
    end; try discriminate R; inversion R; subst; vm_compute; discriminate.
  - inversion R; subst. apply Z.eqb_neq. exact V.
Qed.

(* ---------------------------------------------------------------- the validator hypothesis is discharged through C13's model:
   validate = kOk  ==>  the index type of the memory operand is allowed  ==>  the ll_by_reg_type_table read is in range *)
From Verif Require Import X86Validate.ValidateModel X86Validate.ValidateProofs.
From VerifGen Require Import X86Sigs.

Lemma xlat_mem_index : forall T x64 avx size bt bid it iid off seg bcst home x c,
  xlat_operand T x64 false avx (OMem size bt bid it iid off seg bcst home) = XOk x c ->
  it = 0%N \/ N.testbit (vd_index_regs (if x64 then vt_vd64 T else vt_vd86 T)) it = true.
Proof.
  intros T x64 avx size bt bid it iid off seg bcst home x c H.
  destruct (N.eqb it 0) eqn:E0; [left; apply N.eqb_eq; exact E0 |].
  destruct (N.testbit (vd_index_regs (if x64 then vt_vd64 T else vt_vd86 T)) it) eqn:ET; [right; reflexivity |].
  exfalso. cbn [xlat_operand] in H. rewrite E0, ET in H. cbn [negb] in H.
  repeat match type of H with
  | (if ?c then _ else _) = _ => destruct c
  | (match (if ?c then _ else _) with _ => _ end) = _ => destruct c
  | (match ?r with XErr _ => _ | XOk _ _ => _ end) = _ => destruct r
  end; try discriminate H.
Qed.

Lemma validated_index_allowed : forall x64 inst_id v,
  0 <= m_itype (v_mem v) -> validate_vgather x64 inst_id v = 0 -> index_type_allowed (m_itype (v_mem v)).
Proof.
  intros x64 inst_id v Hi H. unfold validate_vgather in H.
  assert (V : validate x86_vtables false x64 false
            {| vi_id := Z.to_N inst_id; vi_options := 0%N; vi_extra_type := 0%N; vi_extra_id := 0%N |}
            [OReg (Z.to_N (v_type v)) (Z.to_N (v_dst v));
             OMem (Z.to_N (m_size (v_mem v))) (Z.to_N (m_btype (v_mem v))) (Z.to_N (m_bid (v_mem v))) (Z.to_N (m_itype (v_mem v)))
                  (Z.to_N (m_iid (v_mem v))) (if m_btype (v_mem v) =? 0 then sext 64 (m_off (v_mem v)) else sext 32 (m_off (v_mem v)))
                  (Z.to_N (m_seg (v_mem v))) 0%N false;
             OReg (Z.to_N (v_type v)) (Z.to_N (v_mask v))] = E_Ok).
  { apply N2Z.inj. exact H. }
  apply validate_ok_inv in V. destruct V as [_ [iflags [avx [sidx [scnt [st [rest [_ [XL _]]]]]]]]].
  cbn [xlat_all] in XL.
  destruct (xlat_operand x86_vtables x64 false avx (OReg _ _)) as [e0 | x0 c0]; [discriminate XL |].
  destruct (xlat_operand x86_vtables x64 false avx (OMem _ _ _ _ _ _ _ _ _)) as [e1 | x1 c1] eqn:XM; [discriminate XL |].
  apply xlat_mem_index in XM. unfold index_type_allowed.
  destruct XM as [Z0 | TB].
  - left. apply (f_equal Z.of_N) in Z0. rewrite Z2N.id in Z0 by exact Hi. exact Z0.
  - right. rewrite <- (Z2N.id (m_itype (v_mem v))) by exact Hi.
    destruct x64; [right | left]; cbn [vt_vd64 vt_vd86 x86_vtables] in TB;
      [change x86c_allowed_mem_index_regs_x64 with (Z.of_N (vd_index_regs x86_vd1)) | change x86c_allowed_mem_index_regs_x86 with (Z.of_N (vd_index_regs x86_vd0))];
      rewrite Z.testbit_of_N; exact TB.
Qed.

(* the VEX + VSIB path of a VALIDATED instruction never reads a table out of bounds — no hypothesis about the index type *)
Theorem vsib_path_never_stuck : forall x64 inst_id v,
  0 <= m_btype (v_mem v) <= x86c_mem_base_type_max -> 0 <= m_itype (v_mem v) <= x86c_mem_index_type_max ->
  0 <= m_seg (v_mem v) <= x86c_mem_segment_max -> 0 <= v_dsize v <= x86c_size_max ->
  x86_vgather x64 inst_id v <> MStuck.
Proof.
  intros x64 inst_id v Hb Hi Hs Hz. unfold x86_vgather.
  destruct (validate_vgather x64 inst_id v =? 0) eqn:V; [| discriminate].
  apply vsib_encode_never_stuck; try assumption.
  apply Z.eqb_eq in V. eapply validated_index_allowed; [lia | exact V].
Qed.

(* ---------------------------------------------------------------- push / pop of a segment register *)
Lemma sreg_opcode_mm_in_range : forallb (fun opc => hit x86_opcode_mm_table (Z.land (Z.shiftr opc x86c_mm_shift) x86c_mm_index_max))
                                  (x86_opcode_push_sreg_table ++ x86_opcode_pop_sreg_table) = true.
Proof. vm_compute. reflexivity. Qed.

(* for EVERY register id (also ids far beyond the six segment registers) the two table reads of the path are in range *)
Theorem pushpop_encode_never_stuck : forall is_pop id, 0 <= id -> x86_pushpop_sreg_encode is_pop id <> MStuck.
Proof.
  intros is_pop id H0. unfold x86_pushpop_sreg_encode.
  destruct ((x86c_sreg_id_count <=? id) || (is_pop && (id =? kSegCs))) eqn:G; [discriminate |].
  apply orb_false_elim in G. destruct G as [G _]. apply Z.leb_gt in G.
  assert (L : exists opc, lookup (if is_pop then x86_opcode_pop_sreg_table else x86_opcode_push_sreg_table) id = Some opc /\
                          In opc (x86_opcode_push_sreg_table ++ x86_opcode_pop_sreg_table)).
  { destruct is_pop.
    - destruct (pop_sreg_lookup id (conj H0 G)) as [v E]. exists v. split; [exact E |]. apply in_or_app. right.
      unfold lookup in E. clear -E. revert id E. induction x86_opcode_pop_sreg_table as [| x t IH]; intros id E; cbn [nthZ] in E; [discriminate |].
      destruct (id =? 0); [inversion E; left; reflexivity |]. destruct (id <? 0); [discriminate |]. right. eapply IH. exact E.
    - destruct (push_sreg_lookup id (conj H0 G)) as [v E]. exists v. split; [exact E |]. apply in_or_app. left.
      unfold lookup in E. clear -E. revert id E. induction x86_opcode_push_sreg_table as [| x t IH]; intros id E; cbn [nthZ] in E; [discriminate |].
      destruct (id =? 0); [inversion E; left; reflexivity |]. destruct (id <? 0); [discriminate |]. right. eapply IH. exact E. }
  destruct L as [opc [E I]]. rewrite E. cbn [bind_l].
  pose proof sreg_opcode_mm_in_range as R. rewrite forallb_forall in R. specialize (R opc I).
  apply hit_some in R. destruct R as [v Ev]. rewrite Ev. cbn [bind_l]. discriminate.
Qed.

Theorem pushpop_never_stuck : forall x64 is_pop inst_id id, 0 <= id -> x86_pushpop_sreg x64 is_pop inst_id id <> MStuck.
Proof.
  intros. unfold x86_pushpop_sreg. destruct (validate_pushpop_sreg x64 inst_id id =? 0); [apply pushpop_encode_never_stuck; assumption | discriminate].
Qed.

(* ---------------------------------------------------------------- a64 load / store addressing *)
Lemma a64_ldst_rows_in_range :
  forallb (fun id => match a64_ldst_row_at id with RStuck => false | _ => true end) (upto (a64c_inst_id_count - 1)) = true.
Proof. vm_compute. reflexivity. Qed.

Lemma a64_shift_op_map_in_range : forallb (hit a64_shift_op_to_ld_st_opt_map) (upto a64c_mem_shift_op_max) = true.
Proof. vm_compute. reflexivity. Qed.

(* for EVERY instruction id (also ids beyond the table) every instruction-table read of the load / store path is in
   range: _inst_info_table[id], baseLdSt[..], _inst_info_table[u_alt_inst_id], baseRM_SImm9[..] *)
Theorem a64_ldst_row_never_stuck : forall inst_id, 0 <= inst_id -> a64_ldst_row inst_id <> RStuck.
Proof.
  intros id H0. unfold a64_ldst_row.
  assert (R : 0 <= a64_norm_id id <= a64c_inst_id_count - 1).
  { unfold a64_norm_id. destruct (a64c_inst_id_count <=? id) eqn:E; [vm_compute; split; discriminate |]. apply Z.leb_gt in E. lia. }
  pose proof a64_ldst_rows_in_range as A. rewrite forallb_forall in A. specialize (A _ (in_upto _ _ R)).
  destruct (a64_ldst_row_at (a64_norm_id id)); [discriminate | discriminate | discriminate A].
Qed.

Ltac a64_split := repeat match goal with
  | |- context [if ?c then _ else _] => destruct c
  end; try discriminate.

Lemma a64_emit_mem_base_not_stuck : forall m, a64_emit_mem_base m <> MStuck.
Proof. intros m. unfold a64_emit_mem_base. a64_split. Qed.

Lemma a64_ldur_not_stuck : forall r m, a64_ldur_encode r m <> MStuck.
Proof. intros r m. unfold a64_ldur_encode, a64_emit_mem_base. a64_split. Qed.

(* the whole path: whatever the operand fields hold (register types and ids, shift, offset mode, offset), no table is read
   out of bounds; the only hypothesis is the width of the shift-operation field *)
Theorem a64_ldst_never_stuck : forall inst_id m,
  0 <= inst_id -> 0 <= a_shiftop m <= a64c_mem_shift_op_max -> a64_ldst inst_id m <> MStuck.
Proof.
  intros inst_id m H0 Hs. unfold a64_ldst.
  pose proof (a64_ldst_row_never_stuck inst_id H0) as R.
  destruct (a64_ldst_row inst_id) as [r | |]; [| discriminate | contradiction].
  unfold a64_ldst_encode_row.
  pose proof a64_shift_op_map_in_range as A. rewrite forallb_forall in A. specialize (A _ (in_upto _ _ Hs)).
  apply hit_some in A. destruct A as [opt Eo]. rewrite Eo. cbn [bind_l].
  pose proof (a64_ldur_not_stuck r m) as L. pose proof (a64_emit_mem_base_not_stuck m) as B.
  unfold a64_emit_mem_base_index.
  repeat match goal with
  | |- context [if ?c then _ else _] => destruct c
  end; try discriminate; assumption.
Qed.

(* what an ACCEPTED load / store looks like: 4 bytes, no relocation, a 64-bit base register with a 5-bit id, a data
   register id below 31 or the zero register, and (register-index form) an index id below 31 or the zero register *)
Theorem a64_ldst_accepted_encodable : forall inst_id m n d,
  a64_ldst inst_id m = MOk n d ->
  n = 4 /\ d = 0 /\ a_btype m = a64c_reg_type_gp64 /\ a_bid m <= 31 /\
  (a_rid m < 31 \/ a_rid m = a64c_zr) /\ (a_itype m <> 0 -> a_iid m <= 30 \/ a_iid m = a64c_id_zr).
Proof.
  intros inst_id m n d H. unfold a64_ldst in H.
  destruct (a64_ldst_row inst_id) as [r | |]; [| discriminate | discriminate].
  unfold a64_ldst_encode_row in H.
  destruct (a64_gp_type_ok (l_allowed r) (a_rtype m)); cbn [negb] in H; [| discriminate].
  destruct (a64_check_gp_id (a_rid m) a64c_zr) eqn:G; cbn [negb] in H; [| discriminate].
  assert (GR : a_rid m < 31 \/ a_rid m = a64c_zr).
  { unfold a64_check_gp_id in G. apply orb_true_iff in G. destruct G as [G | G]; [left; apply Z.ltb_lt; exact G | right; apply Z.eqb_eq; exact G]. }
  destruct (a64_check_mem_base_index_rel m); cbn [negb] in H; [| discriminate].
  destruct (a64c_reg_type_label_tag <? a_btype m); [| destruct (l_literal r =? 0); discriminate].
  assert (BASE : forall n d, a64_emit_mem_base m = MOk n d -> n = 4 /\ d = 0 /\ a_btype m = a64c_reg_type_gp64 /\ a_bid m <= 31).
  { intros n0 d0 E. unfold a64_emit_mem_base in E. destruct (a64_check_mem_base m) eqn:C; [| discriminate].
    inversion E. unfold a64_check_mem_base in C. apply andb_true_iff in C. destruct C as [C1 C2].
    apply Z.eqb_eq in C1. apply Z.leb_le in C2. auto. }
  destruct (a_itype m =? 0) eqn:IT; cbn [negb] in H.
  - apply Z.eqb_eq in IT.
    assert (X : a64_emit_mem_base m = MOk n d).
    { destruct (is_int_n 32 (a_off m)); cbn [negb] in H; [| discriminate].
      destruct (a_mode m =? 0) eqn:MD; cbn [negb] in H.
      - match type of H with (if ?c then _ else _) = _ => destruct c end; [exact H |].
        unfold a64_ldur_encode in H. rewrite MD in H.
        repeat match type of H with (if ?c then _ else _) = _ => destruct c; try discriminate H end. exact H.
      - destruct (is_int_n 9 (a_off m)); cbn [negb] in H; [exact H | discriminate]. }
    destruct (BASE _ _ X) as [? [? [? ?]]]. repeat split; try assumption. intros NZ. contradiction.
  - destruct (lookup a64_shift_op_to_ld_st_opt_map (a_shiftop m)) as [opt |]; cbn [bind_l] in H; [| discriminate].
    repeat match type of H with (if ?c then _ else _) = _ => destruct c; try discriminate H end.
    unfold a64_emit_mem_base_index in H.
    destruct (a64_check_mem_base m) eqn:C; cbn [negb] in H; [| discriminate].
    destruct ((30 <? a_iid m) && negb (a_iid m =? a64c_id_zr)) eqn:I; [discriminate |].
    inversion H. unfold a64_check_mem_base in C. apply andb_true_iff in C. destruct C as [C1 C2].
    apply Z.eqb_eq in C1. apply Z.leb_le in C2.
    repeat split; try assumption. intros _.
    apply andb_false_iff in I. destruct I as [I | I].
    + left. apply Z.ltb_ge in I. exact I.
    + right. apply negb_false_iff in I. apply Z.eqb_eq in I. exact I.
Qed.

(* ---------------------------------------------------------------- x86 shift / rotate by immediate *)
Lemma x86_shift_rows_in_range :
  forallb (fun id => forallb (fun k => match x86_shift_row_at id k with ShStuck => false | _ => true end) (upto 15))
          (upto (x86c_inst_id_count - 1)) = true.
Proof. vm_compute. reflexivity. Qed.

Lemma land15_range : forall a, 0 <= Z.land a 15 <= 15.
Proof.
  intros a. change 15 with (Z.ones 4). rewrite Z.land_ones by lia.
  pose proof (Z.mod_pos_bound a (2 ^ 4) ltac:(lia)). change (2 ^ 4) with 16 in *. change (Z.ones 4) with 15. lia.
Qed.

(* for EVERY instruction id and EVERY operand size the five table reads of the path (_inst_info_table, main_opcode_table,
   opcode_pp_table, opcode_mm_table) are in range *)
Theorem shift_encode_never_stuck : forall x64 long inst_id f, 0 <= inst_id -> x86_shift_imm_encode x64 long inst_id f <> MStuck.
Proof.
  intros x64 long id f H0. unfold x86_shift_imm_encode.
  assert (R : 0 <= x86_norm_id id <= x86c_inst_id_count - 1).
  { unfold x86_norm_id. destruct (x86c_inst_id_count <=? id) eqn:E; [vm_compute; split; discriminate |]. apply Z.leb_gt in E. lia. }
  pose proof x86_shift_rows_in_range as A. rewrite forallb_forall in A. specialize (A _ (in_upto _ _ R)).
  rewrite forallb_forall in A. specialize (A _ (in_upto _ _ (land15_range (s_size f)))).
  destruct (x86_shift_row_at (x86_norm_id id) (Z.land (s_size f) 15)); [| discriminate | discriminate A].
  destruct (x86c_byte_invalid_rex <? _); discriminate.
Qed.

Theorem shift_never_stuck : forall x64 long inst_id f, 0 <= inst_id -> x86_shift_imm x64 long inst_id f <> MStuck.
Proof.
  intros. unfold x86_shift_imm. destruct (validate_shift_imm x64 long inst_id f =? 0); [apply shift_encode_never_stuck; assumption | discriminate].
Qed.


(* ---------------------------------------------------------------- EVEX / VEX + VSIB, two-operand form with a mask *)
Lemma cdisp8_lookup : forall tt w ll, exists v, lookup x86_cdisp8_shl_table (8 * (tt mod 4) + 4 * (w mod 2) + ll mod 4) = Some v.
Proof.
  intros tt w ll. apply lookup_in_len. replace (lenZ x86_cdisp8_shl_table) with 32 by (vm_compute; reflexivity).
  pose proof (Z.mod_pos_bound tt 4 ltac:(lia)). pose proof (Z.mod_pos_bound w 2 ltac:(lia)). pose proof (Z.mod_pos_bound ll 4 ltac:(lia)). lia.
Qed.

Lemma vgatherdps_alt_opcode :
  match lookup x86_inst_alt_idx x86c_vgatherdps_id with
  | Some ai => match lookup x86_alt_opcode_table ai with Some _ => true | None => false end
  | None => false
  end = true.
Proof. vm_compute. reflexivity. Qed.

(* the EVEX form reads two more tables (alt_opcode_table through the instruction row, cdisp8_shl_table[TT|W|LL]); with an
   index type the validator lets through no read leaves its table, whatever ids, mask id, sizes and offset are *)
Theorem vsib2_encode_never_stuck : forall x64 kid v,
  0 <= m_btype (v_mem v) <= x86c_mem_base_type_max -> 0 <= m_itype (v_mem v) <= x86c_mem_index_type_max ->
  0 <= m_seg (v_mem v) <= x86c_mem_segment_max -> 0 <= v_dsize v <= x86c_size_max ->
  index_type_allowed (m_itype (v_mem v)) ->
  x86_vgather2_encode x64 kid v <> MStuck.
Proof.
  intros x64 kid v Hb Hi Hs Hz Ha. unfold x86_vgather2_encode.
  destruct (mem_info_lookup _ _ Hb Hi) as [rmi E1]. rewrite E1. cbn [bind_l].
  destruct (segment_lookup _ Hs) as [sp E2]. rewrite E2. cbn [bind_l].
  destruct (ll_lookup_validated _ Hi Ha) as [lv E3]. rewrite E3. cbn [bind_l].
  destruct (ll_size_lookup _ Hz) as [ls E4]. rewrite E4. cbn [bind_l].
  pose proof vgatherdps_alt_opcode as A.
  destruct (lookup x86_inst_alt_idx x86c_vgatherdps_id) as [ai |]; [| discriminate A]. cbn [bind_l].
  destruct (lookup x86_alt_opcode_table ai) as [opc0 |]; [| discriminate A]. cbn [bind_l]. clear A.
  cbv zeta.
  match goal with |- context [lookup x86_cdisp8_shl_table (8 * (?tt mod 4) + 4 * (?w mod 2) + ?ll mod 4)] =>
    destruct (cdisp8_lookup tt w ll) as [cd E7]; rewrite E7 end.
  cbn [bind_l].
  repeat match goal with
  | |- (if ?c then _ else _) <> MStuck => destruct c
  | |- MOk _ _ <> MStuck => discriminate
  | |- MErr _ <> MStuck => discriminate
  | |- MUnsupported <> MStuck => discriminate
  end.
Qed.

Lemma validated2_index_allowed : forall x64 inst_id etype kid v,
  0 <= m_itype (v_mem v) -> validate_vgather2 x64 inst_id etype kid v = 0 -> index_type_allowed (m_itype (v_mem v)).
Proof.
  intros x64 inst_id etype kid v Hi H. unfold validate_vgather2 in H.
  assert (V : validate x86_vtables false x64 false
            {| vi_id := Z.to_N inst_id; vi_options := 0%N; vi_extra_type := Z.to_N etype; vi_extra_id := Z.to_N kid |}
            [OReg (Z.to_N (v_type v)) (Z.to_N (v_dst v));
             OMem (Z.to_N (m_size (v_mem v))) (Z.to_N (m_btype (v_mem v))) (Z.to_N (m_bid (v_mem v))) (Z.to_N (m_itype (v_mem v)))
                  (Z.to_N (m_iid (v_mem v))) (if m_btype (v_mem v) =? 0 then sext 64 (m_off (v_mem v)) else sext 32 (m_off (v_mem v)))
                  (Z.to_N (m_seg (v_mem v))) 0%N false] = E_Ok).
  { apply N2Z.inj. exact H. }
  apply validate_ok_inv in V. destruct V as [_ [iflags [avx [sidx [scnt [st [rest [_ [XL _]]]]]]]]].
  cbn [xlat_all] in XL.
  destruct (xlat_operand x86_vtables x64 false avx (OReg _ _)) as [e0 | x0 c0]; [discriminate XL |].
  destruct (xlat_operand x86_vtables x64 false avx (OMem _ _ _ _ _ _ _ _ _)) as [e1 | x1 c1] eqn:XM; [discriminate XL |].
  apply xlat_mem_index in XM. unfold index_type_allowed.
  destruct XM as [Z0 | TB].
  - left. apply (f_equal Z.of_N) in Z0. rewrite Z2N.id in Z0 by exact Hi. exact Z0.
  - right. rewrite <- (Z2N.id (m_itype (v_mem v))) by exact Hi.
    destruct x64; [right | left]; cbn [vt_vd64 vt_vd86 x86_vtables] in TB;
      [change x86c_allowed_mem_index_regs_x64 with (Z.of_N (vd_index_regs x86_vd1)) | change x86c_allowed_mem_index_regs_x86 with (Z.of_N (vd_index_regs x86_vd0))];
      rewrite Z.testbit_of_N; exact TB.
Qed.

(* the EVEX / VEX + VSIB path of a VALIDATED two-operand gather never reads a table out of bounds — for every destination,
   index and mask id, vector width and offset *)
Theorem vsib2_path_never_stuck : forall x64 inst_id etype kid v,
  0 <= m_btype (v_mem v) <= x86c_mem_base_type_max -> 0 <= m_itype (v_mem v) <= x86c_mem_index_type_max ->
  0 <= m_seg (v_mem v) <= x86c_mem_segment_max -> 0 <= v_dsize v <= x86c_size_max ->
  x86_vgather2 x64 inst_id etype kid v <> MStuck.
Proof.
  intros x64 inst_id etype kid v Hb Hi Hs Hz. unfold x86_vgather2.
  destruct (negb (inst_id =? x86c_vgatherdps_id)); [discriminate |].
  destruct (validate_vgather2 x64 inst_id etype kid v =? 0) eqn:V; [| discriminate].
  apply vsib2_encode_never_stuck; try assumption.
  apply Z.eqb_eq in V. eapply validated2_index_allowed; [lia | exact V].
Qed.

(* C14 — proofs about the memory-operand path model (coq/gen/C14MemPathModel.v) over the generated tables. *)
From Coq Require Import ZArith NArith List Bool Lia.
From Verif Require Import EmitState.EmitStateModel EmitState.EmitStateProofs EmitState.LookupModel EmitState.LookupProofs.
From VerifGen Require Import C14Tables C14TableProofs C14MemPathModel.
Import ListNotations.
Local Open Scope Z_scope.

Lemma land7_range : forall a, 0 <= Z.land a 7 <= 7.
Proof.
  intros a. change 7 with (Z.ones 3). rewrite Z.land_ones by lia.
  pose proof (Z.mod_pos_bound a (2 ^ 3) ltac:(lia)). change (2 ^ 3) with 8 in *. change (Z.ones 3) with 7. lia.
Qed.

Lemma lookup_in_len : forall t i, 0 <= i < lenZ t -> exists v, lookup t i = Some v.
Proof. intros t i H. unfold lookup. apply nthZ_some_iff. exact H. Qed.

Lemma mod16_bi_lookup : forall rb rx, exists v, lookup x86_mod16_base_index_table (mod16_index rb rx) = Some v.
Proof.
  intros rb rx. apply lookup_in_len. replace (lenZ x86_mod16_base_index_table) with 64 by (vm_compute; reflexivity).
  unfold mod16_index. rewrite Z.shiftl_mul_pow2 by lia. change (2 ^ 3) with 8.
  pose proof (land7_range rb). pose proof (land7_range rx). lia.
Qed.

Lemma mod16_b_lookup : forall r, exists v, lookup x86_mod16_base_table (Z.land r 7) = Some v.
Proof.
  intros r. apply lookup_in_len. replace (lenZ x86_mod16_base_table) with 8 by (vm_compute; reflexivity).
  pose proof (land7_range r). lia.
Qed.

(* the encoder path never reads a table out of bounds, for EVERY value of the operand fields the signature can carry
   (5-bit base/index types, 3-bit segment; ids, shift, offset arbitrary) — in both modes, validated or not *)
Theorem mem_encode_never_stuck : forall x64 absloc cur m,
  0 <= m_btype m <= x86c_mem_base_type_max -> 0 <= m_itype m <= x86c_mem_index_type_max -> 0 <= m_seg m <= x86c_mem_segment_max ->
  x86_add_mem_encode x64 absloc cur m <> MStuck.
Proof.
  intros x64 absloc cur m Hb Hi Hs. unfold x86_add_mem_encode.
  destruct (mem_info_lookup (m_btype m) (m_itype m) Hb Hi) as [rmi E1]. rewrite E1. cbn [bind_l].
  destruct (segment_lookup (m_seg m) Hs) as [sp E2]. rewrite E2. cbn [bind_l].
  set (rex1 := Z.lor _ (if x64 then 0 else 128)).
  destruct (128 <? rex1); [discriminate |].
  set (after := fun md : Z => _).
  assert (A : forall md, after md <> MStuck).
  { intros md. unfold after. destruct (md =? 255); [discriminate |].
    destruct (_ && _); [discriminate |]. destruct (is_int8 _); discriminate. }
  repeat match goal with
  | |- (if ?c then _ else _) <> MStuck => destruct c
  | |- MOk _ _ <> MStuck => discriminate
  | |- MErr _ <> MStuck => discriminate
  | |- MUnsupported <> MStuck => discriminate
  end.
  all: first
    [ destruct (mod16_bi_lookup (Z.land (m_bid m) 7) (Z.land (m_iid m) 7)) as [v E]; rewrite E; cbn [bind_l]; apply A
    | destruct (negb (Z.land rmi 2 =? 0));
        [ destruct (mod16_b_lookup (m_iid m)) as [v E]; rewrite E; cbn [bind_l]; apply A
        | destruct (mod16_b_lookup (m_bid m)) as [v E]; rewrite E; cbn [bind_l]; apply A ] ].
Qed.

Theorem mem_path_never_stuck : forall x64 absloc cur add_id m,
  0 <= m_btype m <= x86c_mem_base_type_max -> 0 <= m_itype m <= x86c_mem_index_type_max -> 0 <= m_seg m <= x86c_mem_segment_max ->
  x86_add_mem x64 absloc cur add_id m <> MStuck.
Proof.
  intros x64 absloc cur add_id m Hb Hi Hs. unfold x86_add_mem.
  destruct (validate_add_mem x64 add_id m =? 0); [apply mem_encode_never_stuck; assumption | discriminate].
Qed.

(* a refusal carries a real error code, so the verdict is a well-formed input of the emit transaction and the general
   theorems (no effect, state cleared, reported once, fresh-equivalent) apply to these instructions *)
Theorem mem_cmd_wf : forall a hb s add_id m c, mem_cmd a hb s add_id m = Some c -> wf_cmd c.
Proof.
  intros a hb s add_id m c H. unfold mem_cmd in H.
  destruct (x86_add_mem _ _ _ add_id m) as [n dr | e | |] eqn:R; inversion H; subst; cbn; [exact I |].
  unfold x86_add_mem in R.
  destruct (validate_add_mem _ add_id m =? 0) eqn:V.
  - unfold x86_add_mem_encode, bind_l in R.
    repeat match type of R with
    | (match ?o with Some _ => _ | None => _ end) = _ => destruct o; [| discriminate R]
    | (if ?c then _ else _) = _ => destruct c
    | (let _ := _ in _) = _ => cbv zeta in R
    end; try discriminate R; inversion R; subst; vm_compute; discriminate.
  - inversion R; subst. apply Z.eqb_neq. exact V.
Qed.

(* an accepted form appends bytes and creates at most one relocation entry (the RIP-relative form of a base-less
   64-bit address when the code has no base address yet); never a fixup, an address-table entry or a section *)
Lemma mem_relocs_01 : forall x64 absloc cur add_id m n dr, x86_add_mem x64 absloc cur add_id m = MOk n dr -> 0 <= dr <= 1.
Proof.
  intros x64 absloc cur add_id m n dr H. unfold x86_add_mem in H.
  destruct (validate_add_mem x64 add_id m =? 0); [| discriminate H].
  unfold x86_add_mem_encode, bind_l in H.
  repeat match type of H with
  | (match ?o with Some _ => _ | None => _ end) = _ => destruct o; [| discriminate H]
  | (if ?c then _ else _) = _ => destruct c
  | (let _ := _ in _) = _ => cbv zeta in H
  end; try discriminate H; inversion H; lia.
Qed.

Theorem mem_cmd_bytes_only : forall a hb s add_id m c, mem_cmd a hb s add_id m = Some c ->
  exists r, c = CInst r /\ match r with EncOk _ fx _ dr da ds => fx = None /\ 0 <= dr <= 1 /\ da = 0 /\ ds = 0 | EncErr _ => True end.
Proof.
  intros a hb s add_id m c H. unfold mem_cmd in H.
  destruct (x86_add_mem _ _ _ add_id m) eqn:R; inversion H; subst; eexists; (split; [reflexivity |]); cbn; auto.
  split; [reflexivity |]. split; [eapply mem_relocs_01; eassumption | auto].
Qed.

Example mem_path_examples :
  x86_add_mem_encode true false 0 (mkMem 0 6 0 0 0 0 0 0 4 0) = MOk 2 0 /\        (* add eax, [rax]            *)
  x86_add_mem_encode true false 0 (mkMem 9 6 12 6 13 2 5 0 4 8) = MOk 6 0 /\      (* add r9d, fs:[r12+r13*4+8] *)
  x86_add_mem_encode false false 0 (mkMem 1 4 3 4 6 0 0 0 4 0) = MOk 3 0 /\        (* add ecx, [bx+si]          *)
  x86_add_mem_encode false false 0 (mkMem 1 4 0 0 0 0 0 0 4 0) = MErr kInvalidAddress /\   (* [ax]            *)
  x86_add_mem_encode false false 0 (mkMem 1 5 9 0 0 0 0 0 4 0) = MErr kInvalidRexPrefix /\ (* [r9d] in 32-bit *)
  x86_add_mem_encode true false 0 (mkMem 1 6 0 6 4 0 0 0 4 0) = MErr kInvalidAddressIndex /\
  x86_add_mem_encode true false 16 (mkMem 0 0 0 0 0 0 0 0 4 4096) = MOk 6 1 /\          (* add eax, [0x1000]: RIP-relative + relocation *)
  x86_add_mem_encode true true 16 (mkMem 0 0 0 0 0 0 0 0 4 4294967295) = MOk 8 0 /\     (* add eax, [0xFFFFFFFF]: 67h + SIB absolute *)
  x86_add_mem_encode true true 16 (mkMem 0 0 0 0 0 0 0 0 4 1099511627776) = MErr kInvalidAddress64Bit.   (* 2^40 with a known base: neither RIP-relative nor 32-bit absolute reaches it *)
Proof. vm_compute. repeat split; reflexivity. Qed.

(* ---------------------------------------------------------------- VEX + VSIB path *)
Lemma ll_size_lookup : forall sz, 0 <= sz <= x86c_size_max -> exists v, lookup x86_ll_by_size_div_16_table (sz / 16) = Some v.
Proof.
  intros sz H. apply lookup_in_len. replace (lenZ x86_ll_by_size_div_16_table) with 16 by (vm_compute; reflexivity).
  unfold x86c_size_max in H. split; [apply Z.div_pos; lia | apply Z.div_lt_upper_bound; lia].
Qed.

(* with an index type the validator admits, the VEX/VSIB path reads mem_info_table, segment_prefix_table,
   ll_by_reg_type_table and ll_by_size_div_16_table in range — for every base type, segment, size field, id, offset *)
Theorem vsib_encode_never_stuck : forall x64 v,
  0 <= m_btype (v_mem v) <= x86c_mem_base_type_max -> 0 <= m_itype (v_mem v) <= x86c_mem_index_type_max ->
  0 <= m_seg (v_mem v) <= x86c_mem_segment_max -> 0 <= v_dsize v <= x86c_size_max ->
  index_type_allowed (m_itype (v_mem v)) ->
  x86_vgather_encode x64 v <> MStuck.
Proof.
  intros x64 v Hb Hi Hs Hz Ha. unfold x86_vgather_encode.
  destruct (mem_info_lookup _ _ Hb Hi) as [rmi E1]. rewrite E1. cbn [bind_l].
  destruct (segment_lookup _ Hs) as [sp E2]. rewrite E2. cbn [bind_l].
  destruct (ll_lookup_validated _ Hi Ha) as [lv E3]. rewrite E3. cbn [bind_l].
  destruct (ll_size_lookup _ Hz) as [ls E4]. rewrite E4. cbn [bind_l].
  repeat match goal with
  | |- (if ?c then _ else _) <> MStuck => destruct c
  | |- MOk _ _ <> MStuck => discriminate
  | |- MErr _ <> MStuck => discriminate
  | |- MUnsupported <> MStuck => discriminate
  end.
Qed.

(* ... and without that hypothesis the ll_by_reg_type_table read can leave the table: index type 16 (kMask) *)
Theorem vsib_unvalidated_refuted : exists x64 v,
  0 <= m_itype (v_mem v) <= x86c_mem_index_type_max /\ x86_vgather_encode x64 v = MStuck.
Proof. exists true, (mkVsib 11 0 1 16 (mkMem 0 6 0 16 1 0 0 0 0 0)). split; [vm_compute; split; discriminate | reflexivity]. Qed.

Theorem vsib_cmd_wf : forall a inst_id v c, vsib_cmd a inst_id v = Some c -> wf_cmd c.
Proof.
  intros a inst_id v c H. unfold vsib_cmd in H.
  destruct (x86_vgather _ inst_id v) as [n dr | e | |] eqn:R; inversion H; subst; cbn; [exact I |].
  unfold x86_vgather in R.
  destruct (validate_vgather _ inst_id v =? 0) eqn:V.
  - unfold x86_vgather_encode, bind_l in R.
    repeat match type of R with
    | (match ?o with Some _ => _ | None => _ end) = _ => destruct o; [| discriminate R]
    | (if ?c then _ else _) = _ => destruct c
    | (let _ := _ in _) = _ => cbv zeta in R
    end; try discriminate R; inversion R; subst; vm_compute; discriminate.
  - inversion R; subst. apply Z.eqb_neq. exact V.
Qed.

(* ---------------------------------------------------------------- the validator hypothesis is discharged through C13's model:
   validate = kOk  ==>  the index type of the memory operand is admitted  ==>  the ll_by_reg_type_table read is in range *)
From Verif Require Import X86Validate.ValidateModel X86Validate.ValidateProofs.
From VerifGen Require Import X86Sigs.

Lemma xlat_mem_index : forall T x64 avx size bt bid it iid off seg bcst home x c,
  xlat_operand T x64 false avx (OMem size bt bid it iid off seg bcst home) = XOk x c ->
  it = 0%N \/ N.testbit (vd_index_regs (if x64 then vt_vd64 T else vt_vd86 T)) it = true.
Proof.
  intros T x64 avx size bt bid it iid off seg bcst home x c H.
  destruct (N.eqb it 0) eqn:E0; [left; apply N.eqb_eq; exact E0 |].
  destruct (N.testbit (vd_index_regs (if x64 then vt_vd64 T else vt_vd86 T)) it) eqn:ET; [right; reflexivity |].
  exfalso. cbn [xlat_operand] in H. rewrite E0, ET in H. cbn [negb] in H.
  repeat match type of H with
  | (if ?c then _ else _) = _ => destruct c
  | (match (if ?c then _ else _) with _ => _ end) = _ => destruct c
  | (match ?r with XErr _ => _ | XOk _ _ => _ end) = _ => destruct r
  end; try discriminate H.
Qed.

Lemma validated_index_allowed : forall x64 inst_id v,
  0 <= m_itype (v_mem v) -> validate_vgather x64 inst_id v = 0 -> index_type_allowed (m_itype (v_mem v)).
Proof.
  intros x64 inst_id v Hi H. unfold validate_vgather in H.
  assert (V : validate x86_vtables false x64 false
            {| vi_id := Z.to_N inst_id; vi_options := 0%N; vi_extra_type := 0%N; vi_extra_id := 0%N |}
            [OReg (Z.to_N (v_type v)) (Z.to_N (v_dst v));
             OMem (Z.to_N (m_size (v_mem v))) (Z.to_N (m_btype (v_mem v))) (Z.to_N (m_bid (v_mem v))) (Z.to_N (m_itype (v_mem v)))
                  (Z.to_N (m_iid (v_mem v))) (if m_btype (v_mem v) =? 0 then sext 64 (m_off (v_mem v)) else sext 32 (m_off (v_mem v)))
                  (Z.to_N (m_seg (v_mem v))) 0%N false;
             OReg (Z.to_N (v_type v)) (Z.to_N (v_mask v))] = E_Ok).
  { apply N2Z.inj. exact H. }
  apply validate_ok_inv in V. destruct V as [_ [iflags [avx [sidx [scnt [st [rest [_ [XL _]]]]]]]]].
  cbn [xlat_all] in XL.
  destruct (xlat_operand x86_vtables x64 false avx (OReg _ _)) as [e0 | x0 c0]; [discriminate XL |].
  destruct (xlat_operand x86_vtables x64 false avx (OMem _ _ _ _ _ _ _ _ _)) as [e1 | x1 c1] eqn:XM; [discriminate XL |].
  apply xlat_mem_index in XM. unfold index_type_allowed.
  destruct XM as [Z0 | TB].
  - left. apply (f_equal Z.of_N) in Z0. rewrite Z2N.id in Z0 by exact Hi. exact Z0.
  - right. rewrite <- (Z2N.id (m_itype (v_mem v))) by exact Hi.
    destruct x64; [right | left]; cbn [vt_vd64 vt_vd86 x86_vtables] in TB;
      [change x86c_allowed_mem_index_regs_x64 with (Z.of_N (vd_index_regs x86_vd1)) | change x86c_allowed_mem_index_regs_x86 with (Z.of_N (vd_index_regs x86_vd0))];
      rewrite Z.testbit_of_N; exact TB.
Qed.

(* the VEX + VSIB path of a VALIDATED instruction never reads a table out of bounds — no hypothesis about the index type *)
Theorem vsib_path_never_stuck : forall x64 inst_id v,
  0 <= m_btype (v_mem v) <= x86c_mem_base_type_max -> 0 <= m_itype (v_mem v) <= x86c_mem_index_type_max ->
  0 <= m_seg (v_mem v) <= x86c_mem_segment_max -> 0 <= v_dsize v <= x86c_size_max ->
  x86_vgather x64 inst_id v <> MStuck.
Proof.
  intros x64 inst_id v Hb Hi Hs Hz. unfold x86_vgather.
  destruct (validate_vgather x64 inst_id v =? 0) eqn:V; [| discriminate].
  apply vsib_encode_never_stuck; try assumption.
  apply Z.eqb_eq in V. eapply validated_index_allowed; [lia | exact V].
Qed.

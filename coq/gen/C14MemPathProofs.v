(* C14 — proofs about the memory-operand path model (coq/gen/C14MemPathModel.v) over the generated tables. *)
From Coq Require Import ZArith NArith List Bool Lia.
From Verif Require Import EmitState.EmitStateModel EmitState.EmitStateProofs EmitState.LookupModel EmitState.LookupProofs.
From VerifGen Require Import C14Tables C14TableProofs C14MemPathModel.
Import ListNotations.
Local Open Scope Z_scope.

Lemma land7_range : forall a, 0 <= Z.land a 7 <= 7.
Proof.
  intros a. change 7 with (Z.ones 3). rewrite Z.land_ones by lia.
  pose proof (Z.mod_pos_bound a (2 ^ 3) ltac:(lia)). change (2 ^ 3) with 8 in *. change (Z.ones 3) with 7. lia.
Qed.

Lemma lookup_in_len : forall t i, 0 <= i < lenZ t -> exists v, lookup t i = Some v.
Proof. intros t i H. unfold lookup. apply nthZ_some_iff. exact H. Qed.

Lemma mod16_bi_lookup : forall rb rx, exists v, lookup x86_mod16_base_index_table (mod16_index rb rx) = Some v.
Proof.
  intros rb rx. apply lookup_in_len. replace (lenZ x86_mod16_base_index_table) with 64 by (vm_compute; reflexivity).
  unfold mod16_index. rewrite Z.shiftl_mul_pow2 by lia. change (2 ^ 3) with 8.
  pose proof (land7_range rb). pose proof (land7_range rx). lia.
Qed.

Lemma mod16_b_lookup : forall r, exists v, lookup x86_mod16_base_table (Z.land r 7) = Some v.
Proof.
  intros r. apply lookup_in_len. replace (lenZ x86_mod16_base_table) with 8 by (vm_compute; reflexivity).
  pose proof (land7_range r). lia.
Qed.

(* the encoder path never reads a table out of bounds, for EVERY value of the operand fields the signature can carry
   (5-bit base/index types, 3-bit segment; ids, shift, offset arbitrary) — in both modes, validated or not *)
Theorem mem_encode_never_stuck : forall x64 m,
  0 <= m_btype m <= x86c_mem_base_type_max -> 0 <= m_itype m <= x86c_mem_index_type_max -> 0 <= m_seg m <= x86c_mem_segment_max ->
  x86_add_mem_encode x64 m <> MStuck.
Proof.
  intros x64 m Hb Hi Hs. unfold x86_add_mem_encode.
  destruct (mem_info_lookup (m_btype m) (m_itype m) Hb Hi) as [rmi E1]. rewrite E1. cbn [bind_l].
  destruct (segment_lookup (m_seg m) Hs) as [sp E2]. rewrite E2. cbn [bind_l].
  set (rex1 := Z.lor _ (if x64 then 0 else 128)).
  destruct (128 <? rex1); [discriminate |].
  set (after := fun md : Z => _).
  assert (A : forall md, after md <> MStuck).
  { intros md. unfold after. destruct (md =? 255); [discriminate |].
    destruct (_ && _); [discriminate |]. destruct (is_int8 _); discriminate. }
  repeat match goal with
  | |- (if ?c then _ else _) <> MStuck => destruct c
  | |- MOk _ <> MStuck => discriminate
  | |- MErr _ <> MStuck => discriminate
  | |- MUnsupported <> MStuck => discriminate
  end.
  all: first
    [ destruct (mod16_bi_lookup (Z.land (m_bid m) 7) (Z.land (m_iid m) 7)) as [v E]; rewrite E; cbn [bind_l]; apply A
    | destruct (negb (Z.land rmi 2 =? 0));
        [ destruct (mod16_b_lookup (m_iid m)) as [v E]; rewrite E; cbn [bind_l]; apply A
        | destruct (mod16_b_lookup (m_bid m)) as [v E]; rewrite E; cbn [bind_l]; apply A ] ].
Qed.

Theorem mem_path_never_stuck : forall x64 add_id m,
  0 <= m_btype m <= x86c_mem_base_type_max -> 0 <= m_itype m <= x86c_mem_index_type_max -> 0 <= m_seg m <= x86c_mem_segment_max ->
  x86_add_mem x64 add_id m <> MStuck.
Proof.
  intros x64 add_id m Hb Hi Hs. unfold x86_add_mem.
  destruct (validate_add_mem x64 add_id m =? 0); [apply mem_encode_never_stuck; assumption | discriminate].
Qed.

(* a refusal carries a real error code, so the verdict is a well-formed input of the emit transaction and the general
   theorems (no effect, state cleared, reported once, fresh-equivalent) apply to these instructions *)
Theorem mem_cmd_wf : forall a add_id m c, mem_cmd a add_id m = Some c -> wf_cmd c.
Proof.
  intros a add_id m c H. unfold mem_cmd in H.
  destruct (x86_add_mem _ add_id m) as [n | e | |] eqn:R; inversion H; subst; cbn; [exact I |].
  unfold x86_add_mem in R.
  destruct (validate_add_mem _ add_id m =? 0) eqn:V.
  - unfold x86_add_mem_encode, bind_l in R.
    repeat match type of R with
    | (match ?o with Some _ => _ | None => _ end) = _ => destruct o; [| discriminate R]
    | (if ?c then _ else _) = _ => destruct c
    | (let _ := _ in _) = _ => cbv zeta in R
    end; try discriminate R; inversion R; subst; vm_compute; discriminate.
  - inversion R; subst. apply Z.eqb_neq. exact V.
Qed.

(* the instruction has no persistent side effect at all: an accepted form only appends bytes *)
Theorem mem_cmd_bytes_only : forall a add_id m c, mem_cmd a add_id m = Some c ->
  exists r, c = CInst r /\ match r with EncOk _ fx _ dr da ds => fx = None /\ dr = 0 /\ da = 0 /\ ds = 0 | EncErr _ => True end.
Proof.
  intros a add_id m c H. unfold mem_cmd in H.
  destruct (x86_add_mem _ add_id m); inversion H; subst; eexists; split; try reflexivity; cbn; auto.
Qed.

Example mem_path_examples :
  x86_add_mem_encode true  (mkMem 0 6 0 0 0 0 0 0 4 0) = MOk 2 /\        (* add eax, [rax]            *)
  x86_add_mem_encode true  (mkMem 9 6 12 6 13 2 5 0 4 8) = MOk 6 /\      (* add r9d, fs:[r12+r13*4+8] *)
  x86_add_mem_encode false (mkMem 1 4 3 4 6 0 0 0 4 0) = MOk 3 /\        (* add ecx, [bx+si]          *)
  x86_add_mem_encode false (mkMem 1 4 0 0 0 0 0 0 4 0) = MErr kInvalidAddress /\   (* [ax]            *)
  x86_add_mem_encode false (mkMem 1 5 9 0 0 0 0 0 4 0) = MErr kInvalidRexPrefix /\ (* [r9d] in 32-bit *)
  x86_add_mem_encode true  (mkMem 1 6 0 6 4 0 0 0 4 0) = MErr kInvalidAddressIndex.
Proof. vm_compute. repeat split; reflexivity. Qed.

(* C14 — proofs about the memory-operand path model (coq/gen/C14MemPathModel.v) over the generated tables. *)
From Coq Require Import ZArith NArith List Bool Lia.
From Verif Require Import EmitState.EmitStateModel EmitState.EmitStateProofs EmitState.LookupModel EmitState.LookupProofs EmitState.EncPathModel.
From VerifGen Require Import C14Tables C14TableProofs C14MemPathModel.
Import ListNotations.
Local Open Scope Z_scope.

Lemma land7_range : forall a, 0 <= Z.land a 7 <= 7.
Proof.
  intros a. change 7 with (Z.ones 3). rewrite Z.land_ones by lia.
  pose proof (Z.mod_pos_bound a (2 ^ 3) ltac:(lia)). change (2 ^ 3) with 8 in *. change (Z.ones 3) with 7. lia.
Qed.

Lemma lookup_in_len : forall t i, 0 <= i < lenZ t -> exists v, lookup t i = Some v.
Proof. intros t i H. unfold lookup. apply nthZ_some_iff. exact H. Qed.

Lemma mod16_bi_lookup : forall rb rx, exists v, lookup x86_mod16_base_index_table (mod16_index rb rx) = Some v.
Proof.
  intros rb rx. apply lookup_in_len. replace (lenZ x86_mod16_base_index_table) with 64 by (vm_compute; reflexivity).
  unfold mod16_index. rewrite Z.shiftl_mul_pow2 by lia. change (2 ^ 3) with 8.
  pose proof (land7_range rb). pose proof (land7_range rx). lia.
Qed.

Lemma mod16_b_lookup : forall r, exists v, lookup x86_mod16_base_table (Z.land r 7) = Some v.
Proof.
  intros r. apply lookup_in_len. replace (lenZ x86_mod16_base_table) with 8 by (vm_compute; reflexivity).
  pose proof (land7_range r). lia.
Qed.

(* the encoder path never reads a table out of bounds, for EVERY value of the operand fields the signature can carry
   (5-bit base/index types, 3-bit segment; ids, shift, offset arbitrary) — in both modes, validated or not *)
Theorem modrm_encode_never_stuck : forall x64 absloc cur npp rexop m,
  0 <= m_btype m <= x86c_mem_base_type_max -> 0 <= m_itype m <= x86c_mem_index_type_max -> 0 <= m_seg m <= x86c_mem_segment_max ->
  x86_modrm_mem_encode x64 absloc cur npp rexop m <> MStuck.
Proof.
  intros x64 absloc cur npp rexop m Hb Hi Hs. unfold x86_modrm_mem_encode.
  destruct (mem_info_lookup (m_btype m) (m_itype m) Hb Hi) as [rmi E1]. rewrite E1. cbn [bind_l].
  destruct (segment_lookup (m_seg m) Hs) as [sp E2]. rewrite E2. cbn [bind_l].
  set (rex1 := Z.lor _ (if x64 then 0 else 128)).
  destruct (128 <? rex1); [discriminate |].
  set (after := fun md : Z => _).
  assert (A : forall md, after md <> MStuck).
  { intros md. unfold after. destruct (md =? 255); [discriminate |].
    destruct (_ && _); [discriminate |]. destruct (is_int8 _); discriminate. }
  repeat match goal with
  | |- (if ?c then _ else _) <> MStuck => destruct c
  | |- MOk _ _ <> MStuck => discriminate
  | |- MErr _ <> MStuck => discriminate
  | |- MUnsupported <> MStuck => discriminate
  end.
  all: first
    [ destruct (mod16_bi_lookup (Z.land (m_bid m) 7) (Z.land (m_iid m) 7)) as [v E]; rewrite E; cbn [bind_l]; apply A
    | destruct (negb (Z.land rmi 2 =? 0));
        [ destruct (mod16_b_lookup (m_iid m)) as [v E]; rewrite E; cbn [bind_l]; apply A
        | destruct (mod16_b_lookup (m_bid m)) as [v E]; rewrite E; cbn [bind_l]; apply A ] ].
Qed.

Theorem mem_encode_never_stuck : forall x64 absloc cur m,
  0 <= m_btype m <= x86c_mem_base_type_max -> 0 <= m_itype m <= x86c_mem_index_type_max -> 0 <= m_seg m <= x86c_mem_segment_max ->
  x86_add_mem_encode x64 absloc cur m <> MStuck.
Proof. intros. unfold x86_add_mem_encode. apply modrm_encode_never_stuck; assumption. Qed.

Theorem mem_path_never_stuck : forall x64 absloc cur add_id m,
  0 <= m_btype m <= x86c_mem_base_type_max -> 0 <= m_itype m <= x86c_mem_index_type_max -> 0 <= m_seg m <= x86c_mem_segment_max ->
  x86_add_mem x64 absloc cur add_id m <> MStuck.
Proof.
  intros x64 absloc cur add_id m Hb Hi Hs. unfold x86_add_mem.
  destruct (validate_add_mem x64 add_id m =? 0); [apply mem_encode_never_stuck; assumption | discriminate].
Qed.

(* a refusal carries a real error code, so the verdict is a well-formed input of the emit transaction and the general
   theorems (no effect, state cleared, reported once, fresh-equivalent) apply to these instructions *)
Theorem mem_cmd_wf : forall a hb s add_id m c, mem_cmd a hb s add_id m = Some c -> wf_cmd c.
Proof.
  intros a hb s add_id m c H. unfold mem_cmd in H.
  destruct (x86_add_mem _ _ _ add_id m) as [n dr | e | |] eqn:R; inversion H; subst; cbn; [exact I |].
  unfold x86_add_mem in R.
  destruct (validate_add_mem _ add_id m =? 0) eqn:V.
  - unfold x86_add_mem_encode, x86_modrm_mem_encode, bind_l in R.
    repeat match type of R with
    | (match ?o with Some _ => _ | None => _ end) = _ => destruct o; [| discriminate R]
    | (if ?c then _ else _) = _ => destruct c
    | (let _ := _ in _) = _ => cbv zeta in R
    end; try discriminate R; inversion R; subst; vm_compute; discriminate.
  - inversion R; subst. apply Z.eqb_neq. exact V.
Qed.

(* an accepted form appends bytes and creates at most one relocation entry (the RIP-relative form of a base-less
   64-bit address when the code has no base address yet); never a fixup, an address-table entry or a section *)
Lemma mem_relocs_01 : forall x64 absloc cur add_id m n dr, x86_add_mem x64 absloc cur add_id m = MOk n dr -> 0 <= dr <= 1.
Proof.
  intros x64 absloc cur add_id m n dr H. unfold x86_add_mem in H.
  destruct (validate_add_mem x64 add_id m =? 0); [| discriminate H].
  unfold x86_add_mem_encode, x86_modrm_mem_encode, bind_l in H.
  repeat match type of H with
  | (match ?o with Some _ => _ | None => _ end) = _ => destruct o; [| discriminate H]
  | (if ?c then _ else _) = _ => destruct c
  | (let _ := _ in _) = _ => cbv zeta in H
  end; try discriminate H; inversion H; lia.
Qed.

Theorem mem_cmd_bytes_only : forall a hb s add_id m c, mem_cmd a hb s add_id m = Some c ->
  exists r, c = CInst r /\ match r with EncOk _ fx _ dr da ds => fx = None /\ 0 <= dr <= 1 /\ da = 0 /\ ds = 0 | EncErr _ => True end.
Proof.
  intros a hb s add_id m c H. unfold mem_cmd in H.
  destruct (x86_add_mem _ _ _ add_id m) eqn:R; inversion H; subst; eexists; (split; [reflexivity |]); cbn; auto.
  split; [reflexivity |]. split; [eapply mem_relocs_01; eassumption | auto].
Qed.

Example mem_path_examples :
  x86_add_mem_encode true false 0 (mkMem 0 6 0 0 0 0 0 0 4 0) = MOk 2 0 /\        (* add eax, [rax]            *)
  x86_add_mem_encode true false 0 (mkMem 9 6 12 6 13 2 5 0 4 8) = MOk 6 0 /\      (* add r9d, fs:[r12+r13*4+8] *)
  x86_add_mem_encode false false 0 (mkMem 1 4 3 4 6 0 0 0 4 0) = MOk 3 0 /\        (* add ecx, [bx+si]          *)
  x86_add_mem_encode false false 0 (mkMem 1 4 0 0 0 0 0 0 4 0) = MErr kInvalidAddress /\   (* [ax]            *)
  x86_add_mem_encode false false 0 (mkMem 1 5 9 0 0 0 0 0 4 0) = MErr kInvalidRexPrefix /\ (* [r9d] in 32-bit *)
  x86_add_mem_encode true false 0 (mkMem 1 6 0 6 4 0 0 0 4 0) = MErr kInvalidAddressIndex /\
  x86_add_mem_encode true false 16 (mkMem 0 0 0 0 0 0 0 0 4 4096) = MOk 6 1 /\          (* add eax, [0x1000]: RIP-relative + relocation *)
  x86_add_mem_encode true true 16 (mkMem 0 0 0 0 0 0 0 0 4 4294967295) = MOk 8 0 /\     (* add eax, [0xFFFFFFFF]: 67h + SIB absolute *)
  x86_add_mem_encode true true 16 (mkMem 0 0 0 0 0 0 0 0 4 1099511627776) = MErr kInvalidAddress64Bit.   (* 2^40 with a known base: neither RIP-relative nor 32-bit absolute reaches it *)
Proof. vm_compute. repeat split; reflexivity. Qed.

(* ---------------------------------------------------------------- VEX + VSIB path *)
Lemma ll_size_lookup : forall sz, 0 <= sz <= x86c_size_max -> exists v, lookup x86_ll_by_size_div_16_table (sz / 16) = Some v.
Proof.
  intros sz H. apply lookup_in_len. replace (lenZ x86_ll_by_size_div_16_table) with 16 by (vm_compute; reflexivity).
  unfold x86c_size_max in H. split; [apply Z.div_pos; lia | apply Z.div_lt_upper_bound; lia].
Qed.

(* with an index type the validator lets through, the VEX/VSIB path reads mem_info_table, segment_prefix_table,
   ll_by_reg_type_table and ll_by_size_div_16_table in range — for every base type, segment, size field, id, offset *)
Theorem vsib_encode_never_stuck : forall x64 v,
  0 <= m_btype (v_mem v) <= x86c_mem_base_type_max -> 0 <= m_itype (v_mem v) <= x86c_mem_index_type_max ->
  0 <= m_seg (v_mem v) <= x86c_mem_segment_max -> 0 <= v_dsize v <= x86c_size_max ->
  index_type_allowed (m_itype (v_mem v)) ->
  x86_vgather_encode x64 v <> MStuck.
Proof.
  intros x64 v Hb Hi Hs Hz Ha. unfold x86_vgather_encode.
  destruct (mem_info_lookup _ _ Hb Hi) as [rmi E1]. rewrite E1. cbn [bind_l].
  destruct (segment_lookup _ Hs) as [sp E2]. rewrite E2. cbn [bind_l].
  destruct (ll_lookup_validated _ Hi Ha) as [lv E3]. rewrite E3. cbn [bind_l].
  destruct (ll_size_lookup _ Hz) as [ls E4]. rewrite E4. cbn [bind_l].
  repeat match goal with
  | |- (if ?c then _ else _) <> MStuck => destruct c
  | |- MOk _ _ <> MStuck => discriminate
  | |- MErr _ <> MStuck => discriminate
  | |- MUnsupported <> MStuck => discriminate
  end.
Qed.

(* ... and without that hypothesis the ll_by_reg_type_table read can leave the table: index type 16 (kMask) *)
Theorem vsib_unvalidated_refuted : exists x64 v,
  0 <= m_itype (v_mem v) <= x86c_mem_index_type_max /\ x86_vgather_encode x64 v = MStuck.
Proof. exists true, (mkVsib 11 0 1 16 (mkMem 0 6 0 16 1 0 0 0 0 0)). split; [vm_compute; split; discriminate | reflexivity]. Qed.

Theorem vsib_cmd_wf : forall a inst_id v c, vsib_cmd a inst_id v = Some c -> wf_cmd c.
Proof.
  intros a inst_id v c H. unfold vsib_cmd in H.
  destruct (x86_vgather _ inst_id v) as [n dr | e | |] eqn:R; inversion H; subst; cbn; [exact I |].
  unfold x86_vgather in R.
  destruct (validate_vgather _ inst_id v =? 0) eqn:V.
  - unfold x86_vgather_encode, bind_l in R.
    repeat match type of R with
    | (match ?o with Some _ => _ | None => _ end) = _ => destruct o; [| discriminate R]
    | (if ?c then _ else _) = _ => destruct c
    | (let _ := _ in _) = _ => cbv zeta in R
    end; try discriminate R; inversion R; subst; vm_compute; discriminate.
  - inversion R; subst. apply Z.eqb_neq. exact V.
Qed.

(* ---------------------------------------------------------------- the validator hypothesis is discharged through C13's model:
   validate = kOk  ==>  the index type of the memory operand is allowed  ==>  the ll_by_reg_type_table read is in range *)
From Verif Require Import X86Validate.ValidateModel X86Validate.ValidateProofs.
From VerifGen Require Import X86Sigs.

Lemma xlat_mem_index : forall T x64 iflags avx size bt bid it iid off seg bcst home x c,
  xlat_operand T x64 false iflags avx (OMem size bt bid it iid off seg bcst home) = XOk x c ->
  it = 0%N \/ N.testbit (vd_index_regs (if x64 then vt_vd64 T else vt_vd86 T)) it = true.
Proof.
  intros T x64 iflags avx size bt bid it iid off seg bcst home x c H.
  destruct (N.eqb it 0) eqn:E0; [left; apply N.eqb_eq; exact E0 |].
  destruct (N.testbit (vd_index_regs (if x64 then vt_vd64 T else vt_vd86 T)) it) eqn:ET; [right; reflexivity |].
  exfalso. cbn [xlat_operand] in H. rewrite E0, ET in H. cbn [negb] in H.
  repeat match type of H with
  | (if ?c then _ else _) = _ => destruct c
  | (match (if ?c then _ else _) with _ => _ end) = _ => destruct c
  | (match ?r with XErr _ => _ | XOk _ _ => _ end) = _ => destruct r
  end; try discriminate H.
Qed.

(* the HEAD adapter is the identity since C13's model contains the 4824306 rule *)
Lemma validate_head_ok : forall T zq x64 inst ops, validate_head T zq x64 inst ops = E_Ok -> validate T zq x64 false inst ops = E_Ok.
Proof. intros T zq x64 inst ops H. exact H. Qed.

Lemma validated_index_allowed : forall x64 inst_id v,
  0 <= m_itype (v_mem v) -> validate_vgather x64 inst_id v = 0 -> index_type_allowed (m_itype (v_mem v)).
Proof.
  intros x64 inst_id v Hi H. unfold validate_vgather in H.
  assert (V : validate x86_vtables false x64 false
            {| vi_id := Z.to_N inst_id; vi_options := 0%N; vi_extra_type := 0%N; vi_extra_id := 0%N |}
            [OReg (Z.to_N (v_type v)) (Z.to_N (v_dst v));
             OMem (Z.to_N (m_size (v_mem v))) (Z.to_N (m_btype (v_mem v))) (Z.to_N (m_bid (v_mem v))) (Z.to_N (m_itype (v_mem v)))
                  (Z.to_N (m_iid (v_mem v))) (if m_btype (v_mem v) =? 0 then sext 64 (m_off (v_mem v)) else sext 32 (m_off (v_mem v)))
                  (Z.to_N (m_seg (v_mem v))) 0%N false;
             OReg (Z.to_N (v_type v)) (Z.to_N (v_mask v))] = E_Ok).
  { apply validate_head_ok. apply N2Z.inj. exact H. }
  apply validate_ok_inv in V. destruct V as [_ [iflags [avx [sidx [scnt [st [rest [_ [XL _]]]]]]]]].
  cbn [xlat_all] in XL.
  destruct (xlat_operand x86_vtables x64 false iflags avx (OReg _ _)) as [e0 | x0 c0]; [discriminate XL |].
  destruct (xlat_operand x86_vtables x64 false iflags avx (OMem _ _ _ _ _ _ _ _ _)) as [e1 | x1 c1] eqn:XM; [discriminate XL |].
  apply xlat_mem_index in XM. unfold index_type_allowed.
  destruct XM as [Z0 | TB].
  - left. apply (f_equal Z.of_N) in Z0. rewrite Z2N.id in Z0 by exact Hi. exact Z0.
  - right. rewrite <- (Z2N.id (m_itype (v_mem v))) by exact Hi.
    destruct x64; [right | left]; cbn [vt_vd64 vt_vd86 x86_vtables] in TB;
      [change x86c_allowed_mem_index_regs_x64 with (Z.of_N (vd_index_regs x86_vd1)) | change x86c_allowed_mem_index_regs_x86 with (Z.of_N (vd_index_regs x86_vd0))];
      rewrite Z.testbit_of_N; exact TB.
Qed.

(* the VEX + VSIB path of a VALIDATED instruction never reads a table out of bounds — no hypothesis about the index type *)
Theorem vsib_path_never_stuck : forall x64 inst_id v,
  0 <= m_btype (v_mem v) <= x86c_mem_base_type_max -> 0 <= m_itype (v_mem v) <= x86c_mem_index_type_max ->
  0 <= m_seg (v_mem v) <= x86c_mem_segment_max -> 0 <= v_dsize v <= x86c_size_max ->
  x86_vgather x64 inst_id v <> MStuck.
Proof.
  intros x64 inst_id v Hb Hi Hs Hz. unfold x86_vgather.
  destruct (validate_vgather x64 inst_id v =? 0) eqn:V; [| discriminate].
  apply vsib_encode_never_stuck; try assumption.
  apply Z.eqb_eq in V. eapply validated_index_allowed; [lia | exact V].
Qed.

(* ---------------------------------------------------------------- push / pop of a segment register *)
Lemma sreg_opcode_mm_in_range : forallb (fun opc => hit x86_opcode_mm_table (Z.land (Z.shiftr opc x86c_mm_shift) x86c_mm_index_max))
                                  (x86_opcode_push_sreg_table ++ x86_opcode_pop_sreg_table) = true.
Proof. vm_compute. reflexivity. Qed.

(* for EVERY register id (also ids far beyond the six segment registers) the two table reads of the path are in range *)
Theorem pushpop_encode_never_stuck : forall is_pop id, 0 <= id -> x86_pushpop_sreg_encode is_pop id <> MStuck.
Proof.
  intros is_pop id H0. unfold x86_pushpop_sreg_encode.
  destruct ((x86c_sreg_id_count <=? id) || (is_pop && (id =? kSegCs))) eqn:G; [discriminate |].
  apply orb_false_elim in G. destruct G as [G _]. apply Z.leb_gt in G.
  assert (L : exists opc, lookup (if is_pop then x86_opcode_pop_sreg_table else x86_opcode_push_sreg_table) id = Some opc /\
                          In opc (x86_opcode_push_sreg_table ++ x86_opcode_pop_sreg_table)).
  { destruct is_pop.
    - destruct (pop_sreg_lookup id (conj H0 G)) as [v E]. exists v. split; [exact E |]. apply in_or_app. right.
      unfold lookup in E. clear -E. revert id E. induction x86_opcode_pop_sreg_table as [| x t IH]; intros id E; cbn [nthZ] in E; [discriminate |].
      destruct (id =? 0); [inversion E; left; reflexivity |]. destruct (id <? 0); [discriminate |]. right. eapply IH. exact E.
    - destruct (push_sreg_lookup id (conj H0 G)) as [v E]. exists v. split; [exact E |]. apply in_or_app. left.
      unfold lookup in E. clear -E. revert id E. induction x86_opcode_push_sreg_table as [| x t IH]; intros id E; cbn [nthZ] in E; [discriminate |].
      destruct (id =? 0); [inversion E; left; reflexivity |]. destruct (id <? 0); [discriminate |]. right. eapply IH. exact E. }
  destruct L as [opc [E I]]. rewrite E. cbn [bind_l].
  pose proof sreg_opcode_mm_in_range as R. rewrite forallb_forall in R. specialize (R opc I).
  apply hit_some in R. destruct R as [v Ev]. rewrite Ev. cbn [bind_l]. discriminate.
Qed.

Theorem pushpop_never_stuck : forall x64 is_pop inst_id id, 0 <= id -> x86_pushpop_sreg x64 is_pop inst_id id <> MStuck.
Proof.
  intros. unfold x86_pushpop_sreg. destruct (validate_pushpop_sreg x64 inst_id id =? 0); [apply pushpop_encode_never_stuck; assumption | discriminate].
Qed.

(* ---------------------------------------------------------------- a64 load / store addressing *)
Lemma a64_ldst_rows_in_range :
  forallb (fun id => match a64_ldst_row_at id with RStuck => false | _ => true end) (upto (a64c_inst_id_count - 1)) = true.
Proof. vm_compute. reflexivity. Qed.

Lemma a64_shift_op_map_in_range : forallb (hit a64_shift_op_to_ld_st_opt_map) (upto a64c_mem_shift_op_max) = true.
Proof. vm_compute. reflexivity. Qed.

(* for EVERY instruction id (also ids beyond the table) every instruction-table read of the load / store path is in
   range: _inst_info_table[id], baseLdSt[..], _inst_info_table[u_alt_inst_id], baseRM_SImm9[..] *)
Theorem a64_ldst_row_never_stuck : forall inst_id, 0 <= inst_id -> a64_ldst_row inst_id <> RStuck.
Proof.
  intros id H0. unfold a64_ldst_row.
  assert (R : 0 <= a64_norm_id id <= a64c_inst_id_count - 1).
  { unfold a64_norm_id. destruct (a64c_inst_id_count <=? id) eqn:E; [vm_compute; split; discriminate |]. apply Z.leb_gt in E. lia. }
  pose proof a64_ldst_rows_in_range as A. rewrite forallb_forall in A. specialize (A _ (in_upto _ _ R)).
  destruct (a64_ldst_row_at (a64_norm_id id)); [discriminate | discriminate | discriminate A].
Qed.

Ltac a64_split := repeat match goal with
  | |- context [if ?c then _ else _] => destruct c
  end; try discriminate.

Lemma a64_emit_mem_base_not_stuck : forall m, a64_emit_mem_base m <> MStuck.
Proof. intros m. unfold a64_emit_mem_base. a64_split. Qed.

Lemma a64_ldur_not_stuck : forall r m, a64_ldur_encode r m <> MStuck.
Proof. intros r m. unfold a64_ldur_encode, a64_emit_mem_base. a64_split. Qed.

(* the whole path: whatever the operand fields hold (register types and ids, shift, offset mode, offset), no table is read
   out of bounds; the only hypothesis is the width of the shift-operation field *)
Theorem a64_ldst_never_stuck : forall inst_id m,
  0 <= inst_id -> 0 <= a_shiftop m <= a64c_mem_shift_op_max -> a64_ldst inst_id m <> MStuck.
Proof.
  intros inst_id m H0 Hs. unfold a64_ldst.
  pose proof (a64_ldst_row_never_stuck inst_id H0) as R.
  destruct (a64_ldst_row inst_id) as [r | |]; [| discriminate | contradiction].
  unfold a64_ldst_encode_row.
  pose proof a64_shift_op_map_in_range as A. rewrite forallb_forall in A. specialize (A _ (in_upto _ _ Hs)).
  apply hit_some in A. destruct A as [opt Eo]. rewrite Eo. cbn [bind_l].
  pose proof (a64_ldur_not_stuck r m) as L. pose proof (a64_emit_mem_base_not_stuck m) as B.
  unfold a64_emit_mem_base_index.
  repeat match goal with
  | |- context [if ?c then _ else _] => destruct c
  end; try discriminate; assumption.
Qed.

(* what an ACCEPTED load / store looks like: 4 bytes, no relocation, a 64-bit base register with a 5-bit id, a data
   register id below 31 or the zero register, and (register-index form) an index id below 31 or the zero register *)
Theorem a64_ldst_accepted_encodable : forall inst_id m n d,
  a64_ldst inst_id m = MOk n d ->
  n = 4 /\ d = 0 /\ a_btype m = a64c_reg_type_gp64 /\ a_bid m <= 31 /\
  (a_rid m < 31 \/ a_rid m = a64c_zr) /\ (a_itype m <> 0 -> a_iid m <= 30 \/ a_iid m = a64c_id_zr).
Proof.
  intros inst_id m n d H. unfold a64_ldst in H.
  destruct (a64_ldst_row inst_id) as [r | |]; [| discriminate | discriminate].
  unfold a64_ldst_encode_row in H.
  destruct (a64_gp_type_ok (l_allowed r) (a_rtype m)); cbn [negb] in H; [| discriminate].
  destruct (a64_check_gp_id (a_rid m) a64c_zr) eqn:G; cbn [negb] in H; [| discriminate].
  assert (GR : a_rid m < 31 \/ a_rid m = a64c_zr).
  { unfold a64_check_gp_id in G. apply orb_true_iff in G. destruct G as [G | G]; [left; apply Z.ltb_lt; exact G | right; apply Z.eqb_eq; exact G]. }
  destruct (a64_check_mem_base_index_rel m); cbn [negb] in H; [| discriminate].
  destruct (a64c_reg_type_label_tag <? a_btype m); [| destruct (l_literal r =? 0); discriminate].
  assert (BASE : forall n d, a64_emit_mem_base m = MOk n d -> n = 4 /\ d = 0 /\ a_btype m = a64c_reg_type_gp64 /\ a_bid m <= 31).
  { intros n0 d0 E. unfold a64_emit_mem_base in E. destruct (a64_check_mem_base m) eqn:C; [| discriminate].
    inversion E. unfold a64_check_mem_base in C. apply andb_true_iff in C. destruct C as [C1 C2].
    apply Z.eqb_eq in C1. apply Z.leb_le in C2. auto. }
  destruct (a_itype m =? 0) eqn:IT; cbn [negb] in H.
  - apply Z.eqb_eq in IT.
    assert (X : a64_emit_mem_base m = MOk n d).
    { destruct (is_int_n 32 (a_off m)); cbn [negb] in H; [| discriminate].
      destruct (a_mode m =? 0) eqn:MD; cbn [negb] in H.
      - match type of H with (if ?c then _ else _) = _ => destruct c end; [exact H |].
        unfold a64_ldur_encode in H. rewrite MD in H.
        repeat match type of H with (if ?c then _ else _) = _ => destruct c; try discriminate H end. exact H.
      - destruct (is_int_n 9 (a_off m)); cbn [negb] in H; [exact H | discriminate]. }
    destruct (BASE _ _ X) as [? [? [? ?]]]. repeat split; try assumption. intros NZ. contradiction.
  - destruct (lookup a64_shift_op_to_ld_st_opt_map (a_shiftop m)) as [opt |]; cbn [bind_l] in H; [| discriminate].
    repeat match type of H with (if ?c then _ else _) = _ => destruct c; try discriminate H end.
    unfold a64_emit_mem_base_index in H.
    destruct (a64_check_mem_base m) eqn:C; cbn [negb] in H; [| discriminate].
    destruct ((30 <? a_iid m) && negb (a_iid m =? a64c_id_zr)) eqn:I; [discriminate |].
    inversion H. unfold a64_check_mem_base in C. apply andb_true_iff in C. destruct C as [C1 C2].
    apply Z.eqb_eq in C1. apply Z.leb_le in C2.
    repeat split; try assumption. intros _.
    apply andb_false_iff in I. destruct I as [I | I].
    + left. apply Z.ltb_ge in I. exact I.
    + right. apply negb_false_iff in I. apply Z.eqb_eq in I. exact I.
Qed.

(* ---------------------------------------------------------------- a64 load / store pair *)
Lemma a64_ldp_rows_in_range :
  forallb (fun id => match a64_ldp_row_at id with PStuck => false | _ => true end) (upto (a64c_inst_id_count - 1)) = true.
Proof. vm_compute. reflexivity. Qed.

Theorem a64_ldp_never_stuck : forall inst_id m, 0 <= inst_id -> a64_ldp inst_id m <> MStuck.
Proof.
  intros id m H0. unfold a64_ldp, a64_ldp_row.
  assert (R : 0 <= a64_norm_id id <= a64c_inst_id_count - 1).
  { unfold a64_norm_id. destruct (a64c_inst_id_count <=? id) eqn:E; [vm_compute; split; discriminate |]. apply Z.leb_gt in E. lia. }
  pose proof a64_ldp_rows_in_range as A. rewrite forallb_forall in A. specialize (A _ (in_upto _ _ R)).
  destruct (a64_ldp_row_at (a64_norm_id id)); [| discriminate | discriminate A].
  unfold a64_ldp_encode_row. a64_split.
Qed.

(* an ACCEPTED pair: 4 bytes, both data ids below 31 or zr, ONE register type, a Gp64 base with a 5-bit id, no index, and an
   offset that is a multiple of the access size inside the scaled simm7 range *)
Theorem a64_ldp_accepted_encodable : forall inst_id m n d,
  a64_ldp inst_id m = MOk n d ->
  n = 4 /\ d = 0 /\ p_rtype0 m = p_rtype1 m /\ (p_rid0 m < 31 \/ p_rid0 m = a64c_zr) /\ (p_rid1 m < 31 \/ p_rid1 m = a64c_zr) /\
  p_btype m = a64c_reg_type_gp64 /\ p_itype m = 0 /\ p_bid m <= 31.
Proof.
  intros id m n d H. unfold a64_ldp in H.
  destruct (a64_ldp_row id) as [r | |]; [| discriminate | discriminate].
  unfold a64_ldp_encode_row in H.
  destruct (negb (a64_gp_type_ok (lp_allowed r) (p_rtype0 m)) || negb (p_rtype0 m =? p_rtype1 m)) eqn:T; [discriminate |].
  destruct (negb (a64_check_gp_id (p_rid0 m) a64c_zr) || negb (a64_check_gp_id (p_rid1 m) a64c_zr)) eqn:G; [discriminate |].
  destruct (negb (p_btype m =? a64c_reg_type_gp64) || negb (p_itype m =? 0)) eqn:B; [discriminate |].
  repeat match type of H with (if ?c then _ else _) = _ => destruct c eqn:?; try discriminate H end.
  inversion H.
  apply orb_false_elim in T. destruct T as [_ T]. apply negb_false_iff, Z.eqb_eq in T.
  apply orb_false_elim in G. destruct G as [G0 G1]. apply negb_false_iff in G0. apply negb_false_iff in G1.
  apply orb_false_elim in B. destruct B as [B0 B1]. apply negb_false_iff, Z.eqb_eq in B0. apply negb_false_iff, Z.eqb_eq in B1.
  assert (GID : forall i, a64_check_gp_id i a64c_zr = true -> i < 31 \/ i = a64c_zr).
  { intros i C. unfold a64_check_gp_id in C. apply orb_true_iff in C. destruct C as [C | C]; [left; apply Z.ltb_lt; exact C | right; apply Z.eqb_eq; exact C]. }
  repeat split; auto.
  match goal with E : (p_bid m <=? 31) = true |- _ => apply Z.leb_le in E; exact E end.
Qed.

(* ---------------------------------------------------------------- x86 shift / rotate by immediate *)
Lemma x86_shift_rows_in_range :
  forallb (fun id => forallb (fun k => match x86_shift_row_at id k with ShStuck => false | _ => true end) (upto 15))
          (upto (x86c_inst_id_count - 1)) = true.
Proof. vm_compute. reflexivity. Qed.

Lemma land15_range : forall a, 0 <= Z.land a 15 <= 15.
Proof.
  intros a. change 15 with (Z.ones 4). rewrite Z.land_ones by lia.
  pose proof (Z.mod_pos_bound a (2 ^ 4) ltac:(lia)). change (2 ^ 4) with 16 in *. change (Z.ones 4) with 15. lia.
Qed.

(* for EVERY instruction id and EVERY operand size the five table reads of the path (_inst_info_table, main_opcode_table,
   opcode_pp_table, opcode_mm_table) are in range *)
Theorem shift_encode_never_stuck : forall x64 long inst_id f, 0 <= inst_id -> x86_shift_imm_encode x64 long inst_id f <> MStuck.
Proof.
  intros x64 long id f H0. unfold x86_shift_imm_encode.
  assert (R : 0 <= x86_norm_id id <= x86c_inst_id_count - 1).
  { unfold x86_norm_id. destruct (x86c_inst_id_count <=? id) eqn:E; [vm_compute; split; discriminate |]. apply Z.leb_gt in E. lia. }
  pose proof x86_shift_rows_in_range as A. rewrite forallb_forall in A. specialize (A _ (in_upto _ _ R)).
  rewrite forallb_forall in A. specialize (A _ (in_upto _ _ (land15_range (s_size f)))).
  destruct (x86_shift_row_at (x86_norm_id id) (Z.land (s_size f) 15)); [| discriminate | discriminate A].
  destruct (x86c_byte_invalid_rex <? _); discriminate.
Qed.

Theorem shift_never_stuck : forall x64 long inst_id f, 0 <= inst_id -> x86_shift_imm x64 long inst_id f <> MStuck.
Proof.
  intros. unfold x86_shift_imm. destruct (validate_shift_imm x64 long inst_id f =? 0); [apply shift_encode_never_stuck; assumption | discriminate].
Qed.


(* ---------------------------------------------------------------- EVEX / VEX + VSIB, two-operand form with a mask *)
Lemma cdisp8_lookup : forall tt w ll, exists v, lookup x86_cdisp8_shl_table (8 * (tt mod 4) + 4 * (w mod 2) + ll mod 4) = Some v.
Proof.
  intros tt w ll. apply lookup_in_len. replace (lenZ x86_cdisp8_shl_table) with 32 by (vm_compute; reflexivity).
  pose proof (Z.mod_pos_bound tt 4 ltac:(lia)). pose proof (Z.mod_pos_bound w 2 ltac:(lia)). pose proof (Z.mod_pos_bound ll 4 ltac:(lia)). lia.
Qed.

Lemma vgatherdps_alt_opcode :
  match lookup x86_inst_alt_idx x86c_vgatherdps_id with
  | Some ai => match lookup x86_alt_opcode_table ai with Some _ => true | None => false end
  | None => false
  end = true.
Proof. vm_compute. reflexivity. Qed.

(* the EVEX form reads two more tables (alt_opcode_table through the instruction row, cdisp8_shl_table[TT|W|LL]); with an
   index type the validator lets through no read leaves its table, whatever ids, mask id, sizes and offset are *)
Theorem vsib2_encode_never_stuck : forall x64 kid v,
  0 <= m_btype (v_mem v) <= x86c_mem_base_type_max -> 0 <= m_itype (v_mem v) <= x86c_mem_index_type_max ->
  0 <= m_seg (v_mem v) <= x86c_mem_segment_max -> 0 <= v_dsize v <= x86c_size_max ->
  index_type_allowed (m_itype (v_mem v)) ->
  x86_vgather2_encode x64 kid v <> MStuck.
Proof.
  intros x64 kid v Hb Hi Hs Hz Ha. unfold x86_vgather2_encode.
  destruct (mem_info_lookup _ _ Hb Hi) as [rmi E1]. rewrite E1. cbn [bind_l].
  destruct (segment_lookup _ Hs) as [sp E2]. rewrite E2. cbn [bind_l].
  destruct (ll_lookup_validated _ Hi Ha) as [lv E3]. rewrite E3. cbn [bind_l].
  destruct (ll_size_lookup _ Hz) as [ls E4]. rewrite E4. cbn [bind_l].
  pose proof vgatherdps_alt_opcode as A.
  destruct (lookup x86_inst_alt_idx x86c_vgatherdps_id) as [ai |]; [| discriminate A]. cbn [bind_l].
  destruct (lookup x86_alt_opcode_table ai) as [opc0 |]; [| discriminate A]. cbn [bind_l]. clear A.
  cbv zeta.
  match goal with |- context [lookup x86_cdisp8_shl_table (8 * (?tt mod 4) + 4 * (?w mod 2) + ?ll mod 4)] =>
    destruct (cdisp8_lookup tt w ll) as [cd E7]; rewrite E7 end.
  cbn [bind_l].
  repeat match goal with
  | |- (if ?c then _ else _) <> MStuck => destruct c
  | |- MOk _ _ <> MStuck => discriminate
  | |- MErr _ <> MStuck => discriminate
  | |- MUnsupported <> MStuck => discriminate
  end.
Qed.

Lemma validated2_index_allowed : forall x64 inst_id etype kid v,
  0 <= m_itype (v_mem v) -> validate_vgather2 x64 inst_id etype kid v = 0 -> index_type_allowed (m_itype (v_mem v)).
Proof.
  intros x64 inst_id etype kid v Hi H. unfold validate_vgather2 in H.
  assert (V : validate x86_vtables false x64 false
            {| vi_id := Z.to_N inst_id; vi_options := 0%N; vi_extra_type := Z.to_N etype; vi_extra_id := Z.to_N kid |}
            [OReg (Z.to_N (v_type v)) (Z.to_N (v_dst v));
             OMem (Z.to_N (m_size (v_mem v))) (Z.to_N (m_btype (v_mem v))) (Z.to_N (m_bid (v_mem v))) (Z.to_N (m_itype (v_mem v)))
                  (Z.to_N (m_iid (v_mem v))) (if m_btype (v_mem v) =? 0 then sext 64 (m_off (v_mem v)) else sext 32 (m_off (v_mem v)))
                  (Z.to_N (m_seg (v_mem v))) 0%N false] = E_Ok).
  { apply validate_head_ok. apply N2Z.inj. exact H. }
  apply validate_ok_inv in V. destruct V as [_ [iflags [avx [sidx [scnt [st [rest [_ [XL _]]]]]]]]].
  cbn [xlat_all] in XL.
  destruct (xlat_operand x86_vtables x64 false iflags avx (OReg _ _)) as [e0 | x0 c0]; [discriminate XL |].
  destruct (xlat_operand x86_vtables x64 false iflags avx (OMem _ _ _ _ _ _ _ _ _)) as [e1 | x1 c1] eqn:XM; [discriminate XL |].
  apply xlat_mem_index in XM. unfold index_type_allowed.
  destruct XM as [Z0 | TB].
  - left. apply (f_equal Z.of_N) in Z0. rewrite Z2N.id in Z0 by exact Hi. exact Z0.
  - right. rewrite <- (Z2N.id (m_itype (v_mem v))) by exact Hi.
    destruct x64; [right | left]; cbn [vt_vd64 vt_vd86 x86_vtables] in TB;
      [change x86c_allowed_mem_index_regs_x64 with (Z.of_N (vd_index_regs x86_vd1)) | change x86c_allowed_mem_index_regs_x86 with (Z.of_N (vd_index_regs x86_vd0))];
      rewrite Z.testbit_of_N; exact TB.
Qed.

(* the EVEX / VEX + VSIB path of a VALIDATED two-operand gather never reads a table out of bounds — for every destination,
   index and mask id, vector width and offset *)
Theorem vsib2_path_never_stuck : forall x64 inst_id etype kid v,
  0 <= m_btype (v_mem v) <= x86c_mem_base_type_max -> 0 <= m_itype (v_mem v) <= x86c_mem_index_type_max ->
  0 <= m_seg (v_mem v) <= x86c_mem_segment_max -> 0 <= v_dsize v <= x86c_size_max ->
  x86_vgather2 x64 inst_id etype kid v <> MStuck.
Proof.
  intros x64 inst_id etype kid v Hb Hi Hs Hz. unfold x86_vgather2.
  destruct (negb (inst_id =? x86c_vgatherdps_id)); [discriminate |].
  destruct (validate_vgather2 x64 inst_id etype kid v =? 0) eqn:V; [| discriminate].
  apply vsib2_encode_never_stuck; try assumption.
  apply Z.eqb_eq in V. eapply validated2_index_allowed; [lia | exact V].
Qed.

(* ---------------------------------------------------------------- non-vacuity: every verdict class of the computed-verdict
   families is inhabited (instruction ids come from the dumped enum, so the statements survive a renumbering) *)
Example a64_ldst_verdicts :
  a64_ldst a64c_id_ldr (mkA64Mem 6 1 6 2 0 0 0 0 0 8) = MOk 4 0 /\                      (* ldr x1, [x2, #8] *)
  a64_ldst a64c_id_ldr (mkA64Mem 6 1 6 2 0 0 0 0 0 (-8)) = MOk 4 0 /\                   (* ldr x1, [x2, #-8]: the ldur fallback *)
  a64_ldst a64c_id_ldr (mkA64Mem 6 1 6 2 0 0 0 0 0 4097) = MErr kInvalidDisplacement /\ (* neither scaled uimm12 nor simm9 *)
  a64_ldst a64c_id_ldr (mkA64Mem 6 40 6 2 0 0 0 0 0 8) = MErr kInvalidPhysId /\         (* x40 names no register *)
  a64_ldst a64c_id_ldr (mkA64Mem 6 1 6 2 6 3 0 2 0 0) = MErr kInvalidAddressScale /\    (* ldr x1, [x2, x3, lsl #2] *)
  a64_ldst a64c_id_ldr (mkA64Mem 6 1 6 2 6 3 0 3 0 0) = MOk 4 0.                        (* ldr x1, [x2, x3, lsl #3] *)
Proof. vm_compute. repeat split; reflexivity. Qed.

Example a64_ldp_verdicts :
  a64_ldp a64c_id_ldp (mkA64Pair 6 1 6 2 6 3 0 0 16) = MOk 4 0 /\                       (* ldp x1, x2, [x3, #16] *)
  a64_ldp a64c_id_ldp (mkA64Pair 6 1 6 2 6 3 0 0 4) = MErr kInvalidDisplacement /\      (* offset not a multiple of 8 *)
  a64_ldp a64c_id_ldp (mkA64Pair 6 1 5 2 6 3 0 0 16) = MErr kInvalidInstruction /\      (* ldp x1, w2, .. *)
  a64_ldp a64c_id_ldp (mkA64Pair 6 1 6 2 6 40 0 0 16) = MErr kInvalidAddress.           (* base x40 *)
Proof. vm_compute. repeat split; reflexivity. Qed.

Example shift_verdicts :
  x86_shift_imm true false x86c_id_shl (mkShift 5 0 4 1) = MOk 2 0 /\                   (* shl eax, 1: D1 E0 *)
  x86_shift_imm true true x86c_id_shl (mkShift 5 0 4 1) = MOk 3 0 /\                    (* long form: C1 E0 01 *)
  x86_shift_imm true false x86c_id_shl (mkShift 6 9 8 5) = MOk 4 0 /\                   (* shl r9, 5: REX.WB C1 E1 05 *)
  x86_shift_imm false false x86c_id_shl (mkShift 6 1 8 5) = MErr 58 /\                  (* a 64-bit register in 32-bit mode *)
  x86_shift_imm true false x86c_id_shl (mkShift 11 31 16 5) = MErr kInvalidPhysId.      (* shl xmm31, 5: the check of /repo 4824306 *)
Proof. vm_compute. repeat split; reflexivity. Qed.

Example pushpop_verdicts :
  x86_pushpop_sreg true false x86c_id_push 5 = MOk 2 0 /\                               (* push fs: 0F A0 *)
  x86_pushpop_sreg true true x86c_id_pop 2 = MErr kInvalidInstruction /\                (* pop cs *)
  x86_pushpop_sreg true false x86c_id_push 7 = MErr kInvalidPhysId.                     (* segment id 7 names no register *)
Proof. vm_compute. repeat split; reflexivity. Qed.

Example vsib2_verdicts :
  (* vgatherdps zmm17 {k1}, [rbx + zmm18*4 + 256]: EVEX, compressed disp8 (256 / 4) *)
  x86_vgather2 true x86c_vgatherdps_id 16 1 (mkVsib 13 17 0 64 (mkMem 0 6 3 13 18 2 0 0 0 256)) = MOk 8 0 /\
  (* ... + 258: not a multiple of the element size, disp32 *)
  x86_vgather2 true x86c_vgatherdps_id 16 1 (mkVsib 13 17 0 64 (mkMem 0 6 3 13 18 2 0 0 0 258)) = MOk 11 0 /\
  (* vgatherdps xmm1 {k1}, [rbx + xmm2]: EVEX because of the mask *)
  x86_vgather2 true x86c_vgatherdps_id 16 1 (mkVsib 11 1 0 16 (mkMem 0 6 3 11 2 0 0 0 0 0)) = MOk 7 0 /\
  (* mask register k9 does not exist *)
  x86_vgather2 true x86c_vgatherdps_id 16 9 (mkVsib 11 1 0 16 (mkMem 0 6 3 11 2 0 0 0 0 0)) = MErr 39 /\
  (* the three-operand VEX form refuses xmm16 and accepts xmm1 *)
  x86_vgather true x86c_vgatherdps_id (mkVsib 11 16 2 16 (mkMem 0 6 3 11 2 0 0 0 0 0)) = MErr kInvalidPhysId /\
  x86_vgather true x86c_vgatherdps_id (mkVsib 11 1 2 16 (mkMem 0 6 3 11 3 0 0 0 0 0)) = MOk 6 0.
Proof. vm_compute. repeat split; reflexivity. Qed.

(* ---------------------------------------------------------------- end to end: a verdict "refused" of any computed-verdict
   family, fed to the emit transaction, is a failed call that reports exactly that error once, leaves every persistent
   component untouched and clears the one-shot state - for every flavour, architecture, handler kind and state *)
Theorem refused_instruction_end_to_end : forall fl a h s e s' o,
  e <> 0 -> step fl a h s (CInst (EncErr e)) = (s', o) ->
  o = report h e /\ failed o = true /\ persistent s' = persistent s /\ st_one s' = one_clear.
Proof.
  intros fl a h s e s' o NZ H.
  assert (O : o = report h e /\ s' = clear_one s).
  { cbn [step] in H. destruct fl; cbn [emit_assembler emit_builder] in H; unfold fail_inst in H; inversion H; auto. }
  destruct O as [Oo Os]. subst o s'. repeat split; try reflexivity.
  unfold failed. destruct h; cbn; try reflexivity; apply orb_true_iff; left; apply negb_true_iff, Z.eqb_neq; exact NZ.
Qed.

(* the error codes of the computed-verdict families are never 0 (a refusal cannot be mistaken for success) *)
Lemma validate_gate_nonzero : forall e (enc : mres) x, (if e =? 0 then enc else MErr e) = MErr x -> (forall y, enc = MErr y -> y <> 0) -> x <> 0.
Proof. intros e enc x H K. destruct (e =? 0) eqn:E; [apply K; exact H | inversion H; subst; apply Z.eqb_neq; exact E]. Qed.

Theorem a64_ldst_cmd_wf : forall inst_id m c, a64_ldst_cmd inst_id m = Some c -> wf_cmd c.
Proof.
  intros id m c H. unfold a64_ldst_cmd in H. destruct (a64_ldst id m) as [n d | e | |] eqn:R; inversion H; subst; cbn; [exact I |].
  unfold a64_ldst in R. destruct (a64_ldst_row id) as [r | |]; try discriminate R.
  unfold a64_ldst_encode_row, a64_ldur_encode, a64_emit_mem_base_index, a64_emit_mem_base, bind_l in R.
  repeat match type of R with
  | (match ?o with Some _ => _ | None => _ end) = _ => destruct o; [| discriminate R]
  | (if ?c then _ else _) = _ => destruct c
  end; try discriminate R; inversion R; subst; vm_compute; discriminate.
Qed.

Theorem a64_ldp_cmd_wf : forall inst_id m c, a64_ldp_cmd inst_id m = Some c -> wf_cmd c.
Proof.
  intros id m c H. unfold a64_ldp_cmd in H. destruct (a64_ldp id m) as [n d | e | |] eqn:R; inversion H; subst; cbn; [exact I |].
  unfold a64_ldp in R. destruct (a64_ldp_row id) as [r | |]; try discriminate R.
  unfold a64_ldp_encode_row in R.
  repeat match type of R with
  | (if ?c then _ else _) = _ => destruct c
  end; try discriminate R; inversion R; subst; vm_compute; discriminate.
Qed.

Theorem shift_cmd_wf : forall a s inst_id f c, shift_cmd a s inst_id f = Some c -> wf_cmd c.
Proof.
  intros a s id f c H. unfold shift_cmd in H.
  destruct (x86_shift_imm _ _ id f) as [n d | e | |] eqn:R; inversion H; subst; cbn; [exact I |].
  unfold x86_shift_imm in R. eapply validate_gate_nonzero; [exact R |].
  intros y E. unfold x86_shift_imm_encode in E.
  destruct (x86_shift_row_at _ _); try discriminate E.
  destruct (x86c_byte_invalid_rex <? _); [inversion E; vm_compute; discriminate | discriminate E].
Qed.

Theorem pushpop_cmd_wf : forall a is_pop inst_id id c, pushpop_cmd a is_pop inst_id id = Some c -> wf_cmd c.
Proof.
  intros a is_pop inst_id id c H. unfold pushpop_cmd in H.
  destruct (x86_pushpop_sreg _ is_pop inst_id id) as [n d | e | |] eqn:R; inversion H; subst; cbn; [exact I |].
  unfold x86_pushpop_sreg in R. eapply validate_gate_nonzero; [exact R |].
  intros y E. unfold x86_pushpop_sreg_encode, bind_l in E.
  repeat match type of E with
  | (match ?o with Some _ => _ | None => _ end) = _ => destruct o; [| discriminate E]
  | (if ?c then _ else _) = _ => destruct c
  end; try discriminate E; inversion E; vm_compute; discriminate.
Qed.

Theorem vsib2_cmd_wf : forall a s inst_id v c, vsib2_cmd a s inst_id v = Some c -> wf_cmd c.
Proof.
  intros a s inst_id v c H. unfold vsib2_cmd in H.
  destruct (x86_vgather2 _ inst_id _ _ v) as [n d | e | |] eqn:R; inversion H; subst; cbn; [exact I |].
  unfold x86_vgather2 in R. destruct (negb (inst_id =? x86c_vgatherdps_id)); [discriminate R |].
  eapply validate_gate_nonzero; [exact R |].
  intros y E. unfold x86_vgather2_encode, bind_l in E. cbv zeta in E.
  repeat match type of E with
  | (match ?o with Some _ => _ | None => _ end) = _ => destruct o; [| discriminate E]
  | (if ?c then _ else _) = _ => destruct c
  end; try discriminate E; inversion E; vm_compute; discriminate.
Qed.

(* ---------------------------------------------------------------- mov r, [mem] / mov [mem], r / moffs *)
Theorem mov_encode_never_stuck : forall x64 absloc cur f,
  0 <= m_btype (mv_mem f) <= x86c_mem_base_type_max -> 0 <= m_itype (mv_mem f) <= x86c_mem_index_type_max ->
  0 <= m_seg (mv_mem f) <= x86c_mem_segment_max ->
  x86_mov_rm_encode x64 absloc cur f <> MStuck.
Proof.
  intros x64 absloc cur f Hb Hi Hs. unfold x86_mov_rm_encode.
  destruct (mv_rtype f =? kRegTypeSegment); [discriminate |].
  match goal with |- (if ?c then _ else _) <> _ => destruct c end.
  - destruct (segment_lookup _ Hs) as [sp E]. rewrite E. cbn [bind_l]. destruct (128 <? _); discriminate.
  - apply modrm_encode_never_stuck; cbn [m_btype m_itype m_seg]; assumption.
Qed.

Lemma x86_arith_rows_in_range :
  forallb (fun id => forallb (fun k => match x86_legacy_row_at x86c_encoding_x86_arith id k with ShStuck => false | _ => true end) (upto 15))
          (upto (x86c_inst_id_count - 1)) = true.
Proof. vm_compute. reflexivity. Qed.

Theorem arith_rm_encode_never_stuck : forall x64 absloc cur inst_id f,
  0 <= inst_id ->
  0 <= m_btype (mv_mem f) <= x86c_mem_base_type_max -> 0 <= m_itype (mv_mem f) <= x86c_mem_index_type_max ->
  0 <= m_seg (mv_mem f) <= x86c_mem_segment_max ->
  x86_arith_rm_encode x64 absloc cur inst_id f <> MStuck.
Proof.
  intros x64 absloc cur id f H0 Hb Hi Hs. unfold x86_arith_rm_encode.
  assert (R : 0 <= x86_norm_id id <= x86c_inst_id_count - 1).
  { unfold x86_norm_id. destruct (x86c_inst_id_count <=? id) eqn:E; [vm_compute; split; discriminate |]. apply Z.leb_gt in E. lia. }
  pose proof x86_arith_rows_in_range as A. rewrite forallb_forall in A. specialize (A _ (in_upto _ _ R)).
  rewrite forallb_forall in A. specialize (A _ (in_upto _ _ (land15_range (mv_rsize f)))).
  destruct (x86_legacy_row_at x86c_encoding_x86_arith (x86_norm_id id) (Z.land (mv_rsize f) 15)); [| discriminate | discriminate A].
  destruct (negb (mm_size =? 0)); [discriminate |].
  apply modrm_encode_never_stuck; cbn [m_btype m_itype m_seg]; assumption.
Qed.

Theorem mov_never_stuck : forall x64 absloc cur inst_id f,
  0 <= inst_id ->
  0 <= m_btype (mv_mem f) <= x86c_mem_base_type_max -> 0 <= m_itype (mv_mem f) <= x86c_mem_index_type_max ->
  0 <= m_seg (mv_mem f) <= x86c_mem_segment_max ->
  x86_mov_rm x64 absloc cur inst_id f <> MStuck.
Proof.
  intros. unfold x86_mov_rm. destruct (inst_id =? x86c_id_mov).
  - destruct (validate_mov_rm x64 inst_id f =? 0); [apply mov_encode_never_stuck; assumption | discriminate].
  - destruct (validate_mov_rm x64 inst_id f =? 0); [apply arith_rm_encode_never_stuck; assumption | discriminate].
Qed.

Theorem mov_cmd_wf : forall a hb s inst_id f c, mov_cmd a hb s inst_id f = Some c -> wf_cmd c.
Proof.
  intros a hb s inst_id f c H. unfold mov_cmd in H.
  destruct (x86_mov_rm _ _ _ inst_id f) as [n d | e | |] eqn:R; inversion H; subst; cbn; [exact I |].
  unfold x86_mov_rm in R.
  assert (MODRM : forall x64 absloc cur npp rexop m y, x86_modrm_mem_encode x64 absloc cur npp rexop m = MErr y -> y <> 0).
  { intros x64 absloc cur npp rexop m y E. unfold x86_modrm_mem_encode, bind_l in E.
    repeat match type of E with
    | (match ?o with Some _ => _ | None => _ end) = _ => destruct o; [| discriminate E]
    | (if ?c then _ else _) = _ => destruct c
    | (let _ := _ in _) = _ => cbv zeta in E
    end; try discriminate E; inversion E; subst; vm_compute; discriminate. }
  destruct (inst_id =? x86c_id_mov); [|
    eapply validate_gate_nonzero; [exact R |]; intros y E; unfold x86_arith_rm_encode in E;
    destruct (x86_legacy_row_at _ _ _); try discriminate E; destruct (negb (_ =? 0)); [discriminate E | eapply MODRM; exact E] ].
  eapply validate_gate_nonzero; [exact R |].
  intros y E. unfold x86_mov_rm_encode in E.
  destruct (mv_rtype f =? kRegTypeSegment); [discriminate E |].
  match type of E with (if ?c then _ else _) = _ => destruct c end.
  - unfold bind_l in E. destruct (lookup x86_segment_prefix_table _); [| discriminate E].
    destruct (128 <? _); [inversion E; vm_compute; discriminate | discriminate E].
  - eapply MODRM; exact E.
Qed.

(* the moffs form is taken exactly for the accumulator with a base-less address; its length does not depend on the address *)
Theorem movabs_length : forall x64 absloc cur f n d,
  m_dst (mv_mem f) = 0 -> m_btype (mv_mem f) = 0 -> m_itype (mv_mem f) = 0 ->
  mv_rtype f <> kRegTypeSegment -> mv_rtype f <> x86c_reg_type_gp8hi ->
  x86_use_movabs x64 absloc cur (mv_rsize f) (mv_mem f) = true ->
  x86_mov_rm_encode x64 absloc cur f = MOk n d ->
  d = 0 /\ (if x64 then 9 else 5) <= n <= (if x64 then 12 else 8).
Proof.
  intros x64 absloc cur f n d Hd Hb Hi Hs Hh Hu H. unfold x86_mov_rm_encode in H.
  apply Z.eqb_neq in Hs. apply Z.eqb_neq in Hh. rewrite Hs, Hh, Hd, Hb, Hi, Hu in H. cbn [negb andb Z.eqb] in H.
  unfold bind_l in H. destruct (lookup x86_segment_prefix_table _); [| discriminate H].
  destruct (128 <? _); [discriminate H |]. inversion H. split; [reflexivity |].
  destruct x64; repeat match goal with |- context [if ?c then _ else _] => destruct c end; lia.
Qed.

Example mov_verdicts :
  x86_mov_rm true false 0 x86c_id_mov (mkMov 6 8 false (mkMem 0 0 0 0 0 0 0 0 8 78187493530)) = MOk 10 0 /\   (* mov rax, [0x123456789A]: REX.W A1 imm64 *)
  x86_mov_rm true false 0 x86c_id_mov (mkMov 5 4 false (mkMem 0 0 0 0 0 0 0 0 4 4096)) = MOk 6 1 /\           (* mov eax, [0x1000]: RIP-relative + relocation *)
  x86_mov_rm false false 0 x86c_id_mov (mkMov 5 4 false (mkMem 0 0 0 0 0 0 0 0 4 4096)) = MOk 5 0 /\          (* 32-bit mode: A1 imm32 *)
  x86_mov_rm false false 0 x86c_id_mov (mkMov 4 2 true (mkMem 0 0 0 0 0 0 5 0 2 4096)) = MOk 7 0 /\           (* mov fs:[0x1000], ax: 64 66 A3 imm32 *)
  x86_mov_rm true false 0 x86c_id_mov (mkMov 3 1 false (mkMem 0 6 9 0 0 0 0 0 1 0)) = MErr 57 /\              (* mov ah, [r9] *)
  x86_mov_rm true false 0 x86c_id_mov (mkMov 2 1 false (mkMem 6 6 3 0 0 0 0 0 1 0)) = MOk 3 0 /\              (* mov sil, [rbx]: REX 8A 33 *)
  x86_mov_rm true false 0 x86c_id_mov (mkMov 6 8 false (mkMem 1 6 3 0 0 0 7 0 8 0)) = MErr kInvalidSegment.   (* segment field 7 *)
Proof. vm_compute. repeat split; reflexivity. Qed.

(* ---------------------------------------------------------------- end to end, the success side at full strength: an ACCEPTED
   instruction of the computed-verdict families (n bytes, d relocations, no fixup) changes exactly the size of the current
   section (+ n) and the relocation count (+ d); labels, fixups, address table, nodes (Assembler), the current section and all
   other sections stay as they are; the one-shot state is consumed and nothing is reported *)
Theorem accepted_instruction_end_to_end : forall a h s n d s' o,
  step FAssembler a h s (CInst (EncOk n None false d 0 0)) = (s', o) ->
  o = ok_out /\ st_sizes s' = updZ (st_sizes s) (st_cur s) (cur_size s + n) /\ st_relocs s' = st_relocs s + d /\
  st_cur s' = st_cur s /\ st_labels s' = st_labels s /\ st_fixups s' = st_fixups s /\ st_addrs s' = st_addrs s /\
  st_nodes s' = st_nodes s /\ st_one s' = one_clear.
Proof.
  intros a h s n d s' o H. cbn [step emit_assembler] in H. inversion H. subst.
  unfold commit_inst, add_bytes, clear_one, set_one, add_addrs, add_relocs, cur_size. cbn.
  repeat split; try reflexivity; try lia.
Qed.

(* ---------------------------------------------------------------- a64 SIMD / FP load / store *)
Lemma a64_simd_rows_in_range :
  forallb (fun id => match a64_simd_row_at id with SStuck => false | _ => true end) (upto (a64c_inst_id_count - 1)) = true.
Proof. vm_compute. reflexivity. Qed.

Theorem a64_simd_ldst_never_stuck : forall inst_id v,
  0 <= inst_id -> 0 <= a_shiftop (av_mem v) <= a64c_mem_shift_op_max -> a64_simd_ldst inst_id v <> MStuck.
Proof.
  intros id v H0 Hs. unfold a64_simd_ldst, a64_simd_row.
  assert (R : 0 <= a64_norm_id id <= a64c_inst_id_count - 1).
  { unfold a64_norm_id. destruct (a64c_inst_id_count <=? id) eqn:E; [vm_compute; split; discriminate |]. apply Z.leb_gt in E. lia. }
  pose proof a64_simd_rows_in_range as A. rewrite forallb_forall in A. specialize (A _ (in_upto _ _ R)).
  destruct (a64_simd_row_at (a64_norm_id id)) as [r | |]; [| discriminate | discriminate A].
  unfold a64_simd_encode_row.
  pose proof a64_shift_op_map_in_range as B. rewrite forallb_forall in B. specialize (B _ (in_upto _ _ Hs)).
  apply hit_some in B. destruct B as [opt Eo]. rewrite Eo. cbn [bind_l].
  unfold a64_emit_mem_base_index, a64_emit_mem_base. a64_split.
Qed.

Theorem a64_simd_ldst_accepted_encodable : forall inst_id v n d,
  a64_simd_ldst inst_id v = MOk n d ->
  n = 4 /\ d = 0 /\ a_rid (av_mem v) <= 31 /\ av_ei v = false /\ av_et v = 0 /\
  a_btype (av_mem v) = a64c_reg_type_gp64 /\ a_bid (av_mem v) <= 31 /\
  (a_itype (av_mem v) <> 0 -> a_iid (av_mem v) <= 30 \/ a_iid (av_mem v) = a64c_id_zr).
Proof.
  intros id v n d H. unfold a64_simd_ldst in H.
  destruct (a64_simd_row id) as [r | |]; [| discriminate | discriminate].
  unfold a64_simd_encode_row in H. set (m := av_mem v) in *.
  destruct ((4 <? diff32 (a_rtype m) a64c_reg_type_vec8) || av_ei v || negb (av_et v =? 0)) eqn:T; [discriminate |].
  apply orb_false_elim in T. destruct T as [T ET]. apply orb_false_elim in T. destruct T as [_ EI].
  apply negb_false_iff, Z.eqb_eq in ET.
  destruct (31 <? a_rid m) eqn:G; [discriminate |]. apply Z.ltb_ge in G.
  destruct (a64_check_mem_base_index_rel m); cbn [negb] in H; [| discriminate].
  destruct (a64c_reg_type_label_tag <? a_btype m); [| destruct (sl_literal r =? 0); [discriminate | destruct (_ <? 2); discriminate]].
  assert (BASE : forall n d, a64_emit_mem_base m = MOk n d -> n = 4 /\ d = 0 /\ a_btype m = a64c_reg_type_gp64 /\ a_bid m <= 31).
  { intros n0 d0 E. unfold a64_emit_mem_base in E. destruct (a64_check_mem_base m) eqn:C; [| discriminate].
    inversion E. unfold a64_check_mem_base in C. apply andb_true_iff in C. destruct C as [C1 C2].
    apply Z.eqb_eq in C1. apply Z.leb_le in C2. auto. }
  destruct (a_itype m =? 0) eqn:IT; cbn [negb] in H.
  - apply Z.eqb_eq in IT.
    assert (X : a64_emit_mem_base m = MOk n d).
    { repeat match type of H with (if ?c then _ else _) = _ => destruct c; try discriminate H end; exact H. }
    destruct (BASE _ _ X) as [? [? [? ?]]]. repeat split; try assumption. intros NZ. contradiction.
  - destruct (lookup a64_shift_op_to_ld_st_opt_map (a_shiftop m)) as [opt |]; cbn [bind_l] in H; [| discriminate].
    repeat match type of H with (if ?c then _ else _) = _ => destruct c; try discriminate H end.
    unfold a64_emit_mem_base_index in H.
    destruct (a64_check_mem_base m) eqn:C; cbn [negb] in H; [| discriminate].
    destruct ((30 <? a_iid m) && negb (a_iid m =? a64c_id_zr)) eqn:I; [discriminate |].
    inversion H. unfold a64_check_mem_base in C. apply andb_true_iff in C. destruct C as [C1 C2].
    apply Z.eqb_eq in C1. apply Z.leb_le in C2.
    repeat split; try assumption. intros _.
    apply andb_false_iff in I. destruct I as [I | I].
    + left. apply Z.ltb_ge in I. exact I.
    + right. apply negb_false_iff in I. apply Z.eqb_eq in I. exact I.
Qed.

Theorem a64_simd_ldst_cmd_wf : forall inst_id v c, a64_simd_ldst_cmd inst_id v = Some c -> wf_cmd c.
Proof.
  intros id v c H. unfold a64_simd_ldst_cmd in H. destruct (a64_simd_ldst id v) as [n d | e | |] eqn:R; inversion H; subst; cbn; [exact I |].
  unfold a64_simd_ldst in R. destruct (a64_simd_row id) as [r | |]; try discriminate R.
  unfold a64_simd_encode_row, a64_emit_mem_base_index, a64_emit_mem_base, bind_l in R.
  repeat match type of R with
  | (match ?o with Some _ => _ | None => _ end) = _ => destruct o; [| discriminate R]
  | (if ?c then _ else _) = _ => destruct c
  end; try discriminate R; inversion R; subst; vm_compute; discriminate.
Qed.

Example a64_simd_ldst_verdicts :
  a64_simd_ldst a64c_id_ldr_v (mkA64VMem 0 false (mkA64Mem a64c_reg_type_vec128 1 6 2 0 0 0 0 0 32)) = MOk 4 0 /\      (* ldr q1, [x2, #32] *)
  a64_simd_ldst a64c_id_ldr_v (mkA64VMem 0 false (mkA64Mem a64c_reg_type_vec128 1 6 2 0 0 0 0 0 8)) = MOk 4 0 /\       (* ldr q1, [x2, #8]: ldur *)
  a64_simd_ldst a64c_id_ldr_v (mkA64VMem 0 false (mkA64Mem a64c_reg_type_vec128 1 6 2 0 0 0 0 0 264)) = MErr kInvalidDisplacement /\
  a64_simd_ldst a64c_id_ldr_v (mkA64VMem 0 false (mkA64Mem a64c_reg_type_vec128 40 6 2 0 0 0 0 0 32)) = MErr kInvalidPhysId /\
  a64_simd_ldst a64c_id_ldr_v (mkA64VMem 2 false (mkA64Mem a64c_reg_type_vec128 1 6 2 0 0 0 0 0 32)) = MErr kInvalidRegType /\   (* v1.4s as data register *)
  a64_simd_ldst a64c_id_str_v (mkA64VMem 0 false (mkA64Mem a64c_reg_type_vec128 1 6 2 6 3 0 4 0 0)) = MOk 4 0 /\        (* str q1, [x2, x3, lsl #4] *)
  a64_simd_ldst a64c_id_str_v (mkA64VMem 0 false (mkA64Mem a64c_reg_type_vec128 1 6 2 6 3 0 3 0 0)) = MErr kInvalidAddressScale.
Proof. vm_compute. repeat split; reflexivity. Qed.

(* ---------------------------------------------------------------- VEX / EVEX register form (vaddps v, v, v {k}) *)
Lemma vaddps_main_opcode :
  match lookup x86_inst_main_idx x86c_vaddps_id with
  | Some mi => match lookup x86_main_opcode_table mi with Some _ => true | None => false end
  | None => false
  end = true.
Proof. vm_compute. reflexivity. Qed.

Lemma land15_vex_prefix : forall x, exists v, lookup x86_vex_prefix_table (Z.land x 15) = Some v.
Proof.
  intros x. apply lookup_in_len. replace (lenZ x86_vex_prefix_table) with 16 by (vm_compute; reflexivity).
  pose proof (land15_range x). lia.
Qed.

(* every table read of the register path (instruction row, main_opcode_table, ll_by_size_div_16_table, vex_prefix_table) is in
   range for every register id, every mask id and every size field *)
Theorem vrrr_encode_never_stuck : forall kid f, 0 <= vr_size f <= x86c_size_max -> x86_vrrr_encode kid f <> MStuck.
Proof.
  intros kid f Hz. unfold x86_vrrr_encode.
  match goal with |- (if ?c then _ else _) <> _ => destruct c; [discriminate |] end.
  pose proof vaddps_main_opcode as A.
  destruct (lookup x86_inst_main_idx x86c_vaddps_id) as [mi |]; [| discriminate A]. cbn [bind_l].
  destruct (lookup x86_main_opcode_table mi) as [opc0 |]; [| discriminate A]. cbn [bind_l]. clear A.
  destruct (ll_size_lookup _ Hz) as [ls E]. rewrite E. cbn [bind_l]. cbv zeta.
  match goal with |- context [lookup x86_vex_prefix_table (Z.land ?x 15)] => destruct (land15_vex_prefix x) as [v Ev]; rewrite Ev end.
  cbn [bind_l].
  repeat match goal with
  | |- (if ?c then _ else _) <> MStuck => destruct c
  | |- MOk _ _ <> MStuck => discriminate
  | |- MErr _ <> MStuck => discriminate
  end.
Qed.

Theorem vrrr_never_stuck : forall x64 inst_id etype kid f, 0 <= vr_size f <= x86c_size_max -> x86_vrrr x64 inst_id etype kid f <> MStuck.
Proof.
  intros. unfold x86_vrrr. destruct (negb (inst_id =? x86c_vaddps_id)); [discriminate |].
  destruct (validate_vrrr x64 inst_id etype kid f =? 0); [apply vrrr_encode_never_stuck; assumption | discriminate].
Qed.

(* an accepted register form is 4 (VEX2), 5 (VEX3) or 6 (EVEX) bytes and touches nothing but the section *)
Theorem vrrr_accepted_length : forall x64 inst_id etype kid f n d, x86_vrrr x64 inst_id etype kid f = MOk n d -> d = 0 /\ (n = 4 \/ n = 5 \/ n = 6).
Proof.
  intros x64 inst_id etype kid f n d H. unfold x86_vrrr in H.
  destruct (negb (inst_id =? x86c_vaddps_id)); [discriminate H |].
  destruct (validate_vrrr x64 inst_id etype kid f =? 0); [| discriminate H].
  unfold x86_vrrr_encode, bind_l in H. cbv zeta in H.
  repeat match type of H with
  | (match ?o with Some _ => _ | None => _ end) = _ => destruct o; [| discriminate H]
  | (if ?c then _ else _) = _ => destruct c
  end; try discriminate H; inversion H; auto.
Qed.

Theorem vrrr_cmd_wf : forall a s inst_id f c, vrrr_cmd a s inst_id f = Some c -> wf_cmd c.
Proof.
  intros a s inst_id f c H. unfold vrrr_cmd in H.
  destruct (x86_vrrr _ inst_id _ _ f) as [n d | e | |] eqn:R; inversion H; subst; cbn; [exact I |].
  unfold x86_vrrr in R. destruct (negb (inst_id =? x86c_vaddps_id)); [discriminate R |].
  eapply validate_gate_nonzero; [exact R |].
  intros y E. unfold x86_vrrr_encode, bind_l in E. cbv zeta in E.
  repeat match type of E with
  | (match ?o with Some _ => _ | None => _ end) = _ => destruct o; [| discriminate E]
  | (if ?c then _ else _) = _ => destruct c
  end; try discriminate E; inversion E; vm_compute; discriminate.
Qed.

Example vrrr_verdicts :
  x86_vrrr true x86c_vaddps_id 0 0 (mkVrrr 11 1 11 2 11 3 16) = MOk 4 0 /\       (* vaddps xmm1, xmm2, xmm3: VEX2 *)
  x86_vrrr true x86c_vaddps_id 0 0 (mkVrrr 11 1 11 2 11 9 16) = MOk 5 0 /\       (* ... xmm9 as rm: VEX3 *)
  x86_vrrr true x86c_vaddps_id 0 0 (mkVrrr 11 1 11 2 11 17 16) = MOk 6 0 /\      (* ... xmm17: EVEX *)
  x86_vrrr true x86c_vaddps_id 16 3 (mkVrrr 12 1 12 2 12 3 32) = MOk 6 0 /\      (* vaddps ymm1 {k3}, ymm2, ymm3: EVEX because of the mask *)
  x86_vrrr true x86c_vaddps_id 0 0 (mkVrrr 13 1 13 2 13 3 64) = MOk 6 0 /\       (* zmm: EVEX *)
  x86_vrrr true x86c_vaddps_id 0 0 (mkVrrr 11 1 11 2 11 32 16) = MErr kInvalidPhysId /\
  x86_vrrr true x86c_vaddps_id 0 0 (mkVrrr 11 1 12 2 11 3 48) = MErr kInvalidInstruction /\   (* mixed widths *)
  x86_vrrr false x86c_vaddps_id 0 0 (mkVrrr 11 1 11 2 11 9 16) = MErr kInvalidPhysId.         (* xmm9 in 32-bit mode *)
Proof. vm_compute. repeat split; reflexivity. Qed.

(* ---------------------------------------------------------------- a64 ldr / str immediate form: arithmetic specification *)
Lemma uimm12_scaled_iff : forall off s, 0 <= s <= 4 -> - 2 ^ 31 <= off < 2 ^ 31 ->
  ((Z.shiftr (off mod 2 ^ 32) s <? 4096) && ((Z.shiftl (Z.shiftr (off mod 2 ^ 32) s) s) mod 2 ^ 32 =? off mod 2 ^ 32)) = true <->
  (0 <= off < 4096 * 2 ^ s /\ off mod 2 ^ s = 0).
Proof.
  intros off s Hs Ho.
  rewrite Z.shiftr_div_pow2, Z.shiftl_mul_pow2 by lia.
  rewrite andb_true_iff, Z.ltb_lt, Z.eqb_eq.
  assert (S : s = 0 \/ s = 1 \/ s = 2 \/ s = 3 \/ s = 4) by lia.
  change (2 ^ 31) with 2147483648 in Ho. change (2 ^ 32) with 4294967296.
  destruct S as [S | [S | [S | [S | S]]]]; subst s; cbn [Z.pow Z.pow_pos Pos.iter Z.mul Pos.mul];
    Z.div_mod_to_equations; lia.
Qed.

(* the immediate-offset form of a load / store, characterised arithmetically: with a well-formed data register and a Gp64 base,
   `[base, #off]` is accepted exactly when off is a multiple of the access size inside the scaled uimm12 range, or lies in the
   unscaled simm9 range of the ldur/stur fallback; every other offset is refused with kInvalidDisplacement *)
Theorem a64_ldst_imm_offset_spec : forall r m,
  a64_gp_type_ok (l_allowed r) (a_rtype m) = true -> a64_check_gp_id (a_rid m) a64c_zr = true ->
  a64_gp_type_ok (l2_allowed r) (a_rtype m) = true -> a64_check_gp_id (a_rid m) (l2_hi r) = true -> l2_shift r = 0 ->
  a_btype m = a64c_reg_type_gp64 -> a_bid m <= 31 -> a_itype m = 0 -> a_mode m = 0 ->
  - 2 ^ 31 <= a_off m < 2 ^ 31 -> 0 <= a64_imm_shift r m <= 4 ->
  let s := a64_imm_shift r m in
  let fits := (0 <= a_off m < 4096 * 2 ^ s /\ (a_off m) mod 2 ^ s = 0) \/ (-256 <= a_off m <= 255) in
  (fits -> a64_ldst_encode_row r m = MOk 4 0) /\ (~ fits -> a64_ldst_encode_row r m = MErr kInvalidDisplacement).
Proof.
  intros r m T1 G1 T2 G2 S2 Hb Hbid Hi Hm Ho Hs s fits.
  assert (BASE : a64_emit_mem_base m = MOk 4 0).
  { unfold a64_emit_mem_base, a64_check_mem_base. rewrite Hb, Z.eqb_refl. apply Z.leb_le in Hbid. rewrite Hbid. reflexivity. }
  assert (REL : a64_check_mem_base_index_rel m = true).
  { unfold a64_check_mem_base_index_rel. rewrite Hb, Hi. reflexivity. }
  assert (I32 : is_int_n 32 (a_off m) = true).
  { unfold is_int_n. apply andb_true_iff. split; [apply Z.leb_le | apply Z.ltb_lt]; cbn; lia. }
  assert (E : a64_ldst_encode_row r m =
              if (Z.shiftr ((a_off m) mod 2 ^ 32) s <? 4096) && ((Z.shiftl (Z.shiftr ((a_off m) mod 2 ^ 32) s) s) mod 2 ^ 32 =? (a_off m) mod 2 ^ 32)
              then MOk 4 0 else if is_int_n 9 (a_off m) then MOk 4 0 else MErr kInvalidDisplacement).
  { unfold a64_ldst_encode_row. rewrite T1, G1, REL, I32. cbn [negb].
    rewrite Hb. change (a64c_reg_type_label_tag <? a64c_reg_type_gp64) with true. cbv iota.
    rewrite Hi, Hm. cbn [Z.eqb negb]. rewrite BASE. fold (a64_imm_shift r m). fold s.
    destruct (_ && _); [reflexivity |].
    unfold a64_ldur_encode. rewrite T2, G2, S2, Hm. cbn [negb Z.eqb]. rewrite Z.shiftr_0_r, Z.shiftl_0_r, Z.eqb_refl. cbn [negb].
    rewrite BASE. destruct (is_int_n 9 (a_off m)); reflexivity. }
  pose proof (uimm12_scaled_iff (a_off m) s Hs Ho) as U.
  assert (N : is_int_n 9 (a_off m) = true <-> -256 <= a_off m <= 255).
  { unfold is_int_n. rewrite andb_true_iff, Z.leb_le, Z.ltb_lt. cbn. lia. }
  rewrite E. split.
  - intros [F | F].
    + apply U in F. rewrite F. reflexivity.
    + apply N in F. rewrite F. destruct (_ && _); reflexivity.
  - intros NF. destruct (_ && _) eqn:A; [exfalso; apply NF; left; apply U; reflexivity |].
    destruct (is_int_n 9 (a_off m)) eqn:B; [exfalso; apply NF; right; apply N; reflexivity | reflexivity].
Qed.

(* the hypotheses are satisfiable: the rows of `ldr` (X and W data register) and `ldrb` meet them with scale 3, 2 and 0 *)
Example a64_ldst_imm_offset_spec_applies :
  match a64_ldst_row a64c_id_ldr, a64_ldst_row a64c_id_ldrb with
  | RRow r, RRow rb =>
      (l2_shift r =? 0) && a64_gp_type_ok (l_allowed r) 6 && a64_gp_type_ok (l2_allowed r) 6 && a64_check_gp_id 1 (l2_hi r) &&
      (a64_imm_shift r (mkA64Mem 6 1 6 2 0 0 0 0 0 0) =? 3) && (a64_imm_shift r (mkA64Mem 5 1 6 2 0 0 0 0 0 0) =? 2) &&
      (l2_shift rb =? 0) && a64_gp_type_ok (l_allowed rb) 5 && (a64_imm_shift rb (mkA64Mem 5 1 6 2 0 0 0 0 0 0) =? 0)
  | _, _ => false
  end = true.
Proof. vm_compute. reflexivity. Qed.

(* ---------------------------------------------------------------- a64 ldp / stp: arithmetic specification of the offset *)
Lemma simm7_scaled_iff : forall off s, 0 <= s <= 5 -> - 2 ^ 31 <= off < 2 ^ 31 ->
  (((Z.shiftl (Z.shiftr off s) s) mod 2 ^ 32 =? off mod 2 ^ 32) && is_int_n 7 (Z.shiftr off s)) = true <->
  (- 64 * 2 ^ s <= off < 64 * 2 ^ s /\ off mod 2 ^ s = 0).
Proof.
  intros off s Hs Ho.
  rewrite Z.shiftr_div_pow2, Z.shiftl_mul_pow2 by lia.
  unfold is_int_n. rewrite !andb_true_iff, Z.eqb_eq, Z.leb_le, Z.ltb_lt.
  assert (S : s = 0 \/ s = 1 \/ s = 2 \/ s = 3 \/ s = 4 \/ s = 5) by lia.
  change (2 ^ 31) with 2147483648 in Ho. change (2 ^ 32) with 4294967296. change (2 ^ (7 - 1)) with 64.
  destruct S as [S | [S | [S | [S | [S | S]]]]]; subst s; cbn [Z.pow Z.pow_pos Pos.iter Z.mul Pos.mul];
    Z.div_mod_to_equations; lia.
Qed.

(* ldp / stp `[base, #off]` (and the write-back forms where the row has them), for EVERY 32-bit offset: accepted exactly when off
   is a multiple of the access size inside the scaled simm7 range *)
Theorem a64_ldp_offset_spec : forall r m,
  a64_gp_type_ok (lp_allowed r) (p_rtype0 m) = true -> p_rtype0 m = p_rtype1 m ->
  a64_check_gp_id (p_rid0 m) a64c_zr = true -> a64_check_gp_id (p_rid1 m) a64c_zr = true ->
  p_btype m = a64c_reg_type_gp64 -> p_bid m <= 31 -> p_itype m = 0 -> (p_mode m = 0 \/ lp_prepost r <> 0) ->
  - 2 ^ 31 <= p_off m < 2 ^ 31 ->
  let s := lp_shift r + a64_gp_x (lp_allowed r) (p_rtype0 m) in
  0 <= s <= 5 ->
  let fits := - 64 * 2 ^ s <= p_off m < 64 * 2 ^ s /\ (p_off m) mod 2 ^ s = 0 in
  (fits -> a64_ldp_encode_row r m = MOk 4 0) /\ (~ fits -> a64_ldp_encode_row r m = MErr kInvalidDisplacement).
Proof.
  intros r m T EQ G0 G1 Hb Hbid Hi Hm Ho s Hs fits.
  pose proof (simm7_scaled_iff (p_off m) s Hs Ho) as U.
  assert (E : a64_ldp_encode_row r m =
              if ((Z.shiftl (Z.shiftr (p_off m) s) s) mod 2 ^ 32 =? (p_off m) mod 2 ^ 32) && is_int_n 7 (Z.shiftr (p_off m) s)
              then MOk 4 0 else MErr kInvalidDisplacement).
  { unfold a64_ldp_encode_row. rewrite T, G0, G1, <- EQ, Z.eqb_refl, Hb, Hi, Z.eqb_refl. cbn [negb orb Z.eqb]. fold s.
    destruct (_ =? _); cbn [negb andb]; [| reflexivity].
    destruct (is_int_n 7 _); cbn [negb]; [| reflexivity].
    assert (W : negb (p_mode m =? 0) && (lp_prepost r =? 0) = false).
    { destruct Hm as [Hm | Hm]; [rewrite Hm; reflexivity | apply Z.eqb_neq in Hm; rewrite Hm; apply andb_false_r]. }
    rewrite W. apply Z.leb_le in Hbid. rewrite Hbid. reflexivity. }
  rewrite E. split.
  - intros F. apply U in F. rewrite F. reflexivity.
  - intros NF. destruct (_ && _) eqn:A; [exfalso; apply NF; apply U; reflexivity | reflexivity].
Qed.

Example a64_ldp_offset_spec_applies :
  match a64_ldp_row a64c_id_ldp with
  | PRow r => a64_gp_type_ok (lp_allowed r) 6 && a64_gp_type_ok (lp_allowed r) 5 && negb (lp_prepost r =? 0) &&
              (lp_shift r + a64_gp_x (lp_allowed r) 6 =? 3) && (lp_shift r + a64_gp_x (lp_allowed r) 5 =? 2)
  | _ => false
  end = true.
Proof. vm_compute. reflexivity. Qed.

(* ---------------------------------------------------------------- x86 moffs decision: arithmetic specification *)
Lemma sext64_range : forall v, - 2 ^ 63 <= sext 64 v < 2 ^ 63.
Proof.
  intros v. unfold sext. change (2 ^ 64) with 18446744073709551616. change (2 ^ (64 - 1)) with 9223372036854775808. change (2 ^ 63) with 9223372036854775808.
  pose proof (Z.mod_pos_bound v 18446744073709551616 ltac:(lia)).
  destruct (_ <? _) eqn:E; [apply Z.ltb_lt in E | apply Z.ltb_ge in E]; lia.
Qed.

(* the moffs decision of a 64-bit Assembler without a base address, for EVERY 64-bit address: the accumulator form with an
   8-byte address is chosen exactly when neither a sign-extended nor a zero-extended 32-bit displacement reaches the address *)
Theorem x86_use_movabs_spec : forall cur rs m,
  m_addr m <> 2 ->
  let addr := sext 64 (m_off m) in
  x86_use_movabs true false cur rs m = true <-> (addr < - 2 ^ 31 \/ 2 ^ 32 <= addr).
Proof.
  intros cur rs m Ha addr. unfold x86_use_movabs. cbn [negb]. apply Z.eqb_neq in Ha. rewrite Ha. rewrite andb_false_r. fold addr.
  pose proof (sext64_range (m_off m)) as R. fold addr in R.
  unfold sext at 1. change (2 ^ 32) with 4294967296 in *. change (2 ^ (32 - 1)) with 2147483648. change (2 ^ 31) with 2147483648.
  change (2 ^ 63) with 9223372036854775808 in R. change (2 ^ 64) with 18446744073709551616.
  destruct (addr mod 4294967296 <? 2147483648) eqn:L; [apply Z.ltb_lt in L | apply Z.ltb_ge in L];
  destruct (addr =? _) eqn:E; [apply Z.eqb_eq in E | apply Z.eqb_neq in E | apply Z.eqb_eq in E | apply Z.eqb_neq in E];
  rewrite ?Z.leb_le; try (split; [discriminate | ]); Z.div_mod_to_equations; lia.
Qed.

(* ---------------------------------------------------------------- EVEX compressed disp8: arithmetic specification *)
Lemma cdisp8_ok_iff : forall rel cd, 0 <= cd <= 6 -> - 2 ^ 31 <= rel < 2 ^ 31 ->
  cdisp8_ok rel cd = true <-> (-128 * 2 ^ cd <= rel <= 127 * 2 ^ cd /\ rel mod 2 ^ cd = 0).
Proof.
  intros rel cd Hc Hr. unfold cdisp8_ok, is_int8, mod32, sext.
  rewrite Z.shiftr_div_pow2, Z.shiftl_mul_pow2 by lia.
  rewrite !andb_true_iff, !Z.leb_le, Z.eqb_eq.
  change (2 ^ 31) with 2147483648 in Hr. change (2 ^ 32) with 4294967296. change (2 ^ (32 - 1)) with 2147483648.
  assert (S : cd = 0 \/ cd = 1 \/ cd = 2 \/ cd = 3 \/ cd = 4 \/ cd = 5 \/ cd = 6) by lia.
  destruct S as [S | [S | [S | [S | [S | [S | S]]]]]]; subst cd; cbn [Z.pow Z.pow_pos Pos.iter Z.mul Pos.mul];
    (destruct (_ <? _) eqn:L; [apply Z.ltb_lt in L | apply Z.ltb_ge in L]); Z.div_mod_to_equations; lia.
Qed.

(* ---------------------------------------------------------------- round 6: the row hypotheses of the ldr / str specification are
   DISCHARGED for every instruction of the BaseLdSt encoding (reflection over all instruction rows of the dumped tables) *)
Lemma ldst_rows_wf_all :
  forallb (fun id => match a64_ldst_row_at id with
                     | RRow r => (l2_shift r =? 0) && (l2_hi r =? a64c_zr) && (l2_allowed r =? l_allowed r) && (0 <=? l_ushift r) && (l_ushift r <=? 3)
                     | _ => true
                     end) (upto (a64c_inst_id_count - 1)) = true.
Proof. vm_compute. reflexivity. Qed.

Lemma ldst_row_wf : forall inst_id r, 0 <= inst_id -> a64_ldst_row inst_id = RRow r ->
  l2_shift r = 0 /\ l2_hi r = a64c_zr /\ l2_allowed r = l_allowed r /\ 0 <= l_ushift r <= 3.
Proof.
  intros id r H0 R. unfold a64_ldst_row in R.
  assert (B : 0 <= a64_norm_id id <= a64c_inst_id_count - 1).
  { unfold a64_norm_id. destruct (a64c_inst_id_count <=? id) eqn:E; [vm_compute; split; discriminate |]. apply Z.leb_gt in E. lia. }
  pose proof ldst_rows_wf_all as A. rewrite forallb_forall in A. specialize (A _ (in_upto _ _ B)). rewrite R in A.
  repeat (apply andb_true_iff in A; destruct A as [A ?]).
  repeat match goal with H : (_ =? _) = true |- _ => apply Z.eqb_eq in H | H : (_ <=? _) = true |- _ => apply Z.leb_le in H end.
  auto.
Qed.

Lemma imm_shift_range : forall r m, 0 <= l_ushift r <= 3 -> 0 <= a64_imm_shift r m <= 4.
Proof.
  intros r m H. unfold a64_imm_shift. destruct (l_ushift r =? 2).
  - change 1 with (Z.ones 1). rewrite Z.land_ones by lia. pose proof (Z.mod_pos_bound (a64_gp_x (l_allowed r) (a_rtype m)) (2 ^ 1) ltac:(lia)). change (2 ^ 1) with 2 in *. lia.
  - rewrite Z.land_0_r. lia.
Qed.

(* ldr / str / ldrb / ldrh / ldrsb / ldrsh / ldrsw / strb / strh `[Xn, #off]` - EVERY instruction of the encoding, EVERY 32-bit
   offset, no hypothesis about the instruction tables: with a data register the instruction takes and a Gp64 base, the
   instruction is accepted iff off is a multiple of the access size inside the scaled uimm12 range or lies in the simm9 range,
   and is refused with kInvalidDisplacement otherwise *)
Theorem a64_ldst_imm_offset_inst_spec : forall inst_id m r,
  0 <= inst_id -> a64_ldst_row inst_id = RRow r ->
  a64_gp_type_ok (l_allowed r) (a_rtype m) = true -> a64_check_gp_id (a_rid m) a64c_zr = true ->
  a_btype m = a64c_reg_type_gp64 -> a_bid m <= 31 -> a_itype m = 0 -> a_mode m = 0 -> - 2 ^ 31 <= a_off m < 2 ^ 31 ->
  let s := a64_imm_shift r m in
  let fits := (0 <= a_off m < 4096 * 2 ^ s /\ (a_off m) mod 2 ^ s = 0) \/ (-256 <= a_off m <= 255) in
  (a64_ldst inst_id m = MOk 4 0 <-> fits) /\ (~ fits -> a64_ldst inst_id m = MErr kInvalidDisplacement).
Proof.
  intros id m r H0 R T G Hb Hbid Hi Hm Ho s fits.
  destruct (ldst_row_wf id r H0 R) as [W1 [W2 [W3 W4]]].
  pose proof (imm_shift_range r m W4) as Hs.
  assert (T2 : a64_gp_type_ok (l2_allowed r) (a_rtype m) = true) by (rewrite W3; exact T).
  assert (G2 : a64_check_gp_id (a_rid m) (l2_hi r) = true) by (rewrite W2; exact G).
  destruct (a64_ldst_imm_offset_spec r m T G T2 G2 W1 Hb Hbid Hi Hm Ho Hs) as [P N].
  unfold a64_ldst. rewrite R. fold s in P, N. fold fits in P, N. split; [split |].
  - intros E.
    assert (D : fits \/ ~ fits).
    { unfold fits.
      destruct (Z_le_dec 0 (a_off m)), (Z_lt_dec (a_off m) (4096 * 2 ^ s)), (Z.eq_dec ((a_off m) mod 2 ^ s) 0),
               (Z_le_dec (-256) (a_off m)), (Z_le_dec (a_off m) 255); tauto. }
    destruct D as [F | F]; [exact F | rewrite (N F) in E; discriminate E].
  - exact P.
  - exact N.
Qed.

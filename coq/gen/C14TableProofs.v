(* C14 — lemmas over the generated tables (hand-written; lives in coq/gen because it imports VerifGen.C14Tables and is
   re-checked against freshly generated tables whenever the repository's tables change). *)
From Coq Require Import ZArith List Bool String Lia.
From Verif Require Import EmitState.EmitStateModel EmitState.LookupModel EmitState.LookupProofs.
From VerifGen Require Import C14Tables.
Import ListNotations.
Local Open Scope Z_scope.

(* every instrumented look-up site of the assemblers, for every value its index expression can take *)
Lemma lookups_in_range : forall s, In s sites -> forall i, In i (site_idx s) -> exists v, lookup (site_table s) i = Some v.
Proof. exact (sites_ok_sound sites sites_in_range). Qed.

Lemma sites_nonempty : (100 <= List.length sites)%nat.
Proof. vm_compute. repeat constructor. Qed.

(* mem_info_table[base_type | index_type << 5]: every base type and index type an operand signature can carry *)
Lemma mem_info_lookup : forall bt it,
  0 <= bt <= x86c_mem_base_type_max -> 0 <= it <= x86c_mem_index_type_max ->
  exists v, lookup x86_mem_info_table (bt + 32 * it) = Some v.
Proof.
  intros bt it Hb Hi. apply (lookups_in_range site_mem_info site_mem_info_in).
  cbn [site_idx site_mem_info]. apply in_upto.
  unfold x86c_mem_base_type_max, x86c_mem_index_type_max, x86c_mem_base_and_index_types_max in *. lia.
Qed.

Lemma segment_lookup : forall sg, 0 <= sg <= x86c_mem_segment_max ->
  exists v, lookup x86_segment_prefix_table sg = Some v.
Proof.
  intros sg H. apply (lookups_in_range site_segment site_segment_in).
  cbn [site_idx site_segment]. apply in_upto. exact H.
Qed.

(* ll_by_reg_type_table[index_type]: in range for every index type the strict validator lets through *)
Lemma ll_lookup_validated : forall t, 0 <= t <= x86c_mem_index_type_max ->
  (t = 0 \/ Z.testbit x86c_allowed_mem_index_regs_x86 t = true \/ Z.testbit x86c_allowed_mem_index_regs_x64 t = true) ->
  exists v, lookup x86_ll_by_reg_type_table t = Some v.
Proof.
  intros t R [E | [E | E]].
  - subst t. apply (lookups_in_range site_ll_x86 site_ll_x86_in). cbn [site_idx site_ll_x86]. left. reflexivity.
  - apply (lookups_in_range site_ll_x86 site_ll_x86_in). cbn [site_idx site_ll_x86]. right.
    apply in_bits_of; [unfold x86c_mem_index_type_max in R; lia | exact E].
  - apply (lookups_in_range site_ll_x64 site_ll_x64_in). cbn [site_idx site_ll_x64]. right.
    apply in_bits_of; [unfold x86c_mem_index_type_max in R; lia | exact E].
Qed.

(* ... and NOT for every value of the 5-bit field: without validation the read can be out of bounds *)
Lemma ll_lookup_unvalidated_refuted : exists t, 0 <= t <= x86c_mem_index_type_max /\ lookup x86_ll_by_reg_type_table t = None.
Proof.
  exists ll_unvalidated_witness. pose proof ll_unvalidated_oob as H. apply andb_true_iff in H. destruct H as [H1 H2].
  split; [split; [vm_compute; discriminate | apply Z.leb_le; exact H1] |].
  unfold hit in H2. destruct (lookup x86_ll_by_reg_type_table ll_unvalidated_witness); [discriminate | reflexivity].
Qed.

Lemma push_sreg_lookup : forall id, 0 <= id < x86c_sreg_id_count -> exists v, lookup x86_opcode_push_sreg_table id = Some v.
Proof.
  intros id H. apply (lookups_in_range site_push_sreg site_push_sreg_in). cbn [site_idx site_push_sreg]. apply in_upto. lia.
Qed.

Lemma pop_sreg_lookup : forall id, 0 <= id < x86c_sreg_id_count -> exists v, lookup x86_opcode_pop_sreg_table id = Some v.
Proof.
  intros id H. apply (lookups_in_range site_pop_sreg site_pop_sreg_in). cbn [site_idx site_pop_sreg]. apply in_upto. lia.
Qed.

Lemma opcode_tables_lookup : forall k,
  (In k x86_inst_main_idx -> exists v, lookup x86_main_opcode_table k = Some v) /\
  (In k x86_inst_alt_idx -> exists v, lookup x86_alt_opcode_table k = Some v).
Proof.
  intros k. split; intros H.
  - apply (lookups_in_range site_main_opcode site_main_opcode_in). exact H.
  - apply (lookups_in_range site_alt_opcode site_alt_opcode_in). exact H.
Qed.

(* emit_mm_and_opcode: the mm field of every opcode a non-VEX, non-x87 instruction row can hand to the legacy emit tails *)
Lemma opcode_mm_lookup : forall o, In o x86_legacy_opcodes ->
  exists v, lookup x86_opcode_mm_table (Z.land (Z.shiftr o x86c_mm_shift) x86c_mm_index_max) = Some v.
Proof.
  intros o H. apply (lookups_in_range site_opcode_mm site_opcode_mm_in). cbn [site_idx site_opcode_mm].
  apply in_map_iff. exists o. split; [reflexivity | exact H].
Qed.

(* ... while the 5-bit mm field as such (kMM_ForceEvex set, as in EVEX-only rows) would leave the 16-entry table *)
Lemma opcode_mm_field_refuted : exists m, 0 <= m <= x86c_mm_index_max /\ lookup x86_opcode_mm_table m = None.
Proof. exists 16. split; [vm_compute; split; discriminate | reflexivity]. Qed.

Lemma common_hi_lookup : forall t, 0 <= t <= a64c_reg_type_max -> exists v, lookup a64_common_hi_reg_id_of_type_table t = Some v.
Proof.
  intros t H. apply (lookups_in_range site_common_hi site_common_hi_in). cbn [site_idx site_common_hi]. apply in_upto. exact H.
Qed.

(* element_type_to_size_op: every read of SizeOpTable::array is inside it, for EVERY register type (5-bit field) and
   element type (3-bit field) an operand can carry — also non-vector registers and non-register operands *)
Lemma size_op_lookup : forall rt et i,
  0 <= rt <= a64c_reg_type_max -> 0 <= et <= a64c_element_type_max ->
  size_op_read rt et = Some i -> 0 <= i < a64c_size_op_array_len.
Proof.
  intros rt et i Hr He R.
  assert (I : In i (site_idx site_size_op)).
  { cbn [site_idx site_size_op]. unfold size_op_all_indices. apply in_flat_map. exists rt. split; [apply in_upto; exact Hr |].
    apply in_flat_map. exists et. split; [apply in_upto; exact He |]. rewrite R. left. reflexivity. }
  destruct (lookups_in_range site_size_op site_size_op_in _ I) as [v Hv].
  cbn [site_table site_size_op] in Hv.
  assert (E : exists v, nthZ (zeros a64c_size_op_array_len) i = Some v) by eauto.
  apply nthZ_some_iff in E. replace (lenZ (zeros a64c_size_op_array_len)) with a64c_size_op_array_len in E by (vm_compute; reflexivity).
  exact E.
Qed.

(* the vector register types do reach the table (the statement above is not vacuous) *)
Lemma size_op_reads_vectors : forall rt et,
  a64c_reg_type_vec8 <= rt <= a64c_reg_type_vec128 -> 0 <= et <= a64c_element_type_max ->
  exists i, size_op_read rt et = Some i.
Proof.
  intros rt et Hr He. unfold size_op_read. destruct a64c_size_op_guarded; [| eauto].
  unfold size_op_index_guarded, diff32.
  unfold a64c_reg_type_vec8, a64c_reg_type_vec128 in *.
  assert (rt = 7 \/ rt = 8 \/ rt = 9 \/ rt = 10 \/ rt = 11) as [-> | [-> | [-> | [-> | ->]]]] by lia; cbn; eauto.
Qed.

Lemma validator_segment_bound : forall sg, 0 <= sg <= x86c_validator_segment_max -> exists v, lookup x86_segment_prefix_table sg = Some v.
Proof.
  intros sg H. apply segment_lookup. pose proof validator_segment_in_table as V. apply Z.ltb_lt in V.
  unfold x86c_mem_segment_max. unfold x86c_validator_segment_max in *. lia.
Qed.

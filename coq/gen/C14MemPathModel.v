(* C14 — model of the x86 memory-operand path of `add r32, [mem]` (hand-written; lives in coq/gen because it is
   instantiated with the generated tables of VerifGen.C14Tables and with C13's validator tables VerifGen.X86Sigs).
   No proofs here (extracted).

   validate (strict validation, C13's transliteration of x86instapi.cpp)  -->  x86assembler.cpp kEncodingX86Arith
   (Reg, Mem) -> EmitX86M (segment override, address-size override, REX) -> EmitModSib.  Every table read of that path
   goes through `lookup` (None = out-of-bounds read = MStuck):
     mem_info_table[base_type | index_type << 5], segment_prefix_table[segment], mod16_base_index_table[..],
     mod16_base_table[..].
   The verdict (accepted with N bytes | refused with error e) is COMPUTED here and compared with the real encoder.
   Supported forms (the generator produces only these; everything else yields MUnsupported): base/index registers of any
   type and id, base-less addresses in 32-bit mode ([disp32]) and in 64-bit mode (absolute / RIP-relative guessing against
   the base address, zero-extension 67h, AbsToRel relocation), 16-bit addressing; not: label / rip bases (EncPathModel). *)
From Coq Require Import ZArith NArith List Bool.
From Verif Require Import EmitState.EmitStateModel EmitState.LookupModel EmitState.EncPathModel X86Validate.ValidateModel.
From VerifGen Require Import C14Tables X86Sigs.
Import ListNotations.
Local Open Scope Z_scope.

Definition kInvalidRexPrefix := 37.
Definition kInvalidAddress := 43.
Definition kInvalidAddressIndex := 44.
Definition kInvalidAddress64Bit := 46.
Definition kBaseAddress := 65536.   (* the base address of the sessions that have one (harness: 0x10000) *)
Definition mem_path_constants : list Z := [kInvalidRexPrefix; kInvalidAddress; kInvalidAddressIndex; kInvalidAddress64Bit].

(* the fields of the memory operand and of the destination register as the public setters leave them *)
Record memf := mkMem {
  m_dst : Z;                    (* id of the Gp32 destination register *)
  m_btype : Z; m_bid : Z;       (* base register type (5-bit field) and id *)
  m_itype : Z; m_iid : Z;       (* index register type and id *)
  m_shift : Z; m_seg : Z; m_addr : Z; m_size : Z;
  m_off : Z }.                  (* 64-bit offset (two's complement, signed) *)

Inductive mres := MOk (nbytes relocs : Z) | MErr (e : Z) | MStuck | MUnsupported.

Definition sext (bits v : Z) : Z := let m := v mod 2 ^ bits in if m <? 2 ^ (bits - 1) then m else m - 2 ^ bits.
Definition is_int8 (v : Z) : bool := (-128 <=? v) && (v <=? 127).

(* ---------------------------------------------------------------- the strict validator as it is on HEAD
   C13's `validate` (Verif.X86Validate.ValidateModel).  Since C13's round 5 it contains the check of /repo 4824306 itself (a
   physical vector register 16..31 on an instruction without an EVEX encoding is refused with kInvalidPhysId inside the
   operand loop); the adapter that inserted it in round 5 is now the identity and only fixes the `virt_ok = false` argument. *)
Definition validate_head (T : vtables) (zq x64 : bool) (inst : vinst) (ops : list operand) : N :=
  validate T zq x64 false inst ops.

Definition bind_l (o : option Z) (f : Z -> mres) : mres := match o with Some v => f v | None => MStuck end.

(* EmitX86M prefixes + EmitModSib, transcribed branch by branch; `x64` selects the mode *)
(* `absloc`: the code has a base address and the current section is .text (EmitterUtils::is_absolute_location);
   `cur`: offset of the instruction in its section (needed for the RIP-relative guess of base-less 64-bit addresses) *)
(* `npp`: bytes of the mandatory prefix (66h) emitted before REX; `rexop`: the REX bits that come from the opcode word and the
   options (`opcode.extract_rex(options)`: W = 8, a forced REX = 64, the "REX is invalid here" mark = 128); both are 0 for
   `add r32, [mem]` *)
Definition x86_modrm_mem_encode (x64 absloc : bool) (cur npp rexop : Z) (m : memf) : mres :=
  bind_l (lookup x86_mem_info_table (m_btype m + 32 * m_itype m)) (fun rm_info =>
  bind_l (lookup x86_segment_prefix_table (m_seg m)) (fun segp =>
  let nseg := if segp =? 0 then 0 else 1 in
  let nao := if Z.land rm_info (if x64 then 128 else 64) =? 0 then 0 else 1 in
  let rex0 := Z.lor (Z.lor (Z.land (Z.shiftr (m_bid m) 3) 1) (Z.land (Z.shiftr (m_iid m) 2) 2)) (Z.land (Z.shiftr (m_dst m) 1) 4) in
  let rex1 := Z.lor (Z.lor (Z.land rex0 rm_info) rexop) (if x64 then 0 else 128) in
  if 128 <? rex1 then MErr kInvalidRexPrefix else
  let nrex := if Z.land rex1 127 =? 0 then 0 else 1 in
  let pre := nseg + nao + npp + nrex + 1 in
  let opreg := Z.land (m_dst m) 7 in
  let rel := sext 32 (m_off m) in
  let has_base := negb (Z.land rm_info 1 =? 0) in
  let has_index := negb (Z.land rm_info 2 =? 0) in
  let a16 := negb (Z.land rm_info 64 =? 0) in
  let lbl_or_rip := negb (Z.land rm_info 48 =? 0) in
  if negb has_index && negb a16 then
    if has_base then
      let rb := Z.land (m_bid m) 7 in
      if rb =? 4 then (if rel =? 0 then MOk (pre + 2) 0 else if is_int8 rel then MOk (pre + 3) 0 else MOk (pre + 6) 0)
      else if negb (rb =? 5) && (rel =? 0) then MOk (pre + 1) 0
      else if is_int8 rel then MOk (pre + 2) 0 else MOk (pre + 5) 0
    else if lbl_or_rip then MUnsupported
    else if x64 then
      (* [ABSOLUTE | DISP32] in 64-bit mode: absolute (SIB form, 67h when only zero extension reaches it) or RIP-relative *)
      let off := sext 64 (m_off m) in
      let is_i32 := off =? sext 32 off in
      let is_u32 := (0 <=? off) && (off <? 2 ^ 32) in
      let at0 := m_addr m in
      let atp := if at0 =? 0 then (if absloc then (if is_i32 || is_u32 then 1 else 2) else (if 5 <=? m_seg m then 1 else 2)) else at0 in
      let abs_tail := if is_i32 then MOk (pre + 6) 0 else if is_u32 then MOk (pre + 7) 0 else MErr kInvalidAddress64Bit in
      if atp =? 2 then
        if negb absloc then MOk (pre + 5) 1                  (* AbsToRel relocation, displacement unknown yet *)
        else let rel := sext 64 (off - (kBaseAddress + cur + pre + 5)) in
             if rel =? sext 32 rel then MOk (pre + 5) 0
             else if at0 =? 2 then MErr kInvalidAddress else abs_tail
      else abs_tail
    else if m_addr m =? 2 then MErr kInvalidAddress        (* Mem::AddrType::kRel in 32-bit mode *)
    else MOk (pre + 5) 0
  else if negb a16 then
    if m_iid m =? 4 then MErr kInvalidAddressIndex
    else if has_base then
      let rb := Z.land (m_bid m) 7 in
      if (rel =? 0) && negb (rb =? 5) then MOk (pre + 2) 0 else if is_int8 rel then MOk (pre + 3) 0 else MOk (pre + 6) 0
    else if lbl_or_rip then MUnsupported
    else MOk (pre + 6) 0
  else
    let rel16 := sext 16 (m_off m) in
    if has_base || has_index then
      let rb := Z.land (m_bid m) 7 in
      let rx := Z.land (m_iid m) 7 in
      let after (md : Z) : mres :=
        if md =? 255 then MErr kInvalidAddress
        else let md' := md + Z.shiftl opreg 3 in
             if (rel16 =? 0) && negb (Z.land md' 7 =? 6) then MOk (pre + 1) 0
             else if is_int8 rel16 then MOk (pre + 2) 0 else MOk (pre + 3) 0 in
      if has_base && has_index then
        if negb (m_shift m =? 0) then MErr kInvalidAddress
        else bind_l (lookup x86_mod16_base_index_table (mod16_index rb rx)) after
      else bind_l (lookup x86_mod16_base_table (if has_index then rx else rb)) after
    else if lbl_or_rip then MErr kInvalidAddress
    else MOk (pre + 3) 0)).

Definition x86_add_mem_encode (x64 absloc : bool) (cur : Z) (m : memf) : mres := x86_modrm_mem_encode x64 absloc cur 0 0 m.

(* strict validation first (C13's model over C13's generated tables) *)
Definition validate_add_mem (x64 : bool) (add_id : Z) (m : memf) : Z :=
  let off := if m_btype m =? 0 then sext 64 (m_off m) else sext 32 (m_off m) in
  Z.of_N (validate_head x86_vtables false x64
            {| vi_id := Z.to_N add_id; vi_options := 0%N; vi_extra_type := 0%N; vi_extra_id := 0%N |}
            [OReg RT_Gp32 (Z.to_N (m_dst m));
             OMem (Z.to_N (m_size m)) (Z.to_N (m_btype m)) (Z.to_N (m_bid m)) (Z.to_N (m_itype m)) (Z.to_N (m_iid m)) off
                  (Z.to_N (m_seg m)) 0%N false]).

Definition x86_add_mem (x64 absloc : bool) (cur : Z) (add_id : Z) (m : memf) : mres :=
  let e := validate_add_mem x64 add_id m in
  if e =? 0 then x86_add_mem_encode x64 absloc cur m else MErr e.

(* hand the verdict to the emit transaction of EmitStateModel *)
Definition mem_cmd (a : arch) (has_base_address : bool) (s : state) (add_id : Z) (m : memf) : option cmd :=
  match x86_add_mem (match a with X86_64 => true | _ => false end) (has_base_address && (st_cur s =? 0)) (cur_size s) add_id m with
  | MOk n dr => Some (CInst (EncOk n None false dr 0 0))
  | MErr e => Some (CInst (EncErr e))
  | MStuck | MUnsupported => None
  end.

(* ---------------------------------------------------------------- VEX + VSIB: vgatherdps xmm|ymm, [base + xmm|ymm*s + d], xmm|ymm
   kEncodingVexRmvRm_VM (Reg, Mem, Reg) -> opcode_l_by_vmem (ll_by_reg_type_table[index_type]) and opcode_l_by_size
   (ll_by_size_div_16_table[size / 16]) -> EmitVexEvexM (segment / address-size override, VEX3 prefix: map 0F38) ->
   EmitModVSib.  This operand form has no EVEX encoding: register ids >= 16 are refused with kInvalidPhysId (the generator
   produces them only when the sweep `c14_harness sweep-vexonly` finds the repair in place); a 512-bit index/size is
   MUnsupported (the validator refuses it). *)
Definition kInvalidInstruction := 26.

Record vsibf := mkVsib { v_type : Z; v_dst : Z; v_mask : Z; v_dsize : Z; v_mem : memf }.   (* v_mem.m_dst is unused *)

Definition x86_vgather_encode (x64 : bool) (v : vsibf) : mres :=
  let m := v_mem v in
  bind_l (lookup x86_mem_info_table (m_btype m + 32 * m_itype m)) (fun rm_info =>
  bind_l (lookup x86_segment_prefix_table (m_seg m)) (fun segp =>
  bind_l (lookup x86_ll_by_reg_type_table (m_itype m)) (fun ll_v =>
  bind_l (lookup x86_ll_by_size_div_16_table (v_dsize v / 16)) (fun ll_s =>
  let nseg := if segp =? 0 then 0 else 1 in
  let nao := if Z.land rm_info (if x64 then 128 else 64) =? 0 then 0 else 1 in
  let has_index_reg := negb (m_itype m =? 0) in
  let ll := Z.max ll_v ll_s in
  (* the three-operand (vector mask) form exists VEX-encoded only: ids 16..31 are refused (fixes/C14-vex-only-high-registers) *)
  if (16 <=? v_dst v) || (16 <=? v_mask v) || (has_index_reg && (16 <=? m_iid m)) then MErr kInvalidPhysId else
  if 1073741824 <=? ll then MUnsupported else
  let pre := nseg + nao + 4 in
  let rel := sext 32 (m_off m) in
  if Z.land rm_info 2 =? 0 then MErr kInvalidInstruction                 (* VSIB without an index register *)
  else if negb (Z.land rm_info 1 =? 0) then
    let rb := Z.land (m_bid m) 7 in
    if (rel =? 0) && negb (rb =? 5) then MOk (pre + 2) 0 else if is_int8 rel then MOk (pre + 3) 0 else MOk (pre + 6) 0
  else if Z.land rm_info 48 =? 0 then MOk (pre + 6) 0
  else if x64 then MErr kInvalidAddress
  else MUnsupported)))).

Definition validate_vgather (x64 : bool) (inst_id : Z) (v : vsibf) : Z :=
  let m := v_mem v in
  let off := if m_btype m =? 0 then sext 64 (m_off m) else sext 32 (m_off m) in
  Z.of_N (validate_head x86_vtables false x64
            {| vi_id := Z.to_N inst_id; vi_options := 0%N; vi_extra_type := 0%N; vi_extra_id := 0%N |}
            [OReg (Z.to_N (v_type v)) (Z.to_N (v_dst v));
             OMem (Z.to_N (m_size m)) (Z.to_N (m_btype m)) (Z.to_N (m_bid m)) (Z.to_N (m_itype m)) (Z.to_N (m_iid m)) off
                  (Z.to_N (m_seg m)) 0%N false;
             OReg (Z.to_N (v_type v)) (Z.to_N (v_mask v))]).

Definition x86_vgather (x64 : bool) (inst_id : Z) (v : vsibf) : mres :=
  let e := validate_vgather x64 inst_id v in
  if e =? 0 then x86_vgather_encode x64 v else MErr e.

Definition vsib_cmd (a : arch) (inst_id : Z) (v : vsibf) : option cmd :=
  match x86_vgather (match a with X86_64 => true | _ => false end) inst_id v with
  | MOk n dr => Some (CInst (EncOk n None false dr 0 0))
  | MErr e => Some (CInst (EncErr e))
  | MStuck | MUnsupported => None
  end.

(* the index types the strict validator lets through (its allowed_mem_index_regs masks, dumped into C14Tables) *)
Definition index_type_allowed (it : Z) : Prop :=
  it = 0 \/ Z.testbit x86c_allowed_mem_index_regs_x86 it = true \/ Z.testbit x86c_allowed_mem_index_regs_x64 it = true.

(* ---------------------------------------------------------------- push / pop of a segment register
   kEncodingX86Push / kEncodingX86Pop (Reg, segment): `segment >= SReg::kIdCount -> InvalidSegment` (pop: also CS), then
   opcode_push_sreg_table[segment] / opcode_pop_sreg_table[segment], EmitX86Op: emit_mm_and_opcode reads
   opcode_mm_table[mm of that opcode].  The register type field is kSegment (25), the id is arbitrary. *)
Definition kInvalidSegment := 49.
Definition kRegTypeSegment := 25.
Definition kSegCs := 2.

Definition x86_pushpop_sreg_encode (is_pop : bool) (id : Z) : mres :=
  if (x86c_sreg_id_count <=? id) || (is_pop && (id =? kSegCs)) then MErr kInvalidSegment else
  bind_l (lookup (if is_pop then x86_opcode_pop_sreg_table else x86_opcode_push_sreg_table) id) (fun opc =>
  bind_l (lookup x86_opcode_mm_table (Z.land (Z.shiftr opc x86c_mm_shift) x86c_mm_index_max)) (fun mm_size =>
  MOk (mm_size + 1) 0)).

Definition validate_pushpop_sreg (x64 : bool) (inst_id id : Z) : Z :=
  Z.of_N (validate_head x86_vtables false x64
            {| vi_id := Z.to_N inst_id; vi_options := 0%N; vi_extra_type := 0%N; vi_extra_id := 0%N |}
            [OReg (Z.to_N kRegTypeSegment) (Z.to_N id)]).

Definition x86_pushpop_sreg (x64 is_pop : bool) (inst_id id : Z) : mres :=
  let e := validate_pushpop_sreg x64 inst_id id in
  if e =? 0 then x86_pushpop_sreg_encode is_pop id else MErr e.

Definition pushpop_cmd (a : arch) (is_pop : bool) (inst_id id : Z) : option cmd :=
  match x86_pushpop_sreg (match a with X86_64 => true | _ => false end) is_pop inst_id id with
  | MOk n dr => Some (CInst (EncOk n None false dr 0 0))
  | MErr e => Some (CInst (EncErr e))
  | MStuck | MUnsupported => None
  end.

(* ---------------------------------------------------------------- a64: load / store addressing (kEncodingBaseLdSt)
   a64assembler.cpp `case InstDB::kEncodingBaseLdSt` for (Reg, Mem) with a register base (label / literal forms belong to
   EncPathModel): check_gp_type / check_gp_id of the data register, check_mem_base_index_rel, the register-index arm
   (shift_op_to_ld_st_opt_map[shift_op], index width, write-back, scale), the immediate arm (pre/post simm9, scaled
   uimm12, else the ldur/stur fallback `Case_BaseLdurStur` through _inst_info_table[u_alt_inst_id] and baseRM_SImm9[..]),
   and the EmitOp_MemBase_Rn5 / EmitOp_MemBaseIndex_Rn5_Rm16 tails.  The a64 strict validator is a no-op (a64instapi.cpp
   validate returns Ok), so these checks are the only line of defence.  Every table read goes through `lookup`. *)
Definition kInvalidAddressScale := 45.
Definition a64_path_constants : list Z := [kInvalidSegment; kInvalidInstruction; kInvalidAddressScale].

Record a64memf := mkA64Mem {
  a_rtype : Z; a_rid : Z;        (* type and id of the data register (operand 0) *)
  a_btype : Z; a_bid : Z;        (* base register type and id *)
  a_itype : Z; a_iid : Z;        (* index register type and id *)
  a_shiftop : Z; a_shift : Z;    (* shift operation (4-bit field) and shift amount (5-bit field) *)
  a_mode : Z;                    (* offset mode: 0 fixed, 1 pre-index, 2 post-index (2-bit field) *)
  a_off : Z }.                   (* the signed 32-bit offset (a register base leaves only 32 bits) *)

Definition a64_check_gp_id (id hi : Z) : bool := (id <? 31) || (id =? hi).
Definition a64_gp_type_ok (allowed rtype : Z) : bool := Z.testbit (Z.shiftl allowed a64c_reg_type_gp32) rtype.
Definition a64_gp_x (allowed rtype : Z) : Z := Z.land (diff32 rtype a64c_reg_type_gp32) allowed.
Definition is_int_n (n v : Z) : bool := (- 2 ^ (n - 1) <=? v) && (v <? 2 ^ (n - 1)).

(* check_mem_base_index_rel *)
Definition a64_check_mem_base_index_rel (m : a64memf) : bool :=
  let bmask := Z.lor (Z.lor 1 (Z.shiftl 1 a64c_reg_type_label_tag)) (Z.shiftl 1 a64c_reg_type_gp64) in
  let imask := Z.lor (Z.lor 1 (Z.shiftl 1 a64c_reg_type_gp32)) (Z.shiftl 1 a64c_reg_type_gp64) in
  if negb (Z.testbit bmask (a_btype m)) then false else
  if a64c_reg_type_label_tag <? a_btype m then
    if negb (Z.testbit imask (a_itype m)) then false else
    if a_itype m =? 0 then true else (a_off m =? 0)
  else a_itype m =? 0.

Definition a64_check_mem_base (m : a64memf) : bool := (a_btype m =? a64c_reg_type_gp64) && (a_bid m <=? 31).
Definition a64_emit_mem_base (m : a64memf) : mres := if a64_check_mem_base m then MOk 4 0 else MErr kInvalidAddress.
Definition a64_emit_mem_base_index (m : a64memf) : mres :=
  if negb (a64_check_mem_base m) then MErr kInvalidAddress else
  if (30 <? a_iid m) && negb (a_iid m =? a64c_id_zr) then MErr kInvalidPhysId else MOk 4 0.

(* the rows of the instruction tables one load / store instruction reads *)
Record ldst_row := mkLdSt { l_allowed : Z; l_ushift : Z; l_literal : Z;
                            l2_allowed : Z; l2_hi : Z; l2_shift : Z; l2_prepost : Z }.
Inductive rowres := RRow (r : ldst_row) | ROther | RStuck.
Definition bind_r (o : option Z) (f : Z -> rowres) : rowres := match o with Some v => f v | None => RStuck end.

Definition a64_norm_id (inst_id : Z) : Z := if a64c_inst_id_count <=? inst_id then 0 else inst_id.   (* `inst_id >= _kIdCount -> 0` *)
Definition a64_ldst_row_at (id : Z) : rowres :=
  bind_r (lookup a64_inst_encoding id) (fun enc =>
  if negb (enc =? a64c_encoding_base_ldst) then ROther else
  bind_r (lookup a64_inst_encoding_data_index id) (fun ei =>
  bind_r (lookup a64_ldst_reg_type ei) (fun allowed =>
  bind_r (lookup a64_ldst_u_offset_shift ei) (fun us =>
  bind_r (lookup a64_ldst_literal_op ei) (fun lit =>
  bind_r (lookup a64_ldst_u_alt_inst_id ei) (fun alt =>
  bind_r (lookup a64_inst_encoding_data_index alt) (fun ei2 =>    (* _inst_info_table[u_alt_inst_id], unguarded *)
  bind_r (lookup a64_simm9_reg_type ei2) (fun allowed2 =>
  bind_r (lookup a64_simm9_reg_hi_id ei2) (fun hi2 =>
  bind_r (lookup a64_simm9_imm_shift ei2) (fun sh2 =>
  bind_r (lookup a64_simm9_pre_post_op ei2) (fun pp2 =>
  RRow (mkLdSt allowed us lit allowed2 hi2 sh2 pp2)))))))))))).
Definition a64_ldst_row (inst_id : Z) : rowres := a64_ldst_row_at (a64_norm_id inst_id).

(* the scale of the unsigned-offset form: u_offset_shift, one more for the X form of the word/dword instructions *)
Definition a64_imm_shift (r : ldst_row) (m : a64memf) : Z :=
  l_ushift r + Z.land (a64_gp_x (l_allowed r) (a_rtype m)) (if l_ushift r =? 2 then 1 else 0).

(* Case_BaseLdurStur, entered from the immediate arm (register base, no index) *)
Definition a64_ldur_encode (r : ldst_row) (m : a64memf) : mres :=
  if negb (a64_gp_type_ok (l2_allowed r) (a_rtype m)) then MErr kInvalidInstruction else
  if negb (a64_check_gp_id (a_rid m) (l2_hi r)) then MErr kInvalidPhysId else
  let o32 := Z.shiftr (a_off m) (l2_shift r) in
  if negb ((Z.shiftl o32 (l2_shift r)) mod 2 ^ 32 =? (a_off m) mod 2 ^ 32) then MErr kInvalidDisplacement else
  if negb (is_int_n 9 o32) then MErr kInvalidDisplacement else
  if a_mode m =? 0 then a64_emit_mem_base m
  else if l2_prepost r =? 0 then MErr kInvalidInstruction else a64_emit_mem_base m.

Definition a64_ldst_encode_row (r : ldst_row) (m : a64memf) : mres :=
  if negb (a64_gp_type_ok (l_allowed r) (a_rtype m)) then MErr kInvalidInstruction else
  if negb (a64_check_gp_id (a_rid m) a64c_zr) then MErr kInvalidPhysId else
  let x := a64_gp_x (l_allowed r) (a_rtype m) in
  let imm_shift := l_ushift r + Z.land x (if l_ushift r =? 2 then 1 else 0) in
  if negb (a64_check_mem_base_index_rel m) then MErr kInvalidAddress else
  if a64c_reg_type_label_tag <? a_btype m then
    if negb (a_itype m =? 0) then
      bind_l (lookup a64_shift_op_to_ld_st_opt_map (a_shiftop m)) (fun opt =>
      if opt =? 255 then MErr kInvalidAddress else
      if negb (a_itype m =? (if Z.testbit opt 0 then a64c_reg_type_gp64 else a64c_reg_type_gp32)) || negb (a_mode m =? 0)
      then MErr kInvalidAddress else
      if negb (a_shift m =? 0) && negb (a_shift m =? imm_shift) then MErr kInvalidAddressScale else
      a64_emit_mem_base_index m)
    else
      if negb (is_int_n 32 (a_off m)) then MErr kInvalidDisplacement else
      if negb (a_mode m =? 0) then
        if negb (is_int_n 9 (a_off m)) then MErr kInvalidDisplacement else a64_emit_mem_base m
      else
        let u := (a_off m) mod 2 ^ 32 in
        let imm12 := Z.shiftr u imm_shift in
        if (imm12 <? 4096) && ((Z.shiftl imm12 imm_shift) mod 2 ^ 32 =? u) then a64_emit_mem_base m
        else a64_ldur_encode r m
  else if l_literal r =? 0 then MErr kInvalidAddress else MUnsupported.

Definition a64_ldst (inst_id : Z) (m : a64memf) : mres :=
  match a64_ldst_row inst_id with
  | RRow r => a64_ldst_encode_row r m
  | ROther => MUnsupported
  | RStuck => MStuck
  end.

Definition a64_ldst_cmd (inst_id : Z) (m : a64memf) : option cmd :=
  match a64_ldst inst_id m with
  | MOk n dr => Some (CInst (EncOk n None false dr 0 0))
  | MErr e => Some (CInst (EncErr e))
  | MStuck | MUnsupported => None
  end.

(* ---------------------------------------------------------------- a64: load / store pair (kEncodingBaseLdpStp)
   ldp / stp / ldnp / stnp / ldpsw / stgp (Reg, Reg, Mem): both data registers of the allowed width and of ONE signature,
   check_gp_id of both, a Gp64 base without index, the offset scaled by offset_shift + x exactly and inside simm7, write-back
   only where the row has a pre/post opcode, EmitOp_MemBase_Rn5. *)
Record a64pairf := mkA64Pair {
  p_rtype0 : Z; p_rid0 : Z; p_rtype1 : Z; p_rid1 : Z;     (* the two data registers *)
  p_btype : Z; p_bid : Z; p_itype : Z;                    (* base type / id, index type *)
  p_mode : Z; p_off : Z }.                                (* offset mode, signed 32-bit offset *)

Record ldp_row := mkLdp { lp_allowed : Z; lp_shift : Z; lp_prepost : Z }.
Inductive prowres := PRow (r : ldp_row) | POther | PStuck.
Definition bind_p (o : option Z) (f : Z -> prowres) : prowres := match o with Some v => f v | None => PStuck end.

Definition a64_ldp_row_at (id : Z) : prowres :=
  bind_p (lookup a64_inst_encoding id) (fun enc =>
  if negb (enc =? a64c_encoding_base_ldpstp) then POther else
  bind_p (lookup a64_inst_encoding_data_index id) (fun ei =>
  bind_p (lookup a64_ldpstp_reg_type ei) (fun allowed =>
  bind_p (lookup a64_ldpstp_offset_shift ei) (fun sh =>
  bind_p (lookup a64_ldpstp_pre_post_op ei) (fun pp =>
  PRow (mkLdp allowed sh pp)))))).
Definition a64_ldp_row (inst_id : Z) : prowres := a64_ldp_row_at (a64_norm_id inst_id).

Definition a64_ldp_encode_row (r : ldp_row) (m : a64pairf) : mres :=
  if negb (a64_gp_type_ok (lp_allowed r) (p_rtype0 m)) || negb (p_rtype0 m =? p_rtype1 m) then MErr kInvalidInstruction else
  if negb (a64_check_gp_id (p_rid0 m) a64c_zr) || negb (a64_check_gp_id (p_rid1 m) a64c_zr) then MErr kInvalidPhysId else
  if negb (p_btype m =? a64c_reg_type_gp64) || negb (p_itype m =? 0) then MErr kInvalidAddress else
  let sh := lp_shift r + a64_gp_x (lp_allowed r) (p_rtype0 m) in
  let o32 := Z.shiftr (p_off m) sh in
  if negb ((Z.shiftl o32 sh) mod 2 ^ 32 =? (p_off m) mod 2 ^ 32) then MErr kInvalidDisplacement else
  if negb (is_int_n 7 o32) then MErr kInvalidDisplacement else
  if negb (p_mode m =? 0) && (lp_prepost r =? 0) then MErr kInvalidAddress else
  if p_bid m <=? 31 then MOk 4 0 else MErr kInvalidAddress.

Definition a64_ldp (inst_id : Z) (m : a64pairf) : mres :=
  match a64_ldp_row inst_id with
  | PRow r => a64_ldp_encode_row r m
  | POther => MUnsupported
  | PStuck => MStuck
  end.

Definition a64_ldp_cmd (inst_id : Z) (m : a64pairf) : option cmd :=
  match a64_ldp inst_id m with
  | MOk n dr => Some (CInst (EncOk n None false dr 0 0))
  | MErr e => Some (CInst (EncErr e))
  | MStuck | MUnsupported => None
  end.

(* ---------------------------------------------------------------- a64: SIMD / FP load / store (kEncodingSimdLdSt)
   ldr / str of a B/H/S/D/Q register (register types Vec8..Vec128, no element type or index), same addressing arms as
   BaseLdSt with the access size xsz = type - Vec8 as scale, the ldur/stur fallback `Case_SimdLdurStur` through
   _inst_info_table[u_alt_inst_id] and simdLdurStur[..]; vector ids 0..31. *)
Definition kInvalidRegType := 27.
Definition a64_simd_constants : list Z := [kInvalidRegType].
Record a64vmemf := mkA64VMem { av_et : Z; av_ei : bool; av_mem : a64memf }.   (* element type, has-element-index, the rest *)

Record simd_row := mkSimd { sl_literal : Z }.
Inductive srowres := SRow (r : simd_row) | SOther | SStuck.
Definition bind_sr (o : option Z) (f : Z -> srowres) : srowres := match o with Some v => f v | None => SStuck end.

Definition a64_simd_row_at (id : Z) : srowres :=
  bind_sr (lookup a64_inst_encoding id) (fun enc =>
  if negb (enc =? a64c_encoding_simd_ldst) then SOther else
  bind_sr (lookup a64_inst_encoding_data_index id) (fun ei =>
  bind_sr (lookup a64_simdldst_literal_op ei) (fun lit =>
  bind_sr (lookup a64_simdldst_u_alt_inst_id ei) (fun alt =>
  bind_sr (lookup a64_inst_encoding_data_index alt) (fun ei2 =>     (* _inst_info_table[u_alt_inst_id], unguarded *)
  bind_sr (lookup a64_simdldur_opcode ei2) (fun _ =>
  SRow (mkSimd lit))))))).
Definition a64_simd_row (inst_id : Z) : srowres := a64_simd_row_at (a64_norm_id inst_id).

Definition a64_simd_encode_row (r : simd_row) (v : a64vmemf) : mres :=
  let m := av_mem v in
  let xsz := diff32 (a_rtype m) a64c_reg_type_vec8 in
  if (4 <? xsz) || av_ei v || negb (av_et v =? 0) then MErr kInvalidRegType else
  if 31 <? a_rid m then MErr kInvalidPhysId else
  if negb (a64_check_mem_base_index_rel m) then MErr kInvalidAddress else
  if a64c_reg_type_label_tag <? a_btype m then
    if negb (a_itype m =? 0) then
      bind_l (lookup a64_shift_op_to_ld_st_opt_map (a_shiftop m)) (fun opt =>
      if opt =? 255 then MErr kInvalidAddress else
      if negb (a_itype m =? (if Z.testbit opt 0 then a64c_reg_type_gp64 else a64c_reg_type_gp32)) || negb (a_mode m =? 0)
      then MErr kInvalidAddress else
      if negb (a_shift m =? 0) && negb (a_shift m =? xsz) then MErr kInvalidAddressScale else
      a64_emit_mem_base_index m)
    else
      if negb (is_int_n 32 (a_off m)) then MErr kInvalidDisplacement else
      if negb (a_mode m =? 0) then
        if negb (is_int_n 9 (a_off m)) then MErr kInvalidDisplacement else a64_emit_mem_base m
      else
        let u := (a_off m) mod 2 ^ 32 in
        let imm12 := Z.shiftr u xsz in
        if (imm12 <? 4096) && ((Z.shiftl imm12 xsz) mod 2 ^ 32 =? u) then a64_emit_mem_base m
        else if negb (is_int_n 9 (a_off m)) then MErr kInvalidDisplacement else a64_emit_mem_base m     (* Case_SimdLdurStur *)
  else if sl_literal r =? 0 then MErr kInvalidAddress
  else if xsz <? 2 then MErr kInvalidRegType else MUnsupported.

Definition a64_simd_ldst (inst_id : Z) (v : a64vmemf) : mres :=
  match a64_simd_row inst_id with
  | SRow r => a64_simd_encode_row r v
  | SOther => MUnsupported
  | SStuck => MStuck
  end.

Definition a64_simd_ldst_cmd (inst_id : Z) (v : a64vmemf) : option cmd :=
  match a64_simd_ldst inst_id v with
  | MOk n dr => Some (CInst (EncOk n None false dr 0 0))
  | MErr e => Some (CInst (EncErr e))
  | MStuck | MUnsupported => None
  end.

(* ---------------------------------------------------------------- x86: shift / rotate of a register by an immediate
   kEncodingX86Rot (Reg, Imm): add_arith_by_size(size), FIXUP_GPB for byte registers, `imm & 0xFF`, the by-one short form
   unless kLongForm, then EmitX86R: emit_pp (opcode_pp_table[pp]), REX (extract_rex(options) | rb >> 3, is_rex_invalid),
   emit_mm_and_opcode (opcode_mm_table[mm]), ModRM, imm8.  Register type, id and size are arbitrary; the strict validator
   (C13's model) runs first. *)
Record shiftf := mkShift { s_rtype : Z; s_rid : Z; s_size : Z; s_imm : Z }.

(* Opcode::add_arith_by_size: `operator|=(mask[size & 0xF])`; the function-local table is read from x86opcode_p.h by the translator *)
Definition arith_by_size_mask (k : Z) : Z := match lookup x86_arith_by_size_mask k with Some v => v | None => 0 end.

Inductive shrow := ShRow (npp mm_size opc : Z) | ShOther | ShStuck.
Definition bind_s (o : option Z) (f : Z -> shrow) : shrow := match o with Some v => f v | None => ShStuck end.

(* the table reads of one instruction id and one size class (size & 15) *)
Definition x86_legacy_row_at (enc_wanted id k : Z) : shrow :=
  bind_s (lookup x86_inst_encoding id) (fun enc =>
  if negb (enc =? enc_wanted) then ShOther else
  bind_s (lookup x86_inst_main_idx id) (fun mi =>
  bind_s (lookup x86_main_opcode_table mi) (fun opc0 =>
  let opc := Z.lor opc0 (arith_by_size_mask k) in
  let pp := Z.land (Z.shiftr opc x86c_pp_shift) x86c_pp_index_max in
  bind_s (lookup x86_opcode_pp_table pp) (fun _ =>
  bind_s (lookup x86_opcode_mm_table (Z.land (Z.shiftr opc x86c_mm_shift) x86c_mm_index_max)) (fun mm_size =>
  ShRow (if pp =? 0 then 0 else 1) mm_size opc))))).

Definition x86_shift_row_at (id k : Z) : shrow := x86_legacy_row_at x86c_encoding_x86_rot id k.
Definition x86_norm_id (inst_id : Z) : Z := if x86c_inst_id_count <=? inst_id then 0 else inst_id.

Definition x86_shift_imm_encode (x64 long : bool) (inst_id : Z) (f : shiftf) : mres :=
  match x86_shift_row_at (x86_norm_id inst_id) (Z.land (s_size f) 15) with
  | ShStuck => MStuck
  | ShOther => MUnsupported
  | ShRow npp mm_size opc =>
      let is8 := s_size f =? 1 in
      let hi := s_rtype f =? x86c_reg_type_gp8hi in
      let opt := Z.lor (if x64 then 0 else x86c_opt_invalid_rex)
                       (if is8 then (if hi then x86c_opt_invalid_rex else if 4 <=? s_rid f then x86c_opt_rex else 0) else 0) in
      let rb := if is8 && hi then s_rid f + 4 else s_rid f in
      let imm8 := Z.land (s_imm f) 255 in
      let imm_size := if (imm8 =? 1) && negb long then 0 else 1 in
      let rex := Z.lor (Z.shiftr (Z.lor opc opt) x86c_rex_shift) (Z.shiftr (Z.land rb 8) 3) in
      if x86c_byte_invalid_rex <? rex then MErr kInvalidRexPrefix else
      let nrex := if Z.land rex 127 =? 0 then 0 else 1 in
      MOk (npp + nrex + mm_size + 2 + imm_size) 0
  end.

Definition validate_shift_imm (x64 long : bool) (inst_id : Z) (f : shiftf) : Z :=
  Z.of_N (validate_head x86_vtables false x64
            {| vi_id := Z.to_N inst_id; vi_options := (if long then 32%N else 0%N); vi_extra_type := 0%N; vi_extra_id := 0%N |}
            [OReg (Z.to_N (s_rtype f)) (Z.to_N (s_rid f)); OImm (s_imm f)]).

Definition x86_shift_imm (x64 long : bool) (inst_id : Z) (f : shiftf) : mres :=
  let e := validate_shift_imm x64 long inst_id f in
  if e =? 0 then x86_shift_imm_encode x64 long inst_id f else MErr e.

Definition shift_cmd (a : arch) (s : state) (inst_id : Z) (f : shiftf) : option cmd :=
  match x86_shift_imm (match a with X86_64 => true | _ => false end) (Z.testbit (os_options (st_one s)) 5) inst_id f with
  | MOk n dr => Some (CInst (EncOk n None false dr 0 0))
  | MErr e => Some (CInst (EncErr e))
  | MStuck | MUnsupported => None
  end.

(* ---------------------------------------------------------------- x86: mov r, [mem] / mov [mem], r with the moffs special form
   kEncodingX86Mov (Reg, Mem) / (Mem, Reg) for general-purpose registers of every width: add_arith_by_size (66h / REX.W), the
   accumulator + base-less address special case (`x86_should_use_movabs`: always in 32-bit mode; in 64-bit mode when neither a
   RIP-relative nor a sign-extended 32-bit displacement reaches the address and it does not fit 32 bits) -> EmitX86OpMovAbs
   (segment override, 66h, REX.W, A0..A3, 4- or 8-byte address), otherwise FIXUP_GPB and the ModRM path above (EmitX86M).
   Options are 0 (the generator resets the one-shot state first); segment registers as data operand are MUnsupported. *)
Record movf := mkMov { mv_rtype : Z; mv_rsize : Z; mv_store : bool; mv_mem : memf }.   (* mv_mem.m_dst is the register id *)

Definition x86_use_movabs (x64 absloc : bool) (cur rsize : Z) (m : memf) : bool :=
  if negb x64 then true else
  if m_addr m =? 2 then false else
  let addr := sext 64 (m_off m) in
  let near :=
    if (m_addr m =? 0) && (m_seg m =? 0) && absloc then
      let isz := (if m_seg m =? 0 then 0 else 1) + (if rsize =? 2 then 1 else 0) + (if rsize =? 8 then 1 else 0) + 1 + 8 in
      let rel := sext 64 (addr - (kBaseAddress + cur + isz)) in
      rel =? sext 32 rel
    else addr =? sext 32 addr in
  if near then false else 2 ^ 32 <=? addr mod 2 ^ 64.

Definition x86_mov_rm_encode (x64 absloc : bool) (cur : Z) (f : movf) : mres :=
  let m := mv_mem f in
  let id := m_dst m in
  let rs := mv_rsize f in
  if mv_rtype f =? kRegTypeSegment then MUnsupported else
  let am := arith_by_size_mask (Z.land rs 15) in
  let npp := if Z.land am x86c_opcode_pp_66 =? 0 then 0 else 1 in
  let w := if Z.land am x86c_opcode_w =? 0 then 0 else 8 in
  let hi := mv_rtype f =? x86c_reg_type_gp8hi in
  if (id =? 0) && negb hi && (m_btype m =? 0) && (m_itype m =? 0) && x86_use_movabs x64 absloc cur rs m then
    bind_l (lookup x86_segment_prefix_table (m_seg m)) (fun segp =>
    let rex := Z.lor w (if x64 then 0 else 128) in
    if 128 <? rex then MErr kInvalidRexPrefix else
    MOk ((if segp =? 0 then 0 else 1) + npp + (if Z.land rex 127 =? 0 then 0 else 1) + 1 + (if x64 then 8 else 4)) 0)
  else
    let is8 := rs =? 1 in
    let rexop := Z.lor w (if is8 then (if hi then 128 else if 4 <=? id then 64 else 0) else 0) in
    let opreg := if is8 && hi then id + 4 else id in
    x86_modrm_mem_encode x64 absloc cur npp rexop
      (mkMem opreg (m_btype m) (m_bid m) (m_itype m) (m_iid m) (m_shift m) (m_seg m) (m_addr m) (m_size m) (m_off m)).

Definition validate_mov_rm (x64 : bool) (inst_id : Z) (f : movf) : Z :=
  let m := mv_mem f in
  let off := if m_btype m =? 0 then sext 64 (m_off m) else sext 32 (m_off m) in
  let r := OReg (Z.to_N (mv_rtype f)) (Z.to_N (m_dst m)) in
  let mo := OMem (Z.to_N (m_size m)) (Z.to_N (m_btype m)) (Z.to_N (m_bid m)) (Z.to_N (m_itype m)) (Z.to_N (m_iid m)) off
                 (Z.to_N (m_seg m)) 0%N false in
  Z.of_N (validate_head x86_vtables false x64
            {| vi_id := Z.to_N inst_id; vi_options := 0%N; vi_extra_type := 0%N; vi_extra_id := 0%N |}
            (if mv_store f then [mo; r] else [r; mo])).

(* the eight arithmetic instructions of kEncodingX86Arith (add or adc sbb and sub xor cmp) with (Reg, Mem) / (Mem, Reg): the
   same ModRM path without the moffs special case; prefix bytes and REX.W come from the instruction's opcode word
   (main_opcode_table through the instruction row) and add_arith_by_size *)
Definition x86_arith_rm_encode (x64 absloc : bool) (cur inst_id : Z) (f : movf) : mres :=
  let m := mv_mem f in
  let id := m_dst m in
  let rs := mv_rsize f in
  match x86_legacy_row_at x86c_encoding_x86_arith (x86_norm_id inst_id) (Z.land rs 15) with
  | ShStuck => MStuck
  | ShOther => MUnsupported
  | ShRow npp mm_size opc =>
      if negb (mm_size =? 0) then MUnsupported else
      let w := if Z.testbit opc x86c_w_shift then 8 else 0 in
      let hi := mv_rtype f =? x86c_reg_type_gp8hi in
      let is8 := rs =? 1 in
      let rexop := Z.lor w (if is8 then (if hi then 128 else if 4 <=? id then 64 else 0) else 0) in
      let opreg := if is8 && hi then id + 4 else id in
      x86_modrm_mem_encode x64 absloc cur npp rexop
        (mkMem opreg (m_btype m) (m_bid m) (m_itype m) (m_iid m) (m_shift m) (m_seg m) (m_addr m) (m_size m) (m_off m))
  end.

Definition x86_mov_rm (x64 absloc : bool) (cur inst_id : Z) (f : movf) : mres :=
  let e := validate_mov_rm x64 inst_id f in
  if inst_id =? x86c_id_mov then (if e =? 0 then x86_mov_rm_encode x64 absloc cur f else MErr e)
  else if e =? 0 then x86_arith_rm_encode x64 absloc cur inst_id f else MErr e.

Definition mov_cmd (a : arch) (has_base_address : bool) (s : state) (inst_id : Z) (f : movf) : option cmd :=
  match x86_mov_rm (match a with X86_64 => true | _ => false end) (has_base_address && (st_cur s =? 0)) (cur_size s) inst_id f with
  | MOk n dr => Some (CInst (EncOk n None false dr 0 0))
  | MErr e => Some (CInst (EncErr e))
  | MStuck | MUnsupported => None
  end.

(* ---------------------------------------------------------------- EVEX / VEX + VSIB: vgatherdps v {k}, [base + v*s + d]
   the two-operand (AVX-512) form of kEncodingVexRmvRm_VM with the mask in the emitter's extra register: EmitVexEvexM
   builds the prefix word `x`; EVEX is selected by `x & kEvexBits` (register ids >= 16 -> R' / X', LL = 2 (512-bit), the
   mask id aaa), then cdisp8_shl_table[TT|W|LL] gives the compressed-disp8 scale used by EmitModVSib.  The VEX branch
   (no EVEX bit) is computed too.  Options are 0 (the generator resets the one-shot state first). *)
Definition kEvexBits := x86c_evex_bits_m.      (* read from EmitVexEvexM by the translator (0x80DF8110) *)
Definition mod32 (v : Z) : Z := v mod 2 ^ 32.
(* EmitModVSib / EmitModSib: the displacement goes into one byte when, shifted right by the compressed-displacement scale,
   it fits int8 and no bit is lost (`rel_offset == int32_t(uint32_t(cd_offset) << cd_shift)`) *)
Definition cdisp8_ok (rel cd : Z) : bool :=
  let cdo := Z.shiftr rel cd in is_int8 cdo && (rel =? sext 32 (Z.shiftl (mod32 cdo) cd)).

Definition x86_vgather2_encode (x64 : bool) (kid : Z) (v : vsibf) : mres :=
  let m := v_mem v in
  bind_l (lookup x86_mem_info_table (m_btype m + 32 * m_itype m)) (fun rm_info =>
  bind_l (lookup x86_segment_prefix_table (m_seg m)) (fun segp =>
  bind_l (lookup x86_ll_by_reg_type_table (m_itype m)) (fun ll_v =>
  bind_l (lookup x86_ll_by_size_div_16_table (v_dsize v / 16)) (fun ll_s =>
  bind_l (lookup x86_inst_alt_idx x86c_vgatherdps_id) (fun ai =>
  bind_l (lookup x86_alt_opcode_table ai) (fun opc0 =>
  if negb (x86c_vgatherdps_has_vex =? 1) || negb (x86c_vgatherdps_prefer_evex =? 0) || negb (x86c_vgatherdps_vsib =? 1) then MUnsupported else
  let opc := Z.lor opc0 (Z.max ll_v ll_s) in
  let nseg := if segp =? 0 then 0 else 1 in
  let nao := if Z.land rm_info (if x64 then 128 else 64) =? 0 then 0 else 1 in
  let rb := if 1 <? m_btype m then m_bid m else 0 in
  let rx := if 1 <? m_itype m then m_iid m else 0 in
  let x := Z.lor (Z.land (Z.shiftl (v_dst v) 4) 63872)                      (* 0xF980 *)
          (Z.lor (Z.land (Z.shiftl rx 3) 64)
          (Z.lor (Z.land (Z.shiftl rx 15) 524288)                           (* 0x80000 *)
          (Z.lor (Z.land (Z.shiftl rb 2) 32)
          (Z.lor (Z.shiftr (Z.land opc (x86c_ll_mask + x86c_mm_mask)) x86c_mm_shift)
                 (mod32 (Z.shiftl kid 16)))))) in
  if Z.land rm_info 2 =? 0 then MErr kInvalidInstruction else                (* VSIB without an index register *)
  if Z.testbit x 20 then MUnsupported else                                   (* a mask id with bit 4 aliases the broadcast bit *)
  let rel := sext 32 (m_off m) in
  let tail (pre cd_shift : Z) : mres :=
    if negb (Z.land rm_info 1 =? 0) then
      if (rel =? 0) && negb (Z.land rb 7 =? 5) then MOk (pre + 2) 0 else
      if cdisp8_ok rel cd_shift then MOk (pre + 3) 0 else MOk (pre + 6) 0
    else if Z.land rm_info 48 =? 0 then MOk (pre + 6) 0
    else if x64 then MErr kInvalidAddress
    else MUnsupported in
  if negb (Z.land x kEvexBits =? 0) then
    let ll := (Z.shiftr x 21) mod 4 in
    let ttwll := 8 * ((Z.shiftr opc x86c_cdtt_shift) mod 4) + 4 * ((Z.shiftr opc x86c_w_shift) mod 2) + ll in
    bind_l (lookup x86_cdisp8_shl_table ttwll) (fun cd =>
    tail (nseg + nao + 5) (Z.shiftr (Z.land (opc + cd) x86c_cdshl_mask) x86c_cdshl_shift))
  else
    let wbit := if Z.testbit opc x86c_w_shift then 32768 else 0 in
    let vex3 := negb (Z.land (Z.lor x wbit) 32894 =? 0) in                   (* 0x807E; kX86_Vex3 is not set *)
    tail (nseg + nao + (if vex3 then 4 else 3)) 0)))))).

Definition validate_vgather2 (x64 : bool) (inst_id etype kid : Z) (v : vsibf) : Z :=
  let m := v_mem v in
  let off := if m_btype m =? 0 then sext 64 (m_off m) else sext 32 (m_off m) in
  Z.of_N (validate_head x86_vtables false x64
            {| vi_id := Z.to_N inst_id; vi_options := 0%N; vi_extra_type := Z.to_N etype; vi_extra_id := Z.to_N kid |}
            [OReg (Z.to_N (v_type v)) (Z.to_N (v_dst v));
             OMem (Z.to_N (m_size m)) (Z.to_N (m_btype m)) (Z.to_N (m_bid m)) (Z.to_N (m_itype m)) (Z.to_N (m_iid m)) off
                  (Z.to_N (m_seg m)) 0%N false]).

Definition x86_vgather2 (x64 : bool) (inst_id etype kid : Z) (v : vsibf) : mres :=
  if negb (inst_id =? x86c_vgatherdps_id) then MUnsupported else
  let e := validate_vgather2 x64 inst_id etype kid v in
  if e =? 0 then x86_vgather2_encode x64 kid v else MErr e.

(* the extra register as the emitter holds it: the register type is read from the signature when it is a register operand *)
Definition extra_type_of (sig : Z) : Z := if Z.land sig 7 =? 1 then Z.land (Z.shiftr sig 3) 31 else 0.

Definition vsib2_cmd (a : arch) (s : state) (inst_id : Z) (v : vsibf) : option cmd :=
  let one := st_one s in
  match x86_vgather2 (match a with X86_64 => true | _ => false end) inst_id (extra_type_of (os_extra_sig one)) (os_extra_id one) v with
  | MOk n dr => Some (CInst (EncOk n None false dr 0 0))
  | MErr e => Some (CInst (EncErr e))
  | MStuck | MUnsupported => None
  end.

(* ---------------------------------------------------------------- VEX / EVEX register form: vaddps v, v, v {k}
   kEncodingVexRvm_Lx (Reg, Reg, Reg): opcode_l_by_size (ll_by_size_div_16_table[(size0 | size1) / 16]), op_reg =
   dst + (src1 << 7), rb = src2, EmitVexEvexR: the prefix word `x`, EVEX when `x & kEvexBits` (ids >= 16, 512-bit, mask id),
   else VEX3 when `x & 0x8000803E` (src2 >= 8: vex_prefix_table[x & 15] is read) else VEX2.  Lengths 4 / 5 / 6 bytes. *)
Record vrrrf := mkVrrr { vr_t0 : Z; vr_d : Z; vr_t1 : Z; vr_s1 : Z; vr_t2 : Z; vr_s2 : Z; vr_size : Z }.   (* register types and ids; vr_size = size(op0) | size(op1) *)

Definition x86_vrrr_encode (kid : Z) (f : vrrrf) : mres :=
  if negb (x86c_vaddps_encoding_is_rvm_lx =? 1) || negb (x86c_vaddps_has_vex =? 1) || negb (x86c_vaddps_prefer_evex =? 0) then MUnsupported else
  bind_l (lookup x86_inst_main_idx x86c_vaddps_id) (fun mi =>
  bind_l (lookup x86_main_opcode_table mi) (fun opc0 =>
  bind_l (lookup x86_ll_by_size_div_16_table (vr_size f / 16)) (fun ll_s =>
  let opc := Z.lor opc0 ll_s in
  let op_reg := mod32 (vr_d f + Z.shiftl (vr_s1 f) x86c_vvvvv_shift) in
  let x := Z.lor (Z.land (Z.shiftl op_reg 4) 63872)
          (Z.lor (Z.land (Z.shiftl (vr_s2 f) 2) 96)
          (Z.lor (Z.shiftr (Z.land opc (x86c_ll_mask + x86c_mm_mask)) x86c_mm_shift)
                 (mod32 (Z.shiftl kid 16)))) in
  if negb (Z.land x x86c_evex_bits_r =? 0) then
    if x86c_vaddps_has_evex =? 1 then MOk 6 0 else MErr kInvalidInstruction
  else
    let wbit := if Z.testbit opc x86c_w_shift then 32768 else 0 in
    if negb (Z.land (Z.lor x wbit) (x86c_vex3_bits_r mod 2 ^ 31) =? 0) then     (* bit 31 is the {vex3} option, not set here *)
      bind_l (lookup x86_vex_prefix_table (Z.land x 15)) (fun _ => MOk 5 0)
    else MOk 4 0))).

Definition validate_vrrr (x64 : bool) (inst_id etype kid : Z) (f : vrrrf) : Z :=
  Z.of_N (validate_head x86_vtables false x64
            {| vi_id := Z.to_N inst_id; vi_options := 0%N; vi_extra_type := Z.to_N etype; vi_extra_id := Z.to_N kid |}
            [OReg (Z.to_N (vr_t0 f)) (Z.to_N (vr_d f)); OReg (Z.to_N (vr_t1 f)) (Z.to_N (vr_s1 f)); OReg (Z.to_N (vr_t2 f)) (Z.to_N (vr_s2 f))]).

Definition x86_vrrr (x64 : bool) (inst_id etype kid : Z) (f : vrrrf) : mres :=
  if negb (inst_id =? x86c_vaddps_id) then MUnsupported else
  let e := validate_vrrr x64 inst_id etype kid f in
  if e =? 0 then x86_vrrr_encode kid f else MErr e.

Definition vrrr_cmd (a : arch) (s : state) (inst_id : Z) (f : vrrrf) : option cmd :=
  let one := st_one s in
  match x86_vrrr (match a with X86_64 => true | _ => false end) inst_id (extra_type_of (os_extra_sig one)) (os_extra_id one) f with
  | MOk n dr => Some (CInst (EncOk n None false dr 0 0))
  | MErr e => Some (CInst (EncErr e))
  | MStuck | MUnsupported => None
  end.

(* C14 — model of the x86 memory-operand path of `add r32, [mem]` (hand-written; lives in coq/gen because it is
   instantiated with the generated tables of VerifGen.C14Tables and with C13's validator tables VerifGen.X86Sigs).
   No proofs here (extracted).

   validate (strict validation, C13's transliteration of x86instapi.cpp)  -->  x86assembler.cpp kEncodingX86Arith
   (Reg, Mem) -> EmitX86M (segment override, address-size override, REX) -> EmitModSib.  Every table read of that path
   goes through `lookup` (None = out-of-bounds read = MStuck):
     mem_info_table[base_type | index_type << 5], segment_prefix_table[segment], mod16_base_index_table[..],
     mod16_base_table[..].
   The verdict (accepted with N bytes | refused with error e) is COMPUTED here and compared with the real encoder.
   Supported forms (the generator produces only these; everything else yields MUnsupported): base/index registers of any
   type and id, base-less addresses in 32-bit mode ([disp32]) and in 64-bit mode (absolute / RIP-relative guessing against
   the base address, zero-extension 67h, AbsToRel relocation), 16-bit addressing; not: label / rip bases (EncPathModel). *)
From Coq Require Import ZArith NArith List Bool.
From Verif Require Import EmitState.EmitStateModel EmitState.LookupModel X86Validate.ValidateModel.
From VerifGen Require Import C14Tables X86Sigs.
Import ListNotations.
Local Open Scope Z_scope.

Definition kInvalidRexPrefix := 37.
Definition kInvalidAddress := 43.
Definition kInvalidAddressIndex := 44.
Definition kInvalidAddress64Bit := 46.
Definition kBaseAddress := 65536.   (* the base address of the sessions that have one (harness: 0x10000) *)
Definition mem_path_constants : list Z := [kInvalidRexPrefix; kInvalidAddress; kInvalidAddressIndex; kInvalidAddress64Bit].

(* the fields of the memory operand and of the destination register as the public setters leave them *)
Record memf := mkMem {
  m_dst : Z;                    (* id of the Gp32 destination register *)
  m_btype : Z; m_bid : Z;       (* base register type (5-bit field) and id *)
  m_itype : Z; m_iid : Z;       (* index register type and id *)
  m_shift : Z; m_seg : Z; m_addr : Z; m_size : Z;
  m_off : Z }.                  (* 64-bit offset (two's complement, signed) *)

Inductive mres := MOk (nbytes relocs : Z) | MErr (e : Z) | MStuck | MUnsupported.

Definition sext (bits v : Z) : Z := let m := v mod 2 ^ bits in if m <? 2 ^ (bits - 1) then m else m - 2 ^ bits.
Definition is_int8 (v : Z) : bool := (-128 <=? v) && (v <=? 127).

Definition bind_l (o : option Z) (f : Z -> mres) : mres := match o with Some v => f v | None => MStuck end.

(* EmitX86M prefixes + EmitModSib, transcribed branch by branch; `x64` selects the mode *)
(* `absloc`: the code has a base address and the current section is .text (EmitterUtils::is_absolute_location);
   `cur`: offset of the instruction in its section (needed for the RIP-relative guess of base-less 64-bit addresses) *)
Definition x86_add_mem_encode (x64 absloc : bool) (cur : Z) (m : memf) : mres :=
  bind_l (lookup x86_mem_info_table (m_btype m + 32 * m_itype m)) (fun rm_info =>
  bind_l (lookup x86_segment_prefix_table (m_seg m)) (fun segp =>
  let nseg := if segp =? 0 then 0 else 1 in
  let nao := if Z.land rm_info (if x64 then 128 else 64) =? 0 then 0 else 1 in
  let rex0 := Z.lor (Z.lor (Z.land (Z.shiftr (m_bid m) 3) 1) (Z.land (Z.shiftr (m_iid m) 2) 2)) (Z.land (Z.shiftr (m_dst m) 1) 4) in
  let rex1 := Z.lor (Z.land rex0 rm_info) (if x64 then 0 else 128) in
  if 128 <? rex1 then MErr kInvalidRexPrefix else
  let nrex := if Z.land rex1 127 =? 0 then 0 else 1 in
  let pre := nseg + nao + nrex + 1 in
  let opreg := Z.land (m_dst m) 7 in
  let rel := sext 32 (m_off m) in
  let has_base := negb (Z.land rm_info 1 =? 0) in
  let has_index := negb (Z.land rm_info 2 =? 0) in
  let a16 := negb (Z.land rm_info 64 =? 0) in
  let lbl_or_rip := negb (Z.land rm_info 48 =? 0) in
  if negb has_index && negb a16 then
    if has_base then
      let rb := Z.land (m_bid m) 7 in
      if rb =? 4 then (if rel =? 0 then MOk (pre + 2) 0 else if is_int8 rel then MOk (pre + 3) 0 else MOk (pre + 6) 0)
      else if negb (rb =? 5) && (rel =? 0) then MOk (pre + 1) 0
      else if is_int8 rel then MOk (pre + 2) 0 else MOk (pre + 5) 0
    else if lbl_or_rip then MUnsupported
    else if x64 then
      (* [ABSOLUTE | DISP32] in 64-bit mode: absolute (SIB form, 67h when only zero extension reaches it) or RIP-relative *)
      let off := sext 64 (m_off m) in
      let is_i32 := off =? sext 32 off in
      let is_u32 := (0 <=? off) && (off <? 2 ^ 32) in
      let at0 := m_addr m in
      let atp := if at0 =? 0 then (if absloc then (if is_i32 || is_u32 then 1 else 2) else (if 5 <=? m_seg m then 1 else 2)) else at0 in
      let abs_tail := if is_i32 then MOk (pre + 6) 0 else if is_u32 then MOk (pre + 7) 0 else MErr kInvalidAddress64Bit in
      if atp =? 2 then
        if negb absloc then MOk (pre + 5) 1                  (* AbsToRel relocation, displacement unknown yet *)
        else let rel := sext 64 (off - (kBaseAddress + cur + pre + 5)) in
             if rel =? sext 32 rel then MOk (pre + 5) 0
             else if at0 =? 2 then MErr kInvalidAddress else abs_tail
      else abs_tail
    else if m_addr m =? 2 then MErr kInvalidAddress        (* Mem::AddrType::kRel in 32-bit mode *)
    else MOk (pre + 5) 0
  else if negb a16 then
    if m_iid m =? 4 then MErr kInvalidAddressIndex
    else if has_base then
      let rb := Z.land (m_bid m) 7 in
      if (rel =? 0) && negb (rb =? 5) then MOk (pre + 2) 0 else if is_int8 rel then MOk (pre + 3) 0 else MOk (pre + 6) 0
    else if lbl_or_rip then MUnsupported
    else MOk (pre + 6) 0
  else
    let rel16 := sext 16 (m_off m) in
    if has_base || has_index then
      let rb := Z.land (m_bid m) 7 in
      let rx := Z.land (m_iid m) 7 in
      let after (md : Z) : mres :=
        if md =? 255 then MErr kInvalidAddress
        else let md' := md + Z.shiftl opreg 3 in
             if (rel16 =? 0) && negb (Z.land md' 7 =? 6) then MOk (pre + 1) 0
             else if is_int8 rel16 then MOk (pre + 2) 0 else MOk (pre + 3) 0 in
      if has_base && has_index then
        if negb (m_shift m =? 0) then MErr kInvalidAddress
        else bind_l (lookup x86_mod16_base_index_table (mod16_index rb rx)) after
      else bind_l (lookup x86_mod16_base_table (if has_index then rx else rb)) after
    else if lbl_or_rip then MErr kInvalidAddress
    else MOk (pre + 3) 0)).

(* strict validation first (C13's model over C13's generated tables) *)
Definition validate_add_mem (x64 : bool) (add_id : Z) (m : memf) : Z :=
  let off := if m_btype m =? 0 then sext 64 (m_off m) else sext 32 (m_off m) in
  Z.of_N (validate x86_vtables false x64 false
            {| vi_id := Z.to_N add_id; vi_options := 0%N; vi_extra_type := 0%N; vi_extra_id := 0%N |}
            [OReg RT_Gp32 (Z.to_N (m_dst m));
             OMem (Z.to_N (m_size m)) (Z.to_N (m_btype m)) (Z.to_N (m_bid m)) (Z.to_N (m_itype m)) (Z.to_N (m_iid m)) off
                  (Z.to_N (m_seg m)) 0%N false]).

Definition x86_add_mem (x64 absloc : bool) (cur : Z) (add_id : Z) (m : memf) : mres :=
  let e := validate_add_mem x64 add_id m in
  if e =? 0 then x86_add_mem_encode x64 absloc cur m else MErr e.

(* hand the verdict to the emit transaction of EmitStateModel *)
Definition mem_cmd (a : arch) (has_base_address : bool) (s : state) (add_id : Z) (m : memf) : option cmd :=
  match x86_add_mem (match a with X86_64 => true | _ => false end) (has_base_address && (st_cur s =? 0)) (cur_size s) add_id m with
  | MOk n dr => Some (CInst (EncOk n None false dr 0 0))
  | MErr e => Some (CInst (EncErr e))
  | MStuck | MUnsupported => None
  end.

(* ---------------------------------------------------------------- VEX + VSIB: vgatherdps xmm|ymm, [base + xmm|ymm*s + d], xmm|ymm
   kEncodingVexRmvRm_VM (Reg, Mem, Reg) -> opcode_l_by_vmem (ll_by_reg_type_table[index_type]) and opcode_l_by_size
   (ll_by_size_div_16_table[size / 16]) -> EmitVexEvexM (segment / address-size override, VEX3 prefix: map 0F38) ->
   EmitModVSib.  Only the VEX form is modelled: register ids >= 16 or a 512-bit index/size select EVEX (MUnsupported). *)
Definition kInvalidInstruction := 26.

Record vsibf := mkVsib { v_type : Z; v_dst : Z; v_mask : Z; v_dsize : Z; v_mem : memf }.   (* v_mem.m_dst is unused *)

Definition x86_vgather_encode (x64 : bool) (v : vsibf) : mres :=
  let m := v_mem v in
  bind_l (lookup x86_mem_info_table (m_btype m + 32 * m_itype m)) (fun rm_info =>
  bind_l (lookup x86_segment_prefix_table (m_seg m)) (fun segp =>
  bind_l (lookup x86_ll_by_reg_type_table (m_itype m)) (fun ll_v =>
  bind_l (lookup x86_ll_by_size_div_16_table (v_dsize v / 16)) (fun ll_s =>
  let nseg := if segp =? 0 then 0 else 1 in
  let nao := if Z.land rm_info (if x64 then 128 else 64) =? 0 then 0 else 1 in
  let has_index_reg := negb (m_itype m =? 0) in
  let ll := Z.max ll_v ll_s in
  if (16 <=? v_dst v) || (16 <=? v_mask v) || (has_index_reg && (16 <=? m_iid m)) || (1073741824 <=? ll) then MUnsupported else
  let pre := nseg + nao + 4 in
  let rel := sext 32 (m_off m) in
  if Z.land rm_info 2 =? 0 then MErr kInvalidInstruction                 (* VSIB without an index register *)
  else if negb (Z.land rm_info 1 =? 0) then
    let rb := Z.land (m_bid m) 7 in
    if (rel =? 0) && negb (rb =? 5) then MOk (pre + 2) 0 else if is_int8 rel then MOk (pre + 3) 0 else MOk (pre + 6) 0
  else if Z.land rm_info 48 =? 0 then MOk (pre + 6) 0
  else if x64 then MErr kInvalidAddress
  else MUnsupported)))).

Definition validate_vgather (x64 : bool) (inst_id : Z) (v : vsibf) : Z :=
  let m := v_mem v in
  let off := if m_btype m =? 0 then sext 64 (m_off m) else sext 32 (m_off m) in
  Z.of_N (validate x86_vtables false x64 false
            {| vi_id := Z.to_N inst_id; vi_options := 0%N; vi_extra_type := 0%N; vi_extra_id := 0%N |}
            [OReg (Z.to_N (v_type v)) (Z.to_N (v_dst v));
             OMem (Z.to_N (m_size m)) (Z.to_N (m_btype m)) (Z.to_N (m_bid m)) (Z.to_N (m_itype m)) (Z.to_N (m_iid m)) off
                  (Z.to_N (m_seg m)) 0%N false;
             OReg (Z.to_N (v_type v)) (Z.to_N (v_mask v))]).

Definition x86_vgather (x64 : bool) (inst_id : Z) (v : vsibf) : mres :=
  let e := validate_vgather x64 inst_id v in
  if e =? 0 then x86_vgather_encode x64 v else MErr e.

Definition vsib_cmd (a : arch) (inst_id : Z) (v : vsibf) : option cmd :=
  match x86_vgather (match a with X86_64 => true | _ => false end) inst_id v with
  | MOk n dr => Some (CInst (EncOk n None false dr 0 0))
  | MErr e => Some (CInst (EncErr e))
  | MStuck | MUnsupported => None
  end.

(* the index types the strict validator lets through (its allowed_mem_index_regs masks, dumped into C14Tables) *)
Definition index_type_allowed (it : Z) : Prop :=
  it = 0 \/ Z.testbit x86c_allowed_mem_index_regs_x86 it = true \/ Z.testbit x86c_allowed_mem_index_regs_x64 it = true.

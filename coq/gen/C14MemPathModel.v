(* C14 — model of the x86 memory-operand path of `add r32, [mem]` (hand-written; lives in coq/gen because it is
   instantiated with the generated tables of VerifGen.C14Tables and with C13's validator tables VerifGen.X86Sigs).
   No proofs here (extracted).

   validate (strict validation, C13's transliteration of x86instapi.cpp)  -->  x86assembler.cpp kEncodingX86Arith
   (Reg, Mem) -> EmitX86M (segment override, address-size override, REX) -> EmitModSib.  Every table read of that path
   goes through `lookup` (None = out-of-bounds read = MStuck):
     mem_info_table[base_type | index_type << 5], segment_prefix_table[segment], mod16_base_index_table[..],
     mod16_base_table[..].
   The verdict (accepted with N bytes | refused with error e) is COMPUTED here and compared with the real encoder.
   Supported forms (the generator produces only these; everything else yields MUnsupported): base/index registers of any
   type and id, [disp32] without base in 32-bit mode, 16-bit addressing; not: label / rip bases (EncPathModel) and
   base-less addresses in 64-bit mode (absolute/relative guessing against the base address). *)
From Coq Require Import ZArith NArith List Bool.
From Verif Require Import EmitState.EmitStateModel EmitState.LookupModel X86Validate.ValidateModel.
From VerifGen Require Import C14Tables X86Sigs.
Import ListNotations.
Local Open Scope Z_scope.

Definition kInvalidRexPrefix := 37.
Definition kInvalidAddress := 43.
Definition kInvalidAddressIndex := 44.
Definition mem_path_constants : list Z := [kInvalidRexPrefix; kInvalidAddress; kInvalidAddressIndex].

(* the fields of the memory operand and of the destination register as the public setters leave them *)
Record memf := mkMem {
  m_dst : Z;                    (* id of the Gp32 destination register *)
  m_btype : Z; m_bid : Z;       (* base register type (5-bit field) and id *)
  m_itype : Z; m_iid : Z;       (* index register type and id *)
  m_shift : Z; m_seg : Z; m_addr : Z; m_size : Z;
  m_off : Z }.                  (* 64-bit offset (two's complement, signed) *)

Inductive mres := MOk (nbytes : Z) | MErr (e : Z) | MStuck | MUnsupported.

Definition sext (bits v : Z) : Z := let m := v mod 2 ^ bits in if m <? 2 ^ (bits - 1) then m else m - 2 ^ bits.
Definition is_int8 (v : Z) : bool := (-128 <=? v) && (v <=? 127).

Definition bind_l (o : option Z) (f : Z -> mres) : mres := match o with Some v => f v | None => MStuck end.

(* EmitX86M prefixes + EmitModSib, transcribed branch by branch; `x64` selects the mode *)
Definition x86_add_mem_encode (x64 : bool) (m : memf) : mres :=
  bind_l (lookup x86_mem_info_table (m_btype m + 32 * m_itype m)) (fun rm_info =>
  bind_l (lookup x86_segment_prefix_table (m_seg m)) (fun segp =>
  let nseg := if segp =? 0 then 0 else 1 in
  let nao := if Z.land rm_info (if x64 then 128 else 64) =? 0 then 0 else 1 in
  let rex0 := Z.lor (Z.lor (Z.land (Z.shiftr (m_bid m) 3) 1) (Z.land (Z.shiftr (m_iid m) 2) 2)) (Z.land (Z.shiftr (m_dst m) 1) 4) in
  let rex1 := Z.lor (Z.land rex0 rm_info) (if x64 then 0 else 128) in
  if 128 <? rex1 then MErr kInvalidRexPrefix else
  let nrex := if Z.land rex1 127 =? 0 then 0 else 1 in
  let pre := nseg + nao + nrex + 1 in
  let opreg := Z.land (m_dst m) 7 in
  let rel := sext 32 (m_off m) in
  let has_base := negb (Z.land rm_info 1 =? 0) in
  let has_index := negb (Z.land rm_info 2 =? 0) in
  let a16 := negb (Z.land rm_info 64 =? 0) in
  let lbl_or_rip := negb (Z.land rm_info 48 =? 0) in
  if negb has_index && negb a16 then
    if has_base then
      let rb := Z.land (m_bid m) 7 in
      if rb =? 4 then (if rel =? 0 then MOk (pre + 2) else if is_int8 rel then MOk (pre + 3) else MOk (pre + 6))
      else if negb (rb =? 5) && (rel =? 0) then MOk (pre + 1)
      else if is_int8 rel then MOk (pre + 2) else MOk (pre + 5)
    else if lbl_or_rip then MUnsupported
    else if x64 then MUnsupported
    else if m_addr m =? 2 then MErr kInvalidAddress        (* Mem::AddrType::kRel in 32-bit mode *)
    else MOk (pre + 5)
  else if negb a16 then
    if m_iid m =? 4 then MErr kInvalidAddressIndex
    else if has_base then
      let rb := Z.land (m_bid m) 7 in
      if (rel =? 0) && negb (rb =? 5) then MOk (pre + 2) else if is_int8 rel then MOk (pre + 3) else MOk (pre + 6)
    else if lbl_or_rip then MUnsupported
    else MOk (pre + 6)
  else
    let rel16 := sext 16 (m_off m) in
    if has_base || has_index then
      let rb := Z.land (m_bid m) 7 in
      let rx := Z.land (m_iid m) 7 in
      let after (md : Z) : mres :=
        if md =? 255 then MErr kInvalidAddress
        else let md' := md + Z.shiftl opreg 3 in
             if (rel16 =? 0) && negb (Z.land md' 7 =? 6) then MOk (pre + 1)
             else if is_int8 rel16 then MOk (pre + 2) else MOk (pre + 3) in
      if has_base && has_index then
        if negb (m_shift m =? 0) then MErr kInvalidAddress
        else bind_l (lookup x86_mod16_base_index_table (mod16_index rb rx)) after
      else bind_l (lookup x86_mod16_base_table (if has_index then rx else rb)) after
    else if lbl_or_rip then MErr kInvalidAddress
    else MOk (pre + 3))).

(* strict validation first (C13's model over C13's generated tables) *)
Definition validate_add_mem (x64 : bool) (add_id : Z) (m : memf) : Z :=
  let off := if m_btype m =? 0 then sext 64 (m_off m) else sext 32 (m_off m) in
  Z.of_N (validate x86_vtables false x64 false
            {| vi_id := Z.to_N add_id; vi_options := 0%N; vi_extra_type := 0%N; vi_extra_id := 0%N |}
            [OReg RT_Gp32 (Z.to_N (m_dst m));
             OMem (Z.to_N (m_size m)) (Z.to_N (m_btype m)) (Z.to_N (m_bid m)) (Z.to_N (m_itype m)) (Z.to_N (m_iid m)) off
                  (Z.to_N (m_seg m)) 0%N false]).

Definition x86_add_mem (x64 : bool) (add_id : Z) (m : memf) : mres :=
  let e := validate_add_mem x64 add_id m in
  if e =? 0 then x86_add_mem_encode x64 m else MErr e.

(* hand the verdict to the emit transaction of EmitStateModel *)
Definition mem_cmd (a : arch) (add_id : Z) (m : memf) : option cmd :=
  match x86_add_mem (match a with X86_64 => true | _ => false end) add_id m with
  | MOk n => Some (CInst (EncOk n None false 0 0 0))
  | MErr e => Some (CInst (EncErr e))
  | MStuck | MUnsupported => None
  end.

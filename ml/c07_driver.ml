(* C07 model driver: same line protocol as harness/c07_harness.cpp; answers computed by the extracted Coq model.
   Input  : F arch plat cc nargs attrs d0 d1 d2 d3 lsize lalign csize calign sareg argstack
            (argstack = FuncDetail::arg_stack_size() as reported by the implementation: a free input of the frame model,
             owned by C06)
   Output : the same line the harness prints, except that the assembler error fields are printed as "-" *)
open Zconv

let z = cz_of_int
let s = string_of_cz
let arch_of = function 0 -> Frame.X86 | 1 -> Frame.X64 | _ -> Frame.A64

let mnem_name = function
  | Frame.Mendbr32 -> "endbr32" | Frame.Mendbr64 -> "endbr64" | Frame.Mpush -> "push" | Frame.Mpop -> "pop" | Frame.Mmov -> "mov"
  | Frame.Mand -> "and" | Frame.Msub -> "sub" | Frame.Madd -> "add" | Frame.Mlea -> "lea" | Frame.Mmovaps -> "movaps"
  | Frame.Mmovups -> "movups" | Frame.Mvmovaps -> "vmovaps" | Frame.Mvmovups -> "vmovups" | Frame.Mkmovq -> "kmovq"
  | Frame.Mmovq -> "movq" | Frame.Memms -> "emms" | Frame.Mvzeroupper -> "vzeroupper" | Frame.Mret -> "ret" | Frame.Mbti -> "bti"
  | Frame.Mstp -> "stp" | Frame.Mstr -> "str" | Frame.Mldp -> "ldp" | Frame.Mldr -> "ldr" | Frame.Mxchg -> "xchg"

let grp_char g = match Z.to_int (z_of_cz g) with 0 -> "G" | 1 -> "V" | 2 -> "K" | 3 -> "M" | _ -> "?"

let op_str = function
  | Frame.OReg (g, sz, id) -> Printf.sprintf "%s%s.%s" (grp_char g) (s sz) (s id)
  | Frame.OImm v -> "#" ^ s v
  | Frame.OMem (b, off, mode) ->
    let o = z_of_cz off in
    Printf.sprintf "[G%s%s%s]%s" (s b) (if Z.sign o >= 0 then "+" else "") (Z.to_string o)
      (match Z.to_int (z_of_cz mode) with 0 -> "" | 1 -> "!" | _ -> "^")

let inst_str (mn, ops) =
  match ops with
  | [] -> mnem_name mn
  | _ -> mnem_name mn ^ " " ^ String.concat "," (List.map op_str ops)

let insts_str l = match l with [] -> "-" | _ -> String.concat ";" (List.map inst_str l)

(* ---- parsing the implementation's instruction text into the model's syntax (for the run on the proven machine) *)
let mnem_of_name = function
  | "endbr32" -> Some Frame.Mendbr32 | "endbr64" -> Some Frame.Mendbr64 | "push" -> Some Frame.Mpush | "pop" -> Some Frame.Mpop
  | "mov" -> Some Frame.Mmov | "and" -> Some Frame.Mand | "sub" -> Some Frame.Msub | "add" -> Some Frame.Madd | "lea" -> Some Frame.Mlea
  | "movaps" -> Some Frame.Mmovaps | "movups" -> Some Frame.Mmovups | "vmovaps" -> Some Frame.Mvmovaps | "vmovups" -> Some Frame.Mvmovups
  | "kmovq" -> Some Frame.Mkmovq | "movq" -> Some Frame.Mmovq | "emms" -> Some Frame.Memms | "vzeroupper" -> Some Frame.Mvzeroupper
  | "ret" -> Some Frame.Mret | "bti" -> Some Frame.Mbti | "stp" -> Some Frame.Mstp | "str" -> Some Frame.Mstr | "ldp" -> Some Frame.Mldp
  | "ldr" -> Some Frame.Mldr | "xchg" -> Some Frame.Mxchg | _ -> None

let parse_op (t : string) : Frame.operand option =
  let n = String.length t in
  if n = 0 then None
  else if t.[0] = '#' then Some (Frame.OImm (cz_of_string (String.sub t 1 (n - 1))))
  else if t.[0] = '[' then begin
    let mode, body = if t.[n - 1] = '!' then 1, String.sub t 1 (n - 3) else if t.[n - 1] = '^' then 2, String.sub t 1 (n - 3) else 0, String.sub t 1 (n - 2) in
    (* body = G<id><+|-><off> *)
    let k = ref 1 in
    while !k < String.length body && body.[!k] >= '0' && body.[!k] <= '9' do incr k done;
    let id = String.sub body 1 (!k - 1) and off = String.sub body !k (String.length body - !k) in
    let off = if off <> "" && off.[0] = '+' then String.sub off 1 (String.length off - 1) else off in
    if body.[0] <> 'G' then None else Some (Frame.OMem (cz_of_string id, cz_of_string off, cz_of_int mode))
  end else begin
    let g = match t.[0] with 'G' -> 0 | 'V' -> 1 | 'K' -> 2 | 'M' -> 3 | _ -> -1 in
    match String.index_opt t '.' with
    | Some d when g >= 0 -> Some (Frame.OReg (cz_of_int g, cz_of_string (String.sub t 1 (d - 1)), cz_of_string (String.sub t (d + 1) (n - d - 1))))
    | _ -> None
  end

let parse_inst (t : string) : Frame.instr option =
  match String.index_opt t ' ' with
  | None -> (match mnem_of_name t with Some m -> Some (m, []) | None -> None)
  | Some i ->
    let name = String.sub t 0 i and rest = String.sub t (i + 1) (String.length t - i - 1) in
    let ops = List.map parse_op (String.split_on_char ',' rest) in
    (match mnem_of_name name with
     | Some m when List.for_all (fun o -> o <> None) ops -> Some (m, List.map (function Some o -> o | None -> assert false) ops)
     | _ -> None)

let parse_insts (t : string) : Frame.instr list option =
  let t = String.trim t in
  if t = "-" || t = "" then Some []
  else
    let l = List.map parse_inst (String.split_on_char ';' t) in
    if List.for_all (fun o -> o <> None) l then Some (List.map (function Some o -> o | None -> assert false) l) else None

let quad_str q = Printf.sprintf "%s %s %s %s" (s q.Frame.q0) (s q.Frame.q1) (s q.Frame.q2) (s q.Frame.q3)

let () =
  try
    while true do
      let line = input_line stdin in
      let toks = List.filter (fun x -> x <> "") (String.split_on_char ' ' (String.trim line)) in
      match toks with
      | "F" :: rest when List.length rest >= 15 ->
        let a = Array.of_list (List.map Z.of_string rest) in
        let iz i = cz_of_z a.(i) in
        let ii i = Z.to_int a.(i) in
        let arch = arch_of (ii 0) in
        (match Frame.cc_init arch (iz 1) (iz 2) with
         | None -> print_endline "F 2"
         | Some cc ->
           (* optional 16th field = 1: frame produced by the Compiler (natural alignment overridden by the target's) *)
           let cc = if Array.length a > 15 && ii 15 = 1 then Frame.compiler_cc arch (iz 1) cc else cc in
           let attrs = ii 4 in
           let bit k = attrs land k <> 0 in
           let fi = { Frame.fi_arch = arch; fi_cc = cc; fi_arg_stack_size = iz 14;
                      fi_has_fp = bit 1; fi_has_calls = bit 2; fi_ibp = bit 4; fi_avx = bit 8; fi_avx512 = bit 16;
                      fi_mmx_cleanup = bit 32; fi_avx_cleanup = bit 64; fi_avx_auto_cleanup = bit 128;
                      fi_dirty = { Frame.q0 = iz 5; q1 = iz 6; q2 = iz 7; q3 = iz 8 };
                      fi_local_size = iz 9; fi_local_align = iz 10; fi_call_size = iz 11; fi_call_align = iz 12;
                      fi_sa_reg = iz 13;
                      (* optional 17th field = 1: tree variant with fixes/C07-a64-sa-register.patch (probed by the check) *)
                      fi_sa_fix = (Array.length a > 16 && ii 16 = 1);
                      (* optional 19th field = 1: tree with fixes/C07-final-alignment-truthful.patch *)
                      fi_align_fix = (Array.length a > 18 && ii 18 = 1) } in
           (* optional 18th field = 1: tree with fixes/C07-a64-refuse-unrealisable-frames.patch: such frames are refused by finalize *)
           (* round 5: the accept/refuse decision is the model's finalize_error (kTooLarge 9 always - a53b13c; kInvalidState 3 with the flag) *)
           let err = Z.to_int (z_of_cz (Frame.finalize_error fi)) in
           if err = 9 || (err <> 0 && Array.length a > 17 && ii 17 = 1) then
             Printf.printf "F 0 I 0 0 0 0 0 0 0 0 0 0 0 0 0 0 0 0 0 0 L ?%d\n" err
           else
           let o = Frame.finalize fi in
           let b2 b = if b then "1" else "0" in
           let (pl, pok) = Frame.prolog fi o in
           let (el, eok) = Frame.epilog fi o in
           Printf.printf "F 0 I %s %s %s %s %s %s %s %s %s L %s %s %s %s %s %s %s %s %s %s %s %s %s %s %s %s P %s - %d %s E %s - %d %s\n"
             (s cc.Frame.cc_natural) (s (Frame.min_dynamic_alignment cc.Frame.cc_natural)) (s cc.Frame.cc_redzone)
             (s cc.Frame.cc_spillzone) (s o.Frame.fo_callee_cleanup) (s (iz 14))
             (quad_str cc.Frame.cc_preserved) (quad_str cc.Frame.cc_srsize) (quad_str cc.Frame.cc_sralign)
             (b2 o.Frame.fo_aligned_vec_sr) (b2 o.Frame.fo_has_da)
             (match arch with Frame.A64 -> "31" | _ -> "4") (s o.Frame.fo_sa_reg) (s o.Frame.fo_final_align)
             (quad_str o.Frame.fo_dirty) (s o.Frame.fo_push_pop_size) (s o.Frame.fo_extra_size) (s o.Frame.fo_local_off)
             (s o.Frame.fo_extra_off) (s o.Frame.fo_da_off) (s o.Frame.fo_push_pop_off) (s o.Frame.fo_stack_adj)
             (s o.Frame.fo_final_size) (s o.Frame.fo_sa_from_sp) (s o.Frame.fo_sa_from_sa)
             (if pok then "0" else "3") (List.length pl) (insts_str pl)
             (if eok then "0" else "3") (List.length el) (insts_str el))
      | "S" :: n :: rest when List.length rest = 3 * int_of_string n ->
        (* S n (size align isarg)* in the implementation's processing order -> offsets (-1 for stack-argument slots), final offset,
           and whether the gap machinery was ever used *)
        let rec mk = function
          | sz :: al :: ia :: r -> { Frame.ss_size = cz_of_string sz; ss_align = cz_of_string al; ss_arg = (ia <> "0") } :: mk r
          | _ -> [] in
        let slots = mk rest in
        let (offs, fin) = Frame.alloc_offsets slots in
        let st = Frame.alloc_all slots in
        Printf.printf "S %s | %s %d %d\n" (String.concat " " (List.map s offs)) (s fin)
          (List.length st.Frame.as_gaps) (if st.Frame.as_gap_used then 1 else 0)
      | "T" :: n :: stack :: rest when List.length rest = 7 * int_of_string n ->
        (* T n implStackSize (origIdx size align regHome isArg useCount implOffset)*  in the implementation's processing order.
           Answer: T <order_ok> <placed_ok of the IMPLEMENTATION's placement> <model offsets> | <model stack size> <gaps> <gap used> *)
        let n = int_of_string n in
        let rec mk = function
          | ix :: sz :: al :: rh :: ia :: us :: off :: r ->
            (int_of_string ix, { Frame.rs_size = cz_of_string sz; rs_align = cz_of_string al; rs_reghome = (rh <> "0"); rs_arg = (ia <> "0");
                                 rs_use = cz_of_string us }, cz_of_string off) :: mk r
          | _ -> [] in
        let recs = mk rest in
        (* original slot list: position = original index *)
        let dummy = { Frame.rs_size = cz_of_int 0; rs_align = cz_of_int 1; rs_reghome = false; rs_arg = false; rs_use = cz_of_int 0 } in
        let orig = Array.make n dummy in
        List.iter (fun (ix, r, _) -> if ix >= 0 && ix < n then orig.(ix) <- r) recs;
        let rec nat_of_int i = if i <= 0 then Frame.O else Frame.S (nat_of_int (i - 1)) in
        let order = List.map (fun (ix, _, _) -> nat_of_int ix) recs in
        let ook = Frame.order_ok (Array.to_list orig) order in
        let processed = List.map (fun (_, r, _) -> Frame.to_sslot r) recs in
        let impl_placed = List.map (fun (_, r, off) -> (Frame.to_sslot r, off)) recs in
        let pok = Frame.placed_ok impl_placed (cz_of_string stack) in
        let align = List.fold_left (fun a (_, r, _) -> Z.max a (z_of_cz r.Frame.rs_align)) Z.one recs in
        let (mplaced, mstack) = Frame.alloc_frame processed (cz_of_z align) in
        let st = Frame.alloc_all processed in
        Printf.printf "T %d %d %s | %s %d %d\n" (if ook then 1 else 0) (if pok then 1 else 0)
          (String.concat " " (List.map (fun (_, o) -> s o) mplaced)) (s mstack)
          (List.length st.Frame.as_gaps) (if st.Frame.as_gap_used then 1 else 0)
      | "E" :: _ ->
        (* E arch sp0 ra d0..d3 p0..p3 s0..s3 hasfp csize localoff lsize cleanup | prolog | epilog   (instruction text of the IMPLEMENTATION)
           -> E <code> <body sp>   verdict of FrameExec.exec_frame, i.e. of the proven machine *)
        (match String.split_on_char '|' line with
         | [hd; pro; epi] ->
           let f = Array.of_list (List.filter (fun x -> x <> "") (String.split_on_char ' ' (String.trim hd))) in
           let zf i = cz_of_string f.(i) in
           let q i = { Frame.q0 = zf i; q1 = zf (i + 1); q2 = zf (i + 2); q3 = zf (i + 3) } in
           (match parse_insts pro, parse_insts epi with
            | Some p, Some e ->
              let (code, spb) = Frame.exec_frame (arch_of (int_of_string f.(1))) p e (zf 2) (zf 3) (q 4) (q 8) (q 12) (f.(16) <> "0")
                                  (zf 17) (zf 18) (zf 19) (zf 20) in
              (* round 6: the PROVED encodability predicate (FrameA64Proofs.a64_encodable) evaluated on the implementation's AArch64 lists:
                 number of instructions it rejects - compared with the real Assembler's verdict by the check *)
              let bad = if int_of_string f.(1) = 2 then List.length (List.filter (fun i -> not (Frame.a64_encodable i)) (p @ e)) else 0 in
              Printf.printf "E %s %s enc %d\n" (s code) (s spb) bad
            | _ -> print_endline "E -1 0")
         | _ -> print_endline "BAD")
      | "K" :: _ ->
        (* K arch dirty0 preserved0 hasfp csize localoff lsize | arg copies (instruction text of the IMPLEMENTATION)
           -> K <1 accepted | 0 rejected | -1 a copy is outside the four shapes of FrameCopies.acopy> <number of copies>
           the VERIFIED static checker FrameCopies.copies_ok_data (soundness: x86_roundtrip_with_copies) *)
        (match String.split_on_char '|' line with
         | [hd; asg] ->
           let f = Array.of_list (List.filter (fun x -> x <> "") (String.split_on_char ' ' (String.trim hd))) in
           let zf i = cz_of_string f.(i) in
           (match parse_insts asg with
            | Some l ->
              let z0 = cz_of_int 0 and z4 = cz_of_int 4 in
              let conv (i : Frame.instr) : Frame.acopy option =
                match i with
                | (Frame.Mmov, [Frame.OReg (g, sd, d); Frame.OReg (g2, sr, r)]) when g = z0 && g2 = z0 -> Some (Frame.CMovRR (sd, d, sr, r))
                | (Frame.Mmov, [Frame.OReg (g, sz, d); Frame.OMem (b, off, m)]) when g = z0 && m = z0 -> Some (Frame.CLoad (sz, d, b, off))
                | (Frame.Mmov, [Frame.OMem (b, off, m); Frame.OReg (g, sz, r)]) when g = z0 && m = z0 && b = z4 -> Some (Frame.CStore (off, sz, r))
                | (Frame.Mxchg, [Frame.OReg (g, sd, d); Frame.OReg (g2, sr, r)]) when g = z0 && g2 = z0 -> Some (Frame.CXchg (sd, d, sr, r))
                | _ -> None in
              let z31 = cz_of_int 31 in
              let conv64 (i : Frame.instr) : Frame.acopy64 option =
                match i with
                | (Frame.Mmov, [Frame.OReg (g, sd, d); Frame.OReg (g2, sr, r)]) when g = z0 && g2 = z0 -> Some (Frame.C64Mov (sd, d, sr, r))
                | (Frame.Mldr, [Frame.OReg (g, sz, d); Frame.OMem (b, off, m)]) when g = z0 && m = z0 -> Some (Frame.C64Ldr (sz, d, b, off))
                | (Frame.Mstr, [Frame.OReg (g, sz, r); Frame.OMem (b, off, m)]) when g = z0 && m = z0 && b = z31 -> Some (Frame.C64Str (off, sz, r))
                | _ -> None in
              if int_of_string f.(1) = 2 then begin
                let cs = List.map conv64 l in
                if List.exists (fun c -> c = None) cs then Printf.printf "K -1 %d\n" (List.length l)
                else begin
                  let cs = List.map (function Some c -> c | None -> assert false) cs in
                  if List.map Frame.acopy64_instr cs <> l then Printf.printf "K -1 %d\n" (List.length l)
                  else Printf.printf "K %d %d\n" (if Frame.copies64_ok_data (zf 2) (zf 3) (f.(4) <> "0") (zf 5) (zf 6) (zf 7) cs then 1 else 0) (List.length l)
                end
              end else
              let cs = List.map conv l in
              if List.exists (fun c -> c = None) cs then Printf.printf "K -1 %d\n" (List.length l)
              else begin
                let cs = List.map (function Some c -> c | None -> assert false) cs in
                (* the typed copies denote exactly the implementation's instructions *)
                if List.map Frame.acopy_instr cs <> l then Printf.printf "K -1 %d\n" (List.length l)
                else Printf.printf "K %d %d\n" (if Frame.copies_ok_data (zf 2) (zf 3) (f.(4) <> "0") (zf 5) (zf 6) (zf 7) cs then 1 else 0) (List.length l)
              end
            | None -> print_endline "K -1 0")
         | _ -> print_endline "BAD")
      | "G" :: _ ->
        (* G arch sp0 ra d0..d3 p0..p3 s0..s3 hasfp csize localoff lsize cleanup nargs (sk sv dk dv)* | prolog | arg copies | epilog
           -> G <code> <detail>   verdict of FrameExec.exec_args_frame on the proven machine *)
        (match String.split_on_char '|' line with
         | [hd; pro; asg; epi] ->
           let f = Array.of_list (List.filter (fun x -> x <> "") (String.split_on_char ' ' (String.trim hd))) in
           let zf i = cz_of_string f.(i) in
           let q i = { Frame.q0 = zf i; q1 = zf (i + 1); q2 = zf (i + 2); q3 = zf (i + 3) } in
           let n = int_of_string f.(21) in
           let args = List.init n (fun i -> (((zf (22 + 4 * i), zf (23 + 4 * i)), zf (24 + 4 * i)), zf (25 + 4 * i))) in
           (match parse_insts pro, parse_insts asg, parse_insts epi with
            | Some p, Some a, Some e ->
              let (code, det) = Frame.exec_args_frame (arch_of (int_of_string f.(1))) p a e (zf 2) (zf 3) args (q 4) (q 8) (q 12) (f.(16) <> "0")
                                  (zf 17) (zf 18) (zf 19) (zf 20) in
              Printf.printf "G %s %s\n" (s code) (s det)
            | _ -> print_endline "G -1 0")
         | _ -> print_endline "BAD")
      | [] -> ()
      | _ -> print_endline "BAD"
    done
  with End_of_file -> ()

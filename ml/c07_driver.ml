(* C07 model driver: same line protocol as harness/c07_harness.cpp; answers computed by the extracted Coq model.
   Input  : F arch plat cc nargs attrs d0 d1 d2 d3 lsize lalign csize calign sareg argstack
            (argstack = FuncDetail::arg_stack_size() as reported by the implementation: a free input of the frame model,
             owned by C06)
   Output : the same line the harness prints, except that the assembler error fields are printed as "-" *)
open Zconv

let z = cz_of_int
let s = string_of_cz
let arch_of = function 0 -> Frame.X86 | 1 -> Frame.X64 | _ -> Frame.A64

let mnem_name = function
  | Frame.Mendbr32 -> "endbr32" | Frame.Mendbr64 -> "endbr64" | Frame.Mpush -> "push" | Frame.Mpop -> "pop" | Frame.Mmov -> "mov"
  | Frame.Mand -> "and" | Frame.Msub -> "sub" | Frame.Madd -> "add" | Frame.Mlea -> "lea" | Frame.Mmovaps -> "movaps"
  | Frame.Mmovups -> "movups" | Frame.Mvmovaps -> "vmovaps" | Frame.Mvmovups -> "vmovups" | Frame.Mkmovq -> "kmovq"
  | Frame.Mmovq -> "movq" | Frame.Memms -> "emms" | Frame.Mvzeroupper -> "vzeroupper" | Frame.Mret -> "ret" | Frame.Mbti -> "bti"
  | Frame.Mstp -> "stp" | Frame.Mstr -> "str" | Frame.Mldp -> "ldp" | Frame.Mldr -> "ldr"

let grp_char g = match Z.to_int (z_of_cz g) with 0 -> "G" | 1 -> "V" | 2 -> "K" | 3 -> "M" | _ -> "?"

let op_str = function
  | Frame.OReg (g, sz, id) -> Printf.sprintf "%s%s.%s" (grp_char g) (s sz) (s id)
  | Frame.OImm v -> "#" ^ s v
  | Frame.OMem (b, off, mode) ->
    let o = z_of_cz off in
    Printf.sprintf "[G%s%s%s]%s" (s b) (if Z.sign o >= 0 then "+" else "") (Z.to_string o)
      (match Z.to_int (z_of_cz mode) with 0 -> "" | 1 -> "!" | _ -> "^")

let inst_str (mn, ops) =
  match ops with
  | [] -> mnem_name mn
  | _ -> mnem_name mn ^ " " ^ String.concat "," (List.map op_str ops)

let insts_str l = match l with [] -> "-" | _ -> String.concat ";" (List.map inst_str l)

let quad_str q = Printf.sprintf "%s %s %s %s" (s q.Frame.q0) (s q.Frame.q1) (s q.Frame.q2) (s q.Frame.q3)

let () =
  try
    while true do
      let line = input_line stdin in
      let toks = List.filter (fun x -> x <> "") (String.split_on_char ' ' (String.trim line)) in
      match toks with
      | "F" :: rest when List.length rest >= 15 ->
        let a = Array.of_list (List.map Z.of_string rest) in
        let iz i = cz_of_z a.(i) in
        let ii i = Z.to_int a.(i) in
        let arch = arch_of (ii 0) in
        (match Frame.cc_init arch (iz 1) (iz 2) with
         | None -> print_endline "F 2"
         | Some cc ->
           let attrs = ii 4 in
           let bit k = attrs land k <> 0 in
           let fi = { Frame.fi_arch = arch; fi_cc = cc; fi_arg_stack_size = iz 14;
                      fi_has_fp = bit 1; fi_has_calls = bit 2; fi_ibp = bit 4; fi_avx = bit 8; fi_avx512 = bit 16;
                      fi_mmx_cleanup = bit 32; fi_avx_cleanup = bit 64; fi_avx_auto_cleanup = bit 128;
                      fi_dirty = { Frame.q0 = iz 5; q1 = iz 6; q2 = iz 7; q3 = iz 8 };
                      fi_local_size = iz 9; fi_local_align = iz 10; fi_call_size = iz 11; fi_call_align = iz 12;
                      fi_sa_reg = iz 13 } in
           let o = Frame.finalize fi in
           let b2 b = if b then "1" else "0" in
           let (pl, pok) = Frame.prolog fi o in
           let (el, eok) = Frame.epilog fi o in
           Printf.printf "F 0 I %s %s %s %s %s %s %s %s %s L %s %s %s %s %s %s %s %s %s %s %s %s %s %s %s %s P %s - %d %s E %s - %d %s\n"
             (s cc.Frame.cc_natural) (s (Frame.min_dynamic_alignment cc.Frame.cc_natural)) (s cc.Frame.cc_redzone)
             (s cc.Frame.cc_spillzone) (s o.Frame.fo_callee_cleanup) (s (iz 14))
             (quad_str cc.Frame.cc_preserved) (quad_str cc.Frame.cc_srsize) (quad_str cc.Frame.cc_sralign)
             (b2 o.Frame.fo_aligned_vec_sr) (b2 o.Frame.fo_has_da)
             (match arch with Frame.A64 -> "31" | _ -> "4") (s o.Frame.fo_sa_reg) (s o.Frame.fo_final_align)
             (quad_str o.Frame.fo_dirty) (s o.Frame.fo_push_pop_size) (s o.Frame.fo_extra_size) (s o.Frame.fo_local_off)
             (s o.Frame.fo_extra_off) (s o.Frame.fo_da_off) (s o.Frame.fo_push_pop_off) (s o.Frame.fo_stack_adj)
             (s o.Frame.fo_final_size) (s o.Frame.fo_sa_from_sp) (s o.Frame.fo_sa_from_sa)
             (if pok then "0" else "3") (List.length pl) (insts_str pl)
             (if eok then "0" else "3") (List.length el) (insts_str el))
      | "S" :: n :: rest when List.length rest = 3 * int_of_string n ->
        (* S n (size align isarg)* in the implementation's processing order -> offsets (-1 for stack-argument slots), final offset,
           and whether the gap machinery was ever used *)
        let rec mk = function
          | sz :: al :: ia :: r -> { Frame.ss_size = cz_of_string sz; ss_align = cz_of_string al; ss_arg = (ia <> "0") } :: mk r
          | _ -> [] in
        let slots = mk rest in
        let (offs, fin) = Frame.alloc_offsets slots in
        let st = Frame.alloc_all slots in
        Printf.printf "S %s | %s %d %d\n" (String.concat " " (List.map s offs)) (s fin)
          (List.length st.Frame.as_gaps) (if st.Frame.as_gap_used then 1 else 0)
      | [] -> ()
      | _ -> print_endline "BAD"
    done
  with End_of_file -> ()

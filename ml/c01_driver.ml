(* C01 model driver: reads one judged call per line, answers with the verdict of the extracted Coq `judge`.
   line:  J <mode 32|64> <name_id> <lock> <f2> <f3> <seg> <k> <z> <rc> <hexbytes> <op>*
   op  :  R <cls> <id> | M <msz> <seg> <bcls> <bid> <icls> <iid> <shift> <disp> <bc> | I <value>
   answer: <verdict> <consumed-length or -> | <candidate>;...   candidate = rowid:len:operands:deco *)
open Zconv

let zi = cz_of_string
let b s = s <> "0"

let rec parse_ops toks =
  match toks with
  | [] -> []
  | "R" :: c :: i :: t -> X86.OReg (zi c, zi i) :: parse_ops t
  | "M" :: a :: b :: c :: d :: e :: f :: g :: h :: i :: t ->
    X86.OMem (zi a, zi b, zi c, zi d, zi e, zi f, zi g, zi h, zi i) :: parse_ops t
  | "I" :: v :: t -> X86.OImm (zi v) :: parse_ops t
  | x :: _ -> failwith ("bad operand token " ^ x)

let bytes_of_hex s =
  let n = String.length s / 2 in
  List.init n (fun i -> cz_of_int (int_of_string ("0x" ^ String.sub s (2 * i) 2)))

let s_op = function
  | X86.OReg (c, i) -> Printf.sprintf "R%s.%s" (string_of_cz c) (string_of_cz i)
  | X86.OMem (a, b, c, d, e, f, g, h, i) ->
    Printf.sprintf "M%s.s%s.b%s.%s.i%s.%s.sh%s.d%s.bc%s" (string_of_cz a) (string_of_cz b) (string_of_cz c) (string_of_cz d)
      (string_of_cz e) (string_of_cz f) (string_of_cz g) (string_of_cz h) (string_of_cz i)
  | X86.OImm v -> "I" ^ string_of_cz v

let rec nat_to_int = function X86.O -> 0 | X86.S n -> 1 + nat_to_int n

let s_deco (d : X86.deco) =
  Printf.sprintf "l%d.f2%d.f3%d.s%s.k%s.z%d.rc%s" (if d.X86.d_lock then 1 else 0) (if d.X86.d_f2 then 1 else 0) (if d.X86.d_f3 then 1 else 0)
    (string_of_cz d.X86.d_seg) (string_of_cz d.X86.d_k) (if d.X86.d_z then 1 else 0) (string_of_cz d.X86.d_rc)

let s_cand (((rid, ops), dc), len) =
  Printf.sprintf "%s:%d:%s:%s" (string_of_cz rid) (nat_to_int len) (String.concat "," (List.map s_op ops)) (s_deco dc)

let () =
  try
    while true do
      let line = input_line stdin in
      let toks = List.filter (fun s -> s <> "") (String.split_on_char ' ' (String.trim line)) in
      match toks with
      | "J" :: mode :: name :: lock :: f2 :: f3 :: seg :: k :: z :: rc :: hex :: ops ->
        let m = if mode = "64" then X86.M64 else X86.M32 in
        let dc = { X86.d_lock = b lock; d_f2 = b f2; d_f3 = b f3; d_seg = zi seg; d_k = zi k; d_z = b z; d_rc = zi rc } in
        let (v, cands) = X86.judge X86.bucket X86.wbucket X86.row_of m (zi name) (parse_ops ops) dc (bytes_of_hex hex) in
        let others = X86.other_names X86.bucket X86.wbucket X86.row_of m (zi name) (bytes_of_hex hex) in
        (* the mod field of the bytes against the model of AsmJit's choice (X86Choice.aj_mod), for the rows among the candidates *)
        let mc = X86.mod_check X86.bucket m (bytes_of_hex hex) in
        let cand_ids = List.map (fun (((rid, _), _), _) -> string_of_cz rid) cands in
        let mcs = List.filter (fun (rid, _) -> List.mem (string_of_cz rid) cand_ids) mc in
        (* byte-exact re-encoding (X86Reencode.reencode_check): the bytes are the structural encoder's output for the instruction they
           decode to; for a wait form the bytes after the leading 9B, read by the wait buckets *)
        let bs = bytes_of_hex hex in
        let rc = X86.reencode_check X86.bucket m bs @
                 (match bs with b0 :: tl when string_of_cz b0 = "155" -> X86.reencode_check X86.wbucket m tl | _ -> []) in
        let rcs = List.filter (fun (rid, _) -> List.mem (string_of_cz rid) cand_ids) rc in
        let show l = String.concat "," (List.map (fun (rid, ok) -> (string_of_cz rid) ^ (if ok then "+" else "-")) l) in
        (* encoder choices beyond the modelled ones (X86Shortest.extra_check): v = three-byte VEX where two bytes do, s = unneeded SIB *)
        let xc = X86.extra_check X86.bucket m bs in
        let xcs = List.filter (fun (rid, _) -> List.mem (string_of_cz rid) cand_ids) xc in
        let showx l = String.concat "," (List.map (fun (rid, (v3, sb)) -> (string_of_cz rid) ^ (if v3 then "v" else "") ^ (if sb then "s" else "")) l) in
        Printf.printf "%s | %s | %s | %s | %s | %s\n" (string_of_cz v) (String.concat ";" (List.map s_cand cands)) (String.concat "," (List.map string_of_cz others))
          (show mcs) (show rcs) (showx xcs)
      | "D" :: mode :: hex :: _ ->
        let m = if mode = "64" then X86.M64 else X86.M32 in
        let cands = X86.denote2 X86.bucket X86.wbucket m (bytes_of_hex hex) in
        Printf.printf "D | %s\n" (String.concat ";" (List.map s_cand cands))
      | [] -> ()
      | _ -> print_endline "BAD"
    done
  with End_of_file -> ()

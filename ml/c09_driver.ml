(* C09 model driver: same line protocol as harness/c09_harness.cpp, answers computed by the extracted Coq model.
   usage: c09 <variant bits>   bit0 fix_incr, bit1 fix_empty, bit2 fix_reset, bit3 fix_init, bit4 fix_qpad
   A history whose state stops being window-sound (only possible with fix_incr = 0) answers `U` from then on. *)
open Zconv
module M = Jitmodel

let zi = cz_of_int
let iz z = Z.to_int (z_of_cz z)

type handle = { mutable live : bool; ever : bool; blk : int; mutable off : int }

let err_name = function
  | M.Ok -> "ok" | M.InvalidArgument -> "inval_arg" | M.InvalidState -> "inval_state"
  | M.TooLarge -> "too_large" | M.OutOfMemory -> "oom" | M.NotInitialized -> "not_init"

let digest (b : M.block) =
  let f = (if b.M.b_empty then 1 else 0) + (if b.M.b_dirty then 2 else 0) + (if b.M.b_incr then 4 else 0) in
  Printf.sprintf "%d %d %d %d %d" (iz b.M.b_ss) (iz b.M.b_se) (iz b.M.b_largest) f (iz b.M.b_aused)

(* `c09 spec`: the proven trace judge (JitSpec.spec_run) over events built from the implementation's answers:
     C g0 pools pad | a size blk off len bytes pool | r blk off | s blk off newlen | z | t allocs | E  ->  J ok <live> / J bad <event index> *)
let spec_mode () =
  let g0 = ref 64 and pools = ref 1 and pad = ref 1 and evs = ref [] in
  (try
    while true do
      let line = input_line stdin in
      match List.filter (fun s -> s <> "") (String.split_on_char ' ' (String.trim line)) with
      | "C" :: g :: p :: d :: _ -> g0 := int_of_string g; pools := int_of_string p; pad := int_of_string d; evs := []
      | "a" :: size :: blk :: off :: len :: bytes :: pool :: _ ->
        evs := M.EAlloc (cz_of_string size, cz_of_string blk, cz_of_string off, cz_of_string len, cz_of_string bytes, cz_of_string pool) :: !evs
      | "r" :: blk :: off :: _ -> evs := M.ERelease (cz_of_string blk, cz_of_string off) :: !evs
      | "s" :: blk :: off :: nl :: _ -> evs := M.EShrink (cz_of_string blk, cz_of_string off, cz_of_string nl) :: !evs
      | "z" :: _ -> evs := M.EReset :: !evs
      | "t" :: n :: _ -> evs := M.EStats (cz_of_string n) :: !evs
      | "E" :: _ ->
        (match M.spec_run (zi !g0) (zi !pools) (zi !pad) [] (List.rev !evs) (zi 0) with
         | M.Inl i -> Printf.printf "J bad %d\n" (iz i)
         | M.Inr l -> Printf.printf "J ok %d\n" (List.length l));
        evs := []
      | _ -> ()
    done
  with End_of_file -> ())

let () =
  if Array.length Sys.argv > 1 && Sys.argv.(1) = "spec" then spec_mode () else
  let vbits = if Array.length Sys.argv > 1 then int_of_string Sys.argv.(1) else 31 in
  let variant = { M.fix_incr = vbits land 1 <> 0; fix_empty = vbits land 2 <> 0; fix_reset = vbits land 4 <> 0;
                  fix_init = vbits land 8 <> 0; fix_qpad = vbits land 16 <> 0 } in
  let fill = ref false in
  let cfg = ref None and st = ref None and cur = ref [] and handles = ref [||] and nh = ref 0 and unsound = ref false in
  let check_ws = not variant.M.fix_incr in
  let push h =
    if !nh >= Array.length !handles then begin
      let a = Array.make (max 64 (2 * !nh)) h in Array.blit !handles 0 a 0 !nh; handles := a end;
    !handles.(!nh) <- h; incr nh in
  let block_of s id = M.find_block (zi id) s.M.blocks in
  (* window soundness of the block an operation touched (all other blocks are unchanged; a reset leaves cleared blocks) *)
  let after_op ?blk s =
    st := Some s.M.cs_st; cur := s.M.cs_cur;
    if check_ws then
      let s = s.M.cs_st in
      match blk with
      | Some id -> (match M.find_block (zi id) s.M.blocks with
                    | Some b -> if not (M.block_wsound b) then unsound := true
                    | None -> ())
      | None -> if not (M.state_wsound s) then unsound := true in
  let stats_line tag c s =
    let t = M.statistics c s in
    Printf.printf "%s %d %d %d %d\n" tag (iz t.M.s_blocks) (iz t.M.s_allocs) (iz t.M.s_used) (iz t.M.s_reserved) in
  let buf = Buffer.create 256 in
  (try
    while true do
      let line = input_line stdin in
      let toks = List.filter (fun s -> s <> "") (String.split_on_char ' ' (String.trim line)) in
      match toks with
      | [] -> ()
      | t :: _ when String.length t > 0 && t.[0] = '#' -> ()
      | "H" :: g :: bs :: opt :: _ ->
        let g = int_of_string g and bs = int_of_string bs and opt = int_of_string opt in
        (* JitAllocator_new_impl normalisation: the model's functions (page granularity of the host: 64 KiB) *)
        let g' = iz (M.norm_gran (zi g)) in
        let bs' = iz (M.norm_bsize (zi 65536) (zi bs)) in
        let pools = iz (M.norm_pools (opt land 2 <> 0)) in
        let c = { M.c_gran = zi g'; c_pools = zi pools; c_bsize = zi bs'; c_pad = (opt land 0x10 = 0);
                  c_imm = (opt land 8 <> 0); c_var = variant } in
        fill := (opt land 4 <> 0);
        cfg := Some c; st := Some (M.init_state c); cur := (M.init_cstate c).M.cs_cur; handles := [||]; nh := 0; unsound := false;
        Printf.printf "H %d %d %d %d\n" (if M.is_initialized c then 1 else 0) pools g' bs'
      (* rows of the translated tables, answered by the model (to name the concrete row when tables_ok fails) *)
      | "TK" :: _ -> Printf.printf "TK %d %d %d\n" (iz (M.norm_pools true)) (iz (M.norm_gran (zi 0))) (iz M.max_block_size)
      | "TA" :: g :: size :: _ ->
        let c = { M.c_gran = cz_of_string g; c_pools = zi 1; c_bsize = zi 65536; c_pad = true; c_imm = false; c_var = M.fixed } in
        (match snd (M.alloc c (M.init_state c) (cz_of_string size)) with
         | M.RAlloc (M.Ok, _, _, _) -> print_endline "TA 0" | M.RAlloc (M.InvalidArgument, _, _, _) -> print_endline "TA 1"
         | M.RAlloc (M.TooLarge, _, _, _) -> print_endline "TA 2" | _ -> print_endline "TA 9")
      | "TC" :: g :: bs :: multi :: _ ->
        Printf.printf "TC %d %d %d\n" (iz (M.norm_gran (cz_of_string g))) (iz (M.norm_bsize (zi 65536) (cz_of_string bs))) (iz (M.norm_pools (multi <> "0")))
      | "TP" :: g :: pools :: size :: _ ->
        let c = { M.c_gran = cz_of_string g; c_pools = cz_of_string pools; c_bsize = zi 65536; c_pad = true; c_imm = false; c_var = M.fixed } in
        Printf.printf "TP %d\n" (iz (M.size_to_pool c (cz_of_string size)))
      | "TI" :: g :: pools :: bs :: pad :: p :: last :: size :: _ ->
        let c = { M.c_gran = cz_of_string g; c_pools = cz_of_string pools; c_bsize = cz_of_string bs; c_pad = (pad <> "0"); c_imm = false; c_var = M.fixed } in
        let lastb = if last = "0" then None else
            Some { M.b_id = zi 0; b_pool = cz_of_string p; b_bytes = cz_of_string last; b_area = zi 0; b_pad = zi 0; b_used = zi 0; b_stop = zi 0;
                   b_aused = zi 0; b_largest = zi 0; b_ss = zi 0; b_se = zi 0; b_empty = false; b_dirty = false; b_incr = false; b_live = [] } in
        Printf.printf "TI %d\n" (iz (M.ideal_block_size c (cz_of_string p) lastb (cz_of_string size)))
      | "I" :: b :: hint :: start :: end_ :: _n :: words ->
        (* C18's model of BitVectorRangeIterator<uint64_t, b>: all ranges *)
        let rs = M.ranges (zi 64) (b <> "0") (List.map cz_of_string words) (cz_of_string start) (cz_of_string end_) (cz_of_string hint) in
        print_string "I"; List.iter (fun (s, e) -> Printf.printf " %s %s" (string_of_cz s) (string_of_cz e)) rs; print_newline ()
      | "K" :: op :: a :: b :: _n :: words ->
        let ws = List.map cz_of_string words in
        (match op with
         | "i" -> (match M.bv_index_of (zi 64) ws (cz_of_string a) (b <> "0") with
                   | Some r -> Printf.printf "K %s\n" (string_of_cz r) | None -> print_endline "K none")
         | _ ->
           let r = if op = "f" then M.bv_fill (zi 64) ws (cz_of_string a) (cz_of_string b) else M.bv_clear (zi 64) ws (cz_of_string a) (cz_of_string b) in
           print_string "K"; List.iter (fun w -> Printf.printf " %s" (string_of_cz w)) r; print_newline ())
      | _ when !cfg = None -> print_endline "BAD"
      | _ when !unsound -> print_endline "U"
      | op :: args ->
        let c = match !cfg with Some c -> c | None -> assert false in
        let s = match !st with Some s -> s | None -> assert false in
        let cs = { M.cs_st = s; cs_cur = !cur } in
        let ai k = int_of_string (List.nth args k) in
        (* byte range the operation overwrites with the fill pattern (JitFill.fill_events / ev_bytes on the pre-state) *)
        let fill_str o =
          if not !fill then "" else
          match M.fill_events c s o with
          | e :: _ -> (match M.ev_bytes c s e with
                       | Some ((_, off), len) -> Printf.sprintf " f %d %d" (iz off) (iz len)
                       | None -> " f ? ?")
          | [] -> " f 0 0" in
        (match op with
         | "A" ->
           let (s', r) = M.alloc_c c cs (cz_of_string (List.nth args 0)) in
           (match r with
            | M.RAlloc (M.Ok, id, off, len) ->
              after_op ~blk:(iz id) s';
              push { live = true; ever = true; blk = iz id; off = iz off };
              (match block_of s'.M.cs_st (iz id) with
               | Some b -> Printf.printf "A ok %d %d %d %s %d %d\n" (iz id) (iz off) (iz len) (digest b) (iz b.M.b_bytes) (iz b.M.b_pool)
               | None -> print_endline "A ok ?")
            | M.RAlloc (e, _, _, _) -> push { live = false; ever = false; blk = -1; off = 0 }; Printf.printf "A %s\n" (err_name e)
            | _ -> print_endline "A ?")
         | "AF" ->
           (* alloc whose virtual-memory request fails (the implementation answered oom): JitVmModel.alloc_vm ... false *)
           let (s', r) = M.alloc_vm c s (cz_of_string (List.nth args 0)) false in
           (match r with
            | M.RAlloc (M.Ok, id, off, len) ->
              after_op ~blk:(iz id) { M.cs_st = s'; cs_cur = !cur };
              push { live = true; ever = true; blk = iz id; off = iz off };
              (match block_of s' (iz id) with
               | Some b -> Printf.printf "A ok %d %d %d %s %d %d\n" (iz id) (iz off) (iz len) (digest b) (iz b.M.b_bytes) (iz b.M.b_pool)
               | None -> print_endline "A ok ?")
            | M.RAlloc (e, _, _, _) ->
              after_op { M.cs_st = s'; cs_cur = !cur };
              push { live = false; ever = false; blk = -1; off = 0 }; Printf.printf "A %s\n" (err_name e)
            | _ -> print_endline "A ?")
         | "V" -> print_endline "V 1"
         | "R" ->
           let h = ai 0 in
           if h < 0 || h >= !nh || not !handles.(h).live then print_endline "R skip"
           else begin
             let hd = !handles.(h) in
             let fo = fill_str (M.ORelease (zi hd.blk, zi hd.off)) in
             let (s', r) = M.release_c c cs (zi hd.blk) (zi hd.off) in
             (match r with
              | M.RRelease (e, id, del) ->
                if e = M.Ok then hd.live <- false;
                after_op ~blk:hd.blk s';
                if del then Printf.printf "R %s %d deleted\n" (err_name e) hd.blk
                else (match block_of s'.M.cs_st hd.blk with
                      | Some b -> Printf.printf "R %s %d %s%s\n" (err_name e) hd.blk (digest b) fo
                      | None -> Printf.printf "R %s %d deleted\n" (err_name e) hd.blk)
              | _ -> print_endline "R ?")
           end
         | "S" ->
           let h = ai 0 and ns = ai 1 in
           if h < 0 || h >= !nh || not !handles.(h).live then print_endline "S skip"
           else begin
             let hd = !handles.(h) in
             let fo = fill_str (M.OShrink (zi hd.blk, zi hd.off, zi ns)) in
             let (s', r) = M.shrink_c c cs (zi hd.blk) (zi hd.off) (zi ns) in
             (match r with
              | M.RShrink (e, _, len) ->
                if ns = 0 then hd.live <- false;
                after_op ~blk:hd.blk s';
                (match block_of s'.M.cs_st hd.blk with
                 | Some b -> Printf.printf "S %s %d %d %s%s\n" (err_name e) (iz len) hd.blk (digest b) fo
                 | None -> Printf.printf "S %s %d %d deleted\n" (err_name e) (iz len) hd.blk)
              | _ -> print_endline "S ?")
           end
         | "Q" ->
           let h = ai 0 and d = ai 1 in
           if h < 0 || h >= !nh || not !handles.(h).ever then print_endline "Q skip"
           else begin
             let hd = !handles.(h) in
             match block_of s hd.blk with
             | None -> print_endline "Q skip"
             | Some b ->
               let o = hd.off + d in
               if o < 0 || o >= iz b.M.b_bytes then print_endline "Q oob"
               else (match M.query c s (zi hd.blk) (zi o) with
                     | M.RQuery (M.Ok, id, off, len) -> Printf.printf "Q ok %d %d %d\n" (iz id) (iz off) (iz len)
                     | M.RQuery (e, _, _, _) -> Printf.printf "Q %s\n" (err_name e)
                     | _ -> print_endline "Q ?")
           end
         | "F" ->
           (match ai 0 with
            | 0 | 3 -> print_endline "F inval_arg"
            | 1 -> print_endline "F inval_state"
            | 2 -> print_endline "F inval_arg"
            | _ -> print_endline "BAD")
         | "Z" ->
           let s' = M.reset_c c cs (ai 0 <> 0) in
           for i = 0 to !nh - 1 do !handles.(i).live <- false done;
           after_op s'; stats_line "Z" c s'.M.cs_st
         | "T" -> stats_line "T" c s
         | "W" ->
           let h = ai 0 in
           if h < 0 || h >= !nh || not !handles.(h).live then print_endline "W skip" else print_endline "W ok"
         | "D" ->
           Buffer.clear buf;
           let n = ref 0 in
           let pools = iz c.M.c_pools in
           for p = 0 to pools - 1 do
             List.iter (fun (b : M.block) ->
                 if iz b.M.b_pool = p then begin
                   incr n;
                   let d = String.concat ":" (String.split_on_char ' ' (digest b)) in
                   Buffer.add_string buf (Printf.sprintf " %d:%d:%d:%d:%s" (iz b.M.b_id) p (iz b.M.b_bytes) (iz b.M.b_area) d)
                 end) s.M.blocks
           done;
           Buffer.add_string buf " |";
           for p = 0 to pools - 1 do
             Buffer.add_string buf (match M.get_cur cs (zi p) with Some id -> Printf.sprintf " %d" (iz id) | None -> " -1")
           done;
           Printf.printf "D %d%s\n" !n (Buffer.contents buf)
         | "X" -> cfg := None; st := None; print_endline "X"
         | _ -> print_endline "BAD")
    done
  with End_of_file -> ())

(* C04 model driver: one relocation problem per line, answered by the extracted Coq model (coq/extract/Extract_Reloc.v).
   RELOC <base> <asize> <atoff> <reserved> <last 0|1> | <entry> | <entry> ...
   entry = <kind> <secoff> <off> <lead> <region> <fmt: ty,vsize,bits,shift,discard> <payload> <old>
   kind  = X:<pl|->:<pb|->  |  A  |  T:<toff|->  |  R  |  E:<opcode byte>
   answer: OK <reduction> <table size> <slots a,b,..|-> | <word> <rewrite b0:b1|-> <slot|-> | ...      or   ERR <name> *)
open Zconv

let otype_of_int = function
  | 0 -> Reloc.SignedOffset | 1 -> Reloc.UnsignedOffset | 2 -> Reloc.A64_ADR | 3 -> Reloc.A64_ADRP | 4 -> Reloc.T32_ADR | 5 -> Reloc.T32_BLX
  | 6 -> Reloc.T32_B | 7 -> Reloc.T32_BCond | 8 -> Reloc.A32_ADR | 9 -> Reloc.A32_U23 | 10 -> Reloc.A32_U23_0To3At0_4To7At8
  | 11 -> Reloc.A32_1To24At0_0At24 | _ -> failwith "otype"

let opt_z s = if s = "-" then None else Some (cz_of_string s)

let parse_entry (s : string) : Reloc.rentry =
  match List.filter (fun x -> x <> "") (String.split_on_char ' ' (String.trim s)) with
  | [kind; secoff; off; lead; region; fmt; payload; old] ->
    let k = match String.split_on_char ':' kind with
      | ["X"; pl; pb] -> Reloc.RExpr (opt_z pl, opt_z pb)
      | ["A"] -> Reloc.RAbsToAbs
      | ["T"; t] -> Reloc.RRelToAbs (opt_z t)
      | ["R"] -> Reloc.RAbsToRel
      | ["E"; opc] -> Reloc.RAddrEntry (cz_of_string opc)
      | _ -> failwith "kind" in
    let f = match List.map int_of_string (String.split_on_char ',' fmt) with
      | [ty; vs; bits; sh; dl] -> { Reloc.ty = otype_of_int ty; vsize = cz_of_int vs; bits = cz_of_int bits; shift = cz_of_int sh; discard = cz_of_int dl }
      | _ -> failwith "fmt" in
    { Reloc.e_kind = k; e_secoff = cz_of_string secoff; e_off = cz_of_string off; e_lead = cz_of_string lead; e_region = cz_of_string region;
      e_fmt = f; e_payload = cz_of_string payload; e_old = cz_of_string old }
  | _ -> failwith "entry"

let () =
  try
    while true do
      let line = input_line stdin in
      (try
        match String.split_on_char '|' line with
        | head :: entries ->
          (match List.filter (fun x -> x <> "") (String.split_on_char ' ' (String.trim head)) with
           | ["RELOC"; base; asize; atoff; reserved; last] ->
             let es = List.map parse_entry (List.filter (fun s -> String.trim s <> "") entries) in
             (match Reloc.relocate (cz_of_string base) (cz_of_string asize) (cz_of_string atoff) (cz_of_string reserved) (last = "1") es with
              | Reloc.Inr e ->
                print_endline ("ERR " ^ (match e with Reloc.RInvalidEntry -> "invalid_reloc" | Reloc.ROutOfRange -> "reloc_range" | Reloc.RExprUnbound -> "expr_unbound"))
              | Reloc.Inl r ->
                let b = Buffer.create 256 in
                Buffer.add_string b (Printf.sprintf "OK %s %s %s" (string_of_cz r.Reloc.rr_reduction) (string_of_cz r.Reloc.rr_table_size)
                  (if r.Reloc.rr_table = [] then "-" else String.concat "," (List.map string_of_cz r.Reloc.rr_table)));
                List.iter (fun o ->
                  Buffer.add_string b (Printf.sprintf " | %s %s %s" (string_of_cz o.Reloc.o_word)
                    (match o.Reloc.o_rewrite with None -> "-" | Some (x, y) -> string_of_cz x ^ ":" ^ string_of_cz y)
                    (match o.Reloc.o_slot with None -> "-" | Some x -> string_of_cz x))) r.Reloc.rr_outs;
                print_endline (Buffer.contents b))
           | ["MEAN"; mode; cls; modrm; imm; addr; hex] ->
             (* run-time meaning of the bytes at a site through C01's proven structural decoder (Verif.X86.X86Model.sdec) *)
             let m = if mode = "64" then Reloc.M64 else Reloc.M32 in
             let rec nat_of_int i = if i <= 0 then Reloc.O else Reloc.S (nat_of_int (i - 1)) in
             let sh = { Reloc.sh_modrm = (modrm = "1"); sh_vsib = false; sh_imm = nat_of_int (int_of_string imm); sh_n = cz_of_int 1 } in
             let n = String.length hex / 2 in
             let bs = List.init n (fun i -> cz_of_int (int_of_string ("0x" ^ String.sub hex (2 * i) 2))) in
             let r = (match cls with
                      | "mem" -> Reloc.site_target m Reloc.CMem sh (cz_of_string addr) bs
                      | "branch" -> Reloc.site_target m Reloc.CBranch sh (cz_of_string addr) bs
                      | "moffs" -> Reloc.site_target m Reloc.CMoffs sh (cz_of_string addr) bs
                      | "branch8" -> Reloc.branch8_target m sh (cz_of_string addr) bs
                      | _ -> None) in
             print_endline (match r with Some t -> string_of_cz t | None -> "none")
           | ["A64"; pc; w] ->
             print_endline (match Reloc.a64_site_target (cz_of_string pc) (cz_of_string w) with Some t -> string_of_cz t | None -> "none")
           | ["KNOWN"; abits; base; next; target] ->
             (* the relative field the assembler emits at once when the base is known at init *)
             print_endline (match Reloc.known_rel32 (cz_of_string abits) (cz_of_string base) (cz_of_string next) (cz_of_string target) with
                            | Some w -> string_of_cz w | None -> "none")
           | _ -> print_endline "BAD")
        | [] -> print_endline "BAD"
      with Failure m -> print_endline ("BAD " ^ m) | Invalid_argument m -> print_endline ("BAD " ^ m))
    done
  with End_of_file -> ()

(* C05 driver: reads the RaIR dumps printed by harness/c05_harness.cpp, runs the extracted, proven validator
   (Rair.validate = check (infer ...)) on every (source, target) pair and prints one verdict line per program. *)
open Zconv

let rec nat_of_int (i : int) : Rair.nat = if i <= 0 then Rair.O else Rair.S (nat_of_int (i - 1))
let rec int_of_nat (n : Rair.nat) : int = match n with Rair.O -> 0 | Rair.S m -> 1 + int_of_nat m
let n_of_int (i : int) : Rair.n = cn_of_z (Z.of_int i)

let keys : (string, int) Hashtbl.t = Hashtbl.create 1024
let intern (k : string) : Rair.n =
  match Hashtbl.find_opt keys k with
  | Some i -> n_of_int i
  | None -> let i = Hashtbl.length keys + 10 in Hashtbl.add keys k i; n_of_int i

exception Bad of string

(* registers holding the address of the function's stack arguments in front of the T line being read, and the address width *)
let sa_regs : Rair.n list ref = ref []
let sa_aw = ref 8
(* by-reference call arguments: per temporary (frame offset k) the registers holding its address; tmp_gen = the (register, k)
   announced by an "N" line, which starts the set behind the next T line (the lea) *)
let tmp_sets : (string * Rair.n list) list ref = ref []
let tmp_gen : (int * string) option ref = ref None
(* functions that keep a frame pointer: the register that must be constant in the body (stack arguments are named by their
   offset from it); checked with the extracted, proven RaIRModel.reg_untouched *)
let fp_reg : (Rair.n * Rair.n) option ref = ref None

let vreg_of (s : string) : Rair.n =
  if String.length s < 2 || s.[0] <> 'v' then raise (Bad ("vreg " ^ s));
  n_of_int (int_of_string (String.sub s 1 (String.length s - 1)))

let loc_of (s : string) : Rair.loc =
  if String.length s < 2 then raise (Bad ("loc " ^ s));
  match s.[0] with
  | 'r' -> (match String.split_on_char '.' (String.sub s 1 (String.length s - 1)) with
            | [g; i] -> Rair.LReg (n_of_int (int_of_string g), n_of_int (int_of_string i))
            | _ -> raise (Bad ("loc " ^ s)))
  | 's' -> Rair.LSlot (cz_of_string (String.sub s 1 (String.length s - 1)))
  | 't' ->
    (* "t<reg>:<k>": the 16 bytes at [<reg>], which the dumper takes for the temporary at frame offset k of a by-reference call
       argument. Accepted only while the extracted, proven RaIRModel.sa_step lists <reg> among the registers holding the
       address of that temporary (the set starts as {p} behind "lea p, [sp+k]", line "N p k") *)
    (match String.split_on_char ':' (String.sub s 1 (String.length s - 1)) with
     | [r; k] ->
       let set = (try List.assoc k !tmp_sets with Not_found -> []) in
       if not (Rair.id_mem (n_of_int (int_of_string r)) set) then
         raise (Bad ("unmodelled: stack argument copy stored through register " ^ r ^ " which is not known to hold the address of temporary " ^ k));
       Rair.LSlot (cz_of_string k)
     | _ -> raise (Bad ("loc " ^ s)))
  | 'a' ->
    (* "a<reg>:<k>": byte k of the function's stack-argument area, reached through GP register <reg> ("a-:<k>": named by the
       function entry itself). Accepted only while the extracted, proven RaIRModel.sa_step lists <reg> among the registers
       holding the address of that area; the area gets slot numbers of its own (2^24 + k) *)
    (match String.split_on_char ':' (String.sub s 1 (String.length s - 1)) with
     | [r; k] ->
       if r <> "-" && not (Rair.id_mem (n_of_int (int_of_string r)) !sa_regs) then
         raise (Bad ("unmodelled: stack argument read through register " ^ r ^ " which is not known to hold the argument-area address"));
       Rair.LSlot (cz_of_z (Z.add (Z.shift_left Z.one 24) (Z.of_string k)))
     | _ -> raise (Bad ("loc " ^ s)))
  | _ -> raise (Bad ("loc " ^ s))

(* parse "<n> (name w)*" from a token list; returns (list, rest) *)
let parse_args (conv : string -> 'a) (toks : string list) : ('a * Rair.nat) list * string list =
  match toks with
  | [] -> raise (Bad "args")
  | n :: rest ->
    let n = int_of_string n in
    let rec go k acc rest =
      if k = 0 then (List.rev acc, rest)
      else match rest with
        | a :: w :: rest' -> go (k - 1) ((conv a, nat_of_int (int_of_string w)) :: acc) rest'
        | _ -> raise (Bad "args") in
    go n [] rest


(* ---- operands given as RAW read/write facts: uses and defs are derived by the extracted RwRuleModel.classify, the idiom
   class by RwRuleModel.idiom_of ("J <tag> <same> <imm|-> <osize> <a64> <n> items", item = R name <11 facts> | U name w | D name w) *)
let list_groups = ref 0
let alu_of (tag : string) : Rair.alu = Rair.alu_of_id Rair.idiom_tags (n_of_int (int_of_string tag))
let parse_items (conv : string -> 'a) (toks : string list) : ('a * Rair.nat) list * ('a * Rair.nat) list =
  match toks with
  | "J" :: tag :: same :: imm :: osize :: a64 :: n :: rest ->
    let id = Rair.idiom_of (alu_of tag) (same <> "0") (if imm = "-" then None else Some (cz_of_string imm)) (nat_of_int (int_of_string osize)) in
    let a64 = a64 <> "0" in
    let rec lists toks = match toks with
      | "K" :: n :: rest -> let n = int_of_string n in
        let g = List.filteri (fun i _ -> i < n) rest and rest = List.filteri (fun i _ -> i >= n) rest in
        (* only the allocated program has physical registers; the proven side condition Rair.consec_ok decides *)
        (match g with
         | x :: _ when String.length x > 0 && x.[0] = 'r' -> if not (Rair.consec_ok (List.map loc_of g)) then raise (Bad ("unmodelled: register list not consecutive: " ^ String.concat "," g))
         | _ -> ());
        list_groups := !list_groups + 1; lists rest
      | _ -> () in
    let rec go k toks us ds =
      if k = 0 then (lists toks; (List.rev us, List.rev ds)) else
      match toks with
      | "U" :: a :: w :: rest -> go (k - 1) rest ((conv a, nat_of_int (int_of_string w)) :: us) ds
      | "D" :: a :: w :: rest -> go (k - 1) rest us ((conv a, nat_of_int (int_of_string w)) :: ds)
      | "R" :: a :: rd :: wr :: rm :: wm :: em :: rms :: isrm :: osz :: ismem :: vs :: first :: rest ->
        let raw = { Rair.r_read = rd <> "0"; r_write = wr <> "0"; r_rmask = cn_of_string rm; r_wmask = cn_of_string wm; r_emask = cn_of_string em;
                    r_rm = nat_of_int (int_of_string rms); r_isrm = isrm <> "0"; r_osize = nat_of_int (int_of_string osz); r_ismem = ismem <> "0";
                    r_vsize = nat_of_int (int_of_string vs); r_first = first <> "0" } in
        let (uw, dw) = Rair.classify a64 id raw in
        let x = conv a in
        go (k - 1) rest (List.rev_append (List.map (fun w -> (x, w)) uw) us) (List.rev_append (List.map (fun w -> (x, w)) dw) ds)
      | _ -> raise (Bad "items") in
    go (int_of_string n) rest [] []
  | _ -> raise (Bad "items header")
let parse_ud conv rest = match rest with
  | "J" :: _ -> parse_items conv rest
  | _ -> let (us, rest) = parse_args conv rest in let (ds, _) = parse_args conv rest in (us, ds)

let parse_s (toks : string list) : Rair.sinstr =
  match toks with
  | "op" :: key :: rest -> let (us, ds) = parse_ud vreg_of rest in Rair.SOp (intern key, us, ds)
  | ["mov"; d; s; w] -> Rair.SMove (vreg_of d, vreg_of s, nat_of_int (int_of_string w))
  | "cond" :: key :: l :: rest -> let (us, ds) = parse_ud vreg_of rest in if ds <> [] then raise (Bad "branch with defs"); Rair.SCond (intern key, us, n_of_int (int_of_string l))
  | "jmptab" :: key :: n :: rest ->
    let n = int_of_string n in
    let ls = List.filteri (fun i _ -> i < n) rest and rest = List.filteri (fun i _ -> i >= n) rest in
    let (us, ds) = parse_ud vreg_of rest in if ds <> [] then raise (Bad "jump with defs");
    Rair.SJmpTab (intern key, us, List.map (fun l -> n_of_int (int_of_string l)) ls)
  | ["jmp"; l] -> Rair.SJmp (n_of_int (int_of_string l))
  | ["label"; l] -> Rair.SLabel (n_of_int (int_of_string l))
  | "ret" :: rest -> let (us, _) = parse_args vreg_of rest in Rair.SRet us
  | _ -> raise (Bad ("S " ^ String.concat " " toks))

let parse_t (toks : string list) : Rair.tinstr =
  match toks with
  | "op" :: key :: rest -> let (us, ds) = parse_ud loc_of rest in Rair.TOp (intern key, us, ds)
  | ["mov"; d; s; w; keep; e] -> Rair.TMove (loc_of d, loc_of s, nat_of_int (int_of_string w), keep <> "0", nat_of_int (int_of_string e))
  | ["swap"; a; b; w] -> Rair.TSwap (loc_of a, loc_of b, nat_of_int (int_of_string w))
  | "cond" :: key :: l :: rest -> let (us, ds) = parse_ud loc_of rest in if ds <> [] then raise (Bad "branch with defs"); Rair.TCond (intern key, us, n_of_int (int_of_string l))
  | "jmptab" :: key :: n :: rest ->
    let n = int_of_string n in
    let ls = List.filteri (fun i _ -> i < n) rest and rest = List.filteri (fun i _ -> i >= n) rest in
    let (us, ds) = parse_ud loc_of rest in if ds <> [] then raise (Bad "jump with defs");
    Rair.TJmpTab (intern key, us, List.map (fun l -> n_of_int (int_of_string l)) ls)
  | ["jmp"; l] -> Rair.TJmp (n_of_int (int_of_string l))
  | ["label"; l] -> Rair.TLabel (n_of_int (int_of_string l))
  | "ret" :: rest -> let (us, _) = parse_args loc_of rest in Rair.TRet us
  | "bad" :: rest -> raise (Bad ("unmodelled: " ^ String.concat " " rest))
  | _ -> raise (Bad ("T " ^ String.concat " " toks))


(* ---- search for a concrete counterexample at the IR level (used when the validator refuses): both programs are run by the
   extracted interpreters srun/trun under a pseudo-random instruction semantics that respects the declared uses/defs
   (results and branch decisions are hashes of opcode, operand values and world), from pseudo-random initial registers and
   stack; a differing observation is a concrete failing input of "allocation preserves meaning" for the dumped pair. *)
let mix (h : int) (x : int) : int = let h = (h lxor x) * 0x2545F4914F6CDD1D in h lxor (h lsr 29)
let hash_z (h : int) (z : Rair.z) : int = mix h (Hashtbl.hash (Z.to_string (z_of_cz z)))
let hash_n (h : int) (n : Rair.n) : int = mix h (Z.to_int (z_of_cn n))
let wide_value (h : int) : Rair.z =          (* a 128-bit value *)
  let a = Z.of_int (mix h 1 land max_int) and b = Z.of_int (mix h 2 land max_int) and c = Z.of_int (mix h 3 land max_int) in
  cz_of_z (Z.logand (Z.logxor (Z.logxor a (Z.shift_left b 50)) (Z.shift_left c 90)) (Z.pred (Z.shift_left Z.one 128)))
let sem_of (seed : int) (o : Rair.n) (args : Rair.z list) (w : int) : Rair.z list * int =
  let h = List.fold_left hash_z (hash_n (mix seed w) o) args in
  (List.init 80 (fun i -> wide_value (mix h (i + 7))), mix h 99)
(* branch decisions: taken with probability 1/4, 2/4 or 3/4 depending on the trial, so that both loop-heavy and
   fall-through-heavy paths are explored *)
let semc_of (seed : int) (o : Rair.n) (args : Rair.z list) (w : int) : bool =
  let h = List.fold_left hash_z (hash_n (mix (seed + 1) w) o) args in (mix h 5) land 3 < 1 + (seed mod 3)
let show_outcome show = function
  | Rair.Halt (res, w) -> Printf.sprintf "returns [%s] world %x" (String.concat ";" (List.map (fun z -> Z.format "%x" (z_of_cz z)) res)) (w land 0xFFFFFF)
  | Rair.Next _ -> "still running" | Rair.Stuck -> "STUCK"
(* the long second round (540 more trials) only on request (environment C05_IR_LONG, used by --replay sessions): measured on the
   seeded changes it tripled the time of a run on a broken tree and found no additional input *)
let extended_used = ref 0
let ir_search (sp : Rair.sprog) (tp : Rair.tprog) (trials : int) : string =
  let fuel = nat_of_int 4000 in
  let found = ref None and halted = ref 0 in
  let t = ref 0 and limit = ref trials and extended = ref false in
  while !found = None && !t < !limit do
    let seed = 1000 + !t in
    let v0 = (fun v -> wide_value (hash_n (seed * 3) v)) in
    let t0 = { Rair.rs = (fun g i -> wide_value (hash_n (hash_n (seed * 5) g) i)); Rair.st = (fun a -> cz_of_int ((hash_z (seed * 7) a) land 255)) } in
    let so = Rair.srun (sem_of seed) (semc_of seed) fuel sp ((Rair.O, v0), 17) in
    (match so with
     | Rair.Halt (res, w) ->
       incr halted;
       let tout = Rair.trun (sem_of seed) (semc_of seed) (nat_of_int 40000) tp ((Rair.O, t0), 17) in
       (match tout with
        | Rair.Halt (res', w') when w = w' && List.length res = List.length res' && List.for_all2 (fun a b -> Z.equal (z_of_cz a) (z_of_cz b)) res res' -> ()
        | _ -> found := Some (Printf.sprintf "ir-counterexample trial=%d: source %s, target %s" seed (show_outcome () so) (show_outcome () tout)))
     | _ -> ());
    incr t;
    (* nothing found in the first round: a longer second round (only refused pairs get here, so the cost is not on the green path) *)
    if !found = None && !t = trials && !extended = false && !extended_used < 1 && Sys.getenv_opt "C05_IR_LONG" <> None then begin extended := true; incr extended_used; limit := trials * 10 end
  done;
  match !found with Some s -> s | None -> Printf.sprintf "ir-search: no counterexample in %d trials (%d terminating)" !limit !halted

let alu_cnt : (string, int * int) Hashtbl.t = Hashtbl.create 256
let alu_bad = ref 0
let mv_cnt : (string, int) Hashtbl.t = Hashtbl.create 64
let mv_bad = ref 0

let () =
  let cur = ref "" and ss = ref [] and ts = ref [] and hs = ref [] and tl = ref [] and bad = ref None in
  let finish () =
    (match !bad with
     | Some why -> Printf.printf "R %s bad reason=%s %s\n" !cur (if String.length why > 30 && String.sub why 0 12 = "unmodelled: " then (if String.length why > 36 && String.sub why 12 13 = "register list" then "register-list-not-consecutive" else if String.length why > 40 && String.sub why 12 19 = "stack argument copy" then "by-reference-copy-through-untracked-register" else if String.length why > 36 && String.sub why 12 14 = "stack argument" then "stack-argument-through-untracked-register" else "unmodelled-instruction") else "dump-not-parsable") why
     | None ->
       if !ss = [] then Printf.printf "R %s nodump\n" !cur
       else begin
         let sp = List.rev !ss and tp = List.rev !ts and hints = List.rev !hs in
         (match !fp_reg with
          | Some (g, r) when not (Rair.reg_untouched g r tp) -> Printf.printf "R %s bad reason=frame-pointer-written unmodelled: the frame pointer is defined by an instruction of the body\n" !cur
          | _ ->
         let ann = Rair.infer sp tp hints in
         (* = Rair.validate_full sp tp hints, unfolded to report which part refuses *)
         if Rair.check sp tp ann then begin
           if Rair.check_progress tp (Rair.infer_ranks tp) then Printf.printf "R %s ok %d %d\n" !cur (List.length sp) (List.length tp)
           else Printf.printf "R %s reject reason=cycle-of-inserted-instructions progress\n" !cur
         end
         else begin
           match Rair.first_bad sp tp ann with
           | Some t -> let t = int_of_nat t in
             let line = try List.nth (List.rev !tl) t with _ -> "?" in
             let neq = (match (try List.nth ann t with _ -> None) with Some (_, e) -> List.length e | None -> -1) in
             (* diagnosis (untrusted, for the refusal histogram): which clause of check_pc fails at that pc *)
             let reason =
               (match (try List.nth ann t with _ -> None), (try Some (List.nth tp t) with _ -> None) with
                | Some (s, e), Some ti ->
                  let si = (try Some (List.nth sp (int_of_nat s)) with _ -> None) in
                  (match ti, si with
                   | Rair.TOp (o, tu, td), Some (Rair.SOp (o', su, sd)) ->
                     if o <> o' then "opcode-differs" else if not (Rair.check_uses e su tu) then "use-without-equation"
                     else (match Rair.defs_eqs e sd td with None -> "def-shape-differs" | Some _ -> "next-annotation-not-implied")
                   | Rair.TCond (o, tu, _), Some (Rair.SCond (o', su, _)) ->
                     if o <> o' then "opcode-differs" else if not (Rair.check_uses e su tu) then "use-without-equation" else "branch-edge-not-implied"
                   | Rair.TJmpTab (o, tu, _), Some (Rair.SJmpTab (o', su, _)) ->
                     if o <> o' then "opcode-differs" else if not (Rair.check_uses e su tu) then "use-without-equation" else "jump-table-edge-not-implied"
                   | Rair.TRet tu, Some (Rair.SRet su) -> if not (Rair.check_uses e su tu) then "return-value-without-equation" else "?"
                   | (Rair.TOp _ | Rair.TCond _ | Rair.TJmpTab _ | Rair.TRet _), _ -> "source-instruction-differs"
                   | Rair.TMove _, _ | Rair.TSwap _, _ -> "edge-after-inserted-move-not-implied"
                   | Rair.TLabel _, _ | Rair.TJmp _, _ -> "edge-at-label-or-jump-not-implied")
                | _, _ -> "no-annotation") in
             Printf.printf "R %s reject pc=%d eqs=%d reason=%s at: %s | %s\n" !cur t neq reason line (ir_search sp tp 60);
             if Sys.getenv_opt "C05_DEBUG" <> None then begin
               let show_loc = function Rair.LReg (g, i) -> Printf.sprintf "r%s.%s" (string_of_cn g) (string_of_cn i) | Rair.LSlot o -> "s" ^ string_of_cz o in
               List.iteri (fun i a -> if (match Sys.getenv_opt "C05_WIN" with Some w -> (match String.split_on_char (String.get "," 0) w with [a; b] -> i >= int_of_string a && i <= int_of_string b | _ -> true) | None -> i >= t - 6 && i <= t + 1) then begin
                 (match a with
                  | None -> Printf.printf "#   ann[%d] = unreachable\n" i
                  | Some (s, e) -> Printf.printf "#   ann[%d] = src %d: %s\n" i (int_of_nat s)
                      (String.concat " " (List.map (fun ((v, l), w) -> Printf.sprintf "v%s=%s/%d" (string_of_cn v) (show_loc l) (int_of_nat w)) e)));
                 Printf.printf "#     %s\n" (try List.nth (List.rev !tl) i with _ -> "?") end) ann
             end
           | None -> Printf.printf "R %s reject entry-or-length\n" !cur
         end)
       end);
    ss := []; ts := []; hs := []; tl := []; bad := None in
  try
    while true do
      let line = input_line stdin in
      let toks = List.filter (fun s -> s <> "") (String.split_on_char ' ' line) in
      (try
        match toks with
        | "P" :: idx :: _ -> cur := idx; sa_regs := []; fp_reg := None; tmp_sets := []; tmp_gen := None
        | ["M"; aw; r] -> sa_aw := int_of_string aw; sa_regs := [n_of_int (int_of_string r)]
        | ["N"; r; k] -> tmp_gen := Some (int_of_string r, k)
        | ["F"; g; r] -> fp_reg := Some (n_of_int (int_of_string g), n_of_int (int_of_string r))
        | "S" :: rest -> if !bad = None then ss := parse_s rest :: !ss
        | "T" :: h :: rest ->
          if !bad = None then begin
            tl := line :: !tl;
            hs := (if h = "-" then None else Some (nat_of_int (int_of_string h))) :: !hs;
            let ti = parse_t rest in
            ts := ti :: !ts;
            sa_regs := Rair.sa_step (nat_of_int !sa_aw) ti !sa_regs;
            tmp_sets := List.map (fun (k, m) -> (k, Rair.sa_step (nat_of_int 8) ti m)) !tmp_sets;
            (match !tmp_gen with
             | Some (r, k) -> tmp_sets := (k, [n_of_int r]) :: List.remove_assoc k !tmp_sets; tmp_gen := None
             | None -> ())
          end
        | "E" :: _ -> finish (); flush stdout
        | ["A"; id; w; form; a; b; res; m] ->
          (* one execution of a tagged instruction on the host CPU: compare with the extracted value semantics alu_sem
             wherever alu_defined says it is specified (the idiom theorems only use such instances) *)
          let op = alu_of id and bz = cz_of_string b in
          let key = m ^ "/" ^ w ^ "/" ^ form in
          let (c, k) = (try Hashtbl.find alu_cnt key with Not_found -> (0, 0)) in
          if Rair.alu_defined op bz then begin
            let exp = z_of_cz (Rair.alu_sem op (nat_of_int (int_of_string w)) (cz_of_string a) bz) in
            Hashtbl.replace alu_cnt key (c + 1, k);
            if not (Z.equal exp (Z.of_string res)) then begin
              incr alu_bad;
              if !alu_bad <= 5 then Printf.printf "AR bad %s w=%s %s a=%s b=%s cpu=%s alu_sem=0x%s\n" m w form a b res (Z.format "%x" exp) end
          end else Hashtbl.replace alu_cnt key (c, k + 1)
        | "AX" :: rest -> Printf.printf "AR unsupported %s\n" (String.concat " " rest)
        | "V" :: rest ->
          (* one execution of a whitelisted inserted move / swap on the host CPU: the T line the dumper derives for it is run by
             the extracted tstep from the same register and stack contents; the whole destination and source registers and the
             whole stack window must come out as on the CPU *)
          let rec split acc = function "|" :: r -> (List.rev acc, r) | x :: r -> split (x :: acc) r | [] -> (List.rev acc, []) in
          let (tl, data) = split [] rest in
          (match data with
           | a0 :: b0 :: w0 :: a1 :: b1 :: w1 :: _ ->
             let ti = parse_t tl in
             let g = (match List.find_opt (fun s -> String.length s > 1 && s.[0] = 'r') tl with
                      | Some s -> int_of_string (String.sub s 1 (String.index s '.' - 1)) | None -> 0) in
             let ida = if g = 2 then 1 else 0 and idb = if g = 2 then 2 else 1 in
             let za = Z.of_string a0 and zb = Z.of_string b0 and zw = Z.of_string w0 in
             let byte_of z o = Z.to_int (Z.logand (Z.shift_right z (8 * o)) (Z.of_int 255)) in
             let t0 = { Rair.rs = (fun g' i' -> let g' = Z.to_int (z_of_cn g') and i' = Z.to_int (z_of_cn i') in
                                    if g' = g && i' = ida then cz_of_z za else if g' = g && i' = idb then cz_of_z zb else cz_of_int 0);
                        Rair.st = (fun o -> let o = z_of_cz o in if Z.sign o >= 0 && Z.lt o (Z.of_int 128) then cz_of_int (byte_of zw (Z.to_int o)) else cz_of_int 0) } in
             let key = String.concat " " tl in
             (match Rair.trun (fun _ _ w -> ([], w)) (fun _ _ _ -> false) (nat_of_int 1) [ti] ((Rair.O, t0), 0) with
              | Rair.Next ((_, t1), _) ->
                let ra = z_of_cz (t1.Rair.rs (n_of_int g) (n_of_int ida)) and rb = z_of_cz (t1.Rair.rs (n_of_int g) (n_of_int idb)) in
                let zw1 = Z.of_string w1 in
                let memok = ref true in
                for o = 0 to 127 do if Z.to_int (z_of_cz (t1.Rair.st (cz_of_int o))) <> byte_of zw1 o then memok := false done;
                if Z.equal ra (Z.of_string a1) && Z.equal rb (Z.of_string b1) && !memok then Hashtbl.replace mv_cnt key (1 + (try Hashtbl.find mv_cnt key with Not_found -> 0))
                else begin incr mv_bad; if !mv_bad <= 5 then Printf.printf "VR bad %s : model dst=%s src=%s mem_equal=%b ; cpu dst=%s src=%s\n" key (Z.format "%x" ra) (Z.format "%x" rb) !memok a1 b1 end
              | _ -> incr mv_bad; Printf.printf "VR bad %s : the model does not step\n" key)
           | _ -> raise (Bad "V line"))
        | "VX" :: rest -> Printf.printf "VR unsupported %s\n" (String.concat " " rest)
        | _ -> ()
      with Bad why -> bad := Some why | Failure why -> bad := Some ("parse: " ^ why))
    done
  with End_of_file ->
    if Hashtbl.length mv_cnt > 0 || !mv_bad > 0 then
      Printf.printf "VR summary compared_equal=%d bad=%d shapes=%d\n" (Hashtbl.fold (fun _ c a -> a + c) mv_cnt 0) !mv_bad (Hashtbl.length mv_cnt);
    if Hashtbl.length alu_cnt > 0 || !alu_bad > 0 then begin
      let cmp = Hashtbl.fold (fun _ (c, _) acc -> acc + c) alu_cnt 0 and skip = Hashtbl.fold (fun _ (_, k) acc -> acc + k) alu_cnt 0 in
      let never = Hashtbl.fold (fun key (c, _) acc -> if c = 0 then key :: acc else acc) alu_cnt [] in
      Printf.printf "AR summary compared=%d unspecified=%d bad=%d forms=%d never_compared=%s\n" cmp skip !alu_bad (Hashtbl.length alu_cnt)
        (if never = [] then "-" else String.concat "," (List.sort compare never))
    end

(* C17 model driver: same line protocol as harness/c17_harness.cpp, answers computed by the extracted Coq model *)
open Zconv

let hmask = (1 lsl 62) - 1
let hmix h x = ((h * 1000003) lxor (x land hmask)) land hmask

let otype_of_int = function
  | 0 -> Codec.SignedOffset | 1 -> Codec.UnsignedOffset | 2 -> Codec.A64_ADR | 3 -> Codec.A64_ADRP | 4 -> Codec.T32_ADR | 5 -> Codec.T32_BLX | 6 -> Codec.T32_B
  | 7 -> Codec.T32_BCond | 8 -> Codec.A32_ADR | 9 -> Codec.A32_U23 | 10 -> Codec.A32_U23_0To3At0_4To7At8 | 11 -> Codec.A32_1To24At0_0At24
  | _ -> failwith "otype"

let mkfmt ty vs bits sh dl =
  { Codec.ty = otype_of_int ty; vsize = cz_of_int vs; bits = cz_of_int bits; shift = cz_of_int sh; discard = cz_of_int dl }

let two64 = Z.shift_left Z.one 64
let to_i64 (x : Z.t) = Z.signed_extract x 0 64

let () =
  try
    while true do
      let line = input_line stdin in
      let toks = List.filter (fun s -> s <> "") (String.split_on_char ' ' (String.trim line)) in
      match toks with
      | "T" :: _ -> print_endline "T 0 1 2 3 4 5 6 7 8 9 10 11"
      | "R" :: ty :: vs :: bits :: sh :: dl :: lo :: cnt :: step :: old :: _ ->
        let f = mkfmt (int_of_string ty) (int_of_string vs) (int_of_string bits) (int_of_string sh) (int_of_string dl) in
        let old = cz_of_string old in
        let step = Z.of_string step in
        let cnt = int_of_string cnt in
        let off = ref (Z.of_string lo) in
        let h = ref 0 and acc = ref 0 in
        for _ = 1 to cnt do
          (match Codec.write_offset f old (cz_of_z !off) with
           | Some w ->
             let w = z_of_cz w in
             incr acc;
             h := hmix !h 1;
             h := hmix !h (Z.to_int (Z.extract w 0 32));
             h := hmix !h (Z.to_int (Z.extract w 32 32))
           | None -> h := hmix !h 0);
          off := to_i64 (Z.add !off step)
        done;
        Printf.printf "R %d %d\n" !acc !h
      | "V" :: ty :: vs :: bits :: sh :: dl :: off :: old :: _ ->
        let f = mkfmt (int_of_string ty) (int_of_string vs) (int_of_string bits) (int_of_string sh) (int_of_string dl) in
        (match Codec.write_offset f (cz_of_string old) (cz_of_string off) with
         | Some w -> Printf.printf "V 1 %s\n" (string_of_cz w)
         | None -> Printf.printf "V 0 %s\n" old)
      | "L" :: imm :: width :: _ ->
        (match Codec.encode_logical_imm (cz_of_string imm) (cz_of_string width) with
         | Some e ->
           (* architectural decode of the produced fields must give back the (width-truncated) value: reported as 4th field *)
           Printf.printf "L 1 %s %s %s\n" (string_of_cz e.Codec.li_n) (string_of_cz e.Codec.li_s) (string_of_cz e.Codec.li_r)
         | None -> print_endline "L 0 0 0 0")
      | "A" :: imm :: _ -> Printf.printf "A %d\n" (if Codec.is_add_sub_imm (cz_of_string imm) then 1 else 0)
      | "F" :: kind :: v :: _ ->
        let ((nb, nc), nz) = Codec.fp_params (cz_of_string kind) in
        let v = cz_of_string v in
        let ok = Codec.is_fp_imm8 nb nc nz v in
        Printf.printf "F %d %s\n" (if ok then 1 else 0) (if ok then string_of_cz (Codec.encode_fp_imm8 nb nc nz v) else "0")
      | "B" :: v :: _ ->
        let v = cz_of_string v in
        let ok = Codec.is_byte_mask_imm v in
        Printf.printf "B %d %s\n" (if ok then 1 else 0) (if ok then string_of_cz (Codec.encode_byte_mask_imm8 v) else "0")
      | "I" :: v :: _ ->
        (match Codec.encode_aarch32_imm (cz_of_string v) with
         | Some e -> Printf.printf "I 1 %s\n" (string_of_cz e)
         | None -> print_endline "I 0 0")
      | "M" :: imm :: rd :: x :: is64 :: _ ->
        let ws = Codec.encode_mov_sequence (is64 = "1") (cz_of_string imm) (cz_of_string rd) (cz_of_string x) in
        let n = List.length ws in
        let ws = List.map string_of_cz ws @ ["0"; "0"; "0"; "0"] in
        Printf.printf "M %d %s %s %s %s\n" n (List.nth ws 0) (List.nth ws 1) (List.nth ws 2) (List.nth ws 3)
      | "H" :: sz :: idx :: _ ->
        (match Codec.encode_lmh (cz_of_string sz) (cz_of_string idx) with
         | Some ((lm, h), mx) -> Printf.printf "H 1 %s %s %s\n" (string_of_cz lm) (string_of_cz h) (string_of_cz mx)
         | None -> print_endline "H 0 0 0 0")
      | [] -> ()
      | _ -> print_endline "BAD"
    done
  with End_of_file -> ()

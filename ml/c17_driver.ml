(* C17 model driver: same line protocol as harness/c17_harness.cpp, answers computed by the extracted Coq model *)
open Zconv

let hmask = (1 lsl 62) - 1
let hmix h x = ((h * 1000003) lxor (x land hmask)) land hmask

(* OffsetType values on the wire -> constructors: the position in the enumerator order re-extracted from fixup.h
   (LayoutModel.otype_of_index, C17_otype_of_index_spec / C17_fixup_current), not a hand-written table *)
let otype_of_int i = match Codec.otype_of_index (cz_of_int i) with Some t -> t | None -> failwith "otype"

let mkfmt ty vs bits sh dl =
  { Codec.ty = otype_of_int ty; vsize = cz_of_int vs; bits = cz_of_int bits; shift = cz_of_int sh; discard = cz_of_int dl }

(* argv[1]: the Thumb-2 branch formats as after fixes/C17-thumb32-branch-formats.patch (T32FixModel);
   anything else: the pinned tree (OffsetModel). tools/checks/c17.py probes the tree and chooses. *)
let variant = if Array.length Sys.argv > 1 then Sys.argv.(1) else "pp"   (* "pp" | "fp" | "pf" | "ff": B/BL/BLX packer, B<c> packer; p = pinned, f = fixed *)
let fb = String.length variant = 2 && variant.[0] = 'f'
let fc = String.length variant = 2 && variant.[1] = 'f'
let write_offset f old off = Codec.write_offset_var fb fc f old off
(* argv[2] = "c": the (Mem, Imm) form of the x86 ALU group refuses a qword destination with a non-int32 immediate
   (fixes/C17-x86-arith-mem-imm64.patch); "u": the pinned code without the test *)
let mem_checked = Array.length Sys.argv > 2 && Sys.argv.(2) = "c"
(* argv[3] = "c": TEST r/m64, MOV m64, IMUL r64 and PUSH (64-bit mode) refuse a non-int32 immediate (fixes/C17-x86-imm64-truncation.patch); "u": pinned *)
let tm_checked = Array.length Sys.argv > 3 && Sys.argv.(3) = "c"

let nlist = [2; 7; 8; 9; 12; 14; 16; 19; 21; 24; 25; 26; 31; 32; 33; 48; 63; 64]
let two64 = Z.shift_left Z.one 64
let to_i64 (x : Z.t) = Z.signed_extract x 0 64

let () =
  try
    while true do
      let line = input_line stdin in
      let toks = List.filter (fun s -> s <> "") (String.split_on_char ' ' (String.trim line)) in
      match toks with
      | "T" :: _ -> print_endline "T 0 1 2 3 4 5 6 7 8 9 10 11"
      | "R" :: ty :: vs :: bits :: sh :: dl :: lo :: cnt :: step :: old :: _ ->
        let f = mkfmt (int_of_string ty) (int_of_string vs) (int_of_string bits) (int_of_string sh) (int_of_string dl) in
        let old = cz_of_string old in
        let step = Z.of_string step in
        let cnt = int_of_string cnt in
        let off = ref (Z.of_string lo) in
        let h = ref 0 and acc = ref 0 in
        for _ = 1 to cnt do
          (match write_offset f old (cz_of_z !off) with
           | Some w ->
             let w = z_of_cz w in
             incr acc;
             h := hmix !h 1;
             h := hmix !h (Z.to_int (Z.extract w 0 32));
             h := hmix !h (Z.to_int (Z.extract w 32 32))
           | None -> h := hmix !h 0);
          off := to_i64 (Z.add !off step)
        done;
        Printf.printf "R %d %d\n" !acc !h
      | "V" :: ty :: vs :: bits :: sh :: dl :: off :: old :: _ ->
        let f = mkfmt (int_of_string ty) (int_of_string vs) (int_of_string bits) (int_of_string sh) (int_of_string dl) in
        (match write_offset f (cz_of_string old) (cz_of_string off) with
         | Some w -> Printf.printf "V 1 %s\n" (string_of_cz w)
         | None -> Printf.printf "V 0 %s\n" old)
      | "L" :: imm :: width :: _ ->
        (match Codec.encode_logical_imm (cz_of_string imm) (cz_of_string width) with
         | Some e ->
           (* architectural decode of the produced fields must give back the (width-truncated) value: reported as 4th field *)
           Printf.printf "L 1 %s %s %s\n" (string_of_cz e.Codec.li_n) (string_of_cz e.Codec.li_s) (string_of_cz e.Codec.li_r)
         | None -> print_endline "L 0 0 0 0")
      | "A" :: imm :: _ -> Printf.printf "A %d\n" (if Codec.is_add_sub_imm (cz_of_string imm) then 1 else 0)
      | "F" :: kind :: v :: _ ->
        let ((nb, nc), nz) = Codec.fp_params (cz_of_string kind) in
        let v = cz_of_string v in
        let ok = Codec.is_fp_imm8 nb nc nz v in
        Printf.printf "F %d %s\n" (if ok then 1 else 0) (if ok then string_of_cz (Codec.encode_fp_imm8 nb nc nz v) else "0")
      | "B" :: v :: _ ->
        let v = cz_of_string v in
        let ok = Codec.is_byte_mask_imm v in
        Printf.printf "B %d %s\n" (if ok then 1 else 0) (if ok then string_of_cz (Codec.encode_byte_mask_imm8 v) else "0")
      | "I" :: v :: _ ->
        (match Codec.encode_aarch32_imm (cz_of_string v) with
         | Some e -> Printf.printf "I 1 %s\n" (string_of_cz e)
         | None -> print_endline "I 0 0")
      | "M" :: imm :: rd :: x :: is64 :: _ ->
        let ws = Codec.encode_mov_sequence (is64 = "1") (cz_of_string imm) (cz_of_string rd) (cz_of_string x) in
        let n = List.length ws in
        let ws = List.map string_of_cz ws @ ["0"; "0"; "0"; "0"] in
        Printf.printf "M %d %s %s %s %s\n" n (List.nth ws 0) (List.nth ws 1) (List.nth ws 2) (List.nth ws 3)
      | "X" :: "13" :: x :: a :: _ ->
        (* ROR #imm = EXTR Rd, Rn, Rn, #imm; the harness uses Rn = 5, shown in the immr column *)
        let size = if x = "1" then 64 else 32 in
        (match Codec.encode_ror_imm (cz_of_int size) (cz_of_string a) with
         | Some s -> Printf.printf "X 1 %s %s 5 %s\n" x x (string_of_cz s)
         | None -> print_endline "X 0 0 0 0 0")
      | "X" :: kind :: x :: a :: b :: _ ->
        let k = match int_of_string kind with
          | 0 | 1 | 2 -> Codec.Bfx | 3 | 4 | 5 | 6 -> Codec.Bfi | 7 | 8 | 9 -> Codec.Bfm | 10 -> Codec.ShLsl | 11 | 12 -> Codec.ShLsr
          | _ -> failwith "kind" in
        let size = if x = "1" then 64 else 32 in
        (match Codec.encode_bitfield k (cz_of_int size) (cz_of_string a) (cz_of_string b) with
         | Some (r, s) -> Printf.printf "X 1 %s %s %s %s\n" x x (string_of_cz r) (string_of_cz s)
         | None -> print_endline "X 0 0 0 0 0")
      | "Y" :: op :: form :: size :: acc :: optsize :: longform :: imm :: _ ->
        let b s = s = "1" in
        let r =
          if op = "8" then
            (if form = "0" then Codec.test_reg_imm tm_checked (cz_of_string size) (b acc) (b longform) (cz_of_string imm)
             else Codec.test_mem_imm tm_checked (cz_of_string size) (cz_of_string imm))
          else if op = "12" || op = "13" || op = "14" || op = "15" then Some (Codec.rot_imm (cz_of_string size) (b longform) (cz_of_string imm))
          else if op = "16" || op = "17" then Some (Codec.shld_imm (op = "17") (cz_of_string size) (cz_of_string imm))
          else if op = "10" then Codec.imul_imm tm_checked (form = "1") (cz_of_string size) (b longform) (cz_of_string imm)
          else if op = "11" then Codec.push_imm tm_checked (b longform) (cz_of_string imm)
          else if op = "9" then
            (if form = "0" then Some (Codec.mov_reg_imm (cz_of_string size) (b acc) (b optsize) (b longform) (cz_of_string imm))
             else Codec.mov_mem_imm tm_checked (cz_of_string size) (cz_of_string imm))
          else if form = "0" then Codec.arith_reg_imm (cz_of_string op) (cz_of_string size) (b acc) (b optsize) (b longform) (cz_of_string imm)
          else Codec.arith_mem_imm mem_checked (cz_of_string op) (cz_of_string size) (b longform) (cz_of_string imm) in
        (match r with
         | Some e ->
           let osz = Z.to_int (z_of_cz e.Codec.ae_opsize) in
           Printf.printf "Y 1 %d %d %d %s %s %s\n" (if osz = 2 then 1 else 0) (if osz = 8 && op <> "11" then 1 else 0)   (* PUSH is 64-bit without REX.W *) (if e.Codec.ae_short then 1 else 0)
             (string_of_cz e.Codec.ae_opc) (string_of_cz e.Codec.ae_immsize) (string_of_cz e.Codec.ae_field)
         | None -> print_endline "Y 0 0 0 0 0 0 0")
      | "Z" :: kind :: size :: immr :: imms :: dst :: src :: _ ->
        (* the Coq transcription of the ARM ARM pseudo-code (BfmSemModel), for cross-validation with the python one *)
        let sz = cz_of_string size and r = cz_of_string immr and s_ = cz_of_string imms in
        let v = match kind with
          | "u" -> Codec.ubfm_pc sz r s_ (cz_of_string src)
          | "s" -> Codec.sbfm_pc sz r s_ (cz_of_string src)
          | _ -> Codec.bfm_pc sz r s_ (cz_of_string dst) (cz_of_string src) in
        (match v with Some x -> Printf.printf "Z %s\n" (string_of_cz x) | None -> print_endline "Z -")
      | "E" :: w :: off :: nb :: _ ->
        (* the C++ argument is int32_t(off) / int64_t(off): reduce to the type first *)
        let wi = int_of_string w in
        let o = Z.signed_extract (Z.of_string off) 0 wi in
        let ok = if wi = 32 then Codec.is_encodable_offset_32 (cz_of_z o) (cz_of_string nb)
                 else Codec.is_encodable_offset_64 (cz_of_z o) (cz_of_string nb) in
        Printf.printf "E %d\n" (if ok then 1 else 0)
      | "N" :: kind :: n :: x :: _ ->
        let ni = int_of_string n in
        if not (List.mem ni nlist) then print_endline "N -1" else begin
          let x = Z.of_string x in
          let n = cz_of_string n in
          let c64 = cz_of_int 64 and c32 = cz_of_int 32 in
          let r = match kind with
            | "0" -> Codec.is_int_n_signed c64 n (cz_of_z x)
            | "1" -> Codec.is_int_n_unsigned c64 n (cz_of_z x)
            | "2" -> Codec.is_uint_n_signed c64 n (cz_of_z x)
            | "3" -> Codec.is_uint_n_unsigned c64 n (cz_of_z x)
            | "4" -> Codec.is_int_n_signed c32 n (cz_of_z (Z.signed_extract x 0 32))
            | "5" -> Codec.is_uint_n_signed c32 n (cz_of_z (Z.signed_extract x 0 32))
            | _ -> failwith "kind" in
          Printf.printf "N %d\n" (if r then 1 else 0)
        end
      | "H" :: sz :: idx :: _ ->
        (match Codec.encode_lmh (cz_of_string sz) (cz_of_string idx) with
         | Some ((lm, h), mx) -> Printf.printf "H 1 %s %s %s\n" (string_of_cz lm) (string_of_cz h) (string_of_cz mx)
         | None -> print_endline "H 0 0 0 0")
      | [] -> ()
      | _ -> print_endline "BAD"
    done
  with End_of_file -> ()

(* C03 model driver: consumes model operations (one per line, produced by tools/checks/c03.py from the harness trace) and
   answers with the extracted Coq model (coq/extract/Extract_Labels.v).  No model logic lives here: only parsing/printing. *)
open Zconv

let rec nat_of_int (i : int) : Labels.nat = if i <= 0 then Labels.O else Labels.S (nat_of_int (i - 1))
let rec int_of_nat (n : Labels.nat) : int = match n with Labels.O -> 0 | Labels.S m -> 1 + int_of_nat m

let bytes_of_hex (h : string) : Labels.z list =
  if h = "-" then [] else begin
    let n = String.length h / 2 in
    let rec go i acc = if i < 0 then acc else go (i - 1) (cz_of_int (int_of_string ("0x" ^ String.sub h (2 * i) 2)) :: acc) in
    go (n - 1) []
  end

let kind_of_string = function
  | "rel8" -> Labels.K_Rel8 | "rel32" -> Labels.K_Rel32 | "imm26" -> Labels.K_Imm26 | "imm19" -> Labels.K_Imm19
  | "imm14" -> Labels.K_Imm14 | "adr" -> Labels.K_Adr | "adrp" -> Labels.K_Adrp | s -> failwith ("kind " ^ s)

let err_name = function
  | Labels.EOk -> "ok" | Labels.EInvalidLabel -> "invalid_label" | Labels.EAlreadyBound -> "already_bound"
  | Labels.EInvalidDisp -> "invalid_disp" | Labels.EInvalidSection -> "invalid_section" | Labels.EInvalidSize -> "invalid_size"
  | Labels.EBadInput -> "bad_input"

let segments (img : Labels.z list) : string =
  (* bytes -> hex, negative entries (-n-1) -> Z<n> *)
  let buf = Buffer.create 256 in
  let first = ref true and inhex = ref false in
  List.iter (fun v ->
    let v = z_of_cz v in
    if Z.sign v < 0 then begin
      if not !first then Buffer.add_char buf ',';
      first := false; inhex := false;
      Buffer.add_string buf ("Z" ^ Z.to_string (Z.pred (Z.neg v)))
    end else begin
      if not !inhex then (if not !first then Buffer.add_char buf ','; first := false; inhex := true);
      Buffer.add_string buf (Printf.sprintf "%02x" (Z.to_int v))
    end) img;
  if Buffer.length buf = 0 then "-" else Buffer.contents buf

let dump (s : Labels.state) : string =
  let b = Buffer.create 4096 in
  Buffer.add_string b ("E " ^ string_of_cz s.Labels.unresolved);
  List.iteri (fun i sc ->
    Buffer.add_string b (Printf.sprintf " | SEC %d %s %s" i (string_of_cz sc.Labels.s_len)
                           (segments (Labels.sec_image s.Labels.refs sc.Labels.s_items)))) s.Labels.secs;
  List.iteri (fun i l ->
    Buffer.add_string b (Printf.sprintf " | LAB %d %s" i
      (match l with None -> "u" | Some (sec, off) -> Printf.sprintf "%d:%s" (int_of_nat sec) (string_of_cz off)))) s.Labels.labels;
  List.iteri (fun i re ->
    let lead = z_of_cz re.Labels.rl_lead and size = z_of_cz re.Labels.rl_size and trail = z_of_cz re.Labels.rl_trail in
    let ty, payload = match re.Labels.rl_type with
      | Labels.RelToAbs -> 4, string_of_cz re.Labels.rl_payload
      | Labels.Expr (l, bl) -> 1, Printf.sprintf "expr:1:%d:%d" (int_of_nat l) (int_of_nat bl) in
    Buffer.add_string b (Printf.sprintf " | REL %d %d %d %s %s %s %s %s %s" i ty (int_of_nat re.Labels.rl_sec)
      (string_of_cz re.Labels.rl_off) (Z.to_string lead) (Z.to_string size) (Z.to_string (Z.add lead (Z.add size trail))) payload
      (match re.Labels.rl_target with None -> "-" | Some t -> string_of_int (int_of_nat t)))) s.Labels.relocs;
  Buffer.contents b

let hex_of_bytes (bs : Labels.z list) : string =
  let b = Buffer.create 256 in
  List.iter (fun v -> Buffer.add_string b (Printf.sprintf "%02x" (Z.to_int (z_of_cz v)))) bs;
  if Buffer.length b = 0 then "-" else Buffer.contents b

let () =
  let st = ref Labels.init in
  (* the FLAT byte-buffer model in its sparse-buffer form (Labels.SparseModel, proven equal to Labels.FlatModel, which is proven to run in
     lock step with the structured one) is executed alongside when the program was started with PF: its error / size / count must
     equal the structured model's on every operation, its buffers are dumped *)
  let fl = ref None in
  let fmis = ref 0 in
  let run_op (o : Labels.op) =
    let (s', e) = Labels.step !st o in
    (match !fl with
     | Some f ->
       let (f', e') = Labels.sstep f o in
       fl := Some f';
       if e' <> e || f'.Labels.s_unresolved <> s'.Labels.unresolved
          || Labels.sb_len (Labels.s_cur_buf f') <> (Labels.cur_sec s').Labels.s_len then incr fmis
     | None -> ());
    st := s';
    Printf.printf "%s %d %s %s\n" (err_name e) (int_of_nat s'.Labels.cur)
      (string_of_cz (Labels.cur_sec s').Labels.s_len) (string_of_cz s'.Labels.unresolved) in
  let b s = s = "1" in
  try
    while true do
      let line = input_line stdin in
      let toks = List.filter (fun s -> s <> "") (String.split_on_char ' ' (String.trim line)) in
      (try
        match toks with
        | ["P"] -> st := Labels.init; fl := None; fmis := 0; print_endline "P"
        | ["PF"] -> st := Labels.init; fl := Some Labels.sinit; fmis := 0; print_endline "P"
        | ["NL"] -> run_op Labels.ONewLabel
        | ["NS"] -> run_op Labels.ONewSection
        | ["S"; k] -> run_op ((Labels.OSection (nat_of_int (int_of_string k))))
        | ["RAW"; h] -> run_op ((Labels.ORaw (bytes_of_hex h)))
        | ["GAP"; n] -> run_op ((Labels.OGap (cz_of_string n)))
        | ["REF"; k; rel; l; pre; w0; post] ->
          run_op ((Labels.ORef (kind_of_string k, cz_of_string rel, nat_of_int (int_of_string l),
                                                bytes_of_hex pre, cz_of_string w0, bytes_of_hex post)))
        | ["BIND"; l] -> run_op ((Labels.OBind (nat_of_int (int_of_string l))))
        | ["ABS"; l; size; addend; pre; post] ->
          run_op ((Labels.OAbsRef (nat_of_int (int_of_string l), cz_of_string size, cz_of_string addend,
                                                   bytes_of_hex pre, bytes_of_hex post)))
        | ["DELTA"; l; bl; size] ->
          run_op ((Labels.ODelta (nat_of_int (int_of_string l), nat_of_int (int_of_string bl), cz_of_string size)))
        | ["DELTAC"; l; bl; size] ->
          run_op ((Labels.ODeltaChecked (nat_of_int (int_of_string l), nat_of_int (int_of_string bl), cz_of_string size)))
        | ["RESOLVE"; offs] ->
          let offs = if offs = "-" then [] else List.map cz_of_string (String.split_on_char ',' offs) in
          run_op ((Labels.OResolve offs))
        | ["FORM"; h8; h32; fs; fl; s8; s32; ip; tgt] ->
          print_endline (match Labels.x86_branch_form (b h8) (b h32) (b fs) (b fl) (cz_of_string s8) (cz_of_string s32)
                                 (cz_of_string ip) (cz_of_string tgt) with
                         | Some Labels.FShort -> "short" | Some Labels.FLong -> "long" | None -> "none")
        | ["FORMU"; h8; h32; fs] ->
          print_endline (match Labels.x86_branch_form_unbound (b h8) (b h32) (b fs) with
                         | Some Labels.FShort -> "short" | Some Labels.FLong -> "long" | None -> "none")
        | ["RIPF"; disp; imm; lo; hole] ->
          print_endline (string_of_cz (Labels.x64_rip_field (cz_of_string disp) (cz_of_string imm) (cz_of_string lo) (cz_of_string hole)))
        | ["A64"; pc; w] ->
          (* architectural meaning of an AArch64 word through the structural decoder Labels.A64Dec *)
          (* + the database mnemonic number and row id of the decoded instruction (Labels.A64DbTie) *)
          print_endline (match Labels.a64_site_target (cz_of_string pc) (cz_of_string w), Labels.a64_dec (cz_of_string w) with
                         | Some t, Some i -> Printf.sprintf "%s %s %s" (string_of_cz t) (string_of_cz (Labels.a64_mn i)) (string_of_cz (Labels.a64_rid i))
                         | _, _ -> "none")
        | ["DUMP"] ->
          (match !fl with
           | None -> print_endline (dump !st)
           | Some f ->
             let b = Buffer.create 1024 in
             Buffer.add_string b (dump !st);
             Buffer.add_string b (Printf.sprintf " | FLAT %d %s" !fmis (string_of_cz f.Labels.s_unresolved));
             List.iteri (fun i chunks ->
               let segs = List.filter_map (fun c -> match c with
                 | Labels.CB [] -> None
                 | Labels.CB bs -> Some (hex_of_bytes bs)
                 | Labels.CZ n -> Some ("Z" ^ string_of_cz n)) chunks in
               Buffer.add_string b (Printf.sprintf " | FSEC %d %s" i (if segs = [] then "-" else String.concat "," segs))) f.Labels.s_bufs;
             print_endline (Buffer.contents b))
        | _ -> print_endline "BAD"
      with Failure m -> print_endline ("BAD " ^ m) | Invalid_argument m -> print_endline ("BAD " ^ m))
    done
  with End_of_file -> ()

(* C02 model driver: same command stream as harness/c02_harness.cpp, answers computed by the extracted Coq specification
   (A64Sem.spec_a64 over the generated ISA-database rows).  answer: <case> 1 <row id> <nwords> <w...>  |  <case> 0 *)
open Zconv

let split c s = String.split_on_char c s
let zs = cz_of_string

let parse_op (tok : string) : A64spec.operand list =
  match split ':' tok with
  | ["g"; x; id] -> [A64spec.OGp (x = "1", zs id)]
  | ["i"; p; v] -> [A64spec.OImm (zs p, zs v)]
  | ["k"; cc] -> [A64spec.OImm (zs "0", zs cc)]
  | ["m"; base; hasidx; xi; idx; sop; sh; off; mode] ->
    let i = if hasidx = "1" then Some (xi = "1", zs idx) else None in
    [A64spec.OMem (zs base, i, zs sop, zs sh, zs off, zs mode)]
  | ["l"; d] -> [A64spec.OLit (zs d)]
  | ["r"; d] -> [A64spec.ORel (zs d)]
  | ["v"; rt; et; ei; id] ->
    let rtn = (match rt with "b" -> "0" | "h" -> "1" | "s" -> "2" | "d" -> "3" | _ -> "4") in
    [A64spec.OVec (zs rtn, zs et, zs ei, zs id)]
  | _ -> failwith ("operand " ^ tok)

let () =
  let rows = A64spec.rows and alt = A64spec.alt_table and mov_mn = A64spec.mov_mn in
  try
    while true do
      let line = input_line stdin in
      let toks = List.filter (fun s -> s <> "") (split ' ' (String.trim line)) in
      match toks with
      | "E" :: cas :: _asmjit_id :: mn :: _nops :: ops ->
        (try
          let ops = List.concat (List.map parse_op ops) in
          (match A64spec.spec_a64 rows alt mov_mn (zs mn) ops with
           | Some (rid, ws) ->
             Printf.printf "%s 1 %s %d%s\n" cas (string_of_cz rid) (List.length ws)
               (String.concat "" (List.map (fun w -> " " ^ string_of_cz w) ws))
           | None -> Printf.printf "%s 0\n" cas)
        with Failure m -> Printf.printf "%s MODEL-UNSUPPORTED %s\n" cas m)
      | "X" :: cas :: rowid :: _mn :: _nops :: ops ->
        (* one specific row of rows_excluded (re-validation of recorded DB defects) *)
        (try
          let ops = List.concat (List.map parse_op ops) in
          let rid = Z.of_string rowid in
          (match List.find_opt (fun r -> Z.equal (z_of_cz r.A64spec.r_id) rid) A64spec.rows_excluded with
           | Some r -> (match A64spec.spec_row r ops with
                        | Some w -> Printf.printf "%s 1 %s 1 %s\n" cas rowid (string_of_cz w)
                        | None -> Printf.printf "%s 0\n" cas)
           | None -> Printf.printf "%s MODEL-UNSUPPORTED no such excluded row\n" cas)
        with Failure m -> Printf.printf "%s MODEL-UNSUPPORTED %s\n" cas m)
      | [] -> ()
      | _ -> print_endline "BAD"
    done
  with End_of_file -> ()

(* C13 model driver: same line protocol as harness/c13_harness.cpp; answers computed by the extracted Coq model.
   NI <arch> <id>  -> NI <err> <name-hex> <id of lookup(name)> [<id of the pinned single-range lookup> for AArch64]
   NS <arch> <hex> -> NS <id> [<single-range id>]
   V|E ...         -> V <error of the repaired validator> <error of the pinned validator (operand-count quirk)> *)
open Zconv

let hex_of (s : Instnames.n list) : string =
  if s = [] then "-" else String.concat "" (List.map (fun c -> Printf.sprintf "%02x" (Z.to_int (z_of_cn c))) s)

let unhex (h : string) : Instnames.n list =
  if h = "-" then [] else
  let n = String.length h / 2 in
  List.init n (fun i -> cn_of_z (Z.of_int (int_of_string ("0x" ^ String.sub h (2 * i) 2))))

let x86t = Instnames.x86_names
let x86a = Instnames.x86_aliases
let a64t = Instnames.a64_names

let lookup arch (s : Instnames.n list) : string =
  if arch = 2 then
    Printf.sprintf "%s %s" (string_of_cn (Instnames.a64_string_to_inst_id a64t s)) (string_of_cn (Instnames.a64_string_to_inst_id_single_range a64t s))
  else string_of_cn (Instnames.x86_string_to_inst_id x86t x86a s)

let () =
  try
    while true do
      let line = input_line stdin in
      let toks = List.filter (fun s -> s <> "") (String.split_on_char ' ' (String.trim line)) in
      match toks with
      | "NI" :: arch :: id :: _ ->
        let arch = int_of_string arch in
        let t = if arch = 2 then a64t else x86t in
        let idz = Z.of_string id in
        let count = z_of_cn t.Instnames.nt_count in
        (* inst_id_to_string: a64 masks the id with kRealId (0xFFFF); ids outside [0, count) -> error (reported as 1) *)
        let real = if arch = 2 then Z.logand idz (Z.of_int 0xFFFF) else idz in
        if Z.geq real count then print_endline (if arch = 2 then "NI 1 - 0 0" else "NI 1 - 0")
        else begin
          let nm = Instnames.name_of t (cn_of_z real) in
          Printf.printf "NI 0 %s %s\n" (hex_of nm) (lookup arch nm)
        end
      | "NA" :: arch :: id :: _ ->
        let arch = int_of_string arch in
        let t = if arch = 2 then a64t else x86t in
        let idz = Z.of_string id in
        let real = if arch = 2 then Z.logand idz (Z.of_int 0xFFFF) else idz in
        if Z.geq real (z_of_cn t.Instnames.nt_count) then print_endline "NA 1 -"
        else Printf.printf "NA 0 %s\n" (hex_of (Instnames.formatted_name_of t (cn_of_z real)))
      | "NS" :: arch :: h :: _ ->
        Printf.printf "NS %s\n" (lookup (int_of_string arch) (unhex h))
      | ("V" | "E") :: mode :: inst :: options :: etype :: eid :: nops :: rest ->
        let mode = int_of_string mode in
        let n = int_of_string nops in
        let rec ops k toks acc =
          if k = 0 then List.rev acc else
          match toks with
          | "R" :: t :: id :: tl -> ops (k - 1) tl (Instnames.OReg (cn_of_string t, cn_of_string id) :: acc)
          | "M" :: size :: bt :: bid :: it :: iid :: _shift :: off :: seg :: bc :: home :: tl ->
            ops (k - 1) tl (Instnames.OMem (cn_of_string size, cn_of_string bt, cn_of_string bid, cn_of_string it, cn_of_string iid,
                                            cz_of_string off, cn_of_string seg, cn_of_string bc, home <> "0") :: acc)
          | "I" :: v :: tl -> ops (k - 1) tl (Instnames.OImm (cz_of_string v) :: acc)
          | "L" :: tl -> ops (k - 1) tl (Instnames.OLabel :: acc)
          | "N" :: tl -> ops (k - 1) tl (Instnames.ONone :: acc)
          | _ -> failwith "operand syntax" in
        let operands = ops n rest [] in
        let vi = { Instnames.vi_id = cn_of_string inst; vi_options = cn_of_string options; vi_extra_type = cn_of_string etype; vi_extra_id = cn_of_string eid } in
        let e = Instnames.validate Instnames.x86_vtables false (mode land 1 = 1) (mode land 2 = 2) vi operands in
        let eq = Instnames.validate Instnames.x86_vtables true (mode land 1 = 1) (mode land 2 = 2) vi operands in
        Printf.printf "V %s %s\n" (string_of_cn e) (string_of_cn eq)
      | _ -> print_endline "? unknown"
    done
  with End_of_file -> ()

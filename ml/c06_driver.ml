(* C06 model driver: same line protocol as harness/c06_harness.cpp; answers computed by the extracted Coq model.
   Only parsing / printing happens here. *)
open Zconv
module C = Callconv

let toks_of_line (s : string) : string list =
  List.filter (fun x -> x <> "") (String.split_on_char ' ' (String.trim s))

let zi = cz_of_int
let zs = string_of_cz
let join sep l = String.concat sep l
let rec take n l = if n <= 0 then [] else match l with [] -> [] | x :: r -> x :: take (n - 1) r

let arch_of = function 0 -> C.X86 | 1 -> C.X64 | _ -> C.A64

let fv_text (v : C.fval) =
  Printf.sprintf "%s,%s,%s,%s,%s,%d" (zs v.C.fv_ty) (zs v.C.fv_kind) (zs v.C.fv_rtype) (zs v.C.fv_rid) (zs v.C.fv_off) (if v.C.fv_ind then 1 else 0)
let pack_text p = join ";" (List.map fv_text p)

let order16 l = join "," (List.init 16 (fun i -> zs (C.order_at l (zi i))))

let err_text e = match Z.to_int (z_of_cz e) with 1 -> "invarg" | 2 -> "invstate" | 3 -> "invregtype" | n -> Printf.sprintf "err%d" n

let detail_text (d : C.fdetail) (with_cc : bool) =
  let c = d.C.fd_cc in
  let cc =
    if not with_cc then "" else
    Printf.sprintf "cc=%s st=%s red=%s spill=%s nalign=%s flags=%s o0=%s o1=%s o2=%s o3=%s passed=%s pres=%s srs=%s sra=%s "
      (zs c.C.cc_id) (zs c.C.cc_strategy) (zs c.C.cc_red) (zs c.C.cc_spill) (zs c.C.cc_nalign) (zs c.C.cc_flags)
      (order16 c.C.cc_ogp) (order16 c.C.cc_ovec) (order16 c.C.cc_omask) (order16 c.C.cc_omm)
      (join "," (List.map (fun l -> zs (C.mask_of l)) [c.C.cc_ogp; c.C.cc_ovec; c.C.cc_omask; c.C.cc_omm]))
      (join "," (List.map zs c.C.cc_pres)) (join "," (List.map zs c.C.cc_srsize)) (join "," (List.map zs c.C.cc_sralign)) in
  Printf.sprintf "%sstack=%s used=%s ret=%s args=%s" cc (zs d.C.fd_stack)
    (join "," (List.map (fun g -> zs (C.used_regs d (zi g))) [0; 1; 2; 3]))
    (pack_text d.C.fd_rets) (join "|" (List.map pack_text d.C.fd_args))

let loc_of_tokens = function
  | "R" :: g :: id :: r -> (C.Reg (cz_of_string g, cz_of_string id), r)
  | "M" :: a :: o :: r -> (C.Mem (cz_of_string a, cz_of_string o), r)
  | _ -> failwith "loc"

let () =
  try
    while true do
      let line = input_line stdin in
      let toks = toks_of_line line in
      match toks with
      | "T" :: _ ->
        let sizes = join "," (List.init 256 (fun i -> zs (C.size_of (zi i)))) in
        Printf.printf "T sizes=%s rt=%s flags=%s fv=1,2,3 max=32,4,16 ccid=0,1,2,3,4,5,6,7,16,17,18,32,33 reggroup=%s\n" sizes
          (join "," (List.map zs [C.rT_Gp32; C.rT_Gp64; C.rT_Vec32; C.rT_Vec64; C.rT_Vec128; C.rT_Vec256; C.rT_Vec512; C.rT_Mm; C.rT_St; zi 16]))
          (join "," (List.map zs [C.f_CalleePops; C.f_IndirectVec; C.f_FloatsByVec; C.f_VecStackIfVA; C.f_MmxByGp; C.f_MmxByXmm; C.f_VarArgCompat]))
          (join "," (List.init 32 (fun i -> zs (C.rt_group (zi i)))))
      | "F" :: rest ->
        let v = List.map int_of_string rest in
        (match v with
         | arch :: plat :: abi :: cc :: va :: ret :: n :: ts ->
           let args = if n > 32 then List.init n (fun _ -> zi 38) else List.map zi (take n ts) in
           let e = { C.e_arch = arch_of arch; e_plat = zi plat; e_abi = zi abi } in
           let s = { C.s_cc = zi cc; s_va = zi va; s_ret = zi ret; s_args = args } in
           (match C.func_detail_init e s with
            | C.R_err code -> Printf.printf "F err=%s\n" (err_text code)
            | C.R_ok d -> Printf.printf "F ok %s\n" (detail_text d true))
         | _ -> print_endline "BAD")
      | "A" :: rest ->
        (* A arch plat abi cc va ret n t1..tn -> proven-spec monitor: guard, and agreement of the model with the ABI answer *)
        let v = List.map int_of_string rest in
        (match v with
         | arch :: plat :: abi :: cc :: va :: ret :: n :: ts ->
           let args = List.map zi (take n ts) in
           let e = { C.e_arch = arch_of arch; e_plat = zi plat; e_abi = zi abi } in
           let s = { C.s_cc = zi cc; s_va = zi va; s_ret = zi ret; s_args = args } in
           let b x = if x then 1 else 0 in
           (match C.monitor e s with
            | None -> print_endline "A none"
            | Some (g, (((a, r), st), c)) -> Printf.printf "A guard=%d args=%d rets=%d stack=%d consts=%d\n" (b g) (b a) (b r) (b st) (b c))
         | _ -> print_endline "BAD")
      | "W" :: rest ->
        (* W target(0 x64 | 1 a64) nwork w.. nvars (cur csz csg out osz osg)*  -> the instruction list the MODEL of the solver emits,
           and the verified validator's verdict on it *)
        let rest = ref rest in
        let next () = match !rest with x :: r -> rest := r; x | [] -> failwith "eol" in
        let t = if next () = "0" then C.TX64 else C.TA64 in
        let nw = int_of_string (next ()) in
        let work = List.init nw (fun _ -> cz_of_string (next ())) in
        let nv = int_of_string (next ()) in
        let vs = List.init nv (fun _ ->
          let cur = cz_of_string (next ()) in let csz = cz_of_string (next ()) in let csg = next () = "1" in
          let out = cz_of_string (next ()) in let osz = cz_of_string (next ()) in let osg = next () = "1" in
          C.init_var cur csz csg out osz osg) in
        let loc_s = function C.Reg (g, i) -> Printf.sprintf "R %s %s" (zs g) (zs i) | C.Mem (a, o) -> Printf.sprintf "M %s %s" (zs a) (zs o) in
        let inst_s = function
          | C.IExt (d, s, e, n, w, wz) -> Printf.sprintf "X %s %s %s %s %s %s" (loc_s d) (loc_s s) (match e with C.ES -> "S" | C.EZ -> "Z") (zs n) (zs w) (zs wz)
          | C.IXchg (a, b, w, wz) -> Printf.sprintf "G %s %s %s %s" (loc_s a) (loc_s b) (zs w) (zs wz) in
        (match C.solve t work vs with
         | C.SOk ms ->
           let mvs = List.map C.move_of vs in
           let allowed = List.map (fun r -> C.Reg (zi 0, r)) work in
           Printf.printf "W ok valid=%d,wf=%d %s\n" (if C.validate_bytes mvs allowed ms then 1 else 0) (if C.wf_inputb work vs then 1 else 0) (join " ; " (List.map inst_s ms))
         | C.SErr -> print_endline "W err"
         | C.SFuel -> print_endline "W fuel")
      | "Y" :: rest ->
        (* Y arch(0 x64 | 1 a64) ngp w.. nvec w.. nvars (srcloc csz csg dstloc osz osg int)*  -> the instruction list the FULL model of
           emit_args_assignment (SolverFullModel.v: stack stores, two-group shuffle, stack loads) emits, and the validator's verdict *)
        let rest = ref rest in
        let next () = match !rest with x :: r -> rest := r; x | [] -> failwith "eol" in
        let loc () = let (l, r) = loc_of_tokens !rest in rest := r; l in
        let a = (match next () with "0" -> C.FX64 | "1" -> C.FA64 | "2" -> C.FX64A | _ -> C.FX86) in
        let ng = int_of_string (next ()) in
        let wgp = List.init ng (fun _ -> cz_of_string (next ())) in
        let nvc = int_of_string (next ()) in
        let wvec = List.init nvc (fun _ -> cz_of_string (next ())) in
        let nv = int_of_string (next ()) in
        let vs = List.init nv (fun _ ->
          let cur = loc () in let csz = cz_of_string (next ()) in let csg = next () = "1" in
          let out = loc () in let osz = cz_of_string (next ()) in let osg = next () = "1" in let it = next () = "1" in
          C.finit cur csz csg out osz osg it) in
        let loc_s = function C.Reg (g, i) -> Printf.sprintf "R %s %s" (zs g) (zs i) | C.Mem (a, o) -> Printf.sprintf "M %s %s" (zs a) (zs o) in
        let inst_s = function
          | C.IExt (d, s, e, n, w, wz) -> Printf.sprintf "X %s %s %s %s %s %s" (loc_s d) (loc_s s) (match e with C.ES -> "S" | C.EZ -> "Z") (zs n) (zs w) (zs wz)
          | C.IXchg (a, b, w, wz) -> Printf.sprintf "G %s %s %s %s" (loc_s a) (loc_s b) (zs w) (zs wz) in
        (match C.fsolve a wgp wvec vs with
         | C.SOk ms ->
           let mvs = List.map C.fmove_of vs in
           let allowed = List.map (fun r -> C.Reg (zi 0, r)) wgp @ List.map (fun r -> C.Reg (zi 1, r)) wvec
                         @ List.filter_map (fun v -> match v.C.f_out with C.Mem _ as l -> Some l | _ -> None) vs in
           Printf.printf "Y ok valid=%d,wf=%d %s\n" (if C.validate mvs allowed ms then 1 else 0) (if C.fwf_inputb wgp wvec vs && C.farch_okb a vs then 1 else 0) (join " ; " (List.map inst_s ms))
         | C.SErr -> print_endline "Y err"
         | C.SFuel -> print_endline "Y fuel")
      | "D" :: rest ->
        (* D a64 sp sareg saoff_sp saoff_sa da n then n times: mnemonic nops then nops operands [r g id w | m bits base disp | ?]
           -> the verified whitelist's reading of a disassembled sequence (DecodeModel.decode) *)
        let rest = ref rest in
        let next () = match !rest with x :: r -> rest := r; x | [] -> failwith "eol" in
        let a64 = next () = "1" in
        let sp = cz_of_string (next ()) in let sareg = cz_of_string (next ()) in
        let so_sp = cz_of_string (next ()) in let so_sa = cz_of_string (next ()) in let da = next () = "1" in
        let fr = { C.d_a64 = a64; d_sp = sp; d_sareg = sareg; d_saoff_sp = so_sp; d_saoff_sa = so_sa; d_da = da } in
        let n = int_of_string (next ()) in
        let coq_string s =
          let asc c = let k = Char.code c in
            C.Ascii (k land 1 <> 0, k land 2 <> 0, k land 4 <> 0, k land 8 <> 0, k land 16 <> 0, k land 32 <> 0, k land 64 <> 0, k land 128 <> 0) in
          let rec go i = if i >= String.length s then C.EmptyString else C.String (asc s.[i], go (i + 1)) in go 0 in
        let bad = ref "" in
        let op () = match next () with
          | "r" -> let g = cz_of_string (next ()) in let i = cz_of_string (next ()) in let w = cz_of_string (next ()) in C.OReg (g, i, w)
          | "m" -> let b = cz_of_string (next ()) in let r = cz_of_string (next ()) in let d = cz_of_string (next ()) in C.OMem (b, r, d)
          | _ -> C.OBad in
        let is = List.init n (fun _ ->
          let m = next () in
          let k = int_of_string (next ()) in
          let ops = List.init k (fun _ -> op ()) in
          match ops with
          | [d; s] -> ((coq_string m, d), s)
          | _ -> (if !bad = "" then bad := Printf.sprintf "%s with %d operands" m k); ((coq_string m, C.OBad), C.OBad)) in
        let loc_s = function C.Reg (g, i) -> Printf.sprintf "R %s %s" (zs g) (zs i) | C.Mem (a, o) -> Printf.sprintf "M %s %s" (zs a) (zs o) in
        let inst_s = function
          | C.IExt (d, s, e, n, w, wz) -> Printf.sprintf "X %s %s %s %s %s %s" (loc_s d) (loc_s s) (match e with C.ES -> "S" | C.EZ -> "Z") (zs n) (zs w) (zs wz)
          | C.IXchg (a, b, w, wz) -> Printf.sprintf "G %s %s %s %s" (loc_s a) (loc_s b) (zs w) (zs wz) in
        if !bad <> "" then Printf.printf "D none %s\n" !bad
        else (match C.decode fr is with
         | Some ms -> Printf.printf "D ok %s\n" (join " ; " (List.map inst_s ms))
         | None ->
           (* name the first instruction the whitelist refuses (diagnostic only) *)
           let rec first pre = function
             | [] -> "?"
             | x :: r -> (match C.decode fr (List.rev (x :: pre)) with None -> let ((m, _), _) = x in
                            let rec str = function C.EmptyString -> "" | C.String (C.Ascii (a,b,c,d,e,f,g,h), t) ->
                              String.make 1 (Char.chr ((if a then 1 else 0) + (if b then 2 else 0) + (if c then 4 else 0) + (if d then 8 else 0) + (if e then 16 else 0) + (if f then 32 else 0) + (if g then 64 else 0) + (if h then 128 else 0))) ^ str t in
                            str m
                          | Some _ -> first (x :: pre) r) in
           Printf.printf "D none %s\n" (first [] is))
      | "V" :: rest ->
        (* V nm (src dst sbits ssigned dbits int)*nm  na (loc)*na  ni (X dst src e n w wz | G a b w wz)*ni  -> validate *)
        let rest = ref rest in
        let next () = match !rest with x :: r -> rest := r; x | [] -> failwith "eol" in
        let loc () = let (l, r) = loc_of_tokens !rest in rest := r; l in
        let nm = int_of_string (next ()) in
        let mvs = List.init nm (fun _ ->
          let s = loc () in let d = loc () in
          let sb = cz_of_string (next ()) in let sg = next () = "1" in let db = cz_of_string (next ()) in let it = next () = "1" in
          { C.m_src = s; m_dst = d; m_sbits = sb; m_ssigned = sg; m_dbits = db; m_int = it }) in
        let na = int_of_string (next ()) in
        let allowed = List.init na (fun _ -> loc ()) in
        let ni = int_of_string (next ()) in
        let ms = List.init ni (fun _ ->
          match next () with
          | "X" -> let d = loc () in let s = loc () in
            let e = if next () = "S" then C.ES else C.EZ in
            let n = cz_of_string (next ()) in let w = cz_of_string (next ()) in let wz = cz_of_string (next ()) in
            C.IExt (d, s, e, n, w, wz)
          | "G" -> let a = loc () in let b = loc () in
            let w = cz_of_string (next ()) in let wz = cz_of_string (next ()) in C.IXchg (a, b, w, wz)
          | _ -> failwith "inst") in
        (* the verdict is the BYTE-LEVEL validator (validate_bytes = validate + the moves' own cells in the range check + widths <= 512) *)
        let ok = C.validate_bytes mvs allowed ms in
        (* per-move verdict for diagnosis *)
        let st = C.sym_exec ms [] in
        let per = List.map (fun mv -> if C.check_move mv (C.alookup st mv.C.m_dst) then "1" else "0") mvs in
        Printf.printf "V %d moves=%s mem=%d cells=%d\n" (if ok then 1 else 0) (join "" per) (if C.mem_ranges_ok ms then 1 else 0) (if C.validate mvs allowed ms then 1 else 0)
      | [] -> ()
      | _ -> print_endline "BAD"
    done
  with End_of_file -> ()

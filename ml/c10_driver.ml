(* C10 model driver: same line protocol as harness/c10_harness.cpp (one scenario per line), answers computed by the
   extracted Coq model (coq/theories/Sections/SectionModel.v).  `--pinned` selects the model of the unrepaired tree
   (flatten_pinned / code_size_pinned), used only to recognise an unpatched /repo in diagnostics. *)
open Zconv
module M = Sections

let pinned = Array.length Sys.argv > 1 && Sys.argv.(1) = "--pinned"

let err_name = function
  | M.EOk -> "ok" | M.EInvalidArgument -> "EINVAL" | M.EInvalidSectionName -> "ENAME"
  | M.ETooLarge -> "ETOOLARGE" | M.EInvalidSection -> "ESECTION" | M.ENoCodeGenerated -> "ENOCODE"

let unhex h =
  if h = "-" then []
  else List.init (String.length h / 2) (fun i -> cz_of_int (int_of_string ("0x" ^ String.sub h (2 * i) 2)))

let pattern seed k = ((seed * 131 + k * 29 + (k lsr 8) * 7) mod 255) + 1

let guard = 64
let max_real_buffer = Z.shift_left Z.one 22
let max_dst = Z.shift_left Z.one 24
let c_cd = cz_of_int 0xCD
let c_ee = cz_of_int 0xEE

let rle (cells : int list) =
  match cells with
  | [] -> "-"
  | _ ->
    let b = Buffer.create 256 in
    let rec go cur cnt = function
      | [] -> Buffer.add_string b (Printf.sprintf "%d*%d" cur cnt)
      | x :: t -> if x = cur then go cur (cnt + 1) t
        else (Buffer.add_string b (Printf.sprintf "%d*%d," cur cnt); go x 1 t) in
    go (List.hd cells) 1 (List.tl cells);
    Buffer.contents b

let rec split_at n l acc = if n = 0 then (List.rev acc, l) else match l with [] -> (List.rev acc, []) | x :: t -> split_at (n - 1) t (x :: acc)

let image n (mem : M.z list) =
  let cells = List.map (fun c -> Z.to_int (z_of_cz c)) mem in
  let (inside, rest) = split_at n cells [] in
  let ok = List.length inside = n && List.length rest = guard && List.for_all (fun c -> c = 0xEE) rest in
  rle inside ^ (if ok then ":g1" else ":g0")

let fresh_mem n = List.init n (fun _ -> c_cd) @ List.init guard (fun _ -> c_ee)

let () =
  try
    while true do
      let line = input_line stdin in
      let toks = ref (List.filter (fun s -> s <> "") (String.split_on_char ' ' (String.trim line))) in
      let next () = match !toks with x :: t -> toks := t; x | [] -> failwith "short" in
      let out = Buffer.create 256 in
      let emit s = (if Buffer.length out > 0 then Buffer.add_char out ' '); Buffer.add_string out s in
      let st = ref { M.jh = M.init_holder; jtab = None; jaddrs = [] } in
      let huge = ref false in
      (try
        while !toks <> [] do
          match next () with
          | "D" -> ignore (next ()); st := { M.jh = M.init_holder; jtab = None; jaddrs = [] }; emit "D"
          | "N" ->
            let name = unhex (next ()) in
            let al = cz_of_string (next ()) in
            let ord = cz_of_string (next ()) in
            let id = List.length !st.M.jh in
            let (e, h') = M.new_section !st.M.jh name al ord in
            st := { !st with M.jh = h' };
            (match e with M.EOk -> emit (Printf.sprintf "N:ok:%d" id) | _ -> emit ("N:" ^ err_name e))
          | "Z" ->
            let id = cz_of_string (next ()) in
            let bs = Z.of_string (next ()) in
            let vs = cz_of_string (next ()) in
            let seed = int_of_string (next ()) in
            (match M.by_id !st.M.jh id with
             | None -> emit "Z:bad"
             | Some _ ->
               let data =
                 if Z.leq bs max_real_buffer then List.init (Z.to_int bs) (fun k -> cz_of_int (pattern seed k))
                 else (huge := true; []) in
               st := { !st with M.jh = M.update_id !st.M.jh id (fun s -> M.set_sizes s (cz_of_z bs) vs data) })
          | "B" ->
            (match M.section_by_name !st.M.jh (unhex (next ())) with
             | Some id -> emit ("B:" ^ string_of_cz id) | None -> emit "B:-")
          | "F" ->
            let (e, h') = (if pinned then M.flatten_pinned else M.flatten) !st.M.jh in
            st := { !st with M.jh = h' };
            emit ("F:" ^ err_name e)
          | "L" ->
            emit ("L:" ^ String.concat ";" (List.map (fun s ->
              Printf.sprintf "%s,%s,%s,%s,%s,%s" (string_of_cz s.M.sid) (string_of_cz s.M.sorder) (string_of_cz s.M.salign)
                (string_of_cz s.M.soff) (string_of_cz s.M.svsize) (string_of_cz s.M.sbsize)) !st.M.jh))
          | "I" -> emit ("I:" ^ String.concat "," (List.init (List.length !st.M.jh) string_of_int))
          | "C" -> emit ("C:" ^ string_of_cz ((if pinned then M.code_size_pinned else M.code_size) !st.M.jh))
          | "P" ->
            let n = Z.of_string (next ()) in
            let fl = int_of_string (next ()) in
            if !huge || Z.gt n max_dst then emit "P:unsafe"
            else begin
              let n = Z.to_int n in
              let (e, mem') = M.copy_flat !st.M.jh (fresh_mem n) (cz_of_int n) (fl land 1 <> 0) (fl land 2 <> 0) in
              emit ("P:" ^ err_name e ^ ":" ^ image n mem')
            end
          | "Q" ->
            let id = cz_of_string (next ()) in
            let n = Z.of_string (next ()) in
            let fl = int_of_string (next ()) in
            if !huge || Z.gt n max_dst then emit "Q:unsafe"
            else begin
              let n = Z.to_int n in
              let (e, mem') = M.copy_section !st.M.jh (fresh_mem n) (cz_of_int n) id (fl land 1 <> 0) in
              emit ("Q:" ^ err_name e ^ ":" ^ image n mem')
            end
          | "J" ->
            if !huge then emit "J:unsafe"
            else begin
              let (((e, size), img), h') = M.jit_add !st.M.jh c_cd in
              st := { !st with M.jh = h' };
              match e with
              | M.EOk -> emit ("J:ok:" ^ string_of_cz size ^ ":" ^ rle (List.map (fun c -> Z.to_int (z_of_cz c)) img))
              | _ -> emit ("J:" ^ err_name e)
            end
          | "K" ->
            let a = cz_of_string (next ()) in
            let len = cz_of_string (next ()) in
            st := M.emit_call !st a len;
            (match M.by_id !st.M.jh (cz_of_int 0) with
             | Some t -> emit ("K:ok:" ^ string_of_cz t.M.sbsize) | None -> emit "K:?")
          | "X" ->
            ignore (next ());
            let used = cz_of_string (next ()) in
            let (st', r) = M.relocate_tail !st used in
            st := st';
            emit ("X:ok:" ^ string_of_cz r)
          | op -> emit ("BAD:" ^ op)
        done
      with Failure m -> emit ("BAD:" ^ m));
      print_endline (Buffer.contents out)
    done
  with End_of_file -> ()

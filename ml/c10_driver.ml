(* C10 model driver: same line protocol as harness/c10_harness.cpp (one scenario per line), answers computed by the
   extracted Coq model (coq/theories/Sections/SectionModel.v).  `--pinned` selects the model of the unrepaired tree
   (flatten_pinned / code_size_pinned), used only to recognise an unpatched /repo in diagnostics. *)
open Zconv
module M = Sections

let pinned = Array.exists (fun x -> x = "--pinned") Sys.argv
(* --mid: flatten without the backward step of fixes/C10-flatten-empty-section-offset (a tree that does not have it yet) *)
let has_arg a = Array.exists (fun x -> x = a) Sys.argv
let mid = has_arg "--mid"
(* --flags-pinned: Section::clear_flags of a tree without fixes/C10-section-clear-flags (ORs the complement) *)
let flags_pinned = has_arg "--flags-pinned"

let err_name = function
  | M.EOk -> "ok" | M.EInvalidArgument -> "EINVAL" | M.EInvalidSectionName -> "ENAME"
  | M.ETooLarge -> "ETOOLARGE" | M.EInvalidSection -> "ESECTION" | M.ENoCodeGenerated -> "ENOCODE"

let unhex h =
  if h = "-" then []
  else List.init (String.length h / 2) (fun i -> cz_of_int (int_of_string ("0x" ^ String.sub h (2 * i) 2)))

let pattern seed k = ((seed * 131 + k * 29 + (k lsr 8) * 7) mod 255) + 1

let guard = 64
let max_real_buffer = Z.shift_left Z.one 22
let max_dst = Z.shift_left Z.one 24
let c_cd = cz_of_int 0xCD
let c_ee = cz_of_int 0xEE

let rle (cells : int list) =
  match cells with
  | [] -> "-"
  | _ ->
    let b = Buffer.create 256 in
    let rec go cur cnt = function
      | [] -> Buffer.add_string b (Printf.sprintf "%d*%d" cur cnt)
      | x :: t -> if x = cur then go cur (cnt + 1) t
        else (Buffer.add_string b (Printf.sprintf "%d*%d," cur cnt); go x 1 t) in
    go (List.hd cells) 1 (List.tl cells);
    Buffer.contents b

(* memory is a list of chunks (coq/theories/Sections/ChunkModel.v; `flat (copy_flat_c ..) = copy_flat .. (flat ..)` is proved in
   ChunkProofs.v): runs (value, count) of a chunk list, cut at n cells, adjacent equal runs merged *)
let runs_of (m : M.chunk list) : (int * int) list =
  List.concat_map (function
    | M.Fill (v, k) -> let k = Z.to_int (z_of_cz k) in if k > 0 then [ (Z.to_int (z_of_cz v), k) ] else []
    | M.Bytes l -> List.map (fun c -> (Z.to_int (z_of_cz c), 1)) l) m

let rec cut n = function
  | [] -> ([], [])
  | (v, k) :: t ->
    if n <= 0 then ([], (v, k) :: t)
    else if k <= n then let (a, b) = cut (n - k) t in ((v, k) :: a, b)
    else ([ (v, n) ], (v, k - n) :: t)

let rle_runs (rs : (int * int) list) =
  let rec merge = function
    | (v1, k1) :: (v2, k2) :: t when v1 = v2 -> merge ((v1, k1 + k2) :: t)
    | x :: t -> x :: merge t
    | [] -> [] in
  match merge rs with
  | [] -> "-"
  | ms -> String.concat "," (List.map (fun (v, k) -> Printf.sprintf "%d*%d" v k) ms)

let total rs = List.fold_left (fun a (_, k) -> a + k) 0 rs

let image n (m : M.chunk list) =
  let (inside, rest) = cut n (runs_of m) in
  let ok = total inside = n && total rest = guard && List.for_all (fun (v, _) -> v = 0xEE) rest in
  rle_runs inside ^ (if ok then ":g1" else ":g0")

let fresh_mem n = [ M.Fill (c_cd, cz_of_int n); M.Fill (c_ee, cz_of_int guard) ]

let () =
  try
    while true do
      let line = input_line stdin in
      let toks = ref (List.filter (fun s -> s <> "") (String.split_on_char ' ' (String.trim line))) in
      let next () = match !toks with x :: t -> toks := t; x | [] -> failwith "short" in
      let out = Buffer.create 256 in
      let emit s = (if Buffer.length out > 0 then Buffer.add_char out ' '); Buffer.add_string out s in
      let st = ref { M.jh = M.init_holder; jtab = None; jaddrs = [] } in
      let huge = ref false in
      let flags : (int, M.z) Hashtbl.t = Hashtbl.create 8 in    (* Section flags by id; .text starts executable|read-only|built-in, others with none *)
      let calls = ref [] in           (* (position in .text, absolute target) of every emitted `call abs`, in order *)
      (try
        while !toks <> [] do
          match next () with
          | "D" -> ignore (next ()); st := { M.jh = M.init_holder; jtab = None; jaddrs = [] }; Hashtbl.reset flags; calls := []; emit "D"
          | "N" ->
            let name = unhex (next ()) in
            let al = cz_of_string (next ()) in
            let ord = cz_of_string (next ()) in
            let id = List.length !st.M.jh in
            let (e, h') = M.new_section !st.M.jh name al ord in
            st := { !st with M.jh = h' };
            (match e with M.EOk -> emit (Printf.sprintf "N:ok:%d" id) | _ -> emit ("N:" ^ err_name e))
          | "Ns" ->
            let buf = unhex (next ()) in
            let al = cz_of_string (next ()) in
            let ord = cz_of_string (next ()) in
            let id = List.length !st.M.jh in
            let (e, h') = M.new_section_cstr !st.M.jh buf al ord in
            st := { !st with M.jh = h' };
            (match e with M.EOk -> emit (Printf.sprintf "N:ok:%d" id) | _ -> emit ("N:" ^ err_name e))
          | "Bs" ->
            (match M.section_by_name_cstr !st.M.jh (unhex (next ())) with
             | Some id -> emit ("B:" ^ string_of_cz id) | None -> emit "B:-")
          | "Z" ->
            let id = cz_of_string (next ()) in
            let bs = Z.of_string (next ()) in
            let vs = cz_of_string (next ()) in
            let seed = int_of_string (next ()) in
            (match M.by_id !st.M.jh id with
             | None -> emit "Z:bad"
             | Some _ ->
               let data =
                 if Z.leq bs max_real_buffer then List.init (Z.to_int bs) (fun k -> cz_of_int (pattern seed k))
                 else (huge := true; []) in
               st := { !st with M.jh = M.update_id !st.M.jh id (fun s -> M.set_sizes s (cz_of_z bs) vs data) })
          | "B" ->
            (match M.section_by_name !st.M.jh (unhex (next ())) with
             | Some id -> emit ("B:" ^ string_of_cz id) | None -> emit "B:-")
          | "F" ->
            let (e, h') = (if pinned then M.flatten_pinned else if mid then M.flatten_mid else M.flatten) !st.M.jh in
            st := { !st with M.jh = h' };
            emit ("F:" ^ err_name e)
          | "L" ->
            emit ("L:" ^ String.concat ";" (List.map (fun s ->
              Printf.sprintf "%s,%s,%s,%s,%s,%s" (string_of_cz s.M.sid) (string_of_cz s.M.sorder) (string_of_cz s.M.salign)
                (string_of_cz s.M.soff) (string_of_cz s.M.svsize) (string_of_cz s.M.sbsize)) !st.M.jh))
          | "I" -> emit ("I:" ^ String.concat "," (List.init (List.length !st.M.jh) string_of_int))
          | "C" -> emit ("C:" ^ string_of_cz ((if pinned then M.code_size_pinned else M.code_size) !st.M.jh))
          | "P" ->
            let n = Z.of_string (next ()) in
            let fl = int_of_string (next ()) in
            if !huge || Z.gt n max_dst then emit "P:unsafe"
            else begin
              let n = Z.to_int n in
              let (e, mem') = M.copy_flat_c !st.M.jh (fresh_mem n) (cz_of_int n) (M.copy_flag (cz_of_int fl) M.cOPY_PAD_SECTION) (M.copy_flag (cz_of_int fl) M.cOPY_PAD_TARGET) in
              emit ("P:" ^ err_name e ^ ":" ^ image n mem')
            end
          | "Q" ->
            let id = cz_of_string (next ()) in
            let n = Z.of_string (next ()) in
            let fl = int_of_string (next ()) in
            if !huge || Z.gt n max_dst then emit "Q:unsafe"
            else begin
              let n = Z.to_int n in
              let (e, mem') = M.copy_section_c !st.M.jh (fresh_mem n) (cz_of_int n) id (M.copy_flag (cz_of_int fl) M.cOPY_PAD_SECTION) in
              emit ("Q:" ^ err_name e ^ ":" ^ image n mem')
            end
          | "J" ->
            if !huge || Z.gt (z_of_cz (M.code_size !st.M.jh)) max_dst then emit "J:unsafe"
            else begin
              if !calls = [] then begin
                let (((e, size), img), h') = M.jit_add_c !st.M.jh c_cd in
                st := { !st with M.jh = h' };
                match e with
                | M.EOk -> emit ("J:ok:" ^ string_of_cz size ^ ":" ^ rle_runs (runs_of img))
                | _ -> emit ("J:" ^ err_name e)
              end else begin
                (* the harness subtracts the base from every absolute word again and call targets are out of rel32 reach of any base the
                   allocator can return (and of 0): the canonical image is the one relocated to base 0 *)
                let (((e, size), img), h') = M.jit_add_reloc !st !calls (cz_of_int 0) c_cd in
                st := { !st with M.jh = h' };
                match e with
                | M.JOk -> emit ("J:ok:" ^ string_of_cz size ^ ":" ^ rle_runs (runs_of img))
                | M.JLayout e -> emit ("J:" ^ err_name e)
                | M.JReloc _ -> emit "J:ERELOC"
              end
            end
          | "K" ->
            let a = cz_of_string (next ()) in
            ignore (next ());
            let pos = (match M.by_id !st.M.jh (cz_of_int 0) with Some t -> t.M.sbsize | None -> cz_of_int 0) in
            calls := !calls @ [ M.SCall (pos, a) ];
            st := M.emit_call_bytes !st a;
            (match M.by_id !st.M.jh (cz_of_int 0) with
             | Some t -> emit ("K:ok:" ^ string_of_cz t.M.sbsize) | None -> emit "K:?")
          | "G" ->
            let id = int_of_string (next ()) in
            let add = cz_of_string (next ()) in
            let clr = cz_of_string (next ()) in
            (match M.by_id !st.M.jh (cz_of_int id) with
             | None -> emit "G:bad"
             | Some _ ->
               let f0 = (match Hashtbl.find_opt flags id with Some f -> f | None -> (if id = 0 then M.tEXT_FLAGS else cz_of_int 0)) in
               let f1 = (if flags_pinned then M.clear_flags_pinned else M.clear_flags) (M.add_flags f0 add) clr in
               Hashtbl.replace flags id f1;
               emit (Printf.sprintf "G:%s:%d" (string_of_cz f1) (if M.has_flag f1 clr then 1 else 0)))
          | "E" ->
            let id = cz_of_string (next ()) in
            (match (if !huge then None else M.by_id !st.M.jh id), M.by_id !st.M.jh (cz_of_int 0) with
             | Some sec, Some text ->
               calls := !calls @ [ M.SAbs (text.M.sbsize, id, sec.M.sbsize) ];
               st := M.emit_abs_bytes !st;
               (match M.by_id !st.M.jh (cz_of_int 0) with
                | Some t -> emit ("E:ok:" ^ string_of_cz t.M.sbsize ^ ":" ^ string_of_cz sec.M.sbsize) | None -> emit "E:?")
             | _ -> emit "E:bad")
          | "KR" ->
            let a = cz_of_string (next ()) in
            let pos = (match M.by_id !st.M.jh (cz_of_int 0) with Some t -> t.M.sbsize | None -> cz_of_int 0) in
            calls := !calls @ [ M.SRel (pos, a) ];
            st := M.emit_code_bytes !st M.jZ_BYTES;
            (match M.by_id !st.M.jh (cz_of_int 0) with
             | Some t -> emit ("KR:ok:" ^ string_of_cz t.M.sbsize) | None -> emit "KR:?")
          | "ED" ->
            let id1 = cz_of_string (next ()) in
            let id2 = cz_of_string (next ()) in
            let size = cz_of_string (next ()) in
            (match (if !huge then None else M.by_id !st.M.jh id1), M.by_id !st.M.jh id2, M.by_id !st.M.jh (cz_of_int 0) with
             | Some s1, Some s2, Some text ->
               (* labels of the same section are subtracted at once (both sit at its end: 0), no relocation is recorded *)
               if not (Z.equal (z_of_cz id1) (z_of_cz id2)) then
                 calls := !calls @ [ M.SExpr (text.M.sbsize, id1, s1.M.sbsize, id2, s2.M.sbsize, size) ];
               st := M.emit_zero_bytes !st size;
               (match M.by_id !st.M.jh (cz_of_int 0) with
                | Some t -> emit (Printf.sprintf "ED:ok:%s:%s:%s" (string_of_cz t.M.sbsize) (string_of_cz s1.M.sbsize) (string_of_cz s2.M.sbsize))
                | None -> emit "ED:?")
             | _ -> emit "ED:bad")
          | "X" ->
            let base = cz_of_string (next ()) in
            ignore (next ());
            (match M.relocate_holder !st.M.jh !st.M.jtab !calls base with
             | M.Inl (h2, r) -> st := { !st with M.jh = h2 }; emit ("X:ok:" ^ string_of_cz r)
             | M.Inr M.RInvalidEntry -> emit "X:ERELOC:0"
             | M.Inr M.ROutOfRange -> emit "X:ERANGE:0"
             | M.Inr M.RExprUnbound -> emit "X:EEXPR:0")
          | op -> emit ("BAD:" ^ op)
        done
      with Failure m -> emit ("BAD:" ^ m));
      print_endline (Buffer.contents out)
    done
  with End_of_file -> ()

(* glue between OCaml's zarith (driver-side parsing/printing only) and the extracted Coq numbers *)
let rec pos_of_z (n : Z.t) : Codec.positive =
  if Z.equal n Z.one then Codec.XH
  else if Z.testbit n 0 then Codec.XI (pos_of_z (Z.shift_right n 1))
  else Codec.XO (pos_of_z (Z.shift_right n 1))
let cz_of_z (n : Z.t) : Codec.z =
  if Z.sign n = 0 then Codec.Z0 else if Z.sign n > 0 then Codec.Zpos (pos_of_z n) else Codec.Zneg (pos_of_z (Z.neg n))
let rec z_of_pos (p : Codec.positive) : Z.t =
  match p with
  | Codec.XH -> Z.one
  | Codec.XO q -> Z.shift_left (z_of_pos q) 1
  | Codec.XI q -> Z.succ (Z.shift_left (z_of_pos q) 1)
let z_of_cz (n : Codec.z) : Z.t =
  match n with Codec.Z0 -> Z.zero | Codec.Zpos p -> z_of_pos p | Codec.Zneg p -> Z.neg (z_of_pos p)
let cz_of_int (i : int) : Codec.z = cz_of_z (Z.of_int i)
let cz_of_string (s : string) : Codec.z = cz_of_z (Z.of_string s)
let string_of_cz (n : Codec.z) : string = Z.to_string (z_of_cz n)

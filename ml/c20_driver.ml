(* C20 model driver: same line protocol as harness/c20_harness.cpp (commands T N O X E), answers computed by the
   extracted Coq model; plus the second-phase commands that apply the PROVEN parsers to AsmJit's own text:
     F pad1 pad2 mc bytes rel imm comment | text   -> "F <whole logger line, '\n' as '$'>"     (finish_line)
     C column                                      -> "C <b|..> ..." parse_hexcol
     P O arch <op> | text                          -> "P ok" | "P MISMATCH <parsed>"  (parse_operand text = canon_op op)
     P X arch id mnem options <extra> n <op>*n | text -> same for whole lines (parse_inst / canon_inst)            *)
open Zconv

let ascii_of_char (c : char) : Fmt.ascii =
  let n = Char.code c in
  let b i = (n lsr i) land 1 = 1 in
  Fmt.Ascii (b 0, b 1, b 2, b 3, b 4, b 5, b 6, b 7)
let char_of_ascii (a : Fmt.ascii) : char =
  match a with
  | Fmt.Ascii (b0, b1, b2, b3, b4, b5, b6, b7) ->
    let v b i = if b then 1 lsl i else 0 in
    Char.chr (v b0 0 + v b1 1 + v b2 2 + v b3 3 + v b4 4 + v b5 5 + v b6 6 + v b7 7)
let text_of_string (s : string) : Fmt.ascii list = List.init (String.length s) (fun i -> ascii_of_char s.[i])
let string_of_text (t : Fmt.ascii list) : string =
  let b = Buffer.create 64 in
  List.iter (fun a -> Buffer.add_char b (char_of_ascii a)) t;
  Buffer.contents b
let rec nat_of_int n = if n <= 0 then Fmt.O else Fmt.S (nat_of_int (n - 1))
let show_line t = String.map (fun c -> if c = '\n' then '$' else c) (string_of_text t)

(* constants of the model (compared with the implementation's by the T command) *)
let ff_machine_code = 1 and ff_show_aliases = 8 and ff_explain = 16 and ff_hex_imms = 32 and ff_hex_offsets = 64
and ff_reg_casts = 256 and ff_positions = 512 and ff_reg_type = 1024
let io_short = 16 and io_long = 32 and io_modmr = 256 and io_modrm = 512 and io_vex3 = 1024 and io_vex = 2048 and io_evex = 4096
and io_lock = 8192 and io_rep = 16384 and io_repne = 32768 and io_xacquire = 65536 and io_xrelease = 131072 and io_er = 262144
and io_sae = 524288 and io_rd = 2097152 and io_ru = 4194304 and io_rz = 6291456 and io_zmask = 8388608 and io_rex = 1073741824

let zi = cz_of_int
let rt_codes = List.map (fun t -> Z.to_int (z_of_cz (Fmt.rt_code t)))
    [Fmt.Gp8Lo; Fmt.Gp8Hi; Fmt.Gp16; Fmt.Gp32; Fmt.Gp64; Fmt.Xmm; Fmt.Ymm; Fmt.Zmm; Fmt.KReg; Fmt.Tmm; Fmt.SReg; Fmt.CReg; Fmt.DReg;
     Fmt.Mm; Fmt.St; Fmt.Bnd; Fmt.Rip]

let fflags_of ff = { Fmt.ff_hex_imms = ff land ff_hex_imms <> 0; Fmt.ff_hex_offsets = ff land ff_hex_offsets <> 0 }

let opts_of o =
  let h b = o land b <> 0 in
  { Fmt.o_vex = h io_vex; o_vex3 = h io_vex3; o_evex = h io_evex; o_modrm = h io_modrm; o_modmr = h io_modmr; o_short = h io_short;
    o_long = h io_long; o_xacquire = h io_xacquire; o_xrelease = h io_xrelease; o_lock = h io_lock; o_rep = h io_rep;
    o_repne = h io_repne; o_rex = h io_rex; o_zmask = h io_zmask; o_er = h io_er; o_sae = h io_sae;
    o_rc = zi ((o land io_rz) / io_rd) }

exception Bad of string

(* reads one operand from the token list; returns operand and the remaining tokens *)
let read_x86_op (toks : string list) : Fmt.x86op * string list =
  match toks with
  | "N" :: r -> (Fmt.ONone, r)
  | "R" :: t :: id :: r -> (Fmt.OReg (Fmt.rt_of_code (cz_of_string t), cz_of_string id), r)
  | "I" :: v :: r -> (Fmt.OImm (cz_of_string v), r)
  | "L" :: id :: r -> (Fmt.OLabel (cz_of_string id), r)
  | "M" :: size :: seg :: addr :: bk :: bt :: bid :: hi :: it :: iid :: sh :: off :: bc :: r ->
    let base = match bk with
      | "0" -> Fmt.MBNone
      | "1" -> Fmt.MBLabel (cz_of_string bid)
      | _ -> Fmt.MBReg (Fmt.rt_of_code (cz_of_string bt), cz_of_string bid) in
    let index = if hi = "0" then None else Some (Fmt.rt_of_code (cz_of_string it), cz_of_string iid) in
    (* what the operand really holds: with a base register/label only the low 32 bits of the offset (sign extended) *)
    let off = Z.of_string off in
    let off = if bk = "0" then off else Z.signed_extract off 0 32 in
    (Fmt.OMem { Fmt.m_size = cz_of_string size; m_seg = cz_of_string seg; m_addr = cz_of_string addr; m_base = base; m_index = index;
                m_shift = cz_of_string sh; m_off = cz_of_z off; m_bcst = cz_of_string bc }, r)
  | k :: _ -> raise (Bad ("operand kind " ^ k))
  | [] -> raise (Bad "operand missing")

let read_extra toks =
  match read_x86_op toks with
  | (Fmt.OReg (t, i), r) -> (Some (t, i), r)
  | (_, r) -> (None, r)

let rec read_ops n toks acc =
  if n = 0 then (List.rev acc, toks) else
    let (o, r) = read_x86_op toks in read_ops (n - 1) r (o :: acc)

let read_inst ~(with_comment : bool) toks =
  match toks with
  | _id :: mnem :: opts :: r ->
    let (ex, r) = read_extra r in
    let (comment, r) = if with_comment then (match r with c :: r' -> (c, r') | [] -> raise (Bad "comment")) else ("-", r) in
    (match r with
     | n :: r ->
       let (ops, r) = read_ops (int_of_string n) r [] in
       ({ Fmt.i_mnem = text_of_string mnem; i_opts = opts_of (int_of_string opts); i_extra = ex; i_ops = ops }, comment, r)
     | [] -> raise (Bad "count"))
  | _ -> raise (Bad "inst")

(* canonical printing of parsed structures (only for messages) *)
let show_rt t = string_of_cz (Fmt.rt_code t)
let show_op (o : Fmt.x86op) =
  match o with
  | Fmt.ONone -> "N"
  | Fmt.OReg (t, i) -> Printf.sprintf "R %s %s" (show_rt t) (string_of_cz i)
  | Fmt.OImm v -> "I " ^ string_of_cz v
  | Fmt.OLabel i -> "L " ^ string_of_cz i
  | Fmt.OMem m ->
    let (bk, bt, bid) = match m.Fmt.m_base with
      | Fmt.MBNone -> ("0", "0", "0") | Fmt.MBLabel i -> ("1", "0", string_of_cz i) | Fmt.MBReg (t, i) -> ("2", show_rt t, string_of_cz i) in
    let (hi, it, iid) = match m.Fmt.m_index with None -> ("0", "0", "0") | Some (t, i) -> ("1", show_rt t, string_of_cz i) in
    String.concat " " ["M"; string_of_cz m.Fmt.m_size; string_of_cz m.Fmt.m_seg; string_of_cz m.Fmt.m_addr; bk; bt; bid; hi; it; iid;
                       string_of_cz m.Fmt.m_shift; string_of_cz m.Fmt.m_off; string_of_cz m.Fmt.m_bcst]
let show_inst (i : Fmt.x86inst) =
  let o = i.Fmt.i_opts in
  let b x = if x then "1" else "0" in
  Printf.sprintf "%s opts=%s rc=%s extra=%s ops=[%s]" (string_of_text i.Fmt.i_mnem)
    (String.concat "" [b o.Fmt.o_vex; b o.o_vex3; b o.o_evex; b o.o_modrm; b o.o_modmr; b o.o_short; b o.o_long; b o.o_xacquire;
                       b o.o_xrelease; b o.o_lock; b o.o_rep; b o.o_repne; b o.o_rex; b o.o_zmask; b o.o_er; b o.o_sae])
    (string_of_cz o.Fmt.o_rc)
    (match i.Fmt.i_extra with None -> "N" | Some (t, k) -> "R " ^ show_rt t ^ " " ^ string_of_cz k)
    (String.concat "; " (List.map show_op i.Fmt.i_ops))

let split_bar (line : string) : string * string =
  (* "<fields> | <text>" : text starts after the first " | " *)
  let n = String.length line in
  let rec find i = if i + 2 >= n then raise (Bad "no bar") else if line.[i] = ' ' && line.[i + 1] = '|' && line.[i + 2] = ' ' then i else find (i + 1) in
  let i = find 0 in
  (String.sub line 0 i, String.sub line (i + 3) (n - i - 3))

let words s = List.filter (fun x -> x <> "") (String.split_on_char ' ' (String.trim s))

let bytes_of_hex h =
  if h = "-" then [] else List.init (String.length h / 2) (fun i -> zi (int_of_string ("0x" ^ String.sub h (2 * i) 2)))

let x64 = "2"
let a64 = "6"
let a64_fixed = Array.exists (fun a -> a = "--a64-fixed") Sys.argv
let embed_total_fixed = Array.exists (fun a -> a = "--embed-total-fixed") Sys.argv

let read_a64_op (toks : string list) : Fmt.a64op * string list =
  let rt c = Fmt.a64rt_of_code (cz_of_string c) in
  match toks with
  | "N" :: r -> (Fmt.AONone, r)
  | "R" :: t :: id :: r -> (Fmt.AOReg (rt t, cz_of_string id, zi 0, None), r)
  | "V" :: t :: id :: et :: ei :: r ->
    (Fmt.AOReg (rt t, cz_of_string id, cz_of_string et, (if ei = "-1" then None else Some (cz_of_string ei))), r)
  | "I" :: v :: r -> (Fmt.AOImm (cz_of_string v, zi 0), r)
  | "J" :: v :: p :: r -> (Fmt.AOImm (cz_of_string v, cz_of_string p), r)
  | "L" :: id :: r -> (Fmt.AOLabel (cz_of_string id), r)
  | "A" :: bk :: bt :: bid :: hi :: it :: iid :: sop :: sh :: om :: off :: r ->
    let base = match bk with
      | "0" -> Fmt.ABNone | "1" -> Fmt.ABLabel (cz_of_string bid) | _ -> Fmt.ABReg (rt bt, cz_of_string bid) in
    let index = if hi = "0" then None else Some (rt it, cz_of_string iid) in
    let off = Z.of_string off in
    let off = if bk = "0" then off else Z.signed_extract off 0 32 in
    (Fmt.AOMem { Fmt.am_base = base; am_index = index; am_shiftop = cz_of_string sop; am_shift = cz_of_string sh;
                 am_mode = cz_of_string om; am_off = cz_of_z off }, r)
  | k :: _ -> raise (Bad ("a64 operand kind " ^ k))
  | [] -> raise (Bad "operand missing")

let rec read_a64_ops n toks acc =
  if n = 0 then (List.rev acc, toks) else
    let (o, r) = read_a64_op toks in read_a64_ops (n - 1) r (o :: acc)

(* id mnem options <extra> [comment] n ops ; the condition code travels in bits 27..30 of the id *)
let read_a64_inst ~(with_comment : bool) toks =
  match toks with
  | id :: mnem :: _opts :: r ->
    let r = (match r with "N" :: r' -> r' | "R" :: _ :: _ :: r' -> r' | _ -> raise (Bad "extra")) in
    let r = if with_comment then (match r with _ :: r' -> r' | [] -> raise (Bad "comment")) else r in
    (match r with
     | n :: r ->
       let (ops, _) = read_a64_ops (int_of_string n) r [] in
       { Fmt.ai_mnem = text_of_string mnem; ai_cond = zi ((int_of_string id lsr 27) land 15); ai_ops = ops }
     | [] -> raise (Bad "count"))
  | _ -> raise (Bad "inst")

let show_a64_op (o : Fmt.a64op) =
  let srt t = string_of_cz (Fmt.a64rt_code t) in
  match o with
  | Fmt.AONone -> "N"
  | Fmt.AOReg (t, i, et, ei) -> Printf.sprintf "V %s %s %s %s" (srt t) (string_of_cz i) (string_of_cz et) (match ei with None -> "-1" | Some k -> string_of_cz k)
  | Fmt.AOImm (v, p) -> Printf.sprintf "J %s %s" (string_of_cz v) (string_of_cz p)
  | Fmt.AOLabel i -> "L " ^ string_of_cz i
  | Fmt.AOMem m ->
    let (bk, bt, bid) = match m.Fmt.am_base with
      | Fmt.ABNone -> ("0", "0", "0") | Fmt.ABLabel i -> ("1", "0", string_of_cz i) | Fmt.ABReg (t, i) -> ("2", srt t, string_of_cz i) in
    let (hi, it, iid) = match m.Fmt.am_index with None -> ("0", "0", "0") | Some (t, i) -> ("1", srt t, string_of_cz i) in
    String.concat " " ["A"; bk; bt; bid; hi; it; iid; string_of_cz m.Fmt.am_shiftop; string_of_cz m.Fmt.am_shift; string_of_cz m.Fmt.am_mode;
                       string_of_cz m.Fmt.am_off]
let show_a64_inst (i : Fmt.a64inst) =
  Printf.sprintf "%s cond=%s ops=[%s]" (string_of_text i.Fmt.ai_mnem) (string_of_cz i.Fmt.ai_cond)
    (String.concat "; " (List.map show_a64_op i.Fmt.ai_ops))

let () =
  try
    while true do
      let line = input_line stdin in
      (try
        match words (try fst (split_bar line) with Bad _ -> line) with
        | "T" :: _ ->
          Printf.printf "T ff %d %d %d %d %d %d %d %d io %d %d %d %d %d %d %d %d %d %d %d %d %d %d %d %d %d %d %d rt %s 7 8 9 10 1 bc 1 6 at 0 1 2 pad 44 26 seg 1 6 a64 63 31 1 6 om 0 1 2\n"
            ff_machine_code ff_show_aliases ff_explain ff_hex_imms ff_hex_offsets ff_reg_casts ff_positions ff_reg_type
            io_short io_long io_modmr io_modrm io_vex3 io_vex io_evex io_lock io_rep io_repne io_xacquire io_xrelease io_er io_sae
            io_rd io_ru io_rz io_zmask io_rex (String.concat " " (List.map string_of_int rt_codes))
        | "N" :: base :: width :: fl :: v :: _ ->
          let fl = int_of_string fl in
          let f = { Fmt.nf_signed = fl land 0x80000000 <> 0; nf_showsign = fl land 1 <> 0; nf_showspace = fl land 2 <> 0;
                    nf_alternate = fl land 4 <> 0 } in
          Printf.printf "N %s\n" (string_of_text (Fmt.fmt_num (cz_of_string v) (cz_of_string base) (cz_of_string width) f))
        | "O" :: arch :: ff :: r when arch = x64 ->
          let (op, _) = read_x86_op r in
          Printf.printf "O %s\n" (string_of_text (Fmt.fmt_operand (fflags_of (int_of_string ff)) op))
        | "X" :: arch :: ff :: r when arch = x64 ->
          let (i, _, _) = read_inst ~with_comment:false r in
          Printf.printf "X %s\n" (string_of_text (Fmt.fmt_inst_ex (int_of_string ff land ff_explain <> 0) (fflags_of (int_of_string ff)) i))
        | "E" :: arch :: ff :: r when arch = x64 ->
          let (i, _, _) = read_inst ~with_comment:true r in
          Printf.printf "E %s\n" (string_of_text (Fmt.fmt_inst_ex (int_of_string ff land ff_explain <> 0) (fflags_of (int_of_string ff)) i))
        | "O" :: "5" :: _ff :: r ->
          (* AArch32: register operands only *)
          (match read_a64_op r with
           | (Fmt.AOReg (t, id, et, ei), _) ->
             let txt = Fmt.a32_fmt_reg t id et ei in
             Printf.printf "O %s\n" (string_of_text txt)
           | _ -> raise (Bad "AArch32: register operands only"))
        | "P" :: "R5" :: id :: _ ->
          let (_, text) = split_bar line in
          (match Fmt.parse_a32_gp (text_of_string text) with
           | Some v -> if string_of_cz v = id then print_endline "P ok" else Printf.printf "P MISMATCH parsed=%s\n" (string_of_cz v)
           | None -> print_endline "P MISMATCH parsed=<no parse>")
        | "O" :: arch :: ff :: r when arch = a64 ->
          let (op, _) = read_a64_op r in
          Printf.printf "O %s\n" (string_of_text (Fmt.a64_fmt_operand a64_fixed (fflags_of (int_of_string ff)) op))
        | "X" :: arch :: ff :: r when arch = a64 ->
          let i = read_a64_inst ~with_comment:false r in
          Printf.printf "X %s\n" (string_of_text (Fmt.a64_fmt_inst a64_fixed (fflags_of (int_of_string ff)) i))
        | "E" :: arch :: ff :: r when arch = a64 ->
          let i = read_a64_inst ~with_comment:true r in
          Printf.printf "E %s\n" (string_of_text (Fmt.a64_fmt_inst a64_fixed (fflags_of (int_of_string ff)) i))
        | "P" :: "O" :: arch :: r when arch = a64 ->
          let (_, text) = split_bar line in
          let (op, _) = read_a64_op r in
          let op = Fmt.a64_canon_op op in
          let dom = if Fmt.a64_op_okb (fst (read_a64_op r)) then "in" else "out" in
          (match Fmt.parse_a64_operand (text_of_string text) with
           | Some got when got = op -> print_endline "P ok"
           | Some got -> Printf.printf "P MISMATCH parsed=%s DOMAIN=%s\n" (show_a64_op got) dom
           | None -> Printf.printf "P MISMATCH parsed=<no parse> DOMAIN=%s\n" dom)
        | "P" :: "X" :: arch :: r when arch = a64 ->
          let (_, text) = split_bar line in
          let given = read_a64_inst ~with_comment:false r in
          let want = Fmt.a64_canon_inst given in
          let dom = if Fmt.a64_inst_okb given then "in" else "out" in
          (match Fmt.parse_a64_inst (text_of_string text) with
           | Some got when got = want -> print_endline "P ok"
           | Some got -> Printf.printf "P MISMATCH parsed=%s want=%s DOMAIN=%s\n" (show_a64_inst got) (show_a64_inst want) dom
           | None -> Printf.printf "P MISMATCH parsed=<no parse> DOMAIN=%s\n" dom)
        | "F" :: pad1 :: pad2 :: mc :: bytes :: rel :: imm :: comment :: _ ->
          let (_, text) = split_bar line in
          let bin = if mc = "1" then Some ((bytes_of_hex bytes, nat_of_int (int_of_string rel)), nat_of_int (int_of_string imm)) else None in
          let c = if comment = "-" then [] else text_of_string comment in
          Printf.printf "F %s\n" (show_line (Fmt.finish_line (text_of_string text) (nat_of_int (int_of_string pad1)) (nat_of_int (int_of_string pad2)) bin c))
        | "ED" :: arch :: _ff :: ind :: kind :: r ->
          let is64 = (arch = a64) in
          let line = (match kind, r with
            | "A", _mode :: n :: _ -> Fmt.fmt_align_line (nat_of_int (int_of_string ind)) (cz_of_string n)
            | "B", hx :: _ -> Fmt.fmt_data is64 (zi 1) (bytes_of_hex hx) (zi 1)
            | "T", ts :: rep :: hx :: _ -> Fmt.fmt_data is64 (cz_of_string ts) (bytes_of_hex hx) (cz_of_string rep)
            | "L", li :: sz :: _ -> Fmt.fmt_embed_label is64 (cz_of_string sz) (cz_of_string li)
            | "D", li :: bi :: sz :: _ -> Fmt.fmt_embed_delta is64 (cz_of_string sz) (cz_of_string li) (cz_of_string bi)
            | "C", txt :: _ -> text_of_string txt
            | _ -> raise (Bad "ED")) in
          Printf.printf "ED %s$\n" (string_of_text line)
        | "P" :: "ED" :: arch :: kind :: _ ->
          (* the proven readers of Directives.v on a logged line *)
          let (_, text) = split_bar line in
          let is64 = (arch = a64) in
          let rec int_of_nat = function Fmt.O -> 0 | Fmt.S k -> 1 + int_of_nat k in
          (match kind with
           | "A" -> (match Fmt.parse_align_line (text_of_string text) with
                     | Some (i, n) -> Printf.printf "P %d %s\n" (int_of_nat i) (string_of_cz n) | None -> print_endline "P <no parse>")
           | "L" -> (match Fmt.parse_embed_label is64 (text_of_string text) with
                     | Some (sz, id) -> Printf.printf "P %s %s\n" (string_of_cz sz) (string_of_cz id) | None -> print_endline "P <no parse>")
           | "D" -> (match Fmt.parse_embed_delta is64 (text_of_string text) with
                     | Some ((sz, id), b) -> Printf.printf "P %s %s %s\n" (string_of_cz sz) (string_of_cz id) (string_of_cz b) | None -> print_endline "P <no parse>")
           | _ -> raise (Bad "P ED"))
        | "FI" :: ind :: pad1 :: pad2 :: mc :: bytes :: rel :: imm :: comment :: _ ->
          (* logger line with indentation / padding options *)
          let (_, text) = split_bar line in
          let bin = if mc = "1" then Some ((bytes_of_hex bytes, nat_of_int (int_of_string rel)), nat_of_int (int_of_string imm)) else None in
          let c = if comment = "-" then [] else text_of_string comment in
          Printf.printf "FI %s\n" (show_line (Fmt.log_line (nat_of_int (int_of_string ind)) (text_of_string text) (nat_of_int (int_of_string pad1)) (nat_of_int (int_of_string pad2)) bin c))
        | "FL" :: ind :: pad1 :: pad2 :: mc :: id :: comment :: _ ->
          let c = if comment = "-" then [] else text_of_string comment in
          Printf.printf "FL %s\n" (show_line (Fmt.label_line (nat_of_int (int_of_string ind)) (Fmt.label_text (cz_of_string id)) (nat_of_int (int_of_string pad1))
                                                (nat_of_int (int_of_string pad2)) (mc = "1") c))
        | "GI" :: _ ->
          let (_, text) = split_bar line in
          let l = String.map (fun c -> if c = '$' then '\n' else c) text in
          let rec int_of_nat = function Fmt.O -> 0 | Fmt.S k -> 1 + int_of_nat k in
          (match Fmt.parse_log_line_ind (text_of_string l) with
           | Some (((n, t), col), cm) -> Printf.printf "GI %d|%s|%s|%s\n" (int_of_nat n) (string_of_text t) (string_of_text col) (string_of_text cm)
           | None -> print_endline "GI <no parse>")
        | "Y" :: a64f :: size :: rep :: hx :: _ ->
          Printf.printf "Y %s\n" (string_of_text (Fmt.fmt_data (a64f = "1") (cz_of_string size) (bytes_of_hex hx) (cz_of_string rep)))
        | "Z" :: ff :: inl :: pos :: kind :: r ->
          let f = fflags_of (int_of_string ff) in
          let node = (match kind, r with
            | "L", _ -> Fmt.NLabel (zi 0)
            | "A", mode :: n :: _ -> Fmt.NAlign (cz_of_string n, mode = "0")
            | "C", c :: _ -> Fmt.NComment (text_of_string c)
            | "D", size :: count :: rep :: _ ->
              Fmt.NEmbed (cz_of_string size, cz_of_string count, cz_of_string rep,
                          (* "TotalSize" is EmbedDataNode::data_size() = item size * count (the repeat count is not included) *)
                          (* pinned tree: the repeat count is not included; with fixes/C20-embed-node-totalsize.patch it is *)
                          cz_of_z (Z.mul (Z.mul (Z.of_string size) (Z.of_string count)) (if embed_total_fixed then Z.of_string rep else Z.one)))
            | "S", nm :: _ -> Fmt.NSection (text_of_string nm)
            | "EL", id :: size :: _ -> Fmt.NEmbedLabel (cz_of_string id, cz_of_string size)
            | "EX", id :: base :: size :: _ -> Fmt.NEmbedLabelDelta (cz_of_string id, cz_of_string base, cz_of_string size)
            | "CP", n :: m2 :: _ ->
              (* ConstPool: size = 8-byte constants then 16-byte constants, each group aligned to its size; alignment = the largest item size *)
              let n = int_of_string n and m2 = int_of_string m2 in
              let size = if m2 = 0 then 8 * n else ((8 * n + 15) / 16) * 16 + 16 * m2 in
              Fmt.NConstPool (zi size, zi (if m2 > 0 then 16 else if n > 0 then 8 else 0))
            | "SN", fe :: _ -> Fmt.NSentinel (fe = "1")
            | "I", r -> let (i, _, _) = read_inst ~with_comment:false r in Fmt.NInst i
            | _ -> raise (Bad "node")) in
          Printf.printf "Z %s\n" (string_of_text (Fmt.fmt_node_pos (int_of_string ff land ff_positions <> 0) (cz_of_string pos) f (nat_of_int 44) node
                                                     (if inl = "-" then [] else text_of_string inl)))
        | "P" :: "ZN" :: _ ->
          (* the proven reader of non-instruction Builder nodes *)
          let (_, text) = split_bar line in
          (match Fmt.parse_node_body (text_of_string text) with
           | Some (Fmt.NLabel id) -> Printf.printf "P L %s\n" (string_of_cz id)
           | Some (Fmt.NAlign (k, code)) -> Printf.printf "P A %s %s\n" (if code then "0" else "1") (string_of_cz k)
           | Some (Fmt.NSection nm) -> Printf.printf "P S %s\n" (string_of_text nm)
           | Some (Fmt.NEmbedLabel (id, _)) -> Printf.printf "P EL %s\n" (string_of_cz id)
           | Some (Fmt.NEmbedLabelDelta (id, b, _)) -> Printf.printf "P EX %s %s\n" (string_of_cz id) (string_of_cz b)
           | Some (Fmt.NConstPool (sz, al)) -> Printf.printf "P CP %s %s\n" (string_of_cz sz) (string_of_cz al)
           | Some (Fmt.NSentinel fe) -> Printf.printf "P SN %s\n" (if fe then "1" else "0")
           | Some _ -> print_endline "P <other node>"
           | None -> print_endline "P <no parse>")
        | "P" :: "DB" :: _ ->
          (* the bytes a data line denotes: proven parse_data, then DataBytes.data_bytes with the item size of the directive word *)
          let (_, text) = split_bar line in
          (match Fmt.parse_data (text_of_string text) with
           | Some ((rp, w), items) ->
             let size = (match string_of_text w with ".db" | ".byte" -> 1 | ".dw" | ".hword" -> 2 | ".dd" | ".word" -> 4 | ".dq" | ".xword" -> 8 | _ -> 0) in
             if size = 0 then print_endline "P <unknown directive>" else
             let bs = Fmt.data_bytes (nat_of_int size) items (nat_of_int (Z.to_int (z_of_cz rp))) in
             Printf.printf "P %s\n" (String.concat "" (List.map (fun b -> Printf.sprintf "%02x" (Z.to_int (z_of_cz b))) bs))
           | None -> print_endline "P <no parse>")
        | "P" :: "D" :: _ ->
          let (_, text) = split_bar line in
          (match Fmt.parse_data (text_of_string text) with
           | Some ((rp, w), items) -> Printf.printf "P %s %s %s\n" (string_of_cz rp) (string_of_text w) (String.concat "," (List.map string_of_cz items))
           | None -> print_endline "P <no parse>")
        | "W" :: ff :: optype :: vidx :: vtype :: name :: _ ->
          let ff = int_of_string ff in
          let ot = Fmt.rt_of_code (cz_of_string optype) in
          if name = "!" then
            (* not a virtual register of the Compiler: printed like a physical id *)
            Printf.printf "W %s\n" (string_of_text (Fmt.fmt_reg ot (cz_of_z (Z.add (Z.of_string vidx) (Z.of_int 256)))))
          else
            Printf.printf "W %s\n" (string_of_text (Fmt.x86_fmt_virt (ff land ff_reg_type <> 0) (ff land ff_reg_casts <> 0)
              (if name = "-" then None else Some (text_of_string name)) (cz_of_string vidx) (Fmt.rt_of_code (cz_of_string vtype)) ot))
        | "K6" :: ff :: nv :: r ->
          let rec env n toks acc = if n = 0 then (List.rev acc, toks) else
              (match toks with
               | vt :: nm :: rest -> env (n - 1) rest (((if nm = "-" then None else Some (text_of_string nm)), Fmt.a64rt_of_code (cz_of_string vt)) :: acc)
               | _ -> raise (Bad "venv")) in
          let (e, rest) = env (int_of_string nv) r [] in
          let i = read_a64_inst ~with_comment:false rest in
          Printf.printf "K6 %s\n" (string_of_text (Fmt.a64_fmt_inst_virt e a64_fixed (fflags_of (int_of_string ff)) i))
        | "K" :: ff :: nv :: r ->
          let ff = int_of_string ff in
          let rec env n toks acc = if n = 0 then (List.rev acc, toks) else
              (match toks with
               | vt :: nm :: rest -> env (n - 1) rest (((if nm = "-" then None else Some (text_of_string nm)), Fmt.rt_of_code (cz_of_string vt)) :: acc)
               | _ -> raise (Bad "venv")) in
          let (e, rest) = env (int_of_string nv) r [] in
          (* operands: H = memory operand that is a register home; remember the flags and read it as M *)
          let homes = ref [] in
          let rest' = List.map (fun tk -> if tk = "H" then "M" else tk) rest in
          (match rest with
           | _id :: _mn :: _op :: tl ->
             let rec scan toks = (match toks with
               | [] -> ()
               | "H" :: r' -> homes := true :: !homes; scan (skip 12 r')
               | "M" :: r' -> homes := false :: !homes; scan (skip 12 r')
               | "R" :: r' -> homes := false :: !homes; scan (skip 2 r')
               | "I" :: r' -> homes := false :: !homes; scan (skip 1 r')
               | "L" :: r' -> homes := false :: !homes; scan (skip 1 r')
               | "N" :: r' -> homes := false :: !homes; scan r'
               | _ :: r' -> scan r')
             and skip n l = if n = 0 then l else (match l with [] -> [] | _ :: t -> skip (n - 1) t) in
             (* skip the extra register and the operand count *)
             let after_extra = (match tl with "N" :: t -> t | "R" :: _ :: _ :: t -> t | t -> t) in
             (match after_extra with _n :: ops -> scan ops | [] -> ())
           | _ -> ());
          let (i, _, _) = read_inst ~with_comment:false rest' in
          Printf.printf "K %s\n" (string_of_text (Fmt.fmt_inst_virt e (ff land ff_reg_type <> 0) (ff land ff_reg_casts <> 0) (fflags_of ff) i (List.rev !homes)))
        | "J" :: ff :: nv :: r ->
          let ff = int_of_string ff in
          let rec env n toks acc = if n = 0 then (List.rev acc, toks) else
              (match toks with
               | vt :: nm :: rest -> env (n - 1) rest (((if nm = "-" then None else Some (text_of_string nm)), Fmt.rt_of_code (cz_of_string vt)) :: acc)
               | _ -> raise (Bad "venv")) in
          let (e, rest) = env (int_of_string nv) r [] in
          let (o0, rest) = read_x86_op rest in
          let (o1, _) = read_x86_op rest in
          Printf.printf "J %s\n" (string_of_text (Fmt.fmt_func_ret e (ff land ff_reg_type <> 0) (ff land ff_reg_casts <> 0) (fflags_of ff) o0 o1))
        | "RL" :: arch :: rt :: mask :: _ ->
          let name = if arch = "5" then Fmt.a32_reg
                     else (fun id -> Fmt.a64_fmt_operand true (fflags_of 0) (Fmt.AOReg (Fmt.a64rt_of_code (cz_of_string rt), id, zi 0, None))) in
          Printf.printf "RL %s\n" (string_of_text (Fmt.fmt_reglist name (cz_of_string mask)))
        | "P" :: "RL" :: _ ->
          let (_, text) = split_bar line in
          (match Fmt.parse_reglist (text_of_string text) with Some m -> Printf.printf "P %s\n" (string_of_cz m) | None -> print_endline "P <no parse>")
        | "QI" :: ff :: r ->
          let ff = int_of_string ff in
          let (tgt, _) = read_x86_op r in
          let env = [ (None, Fmt.Gp64); (Some (text_of_string "fnptr"), Fmt.Gp64) ] in
          let i = { Fmt.i_mnem = text_of_string "call"; i_opts = opts_of 0; i_extra = None; i_ops = [tgt] } in
          Printf.printf "QI %s\n" (string_of_text (Fmt.fmt_inst_virt env (ff land ff_reg_type <> 0) (ff land ff_reg_casts <> 0) (fflags_of ff) i []))
        | "Q" :: arch :: r ->
          (* Q arch nrets (type A)* nargs (type A name)* ; A = N | R regtype id (d|i) | S offset (d|i) ; name "-" = no register bound *)
          let read_a mk toks = (match toks with
            | "N" :: tl -> (None, tl)
            | "R" :: t :: id :: ind :: tl -> (Some (ind = "i", Fmt.FAReg (mk t id)), tl)
            | "S" :: off :: ind :: tl -> (Some (ind = "i", Fmt.FAStack (cz_of_string off)), tl)
            | _ -> raise (Bad "assign")) in
          let go : 'r. (string -> string -> 'r) -> ('r -> Fmt.text) -> unit = fun mk rp ->
            (match r with
             | nr :: rest ->
               let rec rets k toks acc = if k = 0 then (List.rev acc, toks) else
                   (match toks with ty :: tl -> let (a, tl') = read_a mk tl in rets (k - 1) tl' ((text_of_string ty, a) :: acc) | [] -> raise (Bad "Q rets")) in
               let (rl, rest) = rets (int_of_string nr) rest [] in
               (match rest with
                | na :: rest ->
                  let rec args k toks acc = if k = 0 then List.rev acc else
                      (match toks with
                       | ty :: tl -> let (a, tl') = read_a mk tl in
                         (match tl' with nm :: tl'' -> args (k - 1) tl'' (((text_of_string ty, a), (if nm = "-" then None else Some (text_of_string nm))) :: acc)
                                       | [] -> raise (Bad "Q arg name"))
                       | [] -> raise (Bad "Q args")) in
                  let al = args (int_of_string na) rest [] in
                  Printf.printf "Q %s\n" (string_of_text (Fmt.fmt_func_node rp (zi 1) rl al))
                | [] -> raise (Bad "Q"))
             | [] -> raise (Bad "Q")) in
          if arch = a64 then go (fun t id -> (Fmt.a64rt_of_code (cz_of_string t), cz_of_string id)) Fmt.a64_rp
          else go (fun t id -> (Fmt.rt_of_code (cz_of_string t), cz_of_string id)) Fmt.x86_rp
        | "P" :: "QL" :: arch :: _ ->
          (* the proven reader on a whole FuncNode line: "P <label> ## <ret or void> ## <arg> <name>; ..." *)
          let (_, text) = split_bar line in
          let showv ty a sr = (match a with
            | None -> Printf.sprintf "%s N" (string_of_text ty)
            | Some (ind, Fmt.FAReg r) -> Printf.sprintf "%s R %s %s" (string_of_text ty) (sr r) (if ind then "i" else "d")
            | Some (ind, Fmt.FAStack off) -> Printf.sprintf "%s S %s %s" (string_of_text ty) (string_of_cz off) (if ind then "i" else "d")) in
          let out sr okb res = (match res with
            | Some ((id, ret), args) when not (okb ret args) ->
              ignore id; print_endline "P <read, but the premise of the FuncNode-line theorem (func_line_okb) does not hold for what was read>"
            | Some ((id, ret), args) ->
              Printf.printf "P %s ## %s ## %s\n" (string_of_cz id)
                (match ret with None -> "void" | Some (ty, a) -> showv ty a sr)
                (String.concat "; " (List.map (fun ((ty, a), nm) -> showv ty a sr ^ " " ^ (match nm with None -> "-" | Some n -> string_of_text n)) args))
            | None -> print_endline "P <no parse>") in
          if arch = a64 then out (fun (t, i) -> Printf.sprintf "%s %s" (string_of_cz (Fmt.a64rt_code t)) (string_of_cz i)) Fmt.a64_func_line_okb (Fmt.parse_func_line Fmt.a64_pr (text_of_string text))
          else out (fun (t, i) -> Printf.sprintf "%s %s" (show_rt t) (string_of_cz i)) Fmt.x86_func_line_okb (Fmt.parse_func_line Fmt.parse_reg_name (text_of_string text))
        | "P" :: "Q" :: arch :: _ ->
          (* the proven reader on one function value as printed by AsmJit *)
          let (_, text) = split_bar line in
          let show ty a sr = (match a with
            | None -> Printf.sprintf "%s N" (string_of_text ty)
            | Some (ind, Fmt.FAReg r) -> Printf.sprintf "%s R %s %s" (string_of_text ty) (sr r) (if ind then "i" else "d")
            | Some (ind, Fmt.FAStack off) -> Printf.sprintf "%s S %s %s" (string_of_text ty) (string_of_cz off) (if ind then "i" else "d")) in
          if arch = a64 then
            (match Fmt.parse_fvalue Fmt.a64_pr (text_of_string text) with
             | Some (ty, a) -> Printf.printf "P %s\n" (show ty a (fun (t, i) -> Printf.sprintf "%s %s" (string_of_cz (Fmt.a64rt_code t)) (string_of_cz i)))
             | None -> print_endline "P <no parse>")
          else
            (match Fmt.parse_fvalue Fmt.parse_reg_name (text_of_string text) with
             | Some (ty, a) -> Printf.printf "P %s\n" (show ty a (fun (t, i) -> Printf.sprintf "%s %s" (show_rt t) (string_of_cz i)))
             | None -> print_endline "P <no parse>")
        | "W6" :: _ff :: optype :: vidx :: _vtype :: name :: et :: ei :: _ ->
          let ot = Fmt.a64rt_of_code (cz_of_string optype) in
          if name = "!" then
            Printf.printf "W6 %s\n" (string_of_text (Fmt.a64_fmt_operand true (fflags_of 0)
              (Fmt.AOReg (ot, cz_of_z (Z.add (Z.of_string vidx) (Z.of_int 256)), cz_of_string et, (if ei = "-1" then None else Some (cz_of_string ei))))))
          else
            Printf.printf "W6 %s\n" (string_of_text (Fmt.a64_fmt_virt (if name = "-" then None else Some (text_of_string name)) (cz_of_string vidx) ot
                                                      (cz_of_string et) (if ei = "-1" then None else Some (cz_of_string ei))))
        | "U" :: ff :: nv :: r ->
          let ff = int_of_string ff in
          let rec env n toks acc = if n = 0 then (List.rev acc, toks) else
              (match toks with
               | vt :: nm :: rest -> env (n - 1) rest (((if nm = "-" then None else Some (text_of_string nm)), Fmt.rt_of_code (cz_of_string vt)) :: acc)
               | _ -> raise (Bad "venv")) in
          let (e, rest) = env (int_of_string nv) r [] in
          (match read_x86_op rest with
           | (Fmt.OMem m, _) ->
             Printf.printf "U %s\n" (string_of_text (Fmt.fmt_mem_virt e (ff land ff_reg_type <> 0) (ff land ff_reg_casts <> 0) (fflags_of ff) m))
           | _ -> raise (Bad "U needs a memory operand"))
        | "B" :: id :: kind :: pk :: pname :: pid :: name :: _ ->
          let id = cz_of_string id in
          let info = match kind with
            | "0" -> Fmt.LInvalid id
            | "1" -> Fmt.LPlain id
            | _ -> Fmt.LNamed (id, (kind = "3"),
                     (match pk with "0" -> Fmt.PNone | "1" -> Fmt.PNamed (text_of_string pname) | _ -> Fmt.PUnnamed (cz_of_string pid)),
                     text_of_string name) in
          Printf.printf "B %s\n" (string_of_text (Fmt.fmt_label info))
        | "PLP" :: _ ->
          (* a whole log WITHOUT kMachineCode through the proven parse_plain_log: "PLP text ### comment ||| text ### comment ..." ('-' = no comment) *)
          let (_, text) = split_bar line in
          let l = String.map (fun c -> if c = '$' then '\n' else c) text in
          (match Fmt.parse_plain_log (text_of_string l) with
           | Some ls -> Printf.printf "PLP %s\n" (String.concat " ||| " (List.map (fun (t, c) -> string_of_text t ^ " ### " ^ (match c with None -> "-" | Some x -> string_of_text x)) ls))
           | None -> print_endline "PLP <no parse>")
        | "PL" :: _ ->
          (* a whole log (several lines, '$' = newline) through the proven parse_log + columns_bytes: answer = number of lines and the bytes of all columns *)
          let (_, text) = split_bar line in
          let l = String.map (fun c -> if c = '$' then '\n' else c) text in
          (match Fmt.parse_log (text_of_string l) with
           | Some ls ->
             (match Fmt.columns_bytes (List.map (fun ((_, col), _) -> col) ls) with
              | Some bs -> Printf.printf "PL %d %s\n" (List.length ls)
                             (String.concat "" (List.map (function None -> ".." | Some b -> Printf.sprintf "%02x" (Z.to_int (z_of_cz b))) bs))
              | None -> print_endline "PL <columns unreadable>")
           | None -> print_endline "PL <no parse>")
        | "G" :: _ ->
          (* the proven line splitter on AsmJit's logger line ('$' stands for the newline) *)
          let (_, text) = split_bar line in
          let l = String.map (fun c -> if c = '$' then '\n' else c) text in
          (match Fmt.parse_log_line (text_of_string l) with
           | Some ((t, col), cm) -> Printf.printf "G %s ## %s ## %s\n" (string_of_text t) (string_of_text col) (string_of_text cm)
           | None -> print_endline "G <no parse>")
        | "C" :: col :: _ ->
          (match Fmt.parse_hexcol (text_of_string col) with
           | None -> print_endline "C <unparsable>"
           | Some l -> Printf.printf "C %s\n" (String.concat " " (List.map (function None -> ".." | Some b -> Printf.sprintf "%02x" (Z.to_int (z_of_cz b))) l)))
        | "C" :: [] -> print_endline "C "
        | "P" :: "V6" :: nv :: r ->
          (* the proven reader of an AArch64 virtual-register operand: index, element suffix, element index *)
          let (_, text) = split_bar line in
          let rec env n toks acc = if n = 0 then (List.rev acc, toks) else
              (match toks with
               | vt :: nm :: rest -> env (n - 1) rest (((if nm = "-" then None else Some (text_of_string nm)), Fmt.a64rt_of_code (cz_of_string vt)) :: acc)
               | _ -> raise (Bad "venv")) in
          let (e, _) = env (int_of_string nv) r [] in
          if not (Fmt.env_ok64b e) then print_endline "P MISMATCH the environment does not satisfy env_ok64" else
          (match Fmt.read_a64_virt e (text_of_string text) with
           | Some ((ix, suf), ei) -> Printf.printf "P %s %s %s\n" (string_of_cz ix) (let x = string_of_text suf in if x = "" then "-" else x) (match ei with None -> "-1" | Some k -> string_of_cz k)
           | None -> print_endline "P <no parse>")
        | "P" :: "V" :: nv :: r ->
          let (_, text) = split_bar line in
          let rec env n toks acc = if n = 0 then (List.rev acc, toks) else
              (match toks with
               | vt :: nm :: rest -> env (n - 1) rest (((if nm = "-" then None else Some (text_of_string nm)), Fmt.rt_of_code (cz_of_string vt)) :: acc)
               | _ -> raise (Bad "venv")) in
          let (e, rest) = env (int_of_string nv) r [] in
          (* the side conditions of the theorem are checked on the environment *)
          let names_ok = Fmt.env_okb e in      (* the decidable form of the theorem's hypothesis env_ok (EnvCheck.env_okb_sound) *)
          let got = (match Fmt.read_reg e (text_of_string text) with
            | Some (Fmt.RPhys (t, i)) -> Printf.sprintf "R %s %s" (show_rt t) (string_of_cz i)
            | Some (Fmt.RVirt (i, c)) -> Printf.sprintf "V %s %s" (string_of_cz i) (match c with None -> "-" | Some t -> show_rt t)
            | None -> "<no parse>") in
          (match rest with
           | k :: a :: b :: _ ->
             if not names_ok then print_endline "P MISMATCH names outside the alphabet"
             else if got = Printf.sprintf "%s %s %s" k a b then print_endline "P ok" else Printf.printf "P MISMATCH parsed=%s\n" got
           | _ -> raise (Bad "P V"))
        | "P" :: "W" :: idx :: ty :: _ ->
          let (_, text) = split_bar line in
          (match Fmt.parse_virt (text_of_string text) with
           | Some (i, t) ->
             let ts = (match t with None -> "-" | Some t -> show_rt t) in
             if string_of_cz i = idx && ts = ty then print_endline "P ok" else Printf.printf "P MISMATCH parsed=%s %s\n" (string_of_cz i) ts
           | None -> print_endline "P MISMATCH parsed=<no parse>")
        | "P" :: "B" :: id :: name :: _ ->
          let (_, text) = split_bar line in
          (match Fmt.parse_anon_label (text_of_string text) with
           | Some (i, n) -> if string_of_cz i = id && string_of_text n = name then print_endline "P ok"
                            else Printf.printf "P MISMATCH parsed=%s %s\n" (string_of_cz i) (string_of_text n)
           | None -> print_endline "P MISMATCH parsed=<no parse>")
        | "P" :: "O" :: arch :: r when arch = x64 ->
          let (_, text) = split_bar line in
          let (op, _) = read_x86_op r in
          let want = Fmt.canon_op op in
          let dom = if Fmt.op_vis_okb op then "in" else "out" in
          (match Fmt.parse_operand (text_of_string text) with
           | Some got when got = want -> print_endline "P ok"
           | Some got -> Printf.printf "P MISMATCH parsed=%s DOMAIN=%s\n" (show_op got) dom
           | None -> Printf.printf "P MISMATCH parsed=<no parse> DOMAIN=%s\n" dom)
        | "P" :: "XS6" :: _ ->
          let (_, text) = split_bar line in
          (match Fmt.parse_a64_inst (text_of_string text) with
           | Some got -> Printf.printf "P %s\n" (show_a64_inst got)
           | None -> print_endline "P <no parse>")
        | "P" :: "XS" :: _ ->
          (* the proven line parser on a text, answer = what it read *)
          let (_, text) = split_bar line in
          (match Fmt.parse_inst (text_of_string text) with
           | Some got -> Printf.printf "P %s\n" (show_inst got)
           | None -> print_endline "P <no parse>")
        | "P" :: "X" :: arch :: r when arch = x64 ->
          let (_, text) = split_bar line in
          let (i, _, _) = read_inst ~with_comment:false r in
          let want = Fmt.canon_inst i in
          let dom = if Fmt.inst_okb i then "in" else "out" in
          (match Fmt.parse_inst (text_of_string text) with
           | Some got when got = want -> print_endline "P ok"
           | Some got -> Printf.printf "P MISMATCH parsed=%s want=%s DOMAIN=%s\n" (show_inst got) (show_inst want) dom
           | None -> Printf.printf "P MISMATCH parsed=<no parse> DOMAIN=%s\n" dom)
        | _ -> print_endline "? unknown command"
      with
      | Bad m -> Printf.printf "? bad command (%s)\n" m
      | Failure m -> Printf.printf "? failure (%s)\n" m
      | Invalid_argument m -> Printf.printf "? invalid (%s)\n" m)
    done
  with End_of_file -> ()

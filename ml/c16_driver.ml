(* C16 model driver: reads lifecycle scripts (the steps of harness/c16_harness.cpp with every program replaced by its measured
   effect on the counters) and prints the state line the extracted Coq model predicts after every step.
   input : <id> <step> <step> ...      G<dsec>.<dlab>.<drel>.<dvregs>.<dja>.<pending after the program>  RS RH RI DA NE NH L1 L0 EL1 EL0 V1 V0 XA XD XN H
   output: S <id> a/b/c/... a/b/c/...  (same format as the harness) *)
(* own number glue (the extracted module has positive/N only, so the shared zconv template does not apply) *)
let rec pos_of_int (n : int) : Lifecycle.positive =
  if n = 1 then Lifecycle.XH else if n land 1 = 1 then Lifecycle.XI (pos_of_int (n lsr 1)) else Lifecycle.XO (pos_of_int (n lsr 1))
let cn_of_int (n : int) : Lifecycle.n = if n <= 0 then Lifecycle.N0 else Lifecycle.Npos (pos_of_int n)
let rec int_of_pos (p : Lifecycle.positive) : int =
  match p with Lifecycle.XH -> 1 | Lifecycle.XO q -> 2 * int_of_pos q | Lifecycle.XI q -> 2 * int_of_pos q + 1
let int_of_cn (n : Lifecycle.n) : int = match n with Lifecycle.N0 -> 0 | Lifecycle.Npos p -> int_of_pos p
let cn_of_string (s : string) : Lifecycle.n = cn_of_int (int_of_string s)
let string_of_cn (n : Lifecycle.n) : string = string_of_int (int_of_cn n)

(* P<drel>.<pending>:<op>+<op>+...   ops: l<n> n<id> s a F<n> v<n> c E y  (program whose counter effects the model computes) *)
let pop_of_string (o : string) : Lifecycle.pop =
  let arg () = cn_of_string (String.sub o 1 (String.length o - 1)) in
  match o.[0] with
  | 'l' -> Lifecycle.PLabels (arg ())
  | 'n' -> Lifecycle.PNamed (arg ())
  | 's' -> Lifecycle.PSection
  | 'a' -> Lifecycle.PAddrTab
  | 'F' -> Lifecycle.PFunc (arg ())
  | 'v' -> Lifecycle.PVreg (arg ())
  | 'c' -> Lifecycle.PConst
  | 'E' -> Lifecycle.PEndFunc
  | 'y' -> Lifecycle.PAnnot
  | _ -> failwith ("bad program op " ^ o)

let prog_step (t : string) : Lifecycle.step =
  let n = String.length t in
  let colon = String.index t ':' in
  let head = String.sub t 1 (colon - 1) and body = String.sub t (colon + 1) (n - colon - 1) in
  match String.split_on_char '.' head with
  | [dr; pend] ->
    let ops = List.filter (fun s -> s <> "") (String.split_on_char '+' body) in
    Lifecycle.SProg (List.map pop_of_string ops, cn_of_string dr, pend = "1")
  | _ -> failwith ("bad P token " ^ t)

let step_of_token (t : string) : Lifecycle.step =
  let n = String.length t in
  if n > 0 && t.[0] = 'P' then prog_step t else
  if n > 0 && t.[0] = 'G' then begin
    match String.split_on_char '.' (String.sub t 1 (n - 1)) with
    | [ds; dl; dr; dv; dj; pend] ->
      Lifecycle.SGen { Lifecycle.d_sec = cn_of_string ds; d_lab = cn_of_string dl; d_rel = cn_of_string dr;
                       d_nodes = cn_of_string "0"; d_vregs = cn_of_string dv; d_ja = cn_of_string dj;
                       d_pending = (pend = "1"); d_final = false; d_res = cn_of_string "0" }
    | _ -> failwith ("bad G token " ^ t)
  end else
    match t with
    | "RS" -> Lifecycle.SReset Lifecycle.Soft
    | "RH" -> Lifecycle.SReset Lifecycle.Hard
    | "RI" -> Lifecycle.SReinit
    | "DA" -> Lifecycle.SDetachAttach
    | "NE" -> Lifecycle.SNewEmitter
    | "NH" -> Lifecycle.SNewHolder
    | "L1" -> Lifecycle.SLogger true
    | "L0" -> Lifecycle.SLogger false
    | "EL1" -> Lifecycle.SEmLogger true
    | "EL0" -> Lifecycle.SEmLogger false
    | "V1" -> Lifecycle.SValidation true
    | "V0" -> Lifecycle.SValidation false
    | "XA" -> Lifecycle.SExtra true
    | "XD" | "XN" -> Lifecycle.SExtra false
    | "H" -> Lifecycle.SHeap (cn_of_string "0")
    | _ -> failwith ("bad token " ^ t)

let () =
  try
    while true do
      let line = input_line stdin in
      let toks = List.filter (fun s -> s <> "") (String.split_on_char ' ' (String.trim line)) in
      match toks with
      | id :: steps ->
        let tr = Lifecycle.trace (List.map step_of_token steps) Lifecycle.state0 in
        let lines = List.map (fun obs -> String.concat "/" (List.map string_of_cn obs)) tr in
        print_endline ("S " ^ id ^ " " ^ String.concat " " lines)
      | [] -> ()
    done
  with End_of_file -> ()

(* C14 model driver: consumes the "N"/"C" lines of harness/c14_harness.cpp (command + the encoder verdict of an instruction)
   and prints what the extracted Coq model (EmitStateModel.step) predicts: outcome and state after every call. *)
open Zconv
module M = Emitstate

let zi = cz_of_int
let zs = cz_of_string
let sz = string_of_cz

let split s = List.filter (fun x -> x <> "") (String.split_on_char ' ' (String.trim s))

let field (toks : string list) (key : string) : string =
  let kl = String.length key in
  let rec go = function
    | [] -> failwith ("missing field " ^ key)
    | t :: r -> if String.length t > kl && String.sub t 0 kl = key && t.[kl] = '=' then String.sub t (kl + 1) (String.length t - kl - 1) else go r in
  go toks

let snap (fl : M.flavour) (s : M.state) : string =
  let sizes = String.concat "," (List.map sz s.M.st_sizes) in
  let lab = match s.M.st_labels with
    | [] -> "-"
    | l -> String.concat "," (List.map (function
        | M.LUnbound p -> (match fl with M.FAssembler -> "u" ^ string_of_int (List.length p)
                                          | _ -> "u0" (* Builder/Compiler: the list only carries the "LabelNode is active" mark *))
        | M.LBound (sec, off) -> "b:" ^ sz sec ^ ":" ^ sz off) l) in
  let o = s.M.st_one in
  Printf.sprintf "cur=%s sz=%s lab=%s fix=%s rel=%s adr=%s nod=%s one=%s:%s:%s:%d"
    (sz s.M.st_cur) sizes lab (sz s.M.st_fixups) (sz s.M.st_relocs) (sz s.M.st_addrs) (sz s.M.st_nodes)
    (sz o.M.os_options) (sz o.M.os_extra_sig) (sz o.M.os_extra_id) (if o.M.os_comment then 1 else 0)

let bind_atomic = ref false
let has_base = ref false

let relkind (k : string) (disp : string) (rid : string) : M.relkind =
  let r = int_of_string rid in
  let rok = r < 31 || r = 63 in     (* check_gp_id(o0, kZR) *)
  match k with
  | "0" -> M.X86Jmp | "1" -> M.X86Jcc | "2" -> M.X86Call | "3" -> M.X86Lea (false, zs disp) | "4" -> M.X86Lea (true, zs disp)
  | "5" | "6" -> M.A64Rel (zi 26, zi 2, true) | "7" -> M.A64Rel (zi 19, zi 2, true)
  | "8" | "11" -> M.A64Rel (zi 19, zi 2, rok) | "9" -> M.A64Rel (zi 14, zi 2, rok)
  | "10" -> M.A64Rel (zi 21, zi 0, rok)
  | _ -> failwith "relkind"

let parse_cmd (ar : M.arch) (st : M.state) (t : string list) : M.cmd =
  match t with
  | ["J"; k; id; disp; rid] -> M.rel_cmd ar st (relkind k disp rid) (zs id)
  | ["V"; instid; vt; dst; mask; dsize; bt; bid; it; iid; sh; seg; addr; size; off] ->
    (match M.vsib_cmd ar (zs instid) { M.v_type = zs vt; v_dst = zs dst; v_mask = zs mask; v_dsize = zs dsize;
                                         v_mem = { M.m_dst = zi 0; m_btype = zs bt; m_bid = zs bid; m_itype = zs it; m_iid = zs iid; m_shift = zs sh;
                                                   m_seg = zs seg; m_addr = zs addr; m_size = zs size; m_off = zs off } } with
     | Some c -> c
     | None -> failwith "vsib path: stuck or unsupported form")
  | ["K"; addid; dst; bt; bid; it; iid; sh; seg; addr; size; off] ->
    (match M.mem_cmd ar !has_base st (zs addid) { M.m_dst = zs dst; m_btype = zs bt; m_bid = zs bid; m_itype = zs it; m_iid = zs iid; m_shift = zs sh;
                                       m_seg = zs seg; m_addr = zs addr; m_size = zs size; m_off = zs off } with
     | Some c -> c
     | None -> failwith "mem path: stuck or unsupported form")
  | ["O"; o] -> M.CSetOptions (zs o)
  | ["X"; a; b] -> M.CSetExtra (zs a, zs b)
  | ["M"] -> M.CSetComment
  | ["RS"] -> M.CResetState
  | ["I"; "ok"; nb; fixl; linked; dr; da; ds; foff; frel; fbits; fdis] ->
    M.CInst (M.EncOk (zs nb, (if fixl = "-1" then None else Some { M.fr_label = zs fixl; fr_offset = zs foff; fr_rel = zs frel; fr_bits = zs fbits; fr_discard = zs fdis }),
                      linked = "1", zs dr, zs da, zs ds))
  | ["I"; "err"; e] -> M.CInst (M.EncErr (zs e))
  | ["L"] -> M.CNewLabel
  | ["NL"; nl; ty; pa; dup] -> M.CNewNamedLabel (zs nl, zs ty, zs pa, dup = "1")
  | ["B"; id; pf] -> M.CBindAtomic (zs id, zs pf)   (* the count of unpatchable fixups is computed by the model; pf (the code's own count) is ignored *)
  | ["A"; m; n] -> M.CAlign (zs m, zs n)
  | ["E"; n] -> M.CEmbed (zs n)
  | ["EL"; id; s] -> M.CEmbedLabel (zs id, zs s)
  | ["PP"; is_pop; instid; id] ->
    (match M.pushpop_cmd ar (is_pop = "1") (zs instid) (zs id) with Some c -> c | None -> failwith "push/pop path: stuck")
  | ["LS"; instid; rt; rid; bt; bid; it; iid; sop; sh; mode; off] ->
    (match M.a64_ldst_cmd (zs instid) { M.a_rtype = zs rt; a_rid = zs rid; a_btype = zs bt; a_bid = zs bid; a_itype = zs it; a_iid = zs iid;
                                         a_shiftop = zs sop; a_shift = zs sh; a_mode = zs mode; a_off = zs off } with
     | Some c -> c
     | None -> failwith "a64 load/store path: stuck or unsupported form")
  | ["SH"; instid; rt; rid; size; imm] ->
    (match M.shift_cmd ar st (zs instid) { M.s_rtype = zs rt; s_rid = zs rid; s_size = zs size; s_imm = zs imm } with
     | Some c -> c
     | None -> failwith "shift path: stuck or unsupported form")
  | ["V2"; instid; vt; dst; dsize; bt; bid; it; iid; sh; seg; addr; size; off] ->
    (match M.vsib2_cmd ar st (zs instid) { M.v_type = zs vt; v_dst = zs dst; v_mask = zi 0; v_dsize = zs dsize;
                                            v_mem = { M.m_dst = zi 0; m_btype = zs bt; m_bid = zs bid; m_itype = zs it; m_iid = zs iid; m_shift = zs sh;
                                                      m_seg = zs seg; m_addr = zs addr; m_size = zs size; m_off = zs off } } with
     | Some c -> c
     | None -> failwith "evex vsib path: stuck or unsupported form")
  | ["LP"; instid; rt0; rid0; rt1; rid1; bt; bid; it; mode; off] ->
    (match M.a64_ldp_cmd (zs instid) { M.p_rtype0 = zs rt0; p_rid0 = zs rid0; p_rtype1 = zs rt1; p_rid1 = zs rid1; p_btype = zs bt; p_bid = zs bid;
                                        p_itype = zs it; p_mode = zs mode; p_off = zs off } with
     | Some c -> c
     | None -> failwith "a64 load/store pair path: stuck or unsupported form")
  | ["MV"; instid; store; rt; rid; rsize; bt; bid; it; iid; sh; seg; addr; size; off] ->
    (match M.mov_cmd ar !has_base st (zs instid) { M.mv_rtype = zs rt; mv_rsize = zs rsize; mv_store = (store = "1");
                                                   mv_mem = { M.m_dst = zs rid; m_btype = zs bt; m_bid = zs bid; m_itype = zs it; m_iid = zs iid; m_shift = zs sh;
                                                              m_seg = zs seg; m_addr = zs addr; m_size = zs size; m_off = zs off } } with
     | Some c -> c
     | None -> failwith "mov path: stuck or unsupported form")
  | ["LV"; instid; rt; rid; et; ei; bt; bid; it; iid; sop; sh; mode; off] ->
    (match M.a64_simd_ldst_cmd (zs instid) { M.av_et = zs et; av_ei = (ei = "1");
                                              av_mem = { M.a_rtype = zs rt; a_rid = zs rid; a_btype = zs bt; a_bid = zs bid; a_itype = zs it; a_iid = zs iid;
                                                         a_shiftop = zs sop; a_shift = zs sh; a_mode = zs mode; a_off = zs off } } with
     | Some c -> c
     | None -> failwith "a64 simd load/store path: stuck or unsupported form")
  | ["VR"; instid; t0; d; t1; s1; t2; s2; size] ->
    (match M.vrrr_cmd ar st (zs instid) { M.vr_t0 = zs t0; vr_d = zs d; vr_t1 = zs t1; vr_s1 = zs s1; vr_t2 = zs t2; vr_s2 = zs s2; vr_size = zs size } with
     | Some c -> c
     | None -> failwith "vex/evex register path: stuck or unsupported form")
  | ["CP"; id; size; align] -> M.CEmbedConstPool (zs id, zs size, zs align)
  | ["ELD"; id; b; s] -> M.CEmbedLabelDelta (zs id, zs b, zs s)
  | ["S"; id; f] -> M.CSection (zs id, f = "1")
  | ["NS"; a; nl] -> M.CNewSection (zs a, zs nl)
  | _ -> failwith ("bad command: " ^ String.concat " " t)

let () =
  let fl = ref M.FAssembler and ar = ref M.X86_32 and h = ref M.HNone in
  let st = ref M.init_state in
  try
    while true do
      let line = input_line stdin in
      if String.length line > 1 && line.[0] = 'T' then
        print_endline ("T " ^ String.concat " " (List.map sz (M.model_constants @ M.path_constants @ M.mem_path_constants @ M.a64_path_constants @ M.a64_simd_constants)))
      else if String.length line > 1 && line.[0] = 'P' then begin
        bind_atomic := (field (split line) "bind_atomic" = "1");
        print_endline line
      end
      else if String.length line > 1 && line.[0] = 'N' then begin
        let t = split line in
        fl := (match field t "fl" with "0" -> M.FAssembler | "1" -> M.FBuilder | _ -> M.FCompiler);
        ar := (match field t "arch" with "0" -> M.X86_32 | "1" -> M.X86_64 | _ -> M.A64);
        h := (match field t "h" with "0" -> M.HNone | "1" -> M.HReturn | "2" -> M.HRecord | _ -> M.HThrow);
        let i = M.init_state in
        has_base := (field t "abs" = "1");
        let labs = field t "lab" in
        let nlab = if labs = "-" then 0 else List.length (String.split_on_char ',' labs) in
        st := { i with M.st_nodes = zs (field t "nod"); M.st_labels = List.init nlab (fun _ -> M.LUnbound (if field t "fm" = "1" then M.node_active_mark else [])) };   (* the labels a session starts with are the function's entry/exit labels: their nodes are in the list *)
        print_endline ("S " ^ snap !fl !st)
      end
      else if String.length line > 1 && line.[0] = 'C' then begin
        let body = String.sub line 1 (String.length line - 1) in
        let cmdpart = List.hd (String.split_on_char '|' body) in
        let c = parse_cmd !ar !st (split cmdpart) in
        let (s', o) = M.step !fl !ar !h !st c in
        st := s';
        let calls = o.M.o_calls in
        let herr = match List.rev calls with [] -> "0" | e :: _ -> sz e in
        let fp = M.footprint_of !fl c in
        let bit x = if x then "1" else "0" in
        Printf.printf "R %s %d %s %d | S %s | F %s%s%s%s%s%s%s\n" (sz o.M.o_ret) (List.length calls) herr (if o.M.o_thrown then 1 else 0) (snap !fl s')
          (bit fp.M.fp_sizes) (bit fp.M.fp_cur) (bit fp.M.fp_labels) (bit fp.M.fp_fixups) (bit fp.M.fp_relocs) (bit fp.M.fp_addrs) (bit fp.M.fp_nodes)
      end
      else print_endline "?"
    done
  with End_of_file -> ()

(* C08 model driver: reads the program text of harness/c08_harness.cpp and prints, for every builder command, the line
   "p<idx> STEP <i> <err> <hash of canonical dump>" computed by the extracted Coq model (Builder.step); "-v" adds the dump itself
   ("STEPV"), "-consts" prints the model's constants for the translator-style tie. *)
open Zconv

let hmask = (1 lsl 62) - 1
let hmix h x = ((h * 1000003) lxor (x land hmask)) land hmask
let hash_str (s : string) = let h = ref 0 in String.iter (fun c -> h := hmix !h (Char.code c)) s; !h

let rec nat_of_int (i : int) : Builder.nat = if i <= 0 then Builder.O else Builder.S (nat_of_int (i - 1))
let rec int_of_nat (n : Builder.nat) : int = match n with Builder.O -> 0 | Builder.S k -> 1 + int_of_nat k
let zs (z : Builder.z) = string_of_cz z

let hexdigit = "0123456789abcdef"
let hex_of (l : Builder.z list) : string =
  if l = [] then "=" else begin
    let b = Buffer.create 16 in
    List.iter (fun z -> let v = Z.to_int (z_of_cz z) in Buffer.add_char b hexdigit.[v lsr 4]; Buffer.add_char b hexdigit.[v land 15]) l;
    Buffer.contents b end
let unhex (s : string) : Builder.z list =
  if s = "=" || s = "-" then [] else begin
    let n = String.length s / 2 in
    List.init n (fun i -> cz_of_int (int_of_string ("0x" ^ String.sub s (2 * i) 2))) end

let comment_str = function None -> "-" | Some c -> "c" ^ hex_of c

let node_str (n : Builder.node) : string =
  let k = match n.Builder.n_kind with
    | Builder.NInst (id, opts, es, ei, opc, ops) ->
      "I " ^ zs id ^ " " ^ zs opts ^ " " ^ zs es ^ " " ^ zs ei ^ " " ^ string_of_int (int_of_nat opc) ^ " " ^ string_of_int (List.length ops) ^
      String.concat "" (List.map (fun (o : Builder.operand) -> " " ^ zs o.Builder.o_sig ^ " " ^ zs o.Builder.o_id ^ " " ^ zs o.Builder.o_d0 ^ " " ^ zs o.Builder.o_d1) ops)
    | Builder.NSection s -> "S " ^ zs s
    | Builder.NLabel l -> "L " ^ zs l
    | Builder.NAlign (m, a) -> "A " ^ zs m ^ " " ^ zs a
    | Builder.NData (ty, ts, cnt, rep, d) -> "D " ^ zs ty ^ " " ^ zs ts ^ " " ^ zs cnt ^ " " ^ zs rep ^ " " ^ hex_of d
    | Builder.NEmbedLabel (l, sz) -> "EL " ^ zs l ^ " " ^ zs sz
    | Builder.NEmbedDelta (l, b, sz) -> "ED " ^ zs l ^ " " ^ zs b ^ " " ^ zs sz
    | Builder.NComment -> "C"
    | Builder.NConstPool (l, al, d) -> "CPN " ^ zs l ^ " " ^ zs al ^ " " ^ hex_of d
    | Builder.NSentinel ty -> "SN " ^ zs ty
    | Builder.NFunc (l, ex) -> "FUNC " ^ zs l ^ " " ^ zs ex
    | Builder.NFuncEnd _ -> "SN " ^ zs Builder.kSentinelFuncEnd
    | Builder.NFuncRet -> "FRET"
    | Builder.NJump (id, opts, es, ei, o, ann) ->
      "J " ^ zs id ^ " " ^ zs opts ^ " " ^ zs es ^ " " ^ zs ei ^ " 1 3 " ^ zs o.Builder.o_sig ^ " " ^ zs o.Builder.o_id ^ " " ^ zs o.Builder.o_d0 ^ " " ^ zs o.Builder.o_d1 ^
      " 0 0 0 0 0 0 0 0 ann=" ^ zs ann
    | Builder.NInvoke (id, opts, es, ei, o) ->
      "INV " ^ zs id ^ " " ^ zs opts ^ " " ^ zs es ^ " " ^ zs ei ^ " 1 3 " ^ zs o.Builder.o_sig ^ " " ^ zs o.Builder.o_id ^ " " ^ zs o.Builder.o_d0 ^ " " ^ zs o.Builder.o_d1 ^
      " 0 0 0 0 0 0 0 0" in
  k ^ " " ^ comment_str n.Builder.n_comment

let dump (b : Builder.bstate) : string =
  let cur = match b.Builder.cursor with None -> -1 | Some i -> int_of_nat i in
  let ns = Z.to_int (z_of_cz b.Builder.nsections) in
  let links = String.concat "," (List.init ns (fun i ->
    match Builder.lookup (cz_of_int i) b.Builder.links with Some (Some t) -> zs t | _ -> "-1")) in
  let buf = Buffer.create 256 in
  Buffer.add_string buf ("cur=" ^ string_of_int cur ^ " dirty=" ^ (if b.Builder.dirty then "1" else "0") ^ " links=" ^ links ^ " last=ok pend=" ^ zs b.Builder.p_opts ^ "," ^ zs b.Builder.p_exsig ^ "," ^ zs b.Builder.p_exid ^ "," ^ comment_str b.Builder.p_comment ^ " |");
  List.iter (fun n -> Buffer.add_string buf (" " ^ node_str n ^ " ;")) b.Builder.active;
  Buffer.add_string buf " ||";
  List.iter (fun n -> Buffer.add_string buf (" " ^ node_str n ^ " ;")) b.Builder.pool;
  Buffer.contents buf

let num (s : string) : Builder.z = cz_of_string s
let mkop a at = { Builder.o_sig = num a.(at); o_id = num a.(at + 1); o_d0 = num a.(at + 2); o_d1 = num a.(at + 3) }
let op_none = { Builder.o_sig = cz_of_int 0; o_id = cz_of_int 0; o_d0 = cz_of_int 0; o_d1 = cz_of_int 0 }

let cmd_of (st : Builder.bstate) (t : string array) : Builder.cmd option =
  let a i = t.(i + 1) in
  let n i = num (a i) in
  let ni i = nat_of_int (int_of_string (a i)) in
  match t.(0) with
  | "NL" -> Some Builder.CNewLabel
  | "NS" -> Some Builder.CNewSection
  | "SO" -> Some (Builder.CSetOptions (n 0))
  | "AO" -> Some (Builder.CAddOptions (n 0))
  | "SX" -> Some (Builder.CSetExtra (n 0, n 1))
  | "SC" -> Some (Builder.CSetComment (if a 0 = "-" then None else Some (unhex (a 0))))
  | "I" ->
    let cnt = int_of_string (a 1) in
    let op i = if i < cnt then mkop t (3 + 4 * i) else op_none in
    Some (Builder.CEmit (n 0, op 0, op 1, op 2, op 3, op 4, op 5))
  | "IR" -> Some (Builder.CEmitRejected (n 0))
  | "B" -> Some (Builder.CBind (n 0))
  | "A" -> Some (Builder.CAlign (n 0, n 1))
  | "E" -> Some (Builder.CEmbed (unhex (a 0)))
  | "EA" -> Some (Builder.CEmbedArray (n 0, n 1, n 2, unhex (a 3)))
  | "EL" -> Some (Builder.CEmbedLabel (n 0, n 1))
  | "ED" -> Some (Builder.CEmbedDelta (n 0, n 1, n 2))
  | "CP" -> Some (Builder.CConstPool (n 0, n 1, unhex (a 3)))
  | "CM" -> Some (Builder.CComment (unhex (a 0)))
  | "CPN" -> Some (Builder.CConstPoolNode (st.Builder.nlabels, n 0, unhex (a 2)))     (* the node registers the next label id *)
  | "SN" -> Some (Builder.CSentinel (n 0))
  | "FN" -> Some Builder.CFunc
  | "FR" -> Some Builder.CFuncRet
  | "FE" -> Some Builder.CEndFunc
  | "NC" -> Some (Builder.CNewConst (n 0, unhex (a 1)))
  | "JA" -> Some Builder.CJumpAnn
  | "IJ" -> Some (Builder.CJump (n 0, mkop t 3, n 1))
  | "IV" -> Some (Builder.CInvoke (n 0, mkop t 3))
  | "S" -> Some (Builder.CSection (n 0))
  | "SCUR" -> let i = int_of_string (a 0) in Some (Builder.CSetCursor (if i < 0 then None else Some (nat_of_int i)))
  | "RM" -> Some (Builder.CRemove (ni 0))
  | "RMR" -> Some (Builder.CRemoveRange (ni 0, ni 1))
  | "RMP" -> Some (Builder.CRemovePool (ni 0))
  | "AA" -> Some (Builder.CAddAfter (ni 0, ni 1))
  | "AB" -> Some (Builder.CAddBefore (ni 0, ni 1))
  | "AN" -> Some (Builder.CAddNode (ni 0))
  | "USL" -> Some Builder.CUpdateLinks
  | _ -> None

let consts () =
  Printf.printf "ERR InvalidArgument %s\nERR InvalidLabel %s\nERR InvalidSection %s\nERR LabelAlreadyBound %s\nERR InvalidOperandSize %s\n" (zs Builder.kInvalidArgument) (zs Builder.kInvalidLabel) (zs Builder.kInvalidSection) (zs Builder.kLabelAlreadyBound) (zs Builder.kInvalidOperandSize);
  Printf.printf "ERR InvalidState %s\n" (zs Builder.kInvalidState);
  Printf.printf "OPT Reserved %s\nALIGN data %s\n" (zs Builder.kOptReserved) (zs Builder.kAlignData);
  Printf.printf "MAXOPS %d %d %d\n" (int_of_nat Builder.kFullOpCapacity) (int_of_nat Builder.kBaseOpCapacity) (int_of_nat Builder.kFullOpCapacity);
  List.iter (fun rs ->
    Printf.printf "TYPES %d" rs;
    for t = 0 to 255 do
      match Builder.final_type_size (cz_of_int t) (cz_of_int rs) with Some s -> Printf.printf " %s" (zs s) | None -> Printf.printf " -1"
    done;
    print_newline ()) [4; 8]

(* the model's operand-count rule on all 64 used/empty patterns of the six slots (bit i of the pattern = slot i used) *)
let opcount () =
  let used = { Builder.o_sig = cz_of_int 1; o_id = cz_of_int 0; o_d0 = cz_of_int 0; o_d1 = cz_of_int 0 } in
  for pat = 0 to 63 do
    let o i = if (pat lsr i) land 1 = 1 then used else op_none in
    let n = Builder.op_count (o 0) (o 1) (o 2) (o 3) (o 4) (o 5) in
    Printf.printf "OPCOUNT %d %d %d\n" pat (int_of_nat n) (int_of_nat (Builder.capacity_of n))
  done

(* X86Dec.dec_x86 on operands given as four raw words per line, printed in the token language of the harness' `dec` mode *)
let dec () =
  try
    while true do
      let line = input_line stdin in
      let t = Array.of_list (List.filter (fun s -> s <> "") (String.split_on_char ' ' (String.trim line))) in
      if Array.length t >= 4 then begin
        match Builder.dec_x86 (mkop t 0) with
        | Builder.ONone -> print_endline "N"
        | Builder.OReg (rt, id) -> Printf.printf "R %s %s\n" (string_of_cn rt) (string_of_cn id)
        | Builder.OMem (sz, bt, bid, it, iid, off, seg, bc, home) ->
          Printf.printf "M %s %s %s %s %s %s %s %s %d\n" (string_of_cn sz) (string_of_cn bt) (string_of_cn bid) (string_of_cn it) (string_of_cn iid)
            (string_of_cz off) (string_of_cn seg) (string_of_cn bc) (if home then 1 else 0)
        | Builder.OImm v -> Printf.printf "I %s\n" (string_of_cz v)
        | Builder.OLabel -> print_endline "L"
      end
    done
  with End_of_file -> ()

(* the emitter calls the model's serialization performs for one node of every kind (one-shot setters left out) *)
let dispatch () =
  let z = cz_of_int 0 in
  let name = function
    | Builder.CEmit _ -> "Emit" | Builder.CBind _ -> "Bind" | Builder.CAlign _ -> "Align" | Builder.CEmbedArray _ -> "EmbedArray" | Builder.CEmbed _ -> "Embed"
    | Builder.CEmbedLabel _ -> "EmbedLabel" | Builder.CEmbedDelta _ -> "EmbedDelta" | Builder.CConstPool _ -> "ConstPool" | Builder.CComment _ -> "Comment"
    | Builder.CSection _ -> "Section" | Builder.CSetComment _ | Builder.CSetOptions _ | Builder.CSetExtra _ -> "" | _ -> "Other" in
  let kinds = [
    "inst", Builder.NInst (z, z, z, z, nat_of_int 0, []); "section", Builder.NSection z; "label", Builder.NLabel z; "align", Builder.NAlign (z, z);
    "data", Builder.NData (z, z, z, z, []); "embedlabel", Builder.NEmbedLabel (z, z); "embeddelta", Builder.NEmbedDelta (z, z, z); "comment", Builder.NComment;
    "constpool", Builder.NConstPool (z, z, []); "sentinel", Builder.NSentinel z; "func", Builder.NFunc (z, z); "funcend", Builder.NFuncEnd z;
    "funcret", Builder.NFuncRet; "jump", Builder.NJump (z, z, z, z, op_none, z); "invoke", Builder.NInvoke (z, z, z, z, op_none) ] in
  List.iter (fun (nm, k) ->
    let cs = Builder.replay_node { Builder.n_kind = k; n_comment = None } in
    let first_setter = (match cs with Builder.CSetComment _ :: _ -> "1" | _ -> "0") in
    Printf.printf "DISPATCH %s %s %s\n" nm first_setter (String.concat "," (List.filter (fun s -> s <> "") (List.map name cs)))) kinds

let () =
  let verbose = Array.exists (fun s -> s = "-v") Sys.argv in
  if Array.exists (fun s -> s = "-dispatch") Sys.argv then (dispatch (); exit 0);
  if Array.exists (fun s -> s = "-dec") Sys.argv then (dec (); exit 0);
  if Array.exists (fun s -> s = "-consts") Sys.argv then (consts (); exit 0);
  if Array.exists (fun s -> s = "-opcount") Sys.argv then (opcount (); exit 0);
  let st = ref (Builder.init_state (cz_of_int 8)) and pidx = ref (-1) and step = ref 0 and active = ref false and in_ref = ref false in
  let validate = ref false and x64 = ref true in
  let errs : (int, bool) Hashtbl.t = Hashtbl.create 64 in      (* command index -> rejected by the model *)
  let refcmds = ref [] in
  try
    while true do
      let line = input_line stdin in
      let toks = Array.of_list (List.filter (fun s -> s <> "") (String.split_on_char ' ' (String.trim line))) in
      if Array.length toks > 0 then begin
        match toks.(0) with
        | "P" ->
          pidx := int_of_string toks.(1);
          st := Builder.init_state (cz_of_int (if toks.(2) = "0" then 4 else 8));
          (* x86 programs under strict validation: the verdict of every _emit is computed by C13's validator model over the generated tables *)
          validate := (toks.(2) <> "2") && (Array.length toks > 5) && ((int_of_string toks.(5)) land 4 <> 0);
          x64 := (toks.(2) = "1");
          step := 0; active := true; in_ref := false; Hashtbl.reset errs; refcmds := []
        | "X" -> in_ref := true
        | "END" ->
          if !active then begin
            Printf.printf "p%d DUMP %s\n" !pidx (dump !st);
            (* the oracle's reference sequence (X part) against the proven model: both are normalised by the model's own [trace] *)
            if !in_ref && !refcmds <> [] then begin
              let t1 = Builder.trace (Builder.replay !st) and t2 = Builder.trace (List.rev !refcmds) in
              if t1 = t2 then Printf.printf "p%d REFTRACE ok %d\n" !pidx (List.length t1)
              else begin
                let rec first i a b = match a, b with
                  | x :: a', y :: b' -> if x = y then first (i + 1) a' b' else i
                  | _ -> i in
                Printf.printf "p%d REFTRACE DIFF %d %d %d\n" !pidx (first 0 t1 t2) (List.length t1) (List.length t2)
              end
            end
          end;
          active := false
        | _ when !active && !in_ref ->
          (* "@<origin> cmd ..." : skipped when the origin command was rejected at record time (the harness does the same) *)
          let origin = int_of_string (String.sub toks.(0) 1 (String.length toks.(0) - 1)) in
          if not (Hashtbl.mem errs origin) then
            (match cmd_of !st (Array.sub toks 1 (Array.length toks - 1)) with
             | Some c -> refcmds := c :: !refcmds
             | None -> ())
        | _ when !active && not !in_ref ->
          (match cmd_of !st toks with
           | Some c ->
             (* strict validation on x86: the proven function X86Dec.emit_validated_x86 decides (C13's validate over the generated tables) *)
             let (b, e) = match c with
               | Builder.CEmit (id, o0, o1, o2, o3, o4, o5) when !validate ->
                 let (b, e) = Builder.emit_validated_x86 Builder.x86_vtables !x64 false !st id o0 o1 o2 o3 o4 o5 in
                 Printf.printf "p%d VERDICT %d %s\n" !pidx !step (zs e);
                 (b, e)
               | _ -> Builder.step !st c in
             st := b;
             if z_of_cz e <> Z.zero then Hashtbl.replace errs !step true;
             let d = dump b in
             if verbose then Printf.printf "p%d STEPV %d %s %s\n" !pidx !step (zs e) d;
             Printf.printf "p%d STEP %d %s %d\n" !pidx !step (zs e) (hash_str d)
           | None -> Printf.printf "p%d STEP %d BADCMD 0\n" !pidx !step);
          incr step
        | _ -> ()
      end
    done
  with End_of_file -> ()

(* C19 model driver: same line protocol as harness/c19_harness.cpp, answers computed by the extracted Coq model.
     N | R            new pool / reset          -> "N" / "R"
     A <size> <hex>   add                       -> "A ok <offset>" | "A err InvalidArgument"
     Q                accessors                 -> "Q <size> <alignment> <min_item_size>"
     F                fill                      -> "F <hex>"
     E <mode> <pre>   embed through an emitter  -> "E <hex>"   (the model only knows the pool image) *)
open Zconv

let hexdigit c = match c with
  | '0'..'9' -> Char.code c - 48 | 'a'..'f' -> Char.code c - 87 | 'A'..'F' -> Char.code c - 55 | _ -> failwith "hex"

let bytes_of_hex (s : string) =
  let n = String.length s / 2 in
  let rec go i acc = if i < 0 then acc else go (i - 1) (cz_of_int (hexdigit s.[2*i] * 16 + hexdigit s.[2*i+1]) :: acc) in
  go (n - 1) []

let hex_of_bytes (l : Constpool.z list) =
  let b = Buffer.create 64 in
  List.iter (fun z -> Buffer.add_string b (Printf.sprintf "%02x" (Z.to_int (z_of_cz z)))) l;
  Buffer.contents b

let () =
  let pool = ref Constpool.cp_init in
  try
    while true do
      let line = input_line stdin in
      let toks = List.filter (fun s -> s <> "") (String.split_on_char ' ' (String.trim line)) in
      match toks with
      | "N" :: _ -> pool := Constpool.cp_init; print_endline "N"
      | "R" :: _ -> pool := Constpool.cp_init; print_endline "R"
      | "A" :: size :: rest ->
        let data = match rest with h :: _ when h <> "-" -> bytes_of_hex h | _ -> [] in
        let (p, r) = Constpool.cp_add !pool data (cz_of_string size) in
        pool := p;
        (match r with
         | Constpool.Ok off -> Printf.printf "A ok %s\n" (string_of_cz off)
         | Constpool.InvalidArgument -> print_endline "A err InvalidArgument")
      | "Q" :: _ ->
        Printf.printf "Q %s %s %s\n" (string_of_cz (Constpool.psize !pool)) (string_of_cz (Constpool.palign !pool))
          (string_of_cz (Constpool.pmin !pool))
      | "F" :: _ -> Printf.printf "F %s\n" (hex_of_bytes (Constpool.cp_fill !pool))
      | "E" :: _ -> Printf.printf "E %s\n" (hex_of_bytes (Constpool.cp_fill !pool))
      | [] -> ()
      | _ -> print_endline "BAD"
    done
  with End_of_file -> ()

(* C19 model driver: same line protocol as harness/c19_harness.cpp, answers computed by the extracted Coq model.
     N | R            new pool / reset          -> "N" / "R"
     A <size> <hex>   add                       -> "A ok <offset>" | "A err InvalidArgument"
     Q                accessors                 -> "Q <size> <alignment> <min_item_size>"
     F                fill                      -> "F <hex>"
     E <mode> <pre>   embed through an emitter  -> "E <hex> <label offset> <section size>" by embed_layout (C19_embed_layout);
                                                  mode 5 (pool behind a compiled function of unknown length): "E <hex>"
     X <mode>         execute on the host       -> "X <hex>"   (what reading size bytes at each returned offset of the model's
                                                                image gives, constants in history order)
     S                coverage counters         -> "S <gaps lost by the pop-several quirk (DESIGN 7.12) in this history> <adds that re-used a gap>"
                                                  (model only: the harness answers "S")
   Judge stream (the extracted, proven-sound ConstPoolJudge.judge applied to answers of the IMPLEMENTATION):
     j                          start a transcript                      -> "j"
     a <size> <hex|-> ok <off>  |  a <size> <hex|-> err                 -> "a"
     J <image hex|-> <size()> <alignment()> <min_item_size()>           -> "J 1" (accepted) | "J 0" (rejected) *)
open Zconv

let hexdigit c = match c with
  | '0'..'9' -> Char.code c - 48 | 'a'..'f' -> Char.code c - 87 | 'A'..'F' -> Char.code c - 55 | _ -> failwith "hex"

let bytes_of_hex (s : string) =
  let n = String.length s / 2 in
  let rec go i acc = if i < 0 then acc else go (i - 1) (cz_of_int (hexdigit s.[2*i] * 16 + hexdigit s.[2*i+1]) :: acc) in
  go (n - 1) []

let hex_of_bytes (l : Constpool.z list) =
  let b = Buffer.create 64 in
  List.iter (fun z -> Buffer.add_string b (Printf.sprintf "%02x" (Z.to_int (z_of_cz z)))) l;
  Buffer.contents b

let () =
  let pool = ref Constpool.cp_init in
  let oks = ref [] in
  let tr = ref [] in
  let lost = ref 0 and reused = ref 0 in
  let ngaps p = List.fold_left (fun a l -> a + List.length l) 0 (Constpool.gaps p) in     (* observed transcript for the judge, most recent first *)    (* (offset, size) of the successful adds of the current history, most recent first *)
  try
    while true do
      let line = input_line stdin in
      let toks = List.filter (fun s -> s <> "") (String.split_on_char ' ' (String.trim line)) in
      match toks with
      | "N" :: _ -> pool := Constpool.cp_init; oks := []; lost := 0; reused := 0; print_endline "N"
      | "R" :: _ -> pool := Constpool.cp_init; oks := []; lost := 0; reused := 0; print_endline "R"
      | "S" :: _ -> Printf.printf "S %d %d\n" !lost !reused
      | "A" :: size :: rest ->
        let data = match rest with h :: _ when h <> "-" -> bytes_of_hex h | _ -> [] in
        let (p, r) = Constpool.cp_add !pool data (cz_of_string size) in
        (* gaps lost by the pop-several quirk: the ghost of C19_partition (ConstPoolPartition.lost_step), evaluated BEFORE the add;
           a gap was re-used iff the pool did not grow but the number of free gaps fell *)
        lost := !lost + List.length (Constpool.lost_step !pool data (cz_of_string size));
        (if Z.equal (z_of_cz (Constpool.psize p)) (z_of_cz (Constpool.psize !pool)) && ngaps !pool - ngaps p > 0 then incr reused);
        pool := p;
        (match r with
         | Constpool.Ok off -> oks := (Z.to_int (z_of_cz off), int_of_string size) :: !oks; Printf.printf "A ok %s\n" (string_of_cz off)
         | Constpool.InvalidArgument -> print_endline "A err InvalidArgument")
      | "Q" :: _ ->
        Printf.printf "Q %s %s %s\n" (string_of_cz (Constpool.psize !pool)) (string_of_cz (Constpool.palign !pool))
          (string_of_cz (Constpool.pmin !pool))
      | "F" :: _ -> Printf.printf "F %s\n" (hex_of_bytes (Constpool.cp_fill !pool))
      | "E" :: mode :: pre :: _ ->
        if mode = "5" then Printf.printf "E %s\n" (hex_of_bytes (Constpool.cp_fill !pool))
        else
          let (lab, fin) = Constpool.embed_layout (cz_of_string pre) !pool in
          if mode = "4" then
            (* logged embed: the model also predicts the item width and count of the data directives (log_layout, C19_log_layout) *)
            let (w, c) = Constpool.log_layout !pool in
            Printf.printf "E %s %s %s L%sx%s\n" (hex_of_bytes (Constpool.cp_fill !pool)) (string_of_cz lab) (string_of_cz fin) (string_of_cz w) (string_of_cz c)
          else
          Printf.printf "E %s %s %s\n" (hex_of_bytes (Constpool.cp_fill !pool)) (string_of_cz lab) (string_of_cz fin)
      | "j" :: _ -> tr := []; print_endline "j"
      | "a" :: size :: hex :: "ok" :: off :: _ ->
        tr := ((((if hex = "-" then [] else bytes_of_hex hex), cz_of_string size), Constpool.Ok (cz_of_string off))) :: !tr; print_endline "a"
      | "a" :: size :: hex :: "err" :: _ ->
        tr := ((((if hex = "-" then [] else bytes_of_hex hex), cz_of_string size), Constpool.InvalidArgument)) :: !tr; print_endline "a"
      | "J" :: img :: sz :: al :: mn :: _ ->
        let ok = Constpool.judge (List.rev !tr) (if img = "-" then [] else bytes_of_hex img) (cz_of_string sz) (cz_of_string al) (cz_of_string mn) in
        print_endline (if ok then "J 1" else "J 0")
      | "X" :: _ ->
        let img = hex_of_bytes (Constpool.cp_fill !pool) in
        let b = Buffer.create 256 in
        List.iter (fun (off, size) -> Buffer.add_string b (String.sub img (2 * off) (2 * size))) (List.rev !oks);
        Printf.printf "X %s\n" (Buffer.contents b)
      | [] -> ()
      | _ -> print_endline "BAD"
    done
  with End_of_file -> ()

(* C12 model driver: same line protocol as harness/c12_harness.cpp (part before " ## "), answers computed by the extracted Coq
   model RwModel.query_rw_info over the extracted tables. *)
open Zconv

let n_of_int i = cn_of_z (Z.of_int i)
let s = string_of_cn

let parse_op (t : string) : Rwinfo.operand =
  let body = String.sub t 1 (String.length t - 1) in
  match t.[0] with
  | 'r' -> (match String.split_on_char ':' body with
            | [a; b] -> Rwinfo.OReg (cn_of_string a, cn_of_string b) | _ -> failwith "reg")
  | 'm' -> (match String.split_on_char ':' body with
            | [a; b; c] -> Rwinfo.OMem (cn_of_string a, cn_of_string b, cn_of_string c) | _ -> failwith "mem")
  | 'i' -> Rwinfo.OImm (cz_of_string body)
  | 'l' -> Rwinfo.OLabel
  | 'n' -> Rwinfo.ONone
  | _ -> failwith "operand"

let parse_a64_op (t : string) : Rwinfo.a64_operand =
  let parts = String.split_on_char ':' t in
  match t.[0], parts with
  | ('v' | 'x' | 'w' | 's'), _ -> Rwinfo.AReg None
  | 'e', [k; _; idx] ->
    let et = (match k.[1] with 'b' -> 1 | 'h' -> 2 | 's' -> 3 | 'd' -> 4 | 'q' -> 5 | 'p' -> 6 | _ -> failwith "elem") in
    Rwinfo.AReg (Some (n_of_int et, cn_of_string idx))
  | 'm', (_ :: _ :: mode :: rest) ->
    let mode = int_of_string mode in
    let off = (match rest with o :: _ -> int_of_string o | [] -> 16) in
    Rwinfo.AMem (true, (mode = 1 || mode = 5), ((mode = 2 || mode = 3 || mode = 4) && off <> 0), (mode = 1 || mode = 2 || mode = 3))
  | 'i', _ -> Rwinfo.AImm
  | 'n', _ -> Rwinfo.ANone
  | _ -> failwith "a64 operand"

let fmt_op (o : Rwinfo.op_rw) =
  Printf.sprintf " O %s,%s,%s,%s,%s,%s,%s" (s o.Rwinfo.o_flags) (s o.Rwinfo.o_phys) (s o.Rwinfo.o_rmsize) (s o.Rwinfo.o_clc)
    (s o.Rwinfo.o_r) (s o.Rwinfo.o_w) (s o.Rwinfo.o_e)

let () =
  try
    while true do
      let line = input_line stdin in
      let toks = List.filter (fun x -> x <> "") (String.split_on_char ' ' (String.trim line)) in
      match toks with
      | "T" :: _ ->
        let b = Buffer.create 256 in
        Buffer.add_string b "T";
        for rt = 0 to 31 do
          Buffer.add_string b (Printf.sprintf " %d:%s:%s" rt (s (Rwinfo.reg_group (n_of_int rt))) (s (Rwinfo.reg_size (n_of_int rt))))
        done;
        Buffer.add_string b (Printf.sprintf " zmask=%s er=%s movop=%s" (s Rwinfo.optZMask) (s Rwinfo.optER) (s Rwinfo.kMovOp));
        Buffer.add_string b (Printf.sprintf " R=%s W=%s RegMem=%s Consecutive=%s ZExt=%s RegPhysId=%s MemPhysId=%s MemBaseRead=%s MemBaseRW=%s MemIndexRead=%s MemIndexRW=%s rmPextrw=%s rmMovssMovsd=%s rmFeatureIfRMI=%s implicitZ=%s idBad=%s"
          (s Rwinfo.fR) (s Rwinfo.fW) (s Rwinfo.fRegM) (s Rwinfo.fConsecutive) (s Rwinfo.fZExt) (s Rwinfo.fRegPhys) (s Rwinfo.fMemPhys) (s Rwinfo.fMemBaseRead)
          (s Rwinfo.fMemBaseRW) (s Rwinfo.fMemIndexRead) (s Rwinfo.fMemIndexRW) (s Rwinfo.rmFlagPextrw) (s Rwinfo.rmFlagMovssMovsd) (s Rwinfo.rmFlagFeatureIfRMI)
          (s Rwinfo.kImplicitZ) (s Rwinfo.kIdBad));
        print_endline (Buffer.contents b)
      | "Q" :: arch :: id :: opts :: extra :: nops :: ops ->
        (try
          let n = int_of_string nops in
          if List.length ops <> n then print_endline "Q PARSE-ERROR" else begin
            let q = { Rwinfo.q_arch64 = (arch <> "0"); q_id = cn_of_string id; q_options = cn_of_string opts;
                      q_extra_mask = (extra <> "0"); q_ops = List.map parse_op ops } in
            match Rwinfo.query_rw_info Rwinfo.x86_tables q with
            | None -> print_endline "Q 1"
            | Some out ->
              let b = Buffer.create 256 in
              Buffer.add_string b (Printf.sprintf "Q 0 %s %s %s %s X %s,%s" (s out.Rwinfo.i_flags) (s out.Rwinfo.i_rmfeat) (s out.Rwinfo.i_rf)
                                     (s out.Rwinfo.i_wf) (s out.Rwinfo.i_extra.Rwinfo.o_flags) (s out.Rwinfo.i_extra.Rwinfo.o_r));
              List.iter (fun o -> Buffer.add_string b (fmt_op o)) out.Rwinfo.i_ops;
              print_endline (Buffer.contents b)
          end
        with _ -> print_endline "Q PARSE-ERROR")
      | "F" :: arch :: id :: opts :: extra :: nops :: ops ->
        (try
          let n = int_of_string nops in
          if List.length ops <> n then print_endline "F PARSE-ERROR" else begin
            let q = { Rwinfo.q_arch64 = (arch <> "0"); q_id = cn_of_string id; q_options = cn_of_string opts;
                      q_extra_mask = (extra <> "0"); q_ops = List.map parse_op ops } in
            match Rwinfo.query_features Rwinfo.x86_tables Rwinfo.x86_feat_consts q with
            | None -> print_endline "F 1"
            | Some l ->
              let ids = List.sort_uniq compare (List.map (fun x -> Z.to_int (z_of_cn x)) l) in
              print_endline (String.concat " " ("F" :: "0" :: List.map string_of_int ids))
          end
        with _ -> print_endline "F PARSE-ERROR")
      | "A" :: id :: nops :: ops ->
        (try
          let n = int_of_string nops in
          if List.length ops <> n then print_endline "A PARSE-ERROR" else begin
            match Rwinfo.a64_query_rw_info Rwinfo.a64_tabs (cn_of_string id) (List.map parse_a64_op ops) with
            | None -> print_endline "A 1"
            | Some out ->
              let b = Buffer.create 256 in
              Buffer.add_string b (Printf.sprintf "A 0 %s %s %s %s X %s,%s" (s out.Rwinfo.i_flags) (s out.Rwinfo.i_rmfeat) (s out.Rwinfo.i_rf)
                                     (s out.Rwinfo.i_wf) (s out.Rwinfo.i_extra.Rwinfo.o_flags) (s out.Rwinfo.i_extra.Rwinfo.o_r));
              List.iter (fun o -> Buffer.add_string b (fmt_op o)) out.Rwinfo.i_ops;
              print_endline (Buffer.contents b)
          end
        with _ -> print_endline "A PARSE-ERROR")
      | _ -> print_endline "? unknown"
    done
  with End_of_file -> ()

(* C18 model driver: same line protocol as harness/c18_harness.cpp, every answer computed by the extracted Coq model
   (module Containers). The malloc oracle is "request <= limit" (argv.(1), bytes; default: unlimited), the same rule the
   address-sanitizer allocator applies to the implementation (max_allocation_size_mb). *)
open Zconv
module C = Containers

let hmask = (1 lsl 62) - 1
let hmix h x = ((h * 1000003) lxor (x land hmask)) land hmask
let hstr s = let h = ref 7 in String.iter (fun c -> h := hmix !h (Char.code c)) s; !h
let zint (z : Z.t) = Z.to_int (Z.extract z 0 62)

let limit = if Array.length Sys.argv > 1 then Z.of_string Sys.argv.(1) else Z.shift_left Z.one 80
let mok (n : C.z) : bool = Z.leq (z_of_cz n) limit

let zi (z : C.z) = Z.to_string (z_of_cz z)
let ci = cz_of_int
let cs = cz_of_string
let rec clist_of (l : 'a list) = l
let nat_to_int (n : C.nat) = let rec go n acc = match n with C.O -> acc | C.S m -> go m (acc + 1) in go n 0

let canon (p : C.addr option) = match p with None -> "null" | Some a -> zi a.C.a_blk ^ ":" ^ zi a.C.a_off

let arena_dump (a : C.arena) : string =
  let b = Buffer.create 256 in
  Buffer.add_string b "chain=";
  List.iteri (fun i (m : C.mblock) -> if i > 0 then Buffer.add_char b ','; Buffer.add_string b (zi m.C.mb_id ^ ":" ^ zi m.C.mb_size)) a.C.chain;
  let cur = match a.C.chain with [] -> 0 | _ -> nat_to_int a.C.cur in
  Buffer.add_string b (Printf.sprintf " cur=%d ptr=%s end=%s sh=%s un=%s slots=" cur (zi a.C.ptr) (zi a.C.endp) (zi a.C.cur_shift) (zi a.C.unused));
  List.iteri (fun k l -> if k > 0 then Buffer.add_char b '|';
               List.iteri (fun i p -> if i > 0 then Buffer.add_char b ','; Buffer.add_string b (canon (Some p))) l) a.C.slots;
  Buffer.add_string b " dyn=";
  List.iteri (fun i (m : C.mblock) -> if i > 0 then Buffer.add_char b ','; Buffer.add_string b (zi m.C.mb_id)) a.C.dyn;
  Buffer.add_string b (" nid=" ^ zi a.C.next_id);
  Buffer.contents b
let arena_hash a = hstr (arena_dump a)

(* ---- session *)
type session = {
  mutable arena : C.arena;
  mutable direct : (C.addr * C.z * C.z) list;   (* live reusable blocks from AR, in allocation order: addr, requested, allocated *)
  v : C.vec array;                              (* 0,1: uint32; 2: uint64; 3: 12-byte struct *)
  h : C.hash array;
  hlive : C.hnode list array; hdead : C.hnode list array;
  mutable node_seq : int;
  mutable bset : C.bitset;
  mutable bset2 : C.bitset;
  mutable dl : C.dlist; mutable labs : int list; mutable lnode_seq : int;
  mutable pool : C.addr list; mutable plive : C.addr list;
  mutable tree : C.tree; mutable tlive : (int * C.z) list; mutable tall : int list; mutable tnode_seq : int;   (* live nodes: (id, key) in insertion order *)
}
let isz k = ci (match k with 0 | 1 -> 4 | 2 -> 8 | _ -> 12)
let sess : session option ref = ref None
let strs : C.str array = [| C.str_empty; C.str_tmp (ci 200); C.str_tmp (ci 16); C.str_empty |]
let reset_strs () = strs.(0) <- C.str_empty; strs.(1) <- C.str_tmp (ci 200); strs.(2) <- C.str_tmp (ci 16); strs.(3) <- C.str_empty

let errc (e : C.verr) = match e with C.EOk -> 0 | C.EOutOfMemory -> 1 | C.EOverrun -> 9
let serrc (e : C.serr) = match e with C.SOk -> 0 | C.SOutOfMemory -> 1 | C.SInvalidArgument -> 2 | C.SOverrun -> 9

let vec_state (v : C.vec) : string =
  let items = C.vec_abs v in
  let b = Buffer.create 128 in
  Buffer.add_string b (Printf.sprintf "n=%s c=%s d=%s items=" (zi v.C.v_size) (zi v.C.v_cap) (canon v.C.v_data));
  let h = ref 7 in
  List.iteri (fun i x -> h := hmix !h (zint (z_of_cz x)); if i < 24 then (if i > 0 then Buffer.add_char b ','; Buffer.add_string b (zi x))) items;
  Buffer.add_string b (Printf.sprintf " h=%d" !h);
  Buffer.contents b

let nth_mod (l : 'a list) (j : Z.t) = let n = List.length l in let i = Z.to_int (Z.rem j (Z.of_int n)) in (i, List.nth l i)
let remove_nth l i = List.filteri (fun k _ -> k <> i) l

let vec_cmd (s : session) (k : int) (t : string list) : string =
  let v = s.v.(k) in
  let a = s.arena in
  let tb = C.vec_grow_table in
  let size = z_of_cz v.C.v_size in
  let fin ?(res = "") (((e, a'), v') : (C.verr * C.arena) * C.vec) =
    s.arena <- a'; s.v.(k) <- v'; Printf.sprintf "e=%d %s%s" (errc e) res (vec_state v') in
  match t with
  | "a" :: x :: _ -> fin (C.vec_append tb mok (isz k) a v (cs x))
  | "p" :: x :: _ -> fin (C.vec_insert tb mok (isz k) a v (ci 0) (cs x))
  | "i" :: idx :: x :: _ -> let i = Z.rem (Z.of_string idx) (Z.succ size) in fin (C.vec_insert tb mok (isz k) a v (cz_of_z i) (cs x))
  | "r" :: idx :: _ -> if Z.sign size = 0 then "skip" else
      let i = Z.rem (Z.of_string idx) size in let (e, v') = C.vec_remove_at v (cz_of_z i) in fin ((e, a), v')
  | "o" :: _ -> if Z.sign size = 0 then "skip" else
      (match C.vec_pop v with (Some x, v') -> fin ~res:(Printf.sprintf "pop=%s " (zi x)) ((C.EOk, a), v') | (None, v') -> fin ((C.EOverrun, a), v'))
  | "c" :: _ -> fin ((C.EOk, a), C.vec_clear v)
  | "t" :: n :: _ -> fin ((C.EOk, a), C.vec_truncate v (cs n))
  | "f" :: n :: _ -> let n = cs n in if Z.gt (z_of_cz n) (z_of_cz v.C.v_cap) then fin (C.vec_reserve_fit mok (isz k) a v n) else fin ((C.EOk, a), v)
  | "g" :: n :: _ -> let n = cs n in if Z.gt (z_of_cz n) (z_of_cz v.C.v_cap) then fin (C.vec_reserve_grow tb mok (isz k) a v n) else fin ((C.EOk, a), v)
  | "d" :: n :: _ -> fin (C.vec_reserve_additional tb mok (isz k) a v (cs n))
  | "zf" :: n :: _ -> fin (C.vec_resize None mok (isz k) a v (cs n))
  | "zg" :: n :: _ -> fin (C.vec_resize (Some tb) mok (isz k) a v (cs n))
  | "x" :: _ -> let (a', v') = C.vec_release (isz k) a v in fin ((C.EOk, a'), v')
  | "w" :: _ -> if k > 1 then "skip" else begin
      let o = s.v.(1 - k) in s.v.(1 - k) <- v; fin ((C.EOk, a), o) end
  | "q" :: _ -> if k > 1 then "skip" else fin (C.vec_concat tb mok (isz k) a v s.v.(1 - k))
  | "s" :: x :: _ -> let r = z_of_cz (C.vec_index_of v (cs x)) in
      let r = if Z.equal r (z_of_cz C.sIZE_MAX) then Z.minus_one else r in fin ~res:(Printf.sprintf "idx=%s " (Z.to_string r)) ((C.EOk, a), v)
  | "l" :: x :: _ -> let r = z_of_cz (C.vec_last_index_of v (cs x)) in
      let r = if Z.equal r (z_of_cz C.sIZE_MAX) then Z.minus_one else r in fin ~res:(Printf.sprintf "idx=%s " (Z.to_string r)) ((C.EOk, a), v)
  | _ -> "badop"

let unhex (h : string) : C.z list =
  if h = "-" then [] else List.init (String.length h / 2) (fun i -> ci (int_of_string ("0x" ^ String.sub h (2 * i) 2)))

let hash_state (h : C.hash) (full : bool) : string =
  let b = Buffer.create 128 in
  let hh = ref 7 in
  List.iteri (fun i bucket -> if i > 0 && full then Buffer.add_char b '|';
    hh := hmix !hh 1000000007;
    List.iteri (fun j (n : C.hnode) -> hh := hmix !hh (zint (z_of_cz n.C.hn_id)); if full then (if j > 0 then Buffer.add_char b ','; Buffer.add_string b (zi n.C.hn_id))) bucket) h.C.h_buckets;
  Printf.sprintf "n=%s count=%s grow=%s pidx=%s d=%s bh=%d%s" (zi h.C.h_size) (zi h.C.h_count) (zi h.C.h_grow) (zi h.C.h_pidx)
    (match h.C.h_data with None -> "emb" | p -> canon p) !hh (if full then " b=[" ^ Buffer.contents b ^ "]" else "")

let hash_cmd (s : session) (k : int) (t : string list) : string =
  let h = s.h.(k) in
  let small hh = Z.leq (z_of_cz hh.C.h_count) (Z.of_int 64) in
  match t with
  | "i" :: hc :: key :: _ ->
    let (r, a1) = C.alloc_oneshot mok s.arena (ci 32) in
    s.arena <- a1;
    (match r with
     | None -> "oom"
     | Some _ ->
       let n = { C.hn_id = ci s.node_seq; C.hn_hash = cs hc; C.hn_key = cs key } in
       s.node_seq <- s.node_seq + 1;
       let (a2, h') = C.hash_insert C.hash_primes mok s.arena h n in
       s.arena <- a2; s.h.(k) <- h'; s.hlive.(k) <- s.hlive.(k) @ [n];
       Printf.sprintf "ins=%s %s" (zi n.C.hn_id) (hash_state h' (small h')))
  | ("ni" | "ng" as op) :: hex :: _ ->
    (* named nodes: hash = NameHashModel.hash_name, key = name_key (C18_name_get_correct) *)
    let bytes = unhex hex in
    let hc = C.hash_name bytes in
    (match C.name_get h bytes with
     | Some n -> Printf.sprintf "%s=%s hc=%s %s" (if op = "ng" then "get" else "dup") (zi n.C.hn_id) (zi hc) (hash_state h (small h))
     | None when op = "ng" -> Printf.sprintf "get=-1 hc=%s %s" (zi hc) (hash_state h (small h))
     | None ->
       let (r, a1) = C.alloc_oneshot mok s.arena (ci 48) in
       s.arena <- a1;
       (match r with
        | None -> "oom"
        | Some _ ->
          let (r2, a2) = C.arena_dup mok s.arena bytes true in
          s.arena <- a2;
          (match r2 with
           | None when bytes <> [] -> "oom2"
           | _ ->
             let n = C.name_node (ci s.node_seq) bytes in
             s.node_seq <- s.node_seq + 1;
             let (a3, h') = C.hash_insert C.hash_primes mok s.arena h n in
             s.arena <- a3; s.h.(k) <- h'; s.hlive.(k) <- s.hlive.(k) @ [n];
             Printf.sprintf "ins=%s hc=%s %s" (zi n.C.hn_id) (zi hc) (hash_state h' (small h')))))
  | "r" :: j :: _ ->
    if s.hlive.(k) = [] then "skip" else begin
      let (i, n) = nth_mod s.hlive.(k) (Z.of_string j) in
      let (found, h') = C.hash_remove h n in
      s.h.(k) <- h'; s.hlive.(k) <- remove_nth s.hlive.(k) i; s.hdead.(k) <- s.hdead.(k) @ [n];
      Printf.sprintf "rem=%s %s" (if found then zi n.C.hn_id else "-1") (hash_state h' (small h')) end
  | "R" :: j :: _ ->
    if s.hdead.(k) = [] then "skip" else begin
      let (_, n) = nth_mod s.hdead.(k) (Z.of_string j) in
      let (found, h') = C.hash_remove h n in
      s.h.(k) <- h';
      Printf.sprintf "rem=%s %s" (if found then zi n.C.hn_id else "-1") (hash_state h' (small h')) end
  | "g" :: hc :: key :: _ ->
    let r = C.hash_get h (cs hc) (cs key) in
    Printf.sprintf "get=%s %s" (match r with Some n -> zi n.C.hn_id | None -> "-1") (hash_state h (small h))
  | "x" :: _ ->
    let (a', h') = C.hash_release s.arena h in
    s.arena <- a'; s.h.(k) <- h'; s.hlive.(k) <- []; s.hdead.(k) <- [];
    hash_state h' true
  | "h" :: idx :: _ ->
    let (a', h') = C.hash_rehash C.hash_primes mok s.arena h (cs idx) in
    s.arena <- a'; s.h.(k) <- h';
    hash_state h' (small h')
  | "d" :: _ -> hash_state h true
  | _ -> "badop"

(* ---- tree *)
let tree_state ?(agree = true) (s : session) (full : bool) : string =
  let shape = C.tree_shape s.tree in
  let h = ref 7 in
  let b = Buffer.create 64 in
  let budget = ref (if full || List.length s.tlive <= 12 then 64 else 0) in
  List.iter (fun c -> h := hmix !h (zint (z_of_cz c)); if !budget > 0 then (Buffer.add_string b (zi c ^ ","); decr budget)) shape;
  (* ok = the PROVEN state checker TreeGeneral.tree_state_ok evaluated on the model state (C18_tree_checked_state_semantics) *)
  (* every node ever handed to the tree, removed ones included: links and colour bit of its heap cell *)
  let dn = ref 7 in
  List.iter (fun id -> let nd = C.hget s.tree.C.heap (ci id) in
    dn := hmix !dn (zint (z_of_cz nd.C.t_left)); dn := hmix !dn (zint (z_of_cz nd.C.t_right)); dn := hmix !dn (if nd.C.t_red then 1 else 0)) s.tall;
  Printf.sprintf "n=%d ok=%d sh=%d dn=%d s=[%s]" (List.length s.tlive) (if C.tree_state_ok s.tree && agree then 1 else 0) !h !dn (Buffer.contents b)

let tree_cmd (s : session) (t : string list) : string =
  match t with
  | "i" :: key :: _ ->
    let k = cs key in
    if List.exists (fun (_, k') -> Z.equal (z_of_cz k') (z_of_cz k)) s.tlive then "skip" else begin
      let (r, a1) = C.alloc_oneshot mok s.arena (ci 32) in
      s.arena <- a1;
      match r with
      | None -> "oom"
      | Some _ ->
        let id = s.tnode_seq in
        s.tnode_seq <- id + 1;
        (* the heap model and the proven abstract insertion give the same tree (a theorem: C18_tree_insert_unbounded; re-checked) *)
        let agree = C.insert_agrees s.tree (ci id) k in
        s.tree <- C.tree_insert s.tree (ci id) k; s.tlive <- s.tlive @ [(id, k)]; s.tall <- s.tall @ [id];
        Printf.sprintf "ins=%d %s" id (tree_state ~agree s false) end
  | "r" :: j :: _ ->
    if s.tlive = [] then "skip" else begin
      let (i, (id, _)) = nth_mod s.tlive (Z.of_string j) in
      (* the heap model of remove and the proven abstract removal (C18_tree_remove_abstract) give the same tree *)
      let agree = C.remove_agrees s.tree (ci id) in
      s.tree <- C.tree_remove s.tree (ci id); s.tlive <- remove_nth s.tlive i;
      Printf.sprintf "rem=%d %s" id (tree_state ~agree s false) end
  | "g" :: key :: _ -> Printf.sprintf "get=%s %s" (zi (C.tree_get s.tree (cs key))) (tree_state s false)
  | "d" :: _ -> tree_state s true
  | _ -> "badop"

(* ---- bit set *)
let bitset_cmd (s : session) (t : string list) : string =
  let b = s.bset in
  let size = z_of_cz b.C.b_size in
  let fin ?(res = "") (((e, a'), b') : (C.verr * C.arena) * C.bitset) =
    s.arena <- a'; s.bset <- b';
    let n = Z.to_int (z_of_cz b'.C.b_size) in
    let h = ref 7 in
    for i = 0 to n - 1 do h := hmix !h (if C.bs_bit_at b' (ci i) then 1 else 0) done;
    Printf.sprintf "e=%d %sn=%d c=%s d=%s h=%d w0=%s" (errc e) res n (zi b'.C.b_cap) (canon b'.C.b_data) !h
      (if n = 0 then "0" else match b'.C.b_words with w :: _ -> zi w | [] -> "0") in
  let same b' = ((C.EOk, s.arena), b') in
  match t with
  | "z" :: n :: v :: _ -> fin (C.bs_resize_pub mok s.arena b (cs n) (v <> "0"))
  | "a" :: v :: _ -> fin (C.bs_append mok s.arena b (v <> "0"))
  | "s" :: i :: v :: _ -> if Z.sign size = 0 then "skip" else fin (same (C.bs_set_bit b (cz_of_z (Z.rem (Z.of_string i) size)) (v <> "0")))
  | "g" :: i :: _ -> if Z.sign size = 0 then "skip" else
      let r = C.bs_bit_at b (cz_of_z (Z.rem (Z.of_string i) size)) in fin ~res:(Printf.sprintf "bit=%d " (if r then 1 else 0)) (same b)
  | ("f" | "c") as op :: st :: cnt :: _ ->
    let st = Z.rem (Z.of_string st) (Z.succ size) in
    let cnt = Z.rem (Z.of_string cnt) (Z.succ (Z.sub size st)) in
    fin (same (if op = "f" then C.bs_fill_bits b (cz_of_z st) (cz_of_z cnt) else C.bs_clear_bits b (cz_of_z st) (cz_of_z cnt)))
  | "ca" :: _ -> fin (same (C.bs_clear_all b))
  | "fa" :: _ -> fin (same (C.bs_fill_all b))
  | "t" :: n :: _ -> fin (same (C.bs_truncate b (cs n)))
  | "x" :: _ -> let (a', b') = C.bs_release s.arena b in fin ((C.EOk, a'), b')
  | "sw" :: _ -> let o = s.bset2 in s.bset2 <- b; fin (same o)
  | "and" :: _ -> fin (same (C.bs_and b s.bset2))
  | "andn" :: _ -> fin (same (C.bs_and_not b s.bset2))
  | "or" :: _ -> fin (same (C.bs_or b s.bset2))
  | "cp" :: _ -> fin (C.bs_copy_from mok s.arena b s.bset2)
  | _ -> "badop"

(* ---- list / pool *)
let rec insert_at l j x = match j, l with 0, _ -> x :: l | _, y :: r -> y :: insert_at r (j - 1) x | _, [] -> [x]
let list_cmd (s : session) (t : string list) : string =
  let fresh () = let (r, a1) = C.alloc_oneshot mok s.arena (ci 24) in s.arena <- a1;
    match r with None -> None | Some _ -> let id = s.lnode_seq in s.lnode_seq <- id + 1; Some id in
  let show ?(res = "") () =
    let f = List.map (fun z -> Z.to_int (z_of_cz z)) (C.dl_forward s.dl) in
    Printf.sprintf "%sl=[%s]" res (String.concat "," (List.map string_of_int f)) in
  match t with
  | ("a" | "p") as op :: _ -> (match fresh () with None -> "oom" | Some id ->
      if op = "a" then (s.dl <- C.dl_add s.dl (ci id) true; s.labs <- s.labs @ [id]) else (s.dl <- C.dl_add s.dl (ci id) false; s.labs <- id :: s.labs); show ())
  | ("ia" | "ib") as op :: j :: _ ->
    if s.labs = [] then "skip" else begin
      let (i, r) = nth_mod s.labs (Z.of_string j) in
      match fresh () with None -> "oom" | Some id ->
        if op = "ia" then (s.dl <- C.dl_insert s.dl (ci r) (ci id) true; s.labs <- insert_at s.labs (i + 1) id)
        else (s.dl <- C.dl_insert s.dl (ci r) (ci id) false; s.labs <- insert_at s.labs i id);
        show () end
  | "u" :: j :: _ -> if s.labs = [] then "skip" else begin
      let (i, r) = nth_mod s.labs (Z.of_string j) in
      s.dl <- C.dl_unlink s.dl (ci r); s.labs <- remove_nth s.labs i; show ~res:(Printf.sprintf "un=%d " r) () end
  | "pf" :: _ -> if s.labs = [] then "skip" else begin
      let (n, d) = C.dl_pop_first s.dl in s.dl <- d; s.labs <- List.tl s.labs; show ~res:(Printf.sprintf "pop=%s " (zi n)) () end
  | "po" :: _ -> if s.labs = [] then "skip" else begin
      let (n, d) = C.dl_pop s.dl in s.dl <- d; s.labs <- remove_nth s.labs (List.length s.labs - 1); show ~res:(Printf.sprintf "pop=%s " (zi n)) () end
  | _ -> "badop"

let pool_cmd (s : session) (t : string list) : string =
  match t with
  | "a" :: _ ->
    let ((r, a'), p') = C.pool_alloc mok s.arena s.pool (ci 24) in
    s.arena <- a'; s.pool <- p';
    (match r with Some x -> s.plive <- s.plive @ [x] | None -> ());
    Printf.sprintf "p=%s pooled=%d" (canon r) (List.length s.pool)
  | "r" :: j :: _ -> if s.plive = [] then "skip" else begin
      let (i, x) = nth_mod s.plive (Z.of_string j) in
      s.pool <- C.pool_release s.pool x; s.plive <- remove_nth s.plive i;
      Printf.sprintf "rel=%s pooled=%d" (canon (Some x)) (List.length s.pool) end
  | _ -> "badop"

(* ---- strings *)
let str_state ?(pre = "") (e : C.serr) (s : C.str) : string =
  let content = C.str_abs s in
  let h = ref 7 in
  let b = Buffer.create 100 in
  List.iteri (fun i c -> let c = Z.to_int (z_of_cz c) land 255 in h := hmix !h c; if i < 48 then Buffer.add_string b (Printf.sprintf "%02x" c)) content;
  let kind = match s.C.s_kind with C.KSmall -> 0 | C.KLarge -> 1 | C.KExternal -> 2 in
  Printf.sprintf "%se=%d k=%d n=%s c=%s nul=%d h=%d t=%s" pre (serrc e) kind (zi s.C.s_size) (zi s.C.s_cap) (if C.str_nul_ok s then 1 else 0) !h
    (if Buffer.length b = 0 then "-" else Buffer.contents b)

let sop_of = function "0" -> C.OpAssign | _ -> C.OpAppend
let byte_of (x : string) = ci ((int_of_string x) land 255)
let str_cmd (k : int) (t : string list) : string =
  let s = strs.(k) in
  let fin ((e, s') : C.serr * C.str) = strs.(k) <- s'; str_state e s' in
  match t with
  | ("sw" | "mv" | "mc") :: _ when k <> 0 && k <> 3 -> "skip"
  | op :: _ when op = "sw" || op = "mv" || op = "mc" ->
    let o = 3 - k in
    let (a', b') = (match op with
      | "sw" -> C.str_swap s strs.(o)
      | "mv" -> C.str_move_assign s strs.(o)
      | _ -> let (tmp, s1) = C.str_move_construct s in let (s2, _) = C.str_move_assign s1 tmp in (s2, strs.(o))) in
    strs.(k) <- a'; strs.(o) <- b';
    str_state C.SOk a' ^ " o:" ^ str_state C.SOk b'
  | "as" :: d :: _ -> fin (C.str_assign mok s (unhex d))
  | "os" :: o :: d :: _ -> fin (C.str_op_text mok s (sop_of o) (unhex d))
  | "oc" :: o :: c :: _ -> fin (C.str_op_char mok s (sop_of o) (byte_of c))
  | "on" :: o :: c :: n :: _ -> fin (C.str_op_chars mok s (sop_of o) (byte_of c) (cs n))
  | "pe" :: n :: c :: _ -> fin (C.str_pad_end mok s (cs n) (byte_of c))
  | "nu" :: o :: i :: base :: width :: flags :: _ -> fin (C.str_op_number mok s (sop_of o) (cs i) (cs base) (cs width) (cs flags))
  | "hx" :: o :: d :: sep :: _ -> fin (C.str_op_hex mok s (sop_of o) (unhex d) (byte_of sep))
  | "fm" :: o :: d :: _ -> fin (C.str_op_format mok s (sop_of o) (unhex d))
  | "fr" :: o :: n :: c :: _ -> fin (C.str_op_format mok s (sop_of o) (List.init (int_of_string n) (fun _ -> byte_of c)))
  | "tr" :: n :: _ -> fin (C.str_truncate s (cs n))
  | "cl" :: _ -> fin (C.str_clear s)
  | "rs" :: _ -> fin (C.SOk, C.str_reset s)
  | "eq" :: d :: _ -> str_state ~pre:(if C.str_equals s (unhex d) then "eq=1 " else "eq=0 ") C.SOk s
  | _ -> "badop"

(* ---- bit vectors *)
let bv_cmd (w : string) (t : string list) : string =
  let wz = cs w in
  match t with
  | words :: op :: args ->
    let ws = List.map cs (String.split_on_char ',' words) in
    let show ?(res = "") ws = res ^ "w=" ^ String.concat "," (List.map zi ws) in
    (match op, args with
     | "g", i :: _ -> show ~res:(Printf.sprintf "bit=%d " (if C.bv_get wz ws (cs i) then 1 else 0)) ws
     | "s", i :: v :: _ -> show (C.bv_set wz ws (cs i) (v <> "0"))
     | "o", i :: v :: _ -> show (C.bv_or_bit wz ws (cs i) (v <> "0"))
     | "x", i :: v :: _ -> show (C.bv_xor_bit wz ws (cs i) (v <> "0"))
     | "f", i :: n :: _ -> show (C.bv_fill wz ws (cs i) (cs n))
     | "c", i :: n :: _ -> show (C.bv_clear wz ws (cs i) (cs n))
     | "io", st :: v :: _ -> (match C.bv_index_of wz ws (cs st) (v <> "0") with
                              | Some r -> show ~res:(Printf.sprintf "idx=%s " (zi r)) ws
                              | None -> show ~res:"idx=none " ws)
     | _ -> "badop")
  | _ -> "badop"

let new_session minb st =
  { arena = C.arena_init (cs minb) (cs st); direct = []; v = Array.make 4 C.vec_empty; h = Array.make 2 C.hash_empty;
    hlive = Array.make 2 []; hdead = Array.make 2 []; node_seq = 0; tree = C.tree_empty; tlive = []; tall = []; tnode_seq = 2;
    bset = C.bitset_empty; bset2 = C.bitset_empty; dl = C.dlist_empty; labs = []; lnode_seq = 1; pool = []; plive = [] }

let () =
  try
    while true do
      let line = input_line stdin in
      let toks = List.filter (fun s -> s <> "") (String.split_on_char ' ' (String.trim line)) in
      let out =
        match toks, !sess with
        | [], _ -> ""
        | "N" :: minb :: st :: _, _ -> let s = new_session minb st in sess := Some s; reset_strs (); "N " ^ arena_dump s.arena
        | ("AO" | "AR" | "AF" | "AZ" | "AS" | "AD" | "AG" | "AP" | "V" | "H" | "T" | "L" | "P" | "K") :: _, None -> "nosession"
        | "TP" :: dbl :: dir :: root :: n :: specs, _ ->
          (* the model's single_rotate / double_rotate on the same explicit node graph (model ids = index + 1; 0 = null) *)
          let n = int_of_string n in
          let id i = if i = 0 then ci 0 else ci (i + 1) in
          let h = ref C.PLeaf in
          List.iteri (fun i sp -> if i < n then
            match String.split_on_char ',' sp with
            | [l; r; c] -> h := C.hset !h (id (i + 1)) { C.t_left = id (int_of_string l); C.t_right = id (int_of_string r); C.t_red = (c <> "0"); C.t_key = ci 0 }
            | _ -> ()) specs;
          let d = dir <> "0" in
          let (h', sroot) = if dbl <> "0" then C.double_rotate !h (id (int_of_string root)) d else C.single_rotate !h (id (int_of_string root)) d in
          let back z = let v = Z.to_int (z_of_cz z) in if v = 0 then 0 else v - 1 in
          let b = Buffer.create 64 in
          for i = 1 to n do
            let nd = C.hget h' (id i) in
            Buffer.add_string b (Printf.sprintf " %d,%d,%d" (back nd.C.t_left) (back nd.C.t_right) (if nd.C.t_red then 1 else 0))
          done;
          Printf.sprintf "TP s=%d%s" (back sroot) (Buffer.contents b)
        | "AO" :: size :: _, Some s ->
          (* the pointer-level scan loop (ArenaChainModel.scan_fixed) and the list-level scan of the arena model agree
             (a theorem for chains of any length: C18_arena_chain_scan_general; re-checked on every allocation) *)
          let agree = C.chain_scan_agrees s.arena (cs size) in
          let (r, a') = C.alloc_oneshot mok s.arena (cs size) in s.arena <- a';
          "AO " ^ canon r ^ " " ^ arena_dump a' ^ (if agree then "" else " POINTER-LEVEL-CHAIN-MODEL-DIFFERS")
        | "AR" :: size :: _, Some s ->
          let (r, a') = C.alloc_reusable mok s.arena (cs size) in s.arena <- a';
          (match r with
           | Some (p, asz) -> s.direct <- s.direct @ [(p, cs size, asz)]; "AR " ^ canon (Some p) ^ " " ^ zi asz ^ " " ^ arena_dump a'
           | None -> "AR null 0 " ^ arena_dump a')
        | "AF" :: j :: usealloc :: _, Some s ->
          if s.direct = [] then "AF none" else begin
            let (i, (p, req, asz)) = nth_mod s.direct (Z.of_string j) in
            s.arena <- C.free_reusable s.arena p (if usealloc <> "0" then asz else req);
            s.direct <- remove_nth s.direct i;
            "AF " ^ canon (Some p) ^ " " ^ arena_dump s.arena end
        | "AP" :: n :: c0 :: _, Some s ->
          let n = int_of_string n and c0 = Z.to_int (Z.rem (Z.of_string c0) (Z.of_int 1000000)) in
          let text = List.init n (fun i -> ci (33 + (c0 + i * 7) mod 90)) in
          let (r, a') = C.arena_sformat mok s.arena text in s.arena <- a';
          (match r with
           | Some (p, bytes) -> "AP " ^ canon (Some p) ^ " b=" ^ String.concat "" (List.map (fun c -> Printf.sprintf "%02x" (Z.to_int (z_of_cz c) land 255)) bytes) ^ " " ^ arena_dump a'
           | None -> "AP null b=- " ^ arena_dump a')
        | "AD" :: nt :: d :: _, Some s ->
          let (r, a') = C.arena_dup mok s.arena (unhex d) (nt <> "0") in s.arena <- a';
          (match r with
           | Some (p, bytes) -> "AD " ^ canon (Some p) ^ " b=" ^ String.concat "" (List.map (fun c -> Printf.sprintf "%02x" (Z.to_int (z_of_cz c) land 255)) bytes) ^ " " ^ arena_dump a'
           | None -> "AD null b=- " ^ arena_dump a')
        | "AG" :: d :: _, Some s ->
          let (r, a') = C.arena_string_set mok s.arena (ci 27) (unhex d) in s.arena <- a';
          (match r with
           | Some (None, _) -> "AG e=0 emb=1 p=null " ^ arena_dump a'
           | Some (Some p, _) -> "AG e=0 emb=0 p=" ^ canon (Some p) ^ " " ^ arena_dump a'
           | None -> "AG e=1 emb=0 p=null " ^ arena_dump a')
        | "AZ" :: hard :: _, Some s ->
          s.arena <- C.arena_reset s.arena (hard <> "0");
          s.tree <- C.tree_empty; s.tlive <- []; s.tall <- []; s.dl <- C.dlist_empty; s.labs <- []; s.pool <- []; s.plive <- []; s.bset <- C.bitset_empty; s.bset2 <- C.bitset_empty;
          s.direct <- []; Array.fill s.v 0 4 C.vec_empty; Array.fill s.h 0 2 C.hash_empty; Array.fill s.hlive 0 2 []; Array.fill s.hdead 0 2 [];
          "AZ " ^ arena_dump s.arena
        | "AS" :: _, Some s ->
          let (((bc, used), reserved), overhead) = C.arena_stats s.arena in
          Printf.sprintf "AS %s %s %s %s" (zi bc) (zi used) (zi reserved) (zi overhead)
        | "V" :: k :: rest, Some s -> let r = vec_cmd s (int_of_string k) rest in Printf.sprintf "V %s ah=%d" r (arena_hash s.arena)
        | "H" :: k :: rest, Some s -> let r = hash_cmd s (int_of_string k) rest in Printf.sprintf "H %s ah=%d" r (arena_hash s.arena)
        | "K" :: rest, Some s -> let r = bitset_cmd s rest in Printf.sprintf "K %s ah=%d" r (arena_hash s.arena)
        | "L" :: rest, Some s -> let r = list_cmd s rest in Printf.sprintf "L %s ah=%d" r (arena_hash s.arena)
        | "P" :: rest, Some s -> let r = pool_cmd s rest in Printf.sprintf "P %s ah=%d" r (arena_hash s.arena)
        | "T" :: rest, Some s -> let r = tree_cmd s rest in Printf.sprintf "T %s ah=%d" r (arena_hash s.arena)
        | "S" :: k :: rest, _ -> "S " ^ str_cmd (int_of_string k) rest
        | "B" :: w :: rest, _ -> "B " ^ bv_cmd w rest
        | "R" :: w :: words :: start :: en :: hint :: b :: _, _ ->
          let ws = List.map cs (String.split_on_char ',' words) in
          let rs = C.ranges (cs w) (b <> "0") ws (cs start) (cs en) (cs hint) in
          "R r=" ^ (if rs = [] then "-" else String.concat "," (List.map (fun (a, b) -> zi a ^ "-" ^ zi b) rs))
        | "X1" :: n :: _, _ ->
          let big (_ : C.z) = true in
          let ((e, _), ((_, _), cap)) = C.reserve_shape (Some C.vec_grow_table) big (ci 1) (C.arena_init (ci 1024) (ci 0)) ((None, ci 0), ci 0) (cs n) in
          Printf.sprintf "X1 e=%d cap=%s" (errc e) (zi cap)
        | "X2" :: n :: _, _ ->
          let big (_ : C.z) = true in
          let ((e, a), sh) = C.reserve_shape None big (ci 8) (C.arena_init (ci 1024) (ci 0)) ((None, ci 0), ci 0) (cs n) in
          let had = a.C.dyn <> [] in
          let (a', _) = C.release_shape (ci 8) a sh in
          Printf.sprintf "X2 e=%d dyn_before=%d dyn_after=%d" (errc e) (if had then 1 else 0) (if a'.C.dyn <> [] then 1 else 0)
        | _ -> "unknown" in
      print_endline out
    done
  with End_of_file -> ()

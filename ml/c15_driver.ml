(* C15 model driver: answers the "S ..." script lines of harness/c15_script.h with the extracted Coq model (Oomtxn). *)
open Zconv

let rec nat_of_int n = if n <= 0 then Oomtxn.O else Oomtxn.S (nat_of_int (n - 1))
let rec int_of_nat = function Oomtxn.O -> 0 | Oomtxn.S m -> 1 + int_of_nat m
let zi (n : Oomtxn.z) : int = Z.to_int (z_of_cz n)

let oracle_of_mask (m : string) : Oomtxn.nat -> bool =
  let after p = String.sub m (String.length p) (String.length m - String.length p) in
  let starts p = String.length m >= String.length p && String.sub m 0 (String.length p) = p in
  if m = "none" then (fun _ -> true)
  else if starts "one:" then (let k = int_of_string (after "one:") in fun n -> int_of_nat n <> k)
  else if starts "from:" then (let k = int_of_string (after "from:") in fun n -> int_of_nat n < k)
  else if starts "set:" then (let ks = List.map int_of_string (List.filter (fun s -> s <> "") (String.split_on_char ',' (after "set:"))) in
                              fun n -> not (List.mem (int_of_nat n) ks))
  else failwith "mask"

let rc = function Oomtxn.Ok -> 0 | Oomtxn.Oom -> 1 | Oomtxn.Invalid -> 2
let tail s = String.sub s 1 (String.length s - 1)
let join sep l = if l = [] then "-" else String.concat sep l

let primes : Oomtxn.z list ref = ref []

let do_vec isz mask ops =
  let ok = oracle_of_mask mask in
  let b = Buffer.create 256 in
  Buffer.add_string b "S vec";
  let v = ref Oomtxn.vec_empty and k = ref Oomtxn.O in
  List.iter (fun tok ->
    let arg = tail tok in
    let op = match tok.[0] with
      | 'a' -> Oomtxn.VAppend (cz_of_string arg)
      | 'p' -> Oomtxn.VPrepend (cz_of_string arg)
      | 'i' -> (match String.split_on_char ':' arg with [i; x] -> Oomtxn.VInsert (cz_of_string i, cz_of_string x) | _ -> failwith "i")
      | 'g' -> Oomtxn.VResizeGrow (cz_of_string arg)
      | 't' -> Oomtxn.VResizeFit (cz_of_string arg)
      | 'r' -> Oomtxn.VReserveAdd (cz_of_string arg)
      | 'f' -> Oomtxn.VReserveFit (cz_of_string arg)
      | 'w' -> Oomtxn.VReserveGrow (cz_of_string arg)
      | 'c' -> Oomtxn.VClear
      | 'o' -> Oomtxn.VPop
      | _ -> failwith "vop" in
    let ((r, v1), k1) = Oomtxn.vec_step ok (cz_of_int isz) op !v !k in
    v := v1; k := k1;
    Buffer.add_string b (Printf.sprintf " %d/%d/%d" (rc r) (zi (Oomtxn.vsize v1)) (zi v1.Oomtxn.v_cap))) ops;
  Buffer.add_string b (" | " ^ join "," (List.map string_of_cz !v.Oomtxn.v_items));
  Buffer.add_string b (Printf.sprintf " req=%d" (int_of_nat !k));
  print_endline (Buffer.contents b)

let do_hash mask ops =
  let ok = oracle_of_mask mask in
  let b = Buffer.create 256 in
  Buffer.add_string b "S hash";
  let h = ref Oomtxn.hash_empty and k = ref Oomtxn.O in
  let mentioned = ref [] in
  List.iter (fun tok ->
    let key = cz_of_string (tail tok) in
    let ki = int_of_string (tail tok) in
    if not (List.mem ki !mentioned) then mentioned := !mentioned @ [ki];
    let op = match tok.[0] with 'i' -> Oomtxn.HInsert key | 'd' -> Oomtxn.HRemove key | _ -> failwith "hop" in
    let ((r, h1), k1) = Oomtxn.hash_step ok !primes op !h !k in
    h := h1; k := k1;
    Buffer.add_string b (Printf.sprintf " %d/%d/%d" (rc r) (zi h1.Oomtxn.h_size) (zi (Oomtxn.nbuckets h1)))) ops;
  let keys = List.sort compare (List.map zi (Oomtxn.hash_keys !h)) in
  Buffer.add_string b (" | " ^ join "," (List.map string_of_int keys));
  Buffer.add_string b " get=";
  List.iter (fun ki -> Buffer.add_string b (if Oomtxn.hash_get !h (cz_of_int ki) then "1" else "0")) (!mentioned @ [999983]);
  Buffer.add_string b (Printf.sprintf " req=%d" (int_of_nat !k));
  print_endline (Buffer.contents b)

let bytes_of_hex s =
  let n = String.length s / 2 in
  List.init n (fun i -> cz_of_int (int_of_string ("0x" ^ String.sub s (2 * i) 2)))
let hex_of_bytes l = String.concat "" (List.map (fun z -> Printf.sprintf "%02x" (zi z)) l)

let do_pool mask ops =
  let ok = oracle_of_mask mask in
  let b = Buffer.create 512 in
  Buffer.add_string b "S pool";
  let p = ref Oomtxn.pool_empty and k = ref Oomtxn.O in
  List.iter (fun tok ->
    let d = bytes_of_hex (tail tok) in
    let (((r, off), p1), k1) = Oomtxn.pool_add ok d !p !k in
    p := p1; k := k1;
    let offs = match r, off with Oomtxn.Ok, Some o -> string_of_cz o | _ -> "-" in
    Buffer.add_string b (Printf.sprintf " %d/%s/%d/%d/%d/%d" (rc r) offs (zi p1.Oomtxn.p_size) (zi p1.Oomtxn.p_align) (zi p1.Oomtxn.p_min)
                           (int_of_nat p1.Oomtxn.p_gap_pool))) ops;
  Buffer.add_string b " | ";
  Buffer.add_string b (String.concat ";" (List.map (fun t ->
    String.concat "," (List.sort compare (List.map (fun c ->
      Printf.sprintf "%d:%d:%s" (zi c.Oomtxn.c_off) (if c.Oomtxn.c_shared then 1 else 0) (hex_of_bytes c.Oomtxn.c_data)) t))) !p.Oomtxn.p_trees));
  Buffer.add_string b " | ";
  Buffer.add_string b (String.concat ";" (List.map (fun g ->
    String.concat "," (List.map (fun (o, s) -> Printf.sprintf "%d:%d" (zi o) (zi s)) g)) !p.Oomtxn.p_gaps));
  Buffer.add_string b (Printf.sprintf " req=%d" (int_of_nat !k));
  print_endline (Buffer.contents b)

let do_holder mask ops =
  let ok = oracle_of_mask mask in
  let b = Buffer.create 256 in
  Buffer.add_string b "S holder";
  let h = ref Oomtxn.holder2_init and k = ref Oomtxn.O in
  List.iter (fun tok ->
    let li () = nat_of_int (int_of_string (tail tok)) in
    let op = match tok.[0] with
      | 'L' -> Oomtxn.CBase Oomtxn.CNewLabel | 'R' -> Oomtxn.CBase Oomtxn.CNewReloc | 'F' -> Oomtxn.CBase (Oomtxn.CNewFixup (li ()))
      | 'E' -> Oomtxn.CBase (Oomtxn.CEmbedLabel (li ())) | 'D' -> Oomtxn.CBase Oomtxn.CEmbedDelta | 'B' -> Oomtxn.CBase (Oomtxn.CBind (li ()))
      | 'S' -> Oomtxn.CNewSection (cz_of_string (tail tok)) | 'A' -> Oomtxn.CAddAddress (cz_of_string (tail tok))
      | 'C' -> Oomtxn.CCallAbs (cz_of_string (tail tok))
      | _ -> failwith "cop" in
    let ((r, h1), k1) = Oomtxn.holder2_step ok true op !h !k in
    h := h1; k := k1;
    let bs = h1.Oomtxn.h2_base and ss = h1.Oomtxn.h2_sects in
    Buffer.add_string b (Printf.sprintf " %d/%d/%d/%d/%d/%d/%d" (rc r) (List.length bs.Oomtxn.ho_labels) (List.length bs.Oomtxn.ho_relocs)
                           (zi bs.Oomtxn.ho_unresolved) (int_of_nat bs.Oomtxn.ho_fixup_pool) (List.length ss.Oomtxn.ss_orders)
                           (List.length ss.Oomtxn.ss_entries))) ops;
  let bs = !h.Oomtxn.h2_base and ss = !h.Oomtxn.h2_sects in
  Buffer.add_string b (" | " ^ join "," (List.map (fun l ->
    Printf.sprintf "%d:%d" (if l.Oomtxn.l_bound then 1 else 0) (List.length l.Oomtxn.l_fixups)) bs.Oomtxn.ho_labels));
  Buffer.add_string b (" | " ^ join "," (List.map string_of_cz bs.Oomtxn.ho_relocs));
  Buffer.add_string b (" | " ^ join "," (List.map string_of_cz ss.Oomtxn.ss_orders));
  Buffer.add_string b (" | " ^ join "," (List.map (fun n -> string_of_int (int_of_nat n)) ss.Oomtxn.ss_by_order));
  Buffer.add_string b (" | " ^ (match ss.Oomtxn.ss_addrtab with Some n -> string_of_int (int_of_nat n) | None -> "-"));
  Buffer.add_string b (Printf.sprintf " req=%d" (int_of_nat !k));
  print_endline (Buffer.contents b)

let do_builder mask ops =
  let ok = oracle_of_mask mask in
  let b = Buffer.create 256 in
  Buffer.add_string b "S builder";
  let h = ref Oomtxn.holder2_init and bl = ref Oomtxn.bld_init and k = ref Oomtxn.O in
  List.iter (fun tok ->
    let arg () = nat_of_int (int_of_string (tail tok)) in
    let r =
      match tok.[0] with
      | 'S' ->
        let ((r, h1), k1) = Oomtxn.holder2_step ok true (Oomtxn.CNewSection (cz_of_string (tail tok))) !h !k in
        h := h1; k := k1; r
      | c ->
        let op = (match c with
          | 'n' -> Oomtxn.BNewLabel | 'b' -> Oomtxn.BBind (arg ()) | 's' -> Oomtxn.BSection (arg ()) | 'i' -> Oomtxn.BInst
          | 'l' -> Oomtxn.BAlign | 'e' -> Oomtxn.BEmbed | 'E' -> Oomtxn.BEmbedLabel (arg ()) | 'c' -> Oomtxn.BComment
          | 'C' -> Oomtxn.BCursor (arg ()) | 'p' -> Oomtxn.BConstPool (arg ()) | _ -> failwith "bop") in
        let (((r, h1), b1), k1) = Oomtxn.builder_step ok op !h !bl !k in
        h := h1; bl := b1; k := k1; r in
    Buffer.add_string b (Printf.sprintf " %d/%d/%d/%d/%d/%d" (rc r) (List.length !h.Oomtxn.h2_base.Oomtxn.ho_labels) (List.length !bl.Oomtxn.b_lnodes)
                           (List.length !bl.Oomtxn.b_snodes) (List.length !h.Oomtxn.h2_sects.Oomtxn.ss_orders) (int_of_nat !bl.Oomtxn.b_cursor))) ops;
  Buffer.add_string b " |";
  List.iter (fun n -> Buffer.add_string b (match n with
    | Oomtxn.NSection sid -> Printf.sprintf " S%d" (int_of_nat sid) | Oomtxn.NInst -> " I" | Oomtxn.NLabel li -> Printf.sprintf " L%d" (int_of_nat li)
    | Oomtxn.NAlign -> " A" | Oomtxn.NEmbed -> " D" | Oomtxn.NComment -> " C" | Oomtxn.NEmbedLabel li -> Printf.sprintf " E%d" (int_of_nat li))) !bl.Oomtxn.b_nodes;
  Buffer.add_string b (" | l" ^ String.concat "" (List.map (fun x -> if x then "1" else "0") !bl.Oomtxn.b_lnodes));
  Buffer.add_string b (" | s" ^ String.concat "" (List.map (fun x -> if x then "1" else "0") !bl.Oomtxn.b_snodes));
  Buffer.add_string b (Printf.sprintf " req=%d" (int_of_nat !k));
  print_endline (Buffer.contents b)

let oracle_pair (m : string) =
  if m = "none" then ((fun _ -> true), (fun _ -> true))
  else begin
    let rest = String.sub m 2 (String.length m - 2) in
    match m.[0] with
    | 'v' -> (oracle_of_mask rest, (fun _ -> true))
    | 'h' -> ((fun _ -> true), oracle_of_mask rest)
    | _ -> failwith "vm mask"
  end

let do_vm dual mask ops =
  let (okv, okh) = oracle_pair mask in
  let b = Buffer.create 256 in
  Buffer.add_string b (if dual then "S vmd" else "S vm");
  let s = ref Oomtxn.vms_init and kv = ref Oomtxn.O and kh = ref Oomtxn.O in
  List.iter (fun tok ->
    let arg () = nat_of_int (int_of_string (tail tok)) in
    let op = match tok.[0] with
      | 'm' -> Oomtxn.VMap | 'd' -> Oomtxn.VDual | 'u' -> Oomtxn.VRel (arg ()) | 'b' -> Oomtxn.VBlock dual | 'x' -> Oomtxn.VDel (arg ())
      | _ -> failwith "vmop" in
    let (((r, s1), kv1), kh1) = Oomtxn.vm_step okv okh op !s !kv !kh in
    s := s1; kv := kv1; kh := kh1;
    Buffer.add_string b (Printf.sprintf " %d/%d/%d" (rc r) (List.length s1.Oomtxn.vs_views) (int_of_nat s1.Oomtxn.vs_heap))) ops;
  Buffer.add_string b (Printf.sprintf " | end 0/0/0 req=%d,%d" (int_of_nat !kv) (int_of_nat !kh));
  print_endline (Buffer.contents b)

let do_ra mask ops =
  let ok = oracle_of_mask mask in
  let b = Buffer.create 256 in
  Buffer.add_string b "S ra";
  let s = ref (Oomtxn.ras_init (nat_of_int 8)) and k = ref Oomtxn.O in
  List.iter (fun tok ->
    let w = nat_of_int ((int_of_string (tail tok)) mod 8) in
    let op = match tok.[0] with 'g' -> Oomtxn.RGet w | 'a' -> Oomtxn.RAsMem w | _ -> failwith "raop" in
    let ((r, s1), k1) = Oomtxn.ra_step ok op !s !k in
    s := s1; k := k1;
    Buffer.add_string b (Printf.sprintf " %d/%d/%d/%s" (rc r) (List.length s1.Oomtxn.ra_slots) (zi s1.Oomtxn.ra_cap)
                           (String.concat "" (List.map (fun x -> if x then "1" else "0") s1.Oomtxn.ra_home)))) ops;
  Buffer.add_string b (" | " ^ join " " (List.map (fun n -> string_of_int (int_of_nat n)) !s.Oomtxn.ra_slots));
  Buffer.add_string b (Printf.sprintf " req=%d" (int_of_nat !k));
  print_endline (Buffer.contents b)

let do_str mask ops =
  let (_, okh) = oracle_pair mask in
  let b = Buffer.create 256 in
  Buffer.add_string b "S str";
  let s = ref Oomtxn.str_empty and k = ref Oomtxn.O in
  List.iter (fun tok ->
    let arg = tail tok in
    let op = match tok.[0] with
      | 'a' -> Oomtxn.SAppend (bytes_of_hex arg) | 's' -> Oomtxn.SAssign (bytes_of_hex arg)
      | 'c' -> Oomtxn.SAppendChars (cz_of_string arg) | 'C' -> Oomtxn.SAssignChars (cz_of_string arg)
      | 'x' -> Oomtxn.SClear | 'r' -> Oomtxn.SReset | 't' -> Oomtxn.STruncate (cz_of_string arg)
      | _ -> failwith "sop" in
    let ((r, s1), k1) = Oomtxn.str_step okh op !s !k in
    s := s1; k := k1;
    Buffer.add_string b (Printf.sprintf " %d/%d/%d/%d" (rc r) (List.length s1.Oomtxn.st_chars) (zi s1.Oomtxn.st_cap) (if s1.Oomtxn.st_large then 1 else 0))) ops;
  Buffer.add_string b (" | " ^ (if !s.Oomtxn.st_chars = [] then "-" else hex_of_bytes !s.Oomtxn.st_chars));
  Buffer.add_string b (Printf.sprintf " req=0,%d" (int_of_nat !k));
  print_endline (Buffer.contents b)

(* S arena: Arena::alloc_oneshot / reset under the heap oracle; answers result/remaining bytes/live heap blocks *)
let do_arena mask ops =
  let (_, okh) = oracle_pair mask in
  let b = Buffer.create 256 in
  Buffer.add_string b "S arena";
  let a = ref (Oomtxn.arena_init (cz_of_int 11)) and k = ref Oomtxn.O in
  List.iter (fun tok ->
    let arg = tail tok in
    let op = match tok.[0] with
      | 'a' -> Oomtxn.AAlloc (cz_of_string arg)
      | 'r' -> Oomtxn.AReset (arg <> "0")
      | _ -> failwith "aop" in
    let ((r, a1), k1) = Oomtxn.arena_step okh op !a !k in
    a := a1; k := k1;
    Buffer.add_string b (Printf.sprintf " %d/%s/%d" (rc r) (Z.to_string (z_of_cz a1.Oomtxn.a_rem)) (List.length a1.Oomtxn.a_pre + List.length a1.Oomtxn.a_nxt))) ops;
  Buffer.add_string b (Printf.sprintf " | end 0 req=0,%d" (int_of_nat !k));
  print_endline (Buffer.contents b)

(* R <owners csv|-> <homes bits|-> <stack-used bits|->: validate a register-allocator state dumped from a real pass run *)
let do_racheck owners homes used =
  let bits s = if s = "-" then [] else List.init (String.length s) (fun i -> s.[i] = '1') in
  let ow = if owners = "-" then [] else List.map (fun x -> nat_of_int (int_of_string x)) (String.split_on_char ',' owners) in
  let negative = owners <> "-" && List.exists (fun x -> int_of_string x < 0) (String.split_on_char ',' owners) in
  let hb = bits homes and ub = bits used in
  let refs = List.concat (List.mapi (fun i u -> if u then [nat_of_int i] else []) ub) in
  let s = { Oomtxn.ra_slots = ow; ra_cap = cz_of_int 0; ra_home = hb; ra_refs = refs } in
  Printf.printf "R %d %d\n" (if (not negative) && Oomtxn.ra_check s then 1 else 0) (rc (Oomtxn.ra_rewrite s))

(* S jit / S jitd: JitAllocator::alloc / release = C09's span model (Oomtxn.alloc inside jit_alloc, Oomtxn.release) x C15's block creation *)
let do_jit dual mask ops =
  let (okv, okh) = oracle_pair mask in
  let b = Buffer.create 256 in
  Buffer.add_string b (if dual then "S jitd" else "S jit");
  let cfg = { Oomtxn.c_gran = cz_of_int 64; c_pools = cz_of_int 1; c_bsize = cz_of_int 65536; c_pad = true; c_imm = false; c_var = Oomtxn.fixed } in
  (* the whole joint state (C09 allocator, C15 views/records, block id -> handle map, request counters) lives in the extracted
     model; every operation is one proven jit_step (C15_jit_step_inv / C15_jit_run_no_leak) *)
  let j = ref (Oomtxn.jst_init cfg) in
  let spans = ref [] in
  let step op = let (res, j1) = Oomtxn.jit_step okv okh dual cfg op !j in j := j1; res in
  List.iter (fun tok ->
    let r =
      match tok.[0] with
      | 'j' ->
        (match step (Oomtxn.JAlloc (cz_of_string (tail tok))) with
         | Oomtxn.RAlloc (Oomtxn.Ok0, id, off, _) -> spans := !spans @ [Some (id, off)]; 0
         | Oomtxn.RAlloc (Oomtxn.OutOfMemory, _, _, _) -> spans := !spans @ [None]; 1
         | _ -> spans := !spans @ [None]; 2)
      | 'k' ->
        let i = int_of_string (tail tok) in
        (match (if i < List.length !spans then List.nth !spans i else None) with
         | None -> 2
         | Some (id, off) ->
           spans := List.mapi (fun k x -> if k = i then None else x) !spans;
           (match step (Oomtxn.JRelease (id, off)) with
            | Oomtxn.RRelease (Oomtxn.Ok0, _, _) -> 0
            | _ -> 2))
      | 'h' ->
        (match String.split_on_char ':' (tail tok) with
         | [is; ns] ->
           let i = int_of_string is in
           (match (if i < List.length !spans then List.nth !spans i else None) with
            | None -> 2
            | Some (id, off) ->
              (match step (Oomtxn.JShrink (id, off, cz_of_string ns)) with
               | Oomtxn.RShrink (Oomtxn.Ok0, _, _) -> if int_of_string ns = 0 then spans := List.mapi (fun k x -> if k = i then None else x) !spans; 0
               | _ -> 2))
         | _ -> failwith "shrink")
      | 'q' ->
        let i = int_of_string (tail tok) in
        (match (if i < List.length !spans then List.nth !spans i else None) with
         | None -> 2
         | Some (id, off) ->
           (match step (Oomtxn.JQuery (id, off)) with
            | Oomtxn.RQuery (Oomtxn.Ok0, _, _, _) -> 0
            | _ -> 2))
      | 'r' ->
        (match step (Oomtxn.JReset (tail tok <> "0")) with
         | Oomtxn.RReset -> spans := List.map (fun _ -> None) !spans; 0
         | _ -> 2)
      | _ -> failwith "jitop" in
    let s = !j.Oomtxn.j_vm and st = !j.Oomtxn.j_st in
    Buffer.add_string b (Printf.sprintf " %d/%d/%d/%d" r (List.length s.Oomtxn.vs_views) (int_of_nat s.Oomtxn.vs_heap) (List.length st.Oomtxn.blocks))) ops;
  Buffer.add_string b (Printf.sprintf " | end 0/0/0 req=%d,%d" (int_of_nat !j.Oomtxn.j_kv) (int_of_nat !j.Oomtxn.j_kh));
  print_endline (Buffer.contents b)

let () =
  try
    while true do
      let line = input_line stdin in
      let toks = List.filter (fun s -> s <> "") (String.split_on_char ' ' (String.trim line)) in
      (try
        match toks with
        | "P" :: ps -> primes := List.map cz_of_string ps; print_endline ("P " ^ string_of_int (List.length ps))
        | "S" :: "vec" :: isz :: mask :: ops -> do_vec (int_of_string isz) mask ops
        | "S" :: "hash" :: mask :: ops -> do_hash mask ops
        | "S" :: "pool" :: mask :: ops -> do_pool mask ops
        | "S" :: "holder" :: mask :: ops -> do_holder mask ops
        | "S" :: "builder" :: mask :: ops -> do_builder mask ops
        | "R" :: owners :: homes :: used :: _ -> do_racheck owners homes used
        | "S" :: "ra" :: mask :: ops -> do_ra mask ops
        | "S" :: "str" :: mask :: ops -> do_str mask ops
        | "S" :: "arena" :: mask :: ops -> do_arena mask ops
        | "S" :: "jit" :: mask :: ops -> do_jit false mask ops
        | "S" :: "jitd" :: mask :: ops -> do_jit true mask ops
        | "S" :: "vm" :: mask :: ops -> do_vm false mask ops
        | "S" :: "vmd" :: mask :: ops -> do_vm true mask ops
        | [] -> ()
        | _ -> print_endline "BAD"
      with Failure m -> print_endline ("BAD " ^ m))
    done
  with End_of_file -> ()

#!/bin/sh
# MANIFEST.setup_cmd: build the whole Coq development (full .vo, no -vos) from files on disk only.
set -e
cd "$(dirname "$0")/coq"
./mkproject.sh
timeout 3000 make -j16 -k 2>&1 | tail -n 40
# fail if any hand-written theory did not compile
missing=0
for v in $(grep '\.v$' _CoqProject); do [ -f "${v}o" ] || { echo "NOT BUILT: $v"; missing=1; }; done
exit $missing

// C11 sections harness: checks the hypothesis `seq_refines` of C11_concurrent_refines_c09 on REAL concurrent executions.
//
// N threads hammer ONE JitAllocator concurrently (no external serialisation). The harness #includes jitallocator.cpp with
// pthread_mutex_lock/unlock redirected to the two wrappers below, so it sees every acquire and release of the allocator lock:
//   * on acquire it draws a global sequence number (the linearisation order = order of the lock acquisitions);
//   * right before the release - still inside the critical section - it dumps the abstract allocator state (the C09 "D" line:
//     every block's serial, pool, bytes, area, search window, largest unused area, flags, used area; pool cursors) and the
//     statistics counters (the C09 "T" line).
// After the run the sections are printed in acquire order in the line protocol of the C09 harness (harness/c09_harness.cpp):
//     "<seq> <thread> | <command> | <answer> | <D line> | <T line>"
// tools/checks/c11.py feeds the commands, in that order, to the extracted C09 model (ml/c09_driver.ml) and compares answer, D and T
// of every section with the model's: each critical section, executed where the scheduler put it, must be exactly one step of the
// sequential model from the state the previous section left.
//
//   c11_sections <seed> <threads> <ops> <opt> <granularity> <block_size>
#include <pthread.h>
#include <algorithm>
#include <atomic>
#include <cinttypes>
#include <cstdarg>
#include <cstdint>
#include <cstdio>
#include <cstdlib>
#include <cstring>
#include <mutex>
#include <string>
#include <thread>
#include <vector>

static int c11_lock(pthread_mutex_t* m);
static int c11_unlock(pthread_mutex_t* m);
static int c11_trylock(pthread_mutex_t* m);
static inline int c11_real_trylock(pthread_mutex_t* m) { return pthread_mutex_trylock(m); }
static inline int c11_real_lock(pthread_mutex_t* m) { return pthread_mutex_lock(m); }
static inline int c11_real_unlock(pthread_mutex_t* m) { return pthread_mutex_unlock(m); }

#define pthread_mutex_lock c11_lock
#define pthread_mutex_unlock c11_unlock
#define pthread_mutex_trylock c11_trylock
#include <asmjit/core.h>
#include <asmjit/core/jitallocator.cpp>
#undef pthread_mutex_lock
#undef pthread_mutex_unlock
#undef pthread_mutex_trylock

using namespace asmjit;

// ---------------------------------------------------------------------------------------------------------------- section capture
struct Capture {
  uint64_t seq = 0;
  bool valid = false;
  std::string dline, tline;
  struct Blk { const void* ptr; int64_t serial; uint32_t pool; uint64_t bytes; uint32_t area; char dg[96]; uintptr_t rx_base; };
  std::vector<Blk> blocks;
};

static JitAllocatorPrivateImpl* g_impl = nullptr;     // the one allocator under test
static uint64_t g_seq = 0;                            // protected by the allocator lock
static int64_t g_next_serial = 0;                     // protected by the allocator lock
static std::vector<std::pair<const void*, int64_t>> g_serials;   // block pointer -> serial, protected by the allocator lock
static thread_local Capture* t_capture = nullptr;
static thread_local uint64_t t_seq = 0;

static int c11_lock(pthread_mutex_t* m) {
  int rc = c11_real_lock(m);
  if (g_impl) t_seq = g_seq++;
  return rc;
}

// a successful trylock is an acquire as well (a Lock::lock() that spins with trylock before it blocks)
static int c11_trylock(pthread_mutex_t* m) {
  int rc = c11_real_trylock(m);
  if (rc == 0 && g_impl) t_seq = g_seq++;
  return rc;
}

static void digest(const JitAllocatorBlock* b, char* out, size_t n, char sep) {
  unsigned f = (b->has_flag(JitAllocatorBlock::kFlagEmpty) ? 1u : 0u) + (b->has_flag(JitAllocatorBlock::kFlagDirty) ? 2u : 0u) + (b->has_flag(JitAllocatorBlock::kFlagIncremental) ? 4u : 0u);
  snprintf(out, n, "%u%c%u%c%u%c%u%c%u", b->_search_start, sep, b->_search_end, sep, b->_largest_unused_area, sep, f, sep, b->_area_used);
}

static int c11_unlock(pthread_mutex_t* m) {
  if (g_impl && t_capture) {
    Capture& c = *t_capture;
    c.seq = t_seq; c.valid = true; c.blocks.clear();
    // serial table: blocks in pool order, inside a pool in list order; unseen pointers get the next serial
    std::vector<std::pair<const void*, int64_t>> ns;
    char buf[256];
    std::string d;
    size_t n = 0, stat_blocks = 0; uint64_t used = 0, reserved = 0;
    for (size_t p = 0; p < g_impl->pool_count; p++) {
      JitAllocatorPool& pool = g_impl->pools[p];
      for (JitAllocatorBlock* b = pool.blocks.first(); b; b = b->next()) {
        int64_t serial = -1;
        for (auto& e : g_serials) if (e.first == b) serial = e.second;
        if (serial < 0) serial = g_next_serial++;
        ns.push_back({b, serial});
        Capture::Blk bk; bk.ptr = b; bk.serial = serial; bk.pool = uint32_t(p); bk.bytes = b->block_size(); bk.area = b->area_size();
        bk.rx_base = uintptr_t(b->rx_ptr());
        digest(b, bk.dg, sizeof(bk.dg), ':');
        snprintf(buf, sizeof(buf), " %" PRId64 ":%u:%" PRIu64 ":%u:%s", serial, bk.pool, bk.bytes, bk.area, bk.dg);
        d += buf; n++;
        c.blocks.push_back(bk);
      }
      stat_blocks += pool.block_count;
      reserved += uint64_t(pool.total_area_size[0] + pool.total_area_size[1]) * pool.granularity;
      used += uint64_t(pool.total_area_used[0] + pool.total_area_used[1]) * pool.granularity;
    }
    g_serials.swap(ns);
    d += " |";
    for (size_t p = 0; p < g_impl->pool_count; p++) {
      const JitAllocatorBlock* cur = g_impl->pools[p].cursor;
      int64_t cs = cur ? -2 : -1;
      for (auto& e : g_serials) if (e.first == cur) cs = e.second;
      snprintf(buf, sizeof(buf), " %" PRId64, cs); d += buf;
    }
    snprintf(buf, sizeof(buf), "D %zu", n);
    c.dline = std::string(buf) + d;
    snprintf(buf, sizeof(buf), "T %zu %zu %" PRIu64 " %" PRIu64, stat_blocks, size_t(g_impl->allocation_count), used, reserved);
    c.tline = buf;
  }
  return c11_real_unlock(m);
}

// ---------------------------------------------------------------------------------------------------------------- workload
struct Rng {
  uint64_t s;
  explicit Rng(uint64_t seed) : s(seed * 0x9E3779B97F4A7C15ull + 0x7654321ull) { next(); next(); }
  uint64_t next() { s ^= s << 13; s ^= s >> 7; s ^= s << 17; return s * 0x2545F4914F6CDD1Dull; }
  uint32_t below(uint32_t n) { return uint32_t((next() >> 20) % n); }
};

struct Live { JitAllocator::Span span; uint64_t aseq; int64_t blk; };
struct Record { uint64_t seq; int tid; std::string cmd, ans, dline, tline; uint64_t aseq; };

static const char* err_name(Error e, char* tmp) {
  switch (e) {
    case Error::kOk: return "ok";
    case Error::kOutOfMemory: return "oom";
    case Error::kInvalidArgument: return "inval_arg";
    case Error::kInvalidState: return "inval_state";
    case Error::kTooLarge: return "too_large";
    case Error::kNotInitialized: return "not_init";
    default: snprintf(tmp, 32, "err%u", unsigned(e)); return tmp;
  }
}

static std::string fmt(const char* f, ...) {
  char buf[512]; va_list ap; va_start(ap, f); vsnprintf(buf, sizeof(buf), f, ap); va_end(ap); return std::string(buf);
}

static const Capture::Blk* blk_by_ptr(const Capture& c, const void* p) { for (auto& b : c.blocks) if (b.ptr == p) return &b; return nullptr; }
static const Capture::Blk* blk_by_serial(const Capture& c, int64_t s) { for (auto& b : c.blocks) if (b.serial == s) return &b; return nullptr; }

static std::atomic<int> g_ready{0};

static void worker(JitAllocator* a, uint64_t seed, int tid, int nthreads, uint32_t ops, std::vector<Record>* out) {
  Rng rng(seed * 4099 + uint64_t(tid));
  g_ready.fetch_add(1);
  while (g_ready.load() < nthreads) std::this_thread::yield();      // start together
  std::vector<Live> live;
  Capture cap;
  t_capture = &cap;
  char tmp[64];
  for (uint32_t op = 0; op < ops; op++) {
    uint32_t k = rng.below(100);
    if (live.size() >= 96 && k < 45) k = 45 + rng.below(30);
    cap.valid = false;
    Record r; r.tid = tid; r.aseq = 0;
    if (k < 45 || live.empty()) {
      // sizes at the case splits of the model: pool selection (multiples of 64 / 128 / 256 and off-by-one), a whole block, more than a block
      static const uint32_t sizes[] = { 1, 63, 64, 65, 127, 128, 129, 192, 200, 255, 256, 257, 512, 640, 768, 960, 2432, 4032, 4096, 9000, 30000,
                                        65472, 65536, 70000, 131008, 131072, 200000 };
      size_t size = rng.below(4) ? sizes[rng.below(sizeof(sizes) / sizeof(sizes[0]))] : 1 + rng.below(6000);
      Live l;
      Error e = a->alloc(Out(l.span), size);
      if (!cap.valid) continue;
      r.cmd = fmt("A %zu", size);
      if (e == Error::kOk) {
        const Capture::Blk* b = blk_by_ptr(cap, l.span._block);
        if (b) { std::string dg = b->dg; std::replace(dg.begin(), dg.end(), ':', ' ');
                 r.ans = fmt("A ok %" PRId64 " %" PRId64 " %zu %s %" PRIu64 " %u", b->serial, int64_t(uintptr_t(l.span.rx()) - b->rx_base), l.span.size(), dg.c_str(), b->bytes, b->pool);
                 l.blk = b->serial; }
        else { r.ans = "A ok ?"; l.blk = -1; }
        l.aseq = cap.seq;
        live.push_back(l);
      } else r.ans = fmt("A %s", err_name(e, tmp));
    } else if (k < 70) {
      size_t i = rng.below(uint32_t(live.size()));
      Live l = live[i];
      Error e = a->release(l.span.rx());
      live[i] = live.back(); live.pop_back();
      if (!cap.valid) continue;
      r.cmd = "R"; r.aseq = l.aseq;
      const Capture::Blk* b = blk_by_serial(cap, l.blk);
      if (b) { std::string dg = b->dg; std::replace(dg.begin(), dg.end(), ':', ' '); r.ans = fmt("R %s %" PRId64 " %s", err_name(e, tmp), l.blk, dg.c_str()); }
      else r.ans = fmt("R %s %" PRId64 " deleted", err_name(e, tmp), l.blk);
    } else if (k < 82) {
      size_t i = rng.below(uint32_t(live.size()));
      // the three cases of C09_shrink_frame: fewer granules (m < n), the same number (m = n), more than the span has (refused)
      uint32_t which = rng.below(10);
      size_t cur = live[i].span.size();
      size_t ns = which == 0 ? cur : which == 1 ? cur + 1 + rng.below(200) : which == 2 ? (cur > 64 ? cur - rng.below(64) : cur) : 1 + rng.below(uint32_t(cur));
      Error e = a->shrink(live[i].span, ns);
      if (!cap.valid) continue;
      r.cmd = fmt("S %zu", ns); r.aseq = live[i].aseq;
      const Capture::Blk* b = blk_by_serial(cap, live[i].blk);
      if (b) { std::string dg = b->dg; std::replace(dg.begin(), dg.end(), ':', ' '); r.ans = fmt("S %s %zu %" PRId64 " %s", err_name(e, tmp), live[i].span.size(), live[i].blk, dg.c_str()); }
      else r.ans = fmt("S %s %zu %" PRId64 " deleted", err_name(e, tmp), live[i].span.size(), live[i].blk);
    } else if (k < 94) {
      size_t i = rng.below(uint32_t(live.size()));
      int64_t d = int64_t(rng.below(uint32_t(live[i].span.size())));
      JitAllocator::Span q;
      Error e = a->query(Out(q), static_cast<uint8_t*>(live[i].span.rx()) + d);
      if (!cap.valid) continue;
      r.cmd = fmt("Q %" PRId64, d); r.aseq = live[i].aseq;
      if (e == Error::kOk) {
        const Capture::Blk* b = blk_by_ptr(cap, q._block);
        r.ans = b ? fmt("Q ok %" PRId64 " %" PRId64 " %zu", b->serial, int64_t(uintptr_t(q.rx()) - b->rx_base), q.size()) : std::string("Q ok ?");
      } else r.ans = fmt("Q %s", err_name(e, tmp));
    } else {
      JitAllocator::Statistics st = a->statistics();
      if (!cap.valid) continue;
      r.cmd = "T";
      r.ans = fmt("T %zu %zu %zu %zu", st.block_count(), st.allocation_count(), st.used_size(), st.reserved_size());
    }
    r.seq = cap.seq; r.dline = cap.dline; r.tline = cap.tline;
    out->push_back(r);
    std::this_thread::yield();     // encourage thread switches between critical sections
  }
  // release everything that is still live (also sections)
  for (Live& l : live) {
    cap.valid = false;
    Error e = a->release(l.span.rx());
    if (!cap.valid) continue;
    Record r; r.tid = tid; r.cmd = "R"; r.aseq = l.aseq; r.seq = cap.seq; r.dline = cap.dline; r.tline = cap.tline;
    const Capture::Blk* b = blk_by_serial(cap, l.blk);
    if (b) { std::string dg = b->dg; std::replace(dg.begin(), dg.end(), ':', ' '); r.ans = fmt("R %s %" PRId64 " %s", err_name(e, tmp), l.blk, dg.c_str()); }
    else r.ans = fmt("R %s %" PRId64 " deleted", err_name(e, tmp), l.blk);
    out->push_back(r);
  }
  t_capture = nullptr;
}

int main(int argc, char** argv) {
  if (argc < 7) { fprintf(stderr, "usage: c11_sections seed threads ops opt granularity block_size\n"); return 2; }
  uint64_t seed = strtoull(argv[1], nullptr, 10);
  int threads = atoi(argv[2]);
  uint32_t ops = uint32_t(strtoul(argv[3], nullptr, 10));
  uint32_t opt = uint32_t(strtoul(argv[4], nullptr, 10));
  uint32_t gran = uint32_t(strtoul(argv[5], nullptr, 10));
  uint32_t bsize = uint32_t(strtoul(argv[6], nullptr, 10));
  (void)CpuInfo::host(); (void)VirtMem::info();

  JitAllocator::CreateParams params;
  params.options = JitAllocatorOptions(opt); params.granularity = gran; params.block_size = bsize; params.fill_pattern = 0xA5C3A5C3u;
  {
    JitAllocator allocator(&params);
    JitAllocatorPrivateImpl* impl = static_cast<JitAllocatorPrivateImpl*>(allocator._impl);
    printf("H %u %u %u ;; H %d %zu %u %u\n", gran, bsize, opt, int(allocator.is_initialized()), size_t(impl->pool_count), impl->granularity, impl->block_size);
    g_impl = impl;
    std::vector<std::vector<Record>> logs((size_t)threads);
    std::vector<std::thread> th;
    for (int t = 0; t < threads; t++) th.emplace_back(worker, &allocator, seed, t, threads, ops, &logs[size_t(t)]);
    for (auto& t : th) t.join();
    g_impl = nullptr;
    std::vector<Record> all;
    for (auto& l : logs) all.insert(all.end(), l.begin(), l.end());
    std::sort(all.begin(), all.end(), [](const Record& a, const Record& b) { return a.seq < b.seq; });
    for (const Record& r : all)
      printf("%" PRIu64 " %d %" PRIu64 " ;; %s ;; %s ;; %s ;; %s\n", r.seq, r.tid, r.aseq, r.cmd.c_str(), r.ans.c_str(), r.dline.c_str(), r.tline.c_str());
    printf("END sections=%zu threads=%d ops=%u opt=%u\n", all.size(), threads, ops, opt);
  }
  return 0;
}
